From FP Require Import Lexer Parser ShowPT Digest Formatter.
From Coq Require Import String List NArith.
Import ListNotations.
Open Scope string_scope.
Set Printing Width 100000000.
Set Printing Depth 100000000.
Definition show_fres (r : fres) : string :=
  match r with
  | FOk s => "OK:" ++ sh_escaped s ""
  | FErr s => "ERR:" ++ sh_escaped s ""
  | FPanic p => "PANIC:" ++ p
  end.
Definition check (rs : list rune) : string := digest (show_fres (format_res rs)).
Definition full (rs : list rune) : string := show_fres (format_res rs).
Eval vm_compute in ("<<<M1529>>>" ++ check (runes_of_ascii "// c
  	packet uint8x{

    @tag( 65535	)

x_y_z,char[]

a1  @calculatedFrom(

""`tick`""
) , @tag( 1) @tag(  1 )@tag( 4294967296
	)  repeat string rootA  `tab	here` ,repeat i32

tag, }packet
pack 
{
    @calculatedFrom(
    ""// no comment"")

@lengthOf( uint8x
    )	string
zchar @calculatedFrom(
""`tick`""
    ) 
,
	}root  packet

tag
	{ 	 // trailing space 
@tag(
    42/// triple
		)

    @lengthOf(As )  @leftPad  ( '0'
    ) match u128

    as

float { [

    00] :  charz  ,

}
    ,
} packet	chars

    {  @leftPad (  '\x00'

)char[ 10

    ]

    len
	@calculatedFrom( ""a	b"") 
,@tag(00)@tag( 
10

)uint64  matchKey
    , x_y_z {	repeat 	 // packet A { u8 x, }
  string

rootA`doc`  ,

    tag// packet A { u8 x, }
  ,
repeat char  
      //x
	//	t
	MetaDataX

,
int64
    asx
	// 50% %s
  	,} , 	 // trailing space 
    	i16
	stringy,
	match 
x_y_z  as
BodyLength//x
		{ [  ""\" ++ [233]%N ++ runes_of_ascii """ ,
""" ++ [28040; 24687]%N ++ runes_of_ascii """,
	7

,
    0	,
	7 ,  4294967296
	]
    :

    A

, // " ++ [128512]%N ++ runes_of_ascii " emoji
},

    @calculatedFrom(
    ""\n"" )
    @leftPad 
	    //

  ( 
)
	f64 
msg_type

    ,repeat

    Logon
	`say ""hi""`
    , @tag(
007)
match
crc
as

    msg_type  {
	[ ""a\\"" 
,

0123456789 ,
""`tick`"" ,
	""" ++ [233]%N ++ runes_of_ascii "t" ++ [233]%N ++ runes_of_ascii """

,
    //
// trailing space 
  	""{,}"" , 	 // a // b
	255  ,
	0123456789 
      //
  ]: // packet A { u8 x, }
	  Header
	0123456789
	:
len // c

,
65535 : BodyLength	, ""CRC32""
    :

    string_	// " ++ [128512]%N ++ runes_of_ascii " emoji
,
    4294967296

    :  len
,
""" ++ [28040; 24687]%N ++ runes_of_ascii """:
trueish
}

    ,repeat

string u
	,
	lengthOf Z9_  `{ , }`
,
	} // 50% %s
  	packet 
trueish

    {

f32
Logon	@calculatedFrom(

""1"" )
    ,  i64

matchKey@calculatedFrom( ""x y""// a // b
  )	//x
    `" ++ [28040; 24687; 31867; 22411]%N ++ runes_of_ascii "` 
,i8i8`it's` , msg_type,	uint8
	lengthOf,
	int

trueish , char[ 0123456789 ] uint8x ,
	i8

    int@lengthOf( msg_type	)

`say ""hi""` , @rightPad 
(
) repeat f64 Z9_,
metadata{  falsey@calculatedFrom(
	""abc""
	)
    ,

} 	 //
		,	}")).
Eval vm_compute in ("<<<M379>>>" ++ check (runes_of_ascii "options {
	StringPrefixLenType = u16;
	ArrayPrefixLenType = u16;
}

packet SampleBinary {
    uint16 MsgType `" ++ [28040; 24687; 31867; 22411]%N ++ runes_of_ascii "`,
    u16 BodyLenght @lengthOf(Body) `" ++ [28040; 24687; 20307; 38271; 24230]%N ++ runes_of_ascii "`,
    match MsgType as Body {
        1 : Logon,
        2 : Logout,
        3 : Heartbeat,
        4 : RiskControlRequest,
        5 : RiskControlResponse,
    },
        @calculatedFrom(""CRC32"")
    u32 Ckecksum `" ++ [26657; 39564; 21644]%N ++ runes_of_ascii "`,
}

packet Logon {
     @leftPad('0')
    char[10] UserName `" ++ [29992; 25143; 21517]%N ++ runes_of_ascii "`,
    string Password `" ++ [23494; 30721]%N ++ runes_of_ascii "`,
    uint64 ClientId `" ++ [23458; 25143; 31471]%N ++ runes_of_ascii "ID`,
    u16 HeartbeatInterval `" ++ [24515; 36339; 38388; 38548]%N ++ runes_of_ascii "`,
}

packet Logout {
      @rightPad('0')
    char[10] UserName `" ++ [29992; 25143; 21517]%N ++ runes_of_ascii "`,
    uint64 ClientId `" ++ [23458; 25143; 31471]%N ++ runes_of_ascii "ID`,
}

packet Heartbeat {
}

packet RiskControlRequest {
    string UniqueOrderId `" ++ [21807; 19968; 35746; 21333; 21495]%N ++ runes_of_ascii "`,
    char[16] ClOrdID `" ++ [23458; 25143; 35746; 21333; 21495]%N ++ runes_of_ascii "`,
    char[3] MarketID `" ++ [24066; 22330]%N ++ runes_of_ascii "id`,
    char[12] SecurityID `" ++ [35777; 21048; 20195; 30721]%N ++ runes_of_ascii "`,
    char Side `" ++ [20080; 21334; 26041; 21521]%N ++ runes_of_ascii "`,
    char OrderType `" ++ [35746; 21333; 31867; 22411]%N ++ runes_of_ascii "`,
    u64 Price `" ++ [20215; 26684]%N ++ runes_of_ascii "`,
    u32 Qty `" ++ [25968; 37327]%N ++ runes_of_ascii "`,
    repeat string ExtraInfo `" ++ [38468; 21152; 20449; 24687]%N ++ runes_of_ascii "`,
    repeat SubOrder {
    		char[16] ClOrdID `" ++ [23376; 35746; 21333; 21495]%N ++ runes_of_ascii "`,
    		u64 Price `" ++ [23376; 35746; 21333; 20215; 26684]%N ++ runes_of_ascii "`,
    		u32 Qty `" ++ [23376; 35746; 21333; 25968; 37327]%N ++ runes_of_ascii "`,
    	},
}

packet RiskControlResponse {
    string UniqueOrderId `" ++ [21807; 19968; 35746; 21333; 21495]%N ++ runes_of_ascii "`,
    i32 Status `" ++ [29366; 24577]%N ++ runes_of_ascii "`,
    string Msg `" ++ [32467; 26524; 20449; 24687]%N ++ runes_of_ascii "`,
    repeat Detail,
}

packet Detail {
    string RuleName `" ++ [35268; 21017; 21517; 31216]%N ++ runes_of_ascii "`,
    u16 Code `" ++ [21407; 22240; 20195; 30721]%N ++ runes_of_ascii "`,
}")).
Eval vm_compute in ("<<<M1636>>>" ++ check (runes_of_ascii "options {
}

packet x {
    repeat rootA {
        repeat string Header,
    },
    chars float,
    @tag(65535)
    x_y_z {
        repeat T `// not a comment`,
        string string_ @lengthOf(x_y_z) `say ""hi""`,
        Header len ``,
        string lengthOf,
    },
    @tag(0123456789)
    match crc as BodyLength {
        ""\" ++ [233]%N ++ runes_of_ascii """ : repeatCount,
        65535 : i8i8,
        0 : A,
        [""a	b"", 7] : packetx,
    },
    @lengthOf(charz)
    match body as uint8x {
        // 50% %s
        00 : stringy,
        [007, ""`tick`"", ""\n""] : T,
        [""// no comment"", ""a\\""] : float,
        [10] : A,
        ""a	b"" : roots,
    },
    pack {
        match Pad as calculatedFrom {
            255 : string_,
            """ ++ [28040; 24687]%N ++ runes_of_ascii """ : i64_,
        },// " ++ [27880; 37322]%N ++ runes_of_ascii "
        uint32 matchKey @calculatedFrom(""1""),
        len leftPad,
        repeat MetaDataX {
            i64 len,
        },
    },
    char[] tag @calculatedFrom(""packet"") `line1
    line2`,
    float,
    uint8x @lengthOf(crc) `it's`,
    @tag(007)
    float32 tag @calculatedFrom(""" ++ [233]%N ++ runes_of_ascii "t" ++ [233]%N ++ runes_of_ascii """),
}")).
Eval vm_compute in ("<<<M122>>>" ++ check (runes_of_ascii "
packet metadata { float // " ++ [27880; 37322]%N ++ runes_of_ascii "
, repeat string calculatedFrom , @rightPad ( ' ' ) chars
a1,
    @leftPad ('0')	@tag(
    255 ) @calculatedFrom( """ ++ [233]%N ++ runes_of_ascii "t" ++ [233]%N ++ runes_of_ascii """ )
match trueish as x { // packet A { u8 x, }
""x y"":
calculatedFrom [
    42 ]
    // 50% %s
    : float ,  3 // @lengthOf(
:packetx // c
,
} ,
zchar[ 00 ]	crc , repeat
char[ 1 ] roots`doc` ,// trailing space 
match float as Logon
{
7 :metadata,
    },@lengthOf(
    Logon )
    @tag(
    00 ) @tag(42 )
    match Logon as options1
{7 :MetaDataX 3
:// " ++ [128512]%N ++ runes_of_ascii " emoji
calculatedFrom ,10 :Pad // 50% %s
, [
    """ ++ [128512]%N ++ runes_of_ascii """ , ""// no comment""
]: packetx
,
[ 42
, ""packet"" , ""1""
,
""a\""b""
, 42 ]: Z9_ },
    float32// a // b
falsey //	t
`{ , }` ,
@calculatedFrom( ""CRC32"" )i64 As
    `doc`
    ,
}/// triple
packet	_x // " ++ [27880; 37322]%N ++ runes_of_ascii "
{
repeat
    //	t
    u {
    // " ++ [27880; 37322]%N ++ runes_of_ascii "
    repeat zchar calculatedFrom//	t
`a\` , leftPad A
`it's` , string leftPad @lengthOf(Pad )``, } ,
    }
// a // b
")).
Eval vm_compute in ("<<<M1583>>>" ++ check (runes_of_ascii "
// a // b
  packet

    rootA
    {@tag(

    0
)
string falsey @calculatedFrom(  ""// no comment"" 
)	,  u32
string_

,	}
	packet  Header	{ 
        //	t

	repeat 	 // c
      zchar[10	// " ++ [27880; 37322]%N ++ runes_of_ascii "
] 
Header`" ++ [28040; 24687; 31867; 22411]%N ++ runes_of_ascii "`
,}root
    packet 	 // trailing space 
		charz
    {
@tag(42
    )	f32	Z9_  // packet A { u8 x, }

  @calculatedFrom( ""a\""b"")  `it's`

    , @calculatedFrom(	""\" ++ [233]%N ++ runes_of_ascii """
	)match

    rootA  as
    rootA  {
    """ ++ [28040; 24687]%N ++ runes_of_ascii """:
//	t
  x	7//
	  :
    charz }	, // c
  int64
metadata @calculatedFrom(

    """ ++ [233]%N ++ runes_of_ascii "t" ++ [233]%N ++ runes_of_ascii """  )
    ,
	match  i8i8
    as
	i64_
    { 3  : Logon
	, [
	7, 
""" ++ [28040; 24687]%N ++ runes_of_ascii """
]: repeatCount
    // `tick` ""quote"" 'q'
,  ""\" ++ [233]%N ++ runes_of_ascii """
:msg_type  //
	,
} 
        //
		, @lengthOf(

    Logon

    )
repeat

    leftPad
    BodyLength,repeat //	t
uint8x `
`
	,
} ")).
Eval vm_compute in ("<<<M1970>>>" ++ check (runes_of_ascii "root packet crc {
    MetaDataX @calculatedFrom(""// no comment""),// " ++ [27880; 37322]%N ++ runes_of_ascii "
    @calculatedFrom("""")
    // trailing space 
    len metadata,
    @tag(0)
    // `tick` ""quote"" 'q'
    // c
    char As `doc`,
    @lengthOf(crc)
    repeat leftPad {
        repeat chars u8x `// not a comment`,
        uint8x {
            repeat char[10] crc,
            options1,
        },
        // " ++ [128512]%N ++ runes_of_ascii " emoji
        // trailing space 
        match leftPad as Packet {
            ""// no comment"" : chars,
            [42, 0] : a1,
            // c
            ""\n"" : len,
            3 : Header,
        },
        char[] options1 @lengthOf(f32a) `
                `,
    },// a // b
}")).
Eval vm_compute in ("<<<M1195>>>" ++ check (runes_of_ascii "// top
options // c0
{ // c1
} // c2
MetaData // c3
packetx // c4
{ // c5
int // c6
falsey // c7
`two words` // c8
, // c9
int32 // c10
trueish // c11
, // c12
char[] // c13
u8x // c14
, // c15
A // c16
x // c17
`// not a comment` // c18
, // c19
} // c20
root // c21
packet // c22
i8i8 // c23
{ // c24
@lengthOf( // c25
repeatCount // c26
) // c27
@tag( // c28
1 // c29
) // c30
@calculatedFrom( // c31
""a	b"" // c32
) // c33
string // c34
stringy // c35
@calculatedFrom( // c36
""\n"" // c37
) // c38
`line1
line2` // c39
, // c40
pack // c41
`100% of %d` // c42
, // c43
} // c44
")).
Eval vm_compute in ("<<<M342>>>" ++ check (runes_of_ascii "packet x
{ @lengthOf( options1
//
//x
)
uint8
    MetaDataX
`// not a comment`
    , packetx ,  @tag(
42  )
_x
@calculatedFrom(
// " ++ [27880; 37322]%N ++ runes_of_ascii "
//
""abc"" ) `" ++ [28040; 24687; 31867; 22411]%N ++ runes_of_ascii "`  , @lengthOf( stringy)string trueish
`
` , o	stringy`{ , }` , zchar[ 007 ] Logon , // 50% %s
@rightPad
(	'\x00'
)repeat// 50% %s
lengthOf{char[
    65535 ]u128 ,int8 A , body { match // trailing space 
x
as
options1 {
7:
    // trailing space 
    roots // " ++ [128512]%N ++ runes_of_ascii " emoji
""CRC32""
:// packet A { u8 x, }
i8i8  , }
,
} , } , }
    //	t
    packet As {
} // @lengthOf(")).
Eval vm_compute in ("<<<M1160>>>" ++ check (runes_of_ascii "// top
MetaData
    // c0
x
    // c1
{
    // c2
f32a
    // c3
Pad
    // c4
``
    // c5
,
    // c6
}
    // c7
packet
    // c8
leftPad
    // c9
{
    // c10
repeat
    // c11
int64
    // c12
crc
    // c13
,
    // c14
BodyLength
    // c15
{
    // c16
uint8
    // c17
pack
    // c18
`say ""hi""`
    // c19
,
    // c20
lengthOf
    // c21
@lengthOf(
    // c22
asx
    // c23
)
    // c24
`" ++ [28040; 24687; 31867; 22411]%N ++ runes_of_ascii "`
    // c25
,
    // c26
}
    // c27
,
    // c28
}
    // c29
")).
Eval vm_compute in ("<<<M1475>>>" ++ check (runes_of_ascii "// top
options {
    // c1
    uint8x = 007;// c5
    lengthOf = i8;// c9
}// c10

packet i64_ {
    // c13
    @calculatedFrom(""1"")
    // c16
    @tag(3)
    // c19
    @lengthOf(rootA)
    // c22
    repeat int8 Packet `tab	here`,// c27
}// c28

packet _x {
    // c31
    matchKey x `" ++ [28040; 24687; 31867; 22411]%N ++ runes_of_ascii "`,// c35
    int32 calculatedFrom `100% of %d`,// c39
    @lengthOf(trueish)
    // c42
    Packet,// c44
    repeat f32 o,// c48
}// c49")).
Eval vm_compute in ("<<<M1614>>>" ++ check (runes_of_ascii "packet _x {
    calculatedFrom @lengthOf(roots) `it's`,
    match metadata as BodyLength {
        [
            10, 10, ""a\""b"", """", ""\n"",
            ""a\\"", 4294967296
        ] : u,
    },
    repeat i64_ Packet `{ , }`,// packet A { u8 x, }
    @tag(65535)
    char[] float `crlf
    line`,
    char[7] x @calculatedFrom(""{,}""),
    @leftPad( )
    u64 stringy @calculatedFrom(""\" ++ [233]%N ++ runes_of_ascii """),
}

packet A {
}")).
Eval vm_compute in ("<<<M1493>>>" ++ check (runes_of_ascii "options
{ StringPrefixLenType =
	u16	; 
ArrayPrefixLenType
	= u64;  }
packet
    Order {
	float64 Ref
    ,
	repeat
	i32
    lastPx
	,

    }

    packet
	Fill
	{zchar[ 9 ] Ref	,
	zchar[  4]Px
	,
	Order

    , int8
    count
    , }
packet Cancel{	i16 Side2
	, Order
	,
}root
    packet
Party	{  float64
    Px

    ,

zchar[1
]
	clOrdID ,

    } ")).
Eval vm_compute in ("<<<M241>>>" ++ check (runes_of_ascii "MetaData A { u32 charz `doc` , // 50% %s
char[ 255 ] packetx ,uint64
f32a `" ++ [233]%N ++ runes_of_ascii "` ,
x Packet  `{ , }`
,}MetaData BodyLength {	zchar[ 007
] Packet ,
    BodyLength leftPad ,char	packetx , zchar[ 3 ]
    // @lengthOf(
    _x // trailing space 
, string i8i8 ,
} MetaData MetaDataX	{	metadata BodyLength
/// triple
// 50% %s
`doc` , }
")).
Eval vm_compute in ("<<<M1319>>>" ++ check (runes_of_ascii "packet A {
    u8 a,
}
packet B {
    u16 b,
}
packet C {
    u32 c,
}
root packet M {
    u16 Kc, u16 Kb, u16 Ka,
    match Kc as X {
        9 : A,
        10 : B,
    },
    match Kb as Y {
        2 : C,
        1 : A,
    },
    match Ka as Z {
        1 : B,
    },
    A, B, C,
}
")).
Eval vm_compute in ("<<<M1397>>>" ++ check (runes_of_ascii "options {
    LittleEndian = true;
}
packet Sub {
    u8 a,
    u16 SubSum @calculatedFrom(""CRC16""),
}
root packet Frame {
    u16 MsgType,
    u16 BodyLen @lengthOf(Body),
    Sub Body,
    string note,
    u16 Checksum @calculatedFrom(""CRC16""),
    u8 tail,
}
")).
Eval vm_compute in ("<<<M399>>>" ++ check (runes_of_ascii "packet
    asx options @calculatedFrom(
""""  ) @tag( 255 )repeat
// packet A { u8 x, }
// trailing space 
int16 u8x
,
@tag(
    //
    007 )
    @tag( 0
    /// triple
    ) @tag( 1) u
    @lengthOf( T ),
// `tick` ""quote"" 'q'
//x
} // " ++ [128512]%N ++ runes_of_ascii " emoji")).
Eval vm_compute in ("<<<M469>>>" ++ check (runes_of_ascii "packet
    asx { @calculatedFrom(
""""  ) @tag( 255 )repeat
// packet A { u8 x, }
// trailing space 
int16 u8x
,
@tag(
    //
    007 )
    float64 0
    /// triple
    ) @tag( 1) u
    @lengthOf( T ),
// `tick` ""quote"" 'q'
//x
} // " ++ [128512]%N ++ runes_of_ascii " emoji")).
Eval vm_compute in ("<<<M408>>>" ++ check (runes_of_ascii "packet
    asx { @calculatedFrom(
)  """" @tag( 255 )repeat
// packet A { u8 x, }
// trailing space 
int16 u8x
,
@tag(
    //
    007 )
    @tag( 0
    /// triple
    ) @tag( 1) u
    @lengthOf( T ),
// `tick` ""quote"" 'q'
//x
} // " ++ [128512]%N ++ runes_of_ascii " emoji")).
Eval vm_compute in ("<<<M112>>>" ++ check (runes_of_ascii "packet
    options1 { @calculatedFrom( """" )@rightPad
    ( '\x00'	) char[007] msg_type ,	i64 Header
`" ++ [233]%N ++ runes_of_ascii "` ,
    //	t
    @calculatedFrom( ""packet"" )  @calculatedFrom( ""`tick`"" ) @calculatedFrom( ""a	b"" )
    i32 options1 @lengthOf(Pad )  ,}
")).
Eval vm_compute in ("<<<M164>>>" ++ check (runes_of_ascii "options {falsey = 42 }  options { A
= 0123456789 ; options1 =	""// no comment""o = ""// no comment"" ; u8x =
// 50% %s
// 50% %s
true ;
} root packet Z9_ // " ++ [128512]%N ++ runes_of_ascii " emoji
{	} root packet
o
    {
@tag(65535 )repeat f32 Logon `100% of %d` ,}
")).
Eval vm_compute in ("<<<M1689>>>" ++ check (runes_of_ascii "packet asx {
    @calculatedFrom("""")
    @tag(255)
    // packet A { u8 x, }
    // trailing space 
    int16 u8x,
    @tag(007)
    @tag(0)
    @tag(1)
    u @lengthOf(T),
    // `tick` ""quote"" 'q'
    //x
}// " ++ [128512]%N ++ runes_of_ascii " emoji")).
Eval vm_compute in ("<<<M510>>>" ++ check (runes_of_ascii "packet
    asx { @calculatedFrom(
""""  ) @tag( 255 )repeat
// packet A { u8 x, }
// trailing space 
int16 u8x
,
@tag(
    //
    007 )
    @tag( 0
    /// triple
    ) @tag( 1) u
    @lengthOf(")).
Eval vm_compute in ("<<<M1837>>>" ++ check (runes_of_ascii "packet T {
}

MetaData lengthOf {
    char[4294967296] a1,
    float64 body `100% of %d`,
    asx Foo,
    u8x pack,
    zchar[0123456789] Z9_,
    char As `crlf
        line`,
}")).
Eval vm_compute in ("<<<M1762>>>" ++ check (runes_of_ascii "packet asx {
    @calculatedFrom("""")
    @tag(255)
    repeat u8x,
    @tag(007)
    @tag(0)
    @tag(1)
    u @lengthOf(T),
    // `tick` ""quote"" 'q'
    //x
}// " ++ [128512]%N ++ runes_of_ascii " emoji")).
Eval vm_compute in ("<<<M612>>>" ++ check (runes_of_ascii "MetaData u
    { } MetaData o
{ float uint8x
`100% of %d` ,repeatCount u8x, , string_ leftPad
, i32
    Foo , int64 x `two words` , calculatedFrom
stringy `a\` ,
}
")).
Eval vm_compute in ("<<<M558>>>" ++ check (runes_of_ascii "MetaData u
    } { MetaData o
{ float uint8x
`100% of %d` ,repeatCount u8x, string_ leftPad
, i32
    Foo , int64 x `two words` , calculatedFrom
stringy `a\` ,
}
")).
Eval vm_compute in ("<<<M551>>>" ++ check (runes_of_ascii "MetaData 
    { } MetaData o
{ float uint8x
`100% of %d` ,repeatCount u8x, string_ leftPad
, i32
    Foo , int64 x `two words` , calculatedFrom
stringy `a\` ,
}
")).
Eval vm_compute in ("<<<M709>>>" ++ check (runes_of_ascii "packet
crc
{repeat  Foo A   ,	@lengthOf( uint8x ) string
matchKey @lengthOf( stringy ) `a\`
,
    // c
    }
MetaData chars{
leftPad
    //	t
    crc
`" ++ [233]%N ++ runes_of_ascii "`
,}")).
Eval vm_compute in ("<<<M1449>>>" ++ check (runes_of_ascii "packet A {
    match k as n {
        [
            ""a"", ""bb"", ""c c"", ""d"", ""e"",
            ""f"", ""g"", ""h"", ""i"", ""j""
        ] : B,
        2 : C,
    },
}")).
Eval vm_compute in ("<<<M1283>>>" ++ check (runes_of_ascii "

  options
{

    LittleEndian =
true; }
packet 
B 
{ u8
    a 
,  string s,
    } root
packet
	P
	{ u16
L@lengthOf(
B )
,

B

,	u8

t, 
}
")).
Eval vm_compute in ("<<<M690>>>" ++ check (runes_of_ascii "MetaData u
    { } MetaData o
{ float uint8x
`100% of %d` ,repeatCount u8x, string_ leftPad
, i32
    Foo , int64 x `two words` , cal")).
Eval vm_compute in ("<<<M1451>>>" ++ check (runes_of_ascii "
packet

    u8x	{ 
}

MetaData
Pad{ //
  trueish  lengthOf 	 // 50% %s
  ,

}root packet

trueish
	{ 
//
	// 50% %s

}

")).
Eval vm_compute in ("<<<M1657>>>" ++ check (runes_of_ascii "root packet f32a {
    float32 pack `// not a comment`,// `tick` ""quote"" 'q'
}

packet chars {
    //	t
    // " ++ [128512]%N ++ runes_of_ascii " emoji
}")).
Eval vm_compute in ("<<<M1204>>>" ++ check (runes_of_ascii "options
// c
{ } options { MetaDataX = char ; } MetaData Pad { i8 metadata , string stringy , int8 As `{ , }` , }")).
Eval vm_compute in ("<<<M1236>>>" ++ check (runes_of_ascii "options { } options { MetaDataX = char ; } MetaData Pad { i8 metadata , string
// c
stringy , int8 As `{ , }` , }")).
Eval vm_compute in ("<<<M917>>>" ++ check (runes_of_ascii "packet A {
    u16 len @lengthOf(body) `a
b`,
    u32 crc @calculatedFrom(""CRC32"") `a
b`,
    string body,
}")).
Eval vm_compute in ("<<<M373>>>" ++ check (runes_of_ascii "
MetaData //x
o {
i8
    lengthOf `two words` , msg_type MetaDataX ``
, /// triple
u32 int `a\` , }")).
Eval vm_compute in ("<<<M1482>>>" ++ check (runes_of_ascii "options{

asx 
// " ++ [128512]%N ++ runes_of_ascii " emoji
    =  char  }	options  {
    }

packet
    BodyLength {

a1 uint8x ,

}
")).
Eval vm_compute in ("<<<M869>>>" ++ check (runes_of_ascii "packet A {
  match k as n {
    [""a"", 22, ""c c"", 4, ""e"", 66, ""g"", 8, ""i""] : B,
    2 : C
  },
}")).
Eval vm_compute in ("<<<M249>>>" ++ check (runes_of_ascii "MetaData charz
{
    pack MetaDataX
    , falsey crc  , u32
    u `// not a comment`
,}
")).
Eval vm_compute in ("<<<M827>>>" ++ check (runes_of_ascii "packet A {
  match k as n {
    [""a"", ""bb"", ""c c"", ""d"", ""e"", ""f""] : B
    2 : C
  },
}")).
Eval vm_compute in ("<<<M1769>>>" ++ check (runes_of_ascii "root 
packet
Packet{ match

    f32a
    as
Foo// " ++ [27880; 37322]%N ++ runes_of_ascii "
{
    1 :
    tag	, }
, }")).
Eval vm_compute in ("<<<M1263>>>" ++ check (runes_of_ascii "packet Inner {
    u8 a,
}
root packet P {
    repeat Inner items,
    u8 x,
}
")).
Eval vm_compute in ("<<<M819>>>" ++ check (runes_of_ascii "packet A {
  match k as n {
    [1, 22, ""c c"", 4, 5] : B,
    2 : C
  },
}")).
Eval vm_compute in ("<<<M812>>>" ++ check (runes_of_ascii "packet A {
  match k as n {
    [1, 22, 007, 4, 5] : B
    2 : C
  },
}")).
Eval vm_compute in ("<<<M1300>>>" ++ check (runes_of_ascii "  root packet P

    {
repeat
	string  ss, 
repeat
u16 ns
	, }
")).
Eval vm_compute in ("<<<M275>>>" ++ check (runes_of_ascii "  root packet lengthOf { repeatCount { uint64 u8x , }
    , }")).
Eval vm_compute in ("<<<M1869>>>" ++ check (runes_of_ascii "root packet P {
    repeat string ss,
    repeat u16 ns,
}")).
Eval vm_compute in ("<<<M1704>>>" ++ check (runes_of_ascii "packet A {
    u8 x `a
            b
          c`,
}")).
Eval vm_compute in ("<<<M425>>>" ++ check (runes_of_ascii "packet
    asx { @calculatedFrom(
""""  ) @tag(")).
Eval vm_compute in ("<<<M1085>>>" ++ check (runes_of_ascii "packet A {
    u8 x,    // c    u8 y,
}")).
Eval vm_compute in ("<<<M1297>>>" ++ check (runes_of_ascii "  root 
packet 
P 
{
	string
	s,  }

")).
Eval vm_compute in ("<<<M1416>>>" ++ check (runes_of_ascii "
// c 	
    packet
A
	{

    }

")).
Eval vm_compute in ("<<<M932>>>" ++ check (runes_of_ascii "root packet A {
    u8 x `
`,
}")).
Eval vm_compute in ("<<<M174>>>" ++ check (runes_of_ascii "packet T  { string pack , }
")).
Eval vm_compute in ("<<<M1955>>>" ++ check (runes_of_ascii "packet

A

{  } 	 // c" ++ [8239]%N ++ runes_of_ascii "
")).
Eval vm_compute in ("<<<M1130>>>" ++ check (runes_of_ascii "MetaData tag { } // c
")).
Eval vm_compute in ("<<<M995>>>" ++ check (runes_of_ascii "packet A {
}
// c ")).
Eval vm_compute in ("<<<M1076>>>" ++ check (runes_of_ascii "// c" ++ [6158]%N ++ runes_of_ascii "
packet A {
}")).
Eval vm_compute in ("<<<M1171>>>" ++ check (runes_of_ascii "packet x { // c
}")).
Eval vm_compute in ("<<<M560>>>" ++ check (runes_of_ascii "MetaData u")).
Eval vm_compute in ("<<<M159>>>" ++ check (runes_of_ascii "  
")).
