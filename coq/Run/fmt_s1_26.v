From FP Require Import Lexer Parser ShowPT Digest Formatter.
From Coq Require Import String List NArith.
Import ListNotations.
Open Scope string_scope.
Set Printing Width 100000000.
Set Printing Depth 100000000.
Definition show_fres (r : fres) : string :=
  match r with
  | FOk s => "OK:" ++ sh_escaped s ""
  | FErr s => "ERR:" ++ sh_escaped s ""
  | FPanic p => "PANIC:" ++ p
  end.
Definition check (rs : list rune) : string := digest (show_fres (format_res rs)).
Definition full (rs : list rune) : string := show_fres (format_res rs).
Eval vm_compute in ("<<<M3567>>>" ++ check (runes_of_ascii "

  options

    { }
options
{

    o
=uint64 	 // " ++ [128512]%N ++ runes_of_ascii " emoji
    u	= u8 ;  charz =
	00// c
  }packet 	 //	t
  BodyLength 
{
match
u // a // b

	as uint8x {

    65535	:// 50% %s
  MetaDataX // " ++ [27880; 37322]%N ++ runes_of_ascii "
	, [
    ""CRC32"" ,0// a // b
	,
    65535
    ,
""CRC32"" , ""\n"" ] 
:
	Foo	,

[
65535  , """ ++ [233]%N ++ runes_of_ascii "t" ++ [233]%N ++ runes_of_ascii """, 
""// no comment""  
      // c
, 0123456789  ,  """ ++ [28040; 24687]%N ++ runes_of_ascii """

    ,

0	, 
""a	b""// " ++ [128512]%N ++ runes_of_ascii " emoji
    ,
0123456789
] :Logon,	[
""{,}""
,  // trailing space 
  1 ]  :a1
    ,	[	""" ++ [128512]%N ++ runes_of_ascii """
	]	// a // b
  	:
	int  , 65535: 
	    // packet A { u8 x, }
i8i8

    ,  }

,

    repeat 
Packet

i8i8
`// not a comment` 	 // " ++ [128512]%N ++ runes_of_ascii " emoji
  ,repeat A
    A `doc` ,
char[ 65535
	]	roots

@calculatedFrom( 
""packet"" )  , repeat
int32 trueish

, // trailing space 
      Z9_ body  `
` 
    // " ++ [27880; 37322]%N ++ runes_of_ascii "
	,

    @rightPad	(
'0'
	// " ++ [27880; 37322]%N ++ runes_of_ascii "
    // trailing space 
)	i8i8 ,
} 
packet

Pad
	{
@rightPad  
  // packet A { u8 x, }
	  // @lengthOf(

  ( '\x00')
match  i8i8 as

    Foo

{
    //x

//	t
	0123456789	:
	As
, ""\" ++ [233]%N ++ runes_of_ascii """ :i64_
3 

// 50% %s
	// a // b
  :len

    42
    :f32a , // packet A { u8 x, }
		[
	1  ,  """ ++ [233]%N ++ runes_of_ascii "t" ++ [233]%N ++ runes_of_ascii """
,""a\""b"" ,

    42 , 007

    ,
4294967296	,
	    // @lengthOf(

  7 ] :
o  ,
[007 
,
    10  ] 
    // " ++ [27880; 37322]%N ++ runes_of_ascii "
    	:
u8x
,

    },
	match

_x

as	u128
{

7
	:  stringy	,
    1
: packetx	,  ""1"" :	charz
	, 42
:
MetaDataX ,
""\" ++ [233]%N ++ runes_of_ascii """:

    _x
    ,

[  3 ,
""`tick`""

]:
	BodyLength }

,  @tag(
    007
	)
	@tag(	1)
    @tag( 
10 )

u16 packetx

    `u8 x,`  ,	@rightPad	('0'

) u128
{  Foo
{
repeat Foo msg_type
,repeat	char[  7]
i64_ , u

@calculatedFrom(
""\" ++ [233]%N ++ runes_of_ascii """ )
    ,
}
    ,
zchar[
3

]
	// @lengthOf(
	Foo  `" ++ [233]%N ++ runes_of_ascii "` ,u128

// " ++ [128512]%N ++ runes_of_ascii " emoji
, }  
      //	t

// `tick` ""quote"" 'q'
  ,char[
	10]	// packet A { u8 x, }
	body  //
,
	}packet 
_x
{
@lengthOf(

    trueish )

    @leftPad
    (
'0')
	int32
	As	// a // b
,
options1
    { repeat//

int{

uint16 u// " ++ [128512]%N ++ runes_of_ascii " emoji
	,
zchar

`a\`,

    char[]
	trueish  ,
	} , 

    //x
  // @lengthOf(
  }

    , 
	    //
      //	t
int ,@tag(
65535

    ) char[] roots  ,
    } ")).
Eval vm_compute in ("<<<M4349>>>" ++ check (runes_of_ascii "  //
  MetaData	u8x { f64  //x
	Z9_  `` 
, char[

    3 ]  _x ,

u8x  matchKey ,
    char[
	1
	] int

// `tick` ""quote"" 'q'
    // packet A { u8 x, }
	`tab	here` ,
	i32
matchKey
`` , msg_type Logon ,

    } root  packet
charz	{ zchar { repeat

    MetaDataX	// `tick` ""quote"" 'q'
	  { char[ 10
]

Pad	@calculatedFrom(""packet"" 
) 
,
    zchar[ 
0123456789	]
    o  @lengthOf(
	rootA )
,	zchar[	0

]
    u128

,
u32  uint8x @calculatedFrom( 
""{,}"" ) ,

} ,match 
zchar as  trueish
    {""packet""  :
	string_
    ,
    [
00
    , 
	    // packet A { u8 x, }

// " ++ [27880; 37322]%N ++ runes_of_ascii "
    	""1""
    ]
:
repeatCount ,
    ""\n""  :

tag ,

""1""
:

matchKey
    ,  },
	}

,match
string_ 
as

    BodyLength { 
""" ++ [233]%N ++ runes_of_ascii "t" ++ [233]%N ++ runes_of_ascii """ :

A
	,
[
0 
, 1  ,  """ ++ [128512]%N ++ runes_of_ascii """
    ,""`tick`""
]:	uint8x

    ,""" ++ [28040; 24687]%N ++ runes_of_ascii """ 
:

string_

    ,}

    // " ++ [128512]%N ++ runes_of_ascii " emoji
  , 	 /// triple
    	@lengthOf(
i64_

    ) i8 stringy@calculatedFrom( // 50% %s
    	""1"") ,zchar[
    0  ]	charz 
,  @lengthOf(  matchKey 
) repeat

    As
	leftPad ,
@calculatedFrom(

    ""\" ++ [233]%N ++ runes_of_ascii """
	)	match
	Header	as

    i64_  { 
7	: 
stringy
, 
""// no comment""	:

    _x
,	// " ++ [27880; 37322]%N ++ runes_of_ascii "
	0  : options1
,
    [""// no comment""  ,
	""packet""  ,
""x y""

    , ""a\""b""

,""""
    ,
00	,
    00 , 
7  ]: 
As
,[ 007 
]
	:

    zchar 
    // a // b
  //
  ,
    }	//
,	// " ++ [27880; 37322]%N ++ runes_of_ascii "
} packet
    metadata  //
    {

    match  string_  // a // b
	as 
x	{ 
	// 50% %s
  //
  ""1""  :
    tag [ ""1""]	//x

:
metadata	,

    } ,
	zchar[
255]
// a // b
matchKey , @calculatedFrom( ""a	b"" 	 // @lengthOf(

	)
    u64
	As // " ++ [27880; 37322]%N ++ runes_of_ascii "
		,
@rightPad

(

    '0'
)  // a // b
	@lengthOf(metadata)

    @rightPad
('\x00'

)
char[] T
	@calculatedFrom( 	 //x
  """ ++ [128512]%N ++ runes_of_ascii """
	) `line1
line2` ,

    f32  options1 @lengthOf( MetaDataX  ) ,}  // trailing space 
 
")).
Eval vm_compute in ("<<<M3549>>>" ++ check (runes_of_ascii "

  packet stringy { repeat  f32a

o `" ++ [28040; 24687; 31867; 22411]%N ++ runes_of_ascii "`
,
@lengthOf( 
f32a
) /// triple
  char[

    42  ]uint8x
    , 
@tag(	42 	 // trailing space 

)
float
@lengthOf(
MetaDataX),
string
T ,  match
	_x as  leftPad
	{	0123456789
	: stringy,} ,
    @leftPad ( ) repeat uint8x { string_{
	char[
255
]a1  @calculatedFrom( 
// " ++ [27880; 37322]%N ++ runes_of_ascii "
		""abc""
) ,metadata 
@lengthOf( asx	)// packet A { u8 x, }
    , 
} 

//	t
  // " ++ [27880; 37322]%N ++ runes_of_ascii "

	,  repeat
	falsey
, Logon	{ As , 
repeat 
char[]
    u	,	} 
,
    }	, @leftPad  ( ' ' // a // b
	) char[ 10
]
	charz @lengthOf(
	float )

    // 50% %s
  	,@calculatedFrom( """ ++ [233]%N ++ runes_of_ascii "t" ++ [233]%N ++ runes_of_ascii """

) i64 trueish
`" ++ [28040; 24687; 31867; 22411]%N ++ runes_of_ascii "` // `tick` ""quote"" 'q'
	,
}
options
    // c
  // a // b

{
options1
=  7
    ;
u  =

"""" ;

    }root packet Packet{

    char

    As

`` 
,
repeat
    leftPad 	 //x
	{	match
x_y_z  as
x_y_z
    { ""abc"" : 
f32a  [1 

//x
,42 ]:rootA
    , 7 : pack 
,

    ""abc"" :
_x""1"" :asx
	,

""packet""  :
int 	 // trailing space 
  }	, }	// a // b
,  @calculatedFrom( ""\n""
)
repeat	f64	u8x  , @lengthOf( 
zchar  ) 
o
	,pack@lengthOf(
falsey	)
	`two words`

    ,

zchar[

    1 ]  asx

    @lengthOf(uint8x )  , @calculatedFrom(
	""\n"" 

    // c
	  // 50% %s
)
char[ 42 
]  // a // b
	u
@calculatedFrom( ""packet"" 
), match	// " ++ [27880; 37322]%N ++ runes_of_ascii "
    rootA as
    i8i8  {

    00
    // `tick` ""quote"" 'q'
    // packet A { u8 x, }

:	A,
0

:

    o
0123456789 : len

    ,

65535
	: zchar
}, }
    //
")).
Eval vm_compute in ("<<<M14>>>" ++ check (runes_of_ascii "packet
x_y_z{ @calculatedFrom( // `tick` ""quote"" 'q'
""" ++ [128512]%N ++ runes_of_ascii """ ) uint16 a1 , string
    crc //
, char[0123456789 ]charz
`doc`
    //x
    ,//x
match As	as packetx { ""a\""b"":
MetaDataX , ""{,}""  : f32a
,42 : metadata // " ++ [27880; 37322]%N ++ runes_of_ascii "
[""1"" , 7 ]:
chars ,  } , }  MetaData
T
    { //x
uint8 f32a`
`
    , string MetaDataX, char[ // 50% %s
0123456789 // @lengthOf(
]MetaDataX `tab	here`
    , } packet //
uint8x	{ }	packet
    matchKey{ @tag( 00 // c
) @tag(
    255
    // `tick` ""quote"" 'q'
    ) @calculatedFrom(
    //	t
    ""a	b""
    )body @calculatedFrom( ""`tick`"" ) , // trailing space 
@lengthOf( matchKey ) match i8i8
as msg_type  { 00: float
, ""{,}"" :T	} ,@rightPad
    ( '\x00') f64 trueish,  @lengthOf(
chars )repeat string	A ,match Z9_ // trailing space 
as /// triple
metadata {	[ 42
    , ""packet""]	: charz
7 : body// 50% %s
7 :	Z9_ , } ,	zchar[ 00 ]  float
`
` , @lengthOf(
    leftPad
    // c
    ) repeat x_y_z
    metadata ,// 50% %s
@calculatedFrom( ""a\\"")
@calculatedFrom(
    """ ++ [28040; 24687]%N ++ runes_of_ascii """ )match MetaDataX as Pad { ""// no comment"": pack , }, @tag(007
)
    /// triple
    crc { // @lengthOf(
Z9_ {
u128 { repeat repeatCount trueish ,As `crlf
line` ,repeat
    char[ 0123456789
    // " ++ [128512]%N ++ runes_of_ascii " emoji
    ]uint8x ,
string
repeatCount,
    } , repeat int16 i64_ , repeat
f32a Packet ``
,
    }, }	,
    }
")).
Eval vm_compute in ("<<<M3669>>>" ++ check (runes_of_ascii "
options { 
u // packet A { u8 x, }
		=  // 50% %s
	  int32 
packetx

= ""`tick`"" ;
matchKey=  // trailing space 
      '0' As
=
3
    // packet A { u8 x, }
	//x
  ;

    Packet

    = true
    ;
} root  packet
tag

{	// @lengthOf(
  u64

stringy,
repeat
options1  {zchar[ 
4294967296 
]
    f32a ``
    ,match tag 
as 
    //
	options1

{

10
	: 
A 

// c
// c
,007 
:Pad ,

0123456789:  calculatedFrom	7
    :

stringy, [// 50% %s
  ""a\""b"" , // " ++ [27880; 37322]%N ++ runes_of_ascii "

0123456789] : options1

,
3 
:u8x , 
	// packet A { u8 x, }
  }, }
    ,
	}  packet	len{
@calculatedFrom( 
    // packet A { u8 x, }
// `tick` ""quote"" 'q'
    	""" ++ [233]%N ++ runes_of_ascii "t" ++ [233]%N ++ runes_of_ascii """ ) i8 
    // `tick` ""quote"" 'q'
    //	t
    repeatCount @lengthOf( 
	    // `tick` ""quote"" 'q'
		// " ++ [128512]%N ++ runes_of_ascii " emoji
    	roots ) , int32  i64_//
  @calculatedFrom(
""`tick`""),
@rightPad(' ' 
)
repeat
	char[]u8x // " ++ [128512]%N ++ runes_of_ascii " emoji
		,
@rightPad ( '\x00'  )	leftPad { 
match

lengthOf// c
	as

charz {
""1""

    :	tag ""// no comment""
: x

,
	[ """ ++ [233]%N ++ runes_of_ascii "t" ++ [233]%N ++ runes_of_ascii """ ,

""CRC32""]
:
pack

    3 :

charz ,

}
    ,} ,  } options{}
	MetaData matchKey

{ uint64	repeatCount ,
roots
    x_y_z	`say ""hi""` 
,  roots
    As ,  A

    crc	,
	uint64 f32a	// @lengthOf(
      ,  }
")).
Eval vm_compute in ("<<<M492>>>" ++ check (runes_of_ascii "MetaData options1
{
// @lengthOf(
// c
}// " ++ [128512]%N ++ runes_of_ascii " emoji
packet
    As{
    repeat //
calculatedFrom // trailing space 
i8i8
    `" ++ [233]%N ++ runes_of_ascii "`
, @calculatedFrom("""" )@tag( 3// " ++ [27880; 37322]%N ++ runes_of_ascii "
) // c
@lengthOf( calculatedFrom )// " ++ [27880; 37322]%N ++ runes_of_ascii "
repeat len falsey `a\`,
    //
    stringy{ uint16
options1
,
    } ,	@lengthOf( asx ) repeat Z9_{ repeat o{ repeat uint8x
    , repeat	falsey { match x //
as charz // trailing space 
{ ""it's""
/// triple
// " ++ [27880; 37322]%N ++ runes_of_ascii "
: A """ ++ [233]%N ++ runes_of_ascii "t" ++ [233]%N ++ runes_of_ascii """ : int, [ 255
,""CRC32"" , ""1""
,007 , 4294967296
/// triple
// packet A { u8 x, }
,
42// c
]
    : float
    ""packet"" :Logon , 3
: string_ , } ,
    string zchar ,  }
, } ,	A
trueish ,
    } , char[	65535 ]Pad
, @rightPad
    ( /// triple
'0'
) @lengthOf(msg_type )
@rightPad(
    '0' ) match lengthOf as float { //	t
255/// triple
:asx [1 , ""{,}""  ,
""""
]
: leftPad
    , [0123456789 ,
""a\""b"" //	t
]
    :  x_y_z
1:	MetaDataX
    , [42 , 0123456789 ] : lengthOf ,}	, }  options { Packet	= ""a\""b"" ;  }packet // " ++ [128512]%N ++ runes_of_ascii " emoji
BodyLength { int64 x_y_z
@lengthOf( crc) ,
@leftPad( )
    BodyLength falsey, @calculatedFrom( ""// no comment"") @lengthOf(u ) //
repeat
    float64 A
, }")).
Eval vm_compute in ("<<<M759>>>" ++ check (runes_of_ascii "packet chars {char[]
msg_type@calculatedFrom( ""a\\"" ) //
,
repeat //	t
uint32
    chars `" ++ [233]%N ++ runes_of_ascii "` , repeat u8 float , @tag( 00)
repeat zchar[ 0
] int , }packet float {	@rightPad ( '0' )o
tag `two words` ,
}
    packet//	t
crc { match f32a as
f32a {
0123456789 :
crc[
    00]
:// packet A { u8 x, }
len // `tick` ""quote"" 'q'
,[
""CRC32"" , ""CRC32""	,
// " ++ [128512]%N ++ runes_of_ascii " emoji
//x
""// no comment"",""a\\""	, 00 , ""packet""
    ] :BodyLength, 65535
:
    calculatedFrom /// triple
}, uint64
stringy// 50% %s
@lengthOf(
metadata //	t
) , repeat Header options1
, repeat u64
Header, @tag( 3
    ) Z9_ `say ""hi""`  ,@tag( // packet A { u8 x, }
007
) f32a  { char[ 00// a // b
] i64_
, repeat options1 {repeat
    float64 charz,
    }
,
match len as pack {
    // @lengthOf(
    ""x y"" :
stringy """ ++ [233]%N ++ runes_of_ascii "t" ++ [233]%N ++ runes_of_ascii """
// a // b
//x
: tag , } ,
    } ,	@rightPad (	) repeat// `tick` ""quote"" 'q'
i64 Z9_ ,
    } MetaData packetx /// triple
{
    int8 u8x ,
As crc
,
u64 int `tab	here` , char[
0123456789 ] T , }//x
MetaData
    Header{
    MetaDataX
int ,int8
    string_
,pack  Pad , }")).
Eval vm_compute in ("<<<M440>>>" ++ check (runes_of_ascii "
packet uint8x { match stringy as
lengthOf
{ 00 : roots,
    } ,match zchar as body {
""// no comment"": // packet A { u8 x, }
MetaDataX [""`tick`"" ,
""\n""] : i8i8 , ""// no comment"" :
    float
""x y"" : body
, } ,
@tag( 00 )
    f32a@calculatedFrom( ""CRC32"") ,  uint32
i8i8
    ,
@rightPad( ' ' ) zchar[4294967296]
rootA ,} packet // c
metadata { // a // b
T  {
    u8x {match
    As as trueish
    { // packet A { u8 x, }
[
    ""\" ++ [233]%N ++ runes_of_ascii """ ] : Header // " ++ [128512]%N ++ runes_of_ascii " emoji
, },
repeat stringy //
options1 , repeat u8x{
float32
int @lengthOf( BodyLength) `line1
line2`
    // `tick` ""quote"" 'q'
    , }
,
string f32a // " ++ [128512]%N ++ runes_of_ascii " emoji
,  }
    , match
    calculatedFrom as tag {00: pack }, msg_type { repeat int64 len `it's` , repeat uint64 rootA `" ++ [28040; 24687; 31867; 22411]%N ++ runes_of_ascii "` , //x
} ,
match rootA as
_x { [ """ ++ [28040; 24687]%N ++ runes_of_ascii """ , ""{,}""] : metadata	} // " ++ [27880; 37322]%N ++ runes_of_ascii "
, }, @leftPad ( )	u
    @lengthOf( Header
    )
    , u16 // trailing space 
x
`a\`, match
    string_ as Foo{42 : string_
, // trailing space 
00
    :	T,} , } // c
packet
options1  { }")).
Eval vm_compute in ("<<<M1057>>>" ++ check (runes_of_ascii "  root packet falsey{ zchar[
    1 ] MetaDataX
    // " ++ [128512]%N ++ runes_of_ascii " emoji
    ,match // packet A { u8 x, }
len as A { [""it's"" ] : chars """"
    : f32a,}
    , rootA
{ repeat
packetx
{ f64
    Header`" ++ [28040; 24687; 31867; 22411]%N ++ runes_of_ascii "` , }
    ,
repeat char[
    42 //
] As, Foo@lengthOf(
    asx)
`line1
line2` ,
    len {  msg_type { float32
BodyLength
@lengthOf( u
    /// triple
    ) // packet A { u8 x, }
`line1
line2`
,repeat u8
u128`
`,
}
    , stringy {  i8 float @calculatedFrom( //	t
""`tick`"" ) , } , u64  Logon, char[ //x
00]
    chars // a // b
@lengthOf( T // a // b
)
`two words`
    , } ,} , char[]
    falsey , @calculatedFrom( """ ++ [233]%N ++ runes_of_ascii "t" ++ [233]%N ++ runes_of_ascii """
)
zchar[10 ] Pad
@calculatedFrom( ""a\\"" ), repeat char[ 42
    ] zchar
,
@tag( 0	) repeat u128 Header ,
@leftPad ( '\x00' ) BodyLength @calculatedFrom( ""{,}""
) `it's`, char[] leftPad
, match body as repeatCount{ // " ++ [128512]%N ++ runes_of_ascii " emoji
[ ""\" ++ [233]%N ++ runes_of_ascii """ ,
    //x
    00 ]  :
    Pad 4294967296	:
u8x,
// `tick` ""quote"" 'q'
//x
} ,  } 	 ")).
Eval vm_compute in ("<<<M311>>>" ++ check (runes_of_ascii "options {crc = 42 a1 =""\" ++ [233]%N ++ runes_of_ascii """ ;}
    packet x_y_z
// c
// c
{ int32
    // `tick` ""quote"" 'q'
    u
@calculatedFrom( """" ),
trueish
{ match zchar as i8i8{ 0123456789 : int ,	[ ""`tick`"",""{,}""
// packet A { u8 x, }
// c
, """ ++ [28040; 24687]%N ++ runes_of_ascii """ ,""// no comment"",	0 , 65535 ,
3 ] :u8x// " ++ [128512]%N ++ runes_of_ascii " emoji
,
0123456789 :calculatedFrom
, }  ,repeat string trueish ,matchKey// " ++ [128512]%N ++ runes_of_ascii " emoji
{ repeat
charz/// triple
,
    metadata	@calculatedFrom( ""it's"" )
`two words` ,} ,  } ,
    // " ++ [128512]%N ++ runes_of_ascii " emoji
    repeat string Pad  , @calculatedFrom( ""a\\""
) @calculatedFrom( """ ++ [128512]%N ++ runes_of_ascii """ )
    repeat rootA
    {f32 Logon `100% of %d`
// `tick` ""quote"" 'q'
// `tick` ""quote"" 'q'
,zchar[
    4294967296 ]
    len
@calculatedFrom(
//x
// 50% %s
""// no comment"" ) ,
}
    ,  } packet Packet { msg_type
, // packet A { u8 x, }
trueish // c
{ roots @calculatedFrom( ""a\\"" ) ,
} // " ++ [128512]%N ++ runes_of_ascii " emoji
,
// a // b
// trailing space 
repeat zchar ,
    u16 i8i8 , }
")).
Eval vm_compute in ("<<<M4442>>>" ++ check (runes_of_ascii "packet 
body
    {@tag( 42)
char[
	4294967296
]  chars

    @calculatedFrom(

    ""{,}"")`doc`  // " ++ [27880; 37322]%N ++ runes_of_ascii "
  ,repeat string

lengthOf
	,@tag( 3 /// triple

	)

    string float @lengthOf(
o	)
,

u32

pack
`100% of %d`
	,	stringy
@lengthOf(
    repeatCount )`say ""hi""`,  float32

crc`two words` ,  } packet
	zchar{ @tag(
    0
)
@tag(
	1 	 // a // b
)
@lengthOf( 
    // `tick` ""quote"" 'q'
Z9_ 
)
u32

    Logon
@calculatedFrom(""x y"" 
) 
,
    @tag(  //	t
  1
	)

string
	packetx @lengthOf( u8x
    //	t
	// `tick` ""quote"" 'q'
  ), zchar[ 10]
uint8x 
/// triple
  	`// not a comment` ,repeat  // a // b
	stringy
{
i16
Z9_ `// not a comment`
,	repeat zchar[

    4294967296 ]

    u , 
zchar

    @calculatedFrom(
	""{,}"" 
)`a\`
,

}
,	rootA	u128 
, }	packet

asx{
repeat i64_ ,@lengthOf( 
msg_type

) repeat  Z9_
rootA ,
	} ")).
Eval vm_compute in ("<<<M4211>>>" ++ check (runes_of_ascii "packet Pad {
    repeat uint8x {
        char[] Z9_,
    },
    repeat zchar[10] i8i8,
    x,
    repeat string_ {
        // @lengthOf(
        repeat asx Foo,
        int16 i8i8,
        char[] matchKey,
        match calculatedFrom as roots {
            3 : x_y_z,
        },
    },
    @lengthOf(x)
    repeat o `a\`,
    char[] string_ `{ , }`,
}

options {
    f32a = false
    A = false
}

packet u128 {
    @calculatedFrom(""" ++ [128512]%N ++ runes_of_ascii """)
    string a1,
    @tag(00)
    char[10] A `" ++ [233]%N ++ runes_of_ascii "`,
    char[65535] len,
    @tag(00)
    @rightPad('\x00')
    @calculatedFrom(""1"")
    zchar[7] body,
    @calculatedFrom(""{,}"")
    i64_ {
        repeat uint8x tag `u8 x,`,
    },
    string_ A,
    @calculatedFrom(""x y"")
    @tag(42)
    i16 pack,
    @rightPad()
    A {
        Z9_,
    },
    tag BodyLength,
}")).
Eval vm_compute in ("<<<M3703>>>" ++ check (runes_of_ascii "packet asx {
    float32 repeatCount @lengthOf(asx) `say ""hi""`,
    //x
    @calculatedFrom(""packet"")
    @lengthOf(x)
    repeat f32a,
    //x
    // " ++ [128512]%N ++ runes_of_ascii " emoji
    @lengthOf(calculatedFrom)
    @tag(65535)
    a1 len,
}

MetaData chars {
    zchar[1] stringy,
    zchar[4294967296] stringy `" ++ [233]%N ++ runes_of_ascii "`,
}

// 50% %s
// @lengthOf(
packet asx {
    repeat uint64 o,
    repeat int8 matchKey `a\`,
    @lengthOf(matchKey)
    repeat metadata {
        repeat options1 {
            x rootA,
            A @lengthOf(repeatCount),// a // b
            pack,
        },
    },
    @tag(4294967296)
    repeat int64 matchKey `crlf
        line`,
    @tag(1)
    repeat zchar[65535] _x `line1
        line2`,
    @leftPad('\x00')
    @tag(255)
    @tag(0)
    zchar[255] trueish,
}")).
Eval vm_compute in ("<<<M4061>>>" ++ check (runes_of_ascii "packet T {
    //
    @leftPad('0')
    charz `line1
        line2`,
}

packet options1 {
}// c

root packet leftPad {
    @tag(7)
    repeat string falsey,
    @tag(00)
    char[] uint8x,
    @rightPad()
    match i64_ as _x {
        1 : falsey,
    },
    char[0123456789] Z9_,
    @lengthOf(tag)
    repeat int,
    char[10] o,
    uint64 msg_type @calculatedFrom(""1"") `{ , }`,
    char[] stringy @calculatedFrom(""it's""),// " ++ [27880; 37322]%N ++ runes_of_ascii "
    uint8 tag,// a // b
    u32 crc @calculatedFrom(""a\\""),
}

MetaData A {
    x_y_z string_ `u8 x,`,
}

packet roots {
    Pad {
        float32 lengthOf `
                `,
        repeat f64 MetaDataX,
        char[65535] u `
                `,
    },
    repeat char[] i64_,
    int32 charz @lengthOf(A),
}")).
Eval vm_compute in ("<<<M4216>>>" ++ check (runes_of_ascii "packet chars {
    repeat crc int,
    falsey string_ `say ""hi""`,
    @leftPad()
    repeat trueish `" ++ [28040; 24687; 31867; 22411]%N ++ runes_of_ascii "`,
    @calculatedFrom(""1"")
    // a // b
    repeatCount,
    string chars @lengthOf(calculatedFrom),
}

root packet uint8x {
    u64 rootA `{ , }`,
    string_,
    char[] matchKey,
    char[255] _x @calculatedFrom(""1""),
    rootA @calculatedFrom(""a	b"") `line1
        line2`,
    @lengthOf(int)
    MetaDataX @lengthOf(msg_type),
    char[] lengthOf @calculatedFrom(""a\""b"") `a\`,
    int64 A `" ++ [28040; 24687; 31867; 22411]%N ++ runes_of_ascii "`,
    Logon {
        char[7] calculatedFrom,
        leftPad,
        _x @calculatedFrom(""" ++ [128512]%N ++ runes_of_ascii """),
        repeatCount matchKey,
    },
    @lengthOf(Logon)
    zchar[0] len `a\`,
}// packet A { u8 x, }")).
Eval vm_compute in ("<<<M1188>>>" ++ check (runes_of_ascii "packet f32a {
    }	packet lengthOf { } packet asx {@calculatedFrom( """"
    )
    @calculatedFrom( ""\" ++ [233]%N ++ runes_of_ascii """) @calculatedFrom( // 50% %s
""x y"" ) repeat lengthOf , repeat uint64	_x
// 50% %s
// 50% %s
`a\`
    , trueish { float32 u  ,repeat string_ rootA `100% of %d` ,/// triple
} , i64_ ,match chars
as
    As {[
    """ ++ [128512]%N ++ runes_of_ascii """
,""a	b"" ] :
u8x
    , ""abc"" :T
    00	:
// " ++ [27880; 37322]%N ++ runes_of_ascii "
// @lengthOf(
chars , ""a\""b""// c
: //x
len	,
    0 : Pad ,	} // `tick` ""quote"" 'q'
, match charz as leftPad {
""\" ++ [233]%N ++ runes_of_ascii """: T , 007: tag , 007 :	crc
    ,
/// triple
// packet A { u8 x, }
007: a1  , 1:
    asx
, }	,
repeat
    uint16 o ,
} root	packet x_y_z
{  }root packet asx { stringy //	t
,
    // a // b
    }
")).
Eval vm_compute in ("<<<M584>>>" ++ check (runes_of_ascii "MetaData i64_
{string _x ,
    // " ++ [27880; 37322]%N ++ runes_of_ascii "
    char[] Packet ,
}
root
packet Foo {@lengthOf( u8x) @calculatedFrom(
""" ++ [233]%N ++ runes_of_ascii "t" ++ [233]%N ++ runes_of_ascii """ )@rightPad ( '\x00' // `tick` ""quote"" 'q'
) As //x
u `` ,
    }
// packet A { u8 x, }
// " ++ [128512]%N ++ runes_of_ascii " emoji
packet leftPad { @calculatedFrom( ""a\\"")@lengthOf(
len)
@tag( 1
) char[ 255 ]u8x, @calculatedFrom(
""// no comment"" )
int32
    // trailing space 
    len
    @lengthOf( _x ) ,
    @calculatedFrom( """ ++ [28040; 24687]%N ++ runes_of_ascii """ ) repeat Logon int `{ , }`
, match As as packetx { ""a	b"" :
uint8x, } ,char[
0
    ]charz @lengthOf( i8i8 ) ,	chars
metadata,
    @tag( 0123456789
    )BodyLength,  } root
packet // 50% %s
zchar
    {
@leftPad( '\x00')float
    T , }
")).
Eval vm_compute in ("<<<M1287>>>" ++ check (runes_of_ascii "packet T  {  @rightPad
// `tick` ""quote"" 'q'
//
() match
    o
    as
asx {[1
    ]	:
zchar
    }
, T	{
char[] calculatedFrom // @lengthOf(
`" ++ [28040; 24687; 31867; 22411]%N ++ runes_of_ascii "`, Pad	BodyLength , // 50% %s
char[  255] body `100% of %d` , u,} , //
MetaDataX
    // `tick` ""quote"" 'q'
    @calculatedFrom( ""CRC32"" ) ,
}
packet As
    // " ++ [128512]%N ++ runes_of_ascii " emoji
    { string
o,//
repeat
i32
    // @lengthOf(
    msg_type`line1
line2`,repeat zchar[
    3
] Header `line1
line2` ,	f32a, u32 u
`say ""hi""`  ,  @leftPad (	'0' ) repeat
tag matchKey , @tag(
    1) repeat f32a
    `
` //
,
    //x
    @lengthOf(	Header )
Z9_ ,int8 i64_ @calculatedFrom(
    //	t
    ""1"" ), } //	t")).
Eval vm_compute in ("<<<M4359>>>" ++ check (runes_of_ascii "packet Foo {
    BodyLength body `" ++ [28040; 24687; 31867; 22411]%N ++ runes_of_ascii "`,
    match calculatedFrom as _x {
        42 : zchar,
    },
    leftPad @calculatedFrom(""a	b"") `two words`,
    zchar[3] lengthOf,
    repeat float64 Pad,
    repeat tag {
        char[] lengthOf `// not a comment`,
        Foo {
            uint8x roots,
            u8x @calculatedFrom(""`tick`"") `100% of %d`,
            repeat Packet {
                zchar[0] As @calculatedFrom(""" ++ [128512]%N ++ runes_of_ascii """),
            },
            roots @calculatedFrom(""x y""),
        },
    },
    _x @calculatedFrom(""`tick`"") `{ , }`,// packet A { u8 x, }
    @rightPad(' ')
    uint64 x_y_z,
}")).
Eval vm_compute in ("<<<M1091>>>" ++ check (runes_of_ascii "packet asx{ @calculatedFrom( ""CRC32"" ) u32  matchKey ,
repeat string body
, } MetaData  roots
    {	_x matchKey
, lengthOf i8i8`doc`  ,i16 pack , uint8
    i64_ ,zchar[7]
i8i8
, i64_ //
body `
` , }
    packet
    u8x{ @lengthOf(
msg_type ) uint8x  @calculatedFrom( ""a\""b"" ) // @lengthOf(
`line1
line2` ,char[
    10 ] calculatedFrom ,@tag( 3 ) @lengthOf( packetx ) @calculatedFrom(
    ""it's"" )  zchar[
00 ]
T @lengthOf( crc )
    ,
match f32a as Logon {""abc""
: BodyLength
, [ 0
, 42
] :	Header 007 : Z9_""a\""b"" :
    chars
,
// packet A { u8 x, }
//
}
// trailing space 
//x
,}")).
Eval vm_compute in ("<<<M3328>>>" ++ check (runes_of_ascii "// top
packet
    // c0
A
    // c1
{ // c2
match packetx
    // c4
as BodyLength {
    // c7
007 : // c9
A // c10
""" ++ [28040; 24687]%N ++ runes_of_ascii """ // c11
: x_y_z
    // c13
, """ ++ [128512]%N ++ runes_of_ascii """ // c15
:
    // c16
crc
    // c17
[ // c18
""{,}"" // c19
, ""\n"" // c21a
  // c21b
, // c22a
  // c22b
""" ++ [233]%N ++ runes_of_ascii "t" ++ [233]%N ++ runes_of_ascii """
    // c23
, // c24
""x y"" // c25a
  // c25b
, ""a\""b"" ] // c28a
  // c28b
: // c29a
  // c29b
stringy
    // c30
, // c31a
  // c31b
} // c32a
  // c32b
, // c33a
  // c33b
} // c34a
  // c34b
root
    // c35
packet i64_ // c37
{ // c38
repeat // c39
pack
    // c40
`100% of %d` , // c42a
  // c42b
} ")).
Eval vm_compute in ("<<<M4181>>>" ++ check (runes_of_ascii "packet Pad {
}

packet packetx {
    //x
    repeatCount,// packet A { u8 x, }
    @leftPad('\x00')
    tag @lengthOf(u128),
    MetaDataX @calculatedFrom(""\" ++ [233]%N ++ runes_of_ascii """) `tab	here`,// a // b
    uint16 body @calculatedFrom(""abc"") `say ""hi""`,// trailing space 
}

packet x {
    u16 a1 `crlf
    line`,
}

root packet Z9_ {
    @calculatedFrom(""CRC32"")
    repeat string pack `say ""hi""`,
    repeat zchar[3] charz,//	t
    i16 f32a @calculatedFrom(""{,}""),
}

packet len {
    @lengthOf(crc)
    zchar[00] f32a @calculatedFrom(""it's""),// " ++ [128512]%N ++ runes_of_ascii " emoji
}")).
Eval vm_compute in ("<<<M937>>>" ++ check (runes_of_ascii "packet Z9_ { // 50% %s
repeat leftPad,} packet x
{
    roots { uint16// 50% %s
stringy ,match Packet
as _x {
""x y"": matchKey , 255 : rootA , 7 :Foo ,""\n"" :	options1
, } ,  repeat
roots
    { match
int  as a1// trailing space 
{ 1
: asx """ ++ [28040; 24687]%N ++ runes_of_ascii """ :// `tick` ""quote"" 'q'
i8i8 ,
[ 0
, 1]:
    //
    charz } ,
    // trailing space 
    } ,
    x_y_z``
,}
, } options // @lengthOf(
{ uint8x
    =
'\x00' ;zchar  =' ' ; o = ""\n""	a1  =
    zchar[0123456789 ] ; } root packet
Z9_ { int16 Pad  @lengthOf( Header ) ``, }
")).
Eval vm_compute in ("<<<M124>>>" ++ check (runes_of_ascii "packet int {
@leftPad(
    //x
    '\x00'
    ) @tag( 0
    //
    ) repeat char[ 1 ] Header ,@calculatedFrom( ""CRC32"" )
@tag( // a // b
65535 )
    lengthOf
    , match T as x// 50% %s
{ 3 : float
,[65535
, ""x y"" ]: Pad, }
, int32 f32a
`a\` ,}// a // b
packet zchar
{ options1 ,
@calculatedFrom( ""\" ++ [233]%N ++ runes_of_ascii """)	repeat
    i32 u8x ,}	packet
    f32a	{ // `tick` ""quote"" 'q'
@calculatedFrom( ""x y""
)
    u32 _x `u8 x,`//x
,	repeat char[] falsey, match msg_type as rootA {65535:  lengthOf,	}  ,}
")).
Eval vm_compute in ("<<<M778>>>" ++ check (runes_of_ascii "packet // trailing space 
falsey {@lengthOf( /// triple
i8i8
) uint8 falsey // packet A { u8 x, }
`two words`
    // " ++ [128512]%N ++ runes_of_ascii " emoji
    , @lengthOf( BodyLength )  @lengthOf(float  ) repeat MetaDataX// `tick` ""quote"" 'q'
{ repeat char[] metadata , }
, repeat
    u8
// " ++ [128512]%N ++ runes_of_ascii " emoji
/// triple
Logon ,
    }
// @lengthOf(
// c
packet
    matchKey{ } // @lengthOf(
packet u128 { /// triple
match //
msg_type as _x { [ ""`tick`"" ,
    42 ]: //x
x_y_z// 50% %s
} , } /// triple")).
Eval vm_compute in ("<<<M888>>>" ++ check (runes_of_ascii "MetaData
rootA	{ // " ++ [128512]%N ++ runes_of_ascii " emoji
T	calculatedFrom
``
    , x msg_type , } root packet Pad { falsey { repeat  tag
a1 `" ++ [28040; 24687; 31867; 22411]%N ++ runes_of_ascii "`
    , } ,@calculatedFrom( ""CRC32""  ) repeat len ,
int16	charz @calculatedFrom( ""x y"" ) //	t
,string matchKey
    , zchar[3 ]
Header `it's` , trueish
@lengthOf(
stringy
), char[] metadata //	t
@lengthOf( options1 )
    , u roots `` ,} MetaData lengthOf
    { float32 metadata,
char
body `100% of %d`
    , // a // b
}
")).
Eval vm_compute in ("<<<M3469>>>" ++ check (runes_of_ascii "options {
    LittleEndian = false;
    ArrayPrefixLenType = u8;
}
packet Reject {
    int8 x,
}
packet Trade {
    zchar[4] msgKind,
}
root packet Leg {
    repeat i64 Note,
    u8 venue,
    @leftPad('0') char[6] Qty,
    @rightPad('\x00') char[12] count,
    repeat Reject,
    repeat char[3] Px,
    u16 lastPx,
    u16 Acct @lengthOf(Body),
    match lastPx as Body {
        104 : Reject,
        61 : Trade,
    },
}
")).
Eval vm_compute in ("<<<M1108>>>" ++ check (runes_of_ascii "packet x_y_z {
float64	leftPad
    @lengthOf( repeatCount
) ,
    match msg_type
    //x
    as x {
    65535  :
// `tick` ""quote"" 'q'
// packet A { u8 x, }
roots ,  4294967296 : metadata
, } ,
} packet float{
u64 x_y_z // packet A { u8 x, }
`` , char[7 ]
    A	@lengthOf(Packet
    // 50% %s
    )`" ++ [233]%N ++ runes_of_ascii "` , repeat o { string MetaDataX
`{ , }` , } ,
@lengthOf( uint8x
)
    string int `it's`
    //
    ,  }")).
Eval vm_compute in ("<<<M1041>>>" ++ check (runes_of_ascii "packet	trueish {	@lengthOf(
string_ ) // " ++ [27880; 37322]%N ++ runes_of_ascii "
@leftPad (' ' ) @tag(
255 )
    a1 T  `u8 x,` ,i64 chars `tab	here`, } options { falsey =
i8// trailing space 
;
metadata = 007
    ;	_x = char[ 0123456789	] i8i8
    = u16; Z9_=""// no comment""
    ; }
// `tick` ""quote"" 'q'
// " ++ [128512]%N ++ runes_of_ascii " emoji
root	packet x_y_z
{ zchar[ 255 ] roots @calculatedFrom(""a	b"" ) `u8 x,`
    ,
@tag( 42 ) options1 a1 // c
, }")).
Eval vm_compute in ("<<<M3822>>>" ++ check (runes_of_ascii "packet falsey {
    @lengthOf(i8i8)
    uint8 falsey `two words`,
    @lengthOf(BodyLength)
    @lengthOf(float)
    repeat MetaDataX {
        repeat char[] metadata,
    },
    repeat u8 Logon,
}

// @lengthOf(
// c
packet matchKey {
}// @lengthOf(

packet u128 {
    /// triple
    match msg_type as _x {
        [""`tick`"", 42] : x_y_z,
        // 50% %s
    },
}/// triple")).
Eval vm_compute in ("<<<M4240>>>" ++ check (runes_of_ascii "packet
	falsey

    {
@calculatedFrom(  ""\n"" 
) pack T

    `
`

    ,
@rightPad 	 /// triple
(

    )
	char[]
	string_

/// triple
      // " ++ [128512]%N ++ runes_of_ascii " emoji
,
    //
    	} 
MetaData	string_ { u16
trueish 
, float 
x_y_z
	`u8 x,` , zchar[
	65535 ]

    float ,
	lengthOf
repeatCount 
`tab	here` ,
metadata  // trailing space 

chars  `say ""hi""`
    ,}

")).
Eval vm_compute in ("<<<M3701>>>" ++ check (runes_of_ascii "  packet
rootA{ @leftPad

    ( )

@calculatedFrom(
	""" ++ [28040; 24687]%N ++ runes_of_ascii """)
@lengthOf(	T )
    rootA

,
	@tag( 
10

    )
// `tick` ""quote"" 'q'
	// packet A { u8 x, }
f64 i64_ @lengthOf(
	uint8x 	 // packet A { u8 x, }

),

}
packet

chars
	{repeat	int16 MetaDataX
    ,@rightPad (//
' '  )
	int16 // a // b
	  crc
	@lengthOf( leftPad 
),

    }")).
Eval vm_compute in ("<<<M371>>>" ++ check (runes_of_ascii "// `tick` ""quote"" 'q'
options  { rootA	= false // @lengthOf(
_x = ""packet"" packetx
= zchar[7// packet A { u8 x, }
] ;} packet	a1 { @rightPad	( ' ' )
    u64 As ,
    string u,
char
    roots @calculatedFrom(// a // b
"""" )// a // b
, @calculatedFrom( """" // `tick` ""quote"" 'q'
)
string o ,} packet Header
    // " ++ [27880; 37322]%N ++ runes_of_ascii "
    { }
")).
Eval vm_compute in ("<<<M1250>>>" ++ check (runes_of_ascii "
packet crc
    {
    match asx
as tag { 1
:u8x , [ 4294967296,""CRC32""
, 65535 , ""x y"" , 00	]
: calculatedFrom , ""a\\"" :
    packetx ,
} ,
    metadata @calculatedFrom( // packet A { u8 x, }
""" ++ [28040; 24687]%N ++ runes_of_ascii """ )	`` , string
    string_@calculatedFrom(
""a	b""
) ,
    } packet
options1{  char[] MetaDataX	@lengthOf( roots	) , }")).
Eval vm_compute in ("<<<M3939>>>" ++ check (runes_of_ascii "packet f32a {
    // trailing space 
}

packet As {
    string roots @calculatedFrom(""a\""b""),
    repeat leftPad {
        int32 As,// " ++ [27880; 37322]%N ++ runes_of_ascii "
    },
    Logon int `crlf
    line`,
    @leftPad('\x00')
    @tag(65535)
    @calculatedFrom(""a	b"")
    u32 f32a @calculatedFrom(""packet"") `u8 x,`,
}/// triple")).
Eval vm_compute in ("<<<M3420>>>" ++ check (runes_of_ascii "packet A {
    u8 a,
}
packet B {
    u16 b,
}
packet C {
    u32 c,
}
root packet M {
    u16 Kc, u16 Kb, u16 Ka,
    match Kc as X {
        9 : A,
        10 : B,
    },
    match Kb as Y {
        2 : C,
        1 : A,
    },
    match Ka as Z {
        1 : B,
    },
    A, B, C,
}
")).
Eval vm_compute in ("<<<M1587>>>" ++ check (runes_of_ascii "// 50% %s
packet	a1
    { zchar[
// a // b
// 50% %s
007]
T `it's`
    ,@rightPad
    // a // b
    (
'\x00')
    o repeatCount repeatCount , }  packet Logon {  }packet	Logon //x
{ repeat // " ++ [128512]%N ++ runes_of_ascii " emoji
uint16 u128
    //
    `a\`,
falsey
@calculatedFrom(""packet"" ) ,
    } 	 ")).
Eval vm_compute in ("<<<M39>>>" ++ check (runes_of_ascii "// `tick` ""quote"" 'q'
MetaData
    pack {
string MetaDataX , //
zchar[ 65535
] i8i8, pack rootA	`a\` ,
    string_ Header `it's` ,
int64
string_ ,
/// triple
//	t
char[]
packetx
,	} options
    { trueish
= ' '
; i64_ =
i16 pack = u16
;
len =false }	MetaData i64_{ }")).
Eval vm_compute in ("<<<M1527>>>" ++ check (runes_of_ascii "// 50% %s
packet	a1
    { { zchar[
// a // b
// 50% %s
007]
T `it's`
    ,@rightPad
    // a // b
    (
'\x00')
    o repeatCount , }  packet Logon {  }packet	Logon //x
{ repeat // " ++ [128512]%N ++ runes_of_ascii " emoji
uint16 u128
    //
    `a\`,
falsey
@calculatedFrom(""packet"" ) ,
    } 	 ")).
Eval vm_compute in ("<<<M1697>>>" ++ check (runes_of_ascii "// 50% %s
packet	a1
    { zchar[
// a // b
// 50% %s
007]
T `it's`
    ,@rightPad
    // a // b
    (
'\x00')
    o repeatCount , }  packet Logon {  }packet	Logon //x
{ repeat // " ++ [128512]%N ++ runes_of_ascii " emoji
uint16 u128
    //
    `a\`,
falsey
@calculatedFrom(""/packet"" ) ,
    } 	 ")).
Eval vm_compute in ("<<<M1638>>>" ++ check (runes_of_ascii "// 50% %s
packet	a1
    { zchar[
// a // b
// 50% %s
007]
T `it's`
    ,@rightPad
    // a // b
    (
'\x00')
    o repeatCount , }  packet Logon {  }packet	Logon //x
{ uint16 // " ++ [128512]%N ++ runes_of_ascii " emoji
repeat u128
    //
    `a\`,
falsey
@calculatedFrom(""packet"" ) ,
    } 	 ")).
Eval vm_compute in ("<<<M3490>>>" ++ check (runes_of_ascii "

  packet
Sub
    {u8

a ,

u16
    SubSum
	@calculatedFrom(
""CRC16""
	)  ,

    } root packet Frame

{u16

MsgType,
    u16

BodyLen  @lengthOf(

Body

    ) , Sub
	Body
    , 
string
	note
,

u16
Checksum	@calculatedFrom(
""CRC16""
),
u8
    tail ,
}

")).
Eval vm_compute in ("<<<M1551>>>" ++ check (runes_of_ascii "// 50% %s
packet	a1
    { zchar[
// a // b
// 50% %s
007]
T 
    ,@rightPad
    // a // b
    (
'\x00')
    o repeatCount , }  packet Logon {  }packet	Logon //x
{ repeat // " ++ [128512]%N ++ runes_of_ascii " emoji
uint16 u128
    //
    `a\`,
falsey
@calculatedFrom(""packet"" ) ,
    } 	 ")).
Eval vm_compute in ("<<<M293>>>" ++ check (runes_of_ascii "packet Header  { u128 @calculatedFrom(// c
""""  )
    // " ++ [128512]%N ++ runes_of_ascii " emoji
    ,
    @rightPad( ) // a // b
zchar charz	, } packet packetx
    //
    {@calculatedFrom( ""{,}"" )
    string
asx	, f32
// " ++ [27880; 37322]%N ++ runes_of_ascii "
// trailing space 
trueish
    @lengthOf( trueish ) ,} 	 ")).
Eval vm_compute in ("<<<M451>>>" ++ check (runes_of_ascii "MetaData Header {// trailing space 
char[ 3]
    Logon ,
falsey options1 ,char[]
f32a ,
// `tick` ""quote"" 'q'
// " ++ [27880; 37322]%N ++ runes_of_ascii "
chars
Z9_
// " ++ [27880; 37322]%N ++ runes_of_ascii "
// packet A { u8 x, }
, int16 zchar `
` ,} MetaData i64_ { }
    // " ++ [27880; 37322]%N ++ runes_of_ascii "
    packet
    // " ++ [128512]%N ++ runes_of_ascii " emoji
    _x {}
")).
Eval vm_compute in ("<<<M3843>>>" ++ check (runes_of_ascii "options 
{ falsey 

    //	t
// packet A { u8 x, }
=
    ""a	b""	T 
=  // c
	  true 
} 
options {

    u8x

= false

; float =

    char[]/// triple
;
    Header

=  true

    msg_type  =
    int8
; tag
    =
	3  ;// " ++ [128512]%N ++ runes_of_ascii " emoji
}")).
Eval vm_compute in ("<<<M3661>>>" ++ check (runes_of_ascii "

  root
    packet 	 //x
  len {stringy

@calculatedFrom( ""\n""
) `line1
line2`
//
    // c

,
i32
    As 
`" ++ [233]%N ++ runes_of_ascii "`, @calculatedFrom( 
""\" ++ [233]%N ++ runes_of_ascii """
	)
    repeat 
uint64
tag
	, repeat  i32  // `tick` ""quote"" 'q'
    	pack	, }  // c")).
Eval vm_compute in ("<<<M3393>>>" ++ check (runes_of_ascii "// top
root // c0a
  // c0b
packet // c1a
  // c1b
P
    // c2
{ // c3a
  // c3b
u16 a
    // c5
,
    // c6
u32 // c7
Sum // c8a
  // c8b
@calculatedFrom( ""CRC32"" // c10a
  // c10b
)
    // c11
, // c12
} // c13
")).
Eval vm_compute in ("<<<M3524>>>" ++ check (runes_of_ascii "packet A {
    match k as n {
        ""\
                "" : B,
        [""\
                "", 1] : C,
        [
            1, 2, 3, 4, 5,
            ""\
                        ""
        ] : D,
    },
}")).
Eval vm_compute in ("<<<M4462>>>" ++ check (runes_of_ascii "// 50% %s
packet a1 {
    zchar[007] T `it's`,
    @rightPad('\x00')
    o repeatCount,
}

packet Logon {
}

packet Logon {
    repeat uint16 u128 `a\`,
    falsey @calculatedFrom(""/packet""),
}")).
Eval vm_compute in ("<<<M3786>>>" ++ check (runes_of_ascii "packet A {
    Inner {
        match k as n {
            [
                1, 22, 007, 4, 5,
                66, 7, 8, 9, 10,
                11
            ] : B,
        },
    },
}")).
Eval vm_compute in ("<<<M4025>>>" ++ check (runes_of_ascii "

  options

{
	options1
	= 
        // packet A { u8 x, }

float64  leftPad

    =
    true  ;
MetaDataX
	=
    char[  00	]

; 
roots 
=	false }packet

string_ {

    }
")).
Eval vm_compute in ("<<<M3403>>>" ++ check (runes_of_ascii "root packet
    // c1
P // c2
{ u8 // c4a
  // c4b
s_u8
    // c5
, // c6
repeat u8 // c8
r_u8 // c9a
  // c9b
,
    // c10
u16
    // c11
b_len // c12a
  // c12b
, } ")).
Eval vm_compute in ("<<<M3766>>>" ++ check (runes_of_ascii "// " ++ [27880; 37322]%N ++ runes_of_ascii "
packet rootA {
    string Pad `{ , }`,
}

root packet repeatCount {
    @lengthOf(Header)
    int64 As `{ , }`,
}

options {
    charz = false
}/// triple")).
Eval vm_compute in ("<<<M679>>>" ++ check (runes_of_ascii "packet charz{ @tag( 7
)@tag( //	t
4294967296)
    @lengthOf( trueish )
    repeat uint64 metadata `line1
line2` , } options{ T=true;
    } packet tag {}")).
Eval vm_compute in ("<<<M2166>>>" ++ check (runes_of_ascii "MetaData BodyLength
{ int8 Foo
, string
    MetaDataX , float zchar ,pack options1
,asx string_, }
packet u8x {Foo@lengthOf(charz charz )
`" ++ [28040; 24687; 31867; 22411]%N ++ runes_of_ascii "`,  }
")).
Eval vm_compute in ("<<<M2086>>>" ++ check (runes_of_ascii "MetaData BodyLength
{ int8 Foo
, string
    MetaDataX , , float zchar ,pack options1
,asx string_, }
packet u8x {Foo@lengthOf(charz )
`" ++ [28040; 24687; 31867; 22411]%N ++ runes_of_ascii "`,  }
")).
Eval vm_compute in ("<<<M2194>>>" ++ check (runes_of_ascii "MetaData BodyLength
{ int8 Foo
, string
    MetaDataX , float zchar? ,pack options1
,asx string_, }
packet u8x {Foo@lengthOf(charz )
`" ++ [28040; 24687; 31867; 22411]%N ++ runes_of_ascii "`,  }
")).
Eval vm_compute in ("<<<M2122>>>" ++ check (runes_of_ascii "MetaData BodyLength
{ int8 Foo
, string
    MetaDataX , float zchar ,pack options1
,string_ asx, }
packet u8x {Foo@lengthOf(charz )
`" ++ [28040; 24687; 31867; 22411]%N ++ runes_of_ascii "`,  }
")).
Eval vm_compute in ("<<<M2143>>>" ++ check (runes_of_ascii "MetaData BodyLength
{ int8 Foo
, string
    MetaDataX , float zchar ,pack options1
,asx string_, }
uint8 u8x {Foo@lengthOf(charz )
`" ++ [28040; 24687; 31867; 22411]%N ++ runes_of_ascii "`,  }
")).
Eval vm_compute in ("<<<M1967>>>" ++ check (runes_of_ascii "
packet leftPad {
@leftPad( '0')
u32
i64_ i64_ `100% of %d` ,repeat// 50% %s
i8 chars
    ,
} MetaData
    f32a
{ // packet A { u8 x, }
}")).
Eval vm_compute in ("<<<M2306>>>" ++ check (runes_of_ascii "options
    {
x_y_z// " ++ [27880; 37322]%N ++ runes_of_ascii "
= 10 ; }
packet body {
    @calculatedFrom(
// trailing space 
// " ++ [27880; 37322]%N ++ runes_of_ascii "
""1""
)	match T as Foo
    {
255 char T , }
,}")).
Eval vm_compute in ("<<<M1977>>>" ++ check (runes_of_ascii "
packet leftPad {
@leftPad( '0')
u32
i64_ `100% of %d` , ,repeat// 50% %s
i8 chars
    ,
} MetaData
    f32a
{ // packet A { u8 x, }
}")).
Eval vm_compute in ("<<<M2342>>>" ++ check (runes_of_ascii "options
    {
x_y_z// " ++ [27880; 37322]%N ++ runes_of_ascii "
= 10 ; }
packet body {
@x    @calculatedFrom(
// trailing space 
// " ++ [27880; 37322]%N ++ runes_of_ascii "
""1""
)	match T as Foo
    {
255 :T , }
,}")).
Eval vm_compute in ("<<<M1938>>>" ++ check (runes_of_ascii "
packet leftPad @leftPad
{( '0')
u32
i64_ `100% of %d` ,repeat// 50% %s
i8 chars
    ,
} MetaData
    f32a
{ // packet A { u8 x, }
}")).
Eval vm_compute in ("<<<M2245>>>" ++ check (runes_of_ascii "options
    {
x_y_z// " ++ [27880; 37322]%N ++ runes_of_ascii "
= 10 ; }
body packet {
    @calculatedFrom(
// trailing space 
// " ++ [27880; 37322]%N ++ runes_of_ascii "
""1""
)	match T as Foo
    {
255 :T , }
,}")).
Eval vm_compute in ("<<<M2016>>>" ++ check (runes_of_ascii "
packet leftPad {
@leftPad( '0')
u32
i64_ `100% of %d` ,repeat// 50% %s
i8 chars
    ,
} MetaData
    f32a
 // packet A { u8 x, }
}")).
Eval vm_compute in ("<<<M1986>>>" ++ check (runes_of_ascii "
packet leftPad {
@leftPad( '0')
u32
i64_ `100% of %d` ,repeat// 50% %s
 chars
    ,
} MetaData
    f32a
{ // packet A { u8 x, }
}")).
Eval vm_compute in ("<<<M2273>>>" ++ check (runes_of_ascii "options
    {
x_y_z// " ++ [27880; 37322]%N ++ runes_of_ascii "
= 10 ; }
packet body {
    @calculatedFrom(
// trailing space 
// " ++ [27880; 37322]%N ++ runes_of_ascii "
""1""
)	 T as Foo
    {
255 :T , }
,}")).
Eval vm_compute in ("<<<M2210>>>" ++ check (runes_of_ascii "
    {
x_y_z// " ++ [27880; 37322]%N ++ runes_of_ascii "
= 10 ; }
packet body {
    @calculatedFrom(
// trailing space 
// " ++ [27880; 37322]%N ++ runes_of_ascii "
""1""
)	match T as Foo
    {
255 :T , }
,}")).
Eval vm_compute in ("<<<M1009>>>" ++ check (runes_of_ascii "packet msg_type { uint16 T// a // b
@lengthOf( i8i8 )
, repeat	i32  int
    ,
@lengthOf(x_y_z
    ) int64
    As
    ,
    }
")).
Eval vm_compute in ("<<<M3376>>>" ++ check (runes_of_ascii "packet B {
    u8 a,
}
root packet P {
    u8 K,
    match K as Body {
        1 : B,
    },
    u16 L @lengthOf(Body),
}
")).
Eval vm_compute in ("<<<M4270>>>" ++ check (runes_of_ascii "MetaData crc {
    char[] packetx,
}

MetaData f32a {
    string o `
    `,
}

packet Packet {
    repeat i8i8 i64_,
}")).
Eval vm_compute in ("<<<M1918>>>" ++ check (runes_of_ascii "packet o {
    roots `it's`
// trailing space 
//x
, char[ 42
    ]  A, // " ++ [27880; 37322]%N ++ runes_of_ascii "
f64
\ repeatCount
    `crlf
line`
,}")).
Eval vm_compute in ("<<<M1835>>>" ++ check (runes_of_ascii "packet { o
    roots `it's`
// trailing space 
//x
, char[ 42
    ]  A, // " ++ [27880; 37322]%N ++ runes_of_ascii "
f64
repeatCount
    `crlf
line`
,}")).
Eval vm_compute in ("<<<M2425>>>" ++ check (runes_of_ascii "MetaData
    calculatedFrom
{ zchar[  10 ]
    As`tab	here`,
    }// trailing space 
options  { roots ='\x00' ; }")).
Eval vm_compute in ("<<<M2159>>>" ++ check (runes_of_ascii "MetaData BodyLength
{ int8 Foo
, string
    MetaDataX , float zchar ,pack options1
,asx string_, }
packet u8x {")).
Eval vm_compute in ("<<<M3005>>>" ++ check (runes_of_ascii "packet A {
  match k as n {
    [""a"", 22, ""c c"", 4, ""e"", 66, ""g"", 8, ""i"", 10, ""k"", 12] : B,
    2 : C
  },
}")).
Eval vm_compute in ("<<<M3507>>>" ++ check (runes_of_ascii "

  packet 

    // @lengthOf(
int
{ @calculatedFrom(""a\\""
    )

    char
calculatedFrom

    ,
}

")).
Eval vm_compute in ("<<<M2962>>>" ++ check (runes_of_ascii "packet A {
  match k as n {
    [""a"", ""bb"", ""c c"", ""d"", ""e"", ""f"", ""g"", ""h"", ""i""] : B,
    2 : C
  },
}")).
Eval vm_compute in ("<<<M3051>>>" ++ check (runes_of_ascii "packet A {
    Inner {
        u8 x `
x`,
        Deep {
            u8 y `
x`,
        },
    },
}")).
Eval vm_compute in ("<<<M2950>>>" ++ check (runes_of_ascii "packet A {
  match k as n {
    [""a"", ""bb"", ""c c"", ""d"", ""e"", ""f"", ""g"", ""h""] : B
    2 : C
  },
}")).
Eval vm_compute in ("<<<M1896>>>" ++ check (runes_of_ascii "packet o {
    roots `it's`
// trailing space 
//x
, char[ 42
    ]  A, // " ++ [27880; 37322]%N ++ runes_of_ascii "
f64
repeatCount")).
Eval vm_compute in ("<<<M1229>>>" ++ check (runes_of_ascii "
MetaData asx{
float32 charz
    `u8 x,` ,	}	MetaData /// triple
tag { char[
0 ]falsey , }
")).
Eval vm_compute in ("<<<M1504>>>" ++ check (runes_of_ascii "packet
T
{ match repeatCount as	calculatedFrom
{ [65535 ]	: As" ++ [65279]%N ++ runes_of_ascii "	,
} ,}
// trailing space 
")).
Eval vm_compute in ("<<<M1464>>>" ++ check (runes_of_ascii "packet
T
{ match repeatCount as	calculatedFrom
{ [65535 :	] As	,
} ,}
// trailing space 
")).
Eval vm_compute in ("<<<M1482>>>" ++ check (runes_of_ascii "packet
T
{ match repeatCount as	calculatedFrom
{ [65535 ]	: As	,
 ,}
// trailing space 
")).
Eval vm_compute in ("<<<M1773>>>" ++ check (runes_of_ascii "options{  lengthOf =//x
i16;
    BodyLength = 0 ; pack
= MetaData;
    A = char[ 3 ] }")).
Eval vm_compute in ("<<<M1821>>>" ++ check (runes_of_ascii "options{  lengthOf =//x
i16;
    " ++ [127]%N ++ runes_of_ascii " BodyLength = 0 ; pack
= false;
    A = char[ 3 ] }")).
Eval vm_compute in ("<<<M772>>>" ++ check (runes_of_ascii "packet	zchar
{} MetaData
    T { i64
A ,
    // @lengthOf(
    i32 u
, o Packet , }
")).
Eval vm_compute in ("<<<M4344>>>" ++ check (runes_of_ascii "packet leftPad {
    @leftPad('0')
    u32 i64_ `100% of %d`,
    repeat i8 chars,
}")).
Eval vm_compute in ("<<<M2910>>>" ++ check (runes_of_ascii "packet A {
  match k as n {
    [""a"", ""bb"", ""c c"", ""d"", ""e""] : B,
    2 : C
  },
}")).
Eval vm_compute in ("<<<M3282>>>" ++ check (runes_of_ascii "MetaData Foo { zchar[ 0 ] matchKey , } options { lengthOf = i32 u = 00 ; }
// c
")).
Eval vm_compute in ("<<<M3255>>>" ++ check (runes_of_ascii "MetaData Foo { zchar[ 0 ] // c
matchKey , } options { lengthOf = i32 u = 00 ; }")).
Eval vm_compute in ("<<<M1799>>>" ++ check (runes_of_ascii "options{  lengthOf =//x
i16;
    BodyLength = 0 ; pack
= false;
    A = char[")).
Eval vm_compute in ("<<<M4249>>>" ++ check (runes_of_ascii "root packet P {
    u16 a,
    u32 Sum @calculatedFrom(""CR\
        C32""),
}")).
Eval vm_compute in ("<<<M3702>>>" ++ check (runes_of_ascii "options {
    u128 = zchar[3];
    body = ""a\""b"";
    options1 = false;
}")).
Eval vm_compute in ("<<<M241>>>" ++ check (runes_of_ascii "// " ++ [128512]%N ++ runes_of_ascii " emoji
packet float {
    zchar[
7 ]trueish ,
    // a // b
    }")).
Eval vm_compute in ("<<<M2267>>>" ++ check (runes_of_ascii "options
    {
x_y_z// " ++ [27880; 37322]%N ++ runes_of_ascii "
= 10 ; }
packet body {
    @calculatedFrom(")).
Eval vm_compute in ("<<<M2853>>>" ++ check (runes_of_ascii "i8 char[] match @rightPad ; root root @tag( @calculatedFrom( { '0'")).
Eval vm_compute in ("<<<M2933>>>" ++ check (runes_of_ascii "packet A { Inner { match k as n { [1,22,007,4,5,66] : B, }, }, }")).
Eval vm_compute in ("<<<M271>>>" ++ check (runes_of_ascii "// `tick` ""quote"" 'q'
MetaData calculatedFrom{ Pad
zchar
, }
")).
Eval vm_compute in ("<<<M3311>>>" ++ check (runes_of_ascii "packet u8x { } MetaData crc { char[ 4294967296 ] Foo // c
, }")).
Eval vm_compute in ("<<<M3367>>>" ++ check (runes_of_ascii "root packet P {
    hdr {
        u8 a,
    },
    u8 x,
}
")).
Eval vm_compute in ("<<<M3204>>>" ++ check (runes_of_ascii "packet A { @tag(1) // a
 @leftPad('0') // b
 char[4] x, }")).
Eval vm_compute in ("<<<M4071>>>" ++ check (runes_of_ascii "
packet
A
	{B

    {

    u8

    x
,
    } ,}
")).
Eval vm_compute in ("<<<M4226>>>" ++ check (runes_of_ascii "  options
    { 
u128
    =

char[]  ;
} // a // b
")).
Eval vm_compute in ("<<<M3189>>>" ++ check (runes_of_ascii "packet A {} packet B {} MetaData M {} options {}")).
Eval vm_compute in ("<<<M563>>>" ++ check (runes_of_ascii "options { }packet u128// trailing space 
{ }
")).
Eval vm_compute in ("<<<M1975>>>" ++ check (runes_of_ascii "
packet leftPad {
@leftPad( '0')
u32
i64_")).
Eval vm_compute in ("<<<M2633>>>" ++ check (runes_of_ascii "packet A { @leftPad('0' '0') char[2] x, }")).
Eval vm_compute in ("<<<M4049>>>" ++ check (runes_of_ascii "root packet zchar {
    f32a matchKey,
}")).
Eval vm_compute in ("<<<M282>>>" ++ check (runes_of_ascii "options
    {As=""" ++ [28040; 24687]%N ++ runes_of_ascii """ ; } // @lengthOf(")).
Eval vm_compute in ("<<<M2402>>>" ++ check (runes_of_ascii "MetaData
Foo {Header //
caf" ++ [233]%N ++ runes_of_ascii "_1 ,	} 	 ")).
Eval vm_compute in ("<<<M3184>>>" ++ check (runes_of_ascii "options { a = 1 // c b = 2; // d}")).
Eval vm_compute in ("<<<M1090>>>" ++ check (runes_of_ascii "MetaData T
    {  char[
1 ] o,
}
")).
Eval vm_compute in ("<<<M3017>>>" ++ check (runes_of_ascii "root packet A {
    u8 x `a
b`,
}")).
Eval vm_compute in ("<<<M4401>>>" ++ check (runes_of_ascii "packet A {
    u8 x `d" ++ [12288]%N ++ runes_of_ascii "`,// c" ++ [12288]%N ++ runes_of_ascii "
}")).
Eval vm_compute in ("<<<M2814>>>" ++ check (runes_of_ascii """"" 42 @rightPad i8 packet true")).
Eval vm_compute in ("<<<M3339>>>" ++ check (runes_of_ascii "
// c
options { u8x = false }")).
Eval vm_compute in ("<<<M3349>>>" ++ check (runes_of_ascii "options { u8x = false
// c
}")).
Eval vm_compute in ("<<<M2232>>>" ++ check (runes_of_ascii "options
    {
x_y_z// " ++ [27880; 37322]%N ++ runes_of_ascii "
=")).
Eval vm_compute in ("<<<M4182>>>" ++ check (runes_of_ascii "options {
    Foo = ' '
}")).
Eval vm_compute in ("<<<M2708>>>" ++ check (runes_of_ascii "007 : = repeat char[ u8")).
Eval vm_compute in ("<<<M2064>>>" ++ check (runes_of_ascii "MetaData BodyLength
{")).
Eval vm_compute in ("<<<M286>>>" ++ check (runes_of_ascii "MetaData Packet
{ }")).
Eval vm_compute in ("<<<M464>>>" ++ check (runes_of_ascii "
options
{
    }
")).
Eval vm_compute in ("<<<M3143>>>" ++ check (runes_of_ascii "// c" ++ [8287]%N ++ runes_of_ascii "
packet A {
}")).
Eval vm_compute in ("<<<M2693>>>" ++ check (runes_of_ascii "// only a comment")).
Eval vm_compute in ("<<<M2500>>>" ++ check (runes_of_ascii "@calculatedFrom(")).
Eval vm_compute in ("<<<M2577>>>" ++ check (runes_of_ascii "packet A { x }")).
Eval vm_compute in ("<<<M2786>>>" ++ check (runes_of_ascii " 1zQBy@:;+qy")).
Eval vm_compute in ("<<<M2489>>>" ++ check (runes_of_ascii "@leftPad(")).
Eval vm_compute in ("<<<M2466>>>" ++ check (runes_of_ascii "strings")).
Eval vm_compute in ("<<<M2844>>>" ++ check (runes_of_ascii "w""Bn;m")).
Eval vm_compute in ("<<<M3091>>>" ++ check (runes_of_ascii "// c ")).
Eval vm_compute in ("<<<M2533>>>" ++ check (runes_of_ascii "12ab")).
Eval vm_compute in ("<<<M2537>>>" ++ check (runes_of_ascii "1.5")).
Eval vm_compute in ("<<<M2545>>>" ++ check (runes_of_ascii "1_")).
