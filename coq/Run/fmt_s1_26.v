From FP Require Import Lexer Parser ShowPT Digest Formatter.
From Coq Require Import String List NArith.
Import ListNotations.
Open Scope string_scope.
Set Printing Width 100000000.
Set Printing Depth 100000000.
Definition show_fres (r : fres) : string :=
  match r with
  | FOk s => "OK:" ++ sh_escaped s ""
  | FErr s => "ERR:" ++ sh_escaped s ""
  | FPanic p => "PANIC:" ++ p
  end.
Definition check (rs : list rune) : string := digest (show_fres (format_res rs)).
Definition full (rs : list rune) : string := show_fres (format_res rs).
Eval vm_compute in ("<<<M265>>>" ++ check (runes_of_ascii "MetaData MetaDataX
{
    Foo BodyLength // packet A { u8 x, }
, As T , }options { calculatedFrom = true  ;// " ++ [27880; 37322]%N ++ runes_of_ascii "
Header
= true}
// trailing space 
// c
packet tag {	@leftPad (
    '\x00') @lengthOf( Foo)// a // b
@tag(
    42)string body
    ,
@calculatedFrom(""abc"")
char[ 00
]	len,@calculatedFrom( """ ++ [128512]%N ++ runes_of_ascii """
)	repeat tag ,match msg_type as // @lengthOf(
Header {	65535
//
// @lengthOf(
: roots , ""abc"" //
: string_ , [ 007 , 0
    // `tick` ""quote"" 'q'
    ,	007 ]:
// " ++ [128512]%N ++ runes_of_ascii " emoji
// a // b
zchar 255
    //
    : Packet [ ""packet"" , 0 ,
    ""\" ++ [233]%N ++ runes_of_ascii """ , ""x y"" , 65535 , """ ++ [233]%N ++ runes_of_ascii "t" ++ [233]%N ++ runes_of_ascii """ , 0123456789
,
7]
: //
matchKey} ,repeat
int64
metadata`
`
,
i64_
`` //
, char[42 ] MetaDataX
// `tick` ""quote"" 'q'
// c
@calculatedFrom( ""CRC32"" ) , zchar[ 255 ]
    //
    roots	@lengthOf(
    options1
    ) `two words` , msg_type @calculatedFrom(
    //x
    ""\n""  ) ,
    u len , } packet x {
} packet falsey
{  @calculatedFrom(
""a	b""
)
    int64 falsey
    `{ , }`,
    repeat f64 crc// trailing space 
,
    @tag(	255) uint32 // a // b
chars `" ++ [28040; 24687; 31867; 22411]%N ++ runes_of_ascii "` , @leftPad ( '\x00'	)@lengthOf( falsey )
@calculatedFrom(	""a	b"" )  stringy { zchar[ // " ++ [27880; 37322]%N ++ runes_of_ascii "
7	] Pad `line1
line2` , string
    pack,
    // @lengthOf(
    float64 string_ ,	},	repeat rootA{	match Logon as
    /// triple
    o // " ++ [27880; 37322]%N ++ runes_of_ascii "
{ 007 //x
:leftPad
    , 0	: T , ""CRC32"" :
T
[ ""a	b"" ]: Logon , } ,
    match // @lengthOf(
x_y_z as
_x
{ 10
:
metadata , """ ++ [233]%N ++ runes_of_ascii "t" ++ [233]%N ++ runes_of_ascii """
    : string_,  } ,} ,
// c
/// triple
o{ options1
    @calculatedFrom("""" ) ,	repeat i32
body, } , @tag(1 /// triple
) match packetx// " ++ [27880; 37322]%N ++ runes_of_ascii "
as rootA
{
""" ++ [128512]%N ++ runes_of_ascii """:
// `tick` ""quote"" 'q'
//x
zchar  ,
    7 :
    zchar  ,
[ 0 , 42,
""a\\"" , 0123456789	, ""it's""
,3 //	t
,
""abc""	, 0123456789	]: lengthOf,
// " ++ [27880; 37322]%N ++ runes_of_ascii "
//x
0
// trailing space 
// " ++ [27880; 37322]%N ++ runes_of_ascii "
: _x, ""1"":
    Header , }
    , @rightPad
    // c
    ( ) repeat pack {
match MetaDataX
    as o { ""a\""b"" : Pad
[ ""a\""b"" ]:A , 1
: rootA  , }
    , match	calculatedFrom as T/// triple
{ 65535  : stringy , // " ++ [27880; 37322]%N ++ runes_of_ascii "
65535 :  Packet ,
    [
007 , ""CRC32""
    , 00 , 3 ,
    65535
,	""x y"" ,65535 ]: matchKey/// triple
, 007
: rootA
,// @lengthOf(
}, },char[] u128
,// a // b
}")).
Eval vm_compute in ("<<<M1161>>>" ++ check (runes_of_ascii "
root  packet MetaDataX	{int32
Logon,
}packet
    roots { match
calculatedFrom as i8i8 { [	""// no comment""	,""\" ++ [233]%N ++ runes_of_ascii """, // c
10 , ""\n"" , ""{,}"" , //	t
65535
, ""x y"" ] : // " ++ [128512]%N ++ runes_of_ascii " emoji
As , 10 :
    o ,
""\" ++ [233]%N ++ runes_of_ascii """
: MetaDataX
} , @leftPad ( '\x00' )
@lengthOf(
a1 )
    // `tick` ""quote"" 'q'
    @calculatedFrom(""a\\"" ) uint16 float @calculatedFrom( ""`tick`"") //	t
,string BodyLength
    @calculatedFrom(""x y""
) ,calculatedFrom stringy // packet A { u8 x, }
,
@lengthOf( a1 )
    @tag(	65535)char[]
falsey `// not a comment`
, @calculatedFrom( """ ++ [233]%N ++ runes_of_ascii "t" ++ [233]%N ++ runes_of_ascii """
    )char[ 255 ]/// triple
msg_type ,
o , @rightPad ( '0' ) // trailing space 
repeat rootA { x {  repeat u8 Z9_
    `
` ,	char[255 ] // " ++ [128512]%N ++ runes_of_ascii " emoji
leftPad , int32 len`line1
line2`
    , } ,// `tick` ""quote"" 'q'
repeat uint8x
{ char[] rootA @lengthOf(Z9_ ), match  zchar as x_y_z {	0
: Z9_	, [
007
, 007
    , 1 ,007,""""
    , ""1"" ]
    :
packetx
    ,	[""1"" , """"
]
: len , """" :BodyLength ,
    [ ""// no comment""
    ,
    //	t
    """ ++ [128512]%N ++ runes_of_ascii """ ,	""`tick`"" ] :
chars ,
10: T } , },
    // " ++ [27880; 37322]%N ++ runes_of_ascii "
    a1 @lengthOf( body
) ,  }
    //x
    , }MetaData// c
crc {  }
    options{ rootA =
'\x00' }
packet lengthOf
{ char[] float// " ++ [128512]%N ++ runes_of_ascii " emoji
`" ++ [28040; 24687; 31867; 22411]%N ++ runes_of_ascii "` ,
char[] falsey , repeatCount	`crlf
line` ,// packet A { u8 x, }
uint32 Foo
@lengthOf( string_ ) `doc`, @calculatedFrom(// @lengthOf(
""\n"" )
    f64 Pad @lengthOf(
    i8i8) ,
@lengthOf(
i8i8) x_y_z // `tick` ""quote"" 'q'
x
    ,@calculatedFrom(
    ""1""
// packet A { u8 x, }
// packet A { u8 x, }
) pack
{ float64 leftPad `crlf
line`
, repeat int {	match packetx
as repeatCount {// " ++ [27880; 37322]%N ++ runes_of_ascii "
[""a\""b"" ,
    // c
    42 ]  : repeatCount // a // b
,
    3 : // " ++ [128512]%N ++ runes_of_ascii " emoji
leftPad ,
    ""it's""
:i8i8
, ""packet"": x_y_z ""`tick`""
:
asx , 3
    : Foo, } , i32 //	t
options1 `" ++ [233]%N ++ runes_of_ascii "`
    ,repeat int i64_
    ,
    }
    ,
} , }
")).
Eval vm_compute in ("<<<M4169>>>" ++ check (runes_of_ascii "
packet
    body

    {@tag(

00	) 
options1
	@calculatedFrom(""1"")

,
    @calculatedFrom(

    // " ++ [27880; 37322]%N ++ runes_of_ascii "
	// packet A { u8 x, }
  ""abc""  )uint8x
{ o

//	t
  ,// c
  u16 float `a\`
,

    },
	@tag(1 )
u  `u8 x,`
	,
crc {
	zchar 
{

match	/// triple
i8i8 as 	 // trailing space 
int

    {

    ""`tick`""
:
	x_y_z,} 
,
	repeat
    uint8 
f32a ,
	}
,	// c

	i8
As
@lengthOf(
Foo )	`it's`
,charz
	@calculatedFrom(
    ""it's""

)  , 
char[
	4294967296 ] Packet
`it's`

    , }  ,  @lengthOf(

    Z9_
    )
crc
    {repeat
options1{

match 	 // `tick` ""quote"" 'q'
	MetaDataX
as
	pack

{  [
    //	t
		//
""a\\""
    ] :
    i8i8  , 
""a\\"":
	falsey

[ ""packet""  ]
	: Logon

    , [4294967296
	,  ""abc""
, ""{,}""
    ,//x
  3 ,""" ++ [128512]%N ++ runes_of_ascii """,  7,

00 ,7 ]
	:
matchKey
    ,0
	:	trueish, } ,

x_y_z repeatCount , repeat uint16

    repeatCount  //
  ,}
,  options1
, // " ++ [128512]%N ++ runes_of_ascii " emoji
falsey {

    char[]

    u
`u8 x,`	, }  , }

    , 
}
root
	packet	Pad { match 
o	// trailing space 
  as

a1{[	"""" 
,
    ""packet""
	    // c
    	,
    1
    , 
    //	t
    0123456789  // trailing space 
	  ]
:
charz ,  // trailing space 
    ""a\""b"": 
x_y_z , [

    ""CRC32"",
	007 , 255]	:	float 
,
    4294967296:  int 
,
    ""{,}""

:

stringy  , 4294967296: A	, } 
,
	@rightPad

    ( )@tag( 7 //
) match 	 // packet A { u8 x, }
      uint8x
as
    crc{ 255

    :
    pack
, },
	repeat  int8  i8i8

, }  packet 
a1 {
    string	As
@calculatedFrom(	""a	b""  )
, 
}
MetaData u  {
	} 
	    //x
	root packet f32a
    { }
")).
Eval vm_compute in ("<<<M1155>>>" ++ check (runes_of_ascii "packet u128 {
// packet A { u8 x, }
// c
@rightPad (
' ')uint8x { zchar {
match u8x
as
Logon {007 // @lengthOf(
: Packet
    //x
    , [ 255 ,
//
//x
""`tick`"" ,00 , 42 ,
""a\\""
    ,	3 ] :
// @lengthOf(
// a // b
int ,},  metadata `" ++ [28040; 24687; 31867; 22411]%N ++ runes_of_ascii "` ,
repeat char[]Header
    , a1, }
, match // packet A { u8 x, }
leftPad as rootA{
0123456789 : int,0 : pack, }, tag { // " ++ [27880; 37322]%N ++ runes_of_ascii "
string_ ,
    pack calculatedFrom  , },// packet A { u8 x, }
} ,
    //x
    zchar[
255] msg_type , i32// c
x, match options1 // @lengthOf(
as
    options1 {  10// @lengthOf(
: //
zchar,
42 : pack ,
[  ""a\\"" ] :
    // @lengthOf(
    As [42
,
    ""a\""b"" ] : asx
, [
    10 ] :a1 ,
[
    00]
:
    // trailing space 
    chars
    // " ++ [27880; 37322]%N ++ runes_of_ascii "
    , } ,
// `tick` ""quote"" 'q'
//	t
char[0] Header @lengthOf(
chars) // @lengthOf(
`it's` ,
//
//	t
match//	t
x_y_z as
    u8x {  65535 : Logon
    ,""" ++ [233]%N ++ runes_of_ascii "t" ++ [233]%N ++ runes_of_ascii """ :
Header ,
    ""a	b"":
metadata ,	[
    255,
""a\\""
// a // b
// c
, ""a	b""
, //x
1 , ""{,}"" , """",255 , """ ++ [28040; 24687]%N ++ runes_of_ascii """ ]: f32a
//	t
// c
, 3	:
len // @lengthOf(
}, @leftPad
( ) @calculatedFrom( ""a\\"") int64 leftPad
`" ++ [233]%N ++ runes_of_ascii "` , @calculatedFrom( ""packet"" )
    @tag(
10 )  @calculatedFrom(""a\\"" ) string Packet
    @lengthOf( BodyLength ),//x
@leftPad ( // @lengthOf(
'0' )repeat
char[]
//	t
// trailing space 
Logon
,
@tag( 00
) match
u8x as Z9_ {
[ 10 ] : lengthOf
    0123456789 : _x, ""packet"" : i64_, } , }")).
Eval vm_compute in ("<<<M4032>>>" ++ check (runes_of_ascii "packet lengthOf {
    matchKey `doc`,
    i8i8 {
        match crc as zchar {
            [1, ""abc"", 0, 0123456789, 65535] : chars,
            ""\n"" : uint8x,
            ""a\""b"" : int,
            [
                ""`tick`"", ""a	b"", ""a	b"", 4294967296, 4294967296,
                """", ""a\""b""
            ] : string_,
            0123456789 : A,
            ""packet"" : asx,
        },
        char[00] u8x `u8 x,`,
        u8x {
            uint32 float @calculatedFrom(""{,}""),
            //	t
            // " ++ [128512]%N ++ runes_of_ascii " emoji
            char[0] zchar,
        },
        falsey @calculatedFrom(""" ++ [128512]%N ++ runes_of_ascii """),
    },
    @calculatedFrom(""1"")
    zchar[255] metadata @lengthOf(packetx),
    Header @calculatedFrom(""CRC32""),
    // c
    // trailing space 
    float @lengthOf(crc) ``,
    @tag(42)
    @lengthOf(A)
    @lengthOf(u128)
    stringy `" ++ [233]%N ++ runes_of_ascii "`,
    @leftPad('0')
    char[4294967296] float,
    u `" ++ [233]%N ++ runes_of_ascii "`,
    @lengthOf(falsey)
    // @lengthOf(
    @lengthOf(lengthOf)
    repeat f32 matchKey `line1
        line2`,
}

options {
    lengthOf = string;
}

packet falsey {
    @tag(1)
    int16 repeatCount @lengthOf(charz) `a\`,
    repeat u64 MetaDataX `say ""hi""`,
}

options {
    x = ""abc""
}

MetaData BodyLength {
    zchar[4294967296] zchar,
}")).
Eval vm_compute in ("<<<M4413>>>" ++ check (runes_of_ascii "options {
}

MetaData x_y_z {
    string_ packetx,
    metadata o,
    char[3] charz,
    zchar charz,
}

MetaData T {
    zchar[3] len,
    u x_y_z,
    u64 A,
}

packet zchar {
    @tag(4294967296)
    @calculatedFrom(""" ++ [233]%N ++ runes_of_ascii "t" ++ [233]%N ++ runes_of_ascii """)
    @calculatedFrom(""abc"")
    match tag as tag {
        """" : stringy,
        """ ++ [28040; 24687]%N ++ runes_of_ascii """ : f32a,
        4294967296 : matchKey,
        0 : msg_type,
        7 : Logon,
        7 : trueish,
    },
    roots @calculatedFrom(""" ++ [233]%N ++ runes_of_ascii "t" ++ [233]%N ++ runes_of_ascii """),
    BodyLength `" ++ [233]%N ++ runes_of_ascii "`,
    repeat int zchar `
    `,
    @leftPad()
    body @calculatedFrom(""" ++ [233]%N ++ runes_of_ascii "t" ++ [233]%N ++ runes_of_ascii """),
}

packet Packet {
    @lengthOf(uint8x)
    // @lengthOf(
    i64_ {
        u128 {
            stringy,
        },
    },
    T MetaDataX `u8 x,`,
    @calculatedFrom("""")
    @lengthOf(x_y_z)
    @calculatedFrom(""1"")
    uint32 charz @calculatedFrom(""`tick`"") `" ++ [233]%N ++ runes_of_ascii "`,
    // @lengthOf(
    string u8x @calculatedFrom(""\" ++ [233]%N ++ runes_of_ascii """) `line1
    line2`,
    @leftPad()
    string tag @lengthOf(f32a) `" ++ [233]%N ++ runes_of_ascii "`,
    @rightPad()
    @tag(7)
    @lengthOf(rootA)
    // " ++ [128512]%N ++ runes_of_ascii " emoji
    repeat T matchKey,
    @lengthOf(metadata)
    zchar[10] _x @lengthOf(a1),
    @leftPad()
    f32a o `{ , }`,
}
// packet A { u8 x, }")).
Eval vm_compute in ("<<<M4402>>>" ++ check (runes_of_ascii "
// @lengthOf(
packet

options1

{ @lengthOf(

i8i8  )i64_

int  `{ , }` ,char[]	int 
,  zchar[

    00
//	t
  // packet A { u8 x, }
    ]  len
	,	} packet
	u128
{ 
@tag( 3 	 //	t
  )

@calculatedFrom( 
//
  // @lengthOf(
	  ""// no comment""

    ) 
options1 	 // packet A { u8 x, }
{
int16 	 //x

  calculatedFrom
@calculatedFrom( """ ++ [28040; 24687]%N ++ runes_of_ascii """ )
,

    chars
@lengthOf(
	calculatedFrom
    )
	,crc
	{o @calculatedFrom( """ ++ [233]%N ++ runes_of_ascii "t" ++ [233]%N ++ runes_of_ascii """
)
, float u8x

    ,repeat

    metadata

uint8x ,
} ,
}	,

float64
	options1,
@leftPad
    ( ) @lengthOf(

Foo)  @calculatedFrom(	""packet""

) 
  //	t
		// c
char[  1 	 // c
	]

    i8i8

@calculatedFrom( 
""abc""
    )

`{ , }`

,

    @leftPad
(
    '0') T
{int32
	i8i8
    `u8 x,` 
	//
		, match Z9_ as	string_  {

    [  7 ,10

, 65535,

0 ,

42 
, 255
,
""\" ++ [233]%N ++ runes_of_ascii """
    // packet A { u8 x, }
,
""`tick`"" ]
:Foo,  """ ++ [233]%N ++ runes_of_ascii "t" ++ [233]%N ++ runes_of_ascii """

    : u8x  [  255

,"""" ,0 ,
    """" ,
	""" ++ [233]%N ++ runes_of_ascii "t" ++ [233]%N ++ runes_of_ascii """,

255
, 4294967296

    , 00

    ] :
	i64_

    ,

10  :
Foo
}
,  
      // trailing space 
	pack@calculatedFrom(	""`tick`""	),	}
,	a1 	 //	t
`say ""hi""`

, 
}
")).
Eval vm_compute in ("<<<M1236>>>" ++ check (runes_of_ascii "
packet
roots
    {f32 zchar @calculatedFrom( ""a	b""	) `crlf
line`
,
// @lengthOf(
/// triple
uint8x
`tab	here`// `tick` ""quote"" 'q'
, @rightPad ( // a // b
)
@rightPad ( '\x00' ) string int
@lengthOf( body
// " ++ [128512]%N ++ runes_of_ascii " emoji
//	t
)
,charz { repeat zchar{BodyLength
// " ++ [27880; 37322]%N ++ runes_of_ascii "
// c
@lengthOf( int // a // b
) , } , }	, @rightPad (
' ' ) repeat
    asx metadata  `it's`
    ,
float64 trueish ,repeat//	t
char[ 42] // " ++ [128512]%N ++ runes_of_ascii " emoji
body`a\` ,	@rightPad
    (
'0' )u32  body
    `tab	here` , } // `tick` ""quote"" 'q'
packet chars { @calculatedFrom(
    ""packet"" ) zchar[ 65535
]_x , float
    As`line1
line2`// c
, u64 asx @calculatedFrom(
""1"")
`u8 x,`
,crc	@lengthOf(  msg_type ) ,
    @tag(
    00 ) //x
@rightPad
    (// @lengthOf(
' ' // c
) /// triple
@calculatedFrom( """ ++ [233]%N ++ runes_of_ascii "t" ++ [233]%N ++ runes_of_ascii """ // " ++ [128512]%N ++ runes_of_ascii " emoji
) uint8
    calculatedFrom , }options {  Packet =' '
; Logon
/// triple
// trailing space 
=255
BodyLength =""// no comment""
} options { float =
""a	b"" ; f32a= """ ++ [28040; 24687]%N ++ runes_of_ascii """
    //	t
    len =
    uint64 ;
    calculatedFrom='0' // " ++ [27880; 37322]%N ++ runes_of_ascii "
; }")).
Eval vm_compute in ("<<<M4050>>>" ++ check (runes_of_ascii "
MetaData 
        //
	body {  u16
    roots	`say ""hi""`
,

char[ 65535

    ]  o

    ,uint32 
Z9_ , char
	trueish`crlf
line` ,
	}

packet	crc	// packet A { u8 x, }
    { u128

    ,	repeat
char[]
    trueish
, 
string 
asx	@lengthOf(  zchar )  // c

`crlf
line`,int{ int  u 	 //
    ,} ,
    @tag(
10 )

// @lengthOf(
		zchar[ 
//x
	//x
	65535] 	 /// triple

zchar @calculatedFrom( """ ++ [28040; 24687]%N ++ runes_of_ascii """)`a\`  ,
	@rightPad

    ( '\x00'
    ) string crc
@lengthOf(
    // trailing space 
    o ) 
,

match rootA
    as len	{	[ 10 ,

3	// " ++ [27880; 37322]%N ++ runes_of_ascii "
	  ,

""\n"" , """ ++ [233]%N ++ runes_of_ascii "t" ++ [233]%N ++ runes_of_ascii """
    ,	""packet"" ] :
// a // b
    leftPad
, 65535  : 
pack},

zchar[
	65535
    ] 
	    //x
	asx

`u8 x,`  
  // a // b
  ,i16 
    // @lengthOf(
	// " ++ [27880; 37322]%N ++ runes_of_ascii "

	roots
    `u8 x,`
,

    // " ++ [128512]%N ++ runes_of_ascii " emoji
//
    @leftPad

    ( ) 
f64
	Packet
    ,
    }  packet
tag
    {

@rightPad	//
('0')repeat 
char[ 
00 
] crc ,

    }
packet

    stringy {  char[] 
roots	`" ++ [233]%N ++ runes_of_ascii "` //	t
      ,

    }")).
Eval vm_compute in ("<<<M258>>>" ++ check (runes_of_ascii "
packet leftPad
    {}	packet u{@leftPad
( ' ' )
    char[65535 ]leftPad, int8
packetx ,
string stringy `crlf
line` ,@leftPad
( // @lengthOf(
' ' // " ++ [27880; 37322]%N ++ runes_of_ascii "
) // " ++ [128512]%N ++ runes_of_ascii " emoji
i64 x
@lengthOf( u )
    `" ++ [28040; 24687; 31867; 22411]%N ++ runes_of_ascii "`	,@lengthOf( pack )
// a // b
//
u64 asx  @lengthOf( repeatCount )
    `u8 x,` , o A ,}	root packet charz{
char[]repeatCount
    //x
    @lengthOf( tag ) ``
,
    repeat pack	`a\` , @calculatedFrom( ""// no comment""
    //x
    ) T { string rootA // " ++ [27880; 37322]%N ++ runes_of_ascii "
@calculatedFrom(""{,}"" )  ,
    }, repeat As
    Foo
, char[
3] trueish ,@calculatedFrom(""""
    )@lengthOf(
metadata)@leftPad ('0'
/// triple
//x
) repeat u64 float `{ , }`
// " ++ [27880; 37322]%N ++ runes_of_ascii "
// " ++ [128512]%N ++ runes_of_ascii " emoji
, stringy {
// packet A { u8 x, }
// c
metadata
    { u8 f32a `two words` , repeat  char[ 007 ] f32a
`
` ,
    } ,  u32 asx @calculatedFrom(""" ++ [233]%N ++ runes_of_ascii "t" ++ [233]%N ++ runes_of_ascii """
) ,float64 i8i8 ,//x
} ,
// c
// " ++ [27880; 37322]%N ++ runes_of_ascii "
match lengthOf as zchar
    /// triple
    {
    00 :o,  } , }")).
Eval vm_compute in ("<<<M3624>>>" ++ check (runes_of_ascii "// top
options // c0
{
    // c1
LittleEndian = // c3a
  // c3b
true ; // c5
StringPrefixLenType // c6a
  // c6b
= u8 // c8a
  // c8b
;
    // c9
ArrayPrefixLenType // c10a
  // c10b
= u8
    // c12
;
    // c13
} // c14a
  // c14b
packet // c15
Ack // c16a
  // c16b
{
    // c17
} // c18a
  // c18b
root // c19
packet // c20
Quote
    // c21
{
    // c22
Ack // c23
,
    // c24
InSym94
    // c25
{ // c26
repeat Ack // c28a
  // c28b
,
    // c29
} , // c31
u16 // c32a
  // c32b
msgKind // c33
, // c34a
  // c34b
u16 OrderId // c36a
  // c36b
@lengthOf(
    // c37
Body // c38a
  // c38b
) // c39
, // c40a
  // c40b
match
    // c41
msgKind // c42
as
    // c43
Body // c44a
  // c44b
{ // c45a
  // c45b
[ // c46
110 ,
    // c48
48 // c49a
  // c49b
] // c50
:
    // c51
Ack // c52
, }
    // c54
,
    // c55
} // c56a
  // c56b
")).
Eval vm_compute in ("<<<M77>>>" ++ check (runes_of_ascii "  options
{  T
= ' ' }
MetaData Pad
    //x
    {
string_ u128  , u64 // @lengthOf(
uint8x `two words` , int8 repeatCount
, }
    packet
len{
    Packet
    `
`
,@calculatedFrom( ""a\""b""
) zchar[
    42 ]
rootA ,
    @calculatedFrom(
""packet"" )
@calculatedFrom( ""\n"" ) Packet @calculatedFrom( ""\" ++ [233]%N ++ runes_of_ascii """  )
    `" ++ [28040; 24687; 31867; 22411]%N ++ runes_of_ascii "`, @leftPad
    (
    '\x00' )
@leftPad (	)
@rightPad (
)
repeat string_
    {match asx // c
as rootA {[
""`tick`"",65535	]:
falsey ,} , trueish
, char Z9_`// not a comment` ,
    Packet Logon `{ , }`, } ,@tag( 1 )
    match x as pack//	t
{
1 :stringy // `tick` ""quote"" 'q'
, [	42 ]:  x }  ,
repeat//x
i8 u8x , @calculatedFrom(""packet"") string_ // c
@lengthOf( rootA ),	falsey
@lengthOf( x )
,} options
{}
root packet u { @lengthOf(x_y_z )	u
    @calculatedFrom( """"
)
`two words`, }")).
Eval vm_compute in ("<<<M4125>>>" ++ check (runes_of_ascii "packet repeatCount {
    @tag(1)
    @leftPad(' ')
    @leftPad('\x00')
    int16 trueish @lengthOf(len) `// not a comment`,
    @calculatedFrom(""it's"")
    f64 trueish @lengthOf(pack),
    i64 int `u8 x,`,
    int16 Packet,
    repeat trueish {
        char[65535] int @lengthOf(Foo) `crlf
        line`,
    },
    match chars as u128 {
        0123456789 : uint8x,
        ""1"" : A,
        ""packet"" : matchKey,
        0 : crc,
        ""abc"" : T,
    },
    @rightPad()
    match a1 as u128 {
        3 : lengthOf,
        ""a\\"" : trueish,
        007 : rootA,
    },
    @leftPad(' ')
    string_ `tab	here`,
    packetx @lengthOf(Header),
    @tag(255)
    @tag(42)
    char[] packetx,// `tick` ""quote"" 'q'
}

options {
    rootA = ' '
    x_y_z = int8
}")).
Eval vm_compute in ("<<<M344>>>" ++ check (runes_of_ascii "// " ++ [27880; 37322]%N ++ runes_of_ascii "
root packet _x {
//	t
// packet A { u8 x, }
@rightPad (
) zchar[
    007]
    Logon @calculatedFrom(""x y""),zchar[
7]
string_ @lengthOf(
Packet /// triple
)
`two words`,
@tag( 007 )	@calculatedFrom(
    ""x y"" )repeat
calculatedFrom { // packet A { u8 x, }
zchar @calculatedFrom( """ ++ [233]%N ++ runes_of_ascii "t" ++ [233]%N ++ runes_of_ascii """
    // `tick` ""quote"" 'q'
    )	,
int32 leftPad , } ,repeat body chars ,	@lengthOf(
options1
    ) repeat
    //	t
    char[
255] Foo  ,
// c
//
repeat MetaDataX
    { pack, } ,char[
7 ] repeatCount @calculatedFrom(""it's""  ) , }
    // trailing space 
    packet Packet {
    Header
// " ++ [27880; 37322]%N ++ runes_of_ascii "
// @lengthOf(
@lengthOf( uint8x ) `two words` ,} options//	t
{  } root
    // " ++ [27880; 37322]%N ++ runes_of_ascii "
    packet msg_type
{int32 //x
body`" ++ [28040; 24687; 31867; 22411]%N ++ runes_of_ascii "`,
    }
")).
Eval vm_compute in ("<<<M57>>>" ++ check (runes_of_ascii "root
packet string_{ i32 uint8x @calculatedFrom( ""\" ++ [233]%N ++ runes_of_ascii """ ) , body ,@tag(// a // b
0  ) Z9_
    @calculatedFrom(
""" ++ [28040; 24687]%N ++ runes_of_ascii """),
@lengthOf( stringy	)  falsey
    { repeat trueish { u64 i8i8 , }
,  } ,
char[] leftPad
@lengthOf( falsey
    // c
    ),	@calculatedFrom(	""a	b""
    )
//x
// " ++ [27880; 37322]%N ++ runes_of_ascii "
char[]  BodyLength,//x
match
falsey as crc{255 :falsey ,[
//x
// @lengthOf(
7,7] // @lengthOf(
:
//
//x
crc, ""a	b""// `tick` ""quote"" 'q'
: i8i8,255  : a1
, } ,Logon@lengthOf( _x // `tick` ""quote"" 'q'
)
, match	lengthOf as  o{ ""packet"" :	x_y_z ,} , } options
{
//	t
// `tick` ""quote"" 'q'
calculatedFrom
=
""// no comment""  ;
    x
    ='\x00' a1
= ""abc"" ; x_y_z=
65535 ; } packet Foo
{ } packet o { }")).
Eval vm_compute in ("<<<M750>>>" ++ check (runes_of_ascii "packet a1
    {  repeat//
tag
f32a /// triple
`crlf
line`,
    /// triple
    char[  4294967296] u, char[ 3]o , @tag( 007) // trailing space 
int ,} options // " ++ [128512]%N ++ runes_of_ascii " emoji
{}packet pack{ charz @lengthOf(
BodyLength ) `line1
line2`
,@tag(65535) match
pack as asx
{42 : msg_type ,	007// packet A { u8 x, }
:
T ,
    4294967296: float , }	, // a // b
@tag(4294967296)
    u8
stringy
    @lengthOf(
    msg_type ) , @calculatedFrom( ""abc""
)
repeat len ,@rightPad ( '0'
    )string //
int
@lengthOf( i8i8
    ) , } MetaData crc
    { char[] u128 ,char[] T
`a\`
    ,
    // " ++ [27880; 37322]%N ++ runes_of_ascii "
    packetx	chars ,  float64 tag`{ , }` ,
    MetaDataX charz ,}
")).
Eval vm_compute in ("<<<M602>>>" ++ check (runes_of_ascii "options
{
    x
// " ++ [27880; 37322]%N ++ runes_of_ascii "
// " ++ [128512]%N ++ runes_of_ascii " emoji
= true trueish =007 ;float =
    // trailing space 
    int64;/// triple
metadata= true //	t
} options  { As= ""{,}""	;} packet
    As{ @rightPad
    ( '0' ) @leftPad // " ++ [27880; 37322]%N ++ runes_of_ascii "
( '0' ) char[ 10
]trueish
// c
//	t
, @calculatedFrom( ""`tick`"" ) Foo
{
int64 packetx @calculatedFrom(	""a\""b"" ) `" ++ [28040; 24687; 31867; 22411]%N ++ runes_of_ascii "`
, repeat int64 int // a // b
, zchar[007
    ] Header
//
//
, repeat
    body
    , // " ++ [27880; 37322]%N ++ runes_of_ascii "
}
    , repeat char[0  ] u8x // packet A { u8 x, }
, Pad ,
@rightPad ( '0'  )
f64 leftPad//	t
`a\`	, repeat
    rootA repeatCount `{ , }` , rootA float
// packet A { u8 x, }
//x
`doc`, }")).
Eval vm_compute in ("<<<M744>>>" ++ check (runes_of_ascii "// " ++ [128512]%N ++ runes_of_ascii " emoji
options // c
{
Packet	= char[]a1	=
    0 ;
    BodyLength = char[]; } MetaData
    BodyLength	{
    T string_ `" ++ [28040; 24687; 31867; 22411]%N ++ runes_of_ascii "` , x_y_z
    // trailing space 
    stringy `say ""hi""`	,
    char Packet`" ++ [28040; 24687; 31867; 22411]%N ++ runes_of_ascii "` , leftPad Packet
    ,
} packet packetx
{
    //x
    match uint8x as T	{ [ /// triple
""`tick`"" ,
    0123456789 ,
""// no comment"" ,
    255 , ""abc"", 10 // c
]
: i64_ , [ ""{,}"" , ""a\""b"" ] : int
, [0123456789 ,
    //x
    65535
    , 255 // `tick` ""quote"" 'q'
,255
    ] // @lengthOf(
: repeatCount , //x
} // " ++ [128512]%N ++ runes_of_ascii " emoji
, repeat char[ 255 ]  A ,	repeat Foo`tab	here`  ,}

")).
Eval vm_compute in ("<<<M377>>>" ++ check (runes_of_ascii "packet float { @leftPad ( ' ' )repeat
metadata falsey
,lengthOf matchKey , int32
roots , int16 Pad@calculatedFrom( // " ++ [128512]%N ++ runes_of_ascii " emoji
""\" ++ [233]%N ++ runes_of_ascii """)
, // a // b
lengthOf
    @calculatedFrom( ""`tick`"")// c
`" ++ [28040; 24687; 31867; 22411]%N ++ runes_of_ascii "` ,
@lengthOf( metadata) i8i8
,@rightPad(
// packet A { u8 x, }
//	t
'0'
) Foo ,
    // trailing space 
    @tag(
10 //
)chars	`
`
    , @tag( 7
)
    // " ++ [128512]%N ++ runes_of_ascii " emoji
    @leftPad ( ) repeat zchar[ 255 ]
u128
, // c
}
    options {//	t
msg_type =
0	; // @lengthOf(
u = ' ' x_y_z =65535 u128 // packet A { u8 x, }
= char[] ; zchar	= zchar[ 3
    ]
; }

")).
Eval vm_compute in ("<<<M84>>>" ++ check (runes_of_ascii "MetaData rootA
    {}
options{ rootA= '\x00' zchar
    ='0' rootA= float64 ;  trueish	= 3 i64_
= float64 ; } options{
    body
= '0'
    ;T= ""CRC32"";matchKey = char[] ; }	packet
rootA {
    // " ++ [128512]%N ++ runes_of_ascii " emoji
    @lengthOf( //
Z9_)
    @rightPad('0' ) Packet calculatedFrom , }packet
body
    { match metadata
as asx {
    3 : Header 3: packetx	, [  10]
:	Packet, """"
// " ++ [27880; 37322]%N ++ runes_of_ascii "
// @lengthOf(
: pack
,
10  :
    // packet A { u8 x, }
    pack [  255 // `tick` ""quote"" 'q'
, // `tick` ""quote"" 'q'
""""
    , 00 // a // b
,""it's""] :
x } ,
}

")).
Eval vm_compute in ("<<<M4144>>>" ++ check (runes_of_ascii "
MetaData  o{
    }packet 
BodyLength
	{@tag(

    255

    )zchar[

    00 ]
leftPad
	@lengthOf(float )
`" ++ [233]%N ++ runes_of_ascii "`

    ,
}
	packet asx {@leftPad
( )
	char[]
_x 
,
char[ 65535]/// triple
trueish @calculatedFrom(
""a\""b"" 
)  ,

int64 u ,
match	x
as u8x

    {255	//	t
    :	/// triple
o
, 65535 :

asx ,

""a\\""	:

string_

, ""\" ++ [233]%N ++ runes_of_ascii """ :
    f32a ,

    65535 
:  //	t

x_y_z 
,7
: uint8x
}  ,
	repeat
	msg_type 
{
	u128 charz ``
,

u64 options1	, repeat
a1 `` 
, }

,
repeatCount 
,}

    // c")).
Eval vm_compute in ("<<<M155>>>" ++ check (runes_of_ascii "packet T {
    @lengthOf( MetaDataX )match
    Packet as a1 { [ ""1""] : zchar ""{,}""
    : _x ,} ,// @lengthOf(
char[ 007 ]// a // b
u128@lengthOf(
zchar)
// a // b
// packet A { u8 x, }
,string_ , @leftPad ( ' ')match MetaDataX as u128 { [ ""it's"" ,7 , 65535
, 65535]	:  chars,""" ++ [28040; 24687]%N ++ runes_of_ascii """// c
: u , 42 : zchar , }
    , } options // `tick` ""quote"" 'q'
{
    matchKey =
""a\""b""
    }	MetaData
    options1 { i16
len , char[ 7
] // packet A { u8 x, }
crc ,u16 asx `say ""hi""` ,i64 zchar, } // " ++ [27880; 37322]%N)).
Eval vm_compute in ("<<<M1373>>>" ++ check (runes_of_ascii "// @lengthOf(
MetaData msg_type
// `tick` ""quote"" 'q'
// @lengthOf(
{ string
Logon ,
i8 repeatCount
    `// not a comment`, }
packet i64_ {
    // c
    @leftPad(
'0' )repeat repeatCount
`u8 x,` , Header {// " ++ [27880; 37322]%N ++ runes_of_ascii "
A{ uint32 T `crlf
line` ,
} , }, }
MetaData Header// " ++ [27880; 37322]%N ++ runes_of_ascii "
{
    Header u `doc` ,
    // " ++ [27880; 37322]%N ++ runes_of_ascii "
    char[ 4294967296 ] u128
, float32 falsey , char[ 10
    ]
roots`crlf
line`
    ,
int64 calculatedFrom `say ""hi""` ,} root packet i64_ { /// triple
}
")).
Eval vm_compute in ("<<<M736>>>" ++ check (runes_of_ascii "packet metadata { match trueish
as body
    { 0123456789
    :A, 1
    :
    rootA [//
""packet"" ,65535 , 65535 , ""a	b""
    ,42 , ""x y"" , 1// @lengthOf(
, 0 ]	:
// packet A { u8 x, }
// " ++ [128512]%N ++ runes_of_ascii " emoji
u128 ,//	t
10 :
As ,
    0123456789 :stringy ,
""x y""	: BodyLength, } ,
i64_ options1`a\` , } packet
trueish {
    /// triple
    }packet BodyLength	{ i32 charz ,
@calculatedFrom(// @lengthOf(
""" ++ [28040; 24687]%N ++ runes_of_ascii """ )	repeat float32 asx `doc` , } // trailing space ")).
Eval vm_compute in ("<<<M1211>>>" ++ check (runes_of_ascii "packet
f32a {
i64_  falsey ,match
/// triple
//
i8i8 as _x { // " ++ [27880; 37322]%N ++ runes_of_ascii "
0
    //x
    : Logon,[65535 , ""x y""
    ]:Header ,
4294967296//x
: Foo, /// triple
} ,
@tag( 0123456789 )	u8x msg_type
`say ""hi""`  , }  packet
    // a // b
    Z9_  {
    repeatCount leftPad  `two words` // `tick` ""quote"" 'q'
,
}
    MetaData
calculatedFrom{ u charz `{ , }`
,
    u64 T //x
`tab	here`, Foo	options1 `" ++ [233]%N ++ runes_of_ascii "` ,
char[] x
`doc` ,i8i8
u8x  ,}

")).
Eval vm_compute in ("<<<M1306>>>" ++ check (runes_of_ascii "packet string_ { zchar[ 3 ] // c
stringy @lengthOf( packetx  )`u8 x,` //
, // `tick` ""quote"" 'q'
f64 string_ ``, } MetaData leftPad{ char[
    1 ] MetaDataX `crlf
line` ,
    metadata a1
`tab	here` ,	T o `line1
line2` , // " ++ [128512]%N ++ runes_of_ascii " emoji
o
trueish ,}options
{ }
MetaData
    // @lengthOf(
    T
{Foo Logon
    , Logon lengthOf , char[
    00 ]
    pack , char[7 ]
// @lengthOf(
// trailing space 
i8i8 `` ,}
")).
Eval vm_compute in ("<<<M4462>>>" ++ check (runes_of_ascii "packet Foo {
    Logon A `a\`,
    a1 A,
    @lengthOf(tag)
    // trailing space 
    x_y_z @lengthOf(leftPad) `it's`,
    @tag(255)
    match crc as roots {
        """ ++ [233]%N ++ runes_of_ascii "t" ++ [233]%N ++ runes_of_ascii """ : Foo,
        [10, 007, """ ++ [233]%N ++ runes_of_ascii "t" ++ [233]%N ++ runes_of_ascii """, ""a	b""] : x_y_z,
    },// @lengthOf(
}

root packet As {
}

MetaData calculatedFrom {
    Z9_ _x ``,
}

MetaData tag {
    // " ++ [27880; 37322]%N ++ runes_of_ascii "
    string body,
    string options1,
    i8i8 pack,
}")).
Eval vm_compute in ("<<<M4294>>>" ++ check (runes_of_ascii "
root packet
u128  {	match zchar

    as
msg_type// `tick` ""quote"" 'q'
  	{
7  
  //	t
    :
lengthOf

,  0123456789  :MetaDataX""{,}"" : o 
,  255
    // trailing space 
    //
: //
	metadata
    ,[

1
    ] :
	A 
,	[

007
,

""a\\""

    ,
0123456789	, 
255
    ,""\" ++ [233]%N ++ runes_of_ascii """ ,  007	]
: 
    // `tick` ""quote"" 'q'
  // packet A { u8 x, }
falsey,
}
    ,
    } // a // b
")).
Eval vm_compute in ("<<<M368>>>" ++ check (runes_of_ascii "packet f32a{
    /// triple
    @calculatedFrom( """" ) matchKey	@lengthOf(
Packet	) `// not a comment` , match msg_type
//	t
// c
as lengthOf {"""":Z9_ ,
    ""`tick`""
    : crc , // " ++ [27880; 37322]%N ++ runes_of_ascii "
[ //
""\n"" ]: T	,
    ""x y""
    :
    // " ++ [128512]%N ++ runes_of_ascii " emoji
    _x
    ,// @lengthOf(
[  ""a\""b"" //
] :  u128 }
,zchar[ 7 ]
// trailing space 
// a // b
_x
,repeat len MetaDataX ,}
")).
Eval vm_compute in ("<<<M816>>>" ++ check (runes_of_ascii "// " ++ [128512]%N ++ runes_of_ascii " emoji
options{
}
    packet a1{
// packet A { u8 x, }
//x
@lengthOf(Foo )
    pack {
repeat matchKey // " ++ [27880; 37322]%N ++ runes_of_ascii "
leftPad,zchar[7 ] zchar `{ , }` // c
,
charz @lengthOf( // " ++ [128512]%N ++ runes_of_ascii " emoji
x_y_z
    )
    `
`
    , } ,}  root packet roots { } options {
    calculatedFrom =false ;o
= int64
;
    u =
""a\\""zchar = // packet A { u8 x, }
42 ;	}

")).
Eval vm_compute in ("<<<M38>>>" ++ check (runes_of_ascii "  packet
    i64_
    {
    Z9_ @lengthOf(
charz)	`doc`
    , Pad {  body @lengthOf( string_ ) //
`say ""hi""`	, uint64 metadata@lengthOf(Logon )`say ""hi""` ,
    zchar[ 3
    ] f32a`{ , }` ,repeat uint8	leftPad
/// triple
/// triple
,  }
,char[] _x @lengthOf( As)
    `
` ,  char[ 65535
    ]matchKey  `// not a comment`
,}")).
Eval vm_compute in ("<<<M3561>>>" ++ check (runes_of_ascii "// top
options // c0a
  // c0b
{ // c1a
  // c1b
LittleEndian // c2
=
    // c3
true
    // c4
; // c5
}
    // c6
root
    // c7
packet // c8a
  // c8b
P // c9
{ u16 a
    // c12
, // c13a
  // c13b
u32 Sum // c15
@calculatedFrom(
    // c16
""CRC32"" // c17
) // c18a
  // c18b
, // c19a
  // c19b
} // c20a
  // c20b
")).
Eval vm_compute in ("<<<M1976>>>" ++ check (runes_of_ascii "MetaData
    u { }  options {
// c
// @lengthOf(
float = int8 ;rootA =false ; As =	int16 // `tick` ""quote"" 'q'
repeatCount
    // trailing space 
    =
    int16
; u8x =
    //	t
    '\x00' ; ; } options	{
    repeatCount
= 0
u128
    //
    = false ; i64_
// trailing space 
// `tick` ""quote"" 'q'
= '0' ; //	t
}
")).
Eval vm_compute in ("<<<M2070>>>" ++ check (runes_of_ascii "MetaData
    u { }  options {
// c
// @lengthOf(
float = int8 ;rootA =false ; As =	int16 // `tick` ""quote"" 'q'
repeatCount
    // trailing space 
    =
    int16
; u8x =
    //	<t
    '\x00' ; } options	{
    repeatCount
= 0
u128
    //
    = false ; i64_
// trailing space 
// `tick` ""quote"" 'q'
= '0' ; //	t
}
")).
Eval vm_compute in ("<<<M1978>>>" ++ check (runes_of_ascii "MetaData
    u { }  options {
// c
// @lengthOf(
float = int8 ;rootA =false ; As =	int16 // `tick` ""quote"" 'q'
repeatCount
    // trailing space 
    =
    int16
; u8x =
    //	t
    '\x00' , } options	{
    repeatCount
= 0
u128
    //
    = false ; i64_
// trailing space 
// `tick` ""quote"" 'q'
= '0' ; //	t
}
")).
Eval vm_compute in ("<<<M1965>>>" ++ check (runes_of_ascii "MetaData
    u { }  options {
// c
// @lengthOf(
float = int8 ;rootA =false ; As =	int16 // `tick` ""quote"" 'q'
repeatCount
    // trailing space 
    =
    int16
; u8x 
    //	t
    '\x00' ; } options	{
    repeatCount
= 0
u128
    //
    = false ; i64_
// trailing space 
// `tick` ""quote"" 'q'
= '0' ; //	t
}
")).
Eval vm_compute in ("<<<M1915>>>" ++ check (runes_of_ascii "MetaData
    u { }  options {
// c
// @lengthOf(
float = int8 ;rootA = ; As =	int16 // `tick` ""quote"" 'q'
repeatCount
    // trailing space 
    =
    int16
; u8x =
    //	t
    '\x00' ; } options	{
    repeatCount
= 0
u128
    //
    = false ; i64_
// trailing space 
// `tick` ""quote"" 'q'
= '0' ; //	t
}
")).
Eval vm_compute in ("<<<M197>>>" ++ check (runes_of_ascii "packet	zchar { char[]  i64_,
    // " ++ [128512]%N ++ runes_of_ascii " emoji
    @calculatedFrom(	""// no comment"" ) match charz
    as tag
{ [""it's""
, 4294967296
    ,/// triple
""a	b""
    , """ ++ [28040; 24687]%N ++ runes_of_ascii """
,""" ++ [128512]%N ++ runes_of_ascii """
    ,  255 ,007 ] // packet A { u8 x, }
: i64_
, [	0123456789 ,3
, 00 ]: // `tick` ""quote"" 'q'
Packet , [ """ ++ [233]%N ++ runes_of_ascii "t" ++ [233]%N ++ runes_of_ascii """ ]
:a1 ,	}
,
    }
")).
Eval vm_compute in ("<<<M3716>>>" ++ check (runes_of_ascii "packet asx {
    @calculatedFrom(""x y"")
    packetx stringy,
}

MetaData As {
    int8 float `" ++ [233]%N ++ runes_of_ascii "`,
    int uint8x,
    zchar[007] a1 `two words`,
    // a // b
    /// triple
    char[10] msg_type,
    uint32 matchKey `say ""hi""`,
    // `tick` ""quote"" 'q'
    //x
    i32 zchar,
}

options {
}")).
Eval vm_compute in ("<<<M871>>>" ++ check (runes_of_ascii "packet len
{@calculatedFrom(
    ""x y"" ) @tag(3
// packet A { u8 x, }
// `tick` ""quote"" 'q'
)
//
// c
@tag( 1)
    /// triple
    match
o as
    Header { 007 : BodyLength
    ,	""x y"" : zchar
, [
""abc""] : string_
, } ,// c
int32
// packet A { u8 x, }
// a // b
leftPad , } // c")).
Eval vm_compute in ("<<<M167>>>" ++ check (runes_of_ascii "options { roots
=//x
int64 }
// @lengthOf(
// @lengthOf(
packet
    int {
char  zchar, repeat len {
    f32a `" ++ [28040; 24687; 31867; 22411]%N ++ runes_of_ascii "`, } ,zchar[
007 ]As
    `it's`
,  zchar[007
    // a // b
    ] uint8x @lengthOf(
    //x
    Foo)
    ,
// packet A { u8 x, }
// packet A { u8 x, }
}
")).
Eval vm_compute in ("<<<M907>>>" ++ check (runes_of_ascii "packet asx {
@calculatedFrom( ""x y"" ) packetx	stringy ,	}MetaData As
{ int8
    float `" ++ [233]%N ++ runes_of_ascii "`,
int
uint8x, zchar[ 007  ] a1 `two words` ,
// a // b
/// triple
char[	10
]msg_type	, uint32 matchKey `say ""hi""` ,
// `tick` ""quote"" 'q'
//x
i32 zchar,
    } options {
}")).
Eval vm_compute in ("<<<M3688>>>" ++ check (runes_of_ascii "MetaData u8x
{

msg_type
T	`it's`,
    // `tick` ""quote"" 'q'
    // trailing space 
      zchar[4294967296
] len	/// triple
	, u32
chars
	`a\`
    , metadata
	calculatedFrom `{ , }` ,}  packet Z9_ {}

    root
    packet  Logon 
{
}
	/// triple
")).
Eval vm_compute in ("<<<M4051>>>" ++ check (runes_of_ascii "MetaData _x {
    As f32a `doc`,
}

packet x {
    zchar[255] calculatedFrom,
    string_ @calculatedFrom(""a	b""),
    @calculatedFrom(""" ++ [128512]%N ++ runes_of_ascii """)
    @tag(4294967296)
    @calculatedFrom(""a	b"")
    char[0] i64_ `" ++ [28040; 24687; 31867; 22411]%N ++ runes_of_ascii "`,
    @leftPad(' ')
    repeat MetaDataX,
}")).
Eval vm_compute in ("<<<M1544>>>" ++ check (runes_of_ascii "packet
//	t
// trailing space 
_x {
// packet A { u8 x, }
// c
char[
3
    ] u8x @lengthOf(
u8x ) , """ ++ [128512]%N ++ runes_of_ascii """@calculatedFrom( // @lengthOf(
)
i16	Foo
@lengthOf(	string_
    )`doc`	, repeat	i64 metadata , @lengthOf( string_
) i8 // c
u  `line1
line2`	,
}
")).
Eval vm_compute in ("<<<M1532>>>" ++ check (runes_of_ascii "packet
//	t
// trailing space 
_x {
// packet A { u8 x, }
// c
char[
3
    ] u8x @lengthOf(
u8x  , @calculatedFrom(""" ++ [128512]%N ++ runes_of_ascii """ // @lengthOf(
)
i16	Foo
@lengthOf(	string_
    )`doc`	, repeat	i64 metadata , @lengthOf( string_
) i8 // c
u  `line1
line2`	,
}
")).
Eval vm_compute in ("<<<M1502>>>" ++ check (runes_of_ascii "packet
//	t
// trailing space 
_x {
// packet A { u8 x, }
// c

3
    ] u8x @lengthOf(
u8x ) , @calculatedFrom(""" ++ [128512]%N ++ runes_of_ascii """ // @lengthOf(
)
i16	Foo
@lengthOf(	string_
    )`doc`	, repeat	i64 metadata , @lengthOf( string_
) i8 // c
u  `line1
line2`	,
}
")).
Eval vm_compute in ("<<<M4081>>>" ++ check (runes_of_ascii "MetaData u {
}

options {
    // c
    // @lengthOf(
    float = int8;
    rootA = false;
    As = int16// `tick` ""quote"" 'q'
    repeatCount = int16;
    u8x = '\x00';
}

options {
    repeatCount = 0
    u128 = false;
    i64_ = '0'//	t
}")).
Eval vm_compute in ("<<<M1641>>>" ++ check (runes_of_ascii "packet
//	t
// trailing space 
_x {
// packet A { u8 x, }
// c
char[
3
    ] u8x @lengthOf(
u8x ) , @calculatedFrom(""" ++ [128512]%N ++ runes_of_ascii """ // @lengthOf(
)
i16	Foo
@lengthOf(	string_
    )`doc`	, repeat	i64 metadata , @lengthOf( string_
) i8 // c
u")).
Eval vm_compute in ("<<<M898>>>" ++ check (runes_of_ascii "packet metadata {@lengthOf(
i8i8
)match BodyLength as
    Foo
{
    3 : len ,} , body
    @lengthOf(	roots
    ),f32a x ,} root packet i8i8
    {zchar[10
    ]
i64_  @calculatedFrom(""a\\""
) `
`
, } // packet A { u8 x, }")).
Eval vm_compute in ("<<<M1371>>>" ++ check (runes_of_ascii "
packet  _x {	repeat
    // packet A { u8 x, }
    A{
    int64 uint8x `tab	here` ,
}
    , } packet Pad  { @tag(	65535
)string _x //x
@lengthOf( asx)  , @rightPad ( '0'	)u8 MetaDataX , u64 chars,
    // c
    }

")).
Eval vm_compute in ("<<<M3950>>>" ++ check (runes_of_ascii "MetaData
body { string
MetaDataX

`" ++ [28040; 24687; 31867; 22411]%N ++ runes_of_ascii "` ,	}
options  {
	zchar 	 // packet A { u8 x, }
=
false
	}  packet chars 	 // a // b
{@tag( 
42
    )
    len roots

,
    @rightPad( )Header

@lengthOf(
charz
	),
}
")).
Eval vm_compute in ("<<<M3480>>>" ++ check (runes_of_ascii "// top
packet // c0
chars // c1
{ // c2
} // c3
packet // c4
MetaDataX // c5
{ // c6
@tag( // c7
42 // c8
) // c9
i16 // c10
string_ // c11
, // c12
repeat // c13
x // c14
`say ""hi""` // c15
, // c16
} // c17
")).
Eval vm_compute in ("<<<M664>>>" ++ check (runes_of_ascii "root packet // `tick` ""quote"" 'q'
metadata {uint64// @lengthOf(
rootA `it's`,	}
    packet Header  {} options { Z9_// @lengthOf(
= 255 ;
    metadata = int32; trueish=' ' ;
    i64_ = '\x00' stringy= 00 }
")).
Eval vm_compute in ("<<<M1739>>>" ++ check (runes_of_ascii "options { trueish = ""`tick`"" ; string_= """ ++ [233]%N ++ runes_of_ascii "t" ++ [233]%N ++ runes_of_ascii """
    // c
    } root
    packet body [ stringy @calculatedFrom(
""a	b"" ) `line1
line2` , }
packet Logon {
    @leftPad(
    ' ' ) //	t
u16 string_ `u8 x,` ,
}
")).
Eval vm_compute in ("<<<M1736>>>" ++ check (runes_of_ascii "options { trueish = ""`tick`"" ; string_= """ ++ [233]%N ++ runes_of_ascii "t" ++ [233]%N ++ runes_of_ascii """
    // c
    } root
    packet body  stringy @calculatedFrom(
""a	b"" ) `line1
line2` , }
packet Logon {
    @leftPad(
    ' ' ) //	t
u16 string_ `u8 x,` ,
}
")).
Eval vm_compute in ("<<<M1830>>>" ++ check (runes_of_ascii "options { trueish = ""`tick`"" ; string_= """ ++ [233]%N ++ runes_of_ascii "t" ++ [233]%N ++ runes_of_ascii """
    // c
    } root
    packet body { stringy @calculatedFrom(
""a	b"" ) `line1
line2` , }
packet Logon {
    @leftPad(
    ' ' ) //	t
u16 string_ `u8 x,`")).
Eval vm_compute in ("<<<M162>>>" ++ check (runes_of_ascii "MetaData
    lengthOf
{
char[0123456789] calculatedFrom ,
char[ 0
]
options1
    ,
    } MetaData  repeatCount
{ // packet A { u8 x, }
u64 len ,
    stringy x_y_z `it's` // a // b
, f32 As ,	}
")).
Eval vm_compute in ("<<<M1606>>>" ++ check (runes_of_ascii "packet
//	t
// trailing space 
_x {
// packet A { u8 x, }
// c
char[
3
    ] u8x @lengthOf(
u8x ) , @calculatedFrom(""" ++ [128512]%N ++ runes_of_ascii """ // @lengthOf(
)
i16	Foo
@lengthOf(	string_
    )`doc`	, repeat	i64")).
Eval vm_compute in ("<<<M4142>>>" ++ check (runes_of_ascii "MetaData chars {
    int64 metadata,
    char[00] stringy,
    f64 Foo,
}

options {
}

options {
    As = char[4294967296]
    A = ""x y""
    options1 = float32
    Logon = '\x00';
}")).
Eval vm_compute in ("<<<M515>>>" ++ check (runes_of_ascii "// " ++ [27880; 37322]%N ++ runes_of_ascii "
MetaData// a // b
int
{
    // `tick` ""quote"" 'q'
    char[
    4294967296 ] packetx
    `line1
line2`,rootA // trailing space 
matchKey`two words`, matchKey Packet , }")).
Eval vm_compute in ("<<<M4416>>>" ++ check (runes_of_ascii "// top
MetaData float {
    // c2
    float64 charz `
    `,
    // c6
}

// c7
root packet chars {
    // c11
    @rightPad('0')
    // c15
    Foo,
    // c17
}
// c18")).
Eval vm_compute in ("<<<M2417>>>" ++ check (runes_of_ascii "// c
packet x { @lengthOf( metadata ) repeat lengthOf lengthOf
,a1{
trueish	,// c
repeat//	t
MetaDataX , } , zchar[
    42	] rootA // `tick` ""quote"" 'q'
,
    }
")).
Eval vm_compute in ("<<<M3825>>>" ++ check (runes_of_ascii "packet o {
    asx @calculatedFrom(""CRC32"") `it's`,// @lengthOf(
    @tag(255)
    int16 T,
    string msg_type `
        `,
}// trailing space 

packet Z9_ {
}")).
Eval vm_compute in ("<<<M3362>>>" ++ check (runes_of_ascii "// top
packet // c0a
  // c0b
x
    // c1
{ @rightPad
    // c3
( // c4a
  // c4b
) repeat roots
    // c7
Logon // c8
`doc`
    // c9
, } // c11a
  // c11b
")).
Eval vm_compute in ("<<<M2328>>>" ++ check (runes_of_ascii "// c
p?acket x { @lengthOf( metadata ) repeat lengthOf
,a1{
trueish	,// c
repeat//	t
MetaDataX , } , zchar[
    42	] rootA // `tick` ""quote"" 'q'
,
    }
")).
Eval vm_compute in ("<<<M2331>>>" ++ check (runes_of_ascii "// c
x packet { @lengthOf( metadata ) repeat lengthOf
,a1{
trueish	,// c
repeat//	t
MetaDataX , } , zchar[
    42	] rootA // `tick` ""quote"" 'q'
,
    }
")).
Eval vm_compute in ("<<<M2395>>>" ++ check (runes_of_ascii "// c
packet x { @lengthOf( metadata ) repeat lengthOf
a1{
trueish	,// c
repeat//	t
MetaDataX , } , zchar[
    42	] rootA // `tick` ""quote"" 'q'
,
    }
")).
Eval vm_compute in ("<<<M2171>>>" ++ check (runes_of_ascii "options{
_x
= true
} options
{ o	= /// triple
false
    ; chars
= ""\n"" } root packet	Pad
/// triple
// packet A { u8 x, }
chars	{
    // a // b
    ,}")).
Eval vm_compute in ("<<<M4292>>>" ++ check (runes_of_ascii "  root  packet
leftPad
	{ 
int64	BodyLength`// not a comment` ,@tag( 0 
)
@leftPad(

    )
	@tag(255

)
    repeat
	Header  // @lengthOf(
,
}  // c
")).
Eval vm_compute in ("<<<M2349>>>" ++ check (runes_of_ascii "// c
packet x { @lengthOf( metadata ) repeat lengthOf
,a1{
trueish	,// c
repeat//	t
MetaDataX , } , 
    42	] rootA // `tick` ""quote"" 'q'
,
    }
")).
Eval vm_compute in ("<<<M2076>>>" ++ check (runes_of_ascii "{
_x
= true
} options
{ o	= /// triple
false
    ; chars
= ""\n"" } root packet	Pad
/// triple
// packet A { u8 x, }
{	chars
    // a // b
    ,}")).
Eval vm_compute in ("<<<M1785>>>" ++ check (runes_of_ascii "options { trueish = ""`tick`"" ; string_= """ ++ [233]%N ++ runes_of_ascii "t" ++ [233]%N ++ runes_of_ascii """
    // c
    } root
    packet body { stringy @calculatedFrom(
""a	b"" ) `line1
line2` , }
packet")).
Eval vm_compute in ("<<<M210>>>" ++ check (runes_of_ascii "packet
i64_
{ f64 float,@tag( 0 ) @lengthOf(u )
    float64 _x  @calculatedFrom(
    ""x y"" )
,}
MetaData matchKey {
} packet roots { }")).
Eval vm_compute in ("<<<M4009>>>" ++ check (runes_of_ascii "packet A {
    match k as n {
        [
            ""a"", ""bb"", 007, ""d"", ""e"",
            66
        ] : B,
        2 : C,
    },
}")).
Eval vm_compute in ("<<<M1453>>>" ++ check (runes_of_ascii "
packet
    falsey { Header@calculatedFrom(""packet""  ) , char[
    0123456789 ] packetx packetx
    , } // `tick` ""quote"" 'q'")).
Eval vm_compute in ("<<<M1127>>>" ++ check (runes_of_ascii "options  {
}options
{rootA =
zchar[ 255 ];
} options { Packet
    // `tick` ""quote"" 'q'
    =
    0123456789; a1	= """" }
")).
Eval vm_compute in ("<<<M3325>>>" ++ check (runes_of_ascii "root packet matchKey { zchar[ 3 ]
// c
pack @calculatedFrom( ""a	b"" ) `doc` , } options { } MetaData A { int8 msg_type , }")).
Eval vm_compute in ("<<<M3357>>>" ++ check (runes_of_ascii "root packet matchKey { zchar[ 3 ] pack @calculatedFrom( ""a	b"" ) `doc` , } options { } MetaData A { int8 msg_type ,
// c
}")).
Eval vm_compute in ("<<<M1478>>>" ++ check (runes_of_ascii "
packet
    falsey { Header@calcul" ++ [8232]%N ++ runes_of_ascii "atedFrom(""packet""  ) , char[
    0123456789 ] packetx
    , } // `tick` ""quote"" 'q'")).
Eval vm_compute in ("<<<M1459>>>" ++ check (runes_of_ascii "
packet
    falsey { Header@calculatedFrom(""packet""  ) , char[
    0123456789 ] packetx
    } , // `tick` ""quote"" 'q'")).
Eval vm_compute in ("<<<M2368>>>" ++ check (runes_of_ascii "// c
packet x { @lengthOf( metadata ) repeat lengthOf
,a1{
trueish	,// c
repeat//	t
MetaDataX , } , zchar[
    42")).
Eval vm_compute in ("<<<M3739>>>" ++ check (runes_of_ascii "// @lengthOf(
options {
    u128 = ' '
    chars = char;
    float = ""// no comment""
    repeatCount = false;
}")).
Eval vm_compute in ("<<<M35>>>" ++ check (runes_of_ascii "options { body = 42 ;Logon
// @lengthOf(
// " ++ [27880; 37322]%N ++ runes_of_ascii "
=
    '0'
    ; metadata=
""" ++ [128512]%N ++ runes_of_ascii """; Foo =true//
i64_
='\x00'  }
")).
Eval vm_compute in ("<<<M3672>>>" ++ check (runes_of_ascii "packet  chars{
}

packet	MetaDataX  { @tag(42	)

    i16 
string_

,// c
    repeat x 
`say ""hi""`  , } ")).
Eval vm_compute in ("<<<M3681>>>" ++ check (runes_of_ascii "MetaData trueish {
    int falsey,
    char[10] u,
    zchar[007] leftPad,
    string x `two words`,
}")).
Eval vm_compute in ("<<<M3870>>>" ++ check (runes_of_ascii "packet T {
    @lengthOf(matchKey)
    match u as crc {
        [""it's"", ""CRC32"", 3] : Z9_,
    },
}")).
Eval vm_compute in ("<<<M2938>>>" ++ check (runes_of_ascii "packet A {
  match k as n {
    [""a"", ""bb"", ""c c"", ""d"", ""e"", ""f"", ""g"", ""h""] : B,
    2 : C
  },
}")).
Eval vm_compute in ("<<<M846>>>" ++ check (runes_of_ascii "packet
// @lengthOf(
// " ++ [128512]%N ++ runes_of_ascii " emoji
len{ @calculatedFrom( ""it's"")
    calculatedFrom msg_type
, }
")).
Eval vm_compute in ("<<<M76>>>" ++ check (runes_of_ascii "MetaData
chars {
uint32 chars	`doc` , int64 float, // trailing space 
u8
pack `
` ,
    }
")).
Eval vm_compute in ("<<<M1395>>>" ++ check (runes_of_ascii "root packet SimpleMessage {
    uint16 MsgType `" ++ [28040; 24687; 31867; 22411]%N ++ runes_of_ascii "`,
    string JsonBody `Json" ++ [23383; 31526; 20018; 28040; 24687; 20307]%N ++ runes_of_ascii "`,
}")).
Eval vm_compute in ("<<<M3273>>>" ++ check (runes_of_ascii "MetaData float { // c
float64 charz `
` , } root packet chars { @rightPad ( '0' ) Foo , }")).
Eval vm_compute in ("<<<M3483>>>" ++ check (runes_of_ascii "// c
packet chars { } packet MetaDataX { @tag( 42 ) i16 string_ , repeat x `say ""hi""` , }")).
Eval vm_compute in ("<<<M3516>>>" ++ check (runes_of_ascii "packet chars { } packet MetaDataX { @tag( 42 ) i16 string_ , repeat x `say ""hi""`
// c
, }")).
Eval vm_compute in ("<<<M1461>>>" ++ check (runes_of_ascii "
packet
    falsey { Header@calculatedFrom(""packet""  ) , char[
    0123456789 ] packetx")).
Eval vm_compute in ("<<<M1353>>>" ++ check (runes_of_ascii "MetaData As { char[]calculatedFrom
,x a1 , int16 //	t
matchKey `two words` ,
    }
")).
Eval vm_compute in ("<<<M3224>>>" ++ check (runes_of_ascii "packet metadata { Logon { A
// c
`" ++ [28040; 24687; 31867; 22411]%N ++ runes_of_ascii "` , tag o , } , zchar len `// not a comment` , }")).
Eval vm_compute in ("<<<M2216>>>" ++ check (runes_of_ascii "options
{  options { BodyLength= u16 Header= f64 ; u128 =
    true
    ; } // a // b")).
Eval vm_compute in ("<<<M3447>>>" ++ check (runes_of_ascii "packet o { repeat Logon uint8x , } options { // c
asx = zchar[ 3 ] stringy = '\x00' }")).
Eval vm_compute in ("<<<M4221>>>" ++ check (runes_of_ascii "MetaData T {
    uint16 roots,
    As lengthOf,
    As trueish,
    char[] Packet,
}")).
Eval vm_compute in ("<<<M2916>>>" ++ check (runes_of_ascii "packet A {
  match k as n {
    [""a"", 22, ""c c"", 4, ""e"", 66] : B,
    2 : C
  },
}")).
Eval vm_compute in ("<<<M3588>>>" ++ check (runes_of_ascii "packet order_item
	{ u8 
a ,
} 
root  packet
	new_order 
{ order_item

, 
u8

x,}
")).
Eval vm_compute in ("<<<M3178>>>" ++ check (runes_of_ascii "packet A { u16 // a
 len // b
 @lengthOf( // c
 body // d
 ) // e
 `d` // f
 , }")).
Eval vm_compute in ("<<<M3952>>>" ++ check (runes_of_ascii "MetaData repeatCount {
}

options {
    // packet A { u8 x, }
}
// @lengthOf(")).
Eval vm_compute in ("<<<M3533>>>" ++ check (runes_of_ascii "packet Inner {
    u8 a,
}
root packet P {
    Inner ref_obj,
    u8 x,
}
")).
Eval vm_compute in ("<<<M4385>>>" ++ check (runes_of_ascii "packet A {
    B b `
    x`,
    B `
    x`,
    repeat B bs `
    x`,
}")).
Eval vm_compute in ("<<<M3567>>>" ++ check (runes_of_ascii "root packet P {
    u16 a,
    u32 Sum @calculatedFrom(""CR\
C32""),
}
")).
Eval vm_compute in ("<<<M3008>>>" ++ check (runes_of_ascii "packet A {
    B b `a
b`,
    B `a
b`,
    repeat B bs `a
b`,
}")).
Eval vm_compute in ("<<<M1144>>>" ++ check (runes_of_ascii "packet
    pack { int64 options1  ,
// packet A { u8 x, }
//
}
")).
Eval vm_compute in ("<<<M842>>>" ++ check (runes_of_ascii "  root packet crc{ string uint8x
//x
// " ++ [128512]%N ++ runes_of_ascii " emoji
`" ++ [233]%N ++ runes_of_ascii "` ,}
// " ++ [27880; 37322]%N ++ runes_of_ascii "
")).
Eval vm_compute in ("<<<M3829>>>" ++ check (runes_of_ascii "MetaData M {
    u8 x `x
        `,
    T t `x
        `,
}")).
Eval vm_compute in ("<<<M3381>>>" ++ check (runes_of_ascii "packet x { @rightPad ( ) repeat roots Logon // c
`doc` , }")).
Eval vm_compute in ("<<<M2823>>>" ++ check (runes_of_ascii "as @leftPad char true @leftPad f32 MetaData int16 Logon")).
Eval vm_compute in ("<<<M4583>>>" ++ check (runes_of_ascii "packet A {
    u8 x `a
            b
          c`,
}")).
Eval vm_compute in ("<<<M3157>>>" ++ check (runes_of_ascii "packet A {} packet B {} MetaData M {} options {}")).
Eval vm_compute in ("<<<M4034>>>" ++ check (runes_of_ascii "root packet float {
    repeat charz falsey,
}")).
Eval vm_compute in ("<<<M620>>>" ++ check (runes_of_ascii "  options { u8x =/// triple
zchar[ 00 ] ; }")).
Eval vm_compute in ("<<<M3017>>>" ++ check (runes_of_ascii "MetaData M {
    u8 x `
`,
    T t `
`,
}")).
Eval vm_compute in ("<<<M3524>>>" ++ check (runes_of_ascii "root packet P {
    char c,
    u8 x,
}
")).
Eval vm_compute in ("<<<M514>>>" ++ check (runes_of_ascii "root
packet lengthOf { } options {}
")).
Eval vm_compute in ("<<<M4211>>>" ++ check (runes_of_ascii "MetaData zchar {
    zchar[7] crc,
}")).
Eval vm_compute in ("<<<M2592>>>" ++ check (runes_of_ascii "packet A { x @calculatedFrom(c), }")).
Eval vm_compute in ("<<<M979>>>" ++ check (runes_of_ascii "root packet calculatedFrom{ } 	 ")).
Eval vm_compute in ("<<<M3018>>>" ++ check (runes_of_ascii "root packet A {
    u8 x `
`,
}")).
Eval vm_compute in ("<<<M3122>>>" ++ check (runes_of_ascii "packet A {
 u8 x `d" ++ [12]%N ++ runes_of_ascii "`, // c" ++ [12]%N ++ runes_of_ascii "
}")).
Eval vm_compute in ("<<<M3001>>>" ++ check (runes_of_ascii "packet A {
    u8 x `a
b`,
}")).
Eval vm_compute in ("<<<M917>>>" ++ check (runes_of_ascii "
options {	i8i8 = ""a\\"" }")).
Eval vm_compute in ("<<<M3255>>>" ++ check (runes_of_ascii "root
// c
packet pack { }")).
Eval vm_compute in ("<<<M840>>>" ++ check (runes_of_ascii "packet matchKey
{
} //x")).
Eval vm_compute in ("<<<M912>>>" ++ check (runes_of_ascii "
packet rootA
    {
}")).
Eval vm_compute in ("<<<M3479>>>" ++ check (runes_of_ascii "MetaData o { }
// c
")).
Eval vm_compute in ("<<<M3470>>>" ++ check (runes_of_ascii "// c
MetaData o { }")).
Eval vm_compute in ("<<<M3091>>>" ++ check (runes_of_ascii "// c" ++ [8202]%N ++ runes_of_ascii "
packet A {
}")).
Eval vm_compute in ("<<<M2572>>>" ++ check (runes_of_ascii "packet A { x y, }")).
Eval vm_compute in ("<<<M1019>>>" ++ check (runes_of_ascii "
MetaData T { }
")).
Eval vm_compute in ("<<<M2723>>>" ++ check (runes_of_ascii "@tag( char[ as")).
Eval vm_compute in ("<<<M376>>>" ++ check (runes_of_ascii "
options{}")).
Eval vm_compute in ("<<<M4268>>>" ++ check (runes_of_ascii "
// c" ++ [8233]%N ++ runes_of_ascii "
")).
Eval vm_compute in ("<<<M241>>>" ++ check (runes_of_ascii "

//x
")).
Eval vm_compute in ("<<<M2441>>>" ++ check (runes_of_ascii "uint8")).
Eval vm_compute in ("<<<M319>>>" ++ check (runes_of_ascii "
//
")).
Eval vm_compute in ("<<<M621>>>" ++ check (runes_of_ascii " 	 ")).
Eval vm_compute in ("<<<M2829>>>" ++ check (runes_of_ascii "t" ++ [1414]%N ++ runes_of_ascii "I")).
Eval vm_compute in ("<<<M2506>>>" ++ check (runes_of_ascii """")).
