From FP Require Import Lexer Parser ShowPT Digest Formatter.
From Coq Require Import String List NArith.
Import ListNotations.
Open Scope string_scope.
Set Printing Width 100000000.
Set Printing Depth 100000000.
Definition show_fres (r : fres) : string :=
  match r with
  | FOk s => "OK:" ++ sh_escaped s ""
  | FErr s => "ERR:" ++ sh_escaped s ""
  | FPanic p => "PANIC:" ++ p
  end.
Definition check (rs : list rune) : string := digest (show_fres (format_res rs)).
Definition full (rs : list rune) : string := show_fres (format_res rs).
Eval vm_compute in ("<<<M1066>>>" ++ check (runes_of_ascii "MetaData	pack
{  } MetaData	trueish
{
    string o,
u // @lengthOf(
roots , Header calculatedFrom
`doc` , zchar[42] metadata `u8 x,`
    , Packet lengthOf , u128 lengthOf ,} root packet Logon{ repeat/// triple
zchar[ 7 ]
// packet A { u8 x, }
// `tick` ""quote"" 'q'
roots ,  match u as x  {  [""" ++ [28040; 24687]%N ++ runes_of_ascii """
    , 0,""a	b""
    // @lengthOf(
    , 3/// triple
,
    ""a\""b"", ""// no comment""	,""packet"" , ""`tick`"" ]	: o ,[0  ,	""x y""] : u ""a\""b"" : pack [ 65535 , 007
    , """ ++ [233]%N ++ runes_of_ascii "t" ++ [233]%N ++ runes_of_ascii """
// " ++ [27880; 37322]%N ++ runes_of_ascii "
// @lengthOf(
,42] // trailing space 
: f32a 255
    : i8i8//	t
, 0123456789 :
Pad
,
} , Foo , @calculatedFrom( ""x y"" )
body{
    repeat string metadata`it's` , repeat zchar
    x_y_z , lengthOf {Logon
    pack
, match options1
as leftPad// c
{ //x
10:a1
, """ ++ [28040; 24687]%N ++ runes_of_ascii """
    :	A , [
// trailing space 
// " ++ [128512]%N ++ runes_of_ascii " emoji
""" ++ [28040; 24687]%N ++ runes_of_ascii """ ,65535 , 0123456789 , 0
] : i64_ , 1 // " ++ [27880; 37322]%N ++ runes_of_ascii "
: string_ ,
65535	:calculatedFrom ,
}
    , crc { u128, u128
@lengthOf( x) , u16 falsey @lengthOf( u )	, } , char[ 42] options1
@calculatedFrom( ""packet"")
`u8 x,`,} , float/// triple
float  `u8 x,` , }
,match  packetx
    as T { ""packet""
// @lengthOf(
// @lengthOf(
: As,
007 : BodyLength , 00:
trueish
, [
    ""abc""  ,
10
    , 3 , 10,
007
    ,
// " ++ [128512]%N ++ runes_of_ascii " emoji
// c
""\n""
, 1
//	t
// a // b
] : _x ,}	, o
    `say ""hi""` ,
@leftPad
( '0' )
@tag( 10 ) @calculatedFrom( ""\" ++ [233]%N ++ runes_of_ascii """ )
u32 //	t
i64_
    // `tick` ""quote"" 'q'
    `{ , }`
,x
body `line1
line2`//	t
,
}
packet
    repeatCount {i64 rootA @calculatedFrom( """ ++ [128512]%N ++ runes_of_ascii """ )	`" ++ [28040; 24687; 31867; 22411]%N ++ runes_of_ascii "` , @rightPad( ' ' ) @rightPad
(	)  int32 rootA	@calculatedFrom( ""{,}"" ) , i16
    BodyLength // " ++ [27880; 37322]%N ++ runes_of_ascii "
, @calculatedFrom( ""`tick`"" )
Logon
    lengthOf `two words`
, zchar[ 4294967296]
x_y_z
    `" ++ [28040; 24687; 31867; 22411]%N ++ runes_of_ascii "` , string zchar
    `say ""hi""`
// `tick` ""quote"" 'q'
// c
, @tag( 1 ) f32 x_y_z `it's`
, } root packet string_ {// @lengthOf(
@leftPad
( '0'
) // a // b
@calculatedFrom( ""// no comment"" ) @leftPad
( ) // " ++ [27880; 37322]%N ++ runes_of_ascii "
char[
1]
tag
    `say ""hi""` , @calculatedFrom( // " ++ [27880; 37322]%N ++ runes_of_ascii "
""it's""
)
    match BodyLength  as A {
    255 :Foo,}, u16 x_y_z
@calculatedFrom( ""CRC32""
    ) , o  MetaDataX `// not a comment`, options1  @lengthOf(
x ) , match  float as
A{ [65535 ] :
    leftPad
, [ 007
,
7 , ""a\\"",1
] : msg_type,  10 :u128 """ ++ [28040; 24687]%N ++ runes_of_ascii """ : As , }  ,}
")).
Eval vm_compute in ("<<<M3685>>>" ++ check (runes_of_ascii "
root
packet 	 // c
falsey

{ roots
{ 
repeat 
x_y_z
	,} , char[]

    T
    `
`  ,
	char[

    3 ] T	/// triple
    ,

zchar  {
    repeat  zchar[ 
65535
]
	rootA

`tab	here`,
int32

    leftPad

    , 
},
// packet A { u8 x, }

// `tick` ""quote"" 'q'
	  repeat
	Packet 
        //	t
    	,

repeat

    char[	00]
body
`" ++ [233]%N ++ runes_of_ascii "`,

    @tag( 00 // @lengthOf(
    ) 
a1  i64_
    , i8i8
BodyLength  `{ , }`
, match crc as
    u8x  
      // a // b
  //	t
      {	[  
      // `tick` ""quote"" 'q'
  0]:

matchKey,[  0123456789  ,""a\\"" ,	""abc"" ] :
As	,

""" ++ [128512]%N ++ runes_of_ascii """
    :
tag
,
7 : u8x ,
42:	f32a  00 :	options1 }	// trailing space 
	,
} packet // " ++ [27880; 37322]%N ++ runes_of_ascii "

	MetaDataX{ 
@tag(

    42  )
@leftPad 
(
    )@leftPad

    //x
(
)body
i64_
, } 
packet int 
{@calculatedFrom( 
        // " ++ [27880; 37322]%N ++ runes_of_ascii "
  //

""" ++ [233]%N ++ runes_of_ascii "t" ++ [233]%N ++ runes_of_ascii """

    )

    @tag(	42  ) @leftPad (
'\x00'
) repeat
	u8x	,
	repeat len  ,  @tag(

255

    )match
    calculatedFrom
as
	Z9_{	""CRC32""
:

    len  ,
""packet"" 
:  falsey
,

    [
65535	, 42  //x
	] // @lengthOf(
    : charz
,}// @lengthOf(
	, i8i8 , match i8i8 as 
Foo  // trailing space 
  {	""a\\""
    : x  ,}
,
	@leftPad	(	)	char
	crc  `say ""hi""`	,
    }	options {	Pad

    = zchar[  // trailing space 
	0 ]; pack
= """"  // c
      ;
}

    root	packet
lengthOf
	{@leftPad ('0' ) A  
  // trailing space 
	@calculatedFrom(

// " ++ [27880; 37322]%N ++ runes_of_ascii "
//
  ""\" ++ [233]%N ++ runes_of_ascii """
	)

, @calculatedFrom(
""abc"" 	 // c

) repeat	// c
  char[]	a1
    ,  repeat
int	trueish,
	@rightPad(
'\x00'

)	// a // b
	zchar[
    4294967296 ]

_x ,

repeat stringy  //
x,@tag(	00 
)
@lengthOf( int )
    @tag(  0  )

u8
T 
,
    @tag( 1

    )
@lengthOf(a1
	) @calculatedFrom(

    ""it's""
) 
char[
10
]
    body
, @lengthOf(f32a
    ) rootA@calculatedFrom(
""{,}""
) ,  // " ++ [128512]%N ++ runes_of_ascii " emoji
	}

")).
Eval vm_compute in ("<<<M4488>>>" ++ check (runes_of_ascii "options {
    leftPad = false;
    Packet = int16;
    // c
    len = ' '
    calculatedFrom = 65535;
}

MetaData Header {
    int32 Z9_,
    f32 zchar `u8 x,`,
    char[10] x,
    asx _x `two words`,
    zchar[1] calculatedFrom `it's`,
}

// a // b
//	t
packet o {
    u msg_type,
    @leftPad('0')
    repeat BodyLength u `" ++ [233]%N ++ runes_of_ascii "`,
    @leftPad('0')
    @tag(1)
    zchar[1] i64_ @calculatedFrom(""" ++ [233]%N ++ runes_of_ascii "t" ++ [233]%N ++ runes_of_ascii """) `it's`,
    @lengthOf(x)
    @tag(255)
    @tag(7)
    repeat zchar[10] chars `two words`,
    @lengthOf(Foo)
    rootA `" ++ [233]%N ++ runes_of_ascii "`,
}

packet o {
    pack {
        repeat i8 lengthOf,
        char int `u8 x,`,
        //	t
        // a // b
        i64 matchKey @lengthOf(x_y_z),
    },
    zchar[007] metadata `say ""hi""`,
    @rightPad(' ')
    match MetaDataX as x_y_z {
        0 : roots,
        """" : chars,
        """ ++ [28040; 24687]%N ++ runes_of_ascii """ : T,
        0 : Foo,
        [
            0123456789, 0, 10, """ ++ [28040; 24687]%N ++ runes_of_ascii """, """ ++ [233]%N ++ runes_of_ascii "t" ++ [233]%N ++ runes_of_ascii """,
            ""a	b"", """ ++ [233]%N ++ runes_of_ascii "t" ++ [233]%N ++ runes_of_ascii """, """ ++ [128512]%N ++ runes_of_ascii """
        ] : options1,
        0123456789 : u,
        // " ++ [128512]%N ++ runes_of_ascii " emoji
    },
    len @calculatedFrom(""a\""b""),
    @tag(42)
    @lengthOf(x_y_z)
    // a // b
    /// triple
    leftPad chars,//	t
    i8 options1 @lengthOf(i64_),
    repeat matchKey `
    `,
    o @calculatedFrom(""`tick`""),
    @lengthOf(len)
    len {
        match float as rootA {
            [
                7, 4294967296, 65535, ""x y"", ""a\""b"",
                """", """ ++ [233]%N ++ runes_of_ascii "t" ++ [233]%N ++ runes_of_ascii """, ""abc""
            ] : float,
        },
        f32 Packet,
        u16 a1,
        zchar[65535] stringy,
    },
}

root packet metadata {
    @tag(4294967296)
    // " ++ [27880; 37322]%N ++ runes_of_ascii "
    string u8x `a\`,
}")).
Eval vm_compute in ("<<<M360>>>" ++ check (runes_of_ascii "root packet falsey { @lengthOf(Pad	)repeatCount
    @calculatedFrom( ""1"")
    ,@calculatedFrom( """"
)
@lengthOf(
stringy ) A
leftPad , @calculatedFrom(""{,}""
    ) // " ++ [128512]%N ++ runes_of_ascii " emoji
f32 calculatedFrom `{ , }` , char[007
    ] a1,
repeat char[ 007 ] repeatCount`it's`
, char[] pack `line1
line2`, } packet // " ++ [128512]%N ++ runes_of_ascii " emoji
trueish{ repeat zchar[10 ]options1 `a\`
,  roots@calculatedFrom(
""" ++ [128512]%N ++ runes_of_ascii """	) `{ , }`
,  @calculatedFrom(	""a\""b""	)
_x _x `
` , //x
i8 pack
    , @lengthOf(  string_ )
match charz
as
repeatCount
{[
0123456789 ]
    : x// a // b
,255:
    Foo, [ 0123456789 , ""1"" ] : f32a """" :
    // " ++ [128512]%N ++ runes_of_ascii " emoji
    len
,	[0 ,
0123456789 ,""a\\"" ,65535]
    : int ,[""packet"" , ""1"" ,65535 ,  ""a\""b""
    ,	4294967296
, ""x y""
    , ""// no comment"" ]
: calculatedFrom , // trailing space 
},
@calculatedFrom( // " ++ [27880; 37322]%N ++ runes_of_ascii "
""" ++ [28040; 24687]%N ++ runes_of_ascii """
)Pad int  `tab	here`,
} packet // c
As
{
    options1
,  @lengthOf( int // a // b
)int8
options1 @lengthOf( u8x)
`crlf
line`, } packet falsey { @rightPad ( ) char[ 3] o
    , }root
packet
    // @lengthOf(
    _x {@tag( 42
) trueish
    @calculatedFrom(
""" ++ [128512]%N ++ runes_of_ascii """ )
`
` , f32a `crlf
line` , match
rootA as stringy  { // trailing space 
[ ""packet""
    ,
//
// " ++ [27880; 37322]%N ++ runes_of_ascii "
"""" ]:
    uint8x ,  ""\" ++ [233]%N ++ runes_of_ascii """
: uint8x , [""\n"" ,1 ]
    : zchar // packet A { u8 x, }
, 255:
// `tick` ""quote"" 'q'
//
int ,[ ""packet""]: roots }
, repeat u16 // c
x_y_z// a // b
`// not a comment` , }")).
Eval vm_compute in ("<<<M1392>>>" ++ check (runes_of_ascii "options {
    StringPrefixLenType = u16;
    ArrayPrefixLenType = u16;
}

packet SampleBinary {
    uint16 MsgType `" ++ [28040; 24687; 31867; 22411]%N ++ runes_of_ascii "`,
    u16 BodyLenght @lengthOf(Body) `" ++ [28040; 24687; 20307; 38271; 24230]%N ++ runes_of_ascii "`,
    match MsgType as Body {
        1 : Logon,
        2 : Logout,
        3 : Heartbeat,
        4 : RiskControlRequest,
        5 : RiskControlResponse,
    },
    @calculatedFrom(""CRC32"")
    u32 Ckecksum `" ++ [26657; 39564; 21644]%N ++ runes_of_ascii "`,
}

packet Logon {
    @leftPad('0')
    char[10] UserName `" ++ [29992; 25143; 21517]%N ++ runes_of_ascii "`,
    string Password `" ++ [23494; 30721]%N ++ runes_of_ascii "`,
    uint64 ClientId `" ++ [23458; 25143; 31471]%N ++ runes_of_ascii "ID`,
    u16 HeartbeatInterval `" ++ [24515; 36339; 38388; 38548]%N ++ runes_of_ascii "`,
}

packet Logout {
    @rightPad('0')
    char[10] UserName `" ++ [29992; 25143; 21517]%N ++ runes_of_ascii "`,
    uint64 ClientId `" ++ [23458; 25143; 31471]%N ++ runes_of_ascii "ID`,
}

packet Heartbeat {
}

packet RiskControlRequest {
    string UniqueOrderId `" ++ [21807; 19968; 35746; 21333; 21495]%N ++ runes_of_ascii "`,
    char[16] ClOrdID `" ++ [23458; 25143; 35746; 21333; 21495]%N ++ runes_of_ascii "`,
    char[3] MarketID `" ++ [24066; 22330]%N ++ runes_of_ascii "id`,
    char[12] SecurityID `" ++ [35777; 21048; 20195; 30721]%N ++ runes_of_ascii "`,
    char Side `" ++ [20080; 21334; 26041; 21521]%N ++ runes_of_ascii "`,
    char OrderType `" ++ [35746; 21333; 31867; 22411]%N ++ runes_of_ascii "`,
    u64 Price `" ++ [20215; 26684]%N ++ runes_of_ascii "`,
    u32 Qty `" ++ [25968; 37327]%N ++ runes_of_ascii "`,
    repeat string ExtraInfo `" ++ [38468; 21152; 20449; 24687]%N ++ runes_of_ascii "`,
    repeat SubOrder {
        char[16] ClOrdID `" ++ [23376; 35746; 21333; 21495]%N ++ runes_of_ascii "`,
        u64 Price `" ++ [23376; 35746; 21333; 20215; 26684]%N ++ runes_of_ascii "`,
        u32 Qty `" ++ [23376; 35746; 21333; 25968; 37327]%N ++ runes_of_ascii "`,
    },
}

packet RiskControlResponse {
    string UniqueOrderId `" ++ [21807; 19968; 35746; 21333; 21495]%N ++ runes_of_ascii "`,
    i32 Status `" ++ [29366; 24577]%N ++ runes_of_ascii "`,
    string Msg `" ++ [32467; 26524; 20449; 24687]%N ++ runes_of_ascii "`,
    repeat Detail,
}

packet Detail {
    string RuleName `" ++ [35268; 21017; 21517; 31216]%N ++ runes_of_ascii "`,
    u16 Code `" ++ [21407; 22240; 20195; 30721]%N ++ runes_of_ascii "`,
}")).
Eval vm_compute in ("<<<M1387>>>" ++ check (runes_of_ascii "options{ falsey =
float64 ;
u8x
=' ' ; charz = '0' ; // a // b
} options/// triple
{ i8i8 = true ;	uint8x = false ; roots
//	t
// " ++ [27880; 37322]%N ++ runes_of_ascii "
=
// @lengthOf(
// c
42 ; MetaDataX= ""a\\""
} packet tag { lengthOf//
, @lengthOf(
    // a // b
    u8x)
    match// " ++ [27880; 37322]%N ++ runes_of_ascii "
metadata as packetx { ""// no comment""
:
    // `tick` ""quote"" 'q'
    tag // " ++ [128512]%N ++ runes_of_ascii " emoji
,65535
: MetaDataX
    // " ++ [128512]%N ++ runes_of_ascii " emoji
    ,	} ,@rightPad(' '
)  char[ 007 // c
] // " ++ [128512]%N ++ runes_of_ascii " emoji
len, @calculatedFrom(
    ""a	b""
) repeat//x
uint8x u8x `a\`
, repeat
uint8x	{ match  MetaDataX as zchar  { 65535 : int
, 1
    :
    matchKey  , [ 0123456789]
:pack, 7: Z9_ , 0123456789
:	rootA/// triple
[ 00
    ,""\n"" ] :leftPad , }  , u128  { // a // b
uint64 i8i8 // packet A { u8 x, }
, i32 tag	, uint8 body	,}  , zchar[255 ] rootA	, } // trailing space 
, // trailing space 
string roots , @calculatedFrom(
""CRC32"" ) @tag( 7 ) string_	@calculatedFrom(  ""abc"" )
, zchar[ 10 ] int `say ""hi""` , @lengthOf(  metadata )	char[ 0 ] roots @calculatedFrom( """" ) // `tick` ""quote"" 'q'
, @calculatedFrom(""x y""//x
) rootA `" ++ [28040; 24687; 31867; 22411]%N ++ runes_of_ascii "` , }
root packet // " ++ [128512]%N ++ runes_of_ascii " emoji
i64_ {@tag( 00 )
repeat x i64_ , } options { Header
    =00 float =	false
    ;}
")).
Eval vm_compute in ("<<<M1394>>>" ++ check (runes_of_ascii "options {
	StringPrefixLenType = u16;
	ArrayPrefixLenType = u16;
}

packet SampleBinary {
	uint16 MsgType `" ++ [28040; 24687; 31867; 22411]%N ++ runes_of_ascii "`,
	u16 BodyLenght @lengthOf(Body) `" ++ [28040; 24687; 20307; 38271; 24230]%N ++ runes_of_ascii "`,
	match MsgType as Body {
		1 : Logon,
		2 : Logout,
		3 : Heartbeat,
		4 : RiskControlRequest,
		5 : RiskControlResponse,
	},
	@calculatedFrom(""CRC32"")
	u32 Ckecksum `" ++ [26657; 39564; 21644]%N ++ runes_of_ascii "`,
}

packet Logon {
	@leftPad('0')
	char[10] UserName `" ++ [29992; 25143; 21517]%N ++ runes_of_ascii "`,
	string Password `" ++ [23494; 30721]%N ++ runes_of_ascii "`,
	uint64 ClientId `" ++ [23458; 25143; 31471]%N ++ runes_of_ascii "ID`,
	u16 HeartbeatInterval `" ++ [24515; 36339; 38388; 38548]%N ++ runes_of_ascii "`,
}

packet Logout {
	@rightPad('0')
	char[10] UserName `" ++ [29992; 25143; 21517]%N ++ runes_of_ascii "`,
	uint64 ClientId `" ++ [23458; 25143; 31471]%N ++ runes_of_ascii "ID`,
}

packet Heartbeat {
}

packet RiskControlRequest {
	string UniqueOrderId `" ++ [21807; 19968; 35746; 21333; 21495]%N ++ runes_of_ascii "`,
	char[16] ClOrdID `" ++ [23458; 25143; 35746; 21333; 21495]%N ++ runes_of_ascii "`,
	char[3] MarketID `" ++ [24066; 22330]%N ++ runes_of_ascii "id`,
	char[12] SecurityID `" ++ [35777; 21048; 20195; 30721]%N ++ runes_of_ascii "`,
	char Side `" ++ [20080; 21334; 26041; 21521]%N ++ runes_of_ascii "`,
	char OrderType `" ++ [35746; 21333; 31867; 22411]%N ++ runes_of_ascii "`,
	u64 Price `" ++ [20215; 26684]%N ++ runes_of_ascii "`,
	u32 Qty `" ++ [25968; 37327]%N ++ runes_of_ascii "`,
	repeat string ExtraInfo `" ++ [38468; 21152; 20449; 24687]%N ++ runes_of_ascii "`,
	repeat SubOrder {
		char[16] ClOrdID `" ++ [23376; 35746; 21333; 21495]%N ++ runes_of_ascii "`,
		u64 Price `" ++ [23376; 35746; 21333; 20215; 26684]%N ++ runes_of_ascii "`,
		u32 Qty `" ++ [23376; 35746; 21333; 25968; 37327]%N ++ runes_of_ascii "`,
	},
}

packet RiskControlResponse {
	string UniqueOrderId `" ++ [21807; 19968; 35746; 21333; 21495]%N ++ runes_of_ascii "`,
	i32 Status `" ++ [29366; 24577]%N ++ runes_of_ascii "`,
	string Msg `" ++ [32467; 26524; 20449; 24687]%N ++ runes_of_ascii "`,
	repeat Detail,
}

packet Detail {
	string RuleName `" ++ [35268; 21017; 21517; 31216]%N ++ runes_of_ascii "`,
	u16 Code `" ++ [21407; 22240; 20195; 30721]%N ++ runes_of_ascii "`,
}")).
Eval vm_compute in ("<<<M494>>>" ++ check (runes_of_ascii "packet leftPad //x
{uint16 x , lengthOf // a // b
chars `// not a comment` , @calculatedFrom( ""a\\"") repeat
char[] As`{ , }`
, metadata
@calculatedFrom(
    ""// no comment"" ),
uint32 f32a`
`
, @tag( // @lengthOf(
255) repeat trueish `doc` ,
char[] trueish
@lengthOf(
len )
,int16
i64_ ,
@calculatedFrom( ""\n""
)
i8i8 `" ++ [28040; 24687; 31867; 22411]%N ++ runes_of_ascii "`  ,
    } root
    packet crc { repeat uint8x	packetx, match
u8x as T {
0
: crc,1  : T ,
    [ ""a\\""// c
, 0123456789 , 00 ] : chars ,	7 :
T //	t
,	}// a // b
,
roots  @lengthOf(	lengthOf
    ) `two words`
    , match
rootA as A{
10
    : x ,
    }, crc @calculatedFrom( ""a	b""
    )
    , chars {
match lengthOf as Header
{4294967296 :// c
zchar
, [4294967296 ,
""a\\""
    ]: asx ,}
,_x  @calculatedFrom(
    ""\" ++ [233]%N ++ runes_of_ascii """)`tab	here` // a // b
, },} //
MetaData asx { zchar[
    42	] uint8x
// `tick` ""quote"" 'q'
// `tick` ""quote"" 'q'
, uint8
    Logon //x
`// not a comment` , } MetaData
    o
//	t
//x
{ u16 // " ++ [27880; 37322]%N ++ runes_of_ascii "
_x , x_y_z float `crlf
line`,BodyLength calculatedFrom
    `tab	here` ,
    uint16
MetaDataX , }
")).
Eval vm_compute in ("<<<M696>>>" ++ check (runes_of_ascii "// " ++ [128512]%N ++ runes_of_ascii " emoji
MetaData rootA{ metadata i64_
    // @lengthOf(
    , }
    packet msg_type {
    char[
    255 ] tag
, } options
{  As	= ' ' ; Z9_=
// a // b
// c
int16 ;  crc
=""\" ++ [233]%N ++ runes_of_ascii """;float = f64 ;} //x
options
{ BodyLength = 00 }
    packet
    As
    /// triple
    { @tag(
007
)Z9_
{
repeat char[ 0 ] stringy , A
    @lengthOf( f32a )  , } ,
Pad x_y_z ,
/// triple
// @lengthOf(
body
`` , @tag( 65535)	char[ 0123456789 ]
MetaDataX  @calculatedFrom(""`tick`"" ) ,pack
falsey , zchar[
0
    ]MetaDataX ,	i16
repeatCount ,
repeat tag
    stringy`doc` ,@lengthOf(
Z9_)
@leftPad (
)	@leftPad
(
    //x
    '\x00') repeat _x { repeat
a1
    {
match
u as chars {
    // packet A { u8 x, }
    [
    0123456789	,
    4294967296//
, ""it's"" ,//x
1 ,	""\" ++ [233]%N ++ runes_of_ascii """]: Z9_ 4294967296 // trailing space 
:
    rootA ""abc"" : stringy }, } ,
    /// triple
    repeat string chars
    // trailing space 
    `" ++ [233]%N ++ runes_of_ascii "` ,
int8
    // " ++ [128512]%N ++ runes_of_ascii " emoji
    u8x @lengthOf( x_y_z )
, // @lengthOf(
} ,
uint64 body
@lengthOf(roots),}
")).
Eval vm_compute in ("<<<M196>>>" ++ check (runes_of_ascii "/// triple
MetaData roots
    { string
Z9_ `say ""hi""`
    //
    ,o
    tag ,char[4294967296 // " ++ [128512]%N ++ runes_of_ascii " emoji
] body `crlf
line`
,
    _x lengthOf `tab	here` , } options { repeatCount	= ""x y"" ; T = """ ++ [28040; 24687]%N ++ runes_of_ascii """ }
    /// triple
    packet int{ @calculatedFrom( ""CRC32"" )int64 f32a, roots @calculatedFrom( ""it's"" )`` ,@calculatedFrom(""a\\"" )@tag( 007 ) char[ 255//	t
] crc @lengthOf(packetx )
    ,
match
    Pad as string_ { [""\" ++ [233]%N ++ runes_of_ascii """,3
    // " ++ [27880; 37322]%N ++ runes_of_ascii "
    ] : lengthOf  ,[ 42
    ]:
// packet A { u8 x, }
// packet A { u8 x, }
body ,
7 : i8i8
    ,0123456789:
options1
,//x
[ 00 ] : Z9_ ,  }// @lengthOf(
,float
,// " ++ [27880; 37322]%N ++ runes_of_ascii "
} MetaData zchar
    {
    zchar[
3 ]
    options1
    `line1
line2` ,}  packet asx
{ zchar[
    42// " ++ [128512]%N ++ runes_of_ascii " emoji
]
falsey ,	@calculatedFrom(
""1""
)
repeat string As `" ++ [233]%N ++ runes_of_ascii "`, char[] trueish
    , int32 Header , repeat  stringy
`crlf
line`, string
x_y_z,
f64 T
//x
// `tick` ""quote"" 'q'
, uint8x
@lengthOf( charz
)
    `a\` , }")).
Eval vm_compute in ("<<<M3640>>>" ++ check (runes_of_ascii "options {
    LittleEndian = false;
    FixedStringPadFromLeft = false;
    FixedStringPadChar = ' ';
}
packet Fill {
    uint16 Qty,
    uint64 clOrdID,
    repeat i64 Flags,
}
packet Ack {
    zchar[7] clOrdID,
    u64 lastPx,
    char[] Note,
    repeat Fill,
    int32 count,
}
packet Quote {
    u8 venue,
    InRef40 {
        char[] Qty,
    },
    zchar[5] Flags,
    @rightPad('\x00') char[12] msgKind,
}
packet Logout {
    InSym79 {
        int32 Qty,
        Fill,
        char[3] x,
        repeat InNote29 {
            i16 price,
            Ack,
            f64 x,
            zchar[8] count,
        },
    },
}
root packet Logon {
    zchar[1] sym,
    u32 count,
    u16 tag7 @lengthOf(Body),
    match count as Body {
        [122, 152] : Ack,
        118 : Logout,
        61 : Quote,
        161 : Fill,
    },
    u32 Acct @calculatedFrom(""CRC32""),
}
")).
Eval vm_compute in ("<<<M4547>>>" ++ check (runes_of_ascii "MetaData A {
    u8x A ``,
    int16 roots `// not a comment`,
    u128 u,
    int options1 `" ++ [28040; 24687; 31867; 22411]%N ++ runes_of_ascii "`,
    i16 repeatCount,
    i8 roots,
}

root packet matchKey {
    lengthOf {
        i64_ @lengthOf(msg_type),
    },
}

options {
    x = char[]
}// trailing space 

packet As {
    i64_ `crlf
    line`,// c
    rootA Z9_,
    string Pad @calculatedFrom(""// no comment"") `say ""hi""`,
    @rightPad('\x00')
    @calculatedFrom(""{,}"")
    @calculatedFrom(""CRC32"")
    falsey `doc`,
    match Logon as tag {
        3 : f32a,
        ""abc"" : o,
        255 : A,
        ""abc"" : leftPad,
    },
    @calculatedFrom(""" ++ [233]%N ++ runes_of_ascii "t" ++ [233]%N ++ runes_of_ascii """)
    repeat u32 _x `{ , }`,
    repeat stringy `a\`,
    // @lengthOf(
    // " ++ [128512]%N ++ runes_of_ascii " emoji
    len @lengthOf(Header) `" ++ [28040; 24687; 31867; 22411]%N ++ runes_of_ascii "`,
    i32 len @lengthOf(repeatCount) `line1
    line2`,
    @tag(42)
    BodyLength,
}")).
Eval vm_compute in ("<<<M1346>>>" ++ check (runes_of_ascii "packet	i64_
    // `tick` ""quote"" 'q'
    { @lengthOf(  charz )  zchar[
00  ]charz	`
`	,@rightPad ( '0')
@calculatedFrom(  ""`tick`"" ) i16 charz , repeat Pad { uint8x
MetaDataX , int { repeat // packet A { u8 x, }
uint64 u8x ,// packet A { u8 x, }
repeat
    // `tick` ""quote"" 'q'
    uint8x
    { // a // b
repeat Z9_
x_y_z ,
    match
    x_y_z
// a // b
// a // b
as _x {
    007 :crc	,
[ 00 ,  0
, 1 , 007 ,
4294967296 ]:
    u128
,  }
, char[
    42
//	t
//
] float,}, } , char[]x
    ,repeat
zchar  {
match
Logon  as rootA {	0
:
    chars , [ 42
] :repeatCount
    // c
    ,
""" ++ [233]%N ++ runes_of_ascii "t" ++ [233]%N ++ runes_of_ascii """
:	BodyLength, ""x y"" : Z9_
, [4294967296	, 42 ,
3 , 255 , 00 ,
    ""x y"" , 10
    , 42 ]
    : falsey , }, },
}  , }// a // b
packet	options1// " ++ [128512]%N ++ runes_of_ascii " emoji
{ // c
len @lengthOf(T
), }")).
Eval vm_compute in ("<<<M4238>>>" ++ check (runes_of_ascii "MetaData i8i8 {
    u8 string_ `crlf
    line`,
}

root packet MetaDataX {
    @rightPad(' ')
    char[] MetaDataX @lengthOf(packetx),//	t
}

packet packetx {
    @lengthOf(uint8x)
    //
    trueish `doc`,
    @calculatedFrom(""a\""b"")
    @rightPad(' ')
    @calculatedFrom(""a\\"")
    repeat zchar[7] asx,
    @tag(1)
    char[3] string_,
    string_ @lengthOf(Logon),
    @rightPad('\x00')
    @leftPad('0')
    repeat As {
        trueish {
            leftPad {
                i64 crc,
                u8 zchar @lengthOf(f32a),
                tag @lengthOf(Z9_) `// not a comment`,
                Z9_ _x,
            },// packet A { u8 x, }
            char[00] Foo `a\`,
        },
    },
    @tag(7)
    char[4294967296] u128,
}")).
Eval vm_compute in ("<<<M734>>>" ++ check (runes_of_ascii "options {
    } packet x {	MetaDataX @lengthOf( _x // @lengthOf(
),
    // " ++ [128512]%N ++ runes_of_ascii " emoji
    }
root
    packet metadata{ string float``
,char[ 65535 ]  T `it's`, @lengthOf( msg_type) @tag(42 )
match Header as
    chars  { [
10,
    7
]:
a1 ,
    [//x
""1""
// c
//
] : u128 4294967296
    : options1 , } , // trailing space 
int	@calculatedFrom( ""`tick`""
    ) ,
    MetaDataX
// `tick` ""quote"" 'q'
// c
packetx , zchar[ 10] o, @tag( 007)
    u128 Pad , @calculatedFrom( ""{,}""
    //	t
    )
    // `tick` ""quote"" 'q'
    match options1 as BodyLength{ [00	, 255 , ""x y""
]	:
A ""a\\"" :T ,[ 7	,
    42 ,65535, ""a\""b""
, 7
    , 007 , //	t
""`tick`""  , 0 ]: matchKey ""CRC32""
    // c
    :	falsey ,
} , }
")).
Eval vm_compute in ("<<<M242>>>" ++ check (runes_of_ascii "packet
    uint8x { @tag(	0123456789 // a // b
) match u as
As
    {
    ""1""
    :	o ,4294967296 : charz [ ""CRC32""
    ]	: A , 42: zchar, ""CRC32"" : leftPad //	t
,
    """ ++ [28040; 24687]%N ++ runes_of_ascii """// " ++ [128512]%N ++ runes_of_ascii " emoji
: uint8x, } , }
    options {
u128 = uint32
}
    packet
chars
{
    // a // b
    float @lengthOf( _x ) // `tick` ""quote"" 'q'
, string
    chars@lengthOf(
matchKey
// @lengthOf(
// packet A { u8 x, }
) , match  crc as
    Z9_ {0123456789 : int
    ,""x y"" //
:
    rootA,	""`tick`""
    : As,
    // @lengthOf(
    } ,@tag(7 )
Pad @lengthOf( trueish  )`u8 x,`
,}
packet float
{ repeat Packet{ lengthOf {
    //
    repeat f32a`it's`
, } ,	o @lengthOf( calculatedFrom	)  , }
,}

")).
Eval vm_compute in ("<<<M236>>>" ++ check (runes_of_ascii "MetaData As {  } packet float { // @lengthOf(
options1  Pad `// not a comment` ,
uint16 As `line1
line2` ,float32 stringy@calculatedFrom(
""`tick`""
) `" ++ [233]%N ++ runes_of_ascii "` ,
repeat Packet { zchar[ 3 ] T
    @calculatedFrom(
""x y""),  char[ 7 ]  asx @lengthOf( tag) ,
    //
    int64 charz `u8 x,`
, } , uint32
len , @tag(	0123456789
) Foo packetx `// not a comment`,char[] trueish @lengthOf(
rootA
    ) , @leftPad (//
'0'  ) repeat  x_y_z `{ , }` , i64 u128 ,
    }
    packet msg_type//x
{
char[]
i8i8
    `doc` //	t
,string trueish @calculatedFrom(
    """" ), char[ 7 ]/// triple
string_// packet A { u8 x, }
`say ""hi""`
/// triple
//
,	}
")).
Eval vm_compute in ("<<<M4534>>>" ++ check (runes_of_ascii "packet matchKey {
    match Header as chars {
        [0, """ ++ [233]%N ++ runes_of_ascii "t" ++ [233]%N ++ runes_of_ascii """] : body,
        [42, 10] : msg_type,
        """ ++ [128512]%N ++ runes_of_ascii """ : options1,
        7 : roots,
        ""\n"" : packetx,
    },
    zchar[0] A @lengthOf(int),
    char[] Header `
        `,// trailing space 
    repeat float {
        repeat o,// `tick` ""quote"" 'q'
        repeat int32 x_y_z `
                `,
    },
    @tag(0)
    u64 string_ @calculatedFrom(""`tick`"") `two words`,
    calculatedFrom {
        matchKey,// packet A { u8 x, }
        rootA,
    },
}

options {
    chars = """";
    As = true;
    Foo = 7;
    lengthOf = ""a\\""
}")).
Eval vm_compute in ("<<<M4135>>>" ++ check (runes_of_ascii "packet Packet {
    @tag(65535)
    @leftPad(' ')
    @tag(255)
    uint8 len @lengthOf(T),
    int32 u8x,
    @lengthOf(rootA)
    float32 i64_ `u8 x,`,
}

packet int {
    repeat i8i8 {
        lengthOf @lengthOf(int) `line1
                line2`,
        string falsey `
                `,
        uint16 roots @lengthOf(charz),
    },
}

options {
    Foo = ' '
    len = """ ++ [128512]%N ++ runes_of_ascii """;
    chars = u64;
    //x
    //
    uint8x = """ ++ [128512]%N ++ runes_of_ascii """;
    metadata = ' ';
}

MetaData Header {
    i16 matchKey,
    Packet Packet `u8 x,`,
}

packet u128 {
    uint8x @lengthOf(charz) `u8 x,`,
}")).
Eval vm_compute in ("<<<M4115>>>" ++ check (runes_of_ascii "

  MetaData
metadata{ } 
packet

u  // a // b
      {//
  @lengthOf(
    T  ) 	 // packet A { u8 x, }
@lengthOf( u
    ) 	 /// triple
    @leftPad ( '0' 

//	t
	// " ++ [27880; 37322]%N ++ runes_of_ascii "
    )

repeat
uint8 x_y_z

`" ++ [28040; 24687; 31867; 22411]%N ++ runes_of_ascii "`
    ,
}	root packet
A { @tag( 

// a // b
10)repeat

    zchar[
0 ]
	asx	`doc` ,

    char[	// @lengthOf(
    7

]float  //x
	@lengthOf(BodyLength)
    `crlf
line`,
    zchar[
    0123456789]

    u128 ,

@rightPad  (	)repeat
zchar[	255

] Packet
	`` ,

BodyLength
	Pad ,	@tag( 1	)
zchar[
10  ]float @lengthOf(

roots ) 
, 
}
")).
Eval vm_compute in ("<<<M849>>>" ++ check (runes_of_ascii "options {float = ' ' Foo =
""a	b"" A = // packet A { u8 x, }
i16
    ; string_ =""it's""} // c
MetaData float{ charz falsey // " ++ [27880; 37322]%N ++ runes_of_ascii "
, char[]chars
, float32
    Pad , }MetaData repeatCount
    {
    char[	65535] // `tick` ""quote"" 'q'
Header `" ++ [233]%N ++ runes_of_ascii "` // trailing space 
,
    float32 Pad
, u64 len
    ,
    // `tick` ""quote"" 'q'
    lengthOf a1 `{ , }`
    //	t
    ,
    //x
    }
options
    {  leftPad = zchar[ 00] ; charz
= 10
    ;options1
    =
    // trailing space 
    string len =zchar[255 ] ; Logon = ""\n""
    ; }
")).
Eval vm_compute in ("<<<M334>>>" ++ check (runes_of_ascii "
packet a1
    /// triple
    { uint8 As ,// `tick` ""quote"" 'q'
char[ 1] chars
    @lengthOf(
    msg_type )  , repeat char[ 1 ] x_y_z `two words`
    //x
    , // c
@tag(00
)
int32
i8i8
    , u64 trueish ,
    // @lengthOf(
    @lengthOf(
    body )int16 float @lengthOf( tag )
    , // " ++ [128512]%N ++ runes_of_ascii " emoji
x // trailing space 
@calculatedFrom( ""`tick`""	) ,
} MetaData x_y_z
    {	char[
10
    ]chars,Z9_ pack`
`  ,  string As
, //x
len
    int ,A Z9_  , }	options { o = 0123456789 ; _x	= ' '
;
}")).
Eval vm_compute in ("<<<M152>>>" ++ check (runes_of_ascii "
options{	roots ='\x00' lengthOf
=
    true
; Packet = // `tick` ""quote"" 'q'
""packet"" ; o = // packet A { u8 x, }
""packet"" ; A// " ++ [27880; 37322]%N ++ runes_of_ascii "
=
    //
    true ; // trailing space 
} packet body
{ _x ,	zchar[
65535
]
Header @calculatedFrom( // trailing space 
""""  ) `u8 x,` , }
root packet
    //	t
    T // trailing space 
{ @tag(// trailing space 
7) @tag( 0
    )
@leftPad( '0' )// a // b
int64
x @lengthOf( Packet )
    , msg_type stringy
`" ++ [28040; 24687; 31867; 22411]%N ++ runes_of_ascii "`/// triple
, } /// triple")).
Eval vm_compute in ("<<<M695>>>" ++ check (runes_of_ascii "// `tick` ""quote"" 'q'
options{
    Pad  =
'0' } //
packet
    zchar{	stringy
// " ++ [128512]%N ++ runes_of_ascii " emoji
// " ++ [27880; 37322]%N ++ runes_of_ascii "
{ match
x as i64_	{00 : len,/// triple
""`tick`""
://x
body
, 3 : chars//
, 7 : uint8x 0123456789:Foo
,
} , repeat
chars i8i8
,  float32// c
Logon
@lengthOf(A ) `tab	here` ,
} ,} packet
    //x
    As  {
    @lengthOf( i64_)
    repeat
    options1{ a1 @calculatedFrom( ""a\\""),
    }
    // packet A { u8 x, }
    ,
@calculatedFrom( ""CRC32"" ) matchKey ,}
")).
Eval vm_compute in ("<<<M349>>>" ++ check (runes_of_ascii "MetaData string_ {
char[]
Packet `
`
    , i8i8 A  ,
string A
`it's`
,// trailing space 
uint64 int
, }
// trailing space 
// " ++ [27880; 37322]%N ++ runes_of_ascii "
MetaData Z9_ { Header crc , // " ++ [27880; 37322]%N ++ runes_of_ascii "
} MetaData T {// c
float32 Z9_ `// not a comment`
    , char[] /// triple
uint8x`line1
line2` ,
Header u8x,
char[ 3] a1	,
    }MetaData Logon { a1 // " ++ [128512]%N ++ runes_of_ascii " emoji
repeatCount `say ""hi""` , char[
    42  ] Foo
    ,
    zchar[ 00
    ] metadata
,
int16  zchar `it's` , }")).
Eval vm_compute in ("<<<M902>>>" ++ check (runes_of_ascii "// c
options
{// " ++ [27880; 37322]%N ++ runes_of_ascii "
MetaDataX = 0} root packet Z9_{char[]  packetx `doc`,BodyLength
zchar
,float32
BodyLength , @calculatedFrom(
""\" ++ [233]%N ++ runes_of_ascii """
) match trueish  as// a // b
T { 255
: uint8x // @lengthOf(
, // packet A { u8 x, }
""" ++ [233]%N ++ runes_of_ascii "t" ++ [233]%N ++ runes_of_ascii """ :
    charz
,""a\\"" : falsey ""{,}"" : MetaDataX ,  }
,// trailing space 
}
    options {} options {msg_type = 42 pack =
true repeatCount
=4294967296 ; leftPad =
    ""it's"" // " ++ [27880; 37322]%N ++ runes_of_ascii "
;
    }")).
Eval vm_compute in ("<<<M4247>>>" ++ check (runes_of_ascii "
packet options1  {
	repeat zchar[
	7
    ]	i8i8 
,_x
{	zchar[ 65535
    ] i8i8@lengthOf(
	uint8x

),match x_y_z as

lengthOf  {//x

[	00  // " ++ [27880; 37322]%N ++ runes_of_ascii "

,

1	// " ++ [27880; 37322]%N ++ runes_of_ascii "
    ,10 ,
    ""\" ++ [233]%N ++ runes_of_ascii """,	42,  00 ]	:	Pad
,
[  4294967296 ]
	: 
asx
0123456789
: x_y_z

    ,
}  // trailing space 
  ,
zchar[
    0
] float
,
} ,  int16
    T@lengthOf(charz	)  `` , }

    MetaData	pack	{

int64  //	t
chars

,
} ")).
Eval vm_compute in ("<<<M424>>>" ++ check (runes_of_ascii "root	packet x { f64 trueish @calculatedFrom(""" ++ [28040; 24687]%N ++ runes_of_ascii """ )
, @calculatedFrom(
    ""a	b""
)  zchar[ 00	]
lengthOf , char[] roots
`tab	here`	, @leftPad ( '\x00'
    ) char[]
body ,
    // " ++ [27880; 37322]%N ++ runes_of_ascii "
    Header {
string
    _x
, i32 falsey ,repeat uint8 Packet , //	t
float32 leftPad
    @lengthOf( u )
`a\` , },
int32 // " ++ [27880; 37322]%N ++ runes_of_ascii "
chars , @calculatedFrom(""\n"" ) repeat// c
u32 roots
    ,  o `` , }")).
Eval vm_compute in ("<<<M4217>>>" ++ check (runes_of_ascii "

  root
	packet i8i8{
    i8	crc  , 
        // @lengthOf(

	@rightPad ( 
)
	uint64	u128`two words` 

    //
	//	t
	, //	t
	uint64
	_x
	`{ , }`

, 
    // c
  //x
	  }

    options {
As
= 
""abc""

leftPad 
    // " ++ [128512]%N ++ runes_of_ascii " emoji
  /// triple
  = ""CRC32""	charz =char[
65535  ]	//	t
  	;
x_y_z	// trailing space 
		=true;
}// @lengthOf(
    	options	{  }

")).
Eval vm_compute in ("<<<M4130>>>" ++ check (runes_of_ascii "packet i8i8 {
    match tag as i8i8 {
        """ ++ [28040; 24687]%N ++ runes_of_ascii """ : pack,
        3 : rootA,
        [1, 3] : falsey,
    },
    // " ++ [128512]%N ++ runes_of_ascii " emoji
    // trailing space 
    zchar[10] string_,// @lengthOf(
}

packet falsey {
    string chars,
    uint8x,
    @lengthOf(packetx)
    char[] Packet,
}

MetaData a1 {
    chars roots `crlf
    line`,
    asx zchar,
}")).
Eval vm_compute in ("<<<M4464>>>" ++ check (runes_of_ascii "MetaData u {
    u128 tag `
    `,
    zchar[10] pack `say ""hi""`,
    string metadata `doc`,
}

packet chars {
    match crc as trueish {
        // " ++ [27880; 37322]%N ++ runes_of_ascii "
        10 : roots,
        [
            4294967296, 007, 42, """ ++ [28040; 24687]%N ++ runes_of_ascii """, """",
            ""\n"", ""a\""b"", """"
        ] : string_,
        ""{,}"" : x_y_z,
    },
    i8i8 int,
    asx,
}")).
Eval vm_compute in ("<<<M4415>>>" ++ check (runes_of_ascii "packet repeatCount {
    uint64 stringy,
}

options {
    crc = '0'
}//x

packet int {
    repeat a1 charz,
}

options {
    matchKey = """ ++ [28040; 24687]%N ++ runes_of_ascii """;
    crc = """ ++ [28040; 24687]%N ++ runes_of_ascii """;
    roots = '\x00';
}

packet i8i8 {
    @calculatedFrom(""abc"")
    char[] _x `
        `,/// triple
    uint8 Packet `crlf
        line`,
    string_ `{ , }`,
}")).
Eval vm_compute in ("<<<M1868>>>" ++ check (runes_of_ascii "MetaData
    u true }  options {
// c
// @lengthOf(
float = int8 ;rootA =false ; As =	int16 // `tick` ""quote"" 'q'
repeatCount
    // trailing space 
    =
    int16
; u8x =
    //	t
    '\x00' ; } options	{
    repeatCount
= 0
u128
    //
    = false ; i64_
// trailing space 
// `tick` ""quote"" 'q'
= '0' ; //	t
}
")).
Eval vm_compute in ("<<<M2051>>>" ++ check (runes_of_ascii "MetaData
    u { }  options {
// c
// @lengthOf(
float = int8 ;rootA =false ; As =	int16 // `tick` ""quote"" 'q'
repeatCount
    // trailing space 
    =
    int16
; u8x =
    //	t
    '\x00' ; } options	{
    repeatCount
= 0
u128
    //
    = false ; i64_
// trailing space 
// `tick` ""quote"" 'q'
= '0' ; //	t
} }
")).
Eval vm_compute in ("<<<M1887>>>" ++ check (runes_of_ascii "MetaData
    u { }  options {
// c
// @lengthOf(
= float int8 ;rootA =false ; As =	int16 // `tick` ""quote"" 'q'
repeatCount
    // trailing space 
    =
    int16
; u8x =
    //	t
    '\x00' ; } options	{
    repeatCount
= 0
u128
    //
    = false ; i64_
// trailing space 
// `tick` ""quote"" 'q'
= '0' ; //	t
}
")).
Eval vm_compute in ("<<<M2037>>>" ++ check (runes_of_ascii "MetaData
    u { }  options {
// c
// @lengthOf(
float = int8 ;rootA =false ; As =	int16 // `tick` ""quote"" 'q'
repeatCount
    // trailing space 
    =
    int16
; u8x =
    //	t
    '\x00' ; } options	{
    repeatCount
= 0
u128
    //
    = false ; i64_
// trailing space 
// `tick` ""quote"" 'q'
'0' = ; //	t
}
")).
Eval vm_compute in ("<<<M1878>>>" ++ check (runes_of_ascii "MetaData
    u { }  match {
// c
// @lengthOf(
float = int8 ;rootA =false ; As =	int16 // `tick` ""quote"" 'q'
repeatCount
    // trailing space 
    =
    int16
; u8x =
    //	t
    '\x00' ; } options	{
    repeatCount
= 0
u128
    //
    = false ; i64_
// trailing space 
// `tick` ""quote"" 'q'
= '0' ; //	t
}
")).
Eval vm_compute in ("<<<M483>>>" ++ check (runes_of_ascii "MetaData  As { float32	calculatedFrom
, BodyLength asx `two words`
    , }
options { f32a =
' ' ; a1  = '\x00'} // trailing space 
MetaData T {	charz metadata  , lengthOf T	`crlf
line`	,
    T
    rootA
`
` , char[] repeatCount
`it's` ,
stringy
rootA, // @lengthOf(
zchar[ 0123456789 ] MetaDataX ,
}
")).
Eval vm_compute in ("<<<M639>>>" ++ check (runes_of_ascii "
packet
calculatedFrom {@lengthOf( Foo	) //
@calculatedFrom( ""a\""b""
)lengthOf Foo
, int8 u8x, @calculatedFrom( """ ++ [28040; 24687]%N ++ runes_of_ascii """ )
repeat // a // b
options1 o `" ++ [28040; 24687; 31867; 22411]%N ++ runes_of_ascii "` ,
    MetaDataX @lengthOf( Logon
    // trailing space 
    )
, } options { crc =
7 u8x =0 T = ""{,}""; metadata =
    zchar[ 00
    ]
;} 	 ")).
Eval vm_compute in ("<<<M222>>>" ++ check (runes_of_ascii "options	{ // packet A { u8 x, }
rootA
= true
    ; chars
=	true // packet A { u8 x, }
}options	{	lengthOf // @lengthOf(
= 3
trueish
= ' '
    ;
    /// triple
    crc
// trailing space 
// @lengthOf(
=
    // trailing space 
    true  ;
    rootA =""it's""; chars=
    int32 ;//x
}
")).
Eval vm_compute in ("<<<M4062>>>" ++ check (runes_of_ascii "  packet
options1
{@leftPad
(
	'0'
)	repeat
	char[
1
    ] 	 // " ++ [27880; 37322]%N ++ runes_of_ascii "
  roots

    `
` ,

i32 
A  `
`  ,
	repeat
    char[

3]stringy// `tick` ""quote"" 'q'

,
repeat
	f64	Z9_ 
`tab	here`
    ,
}  packet T {
    @tag(	00
)

    repeat	float

    `say ""hi""`,}/// triple
")).
Eval vm_compute in ("<<<M3606>>>" ++ check (runes_of_ascii "

  packet P1 {
	u8
	a ,
} packet
	P2  {P1 ,  }packet
    P3{ P2,

P1 , }
packet P4
{  repeat

P3,P2 ,
    } root packet
	P5 { P4,

P3 
, P1, 
u8

K

,
    match
K

    as

    Body
{

    4

    : 
P4
,	3 :
    P3  ,  2 
:
P2

    ,	1
:P1  ,
	} ,}
")).
Eval vm_compute in ("<<<M2039>>>" ++ check (runes_of_ascii "MetaData
    u { }  options {
// c
// @lengthOf(
float = int8 ;rootA =false ; As =	int16 // `tick` ""quote"" 'q'
repeatCount
    // trailing space 
    =
    int16
; u8x =
    //	t
    '\x00' ; } options	{
    repeatCount
= 0
u128
    //
    = false ; i64_")).
Eval vm_compute in ("<<<M1590>>>" ++ check (runes_of_ascii "packet
//	t
// trailing space 
_x {
// packet A { u8 x, }
// c
char[
3
    ] u8x @lengthOf(
u8x ) , @calculatedFrom(""" ++ [128512]%N ++ runes_of_ascii """ // @lengthOf(
)
i16	Foo
@lengthOf(	string_
    )`doc`	u16 repeat	i64 metadata , @lengthOf( string_
) i8 // c
u  `line1
line2`	,
}
")).
Eval vm_compute in ("<<<M1494>>>" ++ check (runes_of_ascii "packet
//	t
// trailing space 
{ _x
// packet A { u8 x, }
// c
char[
3
    ] u8x @lengthOf(
u8x ) , @calculatedFrom(""" ++ [128512]%N ++ runes_of_ascii """ // @lengthOf(
)
i16	Foo
@lengthOf(	string_
    )`doc`	, repeat	i64 metadata , @lengthOf( string_
) i8 // c
u  `line1
line2`	,
}
")).
Eval vm_compute in ("<<<M1639>>>" ++ check (runes_of_ascii "packet
//	t
// trailing space 
_x {
// packet A { u8 x, }
// c
char[
3
    ] u8x @lengthOf(
u8x ) , @calculatedFrom(""" ++ [128512]%N ++ runes_of_ascii """ // @lengthOf(
)
i16	Foo
@lengthOf(	string_
    )`doc`	, repeat	i64 metadata , @lengthOf( string_
) i8 // c
u  ,	`line1
line2`
}
")).
Eval vm_compute in ("<<<M1517>>>" ++ check (runes_of_ascii "packet
//	t
// trailing space 
_x {
// packet A { u8 x, }
// c
char[
3
    ]  @lengthOf(
u8x ) , @calculatedFrom(""" ++ [128512]%N ++ runes_of_ascii """ // @lengthOf(
)
i16	Foo
@lengthOf(	string_
    )`doc`	, repeat	i64 metadata , @lengthOf( string_
) i8 // c
u  `line1
line2`	,
}
")).
Eval vm_compute in ("<<<M2024>>>" ++ check (runes_of_ascii "MetaData
    u { }  options {
// c
// @lengthOf(
float = int8 ;rootA =false ; As =	int16 // `tick` ""quote"" 'q'
repeatCount
    // trailing space 
    =
    int16
; u8x =
    //	t
    '\x00' ; } options	{
    repeatCount
= 0
u128
    //
    =")).
Eval vm_compute in ("<<<M4577>>>" ++ check (runes_of_ascii "options{
    trueish

    =
""`tick`""string_	= 
""" ++ [233]%N ++ runes_of_ascii "t" ++ [233]%N ++ runes_of_ascii """ 
      // c

	}

    root packet
	body {

    stringy
@calculatedFrom( ""a	b""
)	`line1
line2` 
,} packet
    Logon { 
@leftPad (  ' '  ) 	 //	t
    	u16  string_ `u8 x,` 
, 
} ")).
Eval vm_compute in ("<<<M493>>>" ++ check (runes_of_ascii "options { }// a // b
packet BodyLength {zchar[
0123456789
] packetx
`doc`
, repeat
msg_type `// not a comment`
// @lengthOf(
// c
,	zchar[00 ] len, chars
@lengthOf(  chars ) `a\`	, }
MetaData
_x {	asx MetaDataX `{ , }`, }
")).
Eval vm_compute in ("<<<M4047>>>" ++ check (runes_of_ascii "packet _x {
    // packet A { u8 x, }
    // c
    char[3] u8x @lengthOf(u8x),
    @calculatedFrom(""" ++ [128512]%N ++ runes_of_ascii """)
    i16 Foo @lengthOf(string_),
    repeat i64 metadata,
    @lengthOf(string_)
    i8 u `line1
        line2`,
}")).
Eval vm_compute in ("<<<M388>>>" ++ check (runes_of_ascii "packet falsey
    //
    { @calculatedFrom( // @lengthOf(
""`tick`"" )
Pad
/// triple
// c
{
match
pack as roots { """ ++ [233]%N ++ runes_of_ascii "t" ++ [233]%N ++ runes_of_ascii """ : u ,
42: //
As""packet"" : Logon,
}
    ,}
    , } options
{ } root
    packet stringy { }")).
Eval vm_compute in ("<<<M3700>>>" ++ check (runes_of_ascii "MetaData 
lengthOf
	{
asx
x , i8
MetaDataX , string  
      /// triple
  // trailing space 

  _x
    ,
repeatCount 
Pad  ,
zchar[
	// trailing space 
		//
  	00] crc// @lengthOf(

  `two words`
,	}	//x
")).
Eval vm_compute in ("<<<M664>>>" ++ check (runes_of_ascii "root packet // `tick` ""quote"" 'q'
metadata {uint64// @lengthOf(
rootA `it's`,	}
    packet Header  {} options { Z9_// @lengthOf(
= 255 ;
    metadata = int32; trueish=' ' ;
    i64_ = '\x00' stringy= 00 }
")).
Eval vm_compute in ("<<<M1739>>>" ++ check (runes_of_ascii "options { trueish = ""`tick`"" ; string_= """ ++ [233]%N ++ runes_of_ascii "t" ++ [233]%N ++ runes_of_ascii """
    // c
    } root
    packet body [ stringy @calculatedFrom(
""a	b"" ) `line1
line2` , }
packet Logon {
    @leftPad(
    ' ' ) //	t
u16 string_ `u8 x,` ,
}
")).
Eval vm_compute in ("<<<M1744>>>" ++ check (runes_of_ascii "options { trueish = ""`tick`"" ; string_= """ ++ [233]%N ++ runes_of_ascii "t" ++ [233]%N ++ runes_of_ascii """
    // c
    } root
    packet body { repeat @calculatedFrom(
""a	b"" ) `line1
line2` , }
packet Logon {
    @leftPad(
    ' ' ) //	t
u16 string_ `u8 x,` ,
}
")).
Eval vm_compute in ("<<<M1830>>>" ++ check (runes_of_ascii "options { trueish = ""`tick`"" ; string_= """ ++ [233]%N ++ runes_of_ascii "t" ++ [233]%N ++ runes_of_ascii """
    // c
    } root
    packet body { stringy @calculatedFrom(
""a	b"" ) `line1
line2` , }
packet Logon {
    @leftPad(
    ' ' ) //	t
u16 string_ `u8 x,`")).
Eval vm_compute in ("<<<M1167>>>" ++ check (runes_of_ascii "  options { } packet Logon{} packet Foo
{
    uint8x _x // a // b
`" ++ [28040; 24687; 31867; 22411]%N ++ runes_of_ascii "` ,
    } packet
u8x	{
rootA , }
    options
    // packet A { u8 x, }
    {
msg_type = false stringy=
    ' '
    } 	 ")).
Eval vm_compute in ("<<<M1325>>>" ++ check (runes_of_ascii "//
packet x_y_z
    // `tick` ""quote"" 'q'
    {
@calculatedFrom(""x y""  )	@calculatedFrom( ""packet"" ) @calculatedFrom(""CRC32""
    ) a1 uint8x
    //
    `u8 x,`
// " ++ [128512]%N ++ runes_of_ascii " emoji
// @lengthOf(
,}
")).
Eval vm_compute in ("<<<M4024>>>" ++ check (runes_of_ascii "  packet Foo

{ }  packet

MetaDataX 
{
char[]

    Logon
    // trailing space 
    	//

  , 
}

    root 
packet 
MetaDataX
{
	match Z9_
	as zchar	{ 7
:
    zchar	,
    } ,}
")).
Eval vm_compute in ("<<<M1219>>>" ++ check (runes_of_ascii "
packet u128{@leftPad //x
( ' '
    ) @tag( 3 ) @calculatedFrom(
    /// triple
    ""abc"" ) repeat A
    ,  } packet
x {
u16 Z9_
`u8 x,` // c
, }packet	int { Logon	chars , }")).
Eval vm_compute in ("<<<M2083>>>" ++ check (runes_of_ascii "options@calculatedFrom(
_x
= true
} options
{ o	= /// triple
false
    ; chars
= ""\n"" } root packet	Pad
/// triple
// packet A { u8 x, }
{	chars
    // a // b
    ,}")).
Eval vm_compute in ("<<<M1959>>>" ++ check (runes_of_ascii "MetaData
    u { }  options {
// c
// @lengthOf(
float = int8 ;rootA =false ; As =	int16 // `tick` ""quote"" 'q'
repeatCount
    // trailing space 
    =
    int16")).
Eval vm_compute in ("<<<M455>>>" ++ check (runes_of_ascii "root packet
repeatCount {  }
    MetaData // a // b
crc
{
float32 x ,	float64 falsey `
` , //x
u32 //
f32a`" ++ [233]%N ++ runes_of_ascii "` ,uint16 MetaDataX
,
}options	{ len
= 10
    }
")).
Eval vm_compute in ("<<<M58>>>" ++ check (runes_of_ascii "root packet chars { /// triple
int16 trueish	@lengthOf( MetaDataX)
`tab	here`,} MetaData
T
// a // b
// c
{
    int64 packetx `doc`
    // @lengthOf(
    ,}")).
Eval vm_compute in ("<<<M2410>>>" ++ check (runes_of_ascii "// c
packet x { @lengthOf( metadata ) repeat lengthOf
,a1{
trueish	?,// c
repeat//	t
MetaDataX , } , zchar[
    42	] rootA // `tick` ""quote"" 'q'
,
    }
")).
Eval vm_compute in ("<<<M2397>>>" ++ check (runes_of_ascii "// c
packet x { @lengthOf( metadata ) repeat lengthOf
,a1{
trueish	,// c
repeat//	t
MetaDataX , } , zchar[
    42	] rootA // `tick` ""quote"" 'q'
}
    ,
")).
Eval vm_compute in ("<<<M4164>>>" ++ check (runes_of_ascii "packet metadata {
    Logon {
        // c4
        A `" ++ [28040; 24687; 31867; 22411]%N ++ runes_of_ascii "`,// c7a
        // c7b
        tag o,// c10a
    },// c12
    zchar len `// not a comment`,
}")).
Eval vm_compute in ("<<<M2373>>>" ++ check (runes_of_ascii "// c
packet x { @lengthOf( metadata ) repeat lengthOf
,a1{
trueish	,// c
repeat//	t
MetaDataX , } , zchar[
    	] rootA // `tick` ""quote"" 'q'
,
    }
")).
Eval vm_compute in ("<<<M1286>>>" ++ check (runes_of_ascii "
packet u { repeat char[// " ++ [27880; 37322]%N ++ runes_of_ascii "
10] crc
, repeat string x  ,  match
//	t
//
charz as
    tag{
007 :
options1
    , } ,Packet @lengthOf(trueish
) ,
}")).
Eval vm_compute in ("<<<M1790>>>" ++ check (runes_of_ascii "options { trueish = ""`tick`"" ; string_= """ ++ [233]%N ++ runes_of_ascii "t" ++ [233]%N ++ runes_of_ascii """
    // c
    } root
    packet body { stringy @calculatedFrom(
""a	b"" ) `line1
line2` , }
packet Logon")).
Eval vm_compute in ("<<<M1571>>>" ++ check (runes_of_ascii "packet
//	t
// trailing space 
_x {
// packet A { u8 x, }
// c
char[
3
    ] u8x @lengthOf(
u8x ) , @calculatedFrom(""" ++ [128512]%N ++ runes_of_ascii """ // @lengthOf(
)
i16	Foo")).
Eval vm_compute in ("<<<M3941>>>" ++ check (runes_of_ascii "

  packet	A  { u8

a,
} packet 
B 
{	u16
b	,
	}
root

packet

    P  {
u8
K
, match K

    as
    M  {1
	:A

    ,1

:  B ,
}
,
	}")).
Eval vm_compute in ("<<<M1418>>>" ++ check (runes_of_ascii "
packet
    falsey { Header@calculatedFrom( @calculatedFrom(""packet""  ) , char[
    0123456789 ] packetx
    , } // `tick` ""quote"" 'q'")).
Eval vm_compute in ("<<<M4188>>>" ++ check (runes_of_ascii "
options  {
    options1
    =uint64
;

} root packet /// triple
T {

MetaDataX  //x
		`// not a comment` ,}
packet
    crc { }
")).
Eval vm_compute in ("<<<M935>>>" ++ check (runes_of_ascii "options	{ // " ++ [27880; 37322]%N ++ runes_of_ascii "
zchar=	zchar[ 7
]	;
    asx = 10 ;
zchar
    = ""a\\"" ; float = 10
Logon
= '0';
    }MetaData	crc {
    }
")).
Eval vm_compute in ("<<<M3359>>>" ++ check (runes_of_ascii "root packet matchKey { zchar[ 3 ] pack @calculatedFrom( ""a	b"" ) `doc` , } options { } MetaData A { int8 msg_type , }
// c
")).
Eval vm_compute in ("<<<M3331>>>" ++ check (runes_of_ascii "root packet matchKey { zchar[ 3 ] pack @calculatedFrom( ""a	b""
// c
) `doc` , } options { } MetaData A { int8 msg_type , }")).
Eval vm_compute in ("<<<M3871>>>" ++ check (runes_of_ascii "root packet matchKey {
    zchar[3] pack @calculatedFrom(""a	b"") `doc`,
}

options {
}

MetaData A {
    int8 msg_type,
}")).
Eval vm_compute in ("<<<M3918>>>" ++ check (runes_of_ascii "packet Z9_ {
}

MetaData falsey {
    string len `tab	here`,
    i32 asx,
    uint8 pack,
}

options {
    _x = true
}")).
Eval vm_compute in ("<<<M1432>>>" ++ check (runes_of_ascii "
packet
    falsey { Header@calculatedFrom(""packet""  )  char[
    0123456789 ] packetx
    , } // `tick` ""quote"" 'q'")).
Eval vm_compute in ("<<<M4592>>>" ++ check (runes_of_ascii "options {
}

packet As {
    f32 int @calculatedFrom(""{,}""),
    u8 packetx,
    u128 len,
}

packet options1 {
}")).
Eval vm_compute in ("<<<M1425>>>" ++ check (runes_of_ascii "
packet
    falsey { Header@calculatedFrom(,  ) , char[
    0123456789 ] packetx
    , } // `tick` ""quote"" 'q'")).
Eval vm_compute in ("<<<M1442>>>" ++ check (runes_of_ascii "
packet
    falsey { Header@calculatedFrom(""packet""  ) , char[
     ] packetx
    , } // `tick` ""quote"" 'q'")).
Eval vm_compute in ("<<<M3930>>>" ++ check (runes_of_ascii "packet metadata {
    Logon {
        A `" ++ [28040; 24687; 31867; 22411]%N ++ runes_of_ascii "`,
        tag o,
    },
    zchar len `// not a comment`,
}")).
Eval vm_compute in ("<<<M838>>>" ++ check (runes_of_ascii "options{ x_y_z = ""CRC32"" ;
} MetaData
matchKey { char[] u `u8 x,` , // trailing space 
}options {}
")).
Eval vm_compute in ("<<<M2367>>>" ++ check (runes_of_ascii "// c
packet x { @lengthOf( metadata ) repeat lengthOf
,a1{
trueish	,// c
repeat//	t
MetaDataX , }")).
Eval vm_compute in ("<<<M3855>>>" ++ check (runes_of_ascii "MetaData tag {
    char[3] u8x,
    packetx a1,
}

MetaData chars {
    i16 uint8x `tab	here`,
}")).
Eval vm_compute in ("<<<M1465>>>" ++ check (runes_of_ascii "
packet
    falsey { Header@calculatedFrom(""packet""  ) , char[
    0123456789 ] packetx
    ,")).
Eval vm_compute in ("<<<M3538>>>" ++ check (runes_of_ascii "packet Inner

{u8

a , }	root packet
	P
	{ repeat

    Inner items , u8
    x

    , 
}")).
Eval vm_compute in ("<<<M2962>>>" ++ check (runes_of_ascii "packet A {
  match k as n {
    [1, 22, 007, 4, 5, 66, 7, 8, 9, 10] : B,
    2 : C
  },
}")).
Eval vm_compute in ("<<<M3299>>>" ++ check (runes_of_ascii "MetaData float { float64 charz `
` , } root packet chars { @rightPad ( '0' ) // c
Foo , }")).
Eval vm_compute in ("<<<M3510>>>" ++ check (runes_of_ascii "packet chars { } packet MetaDataX { @tag( 42 ) i16 string_ ,
// c
repeat x `say ""hi""` , }")).
Eval vm_compute in ("<<<M3687>>>" ++ check (runes_of_ascii "

  packet A

    {

match 
k
	as n 
{1  :
    B
2
    :  C""s""

: D[
1] : E
}  ,	}
")).
Eval vm_compute in ("<<<M129>>>" ++ check (runes_of_ascii "MetaData
    charz { } packet
    // " ++ [27880; 37322]%N ++ runes_of_ascii "
    matchKey {
    a1
    repeatCount
    , }
")).
Eval vm_compute in ("<<<M3217>>>" ++ check (runes_of_ascii "packet metadata { // c
Logon { A `" ++ [28040; 24687; 31867; 22411]%N ++ runes_of_ascii "` , tag o , } , zchar len `// not a comment` , }")).
Eval vm_compute in ("<<<M3466>>>" ++ check (runes_of_ascii "packet o { repeat Logon uint8x , } options { asx = zchar[ 3 ] stringy = '\x00' }
// c
")).
Eval vm_compute in ("<<<M3437>>>" ++ check (runes_of_ascii "packet o { repeat Logon // c
uint8x , } options { asx = zchar[ 3 ] stringy = '\x00' }")).
Eval vm_compute in ("<<<M1397>>>" ++ check (runes_of_ascii "root packet SimpleMessage {
	uint16 MsgType `" ++ [28040; 24687; 31867; 22411]%N ++ runes_of_ascii "`,
	string JsonBody `Json" ++ [23383; 31526; 20018; 28040; 24687; 20307]%N ++ runes_of_ascii "`,
}")).
Eval vm_compute in ("<<<M4579>>>" ++ check (runes_of_ascii "packet A {
    match k as n {
        [22, ""a"", ""c c""] : B,
        2 : C,
    },
}")).
Eval vm_compute in ("<<<M3414>>>" ++ check (runes_of_ascii "MetaData body { i64 pack `it's` , } packet stringy { // c
int16 calculatedFrom , }")).
Eval vm_compute in ("<<<M3178>>>" ++ check (runes_of_ascii "packet A { u16 // a
 len // b
 @lengthOf( // c
 body // d
 ) // e
 `d` // f
 , }")).
Eval vm_compute in ("<<<M1929>>>" ++ check (runes_of_ascii "MetaData
    u { }  options {
// c
// @lengthOf(
float = int8 ;rootA =false ;")).
Eval vm_compute in ("<<<M3759>>>" ++ check (runes_of_ascii "packet i64_ {
}

options {
}

options {
    MetaDataX = ""CRC32""
}// a // b")).
Eval vm_compute in ("<<<M2898>>>" ++ check (runes_of_ascii "packet A {
  match k as n {
    [1, 22, 007, 4, 5] : B
    2 : C
  },
}")).
Eval vm_compute in ("<<<M1914>>>" ++ check (runes_of_ascii "MetaData
    u { }  options {
// c
// @lengthOf(
float = int8 ;rootA")).
Eval vm_compute in ("<<<M3884>>>" ++ check (runes_of_ascii "
packet
Header

    {  i32
	float
,

} // `tick` ""quote"" 'q'
 
")).
Eval vm_compute in ("<<<M1205>>>" ++ check (runes_of_ascii "MetaData stringy{ zchar[ 007 ] body /// triple
`tab	here` , }
")).
Eval vm_compute in ("<<<M2862>>>" ++ check (runes_of_ascii "packet A {
  match k as n {
    [1, 22] : B,
    2 : C
  },
}")).
Eval vm_compute in ("<<<M2606>>>" ++ check (runes_of_ascii "packet A { match k as n { 1 : B 2 : C ""s"" : D [1] : E }, }")).
Eval vm_compute in ("<<<M4148>>>" ++ check (runes_of_ascii "// packet A { u8 x, }
MetaData MetaDataX {
    u8 roots,
}")).
Eval vm_compute in ("<<<M444>>>" ++ check (runes_of_ascii "// trailing space 
options{	tag =""1""	; } // @lengthOf(")).
Eval vm_compute in ("<<<M583>>>" ++ check (runes_of_ascii "options {Packet =
    255 ; f32a
    = '0'
T= '0' }")).
Eval vm_compute in ("<<<M3157>>>" ++ check (runes_of_ascii "packet A {} packet B {} MetaData M {} options {}")).
Eval vm_compute in ("<<<M4196>>>" ++ check (runes_of_ascii "options {
    a = ""\
    "";
    b = ""\
    ""
}")).
Eval vm_compute in ("<<<M4434>>>" ++ check (runes_of_ascii "options {
    Packet = 0
    trueish = i8;
}")).
Eval vm_compute in ("<<<M139>>>" ++ check (runes_of_ascii "MetaData
packetx {  zchar[7
]u128 , }
")).
Eval vm_compute in ("<<<M3198>>>" ++ check (runes_of_ascii "root packet u128 { chars
// c
`it's` , }")).
Eval vm_compute in ("<<<M3151>>>" ++ check (runes_of_ascii "packet A {    u8 x, // c    u8 y,}")).
Eval vm_compute in ("<<<M3165>>>" ++ check (runes_of_ascii "options { a = 1; // a
 b = 2 // b
 }")).
Eval vm_compute in ("<<<M459>>>" ++ check (runes_of_ascii "  MetaData a1 {
    u64 packetx ,}")).
Eval vm_compute in ("<<<M2774>>>" ++ check (runes_of_ascii "= @calculatedFrom( i16 true char[")).
Eval vm_compute in ("<<<M773>>>" ++ check (runes_of_ascii "MetaData T{
int64	i8i8 `` , }

")).
Eval vm_compute in ("<<<M3092>>>" ++ check (runes_of_ascii "packet A {
 u8 x `d" ++ [8202]%N ++ runes_of_ascii "`, // c" ++ [8202]%N ++ runes_of_ascii "
}")).
Eval vm_compute in ("<<<M2590>>>" ++ check (runes_of_ascii "packet A { x @lengthOf(3), }")).
Eval vm_compute in ("<<<M792>>>" ++ check (runes_of_ascii "options { pack= int32 ;}
")).
Eval vm_compute in ("<<<M3254>>>" ++ check (runes_of_ascii "root // c
packet pack { }")).
Eval vm_compute in ("<<<M1288>>>" ++ check (runes_of_ascii "packet
falsey
    { }
")).
Eval vm_compute in ("<<<M2849>>>" ++ check (runes_of_ascii "z0`2w_O`%NxUiI'L*8[s/")).
Eval vm_compute in ("<<<M393>>>" ++ check (runes_of_ascii " // trailing space ")).
Eval vm_compute in ("<<<M3861>>>" ++ check (runes_of_ascii "root packet Z9_ {
}")).
Eval vm_compute in ("<<<M3096>>>" ++ check (runes_of_ascii "// c" ++ [8232]%N ++ runes_of_ascii "
packet A {
}")).
Eval vm_compute in ("<<<M2633>>>" ++ check (runes_of_ascii "packet A { } root")).
Eval vm_compute in ("<<<M1019>>>" ++ check (runes_of_ascii "
MetaData T { }
")).
Eval vm_compute in ("<<<M2723>>>" ++ check (runes_of_ascii "@tag( char[ as")).
Eval vm_compute in ("<<<M409>>>" ++ check (runes_of_ascii "// " ++ [128512]%N ++ runes_of_ascii " emoji
")).
Eval vm_compute in ("<<<M2784>>>" ++ check (runes_of_ascii "drJtYG.{8")).
Eval vm_compute in ("<<<M2468>>>" ++ check (runes_of_ascii "matches")).
Eval vm_compute in ("<<<M286>>>" ++ check (runes_of_ascii " //	t")).
Eval vm_compute in ("<<<M3104>>>" ++ check (runes_of_ascii "// c" ++ [8239]%N)).
Eval vm_compute in ("<<<M2547>>>" ++ check (runes_of_ascii "a
b")).
Eval vm_compute in ("<<<M2549>>>" ++ check (runes_of_ascii "a" ++ [11]%N ++ runes_of_ascii "b")).
Eval vm_compute in ("<<<M2684>>>" ++ check (runes_of_ascii "		")).
