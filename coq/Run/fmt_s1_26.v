From FP Require Import Lexer Parser ShowPT Digest Formatter.
From Coq Require Import String List NArith.
Import ListNotations.
Open Scope string_scope.
Set Printing Width 100000000.
Set Printing Depth 100000000.
Definition show_fres (r : fres) : string :=
  match r with
  | FOk s => "OK:" ++ sh_escaped s ""
  | FErr s => "ERR:" ++ sh_escaped s ""
  | FPanic p => "PANIC:" ++ p
  end.
Definition check (rs : list rune) : string := digest (show_fres (format_res rs)).
Definition full (rs : list rune) : string := show_fres (format_res rs).
Eval vm_compute in ("<<<M1551>>>" ++ check (runes_of_ascii "// top
options // c0a
  // c0b
{ // c1
LittleEndian
    // c2
=
    // c3
false // c4a
  // c4b
; // c5a
  // c5b
StringPrefixLenType
    // c6
= u8
    // c8
; // c9a
  // c9b
ArrayPrefixLenType
    // c10
= // c11a
  // c11b
u8 ; // c13a
  // c13b
FixedStringPadFromLeft // c14a
  // c14b
= // c15a
  // c15b
true ;
    // c17
FixedStringPadChar // c18a
  // c18b
=
    // c19
' ' ;
    // c21
} // c22a
  // c22b
packet
    // c23
Trade
    // c24
{ // c25a
  // c25b
zchar[ 2
    // c27
] Side2 // c29a
  // c29b
, i8 // c31
seqNo ,
    // c33
} // c34
packet
    // c35
Party // c36
{ // c37
uint32 // c38
price ,
    // c40
}
    // c41
packet
    // c42
Ack { // c44
@rightPad // c45a
  // c45b
(
    // c46
'\x00'
    // c47
) // c48
char[ // c49
6
    // c50
]
    // c51
x // c52a
  // c52b
, // c53
repeat
    // c54
char[ // c55
4 ] Flags // c58a
  // c58b
, // c59a
  // c59b
zchar[
    // c60
9 // c61
] // c62
f1 // c63
,
    // c64
} packet
    // c66
Cancel // c67a
  // c67b
{ Ack
    // c69
, // c70
} packet // c72a
  // c72b
Heartbeat // c73a
  // c73b
{ string
    // c75
Px // c76
, string // c78
Acct
    // c79
, f64 // c81
Side2 , InQty24 // c84a
  // c84b
{ // c85
i16 seqNo , repeat
    // c89
i32 // c90a
  // c90b
Flags
    // c91
, // c92
} , // c94
}
    // c95
root
    // c96
packet // c97
Logon // c98a
  // c98b
{ // c99a
  // c99b
Trade // c100a
  // c100b
,
    // c101
i64 venue // c103a
  // c103b
,
    // c104
u32
    // c105
x // c106a
  // c106b
,
    // c107
u8 seqNo , // c110a
  // c110b
match // c111a
  // c111b
seqNo // c112
as // c113a
  // c113b
Body // c114
{
    // c115
[ // c116
1 // c117
,
    // c118
164 // c119
]
    // c120
: Ack , 31 : // c125a
  // c125b
Cancel // c126a
  // c126b
, // c127a
  // c127b
23 : Heartbeat
    // c130
,
    // c131
64 // c132a
  // c132b
: Party // c134
,
    // c135
}
    // c136
, }
    // c138
")).
Eval vm_compute in ("<<<M1558>>>" ++ check (runes_of_ascii "// top
options // c0a
  // c0b
{ // c1
LittleEndian // c2a
  // c2b
= // c3
false // c4a
  // c4b
; // c5
ArrayPrefixLenType // c6
= // c7
u8 ; // c9
FixedStringPadChar // c10a
  // c10b
=
    // c11
'0' // c12
;
    // c13
}
    // c14
packet Order // c16a
  // c16b
{ // c17
InNote94 // c18a
  // c18b
{ f32 f1 // c21
, f64 // c23a
  // c23b
Side2 ,
    // c25
repeat InTail47 { // c28a
  // c28b
char[]
    // c29
seqNo // c30a
  // c30b
,
    // c31
char[] // c32a
  // c32b
Tail , // c34a
  // c34b
char[] // c35
lastPx , // c37a
  // c37b
}
    // c38
, // c39a
  // c39b
} , // c41a
  // c41b
zchar[
    // c42
7
    // c43
]
    // c44
f1
    // c45
, u8 // c47a
  // c47b
Side2
    // c48
, // c49a
  // c49b
} // c50
root packet // c52a
  // c52b
Reject
    // c53
{ repeat // c55a
  // c55b
char[ // c56
4 // c57
] // c58
Flags , // c60a
  // c60b
InPrice63 // c61
{ InSeqno41 // c63
{ // c64a
  // c64b
repeat
    // c65
i8 OrderId // c67a
  // c67b
, // c68a
  // c68b
repeat // c69
i32
    // c70
clOrdID // c71
, // c72
char[ // c73
9
    // c74
]
    // c75
tag7
    // c76
, // c77a
  // c77b
char[] // c78a
  // c78b
lastPx // c79a
  // c79b
,
    // c80
} // c81
, // c82
Order
    // c83
, uint8 Side2 , // c87a
  // c87b
}
    // c88
, // c89a
  // c89b
} ")).
Eval vm_compute in ("<<<M358>>>" ++ check (runes_of_ascii "packet	matchKey { } packet rootA {} root packet lengthOf { // trailing space 
@tag(
0 //x
)uint16 repeatCount
    , //x
uint32 rootA @calculatedFrom(""it's""
// packet A { u8 x, }
// `tick` ""quote"" 'q'
)
,
//	t
// a // b
string uint8x /// triple
,  u128@calculatedFrom(
""" ++ [28040; 24687]%N ++ runes_of_ascii """ ) ,@leftPad
( '\x00' ) u  `a\` , @leftPad( ' ' ) @calculatedFrom(
""1"" ) @lengthOf( int )match msg_type
// " ++ [128512]%N ++ runes_of_ascii " emoji
// a // b
as Pad{
""abc""// " ++ [27880; 37322]%N ++ runes_of_ascii "
: asx }
    , options1 {
    char[]  metadata // trailing space 
, Logon@lengthOf( zchar ) , repeatCount {
zchar[255 ] tag
    ,x_y_z msg_type,// `tick` ""quote"" 'q'
pack, MetaDataX @lengthOf(  falsey )
    , }
, zchar  @lengthOf( Header  )
,  } ,@tag( 42 ) char[
    007 ] i64_
,
// trailing space 
//	t
@lengthOf( As
) match crc  as/// triple
MetaDataX {65535 :leftPad
""a\""b"" : BodyLength , 42:	crc
    ,
    // " ++ [27880; 37322]%N ++ runes_of_ascii "
    0123456789: body , ""abc""
:	stringy
,	""CRC32"":
    x_y_z,} ,
    //
    int32 Header @lengthOf(
// @lengthOf(
//
asx // " ++ [27880; 37322]%N ++ runes_of_ascii "
) , } packet packetx
{	}root packet
float//	t
{ @tag( 1 ) @lengthOf(
_x) @leftPad ( '0'
    )
repeat // c
i64_ ,}
")).
Eval vm_compute in ("<<<M196>>>" ++ check (runes_of_ascii "/// triple
MetaData roots
    { string
Z9_ `say ""hi""`
    //
    ,o
    tag ,char[4294967296 // " ++ [128512]%N ++ runes_of_ascii " emoji
] body `crlf
line`
,
    _x lengthOf `tab	here` , } options { repeatCount	= ""x y"" ; T = """ ++ [28040; 24687]%N ++ runes_of_ascii """ }
    /// triple
    packet int{ @calculatedFrom( ""CRC32"" )int64 f32a, roots @calculatedFrom( ""it's"" )`` ,@calculatedFrom(""a\\"" )@tag( 007 ) char[ 255//	t
] crc @lengthOf(packetx )
    ,
match
    Pad as string_ { [""\" ++ [233]%N ++ runes_of_ascii """,3
    // " ++ [27880; 37322]%N ++ runes_of_ascii "
    ] : lengthOf  ,[ 42
    ]:
// packet A { u8 x, }
// packet A { u8 x, }
body ,
7 : i8i8
    ,0123456789:
options1
,//x
[ 00 ] : Z9_ ,  }// @lengthOf(
,float
,// " ++ [27880; 37322]%N ++ runes_of_ascii "
} MetaData zchar
    {
    zchar[
3 ]
    options1
    `line1
line2` ,}  packet asx
{ zchar[
    42// " ++ [128512]%N ++ runes_of_ascii " emoji
]
falsey ,	@calculatedFrom(
""1""
)
repeat string As `" ++ [233]%N ++ runes_of_ascii "`, char[] trueish
    , int32 Header , repeat  stringy
`crlf
line`, string
x_y_z,
f64 T
//x
// `tick` ""quote"" 'q'
, uint8x
@lengthOf( charz
)
    `a\` , }")).
Eval vm_compute in ("<<<M1587>>>" ++ check (runes_of_ascii "  packet
	Packet {  @tag(	65535)

    @leftPad

    (

    ' '  )@tag(

255
    /// triple
  ) uint8  len @lengthOf( 
T

)

    ,
int32 u8x ,@lengthOf( rootA) float32

    i64_
    `u8 x,`  ,} packet  // c
  int
	{
	repeat i8i8
    {  lengthOf

@lengthOf(
int
) 
`line1
line2`,  string falsey`
` ,

    uint16 
    // `tick` ""quote"" 'q'
// trailing space 
    roots	@lengthOf(charz)
    ,

    } ,
	} options

{Foo=  ' '
    len
= """ ++ [128512]%N ++ runes_of_ascii """ 
; 
chars
=
    u64
; 
	//x
//
  uint8x // a // b

=

""" ++ [128512]%N ++ runes_of_ascii """
    // trailing space 

	;
metadata
    = ' '

;
    }
        // " ++ [27880; 37322]%N ++ runes_of_ascii "
	MetaData  Header 
	    // " ++ [27880; 37322]%N ++ runes_of_ascii "
	{

    i16 
matchKey
	,  Packet

    Packet `u8 x,`
,
    }packet

    u128  {	uint8x 
@lengthOf(	charz  ) 
`u8 x,` ,

    }
")).
Eval vm_compute in ("<<<M1983>>>" ++ check (runes_of_ascii "// trailing space 
packet tag {
    @rightPad('0')
    u128,
    @lengthOf(MetaDataX)
    // c
    leftPad,// packet A { u8 x, }
    @tag(1)
    calculatedFrom @lengthOf(Logon),
}

packet string_ {
}

packet u128 {
    char[0] chars `say ""hi""`,
    int,
    @leftPad('0')
    T {
        repeat zchar[255] int,
        zchar stringy,
    },
    repeat zchar {
        match leftPad as packetx {
            [""`tick`""] : lengthOf,
            [7, """ ++ [128512]%N ++ runes_of_ascii """, 00, ""x y"", ""packet""] : stringy,
            [42, ""\n"", ""it's"", 65535, 1] : msg_type,
            ""packet"" : a1,
        },
        u16 int,
        repeat x_y_z float,
        repeat u64 A `a\`,
    },
}")).
Eval vm_compute in ("<<<M2047>>>" ++ check (runes_of_ascii "  // top
options
// c0
	{  charz  // c2
	=  // c3a
// c3b
  	f64 	 // c4a
    // c4b
    ;	// c5a
	// c5b
  	metadata =	// c7
	  7 	 // c8a
    	// c8b
		; // c9a
    // c9b
    }  // c10
  	options
// c11
  { 

    // c12
      u128 	 // c13
= 

    // c14

  10 	 // c15
    options1  // c16
=  // c17
    true 
	// c18
	;
    zchar	// c20
	=

    // c21
    uint16
// c22
	; 
lengthOf 

    // c24
	= 
      // c25
	true 
    // c26

; 

    // c27
	}	// c28a
	// c28b
	options  // c29
	{
        // c30
    len

    =	// c32
		1

// c33
  }
// c34")).
Eval vm_compute in ("<<<M2123>>>" ++ check (runes_of_ascii "options {
    falsey = ""abc"";
    roots = '0';
    MetaDataX = '0';//
    crc = 42// a // b
    x = '0';
}

packet A {
    repeat uint64 u128,
    @tag(65535)
    int16 options1 `line1
        line2`,
}

options {
    // packet A { u8 x, }
    int = ""// no comment""
    msg_type = zchar[0123456789];
    calculatedFrom = u8;
    asx = """ ++ [28040; 24687]%N ++ runes_of_ascii """;
    body = 10
}

options {
    charz = true
    metadata = char[];
    Packet = true
}

packet Logon {
    @calculatedFrom(""" ++ [128512]%N ++ runes_of_ascii """)
    repeat packetx rootA,
}")).
Eval vm_compute in ("<<<M2053>>>" ++ check (runes_of_ascii "
packet Frame {

u8  HK

    ,	u8

    BK
    , u8 
TK	,	match HK
as
    Hdr

    {1  :HdrA, 2 :
	HdrB	, 
} ,
match BK  as
Body 
{
	1: 
BodyA	, 2
:BodyB
    , }
	,match
    TK
	as	Trl{

    1 : TrlA ,

    } , } packet HdrA 
{
	u8

a , } 
packet HdrB {	u16	b	,
} packet
    BodyA {
	u32 c
,
}
packet
BodyB

{
u64 
d
    ,  }

    packet TrlA{

    u8 e ,
}
    root packet

    Msg 
{Frame

,
u8
	x

, 
}
")).
Eval vm_compute in ("<<<M98>>>" ++ check (runes_of_ascii "packet// a // b
stringy  {
    Logon { match
    string_ as
    i64_
{ ""x y"":
string_
    ,
// " ++ [27880; 37322]%N ++ runes_of_ascii "
// `tick` ""quote"" 'q'
""`tick`"" : string_
,  1// " ++ [27880; 37322]%N ++ runes_of_ascii "
:
/// triple
// c
float , [ ""1""
    ] :
options1
    // " ++ [27880; 37322]%N ++ runes_of_ascii "
    ,} , zchar[1 ] crc@calculatedFrom( """") `two words` , f32a , float32 lengthOf ,
}
, @tag(255) u8x @calculatedFrom( // packet A { u8 x, }
""abc""
) `a\` , }
")).
Eval vm_compute in ("<<<M347>>>" ++ check (runes_of_ascii "packet  f32a { }packet
metadata
{
@calculatedFrom(
""\" ++ [233]%N ++ runes_of_ascii """
) repeat _x { string
    // a // b
    falsey , } ,
@calculatedFrom( ""it's"" ) As leftPad `a\`
,	@calculatedFrom( ""abc""
) char[ //	t
0 ]roots	,  @tag(
    00 )match Pad as	roots
{ 10 :x_y_z , 00 :  len [ ""// no comment""	]// a // b
:  T }
    , a1 Header `" ++ [233]%N ++ runes_of_ascii "`
, // " ++ [27880; 37322]%N ++ runes_of_ascii "
}")).
Eval vm_compute in ("<<<M305>>>" ++ check (runes_of_ascii "options
{
}
root
    // a // b
    packet x //	t
{ match
    len as x{ [	7 , 42 ,	007 , //x
255 // trailing space 
, ""// no comment""
// `tick` ""quote"" 'q'
// " ++ [128512]%N ++ runes_of_ascii " emoji
]:x_y_z, ""`tick`"" : u128
, 3 : string_
    /// triple
    ,
[	""CRC32""  ] : trueish ,4294967296 :Foo ,
[ 0 ]
: lengthOf } , }")).
Eval vm_compute in ("<<<M496>>>" ++ check (runes_of_ascii "root packet tag float64 }  packet MetaDataX{char[007	]
// c
/// triple
asx  @calculatedFrom( ""a\""b""
) `say ""hi""`// " ++ [27880; 37322]%N ++ runes_of_ascii "
,  @tag(4294967296 )
    char[1//x
] packetx @calculatedFrom(""a\""b""
    ) ,
// " ++ [128512]%N ++ runes_of_ascii " emoji
// a // b
@calculatedFrom(""" ++ [233]%N ++ runes_of_ascii "t" ++ [233]%N ++ runes_of_ascii """  ) repeat pack // " ++ [27880; 37322]%N ++ runes_of_ascii "
,
    } // c")).
Eval vm_compute in ("<<<M514>>>" ++ check (runes_of_ascii "root packet tag { }  packet MetaDataX{ {char[007	]
// c
/// triple
asx  @calculatedFrom( ""a\""b""
) `say ""hi""`// " ++ [27880; 37322]%N ++ runes_of_ascii "
,  @tag(4294967296 )
    char[1//x
] packetx @calculatedFrom(""a\""b""
    ) ,
// " ++ [128512]%N ++ runes_of_ascii " emoji
// a // b
@calculatedFrom(""" ++ [233]%N ++ runes_of_ascii "t" ++ [233]%N ++ runes_of_ascii """  ) repeat pack // " ++ [27880; 37322]%N ++ runes_of_ascii "
,
    } // c")).
Eval vm_compute in ("<<<M660>>>" ++ check (runes_of_ascii "root packet tag { }  packet MetaDataX{char[007	]
// c
/// triple
asx  @calculatedFrom( ""a\""b""
) `say ""h$i""`// " ++ [27880; 37322]%N ++ runes_of_ascii "
,  @tag(4294967296 )
    char[1//x
] packetx @calculatedFrom(""a\""b""
    ) ,
// " ++ [128512]%N ++ runes_of_ascii " emoji
// a // b
@calculatedFrom(""" ++ [233]%N ++ runes_of_ascii "t" ++ [233]%N ++ runes_of_ascii """  ) repeat pack // " ++ [27880; 37322]%N ++ runes_of_ascii "
,
    } // c")).
Eval vm_compute in ("<<<M610>>>" ++ check (runes_of_ascii "root packet tag { }  packet MetaDataX{char[007	]
// c
/// triple
asx  @calculatedFrom( ""a\""b""
) `say ""hi""`// " ++ [27880; 37322]%N ++ runes_of_ascii "
,  @tag(4294967296 )
    char[1//x
] packetx @calculatedFrom(""a\""b""
    , )
// " ++ [128512]%N ++ runes_of_ascii " emoji
// a // b
@calculatedFrom(""" ++ [233]%N ++ runes_of_ascii "t" ++ [233]%N ++ runes_of_ascii """  ) repeat pack // " ++ [27880; 37322]%N ++ runes_of_ascii "
,
    } // c")).
Eval vm_compute in ("<<<M1993>>>" ++ check (runes_of_ascii "  // top
	  packet// c0
  o	// c1

{ // c2
  repeat 	 // c3
  Logon  // c4

  uint8x// c5
	  ,// c6

  }  // c7
    	options // c8
	  {	// c9
      asx	// c10
	= 	 // c11

zchar[	// c12
3// c13
]// c14
stringy 	 // c15

=  // c16
  '\x00' // c17
  	}  // c18
")).
Eval vm_compute in ("<<<M553>>>" ++ check (runes_of_ascii "root packet tag { }  packet MetaDataX{char[007	]
// c
/// triple
asx  @calculatedFrom( ""a\""b""
) // " ++ [27880; 37322]%N ++ runes_of_ascii "
,  @tag(4294967296 )
    char[1//x
] packetx @calculatedFrom(""a\""b""
    ) ,
// " ++ [128512]%N ++ runes_of_ascii " emoji
// a // b
@calculatedFrom(""" ++ [233]%N ++ runes_of_ascii "t" ++ [233]%N ++ runes_of_ascii """  ) repeat pack // " ++ [27880; 37322]%N ++ runes_of_ascii "
,
    } // c")).
Eval vm_compute in ("<<<M632>>>" ++ check (runes_of_ascii "root packet tag { }  packet MetaDataX{char[007	]
// c
/// triple
asx  @calculatedFrom( ""a\""b""
) `say ""hi""`// " ++ [27880; 37322]%N ++ runes_of_ascii "
,  @tag(4294967296 )
    char[1//x
] packetx @calculatedFrom(""a\""b""
    ) ,
// " ++ [128512]%N ++ runes_of_ascii " emoji
// a // b
@calculatedFrom(""" ++ [233]%N ++ runes_of_ascii "t" ++ [233]%N ++ runes_of_ascii """")).
Eval vm_compute in ("<<<M1865>>>" ++ check (runes_of_ascii "

  MetaData

lengthOf {char[  0123456789

]  calculatedFrom
, char[
    0

    ]
options1	,} MetaData
repeatCount

{ // packet A { u8 x, }
  	u64
	len ,

stringy
	x_y_z 
`it's`// a // b
  ,f32
    As , }
")).
Eval vm_compute in ("<<<M622>>>" ++ check (runes_of_ascii "root packet tag { }  packet MetaDataX{char[007	]
// c
/// triple
asx  @calculatedFrom( ""a\""b""
) `say ""hi""`// " ++ [27880; 37322]%N ++ runes_of_ascii "
,  @tag(4294967296 )
    char[1//x
] packetx @calculatedFrom(""a\""b""
    ) ,")).
Eval vm_compute in ("<<<M470>>>" ++ check (runes_of_ascii "packet
    // `tick` ""quote"" 'q'
    crc
// packet A { u8 x, }
//	t
{
u32 a1 ,
    // trailing space 
    roots
charz //
`two words`,	}
    MetaData int {
} /// triple@leftpad")).
Eval vm_compute in ("<<<M417>>>" ++ check (runes_of_ascii "packet
    // `tick` ""quote"" 'q'
    crc
// packet A { u8 x, }
//	t
{
u32 a1 ,
    // trailing space 
    float32
charz //
`two words`,	}
    MetaData int {
} /// triple")).
Eval vm_compute in ("<<<M387>>>" ++ check (runes_of_ascii "crc
    // `tick` ""quote"" 'q'
    packet
// packet A { u8 x, }
//	t
{
u32 a1 ,
    // trailing space 
    roots
charz //
`two words`,	}
    MetaData int {
} /// triple")).
Eval vm_compute in ("<<<M394>>>" ++ check (runes_of_ascii "packet
    // `tick` ""quote"" 'q'
    crc
// packet A { u8 x, }
//	t

u32 a1 ,
    // trailing space 
    roots
charz //
`two words`,	}
    MetaData int {
} /// triple")).
Eval vm_compute in ("<<<M2074>>>" ++ check (runes_of_ascii "packet A {
    match k as n {
        [
            1, ""bb"", 007, ""d"", 5,
            ""f"", 7, ""h"", 9, ""j"",
            11, ""l""
        ] : B,
        2 : C,
    },
}")).
Eval vm_compute in ("<<<M457>>>" ++ check (runes_of_ascii "packet
    // `tick` ""quote"" 'q'
    crc
// packet A { u8 x, }
//	t
{
u32 a1 ,
    // trailing space 
    roots
charz //
`two words`,	}
    MetaData int {")).
Eval vm_compute in ("<<<M1483>>>" ++ check (runes_of_ascii "root packet // c1
P
    // c2
{
    // c3
repeat // c4
string ss // c6
,
    // c7
repeat // c8
u16
    // c9
ns
    // c10
, // c11
}
    // c12
")).
Eval vm_compute in ("<<<M210>>>" ++ check (runes_of_ascii "packet
i64_
{ f64 float,@tag( 0 ) @lengthOf(u )
    float64 _x  @calculatedFrom(
    ""x y"" )
,}
MetaData matchKey {
} packet roots { }")).
Eval vm_compute in ("<<<M2116>>>" ++ check (runes_of_ascii "packet A {
    match k as n {
        [
            ""a"", 22, ""c c"", 4, ""e"",
            66
        ] : B,
        2 : C,
    },
}")).
Eval vm_compute in ("<<<M1228>>>" ++ check (runes_of_ascii "root packet matchKey
// c
{ zchar[ 3 ] pack @calculatedFrom( ""a	b"" ) `doc` , } options { } MetaData A { int8 msg_type , }")).
Eval vm_compute in ("<<<M1260>>>" ++ check (runes_of_ascii "root packet matchKey { zchar[ 3 ] pack @calculatedFrom( ""a	b"" ) `doc` , } options { } MetaData A
// c
{ int8 msg_type , }")).
Eval vm_compute in ("<<<M307>>>" ++ check (runes_of_ascii "
packet Logon // " ++ [27880; 37322]%N ++ runes_of_ascii "
{f32 _x
,} MetaData u8x {float32 leftPad, tag
    leftPad `say ""hi""`
    ,i16 tag `say ""hi""`,}
")).
Eval vm_compute in ("<<<M257>>>" ++ check (runes_of_ascii "options
{ u // a // b
=42 x_y_z
    =' ' ;msg_type =
    true ; u
=10 ;  } options { zchar =
uint8
;  } // c")).
Eval vm_compute in ("<<<M1589>>>" ++ check (runes_of_ascii "packet	o

    {
	repeat 
Logon uint8x,
} 
options {  asx

// c
=	zchar[

    3
]  stringy =
'\x00'}
")).
Eval vm_compute in ("<<<M921>>>" ++ check (runes_of_ascii "packet A {
    Inner {
        u8 x `a
b`,
        Deep {
            u8 y `a
b`,
        },
    },
}")).
Eval vm_compute in ("<<<M951>>>" ++ check (runes_of_ascii "packet A {
    Inner {
        u8 x `
x`,
        Deep {
            u8 y `
x`,
        },
    },
}")).
Eval vm_compute in ("<<<M866>>>" ++ check (runes_of_ascii "packet A {
  match k as n {
    [""a"", 22, ""c c"", 4, ""e"", 66, ""g"", 8, ""i""] : B,
    2 : C
  },
}")).
Eval vm_compute in ("<<<M1449>>>" ++ check (runes_of_ascii "packet Inner

{u8

a , }	root packet
	P
	{ repeat

    Inner items , u8
    x

    , 
}")).
Eval vm_compute in ("<<<M1187>>>" ++ check (runes_of_ascii "MetaData float { float64
// c
charz `
` , } root packet chars { @rightPad ( '0' ) Foo , }")).
Eval vm_compute in ("<<<M1398>>>" ++ check (runes_of_ascii "packet chars // c
{ } packet MetaDataX { @tag( 42 ) i16 string_ , repeat x `say ""hi""` , }")).
Eval vm_compute in ("<<<M1624>>>" ++ check (runes_of_ascii "packet A { match
k as n { 
[
    ""a"",	22
,""c c""

    ,  4  ]: B	,	2

    :	C 
} ,  }")).
Eval vm_compute in ("<<<M1128>>>" ++ check (runes_of_ascii "packet metadata { // c
Logon { A `" ++ [28040; 24687; 31867; 22411]%N ++ runes_of_ascii "` , tag o , } , zchar len `// not a comment` , }")).
Eval vm_compute in ("<<<M1377>>>" ++ check (runes_of_ascii "packet o { repeat Logon uint8x , } options { asx = zchar[ 3 ] stringy = '\x00' }
// c
")).
Eval vm_compute in ("<<<M1365>>>" ++ check (runes_of_ascii "packet o { repeat Logon uint8x , } options { asx = zchar[
// c
3 ] stringy = '\x00' }")).
Eval vm_compute in ("<<<M961>>>" ++ check (runes_of_ascii "packet A {
    u32 crc @calculatedFrom(""x\
y""),
    @calculatedFrom(""x\
y"") u8 y,
}")).
Eval vm_compute in ("<<<M1326>>>" ++ check (runes_of_ascii "MetaData body { i64 pack `it's` , } packet stringy {
// c
int16 calculatedFrom , }")).
Eval vm_compute in ("<<<M911>>>" ++ check (runes_of_ascii "packet A { Inner { match k as n { [1,22,007,4,5,66,7,8,9,10,11,12] : B, }, }, }")).
Eval vm_compute in ("<<<M63>>>" ++ check (runes_of_ascii "MetaData
    Packet { string Logon `" ++ [233]%N ++ runes_of_ascii "`
,
    int8
    _x
//	t
// " ++ [27880; 37322]%N ++ runes_of_ascii "
,
}

")).
Eval vm_compute in ("<<<M231>>>" ++ check (runes_of_ascii "MetaData/// triple
float {	f64
    // trailing space 
    u8x
`
` ,	}")).
Eval vm_compute in ("<<<M783>>>" ++ check (runes_of_ascii "packet A {
  match k as n {
    [1, 22, 007] : B
    2 : C
  },
}")).
Eval vm_compute in ("<<<M774>>>" ++ check (runes_of_ascii "packet A {
  match k as n {
    [1, 22] : B
    2 : C
  },
}")).
Eval vm_compute in ("<<<M1286>>>" ++ check (runes_of_ascii "packet x { @rightPad ( ) // c
repeat roots Logon `doc` , }")).
Eval vm_compute in ("<<<M1793>>>" ++ check (runes_of_ascii "// a
MetaData M {
}// b

// c
MetaData N {
}// d
// e")).
Eval vm_compute in ("<<<M1695>>>" ++ check (runes_of_ascii "MetaData trueish {
    string trueish `it's`,
}")).
Eval vm_compute in ("<<<M229>>>" ++ check (runes_of_ascii "packet float { }	packet
body
    { }
//x
")).
Eval vm_compute in ("<<<M1435>>>" ++ check (runes_of_ascii "root packet P {
    char c,
    u8 x,
}
")).
Eval vm_compute in ("<<<M311>>>" ++ check (runes_of_ascii "  options {
    asx =
    '0'
;}
")).
Eval vm_compute in ("<<<M929>>>" ++ check (runes_of_ascii "root packet A {
    u8 x `
`,
}")).
Eval vm_compute in ("<<<M2084>>>" ++ check (runes_of_ascii "root packet pack {
    // c
}")).
Eval vm_compute in ("<<<M1168>>>" ++ check (runes_of_ascii "root packet
// c
pack { }")).
Eval vm_compute in ("<<<M1036>>>" ++ check (runes_of_ascii "packet A {
}
// c 	")).
Eval vm_compute in ("<<<M1011>>>" ++ check (runes_of_ascii "packet A {
}
// c" ++ [8233]%N)).
Eval vm_compute in ("<<<M1009>>>" ++ check (runes_of_ascii "packet A {
}// c" ++ [8233]%N)).
Eval vm_compute in ("<<<M1703>>>" ++ check (runes_of_ascii "options {
}")).
Eval vm_compute in ("<<<M1015>>>" ++ check (runes_of_ascii "// c" ++ [8239]%N)).
