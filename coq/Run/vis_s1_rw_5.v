From FP Require Import PT Flatten ShowPT Visitor VisitorShow Faults Spelling NoPanic.
From FP Require BModel.
From Coq Require Import String List NArith.
Import ListNotations.
Open Scope string_scope.
Set Printing Width 100000000.
Set Printing Depth 100000000.
Fixpoint bs (l : list nat) : string := match l with [] => EmptyString | n :: r => String (Ascii.ascii_of_nat n) (bs r) end.
Definition T_ (b : bool) : string := if b then "T" else "F".
Definition t57 : pt := (mkPacket (mkPtok 34 "root" 1 0 0) (Some (mkPtok 3 "}" 4 0 12)) [(DPacket (mkPacketDef (mkSpan (mkPtok 34 "root" 1 0 0) (mkPtok 3 "}" 4 0 12)) (Some (mkPtok 34 "root" 1 0 0)) (mkPtok 35 "packet" 1 5 1) (mkPtok 42 "SimpleMessage" 1 12 2) (mkPtok 2 "{" 1 26 3) [(mkFieldWithAttr (mkSpan (mkPtok 21 "uint16" 2 4 4) (mkPtok 40 "," 2 25 7)) [] (MetaField (mkSpan (mkPtok 21 "uint16" 2 4 4) (mkPtok 40 "," 2 25 7)) None (mkMetaDecl (mkSpan (mkPtok 21 "uint16" 2 4 4) (mkPtok 40 "," 2 25 7)) (TyBasic (mkSpan (mkPtok 21 "uint16" 2 4 4) (mkPtok 21 "uint16" 2 4 4)) (mkBasicType (mkSpan (mkPtok 21 "uint16" 2 4 4) (mkPtok 21 "uint16" 2 4 4)) (mkPtok 21 "uint16" 2 4 4))) (mkPtok 42 "MsgType" 2 11 5) (Some (mkPtok 43 (string_of_bytes [96; 230; 182; 136; 230; 129; 175; 231; 177; 187; 229; 158; 139; 96]%N) 2 19 6)) (mkPtok 40 "," 2 25 7)))); (mkFieldWithAttr (mkSpan (mkPtok 15 "string" 3 4 8) (mkPtok 40 "," 3 32 11)) [] (MetaField (mkSpan (mkPtok 15 "string" 3 4 8) (mkPtok 40 "," 3 32 11)) None (mkMetaDecl (mkSpan (mkPtok 15 "string" 3 4 8) (mkPtok 40 "," 3 32 11)) (TyDynamic (mkSpan (mkPtok 15 "string" 3 4 8) (mkPtok 15 "string" 3 4 8)) (mkDynamicString (mkSpan (mkPtok 15 "string" 3 4 8) (mkPtok 15 "string" 3 4 8)) (mkPtok 15 "string" 3 4 8))) (mkPtok 42 "JsonBody" 3 11 9) (Some (mkPtok 43 (string_of_bytes [96; 74; 115; 111; 110; 229; 173; 151; 231; 172; 166; 228; 184; 178; 230; 182; 136; 230; 129; 175; 228; 189; 147; 96]%N) 3 20 10)) (mkPtok 40 "," 3 32 11))))] (mkPtok 3 "}" 4 0 12)))]).
Eval vm_compute in ("<<<W57_alias_short>>>" ++ sh_escaped (render (rw_alias_short t57)) "").
Eval vm_compute in ("<<<W57_alias_long>>>" ++ sh_escaped (render (rw_alias_long t57)) "").
Eval vm_compute in ("<<<W57_alias_long_opts>>>" ++ sh_escaped (render (rw_alias_long_opts t57)) "").
Eval vm_compute in ("<<<W57_zchar>>>" ++ sh_escaped (render (rw_zchar t57)) "").
Eval vm_compute in ("<<<W57_drop_default_pad>>>" ++ sh_escaped (render (rw_drop_default_pad t57)) "").
Eval vm_compute in ("<<<W57_add_default_pad>>>" ++ sh_escaped (render (rw_add_default_pad t57)) "").
Eval vm_compute in ("<<<W57_prefix_attr>>>" ++ sh_escaped (render (rw_prefix_attr t57)) "").
Eval vm_compute in ("<<<W57_default_options>>>" ++ sh_escaped (render (rw_default_options t57)) "").
Eval vm_compute in ("<<<W57_expand_keys>>>" ++ sh_escaped (render (rw_expand_keys t57)) "").
Eval vm_compute in ("<<<W57_inline_meta>>>" ++ sh_escaped (render (rw_inline_meta t57)) "").
Eval vm_compute in ("<<<W57_seps_all>>>" ++ sh_escaped (render (rw_seps_all t57)) "").
Eval vm_compute in ("<<<W57_seps_none>>>" ++ sh_escaped (render (rw_seps_none t57)) "").
Eval vm_compute in ("<<<W57_drop_docs>>>" ++ sh_escaped (render (rw_drop_docs t57)) "").
