From FP Require Import Lexer Parser ShowPT Digest Formatter.
From Coq Require Import String List NArith.
Import ListNotations.
Open Scope string_scope.
Set Printing Width 100000000.
Set Printing Depth 100000000.
Definition show_fres (r : fres) : string :=
  match r with
  | FOk s => "OK:" ++ sh_escaped s ""
  | FErr s => "ERR:" ++ sh_escaped s ""
  | FPanic p => "PANIC:" ++ p
  end.
Definition check (rs : list rune) : string := digest (show_fres (format_res rs)).
Definition full (rs : list rune) : string := show_fres (format_res rs).
Eval vm_compute in ("<<<M3722>>>" ++ check (runes_of_ascii "packet len {
    @calculatedFrom(""`tick`"")
    repeat zchar[00] chars `a\`,
    u8x MetaDataX `line1
    line2`,
    @calculatedFrom(""a\""b"")
    match matchKey as asx {
        [""CRC32"", ""a\""b""] : msg_type,
    },
    i8 string_ @calculatedFrom(""{,}""),
    @lengthOf(lengthOf)
    zchar[42] _x `line1
    line2`,
    @lengthOf(asx)
    repeat int8 Header,
    repeat crc {
        int8 i64_ @calculatedFrom(""{,}""),
    },
    repeat _x i8i8 `line1
    line2`,
    float64 stringy,
    MetaDataX {
        charz {
            int16 matchKey,
            repeat i64_,
            char[00] Z9_ `
            `,
            match As as Packet {
                3 : crc,
                [1, 00] : Header,
                255 : _x,
                42 : body,
                [0] : chars,
                [4294967296, 65535] : chars,
            },
        },
    },
}

MetaData falsey {
    char[255] u128,
    u8 Header `tab	here`,
    string float,
}

root packet int {
    Logon i64_,
    @calculatedFrom(""1"")
    zchar {
        u {
            zchar[255] Pad,
        },
        stringy {
            Pad metadata `u8 x,`,
        },
        repeat string i8i8,
        char[] As @calculatedFrom(""\n""),
    },
    @lengthOf(packetx)
    @lengthOf(i64_)
    body `line1
    line2`,
    @lengthOf(roots)
    match MetaDataX as uint8x {
        // `tick` ""quote"" 'q'
        [007, 255, 00] : body,
        [
            65535, 1, 1, 0, ""1"",
            ""\n"", ""CRC32""
        ] : trueish,
    },
    uint64 Foo,
    zchar {
        metadata @lengthOf(Pad) `crlf
        line`,
        match u as charz {
            65535 : int,
            [""1""] : a1,
            [4294967296, 00, 00, """ ++ [233]%N ++ runes_of_ascii "t" ++ [233]%N ++ runes_of_ascii """, """ ++ [28040; 24687]%N ++ runes_of_ascii """] : matchKey,
            [""a\\""] : Logon,
        },
        repeat rootA {
            int16 Foo @lengthOf(rootA),
            options1 `u8 x,`,
        },
    },
    match chars as u {
        [
            007, ""it's"", """ ++ [233]%N ++ runes_of_ascii "t" ++ [233]%N ++ runes_of_ascii """, ""abc"", ""\n"",
            """"
        ] : repeatCount,
        65535 : Z9_,
        [007, ""abc"", ""// no comment"", """ ++ [28040; 24687]%N ++ runes_of_ascii """] : falsey,
        00 : string_,
    },
    char repeatCount,
}

packet Foo {
    char[] a1 @calculatedFrom("""") `line1
    line2`,
    uint16 MetaDataX `say ""hi""`,
    char[] A,
    // trailing space 
    // " ++ [128512]%N ++ runes_of_ascii " emoji
    f64 int @lengthOf(Pad),
    u32 BodyLength,
    float64 trueish @lengthOf(lengthOf) `crlf
    line`,
    @tag(255)
    match Z9_ as tag {
        [4294967296, ""a\""b"", ""{,}"", ""{,}""] : Pad,
        1 : lengthOf,
        0123456789 : msg_type,
        ""// no comment"" : BodyLength,
        [""1""] : string_,
        [
            3, 0, 1, 1, 00,
            ""\" ++ [233]%N ++ runes_of_ascii """, """"
        ] : asx,
    },
    body `say ""hi""`,
}

options {
    x = '0';
    u8x = u64;
    // c
    //	t
    string_ = ""a\""b""
}")).
Eval vm_compute in ("<<<M667>>>" ++ check (runes_of_ascii "options  {Logon  =
    int64 zchar =
'0' ; x_y_z =  ""abc""
    ; } root  packet Packet { @calculatedFrom( ""// no comment""
) char[] o// c
, @lengthOf( uint8x )
i32 metadata , @rightPad (
' '
    )
repeat
Foo{ BodyLength { i8i8 `{ , }` , },
    match _x as charz
{42 : Pad  ,
} , Pad zchar ,string
charz ,
    // trailing space 
    }
,
    char[ 1 ]
    Foo,
@lengthOf(  f32a ) @leftPad (	'\x00' ) match calculatedFrom as
    u8x
{  0123456789	: Packet  ""a\""b"" // packet A { u8 x, }
: //
charz,
    4294967296 :
    f32a [ ""packet"" ]
: zchar ,""packet""	: a1 ,  } ,
_x
    {repeat char[ 0 ]
len , }
,
    zchar[
//	t
// c
0123456789 ]pack @lengthOf( asx ),} packet Pad {
// trailing space 
//	t
@lengthOf(
u8x ) char[ 0 ]options1 `it's` , @lengthOf( body )
u128
{ Z9_ { string_ @calculatedFrom(""CRC32"" ) `" ++ [233]%N ++ runes_of_ascii "`
,} //	t
,match
    Header as o
    {""packet"" : i64_ , """ ++ [28040; 24687]%N ++ runes_of_ascii """ :leftPad ,3:i64_
    , } , int8 body
@calculatedFrom( ""a\\""
) `
`  ,
repeat Pad	{ // " ++ [128512]%N ++ runes_of_ascii " emoji
zchar[1 ]metadata @lengthOf(  Z9_ ) `// not a comment`
,
    rootA metadata ,
    u32 i8i8
@lengthOf( roots )
,
    repeat
//	t
// @lengthOf(
uint64 pack, }, } ,
char[ 0 ] chars
// " ++ [128512]%N ++ runes_of_ascii " emoji
// `tick` ""quote"" 'q'
, i8 msg_type`" ++ [233]%N ++ runes_of_ascii "`,match u as body// c
{ 42  : zchar} ,@leftPad
(' '
)asx {repeat repeatCount Z9_ ,
repeat//	t
zchar[ 4294967296] //
Pad
    , }, @tag( 255	)@tag( 255) char[ 0123456789 ]u8x ,
    //	t
    @calculatedFrom(""CRC32"" )// trailing space 
char[3 ]
Pad	`" ++ [233]%N ++ runes_of_ascii "` , @lengthOf( x_y_z ) @rightPad (// `tick` ""quote"" 'q'
)@rightPad
(
    /// triple
    ) Foo {
    match asx	as lengthOf
{["""" , 00 ,  ""1"", ""// no comment"",	4294967296 , 007,
""{,}""
    ] : MetaDataX , }
    ,
}
    , } // c
root packet crc
// " ++ [27880; 37322]%N ++ runes_of_ascii "
//x
{ repeat i32	body
    , float64
    // c
    Header`u8 x,`
, string Foo
@lengthOf( packetx // trailing space 
)
    , char[] As `" ++ [28040; 24687; 31867; 22411]%N ++ runes_of_ascii "`, string_ @calculatedFrom( ""\" ++ [233]%N ++ runes_of_ascii """ )
`it's`,
@calculatedFrom( ""CRC32"" )
    @tag( 1
    )	repeat trueish	packetx // @lengthOf(
,
}
MetaData f32a
{	char[] Header ,
}
")).
Eval vm_compute in ("<<<M352>>>" ++ check (runes_of_ascii "MetaData	matchKey
{ float64	string_, string pack`doc`	,Foo float `` ,x chars
    `crlf
line`
    ,
} packet Header { float64 lengthOf //x
@lengthOf(
    calculatedFrom ) `crlf
line` , zchar[1 ]
int @lengthOf( int),u8  string_,
//x
// c
@tag(3 // packet A { u8 x, }
) @tag( 10 // c
)
i64_
    // " ++ [128512]%N ++ runes_of_ascii " emoji
    {repeat	i16 body
    //x
    `crlf
line` , f64 repeatCount @lengthOf( x_y_z )
    , x{ char[ 0 ]// a // b
int , }
, match u128
    as
    MetaDataX { [ 007 ,
    //x
    ""// no comment"" ] : string_,
// a // b
// trailing space 
0 : int,  [  42 , ""`tick`"" , 0123456789
, ""\" ++ [233]%N ++ runes_of_ascii """  , ""1"", ""packet"" , 255
, ""{,}"" ]:	crc ,
0123456789  :	rootA [ ""\n"" ] :
    // packet A { u8 x, }
    charz , [ ""packet"", 10 ]
:T , }
, }//
, // packet A { u8 x, }
repeat
zchar[ 007  ]matchKey `crlf
line` ,
    @rightPad // `tick` ""quote"" 'q'
(
    '0' )
    // `tick` ""quote"" 'q'
    repeat char[ 00	]
pack`{ , }` , // " ++ [27880; 37322]%N ++ runes_of_ascii "
i8i8
, f32a
    { u128
    packetx , MetaDataX msg_type ,
char[ 65535] falsey `" ++ [28040; 24687; 31867; 22411]%N ++ runes_of_ascii "`
, }
    , } packet uint8x { uint32 msg_type`u8 x,` , char[ 65535 ] // c
o // trailing space 
`u8 x,` , @rightPad
( '\x00' )
int @lengthOf( int )`crlf
line` ,}packet Logon{ char[] string_ ,
    string repeatCount// trailing space 
@lengthOf( _x
)
    // packet A { u8 x, }
    ,  @calculatedFrom( ""\" ++ [233]%N ++ runes_of_ascii """ )@lengthOf( trueish) @tag(
//
// `tick` ""quote"" 'q'
007 ) i8
    a1
@lengthOf(
BodyLength
) `it's` ,	@rightPad ( ' ') @calculatedFrom(
    ""{,}"" // c
) @lengthOf(
    // `tick` ""quote"" 'q'
    zchar
// c
//	t
) repeat
    _x {
    len
, repeat	uint16
    /// triple
    trueish `say ""hi""` , u16 roots `two words` ,},} // `tick` ""quote"" 'q'")).
Eval vm_compute in ("<<<M1293>>>" ++ check (runes_of_ascii "  root //x
packet Logon {
char[	7 ]calculatedFrom @calculatedFrom(	""// no comment""	) `two words`, uint16
MetaDataX
`u8 x,`
    , string a1 @lengthOf( Logon ) // " ++ [27880; 37322]%N ++ runes_of_ascii "
,
    @tag( 0 ) // " ++ [128512]%N ++ runes_of_ascii " emoji
@lengthOf( u8x) @calculatedFrom(
    ""it's"" ) string
zchar `doc` , @lengthOf(x_y_z)// trailing space 
trueish
// @lengthOf(
// `tick` ""quote"" 'q'
{ Z9_ { match
float
as/// triple
lengthOf{00: _x, } ,repeat x_y_z {u8x // " ++ [128512]%N ++ runes_of_ascii " emoji
uint8x ,	}
,char[007
] x_y_z , } , Z9_
`" ++ [28040; 24687; 31867; 22411]%N ++ runes_of_ascii "` ,
}
,
f32a {
repeat	zchar[0123456789 ]A, repeat i64
stringy , leftPad `crlf
line` ,
    },
}packet u128//x
{  match _x as MetaDataX{ [ ""x y"" , 42  ] : A , }
, @lengthOf( charz) charz { match x_y_z as // " ++ [27880; 37322]%N ++ runes_of_ascii "
f32a { [ 007
, 10
    ,
    42
    , """ ++ [233]%N ++ runes_of_ascii "t" ++ [233]%N ++ runes_of_ascii """ , 0123456789 ] :x_y_z ,// @lengthOf(
7: u128 , ""// no comment""
: repeatCount  ,
    ""a\\"" : int	,""x y"" :u128 } , },i16 chars
// @lengthOf(
// packet A { u8 x, }
@lengthOf( zchar)
    //	t
    `u8 x,` , }
    packet u
// " ++ [27880; 37322]%N ++ runes_of_ascii "
// @lengthOf(
{ repeat u options1 , /// triple
@calculatedFrom( ""CRC32"" )float32 u128@lengthOf( //x
u8x )
`{ , }`,
@leftPad ('\x00'
)
    i8 crc`say ""hi""`
, } packet
calculatedFrom {
}
packet pack {
zchar[ 65535 ] calculatedFrom , len { stringy @lengthOf(
body
)	, }, @lengthOf( x_y_z// " ++ [128512]%N ++ runes_of_ascii " emoji
) uint8x
@lengthOf( tag ) , @calculatedFrom(
""x y"") zchar[ 65535 ]	tag	@calculatedFrom(
    ""a\\"") `" ++ [28040; 24687; 31867; 22411]%N ++ runes_of_ascii "` ,
i64
uint8x
    ,  @lengthOf(
    int ) u8 Pad@lengthOf(  o
    )  `{ , }`
    ,  }
")).
Eval vm_compute in ("<<<M823>>>" ++ check (runes_of_ascii "options
    {f32a
    =
'0' ; x_y_z
    =""\" ++ [233]%N ++ runes_of_ascii """ ;int	= ""1""	;  Z9_ = int16
; calculatedFrom =
true ;
}
MetaData
trueish{ x_y_z trueish `// not a comment`
, } packet zchar {@lengthOf(
As )
repeat
options1 { char[]
    //	t
    o @calculatedFrom( ""abc"" )
    , repeat pack /// triple
, }	, @calculatedFrom( ""a\""b"" ) Foo rootA
    ,match charz
as falsey { ""x y""
:x_y_z, 00 :	BodyLength ,  ""x y"" : x_y_z
, // @lengthOf(
}, Foo { repeat As{ repeat u A
    /// triple
    ,	repeat
Logon { uint8x @calculatedFrom(
""\n"" ) `{ , }` , i16 float ,},
f64 crc
`tab	here`
, repeat char[] As  ``
, } , calculatedFrom
{ match body as
    // a // b
    a1{
[""{,}"" , // trailing space 
""\n"" , """" // c
, ""1"" , """ ++ [128512]%N ++ runes_of_ascii """
    ] : BodyLength , ""a\\"" :	chars ,65535
: o// " ++ [27880; 37322]%N ++ runes_of_ascii "
[ ""\n"" ] : options1
    ""CRC32""	: BodyLength,},
repeat o {
    string
    rootA// c
, } ,
repeat  zchar[
65535 ] matchKey `" ++ [28040; 24687; 31867; 22411]%N ++ runes_of_ascii "`,
    }, char[]
    rootA `// not a comment` ,repeat
    T	Logon
`" ++ [28040; 24687; 31867; 22411]%N ++ runes_of_ascii "` , },
    @leftPad ( )@tag( 00
// " ++ [27880; 37322]%N ++ runes_of_ascii "
// " ++ [27880; 37322]%N ++ runes_of_ascii "
)@lengthOf(
Pad
    // packet A { u8 x, }
    )  match A as
a1{
    //
    65535 :stringy	[ ""a\""b"" // " ++ [128512]%N ++ runes_of_ascii " emoji
,
// a // b
// packet A { u8 x, }
""a\\"" ] :
/// triple
// trailing space 
As ,
// " ++ [27880; 37322]%N ++ runes_of_ascii "
//
""// no comment""
: repeatCount
    , """": body[""" ++ [28040; 24687]%N ++ runes_of_ascii """
    , """ ++ [233]%N ++ runes_of_ascii "t" ++ [233]%N ++ runes_of_ascii """]
    // @lengthOf(
    :
options1  , }, } // trailing space ")).
Eval vm_compute in ("<<<M4337>>>" ++ check (runes_of_ascii "options {
    T = ""it's"";// trailing space 
    Z9_ = ""\" ++ [233]%N ++ runes_of_ascii """
    int = '\x00'
    u8x = ""`tick`""
    crc = ""packet"";
}

root packet string_ {
    match charz as u {
        // " ++ [128512]%N ++ runes_of_ascii " emoji
        0123456789 : zchar,
        42 : rootA,
        007 : crc,
        """ ++ [28040; 24687]%N ++ runes_of_ascii """ : Foo,
        [007, ""x y""] : int,
    },
    @tag(7)
    repeat metadata,
    string len @lengthOf(o) `crlf
        line`,
    repeat int32 falsey `
        `,
    @leftPad()
    x @calculatedFrom(""// no comment"") `// not a comment`,
    uint16 rootA,
    @lengthOf(a1)
    char calculatedFrom,
    @tag(3)
    zchar[65535] body,
}

packet Logon {
    @leftPad()
    @tag(7)
    char u128 `say ""hi""`,
    @tag(10)
    char[42] roots,
}

root packet i64_ {
    repeat _x {
        repeat MetaDataX o,
    },
    u128 {
        asx {
            u8 a1,
            repeat As,// a // b
        },
    },
    int16 Foo,
    u64 asx `
        `,
    u8x @lengthOf(crc),
    @calculatedFrom(""CRC32"")
    @lengthOf(body)
    @tag(7)
    falsey body `{ , }`,
    MetaDataX {
        trueish MetaDataX `tab	here`,
        char[3] i8i8 @calculatedFrom(""" ++ [128512]%N ++ runes_of_ascii """) `" ++ [233]%N ++ runes_of_ascii "`,
    },
}

options {
    _x = false
    _x = char[0123456789]
    repeatCount = ' '
    _x = ""packet"";
}")).
Eval vm_compute in ("<<<M232>>>" ++ check (runes_of_ascii "packet falsey { int64
BodyLength , @tag( 4294967296) // packet A { u8 x, }
@leftPad (
    )
match _x as Foo
//	t
// packet A { u8 x, }
{ ""\n"": asx
// `tick` ""quote"" 'q'
// `tick` ""quote"" 'q'
[ ""{,}""
,	4294967296, """ ++ [128512]%N ++ runes_of_ascii """//	t
, """ ++ [28040; 24687]%N ++ runes_of_ascii """,
""packet"", ""packet""
    // " ++ [27880; 37322]%N ++ runes_of_ascii "
    , ""x y"" ,
// trailing space 
// " ++ [128512]%N ++ runes_of_ascii " emoji
7 ]	: x_y_z	, } , // `tick` ""quote"" 'q'
A len`// not a comment`
    ,
    //
    repeat char[]
i64_ `crlf
line` ,
// trailing space 
// trailing space 
repeat char[] u `line1
line2`	, tag {string metadata ,
    } ,
// " ++ [27880; 37322]%N ++ runes_of_ascii "
// " ++ [128512]%N ++ runes_of_ascii " emoji
char[3
    ] falsey @lengthOf(
    leftPad ) `crlf
line`
,  } root	packet
MetaDataX {@lengthOf( //
u8x )
    match f32a as Header {[ ""a\""b""
//x
// `tick` ""quote"" 'q'
,255]:  u8x , ""packet""
:
uint8x
    ,""1""
:
_x , },
    Packet `doc` , zchar[
    3 // " ++ [128512]%N ++ runes_of_ascii " emoji
] u128 @lengthOf( asx  ) ,
    }  MetaData x/// triple
{
// `tick` ""quote"" 'q'
// `tick` ""quote"" 'q'
As  roots , char[
10	] crc
// " ++ [128512]%N ++ runes_of_ascii " emoji
/// triple
`{ , }` ,
    BodyLength
asx  `u8 x,` ,matchKey i8i8 , falsey pack `" ++ [233]%N ++ runes_of_ascii "`,leftPad metadata ,
    }
options { pack	= 0 tag
= f32 i64_ =""abc""	;
// " ++ [128512]%N ++ runes_of_ascii " emoji
// " ++ [128512]%N ++ runes_of_ascii " emoji
f32a=
    true ; } packet Foo { }
")).
Eval vm_compute in ("<<<M4442>>>" ++ check (runes_of_ascii "packet Packet {
    MetaDataX {
        // " ++ [128512]%N ++ runes_of_ascii " emoji
        // trailing space 
        zchar[255] crc @calculatedFrom(""`tick`"") `doc`,// c
    },
    u32 As `
        `,
    @lengthOf(chars)
    f64 leftPad `// not a comment`,
    repeat char[3] len `doc`,
    match u8x as chars {
        4294967296 : f32a,
        [255, 4294967296] : string_,
        0 : chars,
        // packet A { u8 x, }
        ""a\""b"" : options1,
        7 : falsey,
    },
    @lengthOf(len)
    repeat char[10] Header `crlf
        line`,// " ++ [27880; 37322]%N ++ runes_of_ascii "
    rootA asx `two words`,
}

packet Packet {
    @tag(00)
    u16 asx,
    @calculatedFrom(""a\""b"")
    charz @lengthOf(a1),
    @lengthOf(asx)
    repeat string falsey,
    u32 options1 @lengthOf(packetx) `it's`,
}

packet metadata {
    int16 i8i8,
    i32 tag `line1
        line2`,
    @calculatedFrom(""a\\"")
    @lengthOf(repeatCount)
    MetaDataX {
        repeat x_y_z,
    },
    lengthOf tag `" ++ [233]%N ++ runes_of_ascii "`,
}

MetaData Foo {
    body chars,
    char[] asx `// not a comment`,
    char u8x,
    x trueish `crlf
        line`,
    char[] options1 `u8 x,`,
}")).
Eval vm_compute in ("<<<M753>>>" ++ check (runes_of_ascii "MetaData
u8x {
    string Packet, leftPad _x `doc` ,
}options
{
//x
/// triple
Header = //	t
""1""
/// triple
//	t
x = '\x00' falsey= int64
f32a =char[ 007
    ] ;
Foo ='0'
    // @lengthOf(
    ;
    /// triple
    }
options {  leftPad = false
    // c
    Z9_=""a	b""
    asx = '0' }packet
    int { repeat stringy
falsey , @tag( // trailing space 
0 )//	t
repeat pack
    ,@tag(65535 )match
// a // b
// `tick` ""quote"" 'q'
Z9_ as lengthOf {
007 : MetaDataX ,
[ ""CRC32""
    ,""" ++ [233]%N ++ runes_of_ascii "t" ++ [233]%N ++ runes_of_ascii """	,	""packet""
, ""\n""
//x
//x
,""1"" // a // b
]: options1 ,[ ""CRC32"" , ""`tick`"" ,""\n"" ] :
int , 0123456789 : uint8x [3 ,  255 ]: lengthOf
,
    } , @leftPad (
    '\x00')
// packet A { u8 x, }
// trailing space 
repeat chars ``
    // " ++ [128512]%N ++ runes_of_ascii " emoji
    , @calculatedFrom(""x y""
    )@tag(
    /// triple
    10 ) @tag(	0123456789 ) _x rootA`a\`,  @lengthOf( stringy //
)int @calculatedFrom(
""{,}""	) , repeat u64
stringy , @lengthOf( rootA) match
f32a as len{[ 0]: charz , 42 : asx ""it's"" : body ""{,}""	:// " ++ [27880; 37322]%N ++ runes_of_ascii "
Logon
    ""\" ++ [233]%N ++ runes_of_ascii """ : BodyLength,
}	,
}
")).
Eval vm_compute in ("<<<M1317>>>" ++ check (runes_of_ascii "MetaData  u{ metadata x_y_z	, i8i8
    len`it's`
    , zchar[ // " ++ [27880; 37322]%N ++ runes_of_ascii "
42	]
options1 `{ , }` ,
} packet u {
@calculatedFrom(""abc""// a // b
)
// c
// " ++ [27880; 37322]%N ++ runes_of_ascii "
char[ 0123456789 ] string_ @lengthOf(
Logon) `a\`	, string string_
@lengthOf( // packet A { u8 x, }
float )	, char[]// c
crc
`line1
line2` , @lengthOf(
/// triple
// `tick` ""quote"" 'q'
metadata
    )  u128 {
    char[]  T ,}, f64  As
@calculatedFrom(// a // b
""// no comment""
)// " ++ [27880; 37322]%N ++ runes_of_ascii "
,  repeat Z9_
    chars`u8 x,` ,  @calculatedFrom(
""packet"" )repeat
    // @lengthOf(
    a1  tag , } packet A
    {	@tag(7
    )@rightPad
(
) @tag( 0123456789 ) repeat
    crc { repeatCount As
// @lengthOf(
//	t
,}
, match pack
    as u {
""packet"" :Pad  , ""1"":u8x 007
    : Packet [ ""packet"", """ ++ [28040; 24687]%N ++ runes_of_ascii """ ] // " ++ [27880; 37322]%N ++ runes_of_ascii "
: BodyLength
""1"" :asx ,
} , match i64_
as Header{ 4294967296: _x	007 :packetx
, [007 ]
:
A
    , //	t
} ,uint8 BodyLength ,@lengthOf(
// `tick` ""quote"" 'q'
// packet A { u8 x, }
i64_ //	t
)
    u8
falsey //	t
, }
")).
Eval vm_compute in ("<<<M287>>>" ++ check (runes_of_ascii "
root packet	Foo {
Packet
{
u32 chars `{ , }`
// a // b
// " ++ [128512]%N ++ runes_of_ascii " emoji
, zchar[ // " ++ [27880; 37322]%N ++ runes_of_ascii "
255 ] Foo
    , } , f32a @lengthOf( MetaDataX ) `doc` , As`say ""hi""`
,  char[] crc @calculatedFrom( """ ++ [28040; 24687]%N ++ runes_of_ascii """
)`say ""hi""` ,	int32 T//x
`// not a comment` , @lengthOf( x )
    //
    pack
{  match
i8i8 as trueish
    { ""x y"" : BodyLength, [
// `tick` ""quote"" 'q'
// packet A { u8 x, }
""\n""
    ,007,
    ""// no comment"" ,
//x
// " ++ [128512]%N ++ runes_of_ascii " emoji
42
,
""1"" , 65535// " ++ [128512]%N ++ runes_of_ascii " emoji
,10 ] :
    a1 ,[ ""{,}""
]
: metadata
, ""a	b"" : As , }	,
} ,
match f32a	as
    A
    {""abc"": rootA
    4294967296 : /// triple
Z9_
    // c
    , [
007 , ""a\""b""	, 00
    , 42 ,
1	,0123456789 ,""x y""
] : Foo , }, char[ 7 ] i64_
    `it's` , @lengthOf( pack ) repeat As , } MetaData
charz	{ u64 asx, } packet x { }MetaData MetaDataX{A a1
    // " ++ [128512]%N ++ runes_of_ascii " emoji
    , char[]	x`a\` ,uint16 leftPad , }options
{
a1 =
    42
; BodyLength	= true
;
x_y_z =int16 } 	 ")).
Eval vm_compute in ("<<<M1147>>>" ++ check (runes_of_ascii "
root packet options1
    { uint64	x ,	@lengthOf( i8i8
    ) repeat
char[ 0] len, crc `u8 x,`, As
@calculatedFrom(""a	b""
/// triple
// @lengthOf(
), @rightPad () @calculatedFrom( ""1""//x
) string charz @calculatedFrom(
""" ++ [233]%N ++ runes_of_ascii "t" ++ [233]%N ++ runes_of_ascii """	)`two words` , @tag( 00 )f32a
//x
//	t
{ char[] trueish@lengthOf( //	t
MetaDataX ) `// not a comment`
,repeat	int16 float
,
body `u8 x,` , } //x
, @calculatedFrom( // a // b
""x y""  )
//x
//
match Header as falsey { 7  :f32a , } ,  @tag( 00 )	match zchar
as
    Logon {
[7
, 7 ,
    ""`tick`"",
""\" ++ [233]%N ++ runes_of_ascii """ , 255] : A
, [ 1 ]  :Z9_ [ ""1"" , 1 ,
    ""`tick`"" ,""a	b""
,
//	t
// a // b
""\" ++ [233]%N ++ runes_of_ascii """ , """ ++ [28040; 24687]%N ++ runes_of_ascii """ ]	:
Pad [ ""1"" // " ++ [128512]%N ++ runes_of_ascii " emoji
, """" ,
1	,
00  ,""" ++ [128512]%N ++ runes_of_ascii """ , ""1"" , 1 , ""{,}"" ]
: Z9_ ,10:
A,
    """ ++ [233]%N ++ runes_of_ascii "t" ++ [233]%N ++ runes_of_ascii """
    : u8x
    // " ++ [128512]%N ++ runes_of_ascii " emoji
    , } , repeat int64 metadata ,
    @rightPad (
'0' )match tag as BodyLength
    {""CRC32"" : asx , 10:
    metadata , }
    ,}")).
Eval vm_compute in ("<<<M918>>>" ++ check (runes_of_ascii "  packet
// `tick` ""quote"" 'q'
//x
uint8x{zchar[
    007
] Header @calculatedFrom( ""a	b"")
,	}packet i64_{ @lengthOf(
crc ) /// triple
string metadata`
`//	t
, // trailing space 
uint8x // " ++ [128512]%N ++ runes_of_ascii " emoji
{ repeat
u16
string_ ,} , // `tick` ""quote"" 'q'
packetx
{ zchar[
    0123456789]calculatedFrom
@calculatedFrom(
""" ++ [28040; 24687]%N ++ runes_of_ascii """ ) `crlf
line`	, tag { zchar[  007 ] tag @calculatedFrom(""1"" )
, string u ,	repeat
A
T
,
roots
@lengthOf( Logon
    ) ,
    // `tick` ""quote"" 'q'
    } , u8x `` , int64 metadata `tab	here` , }
,
}  packet rootA{
@lengthOf( string_) Header A`doc` ,
match stringy as x {// c
0123456789: metadata,0 : rootA
,
42
:
A
, [ 00 ,""abc"" ]
:
T	4294967296 : a1 , // @lengthOf(
},
@rightPad
    (	'0' ) @tag(4294967296 )
    @tag( 00) char[] Foo @calculatedFrom( ""1"" ) `crlf
line`, }")).
Eval vm_compute in ("<<<M1046>>>" ++ check (runes_of_ascii "// c
packet
i8i8{ } packet string_
{  @rightPad ( '\x00'//x
)
    int Packet , // a // b
@tag( 255 )
matchKey , chars@calculatedFrom( ""packet"")
`
`	,  _x @lengthOf(u
) , @tag(// c
255 )asx Foo, string
    roots ,	repeat
    falsey {	matchKey { match Pad as
i8i8 //x
{ [ 00 , 7 ] : u , 1 : BodyLength , // a // b
""// no comment""
:	metadata ,
""""
// @lengthOf(
//
: BodyLength
    /// triple
    , } , }
, A,
repeat char falsey , } , // packet A { u8 x, }
_x u `it's` ,
@leftPad  (	'\x00')
    @calculatedFrom(
""\n""
    )	match x_y_z as metadata { ""CRC32""
: packetx // packet A { u8 x, }
, ""packet""  :
metadata 1
    : string_// c
, [ 0 , // " ++ [128512]%N ++ runes_of_ascii " emoji
10 ]
: // packet A { u8 x, }
falsey // " ++ [27880; 37322]%N ++ runes_of_ascii "
,} , char[] chars @lengthOf(zchar /// triple
)`say ""hi""`	, } 	 ")).
Eval vm_compute in ("<<<M1204>>>" ++ check (runes_of_ascii "packet
float {
match
asx as len {255
:metadata
},char[ 4294967296] x  @lengthOf( lengthOf ),matchKey int
,} packet  falsey { @tag( 0123456789	) match
    u128 // a // b
as
stringy  {
    // " ++ [128512]%N ++ runes_of_ascii " emoji
    0123456789 :
u128 // packet A { u8 x, }
[
3
,
    ""CRC32"" ,	7
// packet A { u8 x, }
// @lengthOf(
, 10
    , 0 ] :o	, 1 /// triple
:charz // " ++ [128512]%N ++ runes_of_ascii " emoji
, 0123456789 :
u ,255 :
pack
, } ,
    }  packet T
{
    // " ++ [27880; 37322]%N ++ runes_of_ascii "
    @lengthOf(
    /// triple
    Z9_ ) @rightPad (  '0' ) @calculatedFrom(
    ""// no comment"" // `tick` ""quote"" 'q'
)zchar[
007
    ] leftPad ,@calculatedFrom(
""1"" )char[]As
`two words` ,
    @leftPad ( '0' ) repeat char[
    0123456789
    ]x `// not a comment`, char[ 1
// " ++ [27880; 37322]%N ++ runes_of_ascii "
//x
]_x// " ++ [128512]%N ++ runes_of_ascii " emoji
, }")).
Eval vm_compute in ("<<<M1239>>>" ++ check (runes_of_ascii "packet Header{ @rightPad
    (
    '0' )
char[] x_y_z, Header {	repeat zchar[ 00 ] leftPad ,
    repeat
f64 // a // b
float `a\`  , match o	as pack{ ""1"":
    asx ,65535
: x// `tick` ""quote"" 'q'
, 65535// @lengthOf(
: i8i8
, [//
""" ++ [28040; 24687]%N ++ runes_of_ascii """]: matchKey } ,
    repeat A , } ,
    char[ 3]trueish, @calculatedFrom( """ ++ [128512]%N ++ runes_of_ascii """  )
    f32a , } packet uint8x
{
//
//x
chars@lengthOf(  Logon
) , @leftPad
    (' ' )repeat zchar[
1 ]	_x `// not a comment` ,	char[]
body``
,uint32 leftPad `line1
line2`,
repeat x_y_z { u8x msg_type // `tick` ""quote"" 'q'
,
} , @tag( 0 ) int16 i8i8 `tab	here`
, repeat Pad `doc` ,
repeat
// packet A { u8 x, }
//
u ,
    u8x
@calculatedFrom(  ""x y"" )
`two words` , }
")).
Eval vm_compute in ("<<<M4320>>>" ++ check (runes_of_ascii "root packet stringy {
    u8x @lengthOf(A),
    match f32a as options1 {
        [0123456789, ""a\""b""] : trueish,
        [
            3, 65535, 255, 65535, ""a\\"",
            """ ++ [233]%N ++ runes_of_ascii "t" ++ [233]%N ++ runes_of_ascii """, ""\" ++ [233]%N ++ runes_of_ascii """
        ] : body,
    },
    @calculatedFrom(""" ++ [128512]%N ++ runes_of_ascii """)
    repeat uint16 int,
    repeat tag,
    @leftPad()
    match int as u8x {
        [65535, """ ++ [233]%N ++ runes_of_ascii "t" ++ [233]%N ++ runes_of_ascii """] : metadata,
    },
    @rightPad()
    repeat zchar[7] Logon `crlf
        line`,
    As {
        int64 roots,
    },// packet A { u8 x, }
    @tag(255)
    int64 charz @calculatedFrom(""a	b""),
    BodyLength lengthOf,
    float64 As,
}

packet Foo {
    char[4294967296] float `u8 x,`,
}

packet _x {
}")).
Eval vm_compute in ("<<<M1381>>>" ++ check (runes_of_ascii "packet metadata {//	t
leftPad  { u64 stringy , }
,
} packet
matchKey
{  repeat u64 x_y_z, }MetaData
f32a{
} root packet  As  {
@lengthOf(	Logon  ) float64
A , @leftPad  (// " ++ [27880; 37322]%N ++ runes_of_ascii "
'0' )u32
    i64_ /// triple
`// not a comment`/// triple
, repeat i8
    chars ,@lengthOf( x_y_z
)	Foo x
, stringy , chars @calculatedFrom( ""CRC32"" ) ,
    @tag(
0 ) int64 pack `
` ,
@rightPad ( )
@calculatedFrom(
""abc"" )
@tag(// packet A { u8 x, }
0 ) char[	0 ] msg_type // a // b
,// " ++ [27880; 37322]%N ++ runes_of_ascii "
tag {
    char[	007 ]	zchar@lengthOf(
    chars) , As@lengthOf(	charz )
    `doc` , body `u8 x,`	,
    } ,Foo
    `two words`
    ,
}
")).
Eval vm_compute in ("<<<M1197>>>" ++ check (runes_of_ascii "options { u8x
    = // @lengthOf(
""it's"" x_y_z = //
42 o
    = true ;MetaDataX
='0' ;	}
MetaData	calculatedFrom { i64 trueish , // " ++ [27880; 37322]%N ++ runes_of_ascii "
u16 stringy
    `two words`,u8x
    repeatCount,int8 matchKey
    ,} packet MetaDataX {@calculatedFrom( ""\" ++ [233]%N ++ runes_of_ascii """ ) uint8x
//x
/// triple
@lengthOf(
    /// triple
    uint8x) ,
    //	t
    repeat zchar[ 007 ]	Foo`" ++ [233]%N ++ runes_of_ascii "` , @lengthOf(
/// triple
// a // b
metadata  ) @tag(1 )
match metadata as BodyLength { 00 :
tag ,
""a	b"" :	Packet
, [ ""abc""]:	pack },
//	t
// " ++ [27880; 37322]%N ++ runes_of_ascii "
}  root packet
packetx
    { @leftPad( '\x00'
)f32a
@lengthOf( options1 ) , }
packet MetaDataX
{ }
")).
Eval vm_compute in ("<<<M3858>>>" ++ check (runes_of_ascii "root packet options1 {
    float @calculatedFrom(""a	b""),
    @leftPad()
    match lengthOf as f32a {
        ""1"" : f32a,
        ""{,}"" : falsey,
    },
}

packet T {
    @tag(7)
    @lengthOf(f32a)
    @rightPad()
    char[] msg_type @calculatedFrom(""\" ++ [233]%N ++ runes_of_ascii """) `" ++ [28040; 24687; 31867; 22411]%N ++ runes_of_ascii "`,
    options1 u128 `// not a comment`,
    @rightPad(' ')
    char[1] metadata @calculatedFrom(""" ++ [128512]%N ++ runes_of_ascii """) `doc`,
}

packet u8x {
    roots @lengthOf(f32a),
    @calculatedFrom(""a\""b"")
    @tag(00)
    @leftPad('\x00')
    MetaDataX {
        int @calculatedFrom(""`tick`"") `
                `,
    },
}")).
Eval vm_compute in ("<<<M4000>>>" ++ check (runes_of_ascii "options {
    int = ""`tick`"";
    Foo = ' ';
    Foo = ""x y"";
    x_y_z = ""x y"";
}

packet uint8x {
    @lengthOf(int)
    @tag(0)
    Pad,
    u8 x,
    @lengthOf(Z9_)
    f32 BodyLength `crlf
    line`,
    repeat char[255] f32a,
    repeat msg_type lengthOf,
    @leftPad('\x00')
    repeat int32 asx,
    repeat string f32a,// `tick` ""quote"" 'q'
}

MetaData packetx {
    int64 asx,
    Foo len `// not a comment`,
    i32 MetaDataX `" ++ [233]%N ++ runes_of_ascii "`,
    Foo Header `line1
    line2`,
    zchar[0123456789] lengthOf,
    float32 metadata,
}")).
Eval vm_compute in ("<<<M3676>>>" ++ check (runes_of_ascii "MetaData i64_ {
    int rootA,
    char[0] A `{ , }`,
    u128 rootA `doc`,
    zchar[42] i8i8 `it's`,
    char[00] u,
    zchar[0123456789] A `line1
    line2`,
}

packet Z9_ {
    @lengthOf(pack)
    @calculatedFrom(""a\\"")
    BodyLength @calculatedFrom(""\" ++ [233]%N ++ runes_of_ascii """),
    @rightPad()
    @tag(1)
    @lengthOf(i8i8)
    char[] trueish,
    f32a @calculatedFrom(""" ++ [28040; 24687]%N ++ runes_of_ascii """) `u8 x,`,
    @tag(65535)
    string trueish,
}

packet BodyLength {
    stringy @lengthOf(Z9_),
    char[007] metadata @calculatedFrom("""") `" ++ [233]%N ++ runes_of_ascii "`,
}")).
Eval vm_compute in ("<<<M1052>>>" ++ check (runes_of_ascii "MetaData Logon {
    }
    packet trueish	{calculatedFrom@lengthOf(
leftPad )
    ,
char[]chars @lengthOf(rootA) `u8 x,`
,
@calculatedFrom(""""
// @lengthOf(
// @lengthOf(
)As @lengthOf( repeatCount) // " ++ [128512]%N ++ runes_of_ascii " emoji
`two words`// c
,
asx
`it's` // packet A { u8 x, }
,// " ++ [27880; 37322]%N ++ runes_of_ascii "
} packet
MetaDataX	{repeat	u8  i8i8
`" ++ [233]%N ++ runes_of_ascii "`
, uint8 int @lengthOf( uint8x)  ,
u16 T@lengthOf( body
// packet A { u8 x, }
/// triple
) `" ++ [28040; 24687; 31867; 22411]%N ++ runes_of_ascii "` , zchar[ 3] trueish , @calculatedFrom( ""x y"" ) repeat zchar[ 00 ] zchar , }")).
Eval vm_compute in ("<<<M3622>>>" ++ check (runes_of_ascii "
options{ StringPrefixLenType
= u8
;ArrayPrefixLenType

    =u32 ;  }	packet

    Quote {u32

Ref
	,InNote74
{
u8 pad0

    ,	} 
, 
}

packet Ack	{

    repeat
string
OrderId ,}
packet	Logout
{ zchar[ 7]venue

,
    char[

    12 
] Px,
string 
count
,char[]
    Tail	,char[]  Qty ,

Quote
	,

}

root
packet  Trade
{ 
zchar[
	2

] 
price ,
u32 x	, 
u32 lastPx @lengthOf( Body),
match 
x  as
	Body 
{
148
	:
	Ack	,171	:Quote  ,15	:Logout , },
}")).
Eval vm_compute in ("<<<M64>>>" ++ check (runes_of_ascii "
MetaData x_y_z // c
{char As ,} packet packetx { asx @calculatedFrom( """ ++ [128512]%N ++ runes_of_ascii """
) `a\`, MetaDataX // packet A { u8 x, }
, @leftPad
(
    '0'
)
asx@lengthOf( f32a) `a\` , @lengthOf(	metadata )
match	Packet as lengthOf { [ // `tick` ""quote"" 'q'
""packet"", """ ++ [128512]%N ++ runes_of_ascii """] : // trailing space 
Foo , 0
    :
    crc [
10
, ""CRC32"" ]
:
trueish
//
// " ++ [27880; 37322]%N ++ runes_of_ascii "
,}	, } packet/// triple
lengthOf { @lengthOf( msg_type )
repeat zchar[7 ]  f32a `" ++ [233]%N ++ runes_of_ascii "`,
int64 tag ,  }
")).
Eval vm_compute in ("<<<M1302>>>" ++ check (runes_of_ascii "packet packetx
    {match _x
as // a // b
rootA {
3 :  leftPad } // " ++ [27880; 37322]%N ++ runes_of_ascii "
, u32 stringy// c
, @rightPad // " ++ [128512]%N ++ runes_of_ascii " emoji
(// trailing space 
' '
)
    @lengthOf( A // " ++ [128512]%N ++ runes_of_ascii " emoji
) string msg_type `u8 x,`, match string_  as body { [ 42 ,
    // @lengthOf(
    ""1""	,""packet"" , """ ++ [128512]%N ++ runes_of_ascii """ , ""packet"" ,
0123456789 ]
    //	t
    :
    calculatedFrom } , //	t
u8 Packet , @lengthOf( // `tick` ""quote"" 'q'
lengthOf )repeat u8x asx
`doc` ,  }
")).
Eval vm_compute in ("<<<M584>>>" ++ check (runes_of_ascii "options { len
=""x y""; } packet // @lengthOf(
repeatCount { zchar[ // a // b
7]
f32a ,
} packet
    asx { len @calculatedFrom( ""a\\"" ) `line1
line2`
// @lengthOf(
// " ++ [27880; 37322]%N ++ runes_of_ascii "
, @lengthOf(T
    ) u8x`a\` ,@tag(3 )
    char Pad `
` ,
    char[
    4294967296 //	t
]
    metadata
    @calculatedFrom( ""CRC32"") ,	@lengthOf( Header ) u64
    uint8x// `tick` ""quote"" 'q'
@calculatedFrom(""x y""
    ) , }
// " ++ [128512]%N ++ runes_of_ascii " emoji
")).
Eval vm_compute in ("<<<M853>>>" ++ check (runes_of_ascii "
root packet crc
{	@rightPad
    // `tick` ""quote"" 'q'
    (
// `tick` ""quote"" 'q'
// c
'\x00' )// a // b
repeat i64 As ,
// @lengthOf(
// a // b
}
packet// c
body // " ++ [128512]%N ++ runes_of_ascii " emoji
{
}
packet  uint8x { options1 @calculatedFrom(""a	b"" ) ,
} MetaData  Packet { }
/// triple
//
MetaData
    // a // b
    falsey{	char[ 007 ]
// trailing space 
//x
tag `it's` , As leftPad
`line1
line2`,
    } 	 ")).
Eval vm_compute in ("<<<M533>>>" ++ check (runes_of_ascii "
packet repeatCount {uint64
stringy, } options {
crc
    = '0' } //x
packet int{ repeat
a1 charz ,
    }options { matchKey = """ ++ [28040; 24687]%N ++ runes_of_ascii """  ;
    crc = """ ++ [28040; 24687]%N ++ runes_of_ascii """ ;roots= // `tick` ""quote"" 'q'
'\x00'
;
// packet A { u8 x, }
//x
} packet i8i8{ @calculatedFrom( ""abc""
) char[]_x `
`
,/// triple
uint8 Packet// a // b
`crlf
line` , string_ `{ , }` // " ++ [27880; 37322]%N ++ runes_of_ascii "
,
/// triple
// " ++ [128512]%N ++ runes_of_ascii " emoji
}")).
Eval vm_compute in ("<<<M542>>>" ++ check (runes_of_ascii "packet // a // b
chars { @leftPad (  )
char[ 42] asx
,
@tag( 007 ) matchKey
    As
,  @leftPad ( // a // b
'\x00' // " ++ [128512]%N ++ runes_of_ascii " emoji
) msg_type`u8 x,` ,
    repeat  charz// packet A { u8 x, }
{ int64 f32a ,Header { u32 MetaDataX ,
char[
3
] repeatCount @calculatedFrom(""packet""
)
`tab	here`
, repeat f64 Logon
`
`
, }
, }
//
// trailing space 
, } //	t")).
Eval vm_compute in ("<<<M4302>>>" ++ check (runes_of_ascii "packet  roots{
    @tag(255 ) zchar[
	00 
] 
lengthOf `" ++ [233]%N ++ runes_of_ascii "`
,

    zchar[	7
// @lengthOf(

  //
      ]	u

    `say ""hi""`  // " ++ [27880; 37322]%N ++ runes_of_ascii "
,
}  options{

} options

{ 
calculatedFrom= 4294967296// " ++ [128512]%N ++ runes_of_ascii " emoji
  i64_=

'\x00';

    i64_ = 
""abc""
	;

}MetaData roots
{ char[]
BodyLength
    `two words` , 
i16
    Header`// not a comment` ,}

")).
Eval vm_compute in ("<<<M1941>>>" ++ check (runes_of_ascii "MetaData
    u { }  options {
// c
// @lengthOf(
float = int8 ;rootA =false ; As =	int16 // `tick` ""quote"" 'q'
repeatCount repeatCount
    // trailing space 
    =
    int16
; u8x =
    //	t
    '\x00' ; } options	{
    repeatCount
= 0
u128
    //
    = false ; i64_
// trailing space 
// `tick` ""quote"" 'q'
= '0' ; //	t
}
")).
Eval vm_compute in ("<<<M1896>>>" ++ check (runes_of_ascii "MetaData
    u { }  options {
// c
// @lengthOf(
float = int8 int8 ;rootA =false ; As =	int16 // `tick` ""quote"" 'q'
repeatCount
    // trailing space 
    =
    int16
; u8x =
    //	t
    '\x00' ; } options	{
    repeatCount
= 0
u128
    //
    = false ; i64_
// trailing space 
// `tick` ""quote"" 'q'
= '0' ; //	t
}
")).
Eval vm_compute in ("<<<M1901>>>" ++ check (runes_of_ascii "MetaData
    u { }  options {
// c
// @lengthOf(
float = int8 ; ;rootA =false ; As =	int16 // `tick` ""quote"" 'q'
repeatCount
    // trailing space 
    =
    int16
; u8x =
    //	t
    '\x00' ; } options	{
    repeatCount
= 0
u128
    //
    = false ; i64_
// trailing space 
// `tick` ""quote"" 'q'
= '0' ; //	t
}
")).
Eval vm_compute in ("<<<M2013>>>" ++ check (runes_of_ascii "MetaData
    u { }  options {
// c
// @lengthOf(
float = int8 ;rootA =false ; As =	int16 // `tick` ""quote"" 'q'
repeatCount
    // trailing space 
    =
    int16
; u8x =
    //	t
    '\x00' ; } options	{
    repeatCount
= 0
false
    //
    = false ; i64_
// trailing space 
// `tick` ""quote"" 'q'
= '0' ; //	t
}
")).
Eval vm_compute in ("<<<M1957>>>" ++ check (runes_of_ascii "MetaData
    u { }  options {
// c
// @lengthOf(
float = int8 ;rootA =false ; As =	int16 // `tick` ""quote"" 'q'
repeatCount
    // trailing space 
    =
    int16
u8x ; =
    //	t
    '\x00' ; } options	{
    repeatCount
= 0
u128
    //
    = false ; i64_
// trailing space 
// `tick` ""quote"" 'q'
= '0' ; //	t
}
")).
Eval vm_compute in ("<<<M1910>>>" ++ check (runes_of_ascii "MetaData
    u { }  options {
// c
// @lengthOf(
float = int8 ;rootA false ; As =	int16 // `tick` ""quote"" 'q'
repeatCount
    // trailing space 
    =
    int16
; u8x =
    //	t
    '\x00' ; } options	{
    repeatCount
= 0
u128
    //
    = false ; i64_
// trailing space 
// `tick` ""quote"" 'q'
= '0' ; //	t
}
")).
Eval vm_compute in ("<<<M2010>>>" ++ check (runes_of_ascii "MetaData
    u { }  options {
// c
// @lengthOf(
float = int8 ;rootA =false ; As =	int16 // `tick` ""quote"" 'q'
repeatCount
    // trailing space 
    =
    int16
; u8x =
    //	t
    '\x00' ; } options	{
    repeatCount
= 0

    //
    = false ; i64_
// trailing space 
// `tick` ""quote"" 'q'
= '0' ; //	t
}
")).
Eval vm_compute in ("<<<M707>>>" ++ check (runes_of_ascii "MetaData u { u128 tag `
`
, zchar[ 10 ] pack `say ""hi""`, string metadata`doc` , } packet
    chars
    {	match
    crc as trueish {
    // " ++ [27880; 37322]%N ++ runes_of_ascii "
    10: roots [ """ ++ [28040; 24687]%N ++ runes_of_ascii """ ,
    """" ,4294967296 , ""\n"" ,
007 ,
    ""a\""b"" , """"
, // `tick` ""quote"" 'q'
42  ]  : string_ ""{,}"" :	x_y_z,} ,
i8i8
int, asx
    ,}
//	t
")).
Eval vm_compute in ("<<<M4521>>>" ++ check (runes_of_ascii "
packet
	//	t
	// trailing spa'ce 
    _x {  
  // packet A { u8 x, }
// c

char[ 
3	]
	u8x

    @lengthOf(  u8x )
	,	@calculatedFrom(

    """ ++ [128512]%N ++ runes_of_ascii """ 	 // @lengthOf(
)

i16

Foo
    @lengthOf(
	string_ ) 
`doc`
,  repeat

i64 
metadata

,
	@lengthOf(	string_  )i8 // c
		u	`line1
line2`

,	}
")).
Eval vm_compute in ("<<<M4266>>>" ++ check (runes_of_ascii "packet
calculatedFrom	{
match Logon as
    u128 { [  1
	, ""// no comment""
]
:u8x
	""`tick`""	: Header,""`tick`"" :BodyLength ""it's"" 
        // a // b

  // packet A { u8 x, }
    :  zchar } 	 // " ++ [27880; 37322]%N ++ runes_of_ascii "
    	,	// `tick` ""quote"" 'q'
    char metadata	@calculatedFrom(""a\\""

    )

, }
")).
Eval vm_compute in ("<<<M3309>>>" ++ check (runes_of_ascii "// top
root // c0
packet // c1a
  // c1b
matchKey // c2
{
    // c3
zchar[ 3 // c5
]
    // c6
pack @calculatedFrom( // c8
""a	b"" // c9a
  // c9b
) // c10
`doc` // c11
, } options
    // c14
{ } // c16
MetaData A { // c19a
  // c19b
int8 // c20
msg_type ,
    // c22
} ")).
Eval vm_compute in ("<<<M1660>>>" ++ check (runes_of_ascii "packet
//	t
// trailing spa@lengthOfce 
_x {
// packet A { u8 x, }
// c
char[
3
    ] u8x @lengthOf(
u8x ) , @calculatedFrom(""" ++ [128512]%N ++ runes_of_ascii """ // @lengthOf(
)
i16	Foo
@lengthOf(	string_
    )`doc`	, repeat	i64 metadata , @lengthOf( string_
) i8 // c
u  `line1
line2`	,
}
")).
Eval vm_compute in ("<<<M562>>>" ++ check (runes_of_ascii "root packet a1
{ repeat
    /// triple
    zchar[
    42 ] x_y_z
,@tag( 65535 )@tag(
    // c
    7
    )// " ++ [128512]%N ++ runes_of_ascii " emoji
@lengthOf( // c
A	)	string
//
// " ++ [27880; 37322]%N ++ runes_of_ascii "
calculatedFrom ,
    string
    uint8x
    ,
    } MetaData
    // trailing space 
    MetaDataX
{
}")).
Eval vm_compute in ("<<<M1505>>>" ++ check (runes_of_ascii "packet
//	t
// trailing space 
_x {
// packet A { u8 x, }
// c
uint16
3
    ] u8x @lengthOf(
u8x ) , @calculatedFrom(""" ++ [128512]%N ++ runes_of_ascii """ // @lengthOf(
)
i16	Foo
@lengthOf(	string_
    )`doc`	, repeat	i64 metadata , @lengthOf( string_
) i8 // c
u  `line1
line2`	,
}
")).
Eval vm_compute in ("<<<M1554>>>" ++ check (runes_of_ascii "packet
//	t
// trailing space 
_x {
// packet A { u8 x, }
// c
char[
3
    ] u8x @lengthOf(
u8x ) , @calculatedFrom(""" ++ [128512]%N ++ runes_of_ascii """ // @lengthOf(
i16
)	Foo
@lengthOf(	string_
    )`doc`	, repeat	i64 metadata , @lengthOf( string_
) i8 // c
u  `line1
line2`	,
}
")).
Eval vm_compute in ("<<<M1550>>>" ++ check (runes_of_ascii "packet
//	t
// trailing space 
_x {
// packet A { u8 x, }
// c
char[
3
    ] u8x @lengthOf(
u8x ) , @calculatedFrom(as // @lengthOf(
)
i16	Foo
@lengthOf(	string_
    )`doc`	, repeat	i64 metadata , @lengthOf( string_
) i8 // c
u  `line1
line2`	,
}
")).
Eval vm_compute in ("<<<M1595>>>" ++ check (runes_of_ascii "packet
//	t
// trailing space 
_x {
// packet A { u8 x, }
// c
char[
3
    ] u8x @lengthOf(
u8x ) , @calculatedFrom(""" ++ [128512]%N ++ runes_of_ascii """ // @lengthOf(
)
i16	Foo
@lengthOf(	string_
    )`doc`	, {	i64 metadata , @lengthOf( string_
) i8 // c
u  `line1
line2`	,
}
")).
Eval vm_compute in ("<<<M1261>>>" ++ check (runes_of_ascii "options
{  trueish  = f32
;
    i8i8 = false BodyLength  =
// " ++ [27880; 37322]%N ++ runes_of_ascii "
//	t
float64
stringy =
string;Z9_= '\x00' } MetaData falsey { pack
rootA,
char[ 7]
x_y_z `" ++ [233]%N ++ runes_of_ascii "` , uint32
    string_ ,
float64 //	t
lengthOf// trailing space 
,
int32	u , }
")).
Eval vm_compute in ("<<<M1641>>>" ++ check (runes_of_ascii "packet
//	t
// trailing space 
_x {
// packet A { u8 x, }
// c
char[
3
    ] u8x @lengthOf(
u8x ) , @calculatedFrom(""" ++ [128512]%N ++ runes_of_ascii """ // @lengthOf(
)
i16	Foo
@lengthOf(	string_
    )`doc`	, repeat	i64 metadata , @lengthOf( string_
) i8 // c
u")).
Eval vm_compute in ("<<<M3587>>>" ++ check (runes_of_ascii "// top
packet // c0a
  // c0b
order_item
    // c1
{ u8 // c3a
  // c3b
a ,
    // c5
} // c6a
  // c6b
root
    // c7
packet // c8a
  // c8b
new_order // c9a
  // c9b
{ order_item
    // c11
,
    // c12
u8 x // c14
, } ")).
Eval vm_compute in ("<<<M1196>>>" ++ check (runes_of_ascii "packet  lengthOf{
@tag( 65535 )	match crc as
    i8i8 {[65535 , 42 , ""it's"", ""x y"",
    7,
    // trailing space 
    ""a	b""
] : float , 00
: MetaDataX , 00 : options1 // " ++ [128512]%N ++ runes_of_ascii " emoji
,	1 :a1, 0 : packetx
    ,}
    , }")).
Eval vm_compute in ("<<<M1752>>>" ++ check (runes_of_ascii "options { trueish = ""`tick`"" ; string_= """ ++ [233]%N ++ runes_of_ascii "t" ++ [233]%N ++ runes_of_ascii """
    // c
    } root
    packet body { stringy @calculatedFrom(
""a	b"" ""a	b"" ) `line1
line2` , }
packet Logon {
    @leftPad(
    ' ' ) //	t
u16 string_ `u8 x,` ,
}
")).
Eval vm_compute in ("<<<M1724>>>" ++ check (runes_of_ascii "options { trueish = ""`tick`"" ; string_= """ ++ [233]%N ++ runes_of_ascii "t" ++ [233]%N ++ runes_of_ascii """
    // c
    } '\x00'
    packet body { stringy @calculatedFrom(
""a	b"" ) `line1
line2` , }
packet Logon {
    @leftPad(
    ' ' ) //	t
u16 string_ `u8 x,` ,
}
")).
Eval vm_compute in ("<<<M422>>>" ++ check (runes_of_ascii "packet lengthOf {
} packet
Z9_
{ } packet  uint8x { leftPad Foo
    // `tick` ""quote"" 'q'
    `" ++ [233]%N ++ runes_of_ascii "` , // c
@calculatedFrom(
//
/// triple
""\n"" ) @calculatedFrom( """ ++ [128512]%N ++ runes_of_ascii """ ) zchar[  0123456789
    ]metadata
,}
")).
Eval vm_compute in ("<<<M1799>>>" ++ check (runes_of_ascii "options { trueish = ""`tick`"" ; string_= """ ++ [233]%N ++ runes_of_ascii "t" ++ [233]%N ++ runes_of_ascii """
    // c
    } root
    packet body { stringy @calculatedFrom(
""a	b"" ) `line1
line2` , }
packet Logon {
    @leftPad;
    ' ' ) //	t
u16 string_ `u8 x,` ,
}
")).
Eval vm_compute in ("<<<M1734>>>" ++ check (runes_of_ascii "options { trueish = ""`tick`"" ; string_= """ ++ [233]%N ++ runes_of_ascii "t" ++ [233]%N ++ runes_of_ascii """
    // c
    } root
    packet { { stringy @calculatedFrom(
""a	b"" ) `line1
line2` , }
packet Logon {
    @leftPad(
    ' ' ) //	t
u16 string_ `u8 x,` ,
}
")).
Eval vm_compute in ("<<<M901>>>" ++ check (runes_of_ascii "packet trueish { @calculatedFrom( """ ++ [28040; 24687]%N ++ runes_of_ascii """ )	repeat
    Foo
    {
repeat float32
    Logon `" ++ [28040; 24687; 31867; 22411]%N ++ runes_of_ascii "` ,
    repeat roots zchar , repeat
char[]	Logon , u8 Logon @lengthOf(
    f32a) `a\`
    ,	} ,
    } //")).
Eval vm_compute in ("<<<M3904>>>" ++ check (runes_of_ascii "options {
    trueish = ""`tick`"";
    string_ = """ ++ [233]%N ++ runes_of_ascii "t" ++ [233]%N ++ runes_of_ascii """
}

root packet body {
    stringy @calculatedFrom(""a	b"") `line1
    line2`,
}

packet Logon {
    @leftPad(' ')
    //	t
    u16 string_,
}")).
Eval vm_compute in ("<<<M3595>>>" ++ check (runes_of_ascii "options {
    FixedStringPadChar = '0';
}
packet Q {
    zchar[4] z,
    @rightPad('\x00') char[3] n,
    char[5] d,
}
root packet R {
    Q,
    zchar[8] top,
    repeat zchar[2] zs,
}
")).
Eval vm_compute in ("<<<M3862>>>" ++ check (runes_of_ascii "packet charz {
    repeat zchar[007] falsey `line1
        line2`,
}

root packet leftPad {
    x metadata,
}

packet rootA {
    char[65535] chars,
}

options {
    body = ' '
}")).
Eval vm_compute in ("<<<M4541>>>" ++ check (runes_of_ascii "root packet metadata {
    uint64 rootA `it's`,
}

packet Header {
}

options {
    Z9_ = 255;
    metadata = int32;
    trueish = ' ';
    i64_ = '\x00'
    stringy = 00
}")).
Eval vm_compute in ("<<<M1964>>>" ++ check (runes_of_ascii "MetaData
    u { }  options {
// c
// @lengthOf(
float = int8 ;rootA =false ; As =	int16 // `tick` ""quote"" 'q'
repeatCount
    // trailing space 
    =
    int16
;")).
Eval vm_compute in ("<<<M4158>>>" ++ check (runes_of_ascii "// top
packet metadata {
    // c2
    Logon {
        // c4
        A `" ++ [28040; 24687; 31867; 22411]%N ++ runes_of_ascii "`,
        // c7
        tag o,
    },
    // c12
    zchar len `// not a comment`,
}")).
Eval vm_compute in ("<<<M34>>>" ++ check (runes_of_ascii "// " ++ [27880; 37322]%N ++ runes_of_ascii "
root packet chars { @rightPad(
    //	t
    )
    u8x @calculatedFrom( ""a	b"" ) `line1
line2` ,
repeat
tag {
    repeat options1 f32a
    `" ++ [28040; 24687; 31867; 22411]%N ++ runes_of_ascii "` , },	}
")).
Eval vm_compute in ("<<<M2385>>>" ++ check (runes_of_ascii "// c
packet x { @lengthOf( metadata ) repeat lengthOf
,a1{
trueish	,// c
repeat//	t
MetaDataX ` , } , zchar[
    42	] rootA // `tick` ""quote"" 'q'
,
    }
")).
Eval vm_compute in ("<<<M2140>>>" ++ check (runes_of_ascii "options{
_x
= true
} options
{ o	= /// triple
false
    ; chars
= = ""\n"" } root packet	Pad
/// triple
// packet A { u8 x, }
{	chars
    // a // b
    ,}")).
Eval vm_compute in ("<<<M2122>>>" ++ check (runes_of_ascii "options{
_x
= true
} options
{ o	u8 /// triple
false
    ; chars
= ""\n"" } root packet	Pad
/// triple
// packet A { u8 x, }
{	chars
    // a // b
    ,}")).
Eval vm_compute in ("<<<M2111>>>" ++ check (runes_of_ascii "options{
_x
= true
} options
o {	= /// triple
false
    ; chars
= ""\n"" } root packet	Pad
/// triple
// packet A { u8 x, }
{	chars
    // a // b
    ,}")).
Eval vm_compute in ("<<<M2139>>>" ++ check (runes_of_ascii "options{
_x
= true
} options
{ o	= /// triple
false
    ; chars
 ""\n"" } root packet	Pad
/// triple
// packet A { u8 x, }
{	chars
    // a // b
    ,}")).
Eval vm_compute in ("<<<M140>>>" ++ check (runes_of_ascii "packet Logon {
    stringy
crc	`crlf
line`
, T
@calculatedFrom( ""a\""b""
    ) // packet A { u8 x, }
`u8 x,` // " ++ [27880; 37322]%N ++ runes_of_ascii "
, }  options {	leftPad =  '\x00'}
")).
Eval vm_compute in ("<<<M2420>>>" ++ check (runes_of_ascii "// c
packet x { @lengthOf( metadata ) repeat 
,a1{
trueish	,// c
repeat//	t
MetaDataX , } , zchar[
    42	] rootA // `tick` ""quote"" 'q'
,
    }
")).
Eval vm_compute in ("<<<M306>>>" ++ check (runes_of_ascii "packet
    u128
{ @lengthOf( options1
)repeat int`" ++ [28040; 24687; 31867; 22411]%N ++ runes_of_ascii "` ,
@calculatedFrom(
    """" )
repeat
f32 Z9_	,
zchar[
007
] msg_type
`doc`
    ,
}
")).
Eval vm_compute in ("<<<M3721>>>" ++ check (runes_of_ascii "packet falsey {
}

packet stringy {
    repeatCount @calculatedFrom(""a	b""),
    @lengthOf(string_)
    repeat i64_ metadata `
        `,
}")).
Eval vm_compute in ("<<<M4239>>>" ++ check (runes_of_ascii "packet A {
    match k as n {
        [
            1, 22, 4, 5, 7,
            8, ""c c"", ""f""
        ] : B,
        2 : C,
    },
}")).
Eval vm_compute in ("<<<M4493>>>" ++ check (runes_of_ascii "

  // top
	  root 	 // c0
	packet // c1
    u128	// c2
    { 	 // c3

chars// c4
	  `it's`	// c5
      ,	// c6
    }	// c7
")).
Eval vm_compute in ("<<<M1319>>>" ++ check (runes_of_ascii "// `tick` ""quote"" 'q'
options { i8i8
=
    // @lengthOf(
    ""{,}""  ;
calculatedFrom
// " ++ [128512]%N ++ runes_of_ascii " emoji
// trailing space 
=42 ;
}")).
Eval vm_compute in ("<<<M3312>>>" ++ check (runes_of_ascii "root // c
packet matchKey { zchar[ 3 ] pack @calculatedFrom( ""a	b"" ) `doc` , } options { } MetaData A { int8 msg_type , }")).
Eval vm_compute in ("<<<M3344>>>" ++ check (runes_of_ascii "root packet matchKey { zchar[ 3 ] pack @calculatedFrom( ""a	b"" ) `doc` , } options { } // c
MetaData A { int8 msg_type , }")).
Eval vm_compute in ("<<<M1481>>>" ++ check (runes_of_ascii "
packet
    falsey { Header@calculatedFrom(""packet""  ) , char[
    0123456789 ''] packetx
    , } // `tick` ""quote"" 'q'")).
Eval vm_compute in ("<<<M1430>>>" ++ check (runes_of_ascii "
packet
    falsey { Header@calculatedFrom(""packet""  ] , char[
    0123456789 ] packetx
    , } // `tick` ""quote"" 'q'")).
Eval vm_compute in ("<<<M4387>>>" ++ check (runes_of_ascii "packet A {
    u16 len @lengthOf(body) `a
    b`,
    u32 crc @calculatedFrom(""CRC32"") `a
    b`,
    string body,
}")).
Eval vm_compute in ("<<<M4438>>>" ++ check (runes_of_ascii "options { 
rootA= i64 i64_ 
=  true	matchKey

    =  '\x00'

    charz  // packet A { u8 x, }
=false 
;
	}
")).
Eval vm_compute in ("<<<M3057>>>" ++ check (runes_of_ascii "packet A {
    match k as n {
        ""\
"" : B,
        [""\
"", 1] : C,
        [1,2,3,4,5,""\
""] : D,
    },
}")).
Eval vm_compute in ("<<<M2965>>>" ++ check (runes_of_ascii "packet A {
  match k as n {
    [""a"", ""bb"", ""c c"", ""d"", ""e"", ""f"", ""g"", ""h"", ""i"", ""j""] : B
    2 : C
  },
}")).
Eval vm_compute in ("<<<M2982>>>" ++ check (runes_of_ascii "packet A {
  match k as n {
    [""a"", 22, ""c c"", 4, ""e"", 66, ""g"", 8, ""i"", 10, ""k""] : B
    2 : C
  },
}")).
Eval vm_compute in ("<<<M2355>>>" ++ check (runes_of_ascii "// c
packet x { @lengthOf( metadata ) repeat lengthOf
,a1{
trueish	,// c
repeat//	t
MetaDataX , } ,")).
Eval vm_compute in ("<<<M2966>>>" ++ check (runes_of_ascii "packet A {
  match k as n {
    [1, ""bb"", 007, ""d"", 5, ""f"", 7, ""h"", 9, ""j""] : B,
    2 : C
  },
}")).
Eval vm_compute in ("<<<M4542>>>" ++ check (runes_of_ascii "  packet

    A{
Inner 
{  u8 x
	`a
    b
  c`
, Deep 
{	u8  y`a
    b
  c`,	} ,}
    , }

")).
Eval vm_compute in ("<<<M1466>>>" ++ check (runes_of_ascii "
packet
    falsey { Header@calculatedFrom(""packet""  ) , char[
    0123456789 ] packetx
    ")).
Eval vm_compute in ("<<<M2957>>>" ++ check (runes_of_ascii "packet A {
  match k as n {
    [1, 22, ""c c"", 4, 5, ""f"", 7, 8, ""i""] : B,
    2 : C
  },
}")).
Eval vm_compute in ("<<<M3280>>>" ++ check (runes_of_ascii "MetaData float { float64 charz `
`
// c
, } root packet chars { @rightPad ( '0' ) Foo , }")).
Eval vm_compute in ("<<<M3491>>>" ++ check (runes_of_ascii "packet chars { } // c
packet MetaDataX { @tag( 42 ) i16 string_ , repeat x `say ""hi""` , }")).
Eval vm_compute in ("<<<M16>>>" ++ check (runes_of_ascii "packet Z9_// packet A { u8 x, }
{ @tag(
4294967296 )uint8x@calculatedFrom( ""abc"" ), }

")).
Eval vm_compute in ("<<<M2297>>>" ++ check (runes_of_ascii "options
{ } options { BodyLength= u16 Header=~ f64 ; u128 =
    true
    ; } // a // b")).
Eval vm_compute in ("<<<M2223>>>" ++ check (runes_of_ascii "options
{ } { options BodyLength= u16 Header= f64 ; u128 =
    true
    ; } // a // b")).
Eval vm_compute in ("<<<M3230>>>" ++ check (runes_of_ascii "packet metadata { Logon { A `" ++ [28040; 24687; 31867; 22411]%N ++ runes_of_ascii "` , tag
// c
o , } , zchar len `// not a comment` , }")).
Eval vm_compute in ("<<<M2244>>>" ++ check (runes_of_ascii "options
{ } options { BodyLength= as Header= f64 ; u128 =
    true
    ; } // a // b")).
Eval vm_compute in ("<<<M3450>>>" ++ check (runes_of_ascii "packet o { repeat Logon uint8x , } options { asx
// c
= zchar[ 3 ] stringy = '\x00' }")).
Eval vm_compute in ("<<<M147>>>" ++ check (runes_of_ascii "packet
    zchar { @lengthOf(Header )f32 string_ `a\`
    , } // packet A { u8 x, }")).
Eval vm_compute in ("<<<M3395>>>" ++ check (runes_of_ascii "MetaData
// c
body { i64 pack `it's` , } packet stringy { int16 calculatedFrom , }")).
Eval vm_compute in ("<<<M1740>>>" ++ check (runes_of_ascii "options { trueish = ""`tick`"" ; string_= """ ++ [233]%N ++ runes_of_ascii "t" ++ [233]%N ++ runes_of_ascii """
    // c
    } root
    packet body")).
Eval vm_compute in ("<<<M2918>>>" ++ check (runes_of_ascii "packet A {
  match k as n {
    [1, 22, ""c c"", 4, 5, ""f""] : B,
    2 : C
  },
}")).
Eval vm_compute in ("<<<M4307>>>" ++ check (runes_of_ascii "MetaData charz
	{ 
} packet

    // " ++ [27880; 37322]%N ++ runes_of_ascii "
	matchKey
{ a1
    repeatCount	,
}
")).
Eval vm_compute in ("<<<M97>>>" ++ check (runes_of_ascii "options // " ++ [27880; 37322]%N ++ runes_of_ascii "
{
// packet A { u8 x, }
// a // b
}
    packet T {
    }
")).
Eval vm_compute in ("<<<M4134>>>" ++ check (runes_of_ascii "packet A {
    match k as n {
        // b
        1 : B,
    },// h
}")).
Eval vm_compute in ("<<<M2727>>>" ++ check (runes_of_ascii "MetaData packet true string `doc` = `it's` char[ MetaData false u16")).
Eval vm_compute in ("<<<M4151>>>" ++ check (runes_of_ascii "root packet P {
    u8 s_u8,
    repeat u8 r_u8,
    u16 b_len,
}")).
Eval vm_compute in ("<<<M103>>>" ++ check (runes_of_ascii "
packet float {
} MetaData As { char[]
    trueish , }
// " ++ [27880; 37322]%N ++ runes_of_ascii "
")).
Eval vm_compute in ("<<<M572>>>" ++ check (runes_of_ascii "
options
    // a // b
    {
    f32a = '0' ;
}
options{}
")).
Eval vm_compute in ("<<<M3370>>>" ++ check (runes_of_ascii "packet x {
// c
@rightPad ( ) repeat roots Logon `doc` , }")).
Eval vm_compute in ("<<<M3181>>>" ++ check (runes_of_ascii "packet A {
    match k as n {
        1 : B,// c
    },
}")).
Eval vm_compute in ("<<<M585>>>" ++ check (runes_of_ascii "options {MetaDataX =
// `tick` ""quote"" 'q'
//	t
0; }
")).
Eval vm_compute in ("<<<M2861>>>" ++ check (runes_of_ascii "packet A { Inner { match k as n { [1] : B, }, }, }")).
Eval vm_compute in ("<<<M2831>>>" ++ check (runes_of_ascii "repeat @leftPad false int8 int16 char[ uint64 ]")).
Eval vm_compute in ("<<<M2611>>>" ++ check (runes_of_ascii "packet A { match k as n { [1,""a"",2] : B, }, }")).
Eval vm_compute in ("<<<M2855>>>" ++ check (runes_of_ascii ": ( i16 u16 char[ false int8 char i64 int64")).
Eval vm_compute in ("<<<M3975>>>" ++ check (runes_of_ascii "
root

    packet 
A {

u8 x 
`
` , }
")).
Eval vm_compute in ("<<<M729>>>" ++ check (runes_of_ascii "
packet // packet A { u8 x, }
rootA { }")).
Eval vm_compute in ("<<<M2773>>>" ++ check (runes_of_ascii "@tag( i16 MetaData @calculatedFrom( ;")).
Eval vm_compute in ("<<<M1356>>>" ++ check (runes_of_ascii "packet
trueish	{ uint16 chars , }
")).
Eval vm_compute in ("<<<M2825>>>" ++ check ([19; 29165]%N ++ runes_of_ascii "a" ++ [15; 65533; 127; 65533; 65533; 65533; 65533; 17; 65533]%N ++ runes_of_ascii "=" ++ [65533; 65533; 65533; 65533]%N ++ runes_of_ascii "{=xu" ++ [65533; 26]%N ++ runes_of_ascii "6k" ++ [65533]%N ++ runes_of_ascii "N" ++ [65533; 65533; 65533]%N ++ runes_of_ascii "S" ++ [65533]%N ++ runes_of_ascii """r")).
Eval vm_compute in ("<<<M1336>>>" ++ check (runes_of_ascii "root
    packet
chars
{
//x
//
}")).
Eval vm_compute in ("<<<M169>>>" ++ check (runes_of_ascii "packet
body { // @lengthOf(
}")).
Eval vm_compute in ("<<<M1002>>>" ++ check (runes_of_ascii "//x
options {
o =//x
' '
; }
")).
Eval vm_compute in ("<<<M2591>>>" ++ check (runes_of_ascii "packet A { x @lengthOf(), }")).
Eval vm_compute in ("<<<M3013>>>" ++ check (runes_of_ascii "packet A {
    u8 x `
`,
}")).
Eval vm_compute in ("<<<M1062>>>" ++ check (runes_of_ascii "MetaData
f32a {	A x , }")).
Eval vm_compute in ("<<<M815>>>" ++ check (runes_of_ascii " // packet A { u8 x, }")).
Eval vm_compute in ("<<<M2230>>>" ++ check (runes_of_ascii "options
{ } options")).
Eval vm_compute in ("<<<M2644>>>" ++ check (runes_of_ascii "MetaData M { u8 x }")).
Eval vm_compute in ("<<<M2659>>>" ++ check (runes_of_ascii "options { a = b; }")).
Eval vm_compute in ("<<<M3131>>>" ++ check (runes_of_ascii "// c" ++ [8203]%N ++ runes_of_ascii "
packet A {
}")).
Eval vm_compute in ("<<<M3088>>>" ++ check (runes_of_ascii "packet A {
}// c" ++ [8202]%N)).
Eval vm_compute in ("<<<M1366>>>" ++ check (runes_of_ascii "
// @lengthOf(
")).
Eval vm_compute in ("<<<M4208>>>" ++ check (runes_of_ascii "  /// triple
")).
Eval vm_compute in ("<<<M2486>>>" ++ check (runes_of_ascii "@centerPad")).
Eval vm_compute in ("<<<M2777>>>" ++ check (runes_of_ascii ", } char")).
Eval vm_compute in ("<<<M2434>>>" ++ check (runes_of_ascii "zchar[")).
Eval vm_compute in ("<<<M2474>>>" ++ check (runes_of_ascii "'\x0'")).
Eval vm_compute in ("<<<M2443>>>" ++ check (runes_of_ascii "uint")).
Eval vm_compute in ("<<<M2454>>>" ++ check (runes_of_ascii "asx")).
Eval vm_compute in ("<<<M476>>>" ++ check (runes_of_ascii "
")).
Eval vm_compute in ("<<<M2557>>>" ++ check ([21517]%N)).
