From FP Require Import Lexer Parser ShowPT Digest Formatter.
From Coq Require Import String List NArith.
Import ListNotations.
Open Scope string_scope.
Set Printing Width 100000000.
Set Printing Depth 100000000.
Definition show_fres (r : fres) : string :=
  match r with
  | FOk s => "OK:" ++ sh_escaped s ""
  | FErr s => "ERR:" ++ sh_escaped s ""
  | FPanic p => "PANIC:" ++ p
  end.
Definition check (rs : list rune) : string := digest (show_fres (format_res rs)).
Definition full (rs : list rune) : string := show_fres (format_res rs).
Eval vm_compute in ("<<<M3620>>>" ++ check (runes_of_ascii "options { // c1a
  // c1b
StringPrefixLenType =
    // c3
u16 ; // c5
ArrayPrefixLenType =
    // c7
u8 ; FixedStringPadFromLeft // c10a
  // c10b
=
    // c11
true // c12
; // c13a
  // c13b
FixedStringPadChar // c14
= // c15
' ' ; // c17
} // c18a
  // c18b
packet // c19
Quote
    // c20
{
    // c21
int64
    // c22
OrderId // c23a
  // c23b
, char[] // c25
Ref // c26a
  // c26b
, // c27
@leftPad ( // c29a
  // c29b
'0'
    // c30
) // c31a
  // c31b
char[ // c32a
  // c32b
5 // c33
] // c34a
  // c34b
price , }
    // c37
packet // c38
Heartbeat // c39
{ zchar[ // c41
3 ] venue , // c45a
  // c45b
string // c46a
  // c46b
Flags
    // c47
, // c48a
  // c48b
} packet // c50
Trade
    // c51
{ // c52a
  // c52b
repeat
    // c53
InTag787 // c54
{ i32 // c56
venue // c57
,
    // c58
char[ 5 ] // c61
sym // c62a
  // c62b
,
    // c63
repeat InPx98 // c65
{ char[ // c67a
  // c67b
11
    // c68
] Qty
    // c70
, // c71a
  // c71b
Heartbeat // c72
, char[] // c74
price // c75
, // c76a
  // c76b
u32 // c77a
  // c77b
x // c78
,
    // c79
float64 // c80
count // c81a
  // c81b
, repeat // c83
Quote
    // c84
, // c85a
  // c85b
} ,
    // c87
zchar[ // c88a
  // c88b
7
    // c89
]
    // c90
Note
    // c91
, // c92a
  // c92b
repeat
    // c93
char[ // c94a
  // c94b
1 ] // c96a
  // c96b
Tail // c97a
  // c97b
,
    // c98
} // c99a
  // c99b
, repeat char[ // c102
2
    // c103
] // c104a
  // c104b
seqNo , // c106a
  // c106b
InTail55 // c107a
  // c107b
{ // c108
repeat // c109a
  // c109b
Quote // c110
, // c111
string
    // c112
msgKind , // c114a
  // c114b
InPx18 { // c116a
  // c116b
char[] count ,
    // c119
repeat // c120
Quote , // c122
uint16 // c123a
  // c123b
Qty ,
    // c125
}
    // c126
,
    // c127
char[ // c128a
  // c128b
4 ]
    // c130
seqNo
    // c131
,
    // c132
repeat // c133
Heartbeat
    // c134
, repeat string sym // c138
, // c139a
  // c139b
} // c140
, repeat
    // c142
Quote // c143
, // c144
Heartbeat // c145
, @leftPad ( // c148
' ' // c149
) char[ 10 // c152a
  // c152b
] OrderId // c154a
  // c154b
, // c155a
  // c155b
} // c156
root // c157a
  // c157b
packet // c158
Fill
    // c159
{ Heartbeat
    // c161
, uint32 // c163a
  // c163b
count
    // c164
, // c165
u8 // c166
OrderId // c167
,
    // c168
match OrderId // c170
as
    // c171
Body
    // c172
{
    // c173
96 // c174
: // c175
Quote
    // c176
,
    // c177
195
    // c178
: // c179
Trade // c180a
  // c180b
, // c181a
  // c181b
187
    // c182
:
    // c183
Heartbeat // c184
,
    // c185
}
    // c186
, u32
    // c188
venue // c189
@calculatedFrom(
    // c190
""CRC32"" )
    // c192
,
    // c193
} ")).
Eval vm_compute in ("<<<M412>>>" ++ check (runes_of_ascii "  root packet packetx { char[]  pack @lengthOf(
    string_
    // " ++ [128512]%N ++ runes_of_ascii " emoji
    ) `doc`,
    u32  float @lengthOf( a1) // `tick` ""quote"" 'q'
`two words` , match  a1 as
    // " ++ [27880; 37322]%N ++ runes_of_ascii "
    o {7 : _x
    ,
} , repeat msg_type { o uint8x
`crlf
line` , }
,char[] // `tick` ""quote"" 'q'
u8x @lengthOf(msg_type
)
// " ++ [128512]%N ++ runes_of_ascii " emoji
//
,@calculatedFrom( ""CRC32"" )
    i16 repeatCount
@calculatedFrom(""a\""b""  ) , zchar[
10 ]_x
`line1
line2` ,	zchar[
10 ]
    x `u8 x,` ,char[  0123456789
]
    uint8x , @calculatedFrom( ""x y"" ) int32
//	t
// c
i8i8
, }	options// " ++ [27880; 37322]%N ++ runes_of_ascii "
{
matchKey =""it's"" } packet
    msg_type // packet A { u8 x, }
{
// trailing space 
//
match lengthOf as Logon { [ ""x y"" , ""a	b"", ""{,}"" ,  """ ++ [28040; 24687]%N ++ runes_of_ascii """,
    ""{,}"" ,""{,}""
    ]
    // packet A { u8 x, }
    : asx, [ """ ++ [233]%N ++ runes_of_ascii "t" ++ [233]%N ++ runes_of_ascii """
] :
trueish , 255
    : Pad ,
[""`tick`""
, ""{,}"" ,// " ++ [128512]%N ++ runes_of_ascii " emoji
4294967296
, 4294967296, ""a\""b"" , ""\" ++ [233]%N ++ runes_of_ascii """
, 0123456789 ] : u128 ,
    ""it's"" // c
: pack	, ""abc"":o,
    }
    , f32 zchar `it's`,@calculatedFrom( ""a	b"" )zchar[
1
]
    msg_type // trailing space 
@calculatedFrom( ""it's""
) , @calculatedFrom( ""packet"" ) BodyLength{ i16 // trailing space 
_x`{ , }`
    //x
    , i8
    body `crlf
line` ,  }
    // packet A { u8 x, }
    , repeat i64 uint8x
    `say ""hi""`, // c
} packet// a // b
chars{ match x as options1 { 3 : //
tag
10
    //x
    :
// a // b
// a // b
repeatCount[
    65535 ] :
len ,255 : tag  00 :
    BodyLength }, @calculatedFrom( ""{,}"" ) MetaDataX,
@tag(
0
// trailing space 
//	t
)repeat
stringy	len , //	t
@calculatedFrom( ""a	b"" )/// triple
zchar[ 0123456789] lengthOf @lengthOf(
A
    )
    `u8 x,` , @lengthOf(falsey
    ) T
    `// not a comment`
,i8i8,Logon  { match
crc as BodyLength { ""1"" : // trailing space 
trueish ,
    // " ++ [27880; 37322]%N ++ runes_of_ascii "
    ""a\""b""
    :
matchKey , [ ""x y""] : tag
    ,
// trailing space 
// " ++ [128512]%N ++ runes_of_ascii " emoji
}
, float @calculatedFrom(
    """ ++ [233]%N ++ runes_of_ascii "t" ++ [233]%N ++ runes_of_ascii """ ) `line1
line2` , msg_type@lengthOf(  i8i8)
, calculatedFrom uint8x`tab	here`,
// a // b
//	t
}
    ,
    }")).
Eval vm_compute in ("<<<M4509>>>" ++ check (runes_of_ascii "packet zchar {
    match calculatedFrom as repeatCount {
        [""{,}""] : zchar,
        00 : Pad,
        0 : pack,
    },// @lengthOf(
    f64 o `" ++ [28040; 24687; 31867; 22411]%N ++ runes_of_ascii "`,
    int32 f32a @lengthOf(body) `
    `,
    char[3] chars `crlf
    line`,
}

// @lengthOf(
// packet A { u8 x, }
MetaData metadata {
    string int,
    len lengthOf,
}

root packet A {
    @tag(0123456789)
    zchar[0123456789] BodyLength,
    @leftPad('0')
    @rightPad(' ')
    zchar[0123456789] tag `it's`,
    @tag(007)
    // trailing space 
    @tag(7)
    falsey @calculatedFrom(""\" ++ [233]%N ++ runes_of_ascii """),
    @calculatedFrom(""{,}"")
    repeat Packet,
    @lengthOf(u)
    @calculatedFrom(""a\""b"")
    @lengthOf(lengthOf)
    char[] uint8x,
    @leftPad('\x00')
    // trailing space 
    repeat T {
        i8i8 a1,
        char[65535] chars `u8 x,`,
        Pad,
    },
    @lengthOf(o)
    u8 x,
    @calculatedFrom(""a	b"")
    lengthOf `// not a comment`,
    A {
        repeat calculatedFrom matchKey,
        options1 @calculatedFrom(""a	b""),// trailing space 
        repeat u `line1
        line2`,
    },
}

packet i8i8 {
}

packet pack {
    zchar[0123456789] leftPad `
    `,
    @rightPad('\x00')
    repeat int `" ++ [28040; 24687; 31867; 22411]%N ++ runes_of_ascii "`,
    match Packet as BodyLength {
        [00, 7] : falsey,
    },
    @tag(00)
    repeat zchar[1] len `u8 x,`,
    @leftPad()
    rootA @lengthOf(len),
    @tag(42)
    // `tick` ""quote"" 'q'
    @lengthOf(i64_)
    repeat len {
        x {
            Logon {
                options1 Logon,
            },
            stringy {
                string body @lengthOf(tag),
            },
            falsey falsey,
        },
        MetaDataX roots `// not a comment`,
    },
}")).
Eval vm_compute in ("<<<M68>>>" ++ check (runes_of_ascii "MetaData
len { i8 BodyLength , u32
    u `tab	here`,
    // `tick` ""quote"" 'q'
    calculatedFrom	asx `" ++ [28040; 24687; 31867; 22411]%N ++ runes_of_ascii "` /// triple
,
Logon Packet `// not a comment`
    ,
    } //
root packet string_ { zchar[ 00
]
options1	, match
x_y_z as msg_type{	""it's""
    // c
    :  T 0123456789: a1 10 :
trueish
, } ,} packet
len { int64 crc ,  body {
f64 leftPad , a1, }
    , repeat uint8x {repeat f32
string_`" ++ [28040; 24687; 31867; 22411]%N ++ runes_of_ascii "`
    , int8 T @calculatedFrom( """"
    ) `line1
line2` ,
uint8 repeatCount	,
} , u64 Foo `line1
line2`	, @tag(1 ) repeat
matchKey
{ i8	x_y_z @lengthOf(Z9_ )// packet A { u8 x, }
`tab	here` , calculatedFrom
trueish// trailing space 
, uint16 charz
    // packet A { u8 x, }
    @calculatedFrom(
    ""{,}"" )`line1
line2`	, } ,
// @lengthOf(
//
uint32
    metadata, @lengthOf( msg_type )repeat Packet { zchar[
255
]u8x @calculatedFrom( ""x y"")
//
// packet A { u8 x, }
`crlf
line`	, repeat
// `tick` ""quote"" 'q'
//
u128 ,// packet A { u8 x, }
float64 int ,
    repeat Header	{ char[ 42 ]roots
    @calculatedFrom(
    //	t
    ""CRC32"") `two words`,
roots @calculatedFrom( ""a	b"" ) `two words`
// packet A { u8 x, }
// c
, u32
    // c
    packetx
@lengthOf( roots
) , repeat float	BodyLength	`" ++ [233]%N ++ runes_of_ascii "` , } , }	,match
float
as A
{	[ 7 , ""a	b"" ]
:	Header ,[
007	, ""1""
    ]
// @lengthOf(
// @lengthOf(
: charz
    , ""\" ++ [233]%N ++ runes_of_ascii """ : i8i8 00 :	charz // packet A { u8 x, }
42	:i64_
, } , match
// `tick` ""quote"" 'q'
//
uint8x as u8x{ 255 :
    int } ,	}
")).
Eval vm_compute in ("<<<M449>>>" ++ check (runes_of_ascii "packet f32a
{ @calculatedFrom( // " ++ [27880; 37322]%N ++ runes_of_ascii "
""" ++ [128512]%N ++ runes_of_ascii """ )	char[65535
    ] Logon , }
    packet calculatedFrom { char[ 00
// c
// @lengthOf(
]
    x `u8 x,` , repeat u8x{
repeat float64
Packet ,} ,
    repeat
    Z9_ leftPad, @calculatedFrom(""{,}"" )  repeat	Header	Foo , @tag(
    4294967296)
    @calculatedFrom(
""it's"" )@lengthOf(Logon )char[ 10
    /// triple
    ] len ``, char[ 7
    ] lengthOf
// a // b
// " ++ [128512]%N ++ runes_of_ascii " emoji
@calculatedFrom( """ ++ [28040; 24687]%N ++ runes_of_ascii """ ) `
`,
    // @lengthOf(
    @lengthOf(i8i8
)  repeat //	t
string_ trueish `doc`
    ,
    // " ++ [27880; 37322]%N ++ runes_of_ascii "
    match BodyLength // a // b
as //	t
rootA // @lengthOf(
{
""packet"": uint8x , }, match u128  as float {""" ++ [233]%N ++ runes_of_ascii "t" ++ [233]%N ++ runes_of_ascii """
: stringy	""packet"" : lengthOf , """ ++ [233]%N ++ runes_of_ascii "t" ++ [233]%N ++ runes_of_ascii """
:
    // " ++ [27880; 37322]%N ++ runes_of_ascii "
    lengthOf,""" ++ [128512]%N ++ runes_of_ascii """ :
    lengthOf,""it's"" :As [""// no comment""	]  : int
// " ++ [27880; 37322]%N ++ runes_of_ascii "
/// triple
,},
    }	root packet // " ++ [27880; 37322]%N ++ runes_of_ascii "
_x	{Header `say ""hi""` ,
@leftPad ( '\x00' )@lengthOf( Packet
    ) @rightPad	( ' '  )string msg_type
    @calculatedFrom( """ ++ [233]%N ++ runes_of_ascii "t" ++ [233]%N ++ runes_of_ascii """// " ++ [128512]%N ++ runes_of_ascii " emoji
) `tab	here` ,
i64
zchar //	t
`crlf
line`
,i32
x_y_z, @tag( 7  ) @leftPad
(' ' )
@calculatedFrom(
//
//	t
""1""
    )falsey`two words` , } // " ++ [27880; 37322]%N ++ runes_of_ascii "
packet metadata { f64 u8x,
u16  o `crlf
line`
    ,  msg_type {
u8 a1 @lengthOf( u ) `it's`  ,// trailing space 
}
,@lengthOf( rootA /// triple
) f32a { repeat
    u16 uint8x, }
,//
}
    options {
} // " ++ [128512]%N ++ runes_of_ascii " emoji")).
Eval vm_compute in ("<<<M1323>>>" ++ check (runes_of_ascii "packet// c
lengthOf
{ matchKey `doc` , i8i8
{ match crc  as zchar
    {	[ 1, ""abc"" ,	0 ,
    0123456789,
65535 ]
    :chars , ""\n"" : uint8x ""a\""b"":  int ,[
""`tick`""
    ,""a	b"" , ""a	b""
    ,4294967296 , 4294967296	, """" , ""a\""b"" ] :
string_ ,
0123456789 :// @lengthOf(
A
    ,""packet""
    // a // b
    :asx  } ,char[00
//
//
] u8x
`u8 x,`, u8x { uint32 float
@calculatedFrom( ""{,}"")
,
//	t
// " ++ [128512]%N ++ runes_of_ascii " emoji
char[
0
// trailing space 
// `tick` ""quote"" 'q'
] zchar
    ,	}, falsey@calculatedFrom( """ ++ [128512]%N ++ runes_of_ascii """ )
    ,} // packet A { u8 x, }
, @calculatedFrom( ""1"" )
zchar[
255
    ]
// @lengthOf(
//
metadata
@lengthOf(	packetx	) , Header @calculatedFrom(
""CRC32"" ) ,
// c
// trailing space 
float @lengthOf(crc ) ``, @tag(42 )@lengthOf(
    A ) @lengthOf( u128) stringy// " ++ [27880; 37322]%N ++ runes_of_ascii "
`" ++ [233]%N ++ runes_of_ascii "` ,	@leftPad ( '0')
    char[4294967296  ]
float , u`" ++ [233]%N ++ runes_of_ascii "` ,@lengthOf(falsey ) // @lengthOf(
@lengthOf( /// triple
lengthOf
) repeat f32 matchKey `line1
line2`
    ,
}
options
    { lengthOf= string;}packet falsey{
@tag( 1
)int16 repeatCount
@lengthOf( charz
)
`a\` // @lengthOf(
, repeat u64 MetaDataX `say ""hi""` , } options {  x
    = // packet A { u8 x, }
""abc"" }
MetaData BodyLength {zchar[ 4294967296]	zchar ,}")).
Eval vm_compute in ("<<<M1358>>>" ++ check (runes_of_ascii "root  packet
roots {
repeat rootA`{ , }`
,BodyLength, @lengthOf(
    int )
    u64	pack
`// not a comment` , chars @lengthOf( crc
) // packet A { u8 x, }
,
// @lengthOf(
// `tick` ""quote"" 'q'
tag `u8 x,` , match x_y_z	as chars{// " ++ [128512]%N ++ runes_of_ascii " emoji
[ 65535 ,""x y""// a // b
,
    10	, 4294967296]: //x
repeatCount,
[ 255 ] // @lengthOf(
: i8i8,4294967296
    : metadata
, [ 10 , """", 255 ,0 , ""abc""
    , 10 ]  :rootA
    // @lengthOf(
    ,
[ ""1"" , ""1""
    ]
:uint8x , ["""" , 10
    // trailing space 
    ]
:
    options1 ,} ,  }packet trueish {uint16
i64_ , }
    packet zchar
    {Logon {
// " ++ [27880; 37322]%N ++ runes_of_ascii "
// @lengthOf(
match pack as
asx {[
1 ,// `tick` ""quote"" 'q'
10] : Logon , [7 ]: pack
, [
42,  ""// no comment"" ,
    7 ,00 ,65535
]
    : x
, //
""1""
: uint8x, """" :A 65535	:
u8x } ,
}  ,x `u8 x,`, @tag( 65535
) string stringy `say ""hi""`  , repeat uint16 leftPad `
` ,
match options1
as Foo
    { ""abc"" : falsey	,
3:	T
    ,}
,zchar[ 4294967296 ]
charz
    @lengthOf(	As) , i64 Packet , @lengthOf( MetaDataX ) @lengthOf( metadata	) @calculatedFrom( """ ++ [128512]%N ++ runes_of_ascii """ ) uint8 T @calculatedFrom( """ ++ [128512]%N ++ runes_of_ascii """ ) `" ++ [233]%N ++ runes_of_ascii "` , } // `tick` ""quote"" 'q'")).
Eval vm_compute in ("<<<M252>>>" ++ check (runes_of_ascii "packet u  { Header {
float64	Foo@lengthOf( Pad
    ) `{ , }`,	leftPad @calculatedFrom(""a	b"" )
    ,msg_type {
Z9_	@lengthOf(
    u8x ) ,
    falsey , len @lengthOf( float // " ++ [27880; 37322]%N ++ runes_of_ascii "
) `it's`
    , repeat int64
options1	`a\` , } , // trailing space 
} ,
//	t
// " ++ [128512]%N ++ runes_of_ascii " emoji
falsey// `tick` ""quote"" 'q'
u8x , zchar[  1 ]
x `` ,
    @lengthOf( uint8x
) crc
    @lengthOf(matchKey )  , repeat f32 string_
// `tick` ""quote"" 'q'
//
,packetx,
    // " ++ [27880; 37322]%N ++ runes_of_ascii "
    u8x
    { f64
Header , repeat uint8 uint8x , x_y_z
{  match string_
// " ++ [27880; 37322]%N ++ runes_of_ascii "
//	t
as a1 { [// `tick` ""quote"" 'q'
255
]  : f32a// @lengthOf(
, [
""packet""  ,""1"" , 00 ,
    """ ++ [128512]%N ++ runes_of_ascii """,  4294967296 , 4294967296]:Logon , } , pack @lengthOf( options1 ), zchar[  1 ] crc ``,}	, } , rootA zchar ,}
options { uint8x
= 4294967296
// " ++ [27880; 37322]%N ++ runes_of_ascii "
// @lengthOf(
tag // `tick` ""quote"" 'q'
=
float32 ; o = true ; // trailing space 
rootA =
    // @lengthOf(
    ""packet"" ; } //x
packet float
    {
    } // " ++ [27880; 37322]%N ++ runes_of_ascii "
options	{ // " ++ [27880; 37322]%N ++ runes_of_ascii "
msg_type// c
= i16 ;
    trueish = zchar[ 1 ] ; Logon =
    ""abc"" rootA = i16 ; } MetaData rootA
{
}
")).
Eval vm_compute in ("<<<M204>>>" ++ check (runes_of_ascii "options {
chars  =
    //x
    ' '	}
root packet	string_ {i8i8 @lengthOf(
Z9_ )
,	match int as chars // c
{ 007: body	,[ // packet A { u8 x, }
42 ] : int	, ""`tick`"" : options1
, } ,
@leftPad ( ' ' )uint16 crc `it's` , // a // b
float64  packetx
@lengthOf( crc // " ++ [27880; 37322]%N ++ runes_of_ascii "
)// trailing space 
, @tag(4294967296
) match int
as chars{4294967296
    : Foo ,
1:
asx 10
: Pad
    0123456789	: string_
,
3
// " ++ [27880; 37322]%N ++ runes_of_ascii "
// " ++ [128512]%N ++ runes_of_ascii " emoji
: T , ""it's""  : As  } , repeat  float falsey `say ""hi""`  ,
match uint8x as zchar { ""// no comment""
    : body
, 0123456789 : crc , ""{,}"" : o } ,repeat o chars ,uint32
As
`doc` ,
repeat trueish
{ char[
    7
] i64_
`{ , }`  , }
, } packet
    Packet {
zchar[ 0123456789 ] matchKey @lengthOf( chars
)  ,  x
//	t
// a // b
{
u64 o ,} , zchar[
    // a // b
    1 ]
    MetaDataX
@calculatedFrom(
"""" ), char[]lengthOf// trailing space 
@calculatedFrom( // " ++ [27880; 37322]%N ++ runes_of_ascii "
""a\""b""
) `
` ,@rightPad( ' ' ) //	t
uint16
len `a\` , @lengthOf( //x
tag )
char[ 65535
] pack ``, }
")).
Eval vm_compute in ("<<<M196>>>" ++ check (runes_of_ascii "/// triple
MetaData roots
    { string
Z9_ `say ""hi""`
    //
    ,o
    tag ,char[4294967296 // " ++ [128512]%N ++ runes_of_ascii " emoji
] body `crlf
line`
,
    _x lengthOf `tab	here` , } options { repeatCount	= ""x y"" ; T = """ ++ [28040; 24687]%N ++ runes_of_ascii """ }
    /// triple
    packet int{ @calculatedFrom( ""CRC32"" )int64 f32a, roots @calculatedFrom( ""it's"" )`` ,@calculatedFrom(""a\\"" )@tag( 007 ) char[ 255//	t
] crc @lengthOf(packetx )
    ,
match
    Pad as string_ { [""\" ++ [233]%N ++ runes_of_ascii """,3
    // " ++ [27880; 37322]%N ++ runes_of_ascii "
    ] : lengthOf  ,[ 42
    ]:
// packet A { u8 x, }
// packet A { u8 x, }
body ,
7 : i8i8
    ,0123456789:
options1
,//x
[ 00 ] : Z9_ ,  }// @lengthOf(
,float
,// " ++ [27880; 37322]%N ++ runes_of_ascii "
} MetaData zchar
    {
    zchar[
3 ]
    options1
    `line1
line2` ,}  packet asx
{ zchar[
    42// " ++ [128512]%N ++ runes_of_ascii " emoji
]
falsey ,	@calculatedFrom(
""1""
)
repeat string As `" ++ [233]%N ++ runes_of_ascii "`, char[] trueish
    , int32 Header , repeat  stringy
`crlf
line`, string
x_y_z,
f64 T
//x
// `tick` ""quote"" 'q'
, uint8x
@lengthOf( charz
)
    `a\` , }")).
Eval vm_compute in ("<<<M3649>>>" ++ check (runes_of_ascii "options {
    LittleEndian = false;
    FixedStringPadFromLeft = false;
    FixedStringPadChar = ' ';
}
packet Fill {
    uint16 Qty,
    uint64 clOrdID,
    repeat i64 Flags,
}
packet Ack {
    zchar[7] clOrdID,
    u64 lastPx,
    char[] Note,
    repeat Fill,
    int32 count,
}
packet Quote {
    u8 venue,
    InRef40 {
        char[] Qty,
    },
    zchar[5] Flags,
    @rightPad('\x00') char[12] msgKind,
}
packet Logout {
    InSym79 {
        int32 Qty,
        Fill,
        char[3] x,
        repeat InNote29 {
            i16 price,
            Ack,
            f64 x,
            zchar[8] count,
        },
    },
}
root packet Logon {
    zchar[1] sym,
    u32 count,
    u16 tag7 @lengthOf(Body),
    match count as Body {
        [122, 152] : Ack,
        118 : Logout,
        61 : Quote,
        161 : Fill,
    },
    u32 Acct @calculatedFrom(""CRC32""),
}
")).
Eval vm_compute in ("<<<M759>>>" ++ check (runes_of_ascii "packet x {
    u16
    msg_type @lengthOf(BodyLength ) ,// trailing space 
@calculatedFrom(  """ ++ [28040; 24687]%N ++ runes_of_ascii """ ) repeat Header { char[
    0123456789 ] // " ++ [128512]%N ++ runes_of_ascii " emoji
repeatCount ,zchar[ 7] i64_
@calculatedFrom(
""" ++ [28040; 24687]%N ++ runes_of_ascii """ ) , repeat T zchar`tab	here`,
    } , uint8
    body`doc`, repeat char[]i8i8 ,
uint32 f32a@calculatedFrom(
""`tick`""
// packet A { u8 x, }
// packet A { u8 x, }
) ,
@rightPad ( ' ' ) match
rootA as matchKey{
42:
lengthOf
    // `tick` ""quote"" 'q'
    ""// no comment"" : Z9_ , [""a\\"" , /// triple
1]:
    // @lengthOf(
    len
, 10
:trueish,
    }
    ,
    f64 Logon
@lengthOf( T ) //
`crlf
line` , match
/// triple
// @lengthOf(
float	as i8i8 { ""\n"": i64_ , } ,
@lengthOf( u8x)// trailing space 
@leftPad
('\x00'
    ) char[  007] body	`it's` , @leftPad (
'0' )
    string crc @calculatedFrom( ""a\\"" ) `" ++ [28040; 24687; 31867; 22411]%N ++ runes_of_ascii "`  , }
")).
Eval vm_compute in ("<<<M1346>>>" ++ check (runes_of_ascii "packet	i64_
    // `tick` ""quote"" 'q'
    { @lengthOf(  charz )  zchar[
00  ]charz	`
`	,@rightPad ( '0')
@calculatedFrom(  ""`tick`"" ) i16 charz , repeat Pad { uint8x
MetaDataX , int { repeat // packet A { u8 x, }
uint64 u8x ,// packet A { u8 x, }
repeat
    // `tick` ""quote"" 'q'
    uint8x
    { // a // b
repeat Z9_
x_y_z ,
    match
    x_y_z
// a // b
// a // b
as _x {
    007 :crc	,
[ 00 ,  0
, 1 , 007 ,
4294967296 ]:
    u128
,  }
, char[
    42
//	t
//
] float,}, } , char[]x
    ,repeat
zchar  {
match
Logon  as rootA {	0
:
    chars , [ 42
] :repeatCount
    // c
    ,
""" ++ [233]%N ++ runes_of_ascii "t" ++ [233]%N ++ runes_of_ascii """
:	BodyLength, ""x y"" : Z9_
, [4294967296	, 42 ,
3 , 255 , 00 ,
    ""x y"" , 10
    , 42 ]
    : falsey , }, },
}  , }// a // b
packet	options1// " ++ [128512]%N ++ runes_of_ascii " emoji
{ // c
len @lengthOf(T
), }")).
Eval vm_compute in ("<<<M4137>>>" ++ check (runes_of_ascii "root packet pack {
}

MetaData falsey {
    char[] A `// not a comment`,
}

packet uint8x {
    repeat o {
        u64 string_ @calculatedFrom(""" ++ [233]%N ++ runes_of_ascii "t" ++ [233]%N ++ runes_of_ascii """),
    },
    repeat string_ `" ++ [28040; 24687; 31867; 22411]%N ++ runes_of_ascii "`,
    repeat u {
        packetx @lengthOf(len) `doc`,
    },
    @lengthOf(u8x)
    float32 MetaDataX @calculatedFrom(""" ++ [233]%N ++ runes_of_ascii "t" ++ [233]%N ++ runes_of_ascii """),
    uint8 MetaDataX `it's`,
    @rightPad('\x00')
    repeat crc {
        x_y_z @lengthOf(As) `line1
        line2`,
        i32 repeatCount,
        // a // b
        // @lengthOf(
        repeat Pad {
            repeat string_ `" ++ [233]%N ++ runes_of_ascii "`,
            leftPad {
                char[] float,
            },
        },
    },
    @calculatedFrom(""it's"")
    zchar[42] A @lengthOf(matchKey),
    roots @calculatedFrom(""CRC32"") `a\`,
}")).
Eval vm_compute in ("<<<M4279>>>" ++ check (runes_of_ascii "// @lengthOf(
MetaData Pad {
}

MetaData msg_type {
    // packet A { u8 x, }
    packetx i64_,
    char[1] Foo `" ++ [233]%N ++ runes_of_ascii "`,
}

MetaData o {
}

// `tick` ""quote"" 'q'
options {
    MetaDataX = u32;
    // @lengthOf(
    //x
    trueish = '0'
    options1 = 65535;
    Pad = '0';
    x_y_z = ""a\""b""
}

packet chars {
    @calculatedFrom(""a\\"")
    //	t
    match charz as Foo {
        [4294967296, ""CRC32"", 3, ""a\""b"", ""CRC32""] : i8i8,
    },
    @calculatedFrom(""" ++ [233]%N ++ runes_of_ascii "t" ++ [233]%N ++ runes_of_ascii """)
    char[] chars @calculatedFrom(""// no comment""),
    char[] x_y_z,
    @lengthOf(trueish)
    @lengthOf(packetx)
    @lengthOf(packetx)
    Logon @calculatedFrom(""it's""),
    string _x,
    uint32 packetx,
    repeat MetaDataX `tab	here`,
}")).
Eval vm_compute in ("<<<M1370>>>" ++ check (runes_of_ascii "packet
    //	t
    As { @tag( 10 )@lengthOf(
    chars ) zchar {
//x
// `tick` ""quote"" 'q'
metadata { Header`it's`, match
body
as i64_ // trailing space 
{ ""// no comment""
    :
    packetx ,} /// triple
, match
repeatCount	as asx{255
    :
    Foo ,	3 :	int , ""1"" :
chars , }
, uint32 repeatCount@lengthOf(
    // c
    BodyLength )
    ``
    , } ,roots , repeat	rootA `` ,
char MetaDataX@lengthOf( crc
) , } ,
    // a // b
    _x {
    match As	as Foo// @lengthOf(
{ 1 :
    // " ++ [27880; 37322]%N ++ runes_of_ascii "
    stringy
//x
//	t
,}
, }
    ,
    u8	Foo ,  @calculatedFrom( """")
    BodyLength	, char[
    007
    ]
Z9_@calculatedFrom(
""CRC32"" ) , lengthOf , i32 //x
f32a `{ , }` ,
}")).
Eval vm_compute in ("<<<M3669>>>" ++ check (runes_of_ascii "// top
options // c0
{ // c1a
  // c1b
LittleEndian // c2
= true // c4a
  // c4b
; // c5
} // c6a
  // c6b
packet
    // c7
Sub { u8
    // c10
a // c11a
  // c11b
, @calculatedFrom(
    // c13
""CRC16"" // c14
) // c15
u64 SubSum
    // c17
, } // c19
root // c20
packet
    // c21
Frame // c22a
  // c22b
{
    // c23
u16 // c24
MsgType
    // c25
, u16
    // c27
BodyLen // c28a
  // c28b
@lengthOf( Body ) // c31a
  // c31b
,
    // c32
Sub
    // c33
Body // c34
, string // c36
note , // c38
@calculatedFrom( ""CRC16"" // c40a
  // c40b
) // c41
u64
    // c42
Checksum ,
    // c44
u8
    // c45
tail , // c47
}
    // c48
")).
Eval vm_compute in ("<<<M4107>>>" ++ check (runes_of_ascii "//x
packet _x {
    repeat charz {
        repeat asx,//x
        string metadata,//x
        uint64 a1 @calculatedFrom(""it's"") `a\`,
    },
    @rightPad()
    msg_type len ``,
    MetaDataX asx,
    @rightPad('\x00')
    zchar[3] int,
}

packet Packet {
    @leftPad()
    string_ {
        repeat calculatedFrom `it's`,
    },
    @calculatedFrom(""a	b"")
    @tag(00)
    @rightPad(' ')
    u64 stringy @calculatedFrom(""a	b""),
    @leftPad('\x00')
    options1 `" ++ [233]%N ++ runes_of_ascii "`,
    @rightPad()
    repeat char[007] Foo `line1
    line2`,
}

options {
    len = '\x00';
    roots = ""{,}""
    packetx = i64;
}")).
Eval vm_compute in ("<<<M3578>>>" ++ check (runes_of_ascii "// top
packet // c0a
  // c0b
A // c1a
  // c1b
{ // c2
u8 a // c4a
  // c4b
, // c5a
  // c5b
} packet
    // c7
B // c8a
  // c8b
{ // c9a
  // c9b
u16 // c10a
  // c10b
b
    // c11
,
    // c12
} // c13
root // c14
packet // c15a
  // c15b
P { // c17
u8 // c18a
  // c18b
K1 , // c20a
  // c20b
u8 // c21
K2 , // c23
match K1
    // c25
as M1 // c27
{ // c28a
  // c28b
1 // c29a
  // c29b
:
    // c30
A // c31a
  // c31b
, // c32a
  // c32b
} , match // c35
K2 as
    // c37
M2
    // c38
{ 1 // c40a
  // c40b
:
    // c41
B , } // c44
,
    // c45
}
    // c46
")).
Eval vm_compute in ("<<<M614>>>" ++ check (runes_of_ascii "root packet
packetx
    {	string_  leftPad ,
// " ++ [27880; 37322]%N ++ runes_of_ascii "
//x
} root
    packet  o
{x metadata `it's`, uint8
metadata , i32
    trueish, i64_ @calculatedFrom( ""`tick`"") ,// packet A { u8 x, }
match matchKey  as
repeatCount {[ //x
""`tick`""
]
: Pad , 10
    :
    // `tick` ""quote"" 'q'
    charz ,  7 : msg_type// c
}
, float64 body
    @calculatedFrom( ""it's"") ,x_y_z @lengthOf(Header /// triple
),body @calculatedFrom(
    """ ++ [28040; 24687]%N ++ runes_of_ascii """
    )`{ , }` ,
} options{ } // " ++ [128512]%N ++ runes_of_ascii " emoji
options{ Z9_/// triple
=
    true;Z9_ = false leftPad = //x
' 'As =char[] ;	}")).
Eval vm_compute in ("<<<M145>>>" ++ check (runes_of_ascii "root //	t
packet
BodyLength { zchar[ 10
]
u128
    ,
uint8 zchar ``
    , repeat falsey ,float64 chars@calculatedFrom( """ ++ [128512]%N ++ runes_of_ascii """
) , char[]matchKey, repeat //x
uint16 matchKey ,
@calculatedFrom( ""CRC32"" ) char[ 3 ] u `" ++ [28040; 24687; 31867; 22411]%N ++ runes_of_ascii "` , @leftPad ( '0'
    //	t
    ) u64  charz @calculatedFrom(""" ++ [128512]%N ++ runes_of_ascii """), }
root packet chars //
{} MetaData Z9_{ zchar[ 255 ] _x,int32 f32a , int8
asx `` ,
o
packetx // `tick` ""quote"" 'q'
, }
    options
// trailing space 
// c
{	A
=
4294967296
//
// packet A { u8 x, }
;
Foo = ""x y"" ;Foo =  ' ' } //	t")).
Eval vm_compute in ("<<<M4458>>>" ++ check (runes_of_ascii "
packet
    lengthOf 
{  f64
    lengthOf

@lengthOf(

    a1 
) `" ++ [28040; 24687; 31867; 22411]%N ++ runes_of_ascii "` , uint64 
Logon
	`" ++ [233]%N ++ runes_of_ascii "`
, 
string

    Pad  @calculatedFrom(
""\n""	) 
/// triple
// trailing space 
	,
zchar[0123456789]Foo

@lengthOf(charz	) `// not a comment`,

@rightPad

    (
    ) match
falsey as  Packet{
	""""
    :	u 
,

65535
:
    float	,  [  4294967296] :

trueish // trailing space 
  ,

    [
10
	, 0123456789]
: Logon

    ,

1
: roots

    [	7
,
""\" ++ [233]%N ++ runes_of_ascii """
,00 
        //
		] :

float,

}

,
}

")).
Eval vm_compute in ("<<<M4610>>>" ++ check (runes_of_ascii "MetaData u {
    int8 body,
    string Packet,
}

options {
    matchKey = float64;
}

packet roots {
    // " ++ [128512]%N ++ runes_of_ascii " emoji
    @calculatedFrom(""abc"")
    match MetaDataX as _x {
        007 : o,
        [
            42, ""x y"", 65535, 1, 65535,
            ""a	b"", 4294967296, 00
        ] : f32a,
        ""CRC32"" : repeatCount,
        ""CRC32"" : u128,
    },
}

options {
}

MetaData uint8x {
    char[] u128,
    body crc `
        `,
    lengthOf rootA,// " ++ [128512]%N ++ runes_of_ascii " emoji
    i8 crc,
}")).
Eval vm_compute in ("<<<M1192>>>" ++ check (runes_of_ascii "packet
    x_y_z { i64 A @lengthOf( u128 ) `a\` ,
int8
    pack `u8 x,` ,	@calculatedFrom( """ ++ [233]%N ++ runes_of_ascii "t" ++ [233]%N ++ runes_of_ascii """ )Foo repeatCount ,//
@calculatedFrom(	""" ++ [28040; 24687]%N ++ runes_of_ascii """
) uint8 tag
    // " ++ [27880; 37322]%N ++ runes_of_ascii "
    , u32
crc@calculatedFrom( ""a\\"" // packet A { u8 x, }
)
, // c
@calculatedFrom( ""a	b"" ) string u8x
`// not a comment`
,
@tag( 255  )
    @calculatedFrom(
""" ++ [128512]%N ++ runes_of_ascii """
    // `tick` ""quote"" 'q'
    )char[
    65535
    ] lengthOf
    `{ , }`, u16
    charz, } MetaData body {Logon Pad
, } 	 ")).
Eval vm_compute in ("<<<M458>>>" ++ check (runes_of_ascii "packet tag {match asx as u128 {""1"" : T 0123456789 // trailing space 
:rootA ,
    7 : i8i8	,
65535 : // `tick` ""quote"" 'q'
chars , }
    ,
zchar[
7 ] options1 , zchar[255]
asx, @leftPad( '0' ) stringy
`" ++ [28040; 24687; 31867; 22411]%N ++ runes_of_ascii "`
,  u64 zchar
@calculatedFrom(
    // c
    ""\n"" )
, len
// `tick` ""quote"" 'q'
// c
@calculatedFrom( ""// no comment""
)  `" ++ [28040; 24687; 31867; 22411]%N ++ runes_of_ascii "`//	t
, @leftPad(  '0' ) tag @lengthOf(	calculatedFrom ) , repeat
    //
    uint64 metadata`a\`,}
")).
Eval vm_compute in ("<<<M4187>>>" ++ check (runes_of_ascii "// top
options {
    // c1a
    // c1b
    LittleEndian = true;// c5
}

// c6
packet Logon {
    // c9
    u8 x,// c12
    string user,
    // c15
}

packet Logout {
    // c19
    u16 reason,// c22
}

packet Empty {
    // c26
}// c27

root packet Frame {
    // c31
    u16 MsgType,// c34a
    // c34b
    u16 BodyLen @lengthOf(Body),
    u8 flags,
    Logon Body,// c46
    u32 trailer,
    // c49
}// c50a
// c50b")).
Eval vm_compute in ("<<<M3890>>>" ++ check (runes_of_ascii "packet body {
    Pad {
        a1 `crlf
                line`,
        zchar[007] a1,
        char[10] x_y_z,
        repeat zchar[1] metadata `u8 x,`,
    },
    string trueish,
    repeat uint8x u,
    @tag(007)
    calculatedFrom {
        repeat BodyLength `doc`,
    },
    int64 lengthOf,/// triple
    @lengthOf(leftPad)
    @calculatedFrom(""x y"")
    @calculatedFrom(""\" ++ [233]%N ++ runes_of_ascii """)
    falsey a1,
}")).
Eval vm_compute in ("<<<M365>>>" ++ check (runes_of_ascii "root
packet //x
pack
{ match matchKey //	t
as
int // @lengthOf(
{ 00 : metadata
    ,
    ""a\\""
    : o ,
""// no comment"" :// `tick` ""quote"" 'q'
x ,
[
""packet""] : A
, [ ""\n"",0123456789 , 00 , ""// no comment"" ,007 ,
255,
1 ,// c
0 ]
    // a // b
    : metadata ,[ 00] : Pad ,} , } // @lengthOf(
MetaData tag
{uint64 i64_`doc` ,
    } packet BodyLength { repeat
u32
u128 , }
")).
Eval vm_compute in ("<<<M454>>>" ++ check (runes_of_ascii "//	t
packet Header
    { @tag( 0 ) float64
    //
    u128 , @tag(65535
    ) pack `line1
line2`
,
    @tag(1
    // @lengthOf(
    )trueish	{
// " ++ [128512]%N ++ runes_of_ascii " emoji
// c
repeat u `it's`  ,} , @lengthOf( repeatCount )	@calculatedFrom(""it's"" )
    @lengthOf(
a1 ) string_@lengthOf( string_ ) , }
MetaData leftPad	{ u8 pack	, // `tick` ""quote"" 'q'
} packet msg_type { Z9_,
}")).
Eval vm_compute in ("<<<M3730>>>" ++ check (runes_of_ascii "options {
    roots = '\x00'
    lengthOf = true;
    Packet = ""packet"";
    o = ""packet"";
    A = true;// trailing space 
}

packet body {
    _x,
    zchar[65535] Header @calculatedFrom("""") `u8 x,`,
}

root packet T {
    @tag(7)
    @tag(0)
    @leftPad('0')
    // a // b
    int64 x @lengthOf(Packet),
    msg_type stringy `" ++ [28040; 24687; 31867; 22411]%N ++ runes_of_ascii "`,
}/// triple")).
Eval vm_compute in ("<<<M4365>>>" ++ check (runes_of_ascii "root packet BodyLength {
    uint16 As `crlf
        line`,
}

packet A {
    @calculatedFrom(""{,}"")
    f32 trueish `// not a comment`,// `tick` ""quote"" 'q'
}

packet i8i8 {
    zchar[007] leftPad,
    @tag(10)
    tag @lengthOf(o),
    float64 T,
    @calculatedFrom(""a\""b"")
    string uint8x @calculatedFrom(""abc"") `two words`,
}")).
Eval vm_compute in ("<<<M660>>>" ++ check (runes_of_ascii "packet
BodyLength { }
root packet
Logon//x
{
@tag(	10 ) @tag(0123456789 )
    //x
    repeat float32
Pad	,	}
    packet
f32a{// `tick` ""quote"" 'q'
@rightPad// " ++ [128512]%N ++ runes_of_ascii " emoji
( ' '
    ) // a // b
repeat chars body , x_y_z @lengthOf( matchKey) ,
repeat
float64
    //x
    Logon
    , repeat zchar[
4294967296 //
] Foo
, }")).
Eval vm_compute in ("<<<M1926>>>" ++ check (runes_of_ascii "MetaData
    u { }  options {
// c
// @lengthOf(
float = int8 ;rootA =false ; As As =	int16 // `tick` ""quote"" 'q'
repeatCount
    // trailing space 
    =
    int16
; u8x =
    //	t
    '\x00' ; } options	{
    repeatCount
= 0
u128
    //
    = false ; i64_
// trailing space 
// `tick` ""quote"" 'q'
= '0' ; //	t
}
")).
Eval vm_compute in ("<<<M2063>>>" ++ check (runes_of_ascii "MetaData
    u { }  options {
// c
// @lengthOf(
float = int8 ;rootA =false ; As =	int16 // `tick` ""quote"" 'q'
repeatCount
    // trailing space 
    =
    int16
; u8x =
    //	t
    '\x00' ; " ++ [8232]%N ++ runes_of_ascii " } options	{
    repeatCount
= 0
u128
    //
    = false ; i64_
// trailing space 
// `tick` ""quote"" 'q'
= '0' ; //	t
}
")).
Eval vm_compute in ("<<<M1892>>>" ++ check (runes_of_ascii "MetaData
    u { }  options {
// c
// @lengthOf(
float int8 = ;rootA =false ; As =	int16 // `tick` ""quote"" 'q'
repeatCount
    // trailing space 
    =
    int16
; u8x =
    //	t
    '\x00' ; } options	{
    repeatCount
= 0
u128
    //
    = false ; i64_
// trailing space 
// `tick` ""quote"" 'q'
= '0' ; //	t
}
")).
Eval vm_compute in ("<<<M2042>>>" ++ check (runes_of_ascii "MetaData
    u { }  options {
// c
// @lengthOf(
float = int8 ;rootA =false ; As =	int16 // `tick` ""quote"" 'q'
repeatCount
    // trailing space 
    =
    int16
; u8x =
    //	t
    '\x00' ; } options	{
    repeatCount
= 0
u128
    //
    = false ; i64_
// trailing space 
// `tick` ""quote"" 'q'
= ; '0' //	t
}
")).
Eval vm_compute in ("<<<M510>>>" ++ check (runes_of_ascii "// trailing space 
root
packet x_y_z //	t
{ @leftPad (
    )
repeat
rootA  {BodyLength body`
` ,
u8 leftPad
@calculatedFrom( ""1""	)``,
char[007 ] i64_ , } ,u32
// trailing space 
// c
zchar `line1
line2`, char[ 10
    // packet A { u8 x, }
    ]
    //	t
    i8i8 @calculatedFrom( """ ++ [233]%N ++ runes_of_ascii "t" ++ [233]%N ++ runes_of_ascii """ ) , }
packet a1
    {}
")).
Eval vm_compute in ("<<<M1985>>>" ++ check (runes_of_ascii "MetaData
    u { }  options {
// c
// @lengthOf(
float = int8 ;rootA =false ; As =	int16 // `tick` ""quote"" 'q'
repeatCount
    // trailing space 
    =
    int16
; u8x =
    //	t
    '\x00' ; } 	{
    repeatCount
= 0
u128
    //
    = false ; i64_
// trailing space 
// `tick` ""quote"" 'q'
= '0' ; //	t
}
")).
Eval vm_compute in ("<<<M4103>>>" ++ check (runes_of_ascii "root packet crc {
    @rightPad('\x00')
    // a // b
    repeat i64 As,
    // @lengthOf(
    // a // b
}

packet body {
}

packet uint8x {
    options1 @calculatedFrom(""a	b""),
}

MetaData Packet {
}

/// triple
//
MetaData falsey {
    char[007] tag `it's`,
    As leftPad `line1
        line2`,
}")).
Eval vm_compute in ("<<<M3425>>>" ++ check (runes_of_ascii "// top
packet
    // c0
o
    // c1
{
    // c2
repeat
    // c3
Logon
    // c4
uint8x
    // c5
,
    // c6
}
    // c7
options
    // c8
{
    // c9
asx
    // c10
=
    // c11
zchar[
    // c12
3
    // c13
]
    // c14
stringy
    // c15
=
    // c16
'\x00'
    // c17
}
    // c18
")).
Eval vm_compute in ("<<<M4470>>>" ++ check (runes_of_ascii "packet packetx {
    match i64_ as roots {
        7 : x,
        42 : asx,
        65535 : i64_,
        [00, 1] : Z9_,
        [""\n"", 3, 007] : float,
    },
}

MetaData metadata {
    char[] Header `" ++ [28040; 24687; 31867; 22411]%N ++ runes_of_ascii "`,
    Foo stringy,
    uint64 body,
    f32 a1,
}

packet chars {
}")).
Eval vm_compute in ("<<<M3598>>>" ++ check (runes_of_ascii "packet MDSnapshotZZ {
    u8 a,
}
packet OrderACK {
    u16 b,
}
packet HTTPServerInfo {
    string s,
}
root packet FIXMsg {
    u8 KType,
    MDSnapshotZZ,
    repeat OrderACK,
    match KType as Body {
        1 : HTTPServerInfo,
        2 : OrderACK,
    },
}
")).
Eval vm_compute in ("<<<M963>>>" ++ check (runes_of_ascii "packet falsey {
    // a // b
    char[]x_y_z @lengthOf(  u ) `two words` , } MetaData Packet
{
    char[
3  ] rootA `line1
line2`
,
    string
    A ,
} root packet string_ {uint8
calculatedFrom  @lengthOf( u128 )
`line1
line2`, char[ 3] Z9_ ,float , }
")).
Eval vm_compute in ("<<<M1520>>>" ++ check (runes_of_ascii "packet
//	t
// trailing space 
_x {
// packet A { u8 x, }
// c
char[
3
    ] uint8 @lengthOf(
u8x ) , @calculatedFrom(""" ++ [128512]%N ++ runes_of_ascii """ // @lengthOf(
)
i16	Foo
@lengthOf(	string_
    )`doc`	, repeat	i64 metadata , @lengthOf( string_
) i8 // c
u  `line1
line2`	,
}
")).
Eval vm_compute in ("<<<M1668>>>" ++ check (runes_of_ascii "packet
//	t
// trailing space 
_x {
// packet A { u8 x, }
// c
char[
3
    ] u8x @lengthOf" ++ [127]%N ++ runes_of_ascii "(
u8x ) , @calculatedFrom(""" ++ [128512]%N ++ runes_of_ascii """ // @lengthOf(
)
i16	Foo
@lengthOf(	string_
    )`doc`	, repeat	i64 metadata , @lengthOf( string_
) i8 // c
u  `line1
line2`	,
}
")).
Eval vm_compute in ("<<<M1604>>>" ++ check (runes_of_ascii "packet
//	t
// trailing space 
_x {
// packet A { u8 x, }
// c
char[
3
    ] u8x @lengthOf(
u8x ) , @calculatedFrom(""" ++ [128512]%N ++ runes_of_ascii """ // @lengthOf(
)
i16	Foo
@lengthOf(	string_
    )`doc`	, repeat	i64 , metadata @lengthOf( string_
) i8 // c
u  `line1
line2`	,
}
")).
Eval vm_compute in ("<<<M1491>>>" ++ check (runes_of_ascii "true
//	t
// trailing space 
_x {
// packet A { u8 x, }
// c
char[
3
    ] u8x @lengthOf(
u8x ) , @calculatedFrom(""" ++ [128512]%N ++ runes_of_ascii """ // @lengthOf(
)
i16	Foo
@lengthOf(	string_
    )`doc`	, repeat	i64 metadata , @lengthOf( string_
) i8 // c
u  `line1
line2`	,
}
")).
Eval vm_compute in ("<<<M1617>>>" ++ check (runes_of_ascii "packet
//	t
// trailing space 
_x {
// packet A { u8 x, }
// c
char[
3
    ] u8x @lengthOf(
u8x ) , @calculatedFrom(""" ++ [128512]%N ++ runes_of_ascii """ // @lengthOf(
)
i16	Foo
@lengthOf(	string_
    )`doc`	, repeat	i64 metadata , @lengthOf( 
) i8 // c
u  `line1
line2`	,
}
")).
Eval vm_compute in ("<<<M3612>>>" ++ check (runes_of_ascii "
packet
Logon{ 
string user 
, } 
root packet

    Frame  {
u8

K, match
K as
Body	{ 1

:
	Logon
, 2

    : Logout

    ,  } ,

Tail ,	}
	packet
Logout
    {u16
    reason  ,

    }	packet Tail
    {

    u32  crc
    , }
")).
Eval vm_compute in ("<<<M4139>>>" ++ check (runes_of_ascii "
packet 	 // a // b
	  rootA{ Z9_ 	 // c
	  u

`doc`,// packet A { u8 x, }
i16

options1

    `// not a comment` , @rightPad
    (
    ' ') lengthOf {
    zchar[// a // b
    	3 // packet A { u8 x, }
    ]body
    , 
},	} ")).
Eval vm_compute in ("<<<M527>>>" ++ check (runes_of_ascii "root packet repeatCount{ T {
char[ 255 ] T
// c
// packet A { u8 x, }
`a\`,zchar[ 00// trailing space 
]Foo	@lengthOf( repeatCount
    )// " ++ [128512]%N ++ runes_of_ascii " emoji
, Foo x_y_z
, packetx @calculatedFrom( ""packet""
    )// " ++ [27880; 37322]%N ++ runes_of_ascii "
,
}
    , }
")).
Eval vm_compute in ("<<<M1692>>>" ++ check (runes_of_ascii "options { trueish = ""`tick`"" ""`tick`"" ; string_= """ ++ [233]%N ++ runes_of_ascii "t" ++ [233]%N ++ runes_of_ascii """
    // c
    } root
    packet body { stringy @calculatedFrom(
""a	b"" ) `line1
line2` , }
packet Logon {
    @leftPad(
    ' ' ) //	t
u16 string_ `u8 x,` ,
}
")).
Eval vm_compute in ("<<<M1699>>>" ++ check (runes_of_ascii "options { trueish = ""`tick`"" float32 string_= """ ++ [233]%N ++ runes_of_ascii "t" ++ [233]%N ++ runes_of_ascii """
    // c
    } root
    packet body { stringy @calculatedFrom(
""a	b"" ) `line1
line2` , }
packet Logon {
    @leftPad(
    ' ' ) //	t
u16 string_ `u8 x,` ,
}
")).
Eval vm_compute in ("<<<M1724>>>" ++ check (runes_of_ascii "options { trueish = ""`tick`"" ; string_= """ ++ [233]%N ++ runes_of_ascii "t" ++ [233]%N ++ runes_of_ascii """
    // c
    } '\x00'
    packet body { stringy @calculatedFrom(
""a	b"" ) `line1
line2` , }
packet Logon {
    @leftPad(
    ' ' ) //	t
u16 string_ `u8 x,` ,
}
")).
Eval vm_compute in ("<<<M422>>>" ++ check (runes_of_ascii "packet lengthOf {
} packet
Z9_
{ } packet  uint8x { leftPad Foo
    // `tick` ""quote"" 'q'
    `" ++ [233]%N ++ runes_of_ascii "` , // c
@calculatedFrom(
//
/// triple
""\n"" ) @calculatedFrom( """ ++ [128512]%N ++ runes_of_ascii """ ) zchar[  0123456789
    ]metadata
,}
")).
Eval vm_compute in ("<<<M1799>>>" ++ check (runes_of_ascii "options { trueish = ""`tick`"" ; string_= """ ++ [233]%N ++ runes_of_ascii "t" ++ [233]%N ++ runes_of_ascii """
    // c
    } root
    packet body { stringy @calculatedFrom(
""a	b"" ) `line1
line2` , }
packet Logon {
    @leftPad;
    ' ' ) //	t
u16 string_ `u8 x,` ,
}
")).
Eval vm_compute in ("<<<M1734>>>" ++ check (runes_of_ascii "options { trueish = ""`tick`"" ; string_= """ ++ [233]%N ++ runes_of_ascii "t" ++ [233]%N ++ runes_of_ascii """
    // c
    } root
    packet { { stringy @calculatedFrom(
""a	b"" ) `line1
line2` , }
packet Logon {
    @leftPad(
    ' ' ) //	t
u16 string_ `u8 x,` ,
}
")).
Eval vm_compute in ("<<<M1162>>>" ++ check (runes_of_ascii "packet
chars{ @tag( 7 )char options1
    // a // b
    @calculatedFrom( ""a\""b"" ) , Logon	,  zchar[	42 ]u128 ,} options { roots
    =
false ; u128 ='0' ; metadata = uint8 ;  falsey
= //x
true ;	}
")).
Eval vm_compute in ("<<<M185>>>" ++ check (runes_of_ascii "packet a1 {
    char[ 0 ]
len
    `two words` , char[ 00 ]packetx ,} MetaData pack // a // b
{	int64 a1 `crlf
line` ,i64_  Foo,
char[0123456789
// " ++ [128512]%N ++ runes_of_ascii " emoji
// " ++ [27880; 37322]%N ++ runes_of_ascii "
] x
    `tab	here` ,
    }

")).
Eval vm_compute in ("<<<M3210>>>" ++ check (runes_of_ascii "packet metadata // c1a
  // c1b
{ Logon // c3
{ // c4
A `" ++ [28040; 24687; 31867; 22411]%N ++ runes_of_ascii "`
    // c6
, // c7a
  // c7b
tag o , // c10a
  // c10b
} // c11a
  // c11b
, // c12
zchar len // c14
`// not a comment` , } ")).
Eval vm_compute in ("<<<M966>>>" ++ check (runes_of_ascii "packet metadata
    {}
    packet charz // `tick` ""quote"" 'q'
{
    repeat
string len ,string_@lengthOf(
x_y_z )
`" ++ [233]%N ++ runes_of_ascii "`
, repeat asx,
    // @lengthOf(
    } MetaData
f32a
    { }")).
Eval vm_compute in ("<<<M742>>>" ++ check (runes_of_ascii "options { packetx
=zchar[4294967296 ] ; }
options {	} MetaData uint8x {char[ 3 ]	o `
`
// a // b
// `tick` ""quote"" 'q'
, crc string_ ,
    char[]
int,// trailing space 
}")).
Eval vm_compute in ("<<<M1201>>>" ++ check (runes_of_ascii "packet
falsey {lengthOf
{ char[
    // packet A { u8 x, }
    65535 ] Header	@calculatedFrom(""a\\""
)
    /// triple
    ,
repeat x
len,},
    } MetaData
x_y_z {	}
")).
Eval vm_compute in ("<<<M1083>>>" ++ check (runes_of_ascii "// c
options
    //	t
    {
// `tick` ""quote"" 'q'
/// triple
repeatCount =
    00 tag
= ""{,}""MetaDataX = '0'o=
""`tick`""
//x
// `tick` ""quote"" 'q'
a1 = ""abc""
}
")).
Eval vm_compute in ("<<<M2175>>>" ++ check (runes_of_ascii "options{
_x
= true
} options
{ o	= /// triple
false
    ; chars
= ""\n"" } root packet	Pad
/// triple
// packet A { u8 x, }
{	chars chars
    // a // b
    ,}")).
Eval vm_compute in ("<<<M2326>>>" ++ check (runes_of_ascii "// c
packet x { @lengthOf( metadata ) repeat lengthOf
,a1{
trueish	,// c
repeat//	t
MetaDataX , } , zchar[
    42	] rootA // `tick` ""quote"" 'q'
, ,
    }
")).
Eval vm_compute in ("<<<M2081>>>" ++ check (runes_of_ascii "options{ {
_x
= true
} options
{ o	= /// triple
false
    ; chars
= ""\n"" } root packet	Pad
/// triple
// packet A { u8 x, }
{	chars
    // a // b
    ,}")).
Eval vm_compute in ("<<<M2415>>>" ++ check (runes_of_ascii "// c
packet x { @lengthOf( metadata ) repeat lengthOf
,{a1
trueish	,// c
repeat//	t
MetaDataX , } , zchar[
    42	] rootA // `tick` ""quote"" 'q'
,
    }
")).
Eval vm_compute in ("<<<M2091>>>" ++ check (runes_of_ascii "options{
_x
true =
} options
{ o	= /// triple
false
    ; chars
= ""\n"" } root packet	Pad
/// triple
// packet A { u8 x, }
{	chars
    // a // b
    ,}")).
Eval vm_compute in ("<<<M1321>>>" ++ check (runes_of_ascii "  options
{ Pad =  zchar[ 0 ] ;
    tag=char[ 4294967296
    ] ; u128=	false ; } MetaData repeatCount
    {
u16 u128, }  options {
leftPad
    = '0'; }")).
Eval vm_compute in ("<<<M2205>>>" ++ check (runes_of_ascii "options{
_x
= true
} options
{ o	= /// triple
false
    ; " ++ [21517; 23383]%N ++ runes_of_ascii "
= ""\n"" } root packet	Pad
/// triple
// packet A { u8 x, }
{	chars
    // a // b
    ,}")).
Eval vm_compute in ("<<<M2134>>>" ++ check (runes_of_ascii "options{
_x
= true
} options
{ o	= /// triple
false
    ; 
= ""\n"" } root packet	Pad
/// triple
// packet A { u8 x, }
{	chars
    // a // b
    ,}")).
Eval vm_compute in ("<<<M4149>>>" ++ check (runes_of_ascii "packet A {
    match k as n {
        [
            ""a"", ""bb"", 007, ""d"", ""e"",
            66, ""g"", ""h"", 9
        ] : B,
        2 : C,
    },
}")).
Eval vm_compute in ("<<<M1337>>>" ++ check (runes_of_ascii "
options {
MetaDataX = 3; matchKey =
i32 T// packet A { u8 x, }
= 1
    } packet Header
{ string i64_ @lengthOf( Packet ) `say ""hi""`,
}")).
Eval vm_compute in ("<<<M694>>>" ++ check (runes_of_ascii "MetaData Logon
    // a // b
    { } packet x_y_z {} packet repeatCount
{ lengthOf @calculatedFrom(
""" ++ [28040; 24687]%N ++ runes_of_ascii """
)
    `// not a comment` ,}
")).
Eval vm_compute in ("<<<M443>>>" ++ check (runes_of_ascii "packet  T {
@lengthOf(// trailing space 
matchKey // packet A { u8 x, }
)
match
u as crc { [ ""it's"",""CRC32"" ,
3 ]:Z9_, } , }

")).
Eval vm_compute in ("<<<M1108>>>" ++ check (runes_of_ascii "options{
i8i8 = '0';
    Header = ""packet"" ;
float  ='0'
// c
// a // b
; MetaDataX=int32	;
    i64_ = zchar[ 255
    ]
; }")).
Eval vm_compute in ("<<<M4581>>>" ++ check (runes_of_ascii "packet
FooBar
    { u8

    a	, 
}	packet
    foo_bar{u16
	b ,
}

root

    packet R{FooBar

    ,  foo_bar 
,
}
")).
Eval vm_compute in ("<<<M3338>>>" ++ check (runes_of_ascii "root packet matchKey { zchar[ 3 ] pack @calculatedFrom( ""a	b"" ) `doc` , } // c
options { } MetaData A { int8 msg_type , }")).
Eval vm_compute in ("<<<M1448>>>" ++ check (runes_of_ascii "
packet
    falsey { Header@calculatedFrom(""packet""  ) , char[
    0123456789 ] ] packetx
    , } // `tick` ""quote"" 'q'")).
Eval vm_compute in ("<<<M4556>>>" ++ check (runes_of_ascii "root packet

    SimpleMessage

    {
    uint16
	MsgType`" ++ [28040; 24687; 31867; 22411]%N ++ runes_of_ascii "`
, string

JsonBody

    `Json" ++ [23383; 31526; 20018; 28040; 24687; 20307]%N ++ runes_of_ascii "`
,

    }
")).
Eval vm_compute in ("<<<M1462>>>" ++ check (runes_of_ascii "
packet
    falsey { Header@calculatedFrom(""packet""  ) , char[
    0123456789 ] packetx
    ,  // `tick` ""quote"" 'q'")).
Eval vm_compute in ("<<<M1415>>>" ++ check (runes_of_ascii "
packet
    falsey { }@calculatedFrom(""packet""  ) , char[
    0123456789 ] packetx
    , } // `tick` ""quote"" 'q'")).
Eval vm_compute in ("<<<M3027>>>" ++ check (runes_of_ascii "packet A {
    u16 len @lengthOf(body) `a

b`,
    u32 crc @calculatedFrom(""CRC32"") `a

b`,
    string body,
}")).
Eval vm_compute in ("<<<M53>>>" ++ check (runes_of_ascii "MetaData
trueish {int
falsey , char[
10
    ] u  , zchar[ 007 ] leftPad , string
x `two words`
    ,  }
")).
Eval vm_compute in ("<<<M3560>>>" ++ check (runes_of_ascii "options {
    LittleEndian = true;
}
root packet P {
    u16 a,
    u32 Sum @calculatedFrom(""CRC32""),
}
")).
Eval vm_compute in ("<<<M2973>>>" ++ check (runes_of_ascii "packet A {
  match k as n {
    [""a"", ""bb"", 007, ""d"", ""e"", 66, ""g"", ""h"", 9, ""j""] : B
    2 : C
  },
}")).
Eval vm_compute in ("<<<M3034>>>" ++ check (runes_of_ascii "packet A {
    Inner {
        u8 x `x
`,
        Deep {
            u8 y `x
`,
        },
    },
}")).
Eval vm_compute in ("<<<M962>>>" ++ check (runes_of_ascii "packet
int
    { @calculatedFrom( ""a\\""
    ) repeat
    // packet A { u8 x, }
    string int, }")).
Eval vm_compute in ("<<<M212>>>" ++ check (runes_of_ascii "root packet matchKey{f32a// " ++ [27880; 37322]%N ++ runes_of_ascii "
`u8 x,` ,	char[]u8x ,
@calculatedFrom( ""a\""b"" )
i32 i8i8 , }

")).
Eval vm_compute in ("<<<M1750>>>" ++ check (runes_of_ascii "options { trueish = ""`tick`"" ; string_= """ ++ [233]%N ++ runes_of_ascii "t" ++ [233]%N ++ runes_of_ascii """
    // c
    } root
    packet body { stringy")).
Eval vm_compute in ("<<<M3876>>>" ++ check (runes_of_ascii "packet A {
    B b `a
        b`,
    B `a
        b`,
    repeat B bs `a
        b`,
}")).
Eval vm_compute in ("<<<M3286>>>" ++ check (runes_of_ascii "MetaData float { float64 charz `
` , } root
// c
packet chars { @rightPad ( '0' ) Foo , }")).
Eval vm_compute in ("<<<M3497>>>" ++ check (runes_of_ascii "packet chars { } packet MetaDataX { // c
@tag( 42 ) i16 string_ , repeat x `say ""hi""` , }")).
Eval vm_compute in ("<<<M2237>>>" ++ check (runes_of_ascii "options
{ } options { BodyLength= = u16 Header= f64 ; u128 =
    true
    ; } // a // b")).
Eval vm_compute in ("<<<M2306>>>" ++ check (runes_of_ascii "options
{ } options { BodyLength= u16 Header'= f64 ; u128 =
    true
    ; } // a // b")).
Eval vm_compute in ("<<<M2263>>>" ++ check (runes_of_ascii "options
{ } options { BodyLength= u16 Header= f64 u128 ; =
    true
    ; } // a // b")).
Eval vm_compute in ("<<<M3237>>>" ++ check (runes_of_ascii "packet metadata { Logon { A `" ++ [28040; 24687; 31867; 22411]%N ++ runes_of_ascii "` , tag o , } , // c
zchar len `// not a comment` , }")).
Eval vm_compute in ("<<<M3427>>>" ++ check (runes_of_ascii "// c
packet o { repeat Logon uint8x , } options { asx = zchar[ 3 ] stringy = '\x00' }")).
Eval vm_compute in ("<<<M3460>>>" ++ check (runes_of_ascii "packet o { repeat Logon uint8x , } options { asx = zchar[ 3 ] stringy
// c
= '\x00' }")).
Eval vm_compute in ("<<<M2256>>>" ++ check (runes_of_ascii "options
{ } options { BodyLength= u16 Header=  ; u128 =
    true
    ; } // a // b")).
Eval vm_compute in ("<<<M3403>>>" ++ check (runes_of_ascii "MetaData body { i64 pack
// c
`it's` , } packet stringy { int16 calculatedFrom , }")).
Eval vm_compute in ("<<<M2917>>>" ++ check (runes_of_ascii "packet A {
  match k as n {
    [""a"", 22, ""c c"", 4, ""e"", 66] : B
    2 : C
  },
}")).
Eval vm_compute in ("<<<M3000>>>" ++ check (runes_of_ascii "packet A { Inner { match k as n { [1,22,007,4,5,66,7,8,9,10,11,12] : B, }, }, }")).
Eval vm_compute in ("<<<M4120>>>" ++ check (runes_of_ascii "
options
	{	x_y_z

=  true
;
	a1
=

true

    ;

options1
=
	true
;}
")).
Eval vm_compute in ("<<<M4410>>>" ++ check (runes_of_ascii "packet A
{match k as n
{ [  1, ""bb""
, 
007  , 
""d""	]
: 
B
2:  C}
, }

")).
Eval vm_compute in ("<<<M760>>>" ++ check (runes_of_ascii "packet	i64_ { }options{
    } options { MetaDataX = ""CRC32""} // a // b")).
Eval vm_compute in ("<<<M3171>>>" ++ check (runes_of_ascii "packet A { match k as n { [ // a
 1 // b
 , // c
 2 ] // d
 : B }, }")).
Eval vm_compute in ("<<<M2864>>>" ++ check (runes_of_ascii "packet A {
  match k as n {
    [""a"", ""bb""] : B,
    2 : C
  },
}")).
Eval vm_compute in ("<<<M4028>>>" ++ check (runes_of_ascii "

  root packet P
	{
repeat 
char

    cs	,u8

x

    , }
")).
Eval vm_compute in ("<<<M3032>>>" ++ check (runes_of_ascii "packet A {
    B b `x
`,
    B `x
`,
    repeat B bs `x
`,
}")).
Eval vm_compute in ("<<<M3173>>>" ++ check (runes_of_ascii "packet A { // a
 @tag(1) u8 x, // b
 // c
 @tag(2) u8 y, }")).
Eval vm_compute in ("<<<M2857>>>" ++ check (runes_of_ascii "packet A {
  match k as n {
    [1] : B,
    2 : C
  },
}")).
Eval vm_compute in ("<<<M3972>>>" ++ check (runes_of_ascii "

  root 
packet
repeatCount{
	} // trailing space 
 
")).
Eval vm_compute in ("<<<M2820>>>" ++ check (runes_of_ascii "true uint8 char[ char[ false i16 @tag( match char[")).
Eval vm_compute in ("<<<M2790>>>" ++ check (runes_of_ascii ", , [ = '\x00' string zchar '\x00' char[ ; root")).
Eval vm_compute in ("<<<M2255>>>" ++ check (runes_of_ascii "options
{ } options { BodyLength= u16 Header")).
Eval vm_compute in ("<<<M3179>>>" ++ check (runes_of_ascii "packet A { char[ // a
 3 // b
 ] // c
 x, }")).
Eval vm_compute in ("<<<M2610>>>" ++ check (runes_of_ascii "packet A { match k as n { [1 2] : B }, }")).
Eval vm_compute in ("<<<M2609>>>" ++ check (runes_of_ascii "packet A { match k as n { [1,] : B }, }")).
Eval vm_compute in ("<<<M3813>>>" ++ check (runes_of_ascii "packet A {
    u8 x `a
        b`,
}")).
Eval vm_compute in ("<<<M2561>>>" ++ check (runes_of_ascii "packet A { repeat x @lengthOf(y), }")).
Eval vm_compute in ("<<<M4491>>>" ++ check (runes_of_ascii "root packet Z9_ {
    // " ++ [128512]%N ++ runes_of_ascii " emoji
}")).
Eval vm_compute in ("<<<M3042>>>" ++ check (runes_of_ascii "root packet A {
    u8 x `
x`,
}")).
Eval vm_compute in ("<<<M2700>>>" ++ check (runes_of_ascii "Pad as char root float32 : u16")).
Eval vm_compute in ("<<<M1889>>>" ++ check (runes_of_ascii "MetaData
    u { }  options {")).
Eval vm_compute in ("<<<M2624>>>" ++ check (runes_of_ascii "packet A { @leftPad u8 x, }")).
Eval vm_compute in ("<<<M3253>>>" ++ check (runes_of_ascii "
// c
root packet pack { }")).
Eval vm_compute in ("<<<M4603>>>" ++ check (runes_of_ascii "MetaData 	 // c
	o { }
")).
Eval vm_compute in ("<<<M51>>>" ++ check (runes_of_ascii "packet BodyLength {}
")).
Eval vm_compute in ("<<<M4266>>>" ++ check (runes_of_ascii "
packet A
{ } 
// c" ++ [6158]%N)).
Eval vm_compute in ("<<<M1695>>>" ++ check (runes_of_ascii "options { trueish =")).
Eval vm_compute in ("<<<M1879>>>" ++ check (runes_of_ascii "MetaData
    u { }")).
Eval vm_compute in ("<<<M3123>>>" ++ check (runes_of_ascii "packet A {
}// c 	")).
Eval vm_compute in ("<<<M3083>>>" ++ check (runes_of_ascii "packet A {
}// c" ++ [8192]%N)).
Eval vm_compute in ("<<<M915>>>" ++ check (runes_of_ascii "packet body { }")).
Eval vm_compute in ("<<<M2840>>>" ++ check (runes_of_ascii "x" ++ [65533]%N ++ runes_of_ascii "V" ++ [65533; 65533; 65533]%N ++ runes_of_ascii "yj" ++ [65533; 65533; 65533]%N ++ runes_of_ascii "w" ++ [65533]%N)).
Eval vm_compute in ("<<<M2486>>>" ++ check (runes_of_ascii "@centerPad")).
Eval vm_compute in ("<<<M132>>>" ++ check (runes_of_ascii "

// c
")).
Eval vm_compute in ("<<<M2513>>>" ++ check (runes_of_ascii """a\
b""")).
Eval vm_compute in ("<<<M2752>>>" ++ check (runes_of_ascii "x\SS\")).
Eval vm_compute in ("<<<M2503>>>" ++ check (runes_of_ascii "//x")).
Eval vm_compute in ("<<<M2525>>>" ++ check (runes_of_ascii "`""`")).
Eval vm_compute in ("<<<M2508>>>" ++ check (runes_of_ascii """a")).
Eval vm_compute in ("<<<M2791>>>" ++ check ([65533]%N)).
