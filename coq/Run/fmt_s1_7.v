From FP Require Import Lexer Parser ShowPT Digest Formatter.
From Coq Require Import String List NArith.
Import ListNotations.
Open Scope string_scope.
Set Printing Width 100000000.
Set Printing Depth 100000000.
Definition show_fres (r : fres) : string :=
  match r with
  | FOk s => "OK:" ++ sh_escaped s ""
  | FErr s => "ERR:" ++ sh_escaped s ""
  | FPanic p => "PANIC:" ++ p
  end.
Definition check (rs : list rune) : string := digest (show_fres (format_res rs)).
Definition full (rs : list rune) : string := show_fres (format_res rs).
Eval vm_compute in ("<<<M1554>>>" ++ check (runes_of_ascii "// top
options // c0
{ // c1
StringPrefixLenType // c2a
  // c2b
= // c3a
  // c3b
u64
    // c4
; // c5a
  // c5b
ArrayPrefixLenType = // c7
u16
    // c8
; // c9
FixedStringPadChar // c10a
  // c10b
=
    // c11
' ' // c12
; }
    // c14
packet
    // c15
Logon // c16a
  // c16b
{ // c17
i32 // c18
msgKind // c19
, repeat // c21a
  // c21b
InOrderid65 // c22
{ // c23
u8 pad0 , }
    // c27
, i8 // c29a
  // c29b
tag7 // c30
, // c31
@leftPad // c32
( // c33
' ' // c34a
  // c34b
) // c35
char[ // c36a
  // c36b
12 // c37
] // c38
x // c39a
  // c39b
, } packet // c42a
  // c42b
Leg
    // c43
{ // c44
char[]
    // c45
f1
    // c46
, repeat // c48a
  // c48b
char[
    // c49
5 ]
    // c51
Px // c52a
  // c52b
, // c53a
  // c53b
InQty34 // c54
{ // c55a
  // c55b
repeat // c56
char[ // c57
6 // c58
] Qty // c60a
  // c60b
, char[ // c62a
  // c62b
7
    // c63
] seqNo // c65
,
    // c66
string // c67
count , // c69
} // c70
, // c71a
  // c71b
Logon // c72
,
    // c73
}
    // c74
packet Party
    // c76
{ // c77a
  // c77b
@leftPad
    // c78
( // c79a
  // c79b
'0' // c80a
  // c80b
) // c81
char[ 10 // c83a
  // c83b
] // c84
OrderId // c85a
  // c85b
, // c86
string // c87a
  // c87b
Tail
    // c88
,
    // c89
}
    // c90
packet
    // c91
Fill // c92
{ zchar[ // c94a
  // c94b
5 // c95
]
    // c96
venue // c97
, zchar[ // c99a
  // c99b
3
    // c100
]
    // c101
clOrdID // c102a
  // c102b
, // c103
InRef95 // c104
{ InLastpx25
    // c106
{ // c107
u8
    // c108
pad0 , // c110
} , // c112a
  // c112b
float64
    // c113
OrderId // c114
, // c115
i32
    // c116
f1 // c117a
  // c117b
,
    // c118
float32 x , // c121a
  // c121b
char[]
    // c122
seqNo
    // c123
, // c124
} , // c126a
  // c126b
repeat string // c128a
  // c128b
seqNo // c129a
  // c129b
,
    // c130
} // c131
root // c132a
  // c132b
packet Heartbeat // c134a
  // c134b
{ // c135a
  // c135b
repeat // c136a
  // c136b
Leg // c137
, u32
    // c139
seqNo // c140a
  // c140b
, u16 // c142
tag7
    // c143
, // c144
u32 Flags @lengthOf( // c147
Body // c148a
  // c148b
)
    // c149
,
    // c150
match tag7 as // c153a
  // c153b
Body
    // c154
{ // c155a
  // c155b
[ // c156
195
    // c157
,
    // c158
75 // c159
] // c160a
  // c160b
: Party , // c163
171 // c164
: Fill // c166a
  // c166b
, 78 : // c169a
  // c169b
Logon // c170
, // c171a
  // c171b
142
    // c172
: // c173
Leg , // c175
} , u32 // c178
Note @calculatedFrom( ""CRC32"" // c181a
  // c181b
) , // c183a
  // c183b
} // c184
")).
Eval vm_compute in ("<<<M96>>>" ++ check (runes_of_ascii "root packet Logon {
    zchar[ 65535
]
uint8x ,@leftPad ()repeat f32
    Packet , @leftPad ( ' '
//x
//	t
) match i8i8 as  body// a // b
{ 65535 : MetaDataX ,
    007
    : Packet
}
,  @calculatedFrom(""packet"")uint8x ,Foo@lengthOf( asx
    //	t
    )
, i64 int , //
@leftPad ( ' ' ) repeat rootA {
int32 zchar
,match stringy  as MetaDataX
    { [ """ ++ [28040; 24687]%N ++ runes_of_ascii """  , 10 ,42 , ""a\""b"" ,	42 ,7]: msg_type ,[
    42 ]	:stringy , ""a\\"" :
Header  255 : calculatedFrom
    //	t
    ,
// a // b
/// triple
[ 007// " ++ [27880; 37322]%N ++ runes_of_ascii "
]
    :
/// triple
//x
MetaDataX , ""a\""b""
    //	t
    ://
stringy // " ++ [128512]%N ++ runes_of_ascii " emoji
, } , char[ 007  ] int @lengthOf(
    o
    )`" ++ [233]%N ++ runes_of_ascii "` // `tick` ""quote"" 'q'
,
// trailing space 
//x
}	, @leftPad (
//
// @lengthOf(
)@lengthOf(
    metadata )match
asx
as leftPad { ""x y""
:
matchKey // packet A { u8 x, }
} // " ++ [27880; 37322]%N ++ runes_of_ascii "
,
    repeat  leftPad `say ""hi""` ,char[//	t
65535// c
] // a // b
Packet , } root packet // a // b
x_y_z { match uint8x as As
    { [0123456789 ] : T
    65535
    :	x_y_z ""\n""
    //
    : u,
    4294967296 :  Packet	[ 65535  ]: T ,
    255 : uint8x },int32 Packet  `tab	here` , @calculatedFrom( """"
) @calculatedFrom(
    ""a\\"" ) u64 repeatCount
    @calculatedFrom( """" ) , Header
zchar
`doc` ,
match
_x as	metadata // " ++ [128512]%N ++ runes_of_ascii " emoji
{ [ 255 ,""1""	] : Logon [
""" ++ [233]%N ++ runes_of_ascii "t" ++ [233]%N ++ runes_of_ascii """ ,00, 65535
    ,	7 , 42	, 00	]
:
packetx , 4294967296 : stringy
    //	t
    ,}, char[00
    ] tag `doc` ,@lengthOf(
int )
string u
    ,  @tag( 007 ) int16 stringy , float64
    crc, @calculatedFrom( ""x y""  ) repeat u16 f32a ,}options  {	u128= ""CRC32"" options1 = // packet A { u8 x, }
false u8x= ""`tick`"";}")).
Eval vm_compute in ("<<<M1871>>>" ++ check (runes_of_ascii "

  options

    {

Packet =
""packet""

len
	= 
""packet""; charz= true  }  packet	calculatedFrom	// c

{

//	t
// a // b
	repeat // " ++ [27880; 37322]%N ++ runes_of_ascii "
Packet

,
	uint8x @calculatedFrom( 
	    // @lengthOf(
	// `tick` ""quote"" 'q'
		""\n"")
	,@calculatedFrom( 
""// no comment""
)  @rightPad  /// triple
(

' '
)
match x
	    //x
    	//	t

  as
    Packet {	00 : 
Pad
	[0

    ]:  // @lengthOf(
	  As 
,  }

    ,  @lengthOf(	chars
) 
a1
    `it's`,match 
Logon

    as	int {  ""packet"" :
int
[ """ ++ [28040; 24687]%N ++ runes_of_ascii """ ,
0123456789 // trailing space 
    ,	""x y""

,
	65535 
        //	t
    ]

:lengthOf, 10 : asx  , [ ""// no comment"" ] 
: zchar	, ""// no comment""
:	a1
//
		// `tick` ""quote"" 'q'
  ,	0

    : len,  }// " ++ [27880; 37322]%N ++ runes_of_ascii "

  , 
match

    u8x
as MetaDataX
{
	[	255
]:string_// packet A { u8 x, }

,

    [
	""// no comment"", ""CRC32"" ]
    : 
metadata , 	 // packet A { u8 x, }
    ""a\""b""  : 
// " ++ [27880; 37322]%N ++ runes_of_ascii "
  leftPad	},

    Header`tab	here` ,} packet

u128  {
    char[

10	//x
	]
    trueish 
`tab	here`

,
repeat  asx
    {

match 
len	as
    chars{

    1  : MetaDataX, 42  : roots
    ,10

    : BodyLength
, 
""// no comment"" :
    o	,""a\\""
    :	i64_,
	}

    ,

}
,  }
")).
Eval vm_compute in ("<<<M367>>>" ++ check (runes_of_ascii "
options {  Packet = ""packet""len
=
""packet"" ;
    charz =true} packet calculatedFrom// c
{
//	t
// a // b
repeat// " ++ [27880; 37322]%N ++ runes_of_ascii "
Packet, uint8x @calculatedFrom(
// @lengthOf(
// `tick` ""quote"" 'q'
""\n""
    ) , @calculatedFrom( ""// no comment""	)
@rightPad /// triple
(	' ') match
    x
//x
//	t
as Packet
{
00 : Pad [
0	] :// @lengthOf(
As , }
,
@lengthOf( chars )
a1 `it's` , match Logon as int { ""packet"": int [ """ ++ [28040; 24687]%N ++ runes_of_ascii """ ,0123456789 // trailing space 
, ""x y"" , 65535
    //	t
    ] : lengthOf, 10:asx, [  ""// no comment"" ] :  zchar, ""// no comment"": a1
//
// `tick` ""quote"" 'q'
, 0 :len
    ,} // " ++ [27880; 37322]%N ++ runes_of_ascii "
,
match u8x as
    MetaDataX
{
    [
255 ]
    :
string_ // packet A { u8 x, }
, [ ""// no comment"" ,	""CRC32""]: metadata,// packet A { u8 x, }
""a\""b""	:
    // " ++ [27880; 37322]%N ++ runes_of_ascii "
    leftPad }, Header `tab	here`, } packet u128 {
    char[10//x
] trueish `tab	here`, repeat asx {
match
len as chars {1 : MetaDataX ,
42 :
    roots ,
    10:
BodyLength,
""// no comment"" :
    o , ""a\\"" :	i64_ ,
    }
    ,	} ,
    }
")).
Eval vm_compute in ("<<<M19>>>" ++ check (runes_of_ascii "packet
int // " ++ [27880; 37322]%N ++ runes_of_ascii "
{ repeat // @lengthOf(
MetaDataX // a // b
{ //	t
pack
    { repeat Pad	{ i8 MetaDataX
, repeat pack	trueish ,
u
    // trailing space 
    charz	`" ++ [233]%N ++ runes_of_ascii "` ,string
int
, }	, f64 Z9_
    ,
} ,
} // c
,	} packet trueish {
@lengthOf(
    u)uint8 metadata
    `" ++ [28040; 24687; 31867; 22411]%N ++ runes_of_ascii "` , match	uint8x
as roots
{ """ ++ [233]%N ++ runes_of_ascii "t" ++ [233]%N ++ runes_of_ascii """:
    Pad 0123456789
: msg_type// " ++ [27880; 37322]%N ++ runes_of_ascii "
[ ""1"" ,	0 ,10] //	t
:
pack,
[ ""it's"" ,  ""\" ++ [233]%N ++ runes_of_ascii """ ] :u8x
, [// " ++ [128512]%N ++ runes_of_ascii " emoji
0123456789 ] :
MetaDataX
    // packet A { u8 x, }
    , },zchar[	00 ] pack @lengthOf( string_ ),// packet A { u8 x, }
@tag( 4294967296 )
x_y_z string_ ,
    } options {A
    =true float  =	""" ++ [28040; 24687]%N ++ runes_of_ascii """ ; }
MetaData Header { zchar[//
7 // `tick` ""quote"" 'q'
]u128
, char[]
/// triple
// trailing space 
u , string_ metadata	,
uint32 f32a `u8 x,` , } options{// trailing space 
roots
    =
    true;
int =false ; string_=
"""" }")).
Eval vm_compute in ("<<<M49>>>" ++ check (runes_of_ascii "packet
i8i8 {
    char[]
    string_
// " ++ [27880; 37322]%N ++ runes_of_ascii "
//
`tab	here` //
, @lengthOf(
    T )
    @lengthOf(
uint8x)@rightPad ( '\x00' ) zchar[ 4294967296 // packet A { u8 x, }
]	f32a @calculatedFrom(
// " ++ [27880; 37322]%N ++ runes_of_ascii "
//x
""CRC32"")
    `it's`	, } // @lengthOf(
root // packet A { u8 x, }
packet	A
    { @rightPad
//	t
// packet A { u8 x, }
( )
    @calculatedFrom(""" ++ [233]%N ++ runes_of_ascii "t" ++ [233]%N ++ runes_of_ascii """ )	string T`crlf
line`
    ,
    u64 falsey `two words`
//x
// trailing space 
,zchar[ 65535	] lengthOf
`doc` , match // `tick` ""quote"" 'q'
crc
as int { [ ""packet"",
    ""it's""
    ]
: body ,007
:
    // a // b
    leftPad
,	""{,}"" :
    Z9_, [ 0123456789
    , 00
    , ""a\\"" // " ++ [128512]%N ++ runes_of_ascii " emoji
, """ ++ [128512]%N ++ runes_of_ascii """  , ""\" ++ [233]%N ++ runes_of_ascii """
    , ""`tick`"", ""it's"",
    """ ++ [233]%N ++ runes_of_ascii "t" ++ [233]%N ++ runes_of_ascii """]
: x_y_z,} // c
,}
")).
Eval vm_compute in ("<<<M1810>>>" ++ check (runes_of_ascii "// top
options {
    // c1
    LittleEndian = true;
    StringPrefixLenType = u16;// c9a
    // c9b
    ArrayPrefixLenType = u64;// c13
}// c14

packet Fill {
    // c17a
    // c17b
}

packet Logon {
    repeat char[3] Tail,// c27
    zchar[6] venue,// c32
    repeat string Side2,
    // c36
}

root packet Cancel {
    char[] Flags,
    char[] OrderId,
    zchar[6] msgKind,
    // c52
    Fill,
    char[] Acct,// c57a
    // c57b
    u8 f1,
    // c60
    match f1 as Body {
        188 : Fill,
        5 : Logon,
        // c73a
        // c73b
    },// c75
    u32 clOrdID @calculatedFrom(""CRC32""),
    // c81
}// c82")).
Eval vm_compute in ("<<<M1522>>>" ++ check (runes_of_ascii "// top
packet
    // c0
Logon // c1
{ string // c3
user , // c5
} root // c7
packet // c8
Frame { u8 K // c12
,
    // c13
match
    // c14
K // c15a
  // c15b
as
    // c16
Body // c17
{ // c18a
  // c18b
1 :
    // c20
Logon // c21a
  // c21b
, // c22
2 // c23
: Logout
    // c25
, // c26
} // c27a
  // c27b
, // c28a
  // c28b
Tail // c29a
  // c29b
, // c30
} packet
    // c32
Logout // c33
{ // c34a
  // c34b
u16
    // c35
reason // c36
, // c37a
  // c37b
} packet Tail // c40
{
    // c41
u32 // c42
crc
    // c43
, } ")).
Eval vm_compute in ("<<<M1747>>>" ++ check (runes_of_ascii "// top
    packet 
    // c0
float// c1a
  // c1b
  { // c2a
  // c2b
  repeat	// c3
		i8i8 MetaDataX  // c5

	`it's` // c6
      , rootA// c8
  ,	// c9a
		// c9b
  repeat 	 // c10
    int8 // c11

int  // c12
	  ,
match  // c14
repeatCount	// c15
    	as  // c16a
    	// c16b
	x_y_z{ 
      // c18
  	""{,}"" // c19a
      // c19b
    : 	 // c20
    Logon  // c21
    , 	 // c22a
    // c22b
}  // c23

  ,// c24a

  // c24b
    }  // c25a
	// c25b
")).
Eval vm_compute in ("<<<M1670>>>" ++ check (runes_of_ascii "MetaData T {
    char[] metadata,
    // `tick` ""quote"" 'q'
    i8 Header,
    u128 chars `a\`,
    char[42] calculatedFrom,
}// packet A { u8 x, }

packet stringy {
    @rightPad()
    //	t
    string trueish `two words`,
}

MetaData metadata {
    zchar[007] x_y_z,
    zchar[10] u `// not a comment`,
    string u8x,
    char[] repeatCount,
    zchar Pad,
    u32 f32a `doc`,
}// `tick` ""quote"" 'q'")).
Eval vm_compute in ("<<<M1698>>>" ++ check (runes_of_ascii "// top
packet A {
    // c2
    u8 a,
}// c6a

// c6b
packet B {
    // c9a
    // c9b
    u16 b,// c12a
    // c12b
}

// c13
root packet P {
    // c17
    u8 K,// c20a
    // c20b
    match K as M {
        // c25
        [1, 2] : A,
        // c33a
        // c33b
        3 : B,
        // c37a
        // c37b
        7 : A,
    },
}// c44a
// c44b")).
Eval vm_compute in ("<<<M182>>>" ++ check (runes_of_ascii "packet
// @lengthOf(
// " ++ [128512]%N ++ runes_of_ascii " emoji
Foo { @calculatedFrom( """" )
@calculatedFrom(""1""
) @rightPad () int32 As
@calculatedFrom( """"// a // b
)
    `say ""hi""` // c
, @calculatedFrom( ""\n""
)
// trailing space 
/// triple
char[// trailing space 
65535 ] asx ,
    repeat	int8 trueish `{ , }` ,
} root packet lengthOf{  }")).
Eval vm_compute in ("<<<M29>>>" ++ check (runes_of_ascii "// `tick` ""quote"" 'q'
MetaData
    pack {
string MetaDataX , //
zchar[ 65535
] i8i8, pack rootA	`say ""hi""` ,
    string_ Header `crlf
line` ,
int64
string_ ,
/// triple
//	t
char[]
packetx
,	} options
    { trueish
= ' '
; i64_ =
i16 pack = u16
;
len =false }	MetaData i64_{ }")).
Eval vm_compute in ("<<<M1393>>>" ++ check (runes_of_ascii "packet chars // c1a
  // c1b
{ // c2a
  // c2b
} // c3a
  // c3b
packet
    // c4
MetaDataX // c5a
  // c5b
{ @tag( // c7a
  // c7b
42
    // c8
) i16 // c10a
  // c10b
string_ // c11a
  // c11b
, // c12a
  // c12b
repeat // c13
x `say ""hi""` // c15
, // c16a
  // c16b
} ")).
Eval vm_compute in ("<<<M661>>>" ++ check (runes_of_ascii "root packet tag { }  packet MetaDataX{char[? 007	]
// c
/// triple
asx  @calculatedFrom( ""a\""b""
) `say ""hi""`// " ++ [27880; 37322]%N ++ runes_of_ascii "
,  @tag(4294967296 )
    char[1//x
] packetx @calculatedFrom(""a\""b""
    ) ,
// " ++ [128512]%N ++ runes_of_ascii " emoji
// a // b
@calculatedFrom(""" ++ [233]%N ++ runes_of_ascii "t" ++ [233]%N ++ runes_of_ascii """  ) repeat pack // " ++ [27880; 37322]%N ++ runes_of_ascii "
,
    } // c")).
Eval vm_compute in ("<<<M500>>>" ++ check (runes_of_ascii "root packet tag { packet  } MetaDataX{char[007	]
// c
/// triple
asx  @calculatedFrom( ""a\""b""
) `say ""hi""`// " ++ [27880; 37322]%N ++ runes_of_ascii "
,  @tag(4294967296 )
    char[1//x
] packetx @calculatedFrom(""a\""b""
    ) ,
// " ++ [128512]%N ++ runes_of_ascii " emoji
// a // b
@calculatedFrom(""" ++ [233]%N ++ runes_of_ascii "t" ++ [233]%N ++ runes_of_ascii """  ) repeat pack // " ++ [27880; 37322]%N ++ runes_of_ascii "
,
    } // c")).
Eval vm_compute in ("<<<M528>>>" ++ check (runes_of_ascii "root packet tag { }  packet MetaDataX{char[007	
// c
/// triple
asx  @calculatedFrom( ""a\""b""
) `say ""hi""`// " ++ [27880; 37322]%N ++ runes_of_ascii "
,  @tag(4294967296 )
    char[1//x
] packetx @calculatedFrom(""a\""b""
    ) ,
// " ++ [128512]%N ++ runes_of_ascii " emoji
// a // b
@calculatedFrom(""" ++ [233]%N ++ runes_of_ascii "t" ++ [233]%N ++ runes_of_ascii """  ) repeat pack // " ++ [27880; 37322]%N ++ runes_of_ascii "
,
    } // c")).
Eval vm_compute in ("<<<M1926>>>" ++ check (runes_of_ascii "// top
options {
    // c1a
    // c1b
    LittleEndian = true;
    // c5
}// c6a

// c6b
packet B {
    // c9
    u8 a,// c12
    string s,// c15
}

// c16
root packet P {
    // c20
    u16 L @lengthOf(B),
    B,
    // c28
    u8 t,// c31a
    // c31b
}// c32")).
Eval vm_compute in ("<<<M618>>>" ++ check (runes_of_ascii "root packet tag { }  packet MetaDataX{char[007	]
// c
/// triple
asx  @calculatedFrom( ""a\""b""
) `say ""hi""`// " ++ [27880; 37322]%N ++ runes_of_ascii "
,  @tag(4294967296 )
    char[1//x
] packetx @calculatedFrom(""a\""b""
    ) ,
// " ++ [128512]%N ++ runes_of_ascii " emoji
// a // b
""" ++ [233]%N ++ runes_of_ascii "t" ++ [233]%N ++ runes_of_ascii """  ) repeat pack // " ++ [27880; 37322]%N ++ runes_of_ascii "
,
    } // c")).
Eval vm_compute in ("<<<M1906>>>" ++ check (runes_of_ascii "  MetaData  stringy	{
	i16
f32a

, string

crc `crlf
line`,

f32  o  `doc`
, 
float64
calculatedFrom ,  }  packet  o{
@leftPad  // `tick` ""quote"" 'q'
	(

)
    string_
@lengthOf(	packetx 	 // `tick` ""quote"" 'q'
  	), }
")).
Eval vm_compute in ("<<<M1669>>>" ++ check (runes_of_ascii "  // @lengthOf(
root packet 
MetaDataX { repeat 
i16 packetx

    , @tag(007 )
x  @lengthOf(
_x ), @calculatedFrom(

""" ++ [28040; 24687]%N ++ runes_of_ascii """ ) repeat	Pad
,@lengthOf(falsey) 
@tag(00
    ) @tag(  3
	)string
i8i8

,	}
")).
Eval vm_compute in ("<<<M2004>>>" ++ check (runes_of_ascii "packet A {
    Inner {
        match k as n {
            [
                1, 22, 007, 4, 5,
                66, 7, 8, 9, 10,
                11
            ] : B,
        },
    },
}")).
Eval vm_compute in ("<<<M445>>>" ++ check (runes_of_ascii "packet
    // `tick` ""quote"" 'q'
    crc
// packet A { u8 x, }
//	t
{
u32 a1 ,
    // trailing space 
    roots
charz //
`two words`,	}
    MetaData int int {
} /// triple")).
Eval vm_compute in ("<<<M694>>>" ++ check (runes_of_ascii "root packet len // trailing space 
{
// " ++ [27880; 37322]%N ++ runes_of_ascii "
//	t
char[10
] metadata	@lengthOf( o ) `crlf
line`,
    @rightPad
( ' '
) string
    Header @calculatedFrom( ""a\\""
    ) ), }
")).
Eval vm_compute in ("<<<M451>>>" ++ check (runes_of_ascii "packet
    // `tick` ""quote"" 'q'
    crc
// packet A { u8 x, }
//	t
{
u32 a1 ,
    // trailing space 
    roots
charz //
`two words`,	}
    MetaData int }
{ /// triple")).
Eval vm_compute in ("<<<M447>>>" ++ check (runes_of_ascii "packet
    // `tick` ""quote"" 'q'
    crc
// packet A { u8 x, }
//	t
{
u32 a1 ,
    // trailing space 
    roots
charz //
`two words`,	}
    MetaData ; {
} /// triple")).
Eval vm_compute in ("<<<M1828>>>" ++ check (runes_of_ascii "// top
packet o {
    // c2
    repeat Logon uint8x,
    // c6
}

// c7
options {
    // c9
    asx = zchar[3]
    // c14
    stringy = '\x00'
    // c17
}
// c18")).
Eval vm_compute in ("<<<M0>>>" ++ check (runes_of_ascii "
packet /// triple
uint8x	{@calculatedFrom(
""a	b"" )
//
// " ++ [128512]%N ++ runes_of_ascii " emoji
i32 charz
    ,
match //x
x	as
x {""a	b""  :
lengthOf,} , leftPad
    `{ , }` , } //x")).
Eval vm_compute in ("<<<M198>>>" ++ check (runes_of_ascii "MetaData
    //x
    body
    // a // b
    { BodyLength stringy ,
    //	t
    zchar[ 42 ] o
    ,
i64_ lengthOf `{ , }` ,u8 MetaDataX  , }")).
Eval vm_compute in ("<<<M1465>>>" ++ check (runes_of_ascii "options {
    LittleEndian = true;
}
packet B {
    u8 a,
    string s,
}
root packet P {
    u16 L @lengthOf(B),
    B,
    u8 t,
}
")).
Eval vm_compute in ("<<<M932>>>" ++ check (runes_of_ascii "packet A {
    u16 len @lengthOf(body) `a
    b
  c`,
    u32 crc @calculatedFrom(""CRC32"") `a
    b
  c`,
    string body,
}")).
Eval vm_compute in ("<<<M1241>>>" ++ check (runes_of_ascii "root packet matchKey { zchar[ 3 ] pack @calculatedFrom( ""a	b"" // c
) `doc` , } options { } MetaData A { int8 msg_type , }")).
Eval vm_compute in ("<<<M1835>>>" ++ check (runes_of_ascii "
packet
	A	{ 
match  k
as	n{	[

    ""a""
    , ""bb""  ,
007,

""d"", ""e""  , 66

    ]
	:
B
	2
    :
	C}

    ,

}
")).
Eval vm_compute in ("<<<M1968>>>" ++ check (runes_of_ascii "MetaData

    float
{ 
float64

charz  `
` ,  }

root
packet  // c

	chars
{	@rightPad

    (  '0' ) Foo  , }
")).
Eval vm_compute in ("<<<M1989>>>" ++ check (runes_of_ascii "MetaData  float
	{

    float64
charz `
`	,
}root  packet chars { @rightPad ('0'

    ) 	 // c
	Foo,}
")).
Eval vm_compute in ("<<<M48>>>" ++ check (runes_of_ascii "  options { zchar =  007
Header =
char[// c
007 ] ;
    lengthOf= char[
7 ]; chars =//
"""" // a // b
;
}
")).
Eval vm_compute in ("<<<M1969>>>" ++ check (runes_of_ascii "

  packet  A
{
match
    k
as  n{  [	""a"" ,""bb""

    ,""c c""
,
	""d""
	]  : 
B  ,

2 : C
    },
}

")).
Eval vm_compute in ("<<<M849>>>" ++ check (runes_of_ascii "packet A {
  match k as n {
    [""a"", ""bb"", ""c c"", ""d"", ""e"", ""f"", ""g"", ""h""] : B,
    2 : C
  },
}")).
Eval vm_compute in ("<<<M212>>>" ++ check (runes_of_ascii "root packet matchKey{f32a// " ++ [27880; 37322]%N ++ runes_of_ascii "
`u8 x,` ,	char[]u8x ,
@calculatedFrom( ""a\""b"" )
i32 i8i8 , }

")).
Eval vm_compute in ("<<<M1596>>>" ++ check (runes_of_ascii "packet A {
    Inner {
        match k as n {
            [1, 22] : B,
        },
    },
}")).
Eval vm_compute in ("<<<M1200>>>" ++ check (runes_of_ascii "MetaData float { float64 charz `
` , } root packet chars // c
{ @rightPad ( '0' ) Foo , }")).
Eval vm_compute in ("<<<M1411>>>" ++ check (runes_of_ascii "packet chars { } packet MetaDataX { @tag(
// c
42 ) i16 string_ , repeat x `say ""hi""` , }")).
Eval vm_compute in ("<<<M840>>>" ++ check (runes_of_ascii "packet A {
  match k as n {
    [""a"", 22, ""c c"", 4, ""e"", 66, ""g""] : B,
    2 : C
  },
}")).
Eval vm_compute in ("<<<M1141>>>" ++ check (runes_of_ascii "packet metadata { Logon { A `" ++ [28040; 24687; 31867; 22411]%N ++ runes_of_ascii "` , tag
// c
o , } , zchar len `// not a comment` , }")).
Eval vm_compute in ("<<<M1346>>>" ++ check (runes_of_ascii "packet o { repeat // c
Logon uint8x , } options { asx = zchar[ 3 ] stringy = '\x00' }")).
Eval vm_compute in ("<<<M1844>>>" ++ check (runes_of_ascii "
packet
	A 
{ match	k  as n
{
	[
    ""a""	,22
,
""c c"" 
,4
]
    :	B
2 
:C
} , } ")).
Eval vm_compute in ("<<<M1307>>>" ++ check (runes_of_ascii "MetaData body // c
{ i64 pack `it's` , } packet stringy { int16 calculatedFrom , }")).
Eval vm_compute in ("<<<M828>>>" ++ check (runes_of_ascii "packet A {
  match k as n {
    [""a"", 22, ""c c"", 4, ""e"", 66] : B
    2 : C
  },
}")).
Eval vm_compute in ("<<<M703>>>" ++ check (runes_of_ascii "root packet len // trailing space 
{
// " ++ [27880; 37322]%N ++ runes_of_ascii "
//	t
char[10
] metadata	@lengthOf(")).
Eval vm_compute in ("<<<M808>>>" ++ check (runes_of_ascii "packet A {
  match k as n {
    [1, 22, 007, 4, 5] : B,
    2 : C
  },
}")).
Eval vm_compute in ("<<<M1082>>>" ++ check (runes_of_ascii "packet A { match k as n { [ // a
 1 // b
 , // c
 2 ] // d
 : B }, }")).
Eval vm_compute in ("<<<M1484>>>" ++ check (runes_of_ascii "

  root
packet

P { repeat
string
ss

,	repeat u16 ns
,

}

")).
Eval vm_compute in ("<<<M1482>>>" ++ check (runes_of_ascii "root packet P {
    repeat string ss,
    repeat u16 ns,
}
")).
Eval vm_compute in ("<<<M1654>>>" ++ check (runes_of_ascii "
root
packet  u128	// c
  {

    chars  `it's`
    ,
	}
")).
Eval vm_compute in ("<<<M2008>>>" ++ check (runes_of_ascii "root 
packet

P  {
char
c
,

    u8
    x
	, } ")).
Eval vm_compute in ("<<<M1842>>>" ++ check (runes_of_ascii "  MetaData	pack	{
f64
    A	`{ , }`	,
    }

")).
Eval vm_compute in ("<<<M1943>>>" ++ check (runes_of_ascii "root packet zchar {
    zchar[007] Foo,
}")).
Eval vm_compute in ("<<<M1662>>>" ++ check (runes_of_ascii "root packet u128 {
    chars `it's`,
}")).
Eval vm_compute in ("<<<M917>>>" ++ check (runes_of_ascii "root packet A {
    u8 x `a
b`,
}")).
Eval vm_compute in ("<<<M1008>>>" ++ check (runes_of_ascii "packet A {
 u8 x `d" ++ [8232]%N ++ runes_of_ascii "`, // c" ++ [8232]%N ++ runes_of_ascii "
}")).
Eval vm_compute in ("<<<M1659>>>" ++ check (runes_of_ascii "packet A {
    char[3] x,
}")).
Eval vm_compute in ("<<<M141>>>" ++ check (runes_of_ascii "packet Header {
    }
")).
Eval vm_compute in ("<<<M2125>>>" ++ check (runes_of_ascii "packet options1 {} ")).
Eval vm_compute in ("<<<M1046>>>" ++ check (runes_of_ascii "packet A {
}
// c" ++ [65279]%N)).
Eval vm_compute in ("<<<M653>>>" ++ check (runes_of_ascii "root packet tag ")).
Eval vm_compute in ("<<<M241>>>" ++ check (runes_of_ascii "

//x
")).
Eval vm_compute in ("<<<M333>>>" ++ check (runes_of_ascii "

")).
