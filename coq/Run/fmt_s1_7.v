From FP Require Import Lexer Parser ShowPT Digest Formatter.
From Coq Require Import String List NArith.
Import ListNotations.
Open Scope string_scope.
Set Printing Width 100000000.
Set Printing Depth 100000000.
Definition show_fres (r : fres) : string :=
  match r with
  | FOk s => "OK:" ++ sh_escaped s ""
  | FErr s => "ERR:" ++ sh_escaped s ""
  | FPanic p => "PANIC:" ++ p
  end.
Definition check (rs : list rune) : string := digest (show_fres (format_res rs)).
Definition full (rs : list rune) : string := show_fres (format_res rs).
Eval vm_compute in ("<<<M3505>>>" ++ check (runes_of_ascii "  packet 
Header

    { f32
lengthOf
    `doc` ,
string  Z9_

@lengthOf(

    uint8x ) `doc`  ,
u32
calculatedFrom`" ++ [233]%N ++ runes_of_ascii "` 
, 
u32 i64_  ,	match
    rootA

as
falsey
    // `tick` ""quote"" 'q'
// 50% %s

	{4294967296

:  Packet, [7 
,
""a\""b"" , 007
	,
	4294967296 ]
    :// 50% %s
	pack
    65535 :
zchar
}
    ,
	repeat MetaDataX{	match
    crc as

roots
    { 3: matchKey
    ,[
""a\\""
,""`tick`""	]
:

    matchKey 42 
:
    roots  , 	 //x
    65535  : MetaDataX 
,

    ""1"": repeatCount ,
4294967296

    :	falsey

    ,
    }
	,
} ,
    match

Foo as

float

    {  10

:lengthOf  255

    : x_y_z
, 7
:

o 00
	: i64_, }

, 
repeat A
	stringy  // a // b
`{ , }`	// c
      , Header{

    u8x trueish
	, char  roots
@lengthOf(  leftPad	)
,	match
T as  // " ++ [128512]%N ++ runes_of_ascii " emoji
msg_type

{

0123456789 : As
, 
}	, 
falsey  @lengthOf(trueish

)// trailing space 
      , }  ,  } MetaData
crc 	 // a // b

  { uint16 A ,
	string BodyLength,i16
x_y_z 
,
} packet

u {
@rightPad  // 50% %s
  (	'\x00'	) zchar[
    3
]Logon  @calculatedFrom( ""x y""
	), @lengthOf(

    rootA
) 
        /// triple
/// triple
  repeat  f32
falsey

, 
@lengthOf(chars

    )  @calculatedFrom(	//	t

  ""// no comment"")  repeat metadata,	f32a @lengthOf( 
a1

    )
,  @rightPad

    (

'\x00' )f64
i64_

    @calculatedFrom( ""a	b"" ) , @calculatedFrom(
""\n""

    )

uint32 BodyLength  @calculatedFrom( 
        // trailing space 

// 50% %s
    """ ++ [233]%N ++ runes_of_ascii "t" ++ [233]%N ++ runes_of_ascii """
)	`" ++ [28040; 24687; 31867; 22411]%N ++ runes_of_ascii "`,	@lengthOf( Logon 
      // packet A { u8 x, }
	)
// 50% %s
    u16
	T	@calculatedFrom( ""a\\"" 
)  `crlf
line` , 
string	Packet	/// triple
    ,char[]

    len
	``,

}
	root
packet  T 
{
@calculatedFrom( 
//	t
  //	t

  ""`tick`""  )char[

3  
  // a // b
  // " ++ [128512]%N ++ runes_of_ascii " emoji
  ] 
msg_type
, lengthOf 
`it's`
	,

@lengthOf(msg_type  )
	char

leftPad`u8 x,`

, 	 // 50% %s
  repeat
	u64
body

    , } 
packet
i8i8{
@lengthOf(
string_  ) repeat
	char[]

    x ,@calculatedFrom( ""CRC32"")
	u16
A
	    // @lengthOf(
    @lengthOf(  string_ )	`// not a comment` ,  i32 zchar 	 // " ++ [128512]%N ++ runes_of_ascii " emoji
`a\` ,
match  roots as i64_ {
    [ 4294967296, ""abc"",

""x y"" 
,""a	b""
	,

""a	b"" 
] 
:	Z9_
[

""// no comment"",
    ""\n""

    //

,42 ,
    1 
, ""\" ++ [233]%N ++ runes_of_ascii """ ,
1 ,

7  ,
	3 ]	:
    Header
	, // c
  [

    """ ++ [128512]%N ++ runes_of_ascii """	, ""\" ++ [233]%N ++ runes_of_ascii """ ,""\" ++ [233]%N ++ runes_of_ascii """ , 
00 ,	""" ++ [233]%N ++ runes_of_ascii "t" ++ [233]%N ++ runes_of_ascii """, 1
    ,	00 ,
3

    ]:A ,
}
, 
char[  10] a1 ,  } ")).
Eval vm_compute in ("<<<M832>>>" ++ check (runes_of_ascii "root
packet MetaDataX {
    @lengthOf(
    u128 )@rightPad
(' ') @calculatedFrom(""" ++ [233]%N ++ runes_of_ascii "t" ++ [233]%N ++ runes_of_ascii """ ) T @lengthOf(
Foo
) ,
calculatedFrom pack,
@tag( 65535
// `tick` ""quote"" 'q'
//	t
)Header`100% of %d` , @rightPad ( ' '
    )
    tag
T`tab	here`  ,
    @tag( 65535) crc	@lengthOf(BodyLength)  `// not a comment`, @calculatedFrom( ""CRC32""
    // packet A { u8 x, }
    ) repeat i16	i64_
,
@calculatedFrom( ""// no comment"" // " ++ [27880; 37322]%N ++ runes_of_ascii "
)@calculatedFrom(
    // trailing space 
    ""CRC32"" ) zchar[007
] u
    `say ""hi""`
    ,
@tag(3
) // a // b
i8 pack @calculatedFrom(""\n""
    //x
    )// `tick` ""quote"" 'q'
`doc` // @lengthOf(
,
    } root packet
    Logon { @lengthOf(	len
)  x_y_z @lengthOf( MetaDataX
),
    // 50% %s
    }
// @lengthOf(
// " ++ [27880; 37322]%N ++ runes_of_ascii "
packet
u128 { /// triple
@tag( 0
    ) A
rootA `" ++ [28040; 24687; 31867; 22411]%N ++ runes_of_ascii "`
, @calculatedFrom( ""it's"" // " ++ [128512]%N ++ runes_of_ascii " emoji
)  match
calculatedFrom as crc
    { 4294967296: charz [ // trailing space 
4294967296
// c
/// triple
]	:As
    ,
4294967296:metadata // " ++ [128512]%N ++ runes_of_ascii " emoji
[ ""{,}"" , 255 , 65535 ,""x y"" ,  """ ++ [28040; 24687]%N ++ runes_of_ascii """ ] :_x
, ""1""  : i8i8 //
,007 // " ++ [128512]%N ++ runes_of_ascii " emoji
: len , } , @lengthOf( lengthOf )
match  chars
// trailing space 
// @lengthOf(
as Pad	{
10
// c
//	t
: string_
    007:
chars
}	, body { float64
uint8x
`crlf
line` , i64
    a1 `crlf
line`
    , // c
}
, @calculatedFrom(
""a\\"" ) repeat // @lengthOf(
char[ 1 ] len `doc`
, repeat zchar[ 42
    ] Foo `// not a comment` , } packet leftPad
{
    char[
42  ] leftPad
// packet A { u8 x, }
//x
@calculatedFrom("""")
`{ , }`
, falsey
    repeatCount,int8 float
    // a // b
    @lengthOf( matchKey ) `doc` ,@tag(
10
    )
match
roots as
As{
[
00 , ""a\""b"", 7 ,
""\n"", 255 , ""abc"" , """" ,
    """ ++ [128512]%N ++ runes_of_ascii """ ] :
body , 007 : Header
[
""" ++ [233]%N ++ runes_of_ascii "t" ++ [233]%N ++ runes_of_ascii """
,42 // " ++ [27880; 37322]%N ++ runes_of_ascii "
, 255]:	Pad,[ 65535 ,
    ""{,}"" , 1 ]
// a // b
// a // b
:falsey ,7
: u8x
,
} ,
@calculatedFrom(
""abc"" )
@tag(00
    ) char[ 7 ]len // " ++ [27880; 37322]%N ++ runes_of_ascii "
,// trailing space 
repeat
    u32 leftPad ,
} 	 ")).
Eval vm_compute in ("<<<M1365>>>" ++ check (runes_of_ascii "
MetaData x_y_z
{ /// triple
}packet
    T
    {	@rightPad ('\x00')
pack ,
} packet
    x_y_z	{ // a // b
@tag( 42 ) @calculatedFrom( """ ++ [128512]%N ++ runes_of_ascii """	)uint32 rootA `say ""hi""` , int64 len , @leftPad (	'0' // " ++ [27880; 37322]%N ++ runes_of_ascii "
) match
a1  as string_ { 00 : BodyLength
255:
    MetaDataX ,
[ 1
] :float ,
    // " ++ [27880; 37322]%N ++ runes_of_ascii "
    00 :
stringy
    , 007
:
Header// `tick` ""quote"" 'q'
,	}
    ,calculatedFrom , @rightPad () i64_ {
repeat char[ 3
    // `tick` ""quote"" 'q'
    ]
msg_type `tab	here`
, } ,repeat _x Pad `say ""hi""`
    ,
//	t
// `tick` ""quote"" 'q'
a1 rootA, uint32 body
`" ++ [233]%N ++ runes_of_ascii "`
,
//x
// `tick` ""quote"" 'q'
} packet x { repeat Pad
Header	,
}packet msg_type { repeat o	{ // `tick` ""quote"" 'q'
uint16 matchKey //x
@lengthOf(float )  , repeat leftPad // @lengthOf(
matchKey `100% of %d`, char[ 007 ] string_ @lengthOf(
// 50% %s
// packet A { u8 x, }
o ) , match A as x_y_z{ 10 :	body ,
    255:
Packet , ""it's"" :
metadata [ 10	]	:
    stringy , 00: zchar
, } , }
, @calculatedFrom(  ""`tick`"" ) @lengthOf(
falsey
)
repeat Z9_
{ matchKey
    Z9_ `doc` , repeat char[
00]
//
// trailing space 
Foo ,}, match f32a as o {	[ 007 , ""\" ++ [233]%N ++ runes_of_ascii """// " ++ [27880; 37322]%N ++ runes_of_ascii "
,
10
, 00	,
/// triple
//	t
""" ++ [128512]%N ++ runes_of_ascii """ ] : // @lengthOf(
repeatCount , [10
]
    //x
    : Packet
,""a\\""	: string_	[ /// triple
""a	b"" ]
: f32a , [255 ,
255 , ""x y"" ,
    /// triple
    ""packet"" ] :
repeatCount//	t
,[	""packet"" ,	42
    // `tick` ""quote"" 'q'
    ] :  u ,  }
,  repeatCount{	zchar[	007] zchar @calculatedFrom(""a\""b""
)  , } , @calculatedFrom( ""a\""b"" )@lengthOf( Foo )
trueish lengthOf `// not a comment` , float64 // packet A { u8 x, }
float `" ++ [28040; 24687; 31867; 22411]%N ++ runes_of_ascii "` ,// packet A { u8 x, }
}
")).
Eval vm_compute in ("<<<M1350>>>" ++ check (runes_of_ascii "  MetaData int {} root  packet MetaDataX { uint64 u
,
u8 calculatedFrom// packet A { u8 x, }
@lengthOf(tag
)
//x
// @lengthOf(
`it's`	,
As o`it's`, float64 string_
    , @tag( 42 )
@lengthOf( T)
    @calculatedFrom( ""abc"")
    match uint8x
as len
{ // `tick` ""quote"" 'q'
[""\n"" , ""a\""b""
    ,
42,
    ""// no comment"", """" ,  0123456789 , //x
""{,}"" ,
""a\""b""] : matchKey	, [
    ""\" ++ [233]%N ++ runes_of_ascii """	, ""\" ++ [233]%N ++ runes_of_ascii """ , 3 , """" ]
:// `tick` ""quote"" 'q'
_x ,  }, MetaDataX , match
    MetaDataX	as _x	{ 0 : // @lengthOf(
uint8x
, // trailing space 
} ,@leftPad
('\x00' ) uint16 roots
    @calculatedFrom(""abc""
    // " ++ [27880; 37322]%N ++ runes_of_ascii "
    )
    ,// packet A { u8 x, }
@rightPad
(  ' ' ) int32 leftPad
    @calculatedFrom( ""packet"" ) `a\`, } packet	len{ len
,@lengthOf(
    float
)@calculatedFrom(	""" ++ [28040; 24687]%N ++ runes_of_ascii """  )  @tag(  4294967296
)
uint8//	t
metadata // " ++ [128512]%N ++ runes_of_ascii " emoji
@calculatedFrom( ""`tick`""
)// packet A { u8 x, }
`" ++ [28040; 24687; 31867; 22411]%N ++ runes_of_ascii "` ,
@lengthOf( //x
BodyLength // 50% %s
) zchar[ 007
]Z9_ , _x{char[]i8i8 `doc` , } , repeatCount  @calculatedFrom(""`tick`"" ) ,match
    i8i8 as tag
{ 7 : Pad,} , u8 lengthOf //
`{ , }` ,
@tag(
    // `tick` ""quote"" 'q'
    00 ) // " ++ [128512]%N ++ runes_of_ascii " emoji
_x _x ,  } packet lengthOf
{ repeat calculatedFrom , @tag( 42 )
// @lengthOf(
// " ++ [27880; 37322]%N ++ runes_of_ascii "
match asx as A { ""\" ++ [233]%N ++ runes_of_ascii """ : int	""abc"" :
falsey , """ ++ [128512]%N ++ runes_of_ascii """// `tick` ""quote"" 'q'
: falsey , [""x y"", 42 ] : charz
    // @lengthOf(
    } , } // `tick` ""quote"" 'q'")).
Eval vm_compute in ("<<<M4432>>>" ++ check (runes_of_ascii "root packet charz {
    @calculatedFrom(""" ++ [233]%N ++ runes_of_ascii "t" ++ [233]%N ++ runes_of_ascii """)
    Foo x `u8 x,`,
    rootA @lengthOf(leftPad),
    zchar[0123456789] MetaDataX `" ++ [28040; 24687; 31867; 22411]%N ++ runes_of_ascii "`,
    @tag(7)
    packetx @calculatedFrom(""CRC32"") `it's`,
    @lengthOf(falsey)
    repeat zchar[4294967296] string_,
    @lengthOf(options1)
    int {
        int64 u @calculatedFrom(""1"") `line1
        line2`,
        repeat zchar[00] falsey,
        char[] stringy @calculatedFrom(""it's"") `crlf
        line`,// a // b
        i16 A,
    },
    @calculatedFrom(""`tick`"")
    f64 BodyLength @lengthOf(len) `crlf
    line`,
}

MetaData msg_type {
    uint64 roots `100% of %d`,
}

options {
    packetx = true
}

MetaData uint8x {
}

root packet crc {
    // trailing space 
    char[4294967296] i64_,
    @leftPad('0')
    @lengthOf(msg_type)
    repeat Foo `line1
    line2`,
    asx i64_ `two words`,
    @tag(7)
    Packet,
    repeat i64 u8x `say ""hi""`,
    zchar[7] x_y_z,// `tick` ""quote"" 'q'
    match Foo as Pad {
        // c
        [""abc"", """"] : options1,
        ""a	b"" : crc,
        42 : rootA,
        // " ++ [128512]%N ++ runes_of_ascii " emoji
    },
    @lengthOf(Header)
    body int,
    @tag(1)
    @calculatedFrom(""" ++ [233]%N ++ runes_of_ascii "t" ++ [233]%N ++ runes_of_ascii """)
    char[255] charz @lengthOf(A),/// triple
    uint64 Packet @calculatedFrom(""1"") `100% of %d`,
}")).
Eval vm_compute in ("<<<M3588>>>" ++ check (runes_of_ascii "packet
    Packet{  @lengthOf(crc
)  // 50% %s

repeat

    zchar[
0123456789 ]

    charz

    ,

    @lengthOf(

    len
)leftPad x_y_z

    ,
	x{
string  a1 @lengthOf( 
Logon

)
	,
}
    , @tag(
0  
  //
    ) @lengthOf(
u8x  ) @calculatedFrom(
""it's""

    )

string
zchar ``

    ,} MetaData
	repeatCount
	{
} packet trueish{ u64 o // " ++ [27880; 37322]%N ++ runes_of_ascii "
    @lengthOf(

    T
)
    ,
	repeat
f64
    BodyLength,	int32
x
@calculatedFrom(""1""
	),  @tag(
10 )
	Z9_`{ , }`	,
    f32a 	 // trailing space 
{ 

    //x
	repeat
zchar[
    0123456789	] A,  repeat 	 // trailing space 

i64	stringy
,	//

	leftPad
    //x
  `tab	here`

    ,	} 
,
    }	//
		packet

    u128
{

    match _x 
as // " ++ [128512]%N ++ runes_of_ascii " emoji
MetaDataX
{	[
    ""x y"",42 
]  : A,
} , // " ++ [128512]%N ++ runes_of_ascii " emoji
@lengthOf( charz
    )charz{match

x_y_z as
f32a
{

[

    007 , // trailing space 
    10 

    // @lengthOf(
	// `tick` ""quote"" 'q'
    ,
42,""" ++ [233]%N ++ runes_of_ascii "t" ++ [233]%N ++ runes_of_ascii """	,	0123456789/// triple
  ]:

    x_y_z 
,
	7
:u128 
, 
""// no comment"" 
:  repeatCount
, // " ++ [128512]%N ++ runes_of_ascii " emoji

""a\\""
	:	int

    ,""x y"":

    u128 }
, } ,i16

    chars @lengthOf( zchar

    )`it's`,
}
packet
asx { }")).
Eval vm_compute in ("<<<M4138>>>" ++ check (runes_of_ascii "// `tick` ""quote"" 'q'
root packet Z9_ {
    char[1] x_y_z @lengthOf(body),
    i32 o,
    repeat falsey u128 `it's`,// `tick` ""quote"" 'q'
    uint32 As ``,
    repeat i8 i64_ `100% of %d`,
    @calculatedFrom(""a\""b"")
    repeat float,
    @rightPad('0')
    char[] u `it's`,
    //
    //x
    u8x @calculatedFrom(""x y"") `doc`,//	t
    int8 stringy `tab	here`,
}

packet calculatedFrom {
    f64 u128 @lengthOf(len),
}

packet As {
    float64 calculatedFrom `two words`,
    match repeatCount as chars {
        """" : charz,
    },
    repeat trueish {
        u8 Z9_,
        repeat body,
    },
    int float,
    @leftPad()
    tag {
        u16 string_ @calculatedFrom(""`tick`"") `
                `,
        zchar[007] x @calculatedFrom(""1"") `// not a comment`,
    },
    A roots,
    @tag(4294967296)
    match msg_type as A {
        007 : msg_type,
        /// triple
        [42, ""{,}""] : x_y_z,
        255 : f32a,
        [0123456789, ""1""] : T,
    },
    @tag(0)
    o packetx `" ++ [28040; 24687; 31867; 22411]%N ++ runes_of_ascii "`,
    pack int `two words`,// trailing space 
    @rightPad(' ')
    i64_ @lengthOf(Foo),
}")).
Eval vm_compute in ("<<<M1017>>>" ++ check (runes_of_ascii "packet asx { //
}packet Z9_ { @rightPad
(
    '\x00' ) leftPad  @calculatedFrom("""")
    ,
@calculatedFrom( ""packet"" )
    roots calculatedFrom `two words` , @calculatedFrom( ""x y"") @calculatedFrom( // `tick` ""quote"" 'q'
""a\""b"" ) repeat x
    // " ++ [128512]%N ++ runes_of_ascii " emoji
    charz
    , repeat	f32a
{ char[] // `tick` ""quote"" 'q'
falsey @lengthOf(pack ),
zchar[
10 ] options1 @lengthOf(// 50% %s
float
    ),char[ 00
    ]
Packet @lengthOf(chars
    ) , } ,@calculatedFrom( ""a	b"" ) T
BodyLength `doc`	,@tag( 10
    )match
x as msg_type
    {
    007 :
    /// triple
    Z9_ ,
[255
// " ++ [128512]%N ++ runes_of_ascii " emoji
// `tick` ""quote"" 'q'
, ""a	b"" // `tick` ""quote"" 'q'
] :
    lengthOf , } ,
}packet tag
    //x
    {
    Logon @calculatedFrom(""\" ++ [233]%N ++ runes_of_ascii """
),
repeat f32a
{
    int8 Logon @lengthOf(repeatCount ) `100% of %d` ,}
, @calculatedFrom( ""{,}""
    )
@leftPad ( '0'
    ) @tag( 255//
) int32 MetaDataX`it's`,@rightPad
    ( '0' )@calculatedFrom( """ ++ [128512]%N ++ runes_of_ascii """
) Pad
x , zchar[  007	]
    MetaDataX , } packet BodyLength {
}packet calculatedFrom
{// packet A { u8 x, }
}
")).
Eval vm_compute in ("<<<M1096>>>" ++ check (runes_of_ascii "packet
// c
//	t
Foo { repeat
    zchar x_y_z
,match // a // b
f32a as body { 7 :
    len ,} ,
    @tag( //x
4294967296 )//	t
lengthOf	@lengthOf( MetaDataX )
, @tag( 007 ) repeat f64 chars , repeat
//x
// a // b
packetx { f64
    calculatedFrom , char[ 0123456789
    ] Header
@lengthOf( Foo) , repeat rootA
,} , @calculatedFrom(
// c
// trailing space 
""CRC32"" )
falsey  _x `it's` , match roots as packetx{
    42 : rootA ,0123456789 : Z9_ // @lengthOf(
3 : a1
42	://	t
int // c
, 007 // @lengthOf(
:
    // a // b
    options1 , } ,  } root packet
    u8x {zchar[
    00
    ] i8i8
    `{ , }` , u128``
    ,  } packet
    lengthOf	{@leftPad ( '0' )
// " ++ [27880; 37322]%N ++ runes_of_ascii "
// a // b
@rightPad
    (  '0' )
@calculatedFrom("""" ) int16 pack
// `tick` ""quote"" 'q'
// packet A { u8 x, }
@lengthOf(
// " ++ [128512]%N ++ runes_of_ascii " emoji
// " ++ [27880; 37322]%N ++ runes_of_ascii "
repeatCount ) `// not a comment`	,@lengthOf(
// @lengthOf(
// c
crc  )	T ,
// c
// 50% %s
} options{ }
// 50% %s
// " ++ [128512]%N ++ runes_of_ascii " emoji
root packet
    roots {
u8x calculatedFrom , }
")).
Eval vm_compute in ("<<<M3615>>>" ++ check (runes_of_ascii "
MetaData

    lengthOf
{

    uint32
    charz
`100% of %d` 	 //	t
  , } packet

zchar
{@calculatedFrom(

    ""x y"" )	match

    As
    // trailing space 
	  // `tick` ""quote"" 'q'
as As

{  [

7
    ,

    """ ++ [128512]%N ++ runes_of_ascii """
	] : lengthOf ,

[
	"""" ,  007

    ,
    3 ,  42,
""\n""// packet A { u8 x, }
    ]
: Packet // " ++ [27880; 37322]%N ++ runes_of_ascii "
	  ,	//x

}  , @leftPad
(

)@tag( 
42
    )  zchar  // c
	  , 
@lengthOf(
    x)  uint16	crc // " ++ [27880; 37322]%N ++ runes_of_ascii "
  @lengthOf( lengthOf // " ++ [128512]%N ++ runes_of_ascii " emoji
    	) 
`u8 x,`// c
	, Foo  { 
repeat	packetx
,
    zchar[

3

    ]
	chars

    @lengthOf( 
    /// triple
    //	t
  tag  ) ,string  chars
	// `tick` ""quote"" 'q'
	@calculatedFrom(""abc"" )
`a\` 
, }
,	@rightPad(  '0'
	)  Logon  {
// " ++ [128512]%N ++ runes_of_ascii " emoji
	// " ++ [27880; 37322]%N ++ runes_of_ascii "
int16 
leftPad 
	    //	t

// `tick` ""quote"" 'q'
	@calculatedFrom(""""
    )

,
    Foo
@calculatedFrom(
    ""\" ++ [233]%N ++ runes_of_ascii """ )
, 
// 50% %s
    	// @lengthOf(

	int16 
len `u8 x,`,

}
	,

}MetaData
	matchKey  {}")).
Eval vm_compute in ("<<<M568>>>" ++ check (runes_of_ascii "MetaData
    calculatedFrom {
} //x
options { stringy =
    ' ' ;	} packet
    tag	{ @tag(// a // b
65535 ) repeat x_y_z i8i8 // 50% %s
,  pack,
    // " ++ [27880; 37322]%N ++ runes_of_ascii "
    float @lengthOf(
trueish )
,match  metadata
    as o// 50% %s
{ 7 :charz , [ ""\n"" ,
    ""// no comment"" , ""`tick`"", 7,
    ""x y""
    ] : body ,//x
[""a\""b""
// " ++ [128512]%N ++ runes_of_ascii " emoji
//	t
, 0123456789 , 0123456789
    ,
""\n"" , 10, ""it's""
    ,
""{,}"" , """ ++ [28040; 24687]%N ++ runes_of_ascii """ ] : Header ,
// a // b
//x
4294967296 :
i64_,""""
:
    /// triple
    stringy, }
, match rootA as zchar{	0 : a1 0
: len
,  [ 1
    , 0123456789 , ""a\\"" , ""abc"" ,
""" ++ [128512]%N ++ runes_of_ascii """ ]:matchKey  ,
    ""CRC32""
    :
    Z9_
    , }
,@tag(
    // trailing space 
    7 )string pack
    @calculatedFrom( ""x y""	)
`say ""hi""` , // " ++ [27880; 37322]%N ++ runes_of_ascii "
@lengthOf(packetx )
    //	t
    i8i8
, char[
//
// @lengthOf(
42
]
u8x,
    } root packet // @lengthOf(
a1{@rightPad ( '0' ) repeat  i16 body //
, }")).
Eval vm_compute in ("<<<M789>>>" ++ check (runes_of_ascii "
packet pack
    { match u8x as
lengthOf
    {  [10 , """ ++ [128512]%N ++ runes_of_ascii """ , 7 ,255 ] :	i8i8 ,	3 : asx , 007: u} ,} options
    { lengthOf=zchar[  65535 ] ;	zchar
    = ""CRC32"" ; } packet
options1{
    //
    repeat zchar[ 0
    ]	asx`` ,
// packet A { u8 x, }
//	t
char[
7 ] float@lengthOf(
BodyLength )
`it's`
,
zchar[ 0123456789 ]
u128
    , //x
@rightPad (
    ) //
repeat zchar[255
    ] Packet	`two words` , BodyLength
    Pad, @tag( 1 // `tick` ""quote"" 'q'
) zchar[10
    ] float @lengthOf( roots) ,@lengthOf( i64_ ) zchar[ 255 ]Logon `` , @lengthOf( Z9_ ) @calculatedFrom( ""a\""b"" ) repeat roots
    { i16 x // a // b
@calculatedFrom( ""a\""b"" )
    , Header @calculatedFrom(""a\""b"" ) `" ++ [233]%N ++ runes_of_ascii "` ,	repeat T
    `u8 x,`
, }
    , @rightPad (
' '//
)
    @leftPad
    (
// a // b
// " ++ [27880; 37322]%N ++ runes_of_ascii "
'\x00' ) @leftPad ( '\x00' )
    repeat char[] As , }
")).
Eval vm_compute in ("<<<M193>>>" ++ check (runes_of_ascii "packet chars {repeat crc	int , falsey
string_ `say ""hi""` ,@leftPad
// `tick` ""quote"" 'q'
// trailing space 
(
) repeat trueish `" ++ [28040; 24687; 31867; 22411]%N ++ runes_of_ascii "`, @calculatedFrom( ""1"" ) // a // b
repeatCount  ,
string chars // " ++ [27880; 37322]%N ++ runes_of_ascii "
@lengthOf(// 50% %s
calculatedFrom
// c
// trailing space 
)	,
    }root  packet//x
uint8x { u64
rootA  `{ , }` ,  string_ ,
    char[]
// c
//
matchKey
    ,	char[ 255
]
_x
// " ++ [27880; 37322]%N ++ runes_of_ascii "
// 50% %s
@calculatedFrom(
    ""1"" ) ,rootA
@calculatedFrom(
""a	b"") `line1
line2`,
    @lengthOf( // @lengthOf(
int
) MetaDataX @lengthOf( msg_type ) ,
    char[] lengthOf
@calculatedFrom( ""a\""b"" ) `a\` , int64 A `" ++ [28040; 24687; 31867; 22411]%N ++ runes_of_ascii "` , Logon{ char[ 7 ]calculatedFrom
,
leftPad ,
_x @calculatedFrom(
""" ++ [128512]%N ++ runes_of_ascii """ )
    ,
repeatCount matchKey
,  } ,
@lengthOf( Logon )
    zchar[ 0
] len `a\` , } // packet A { u8 x, }")).
Eval vm_compute in ("<<<M653>>>" ++ check (runes_of_ascii "root
packet T{  } MetaData Header {zchar[ 4294967296
    ]i64_ `" ++ [28040; 24687; 31867; 22411]%N ++ runes_of_ascii "` , } packet
    leftPad{ @calculatedFrom(
    ""a\\"" ) match charz as a1
{
    /// triple
    ""`tick`"": As ,
[10 , 3 ] : u8x ,[ 255 , // c
0]:  leftPad 10 :
repeatCount ,
}
// trailing space 
//	t
, @tag(	007 ) // packet A { u8 x, }
uint8
f32a , @rightPad ( ' ' ) @leftPad
// 50% %s
// c
(  '\x00'
    ) @lengthOf(//
stringy ) T @lengthOf(
charz
    ) ,
    metadata matchKey , A// " ++ [27880; 37322]%N ++ runes_of_ascii "
T
    , @leftPad // `tick` ""quote"" 'q'
( '0' ) char[ 1] // trailing space 
Packet ,
@tag( 7 )
    @leftPad
    (
' ' ) zchar[ 7]
    rootA @lengthOf(uint8x ) // trailing space 
,
    // `tick` ""quote"" 'q'
    zchar[  0123456789 ] Header `u8 x,` ,char[ 255	] x@lengthOf( MetaDataX
) `line1
line2`,}

")).
Eval vm_compute in ("<<<M157>>>" ++ check (runes_of_ascii "  packet
asx { match i8i8 as tag /// triple
{ 4294967296 : i8i8
,
10 : Header 10 : zchar }
    ,
uint8
    uint8x
    , repeat int a1`{ , }` // c
, @lengthOf( asx) // 50% %s
repeat
metadata
,  } MetaData
As{Packet A
,zchar[
0 ]Pad`two words`,
u16 T // @lengthOf(
, } // " ++ [27880; 37322]%N ++ runes_of_ascii "
root packet Header {
    float32//x
Foo@calculatedFrom(
""abc"" )
/// triple
// a // b
,@leftPad
    ( )
repeat string
    string_	, string leftPad // " ++ [128512]%N ++ runes_of_ascii " emoji
`say ""hi""` ,
    @tag(4294967296 )
    @calculatedFrom( """ ++ [28040; 24687]%N ++ runes_of_ascii """ )
    char[] // @lengthOf(
f32a @lengthOf(
    Pad
) , int64 Foo ,  zchar[
4294967296
]
    // @lengthOf(
    tag ,  asx `` ,
    // 50% %s
    T @lengthOf( A )
// a // b
// `tick` ""quote"" 'q'
`tab	here`	,}options
{
chars =
f32 }
")).
Eval vm_compute in ("<<<M510>>>" ++ check (runes_of_ascii "packet // @lengthOf(
packetx { @calculatedFrom(	""`tick`"" ) // @lengthOf(
uint8x@calculatedFrom( ""{,}"" )
/// triple
// 50% %s
`it's` ,
    }
options{msg_type=
    //
    char[ 10 ] BodyLength = char[ 255 ] Z9_
= ""a	b"" } options // c
{ x_y_z
=	' ' ;}
packet u { char[] BodyLength  , uint32 Header@lengthOf( packetx )
    , As Header , @calculatedFrom(
""// no comment""
) @lengthOf( uint8x )
    match // " ++ [128512]%N ++ runes_of_ascii " emoji
u128 as matchKey
{ [ 3
// trailing space 
//
,	""\" ++ [233]%N ++ runes_of_ascii """ , ""\" ++ [233]%N ++ runes_of_ascii """ // packet A { u8 x, }
] : calculatedFrom
    ,0123456789
    :o 10
    : rootA ,	} , //
zchar[0123456789 ]  BodyLength @lengthOf(
    repeatCount)
    , }packet
leftPad
    { @tag(007 //	t
) repeat string packetx  , }")).
Eval vm_compute in ("<<<M1033>>>" ++ check (runes_of_ascii "root packet MetaDataX {string msg_type @lengthOf(zchar ),
uint16	tag , char[ 007
    ]body @lengthOf( roots )
,
@lengthOf(
uint8x ) zchar[ 3	]u
, char[//
00 ]
T ,
@leftPad (	' '
)
    @tag( 65535 ) f64
// packet A { u8 x, }
// 50% %s
matchKey`line1
line2` ,
// @lengthOf(
// packet A { u8 x, }
char[
4294967296]  chars @calculatedFrom(""" ++ [28040; 24687]%N ++ runes_of_ascii """
) `" ++ [28040; 24687; 31867; 22411]%N ++ runes_of_ascii "`
    // " ++ [128512]%N ++ runes_of_ascii " emoji
    ,uint16 metadata `crlf
line` , char[ 65535
] a1 ,
options1 @calculatedFrom( ""x y""	)
    //x
    `
` ,
} options
    {
stringy ='\x00' ;stringy = ""CRC32""
    ;	Packet =	10 zchar = 4294967296 ; len =
""" ++ [28040; 24687]%N ++ runes_of_ascii """  }
MetaData x_y_z
{
    pack int, }// packet A { u8 x, }
MetaData
tag {  u MetaDataX
, }")).
Eval vm_compute in ("<<<M3283>>>" ++ check (runes_of_ascii "// top
packet // c0
x_y_z // c1
{ // c2
match // c3
leftPad // c4
as // c5
string_ // c6
{ // c7
0 // c8
: // c9
A // c10
, // c11
""a	b"" // c12
: // c13
x_y_z // c14
, // c15
} // c16
, // c17
@calculatedFrom( // c18
""\n"" // c19
) // c20
metadata // c21
{ // c22
repeat // c23
lengthOf // c24
f32a // c25
`line1
line2` // c26
, // c27
MetaDataX // c28
{ // c29
u8x // c30
matchKey // c31
, // c32
} // c33
, // c34
uint8 // c35
a1 // c36
@lengthOf( // c37
body // c38
) // c39
, // c40
string // c41
charz // c42
`a\` // c43
, // c44
} // c45
, // c46
} // c47
packet // c48
charz // c49
{ // c50
} // c51
MetaData // c52
A // c53
{ // c54
} // c55
")).
Eval vm_compute in ("<<<M1183>>>" ++ check (runes_of_ascii "MetaData //
repeatCount {body
MetaDataX  `" ++ [28040; 24687; 31867; 22411]%N ++ runes_of_ascii "` ,
    As calculatedFrom
,  char[ 00 ] // packet A { u8 x, }
uint8x
, float32 tag	`it's` ,calculatedFrom leftPad`say ""hi""` , }
packet i8i8 { }
    root packet asx { string matchKey@lengthOf( u
)
,
crc
@calculatedFrom(
""abc""
    // @lengthOf(
    ) ,
// @lengthOf(
// " ++ [128512]%N ++ runes_of_ascii " emoji
match x
    //	t
    as metadata { 10
:x_y_z
    ,  [ ""\" ++ [233]%N ++ runes_of_ascii """ , 1 ]	:metadata
    ,
65535 : i64_ , ""`tick`"" :matchKey,// packet A { u8 x, }
} , stringy {int64
    u
    @calculatedFrom(	""\" ++ [233]%N ++ runes_of_ascii """) // 50% %s
, u32
Pad , u	u `" ++ [233]%N ++ runes_of_ascii "`
    , Header// a // b
@calculatedFrom( ""\n"") `" ++ [233]%N ++ runes_of_ascii "` , // " ++ [128512]%N ++ runes_of_ascii " emoji
} ,}")).
Eval vm_compute in ("<<<M488>>>" ++ check (runes_of_ascii "MetaData u128
    {f32a
body  , A	pack `say ""hi""`
    , int32
i8i8 `{ , }` ,zchar[0	] _x `{ , }`
    ,}packet chars {
T
{ char[
1 ]
// c
//x
u`{ , }`
    ,	} ,int64 options1  @lengthOf( matchKey
    )	,
    @leftPad( '0' ) @tag(  7 ) //	t
zchar[ 65535 ] falsey @calculatedFrom(
// packet A { u8 x, }
// c
""// no comment"" ) ,
    @rightPad ( ' ' ) zchar, //x
char[ 007 ] crc
`" ++ [28040; 24687; 31867; 22411]%N ++ runes_of_ascii "` ,	@lengthOf(	float )
match i8i8 as matchKey{	1: stringy ,
[  ""x y"" ] /// triple
:// packet A { u8 x, }
Logon
    ,
} ,@tag(42 ) repeat f32a  { A `" ++ [28040; 24687; 31867; 22411]%N ++ runes_of_ascii "`
,
//
//x
}
    ,
    // " ++ [128512]%N ++ runes_of_ascii " emoji
    }  packet  _x
    {}
")).
Eval vm_compute in ("<<<M3325>>>" ++ check (runes_of_ascii "options {
    // c1
} root // c3
packet
    // c4
u { // c6
@rightPad // c7
(
    // c8
) // c9a
  // c9b
@tag( // c10
42
    // c11
) @calculatedFrom( // c13
""""
    // c14
) // c15
repeat
    // c16
u8 // c17a
  // c17b
msg_type // c18a
  // c18b
, @lengthOf( stringy
    // c21
) @leftPad // c23a
  // c23b
( '\x00' )
    // c26
@tag( 4294967296
    // c28
) // c29a
  // c29b
A // c30a
  // c30b
`crlf
line` // c31
, // c32a
  // c32b
zchar[
    // c33
1 // c34
] // c35
asx // c36
`" ++ [233]%N ++ runes_of_ascii "` // c37a
  // c37b
, // c38a
  // c38b
charz
    // c39
, // c40a
  // c40b
} // c41
")).
Eval vm_compute in ("<<<M3525>>>" ++ check (runes_of_ascii "packet
	    //
  calculatedFrom{  /// triple
    	pack matchKey
``,  int8 MetaDataX
`a\` , 
@lengthOf(  crc )
	int16
    T 
,
zchar[  1 ] Logon
	@lengthOf( T
	) 
`line1
line2` 
,
@rightPad  (
    ) Packet

`u8 x,`
    ,  }

packet  pack  /// triple

	{
} packet Z9_
{Pad@lengthOf( 
_x

    )
	`say ""hi""`

,@lengthOf(

matchKey
)

@calculatedFrom(
    """ ++ [128512]%N ++ runes_of_ascii """	) 
f32  matchKey
@calculatedFrom(
""{,}"" )
	`// not a comment`,
} options
    { u =  char[

    65535
	]  ; 
rootA =
3 leftPad =
' '  ;
repeatCount	=
// " ++ [128512]%N ++ runes_of_ascii " emoji
  '\x00' 
;

    }
")).
Eval vm_compute in ("<<<M379>>>" ++ check (runes_of_ascii "packet // a // b
Z9_
    { @calculatedFrom(""\" ++ [233]%N ++ runes_of_ascii """// c
) Z9_
, @calculatedFrom(""" ++ [233]%N ++ runes_of_ascii "t" ++ [233]%N ++ runes_of_ascii """ )
repeat leftPad,
// packet A { u8 x, }
//	t
@rightPad
( '0' )
    // trailing space 
    Foo
, //
@tag(10	)
    chars `line1
line2` ,
@leftPad
    // " ++ [128512]%N ++ runes_of_ascii " emoji
    ( ) repeat zchar[ 255 ] u128
,
@lengthOf( // c
body
    ) charz//	t
{ As
,	string // @lengthOf(
zchar `" ++ [28040; 24687; 31867; 22411]%N ++ runes_of_ascii "` , o @calculatedFrom(""1"" ) // packet A { u8 x, }
, repeat u32 Header	`crlf
line` , }
    ,
zchar[ 0123456789
] uint8x @calculatedFrom(	""CRC32"" )
`` ,
u32
    a1 ,	}")).
Eval vm_compute in ("<<<M278>>>" ++ check (runes_of_ascii "packet Header {
repeat	i64 float ,} packet matchKey { @tag( 00) match u8x as pack
    // " ++ [128512]%N ++ runes_of_ascii " emoji
    { 1	:u ""a\\"": string_ , 0:
body
, }
    ,
@calculatedFrom( ""// no comment""	) @rightPad
(
'0' )@tag( 00 ) // a // b
int16
calculatedFrom
@lengthOf( //x
pack
),repeat char[] x_y_z , } options //	t
{ //	t
float = // " ++ [128512]%N ++ runes_of_ascii " emoji
char[] roots
// " ++ [27880; 37322]%N ++ runes_of_ascii "
// a // b
='0' ; u = char Packet =
    0123456789// @lengthOf(
; u8x // " ++ [27880; 37322]%N ++ runes_of_ascii "
= ""CRC32""
    ;}
    root packet
    x { i16 T
@lengthOf(
f32a)
`" ++ [28040; 24687; 31867; 22411]%N ++ runes_of_ascii "` , }
")).
Eval vm_compute in ("<<<M547>>>" ++ check (runes_of_ascii "MetaData	Logon
// `tick` ""quote"" 'q'
// `tick` ""quote"" 'q'
{
    int32 u8x , }  root packet string_{ @rightPad ( ' ') char[ 65535
]
    o `u8 x,` , match
// @lengthOf(
/// triple
x as  pack {007  : _x [ 255 // trailing space 
, 7 , ""// no comment""
,255 , 10	,// " ++ [128512]%N ++ runes_of_ascii " emoji
""a\""b"" , 007,//	t
1
    ]
    :
    int , // 50% %s
[ ""a\\"",
""CRC32""] : tag
/// triple
// " ++ [128512]%N ++ runes_of_ascii " emoji
, } ,
@calculatedFrom(""" ++ [28040; 24687]%N ++ runes_of_ascii """)
    @lengthOf( Foo ) @leftPad
(//
) i8 _x , BodyLength lengthOf `a\`
    , }")).
Eval vm_compute in ("<<<M3668>>>" ++ check (runes_of_ascii "packet body {
    @lengthOf(Pad)
    @tag(007)
    @tag(00)
    crc @lengthOf(falsey),
    @leftPad(' ')
    repeat string repeatCount `u8 x,`,
    @rightPad()
    @leftPad(' ')
    uint8x u128,
    @calculatedFrom(""\n"")
    packetx lengthOf,
}

packet body {
    @calculatedFrom(""\" ++ [233]%N ++ runes_of_ascii """)
    metadata asx `100% of %d`,//
    match chars as uint8x {
        ""1"" : options1,
        7 : rootA,
        ""// no comment"" : float,
    },
    char[4294967296] o,
}")).
Eval vm_compute in ("<<<M1141>>>" ++ check (runes_of_ascii "options { MetaDataX= ""`tick`""  ;
    packetx
    = true A
    // @lengthOf(
    =
""x y"";
// a // b
// 50% %s
T = true ;  roots= true
}options { chars
    =// packet A { u8 x, }
zchar[7 ]
MetaDataX  =
    ' '// " ++ [27880; 37322]%N ++ runes_of_ascii "
;zchar  = 0
} MetaData // 50% %s
matchKey {  options1
MetaDataX
    `" ++ [233]%N ++ runes_of_ascii "`
, float64 Z9_ ,
//
// a // b
zchar[ 007
] x_y_z , zchar[ // c
1// a // b
]pack
    // a // b
    `say ""hi""`
    //	t
    ,char[] // 50% %s
Foo , }
")).
Eval vm_compute in ("<<<M1317>>>" ++ check (runes_of_ascii "options  {} packet o { @tag( 007 ) a1 /// triple
`two words` , @lengthOf(BodyLength)trueish // 50% %s
{	i64 x_y_z@calculatedFrom( ""`tick`""
    )
    //x
    ,
T
    { int8 rootA // c
@lengthOf( MetaDataX
) , zchar[
    0123456789 ]	trueish `" ++ [28040; 24687; 31867; 22411]%N ++ runes_of_ascii "`
    ,
chars
body ,
// @lengthOf(
//	t
} , uint16 Pad `{ , }` ,
char[ // " ++ [27880; 37322]%N ++ runes_of_ascii "
1// " ++ [128512]%N ++ runes_of_ascii " emoji
] matchKey
, } , repeat i64_
T, @lengthOf( charz )	repeat	int8
    i8i8, }
")).
Eval vm_compute in ("<<<M1283>>>" ++ check (runes_of_ascii "options{  o = """ ++ [28040; 24687]%N ++ runes_of_ascii """float = ' ' leftPad =
    ""a\\""
;
}  MetaData u8x { u8
//
// " ++ [128512]%N ++ runes_of_ascii " emoji
zchar ,A repeatCount ,repeatCount MetaDataX , // @lengthOf(
char[]// @lengthOf(
string_ ,
    packetx Foo , uint64 i8i8`{ , }`//x
,}packet
x { //	t
@leftPad( '0' )
T { int32
//	t
// packet A { u8 x, }
i8i8 `it's`,
char[]
rootA `line1
line2` ,  zchar[  7 //	t
]	leftPad
//
// @lengthOf(
, }
,// packet A { u8 x, }
}
")).
Eval vm_compute in ("<<<M4413>>>" ++ check (runes_of_ascii "
MetaData
    stringy	{char[3]

    T, char[ 255

] 
Logon 
,
	zchar[ 007]

    packetx
    , i8
pack ``
	, // 50% %s
    } // 50% %s
		packet// trailing space 
  Logon {

    match

u 
// `tick` ""quote"" 'q'
	as

    roots {  [

""// no comment"",

""it's""  ] : 
lengthOf	,  }
    ,  uint64
u128 @calculatedFrom(	// a // b
	""\" ++ [233]%N ++ runes_of_ascii """)  ,string  metadata
`say ""hi""`  ,}	/// triple
")).
Eval vm_compute in ("<<<M3383>>>" ++ check (runes_of_ascii "// top
options // c0a
  // c0b
{ // c1
LittleEndian // c2
=
    // c3
true ; // c5
} // c6
packet // c7a
  // c7b
B // c8
{ // c9
u8 a ,
    // c12
string s // c14
, } // c16a
  // c16b
root
    // c17
packet // c18
P {
    // c20
u16
    // c21
L
    // c22
@lengthOf( B // c24a
  // c24b
) // c25
,
    // c26
B ,
    // c28
u8 t ,
    // c31
} // c32a
  // c32b
")).
Eval vm_compute in ("<<<M3832>>>" ++ check (runes_of_ascii "
packet	calculatedFrom 
{
	@tag(  00  ) @calculatedFrom( ""`tick`""	)trueish
@calculatedFrom(""x y"" 
) ,
i8 // 50% %s
u8x	,  @lengthOf(
	body
)uint8x

x  ,
msg_type{// packet A { u8 x, }
    char[]

    Pad
	`two words` ,}

, }//	t
options

{  charz
	= 7 ;
	u8x

    = zchar[ 255
] ; 	 //	t
	u128  =
""`tick`""calculatedFrom
= false ;} 
options
{}")).
Eval vm_compute in ("<<<M4035>>>" ++ check (runes_of_ascii "
MetaData 
	//	t
    // 50% %s
    	f32a
{
char[
	3
]
	lengthOf
,zchar[

7 ]Header
    , u32 
x_y_z ,

    }
packet 
Foo

{
}packet	chars  {
metadata

    {
msg_type u128
    `a\`	,	}  ,
	} 
MetaData 
MetaDataX {

    }

    options {

    options1= 0123456789
    ; 
body =007 
; 
Foo =char[] ;

    u8x	= true 
; 
} ")).
Eval vm_compute in ("<<<M4299>>>" ++ check (runes_of_ascii "packet
    Header {	char[] MetaDataX`" ++ [28040; 24687; 31867; 22411]%N ++ runes_of_ascii "`
,  } 
packet
	Foo
{  int64

stringy ,int// `tick` ""quote"" 'q'
    	`" ++ [233]%N ++ runes_of_ascii "`	,  repeat  zchar[ 00

    ]  Header `" ++ [233]%N ++ runes_of_ascii "`
    , 
crc
pack  ,}
    options
	{/// triple
	  trueish = 

    //x

  ""abc""	;

u128= 
	    // packet A { u8 x, }
  	//

true
    ;
stringy	// a // b
=

7  ;
}
")).
Eval vm_compute in ("<<<M420>>>" ++ check (runes_of_ascii "
packet	falsey{ char Logon @calculatedFrom( """ ++ [128512]%N ++ runes_of_ascii """
) ,
repeat leftPad Header
    , } packet
Header{
char[ 3 ]// " ++ [128512]%N ++ runes_of_ascii " emoji
tag
@lengthOf( trueish) `two words` , match
packetx as options1 { 7 :
    i64_ // c
""{,}"" :	x ,[""" ++ [28040; 24687]%N ++ runes_of_ascii """,
    0
    , ""packet"" ] :_x[ 7 ,00
]
:
    i64_ // trailing space 
""a\""b"" :
As , } , }
")).
Eval vm_compute in ("<<<M3718>>>" ++ check (runes_of_ascii "
root  
      // @lengthOf(

  packet

falsey

{// c
repeat	// " ++ [128512]%N ++ runes_of_ascii " emoji

	zchar[
    42
    ]
f32a
, 
matchKey 
@lengthOf( // packet A { u8 x, }

x
	)
,  // `tick` ""quote"" 'q'

	@calculatedFrom( ""{,}""
)
	@leftPad
(
'\x00'

)	//	t
    repeat f32a ,	@rightPad (	'\x00'
) 
T@lengthOf(  o)	,  } ")).
Eval vm_compute in ("<<<M3422>>>" ++ check (runes_of_ascii "  packet
	A {

    u8
	a ,
}  packet
B{  u16 
b

,}  packet	C
{ 
u32

    c
	, }
root
	packet

    M{u16 Kc,
u16	Kb

,

u16 Ka, match Kc 
as 
X {

9:
A,

10 
:B ,
    }  ,match	Kb
    as 
Y{
2 :

C
	,
1 : A ,
} ,  match Ka as Z 
{ 1 : B
, }

    ,  A, 
B , C
    ,
}

")).
Eval vm_compute in ("<<<M1137>>>" ++ check (runes_of_ascii "options
{ calculatedFrom= ""\n"" ; } root packet lengthOf { /// triple
@calculatedFrom( ""\" ++ [233]%N ++ runes_of_ascii """ ) repeatCount
@calculatedFrom(
""\" ++ [233]%N ++ runes_of_ascii """ ) `
` , Logon, u@calculatedFrom( ""it's""  ),
    metadata rootA //	t
, char[ // 50% %s
42] u@calculatedFrom( ""a	b"")  , }
packet
Header{
    }

")).
Eval vm_compute in ("<<<M1659>>>" ++ check (runes_of_ascii "// 50% %s
packet	a1
    { zchar[
// a // b
// 50% %s
007]
T `it's`
    ,@rightPad
    // a // b
    (
'\x00')
    o repeatCount , }  packet Logon {  }packet	Logon //x
{ repeat // " ++ [128512]%N ++ runes_of_ascii " emoji
uint16 u128
    //
    `a\`""a\""b""
falsey
@calculatedFrom(""packet"" ) ,
    } 	 ")).
Eval vm_compute in ("<<<M1617>>>" ++ check (runes_of_ascii "// 50% %s
packet	a1
    { zchar[
// a // b
// 50% %s
007]
T `it's`
    ,@rightPad
    // a // b
    (
'\x00')
    o repeatCount , }  packet Logon {  } }packet	Logon //x
{ repeat // " ++ [128512]%N ++ runes_of_ascii " emoji
uint16 u128
    //
    `a\`,
falsey
@calculatedFrom(""packet"" ) ,
    } 	 ")).
Eval vm_compute in ("<<<M1553>>>" ++ check (runes_of_ascii "// 50% %s
packet	a1
    { zchar[
// a // b
// 50% %s
007]
T ,
    `it's`@rightPad
    // a // b
    (
'\x00')
    o repeatCount , }  packet Logon {  }packet	Logon //x
{ repeat // " ++ [128512]%N ++ runes_of_ascii " emoji
uint16 u128
    //
    `a\`,
falsey
@calculatedFrom(""packet"" ) ,
    } 	 ")).
Eval vm_compute in ("<<<M600>>>" ++ check (runes_of_ascii "packet
    x { string
// packet A { u8 x, }
// " ++ [128512]%N ++ runes_of_ascii " emoji
As , char[	65535 ]	leftPad `crlf
line` , i16 rootA
@lengthOf( packetx )
//x
// " ++ [27880; 37322]%N ++ runes_of_ascii "
`
` , repeat zchar
    T`" ++ [28040; 24687; 31867; 22411]%N ++ runes_of_ascii "` , }packet
// 50% %s
/// triple
options1 {// @lengthOf(
o ``,
    // packet A { u8 x, }
    }
")).
Eval vm_compute in ("<<<M1089>>>" ++ check (runes_of_ascii "  packet calculatedFrom {
i8i8
    // packet A { u8 x, }
    , }
    packet lengthOf{tag `doc` ,float32 string_
    // @lengthOf(
    ,
    zchar[
    007]
    u `{ , }`
//
//	t
, u64 string_
`doc` ,zchar[3 ] roots `doc`
    , i8
    len,  } root
packet	_x{	}")).
Eval vm_compute in ("<<<M4277>>>" ++ check (runes_of_ascii "options {
    o = i16;
    crc = true;
    zchar = ""\" ++ [233]%N ++ runes_of_ascii """;
    u128 = """ ++ [128512]%N ++ runes_of_ascii """;
}

// a // b
MetaData Logon {
    string options1 `doc`,
    char[007] int `" ++ [233]%N ++ runes_of_ascii "`,
}

MetaData pack {
    x rootA,
    roots u8x `crlf
        line`,
    a1 Z9_ `line1
        line2`,
}")).
Eval vm_compute in ("<<<M23>>>" ++ check (runes_of_ascii "root packet x_y_z
{ int32 lengthOf
    `line1
line2` , }packet
    T{ u16  i64_	, } packet
Z9_ { repeat string//
trueish // `tick` ""quote"" 'q'
`doc`,
} options
/// triple
// 50% %s
{repeatCount
    ='0' //	t
;charz  =
    i16
; tag= ""packet""}

")).
Eval vm_compute in ("<<<M4034>>>" ++ check (runes_of_ascii "packet Z9_ {
    lengthOf {
        char[] u128,
        u32 o,
    },
}

options {
}

MetaData len {
    char Logon,
    repeatCount lengthOf,
    Z9_ o,
    string MetaDataX `say ""hi""`,
    char[1] calculatedFrom `
    `,
    u tag,
}//")).
Eval vm_compute in ("<<<M1259>>>" ++ check (runes_of_ascii "  packet len	{ string tag , @calculatedFrom(
    """ ++ [233]%N ++ runes_of_ascii "t" ++ [233]%N ++ runes_of_ascii """)
repeat Z9_{ // " ++ [27880; 37322]%N ++ runes_of_ascii "
zchar[ 65535// c
] //	t
len @lengthOf( matchKey
) ,
//
/// triple
} ,  }MetaData float {
f32a rootA // trailing space 
`" ++ [233]%N ++ runes_of_ascii "`
    , // trailing space 
}
")).
Eval vm_compute in ("<<<M2>>>" ++ check (runes_of_ascii "packet metadata
{
    charz	@calculatedFrom(
    // `tick` ""quote"" 'q'
    ""CRC32"")
,
    MetaDataX, } packet uint8x	{ }
    options{//
}options{ u8x= """ ++ [128512]%N ++ runes_of_ascii """; crc = 0123456789 ; stringy
    =
false;
rootA = float32 ; }

")).
Eval vm_compute in ("<<<M1214>>>" ++ check (runes_of_ascii "/// triple
options {Logon	= ""a	b"";}  options {
    falsey = """ ++ [233]%N ++ runes_of_ascii "t" ++ [233]%N ++ runes_of_ascii """
    ; u128=' '
    _x = //	t
""" ++ [128512]%N ++ runes_of_ascii """ ;Foo
=
    // @lengthOf(
    00	pack= ' ' ;}packet i64_ { }
    packet As {
    char
o @lengthOf( u) ,
} 	 ")).
Eval vm_compute in ("<<<M4431>>>" ++ check (runes_of_ascii "root

    packet	x{ match
x as  // packet A { u8 x, }
	chars {

10 :

u128,
	} // trailing space 
	  ,

    @calculatedFrom( """"

) float64 lengthOf

@lengthOf(calculatedFrom
    )`tab	here` ,}
")).
Eval vm_compute in ("<<<M4316>>>" ++ check (runes_of_ascii "MetaData x {
    int32 int `line1
        line2`,
}

packet o {
    u32 charz,
    char[1] x_y_z `
        `,//	t
    len lengthOf,
    @lengthOf(charz)
    i16 body `crlf
        line`,
}")).
Eval vm_compute in ("<<<M626>>>" ++ check (runes_of_ascii "packet MetaDataX { }
    MetaData crc {
    tag MetaDataX,
    // `tick` ""quote"" 'q'
    char[
65535 ] trueish , string	crc , // a // b
zchar[7 ] MetaDataX,
/// triple
// " ++ [27880; 37322]%N ++ runes_of_ascii "
}
")).
Eval vm_compute in ("<<<M4185>>>" ++ check (runes_of_ascii "root packet zchar {
}

MetaData leftPad {
}

// " ++ [128512]%N ++ runes_of_ascii " emoji
MetaData charz {
    _x i8i8,
    Logon packetx,
    zchar[007] u `two words`,
    // `tick` ""quote"" 'q'
    //	t
}")).
Eval vm_compute in ("<<<M1635>>>" ++ check (runes_of_ascii "// 50% %s
packet	a1
    { zchar[
// a // b
// 50% %s
007]
T `it's`
    ,@rightPad
    // a // b
    (
'\x00')
    o repeatCount , }  packet Logon {  }packet	Logon")).
Eval vm_compute in ("<<<M4171>>>" ++ check (runes_of_ascii "  packet A 
{match 
k
as n
{ [
1

    ,

    22
,

""c c""

    , 
4
,
5
,	""f"" 
, 
7,
8	,
""i""

    ,
    10
	, 11, ""l"" ]

    :
B

2
:
C }	, } ")).
Eval vm_compute in ("<<<M2259>>>" ++ check (runes_of_ascii "options
    {
x_y_z// " ++ [27880; 37322]%N ++ runes_of_ascii "
= 10 ; }
packet body {
    @calculatedFrom( @calculatedFrom(
// trailing space 
// " ++ [27880; 37322]%N ++ runes_of_ascii "
""1""
)	match T as Foo
    {
255 :T , }
,}")).
Eval vm_compute in ("<<<M2066>>>" ++ check (runes_of_ascii "MetaData BodyLength
{ int8 Foo Foo
, string
    MetaDataX , float zchar ,pack options1
,asx string_, }
packet u8x {Foo@lengthOf(charz )
`" ++ [28040; 24687; 31867; 22411]%N ++ runes_of_ascii "`,  }
")).
Eval vm_compute in ("<<<M2193>>>" ++ check (runes_of_ascii "MetaData BodyLength
{ int8 Foo
, string
    < MetaDataX , float zchar ,pack options1
,asx string_, }
packet u8x {Foo@lengthOf(charz )
`" ++ [28040; 24687; 31867; 22411]%N ++ runes_of_ascii "`,  }
")).
Eval vm_compute in ("<<<M733>>>" ++ check (runes_of_ascii "// packet A { u8 x, }
packet
    float // " ++ [128512]%N ++ runes_of_ascii " emoji
{
    } packet u8x {
    } /// triple
options{  T
= ""{,}"" // 50% %s
} // `tick` ""quote"" 'q'")).
Eval vm_compute in ("<<<M2187>>>" ++ check (runes_of_ascii "MetaData BodyLength
{ int8 Foo
, string
    MetaDataX , float zchar ,pack options1
,asx string_, }
packet u8x {Foo@lengthOf(charz )
`" ++ [28040; 24687; 31867; 22411]%N ++ runes_of_ascii "`,  ,
")).
Eval vm_compute in ("<<<M1610>>>" ++ check (runes_of_ascii "// 50% %s
packet	a1
    { zchar[
// a // b
// 50% %s
007]
T `it's`
    ,@rightPad
    // a // b
    (
'\x00')
    o repeatCount , }  packet")).
Eval vm_compute in ("<<<M3519>>>" ++ check (runes_of_ascii "// c
MetaData Packet {
    i8i8 repeatCount,
    calculatedFrom falsey `
    `,
    float32 tag,
    string Packet `line1
    line2`,
}
// c")).
Eval vm_compute in ("<<<M1987>>>" ++ check (runes_of_ascii "
packet leftPad {
@leftPad( '0')
u32
i64_ `100% of %d` ,repeat// 50% %s
i8 i8 chars
    ,
} MetaData
    f32a
{ // packet A { u8 x, }
}")).
Eval vm_compute in ("<<<M2215>>>" ++ check (runes_of_ascii "options
    { {
x_y_z// " ++ [27880; 37322]%N ++ runes_of_ascii "
= 10 ; }
packet body {
    @calculatedFrom(
// trailing space 
// " ++ [27880; 37322]%N ++ runes_of_ascii "
""1""
)	match T as Foo
    {
255 :T , }
,}")).
Eval vm_compute in ("<<<M2045>>>" ++ check (runes_of_ascii "
packet leftPad {
@leftPad( '0')
u32
i64_ `100% of %d` ,repeat// 50% %s
i8 caf" ++ [233]%N ++ runes_of_ascii "_1
    ,
} MetaData
    f32a
{ // packet A { u8 x, }
}")).
Eval vm_compute in ("<<<M1988>>>" ++ check (runes_of_ascii "
packet leftPad {
@leftPad( '0')
u32
i64_ `100% of %d` ,repeat// 50% %s
chars i8
    ,
} MetaData
    f32a
{ // packet A { u8 x, }
}")).
Eval vm_compute in ("<<<M2310>>>" ++ check (runes_of_ascii "options
    {
x_y_z// " ++ [27880; 37322]%N ++ runes_of_ascii "
= 10 ; }
packet body {
    @calculatedFrom(
// trailing space 
// " ++ [27880; 37322]%N ++ runes_of_ascii "
""1""
)	match T as Foo
    {
255 :, T }
,}")).
Eval vm_compute in ("<<<M2278>>>" ++ check (runes_of_ascii "options
    {
x_y_z// " ++ [27880; 37322]%N ++ runes_of_ascii "
= 10 ; }
packet body {
    @calculatedFrom(
// trailing space 
// " ++ [27880; 37322]%N ++ runes_of_ascii "
""1""
)	match  as Foo
    {
255 :T , }
,}")).
Eval vm_compute in ("<<<M2327>>>" ++ check (runes_of_ascii "options
    {
x_y_z// " ++ [27880; 37322]%N ++ runes_of_ascii "
= 10 ; }
packet body {
    @calculatedFrom(
// trailing space 
// " ++ [27880; 37322]%N ++ runes_of_ascii "
""1""
)	match T as Foo
    {
255 :T , }")).
Eval vm_compute in ("<<<M819>>>" ++ check (runes_of_ascii "MetaData msg_type{ }
root packet	Pad
    { char[42] T , repeat
    string_ `it's` , @lengthOf(  x_y_z
)
    char[ 10
]	roots , }
")).
Eval vm_compute in ("<<<M3063>>>" ++ check (runes_of_ascii "packet A {
    Inner {
        u8 x `100% of %s %d %v`,
        Deep {
            u8 y `100% of %s %d %v`,
        },
    },
}")).
Eval vm_compute in ("<<<M703>>>" ++ check (runes_of_ascii "packet u	{ f32a a1 ,
    } packet Pad {
}options { i8i8
    = ""a	b""
; packetx  = uint64 ;o = '\x00'
Pad = '\x00' ;
    }
")).
Eval vm_compute in ("<<<M1880>>>" ++ check (runes_of_ascii "packet o {
    roots `it's`
// trailing space 
//x
, char[ 42
    ]  A char[] // " ++ [27880; 37322]%N ++ runes_of_ascii "
f64
repeatCount
    `crlf
line`
,}")).
Eval vm_compute in ("<<<M3033>>>" ++ check (runes_of_ascii "packet A {
    Inner {
        u8 x `a
    b
  c`,
        Deep {
            u8 y `a
    b
  c`,
        },
    },
}")).
Eval vm_compute in ("<<<M1910>>>" ++ check (runes_of_ascii "packet o {
    roots `it's`
// trailing space 
//x
, char[ '42
    ]  A, // " ++ [27880; 37322]%N ++ runes_of_ascii "
f64
repeatCount
    `crlf
line`
,}")).
Eval vm_compute in ("<<<M1899>>>" ++ check (runes_of_ascii "packet o {
    roots `it's`
// trailing space 
//x
, char[ 42
    ]  A, // " ++ [27880; 37322]%N ++ runes_of_ascii "
f64
repeatCount
    `crlf
line`
},")).
Eval vm_compute in ("<<<M969>>>" ++ check (runes_of_ascii "
root
    packet roots { T @calculatedFrom( ""it's""
) `line1
line2`
    , repeat matchKey{ u16 matchKey , } , }
")).
Eval vm_compute in ("<<<M3038>>>" ++ check (runes_of_ascii "packet A {
    u16 len @lengthOf(body) `a

b`,
    u32 crc @calculatedFrom(""CRC32"") `a

b`,
    string body,
}")).
Eval vm_compute in ("<<<M290>>>" ++ check (runes_of_ascii "packet chars { @tag( 00  ) @tag( 1 ) @lengthOf( Pad)	int8 Header // trailing space 
@lengthOf( rootA
), }
")).
Eval vm_compute in ("<<<M4111>>>" ++ check (runes_of_ascii "  packet A

    { Inner

    {  u8
    x

    `%%d%!`

,Deep{
	u8
	y

`%%d%!`,

} 
,

    }, }

")).
Eval vm_compute in ("<<<M3015>>>" ++ check (runes_of_ascii "packet A {
    Inner {
        u8 x `a
b`,
        Deep {
            u8 y `a
b`,
        },
    },
}")).
Eval vm_compute in ("<<<M1195>>>" ++ check (runes_of_ascii "root packet
    falsey {int falsey , u8 Packet @lengthOf( f32a )`u8 x,` , } // `tick` ""quote"" 'q'")).
Eval vm_compute in ("<<<M1221>>>" ++ check (runes_of_ascii "// " ++ [128512]%N ++ runes_of_ascii " emoji
MetaData Header {  string
tag , char[ 0123456789]uint8x
`{ , }`
,float64  falsey , }")).
Eval vm_compute in ("<<<M1455>>>" ++ check (runes_of_ascii "packet
T
{ match repeatCount as	calculatedFrom
{ i32 65535 ]	: As	,
} ,}
// trailing space 
")).
Eval vm_compute in ("<<<M1499>>>" ++ check (runes_of_ascii "packet
T
{ match repeatCount as	calculatedFrom
{ [65535 ]	: @ As	,
} ,}
// trailing space 
")).
Eval vm_compute in ("<<<M3336>>>" ++ check (runes_of_ascii "// top
options
    // c0
{
    // c1
u8x
    // c2
=
    // c3
false
    // c4
}
    // c5
")).
Eval vm_compute in ("<<<M1822>>>" ++ check (runes_of_ascii "o'\x01'ptions{  lengthOf =//x
i16;
    BodyLength = 0 ; pack
= false;
    A = char[ 3 ] }")).
Eval vm_compute in ("<<<M384>>>" ++ check (runes_of_ascii "  MetaData repeatCount { metadata Pad
//	t
// packet A { u8 x, }
`say ""hi""` ,
//
//	t
}
")).
Eval vm_compute in ("<<<M4343>>>" ++ check (runes_of_ascii "
root

    packet
P
{
	u16
a
,
    u32

    Sum @calculatedFrom(""CRC32"" )
,
}
")).
Eval vm_compute in ("<<<M1427>>>" ++ check (runes_of_ascii "packet
T
{  repeatCount as	calculatedFrom
{ [65535 ]	: As	,
} ,}
// trailing space 
")).
Eval vm_compute in ("<<<M1757>>>" ++ check (runes_of_ascii "options{  lengthOf =//x
i16;
    BodyLength = 0 pack ;
= false;
    A = char[ 3 ] }")).
Eval vm_compute in ("<<<M1795>>>" ++ check (runes_of_ascii "options{  lengthOf =//x
i16;
    BodyLength = 0 ; pack
= false;
    A = char[  ] }")).
Eval vm_compute in ("<<<M2925>>>" ++ check (runes_of_ascii "packet A {
  match k as n {
    [1, ""bb"", 007, ""d"", 5, ""f""] : B,
    2 : C
  },
}")).
Eval vm_compute in ("<<<M1770>>>" ++ check (runes_of_ascii "options{  lengthOf =//x
i16;
    BodyLength = 0 ; pack
= ;
    A = char[ 3 ] }")).
Eval vm_compute in ("<<<M3268>>>" ++ check (runes_of_ascii "MetaData Foo { zchar[ 0 ] matchKey , } options { lengthOf
// c
= i32 u = 00 ; }")).
Eval vm_compute in ("<<<M2915>>>" ++ check (runes_of_ascii "packet A {
  match k as n {
    [""a"", 22, ""c c"", 4, ""e""] : B
    2 : C
  },
}")).
Eval vm_compute in ("<<<M1740>>>" ++ check (runes_of_ascii "options{  lengthOf =//x
i16;
     = 0 ; pack
= false;
    A = char[ 3 ] }")).
Eval vm_compute in ("<<<M3858>>>" ++ check (runes_of_ascii "
packet 
A
	{

B

    b`x
`
	, B  `x
`

,  repeat
	B
bs
	`x
`	, 
}
")).
Eval vm_compute in ("<<<M4352>>>" ++ check (runes_of_ascii "
packet

    A {  B {
match k as

n

    { 1
    :C	}
	,
} 
,

} ")).
Eval vm_compute in ("<<<M1491>>>" ++ check (runes_of_ascii "packet
T
{ match repeatCount as	calculatedFrom
{ [65535 ]	: As	,
}")).
Eval vm_compute in ("<<<M505>>>" ++ check (runes_of_ascii "packet // @lengthOf(
As{ zchar[ 7 ] chars
@lengthOf( As
)
, }
")).
Eval vm_compute in ("<<<M2830>>>" ++ check (runes_of_ascii "i8 ) root match ( : `100% of %d` : root ; 3 int8 '\x00' float64")).
Eval vm_compute in ("<<<M3292>>>" ++ check (runes_of_ascii "packet
// c
u8x { } MetaData crc { char[ 4294967296 ] Foo , }")).
Eval vm_compute in ("<<<M1555>>>" ++ check (runes_of_ascii "// 50% %s
packet	a1
    { zchar[
// a // b
// 50% %s
007]
T")).
Eval vm_compute in ("<<<M1471>>>" ++ check (runes_of_ascii "packet
T
{ match repeatCount as	calculatedFrom
{ [65535 ]")).
Eval vm_compute in ("<<<M191>>>" ++ check (runes_of_ascii "options
    { /// triple
charz
//
// 50% %s
=""a	b"" ;}
")).
Eval vm_compute in ("<<<M3620>>>" ++ check (runes_of_ascii "  options

    { a
=
	1 
; // a
    b
= 2// b
	} ")).
Eval vm_compute in ("<<<M1042>>>" ++ check (runes_of_ascii "MetaData rootA {
    // `tick` ""quote"" 'q'
    }
")).
Eval vm_compute in ("<<<M3022>>>" ++ check (runes_of_ascii "MetaData M {
    u8 x `a
b`,
    T t `a
b`,
}")).
Eval vm_compute in ("<<<M92>>>" ++ check (runes_of_ascii "// c
root /// triple
packet Pad
    {
    }
")).
Eval vm_compute in ("<<<M4032>>>" ++ check (runes_of_ascii "MetaData
calculatedFrom
	{string
Header , }")).
Eval vm_compute in ("<<<M801>>>" ++ check (runes_of_ascii "MetaData options1 {Packet roots ,
    }
")).
Eval vm_compute in ("<<<M3222>>>" ++ check (runes_of_ascii "root
// c
packet u128 { chars `doc` , }")).
Eval vm_compute in ("<<<M3183>>>" ++ check (runes_of_ascii "packet A {    u8 x, // c    u8 y,}")).
Eval vm_compute in ("<<<M1067>>>" ++ check (runes_of_ascii "MetaData matchKey
{ body len , } //x")).
Eval vm_compute in ("<<<M2362>>>" ++ check (runes_of_ascii "MetaData
Foo Header{ //
pack ,	} 	 ")).
Eval vm_compute in ("<<<M2811>>>" ++ check (runes_of_ascii "zchar[ @tag( @tag( uint16 [ packet")).
Eval vm_compute in ("<<<M2356>>>" ++ check (runes_of_ascii "MetaData
 {Header //
pack ,	} 	 ")).
Eval vm_compute in ("<<<M2816>>>" ++ check (runes_of_ascii ";" ++ [65533; 12; 65533]%N ++ runes_of_ascii "V" ++ [65533; 65533; 65533; 65533; 65533; 65533; 18; 65533]%N ++ runes_of_ascii "H" ++ [65533]%N ++ runes_of_ascii "r" ++ [65533; 65533]%N ++ runes_of_ascii "p7;.Bx" ++ [31]%N ++ runes_of_ascii "
" ++ [65533; 65533; 16; 65533]%N ++ runes_of_ascii "u")).
Eval vm_compute in ("<<<M3149>>>" ++ check (runes_of_ascii "packet A {
 u8 x `d" ++ [11]%N ++ runes_of_ascii "`, // c" ++ [11]%N ++ runes_of_ascii "
}")).
Eval vm_compute in ("<<<M2379>>>" ++ check (runes_of_ascii "MetaData
Foo {Header //
pack")).
Eval vm_compute in ("<<<M2606>>>" ++ check (runes_of_ascii "packet A { B { u8 x, } C, }")).
Eval vm_compute in ("<<<M3820>>>" ++ check (runes_of_ascii "packet

A
{
    } 
// c" ++ [5760]%N ++ runes_of_ascii "
")).
Eval vm_compute in ("<<<M2826>>>" ++ check (runes_of_ascii "@rightPad @leftPad match")).
Eval vm_compute in ("<<<M1272>>>" ++ check (runes_of_ascii "options
{ Foo = ' ' }")).
Eval vm_compute in ("<<<M4169>>>" ++ check (runes_of_ascii "MetaData msg_type {
}")).
Eval vm_compute in ("<<<M2603>>>" ++ check (runes_of_ascii "packet A { B { }, }")).
Eval vm_compute in ("<<<M3097>>>" ++ check (runes_of_ascii "packet A {
}
// c" ++ [12288]%N)).
Eval vm_compute in ("<<<M3190>>>" ++ check (runes_of_ascii "MetaData M {
}// c")).
Eval vm_compute in ("<<<M3140>>>" ++ check (runes_of_ascii "packet A {
}// c" ++ [8287]%N)).
Eval vm_compute in ("<<<M1079>>>" ++ check (runes_of_ascii "packet crc {
}
")).
Eval vm_compute in ("<<<M2222>>>" ++ check (runes_of_ascii "options
    {")).
Eval vm_compute in ("<<<M3511>>>" ++ check (runes_of_ascii "options {
}")).
Eval vm_compute in ("<<<M3645>>>" ++ check (runes_of_ascii "// a // b")).
Eval vm_compute in ("<<<M642>>>" ++ check (runes_of_ascii " // " ++ [27880; 37322]%N)).
Eval vm_compute in ("<<<M2448>>>" ++ check (runes_of_ascii "uint8")).
Eval vm_compute in ("<<<M3161>>>" ++ check (runes_of_ascii "// c" ++ [8203]%N)).
Eval vm_compute in ("<<<M667>>>" ++ check (runes_of_ascii "

")).
Eval vm_compute in ("<<<M2697>>>" ++ check (runes_of_ascii " " ++ [12]%N ++ runes_of_ascii " ")).
Eval vm_compute in ("<<<M2513>>>" ++ check (runes_of_ascii """")).
