From FP Require Import Lexer Parser ShowPT Digest Formatter.
From Coq Require Import String List NArith.
Import ListNotations.
Open Scope string_scope.
Set Printing Width 100000000.
Set Printing Depth 100000000.
Definition show_fres (r : fres) : string :=
  match r with
  | FOk s => "OK:" ++ sh_escaped s ""
  | FErr s => "ERR:" ++ sh_escaped s ""
  | FPanic p => "PANIC:" ++ p
  end.
Definition check (rs : list rune) : string := digest (show_fres (format_res rs)).
Definition full (rs : list rune) : string := show_fres (format_res rs).
Eval vm_compute in ("<<<M3660>>>" ++ check (runes_of_ascii "options {
    ArrayPrefixLenType = u16;
    FixedStringPadFromLeft = true;
    JavaPackage = ""com.example.msg"";
    GoPackage = ""msg"";
    GoModule = ""example.com/msg"";
}
MetaData Meta {
    u32 SeqNum `sequence number
more`,
    char[8] Symbol `symbol
more`,
    zchar[5] ZSym `z symbol
more`,
    string Note,
    Symbol AltSymbol `alias of symbol`,
    f64 Price,
}
packet Inner {
    u8 a,
    i16 b,
    string c,
}
packet Inner2 {
    u8 a2,
    char[3] c2,
}
packet Logon {
    u8 x,
    string user,
    repeat u16 codes,
}
packet Logout {
    u16 reason,
}
packet Empty {
}
root packet Msg {
    u8 su8,
    uint8 luint8,
    u16 su16,
    uint16 luint16,
    u32 su32,
    uint32 luint32,
    u64 su64,
    uint64 luint64,
    i8 si8,
    int8 lint8,
    i16 si16,
    int16 lint16,
    i32 si32,
    int32 lint32,
    i64 si64,
    int64 lint64,
    f32 sf32,
    float32 lfloat32,
    f64 sf64,
    float64 lfloat64,
    char[6] fsplain,
    @leftPad('0') char[4] fs0,
    @rightPad('0') char[5] fs1,
    @leftPad(' ') char[6] fs2,
    @rightPad(' ') char[7] fs3,
    @leftPad('\x00') char[8] fs4,
    @rightPad('\x00') char[9] fs5,
    @leftPad() char[10] fs6,
    @rightPad() char[11] fs7,
    zchar[7] fz,
    @leftPad('0') zchar[3] fzl0,
    string s1 `doc`,
    char[] s2,
    Inner,
    Sub {
        u8 q,
        string w,
        Deep {
            u16 z,
            repeat i32 zs,
        },
    },
    repeat u8 ru8,
    repeat u16 ru16,
    repeat u32 ru32,
    repeat u64 ru64,
    repeat i8 ri8,
    repeat i16 ri16,
    repeat i32 ri32,
    repeat i64 ri64,
    repeat f32 rf32,
    repeat f64 rf64,
    repeat string rstr,
    repeat char[] rstr2,
    repeat char[3] rfs,
    repeat zchar[3] rfz,
    repeat Inner2,
    repeat Grp {
        u8 k,
        char[2] v,
    },
    SeqNum,
    SeqNum seq2,
    repeat SeqNum seqs,
    Symbol,
    AltSymbol alt,
    ZSym,
    Note,
    repeat Symbol syms,
    Price px,
    u16 MsgType,
    u32 BodyLen @lengthOf(Body),
    match MsgType as Body {
        1 : Logon,
        [2, 3] : Logout,
        7 : Logon,
        9 : Empty,
    },
    u32 Checksum @calculatedFrom(""CRC32""),
}
")).
Eval vm_compute in ("<<<M578>>>" ++ check (runes_of_ascii "packet u128 {
@calculatedFrom(
""" ++ [28040; 24687]%N ++ runes_of_ascii """ )
stringy { match falsey
as Z9_ { // @lengthOf(
""packet"": float
    //	t
    , } , match uint8x as x_y_z
{ 3 :i64_ ,
//
// " ++ [128512]%N ++ runes_of_ascii " emoji
""CRC32"" :float
    , 007 : falsey ,  0123456789 : //x
Packet , [
    ""it's""
// packet A { u8 x, }
// " ++ [128512]%N ++ runes_of_ascii " emoji
, ""\" ++ [233]%N ++ runes_of_ascii """ ] : calculatedFrom,}
,uint16
uint8x `it's`
, repeat i8 repeatCount,} ,
u8 string_
,
    // trailing space 
    @lengthOf(
    body ) @rightPad (
    '\x00' ) zchar[ 65535 ] trueish @calculatedFrom(
""`tick`"" ) , @rightPad ( ) charz @lengthOf(
A) , MetaDataX,
@tag(
    3) char[ 3 ] x	`doc`
,repeat
    i8i8 {
    string Z9_,  } ,
} // @lengthOf(
root packet chars
    // " ++ [27880; 37322]%N ++ runes_of_ascii "
    {
    string_ , u16
trueish `
` , float32 Pad
@lengthOf(metadata )
`" ++ [28040; 24687; 31867; 22411]%N ++ runes_of_ascii "`,repeatCount ,  @lengthOf( x )	char[]uint8x @lengthOf( T )// a // b
`tab	here`	, A	{ char rootA // packet A { u8 x, }
`
` // a // b
, int64 f32a
    //	t
    ,
    Packet { repeat i16
    Foo
`it's` , /// triple
zchar[65535 ]
stringy
    @calculatedFrom( ""1"" )`
` , // trailing space 
}  , int
    // " ++ [128512]%N ++ runes_of_ascii " emoji
    ,
    } , // trailing space 
charz
// `tick` ""quote"" 'q'
//	t
metadata,
@calculatedFrom( ""\" ++ [233]%N ++ runes_of_ascii """
)
match o
as matchKey {	""abc""
: zchar , // " ++ [27880; 37322]%N ++ runes_of_ascii "
""CRC32"": As// packet A { u8 x, }
""packet"": Packet// `tick` ""quote"" 'q'
,
    ""x y"" :pack
[0 , 10 , 00 ,  ""\n"",65535,""1"" ]:
As // trailing space 
, } /// triple
, //
}options
{ } packet leftPad {@calculatedFrom( ""a\\""
    ) @lengthOf(len
    ) @tag(
1)
char[
255] u8x,
    @calculatedFrom( ""// no comment"" )
    int32 //	t
len@lengthOf( _x ) // " ++ [27880; 37322]%N ++ runes_of_ascii "
,@calculatedFrom(
""" ++ [28040; 24687]%N ++ runes_of_ascii """ ) repeat Logon int `" ++ [28040; 24687; 31867; 22411]%N ++ runes_of_ascii "`
    ,
    match As as
packetx {
    ""a	b"" : uint8x ,
    // a // b
    }
, char[ 0
    ] charz @lengthOf( i8i8) , chars
metadata , @tag( 0123456789)
//
// trailing space 
BodyLength // packet A { u8 x, }
, }
")).
Eval vm_compute in ("<<<M939>>>" ++ check (runes_of_ascii "MetaData
Logon {
    string_ MetaDataX
`
` ,}root packet Pad
{ asx
@lengthOf(BodyLength )
,
}
    packet
Pad {
@calculatedFrom( ""a	b""
) zchar[ 7]x	`a\` , @lengthOf(msg_type
// " ++ [27880; 37322]%N ++ runes_of_ascii "
// trailing space 
) int32 Logon  @lengthOf(u128//	t
)
`two words`,	@lengthOf(asx)
match o
    as
    asx {1 : crc , 00:f32a, }
    ,
char[ 1
    ]
leftPad @lengthOf(
    string_ ) `
` , f32
    // a // b
    trueish @calculatedFrom(//x
"""" )``
    // " ++ [128512]%N ++ runes_of_ascii " emoji
    ,As ,
x_y_z
{ match	Packet as int { 007: x , // packet A { u8 x, }
""" ++ [28040; 24687]%N ++ runes_of_ascii """  :
    options1 , ""packet""
:// packet A { u8 x, }
repeatCount ""\n"" :
x
, }
    //
    ,char[]
    i8i8 @lengthOf( x_y_z )
`two words` ,match crc as
x_y_z{""CRC32"" : Z9_, } , packetx ,
} ,
repeat
    char[0
// packet A { u8 x, }
// `tick` ""quote"" 'q'
] asx , @calculatedFrom(
""1"" ) char[
00 ] float,repeat i32 msg_type	,
} packet x_y_z { // `tick` ""quote"" 'q'
@calculatedFrom(
    ""a\\"")
    @calculatedFrom( ""packet""  ) uint8x @calculatedFrom( """" ) ,
    //	t
    @lengthOf( x )	u8x x, @calculatedFrom(
    ""a	b"" ) int16 pack
// packet A { u8 x, }
//x
, match  Pad as
T
//	t
// @lengthOf(
{
    [ 00 ] : leftPad ,
    ""CRC32""
    : body	, //x
3 :
    zchar
1:  u8x  7 : options1	,
4294967296 :falsey
    /// triple
    , } , }
    packet T {
    zchar[
65535 ]//x
roots ,
    int x`crlf
line`
,@lengthOf( //	t
int)charz {	i64_
    `" ++ [28040; 24687; 31867; 22411]%N ++ runes_of_ascii "` ,zchar[
    // `tick` ""quote"" 'q'
    42 ]
    len
    // @lengthOf(
    @calculatedFrom( // " ++ [128512]%N ++ runes_of_ascii " emoji
""" ++ [233]%N ++ runes_of_ascii "t" ++ [233]%N ++ runes_of_ascii """ ),	repeat
i8 o , // " ++ [27880; 37322]%N ++ runes_of_ascii "
char[0 ] // a // b
options1`doc` , } ,
@lengthOf( roots ) string
Header, }")).
Eval vm_compute in ("<<<M3836>>>" ++ check (runes_of_ascii "
packet  // c
lengthOf{
    matchKey

    `doc`
,
i8i8 
{

match crc as zchar
    {[ 1 ,
""abc"", 0 , 0123456789 ,
	65535] :

chars, 
""\n"":

uint8x""a\""b"" :int ,

    [	""`tick`""
    ,
	""a	b"" 
,
""a	b"" , 4294967296 
,
	4294967296
    ,
""""

    ,
""a\""b"" ]

:

    string_	, 0123456789
: // @lengthOf(

  A, ""packet""
        // a // b

	:
    asx}

,	char[00 
      //
	  //

  ]  u8x
	`u8 x,`
    ,

    u8x

{  uint32 float @calculatedFrom(
""{,}""	),
    //	t
      // " ++ [128512]%N ++ runes_of_ascii " emoji
	char[
0
// trailing space 
// `tick` ""quote"" 'q'
	]

zchar
, } ,falsey

    @calculatedFrom(

    """ ++ [128512]%N ++ runes_of_ascii """	) ,

}// packet A { u8 x, }
, 
@calculatedFrom(

""1"" ) 
zchar[	255] 
	// @lengthOf(
	//
    metadata @lengthOf(
packetx ) ,Header

@calculatedFrom(
""CRC32""
)  ,
	// c
	  // trailing space 
	float@lengthOf(
    crc
) 
``
,
	@tag(  42

) @lengthOf(A

)@lengthOf(u128 ) 
stringy 	 // " ++ [27880; 37322]%N ++ runes_of_ascii "
    	`" ++ [233]%N ++ runes_of_ascii "` , 
@leftPad  (
'0')char[ 4294967296	]
float
,
	u
	`" ++ [233]%N ++ runes_of_ascii "`	,
	@lengthOf( falsey
    )	// @lengthOf(
    @lengthOf(/// triple
	lengthOf)
	repeat 
f32 matchKey

    `line1
line2`	, }
    options

{
    lengthOf
= string
;

    }	packet	falsey { @tag(
1)int16 
repeatCount  @lengthOf(
charz

) 
`a\` // @lengthOf(
  ,

repeat
	u64	MetaDataX `say ""hi""`
	,}
	options{

    x = // packet A { u8 x, }

	""abc""}MetaData	BodyLength

{ zchar[4294967296

    ] 
zchar
    ,} ")).
Eval vm_compute in ("<<<M174>>>" ++ check (runes_of_ascii "root
packet charz {// a // b
@rightPad
    //	t
    (
) @lengthOf(
    Pad ) @rightPad ( ' '
) MetaDataX @lengthOf( BodyLength
) `" ++ [28040; 24687; 31867; 22411]%N ++ runes_of_ascii "`
,
    repeatCount /// triple
A
`
`,	@tag(
    4294967296) // trailing space 
metadata u8x ,
    @calculatedFrom( ""packet"" ) repeat Pad // @lengthOf(
`say ""hi""`
,  } root packet// trailing space 
rootA {// " ++ [27880; 37322]%N ++ runes_of_ascii "
rootA	{ string trueish ,
}
    ,
} MetaData
lengthOf {
    } packet _x { repeat msg_type { char[ 65535 ]
crc ,	lengthOf
    {
    Packet ,
    // c
    string_
    @calculatedFrom(""a\""b""),
f32 rootA//
,
}	,
// " ++ [27880; 37322]%N ++ runes_of_ascii "
// `tick` ""quote"" 'q'
} ,i16 int  , @lengthOf( matchKey) //	t
i8i8 int `two words` ,
// packet A { u8 x, }
// @lengthOf(
repeat Logon{
repeat
    //	t
    uint8	f32a ,
    a1
    //
    { repeat char[1
] Foo , }  , uint8x
// @lengthOf(
// packet A { u8 x, }
{ char[ 4294967296 ]
T `{ , }`
, u32
    repeatCount `" ++ [28040; 24687; 31867; 22411]%N ++ runes_of_ascii "`
    // c
    ,} , }
    ,
repeat MetaDataX
, char[ 4294967296 ] i8i8//
@lengthOf( _x ) ,}
packet falsey {
    tag
{ char[ // " ++ [27880; 37322]%N ++ runes_of_ascii "
00
    // `tick` ""quote"" 'q'
    ] int@lengthOf( u128
    ) ,
}
,roots body ,u16 stringy
// trailing space 
// @lengthOf(
@lengthOf( Pad ) `line1
line2` ,
stringy
@lengthOf(  chars ) ,uint8 lengthOf
`" ++ [233]%N ++ runes_of_ascii "` ,
    // " ++ [128512]%N ++ runes_of_ascii " emoji
    }")).
Eval vm_compute in ("<<<M232>>>" ++ check (runes_of_ascii "packet falsey { int64
BodyLength , @tag( 4294967296) // packet A { u8 x, }
@leftPad (
    )
match _x as Foo
//	t
// packet A { u8 x, }
{ ""\n"": asx
// `tick` ""quote"" 'q'
// `tick` ""quote"" 'q'
[ ""{,}""
,	4294967296, """ ++ [128512]%N ++ runes_of_ascii """//	t
, """ ++ [28040; 24687]%N ++ runes_of_ascii """,
""packet"", ""packet""
    // " ++ [27880; 37322]%N ++ runes_of_ascii "
    , ""x y"" ,
// trailing space 
// " ++ [128512]%N ++ runes_of_ascii " emoji
7 ]	: x_y_z	, } , // `tick` ""quote"" 'q'
A len`// not a comment`
    ,
    //
    repeat char[]
i64_ `crlf
line` ,
// trailing space 
// trailing space 
repeat char[] u `line1
line2`	, tag {string metadata ,
    } ,
// " ++ [27880; 37322]%N ++ runes_of_ascii "
// " ++ [128512]%N ++ runes_of_ascii " emoji
char[3
    ] falsey @lengthOf(
    leftPad ) `crlf
line`
,  } root	packet
MetaDataX {@lengthOf( //
u8x )
    match f32a as Header {[ ""a\""b""
//x
// `tick` ""quote"" 'q'
,255]:  u8x , ""packet""
:
uint8x
    ,""1""
:
_x , },
    Packet `doc` , zchar[
    3 // " ++ [128512]%N ++ runes_of_ascii " emoji
] u128 @lengthOf( asx  ) ,
    }  MetaData x/// triple
{
// `tick` ""quote"" 'q'
// `tick` ""quote"" 'q'
As  roots , char[
10	] crc
// " ++ [128512]%N ++ runes_of_ascii " emoji
/// triple
`{ , }` ,
    BodyLength
asx  `u8 x,` ,matchKey i8i8 , falsey pack `" ++ [233]%N ++ runes_of_ascii "`,leftPad metadata ,
    }
options { pack	= 0 tag
= f32 i64_ =""abc""	;
// " ++ [128512]%N ++ runes_of_ascii " emoji
// " ++ [128512]%N ++ runes_of_ascii " emoji
f32a=
    true ; } packet Foo { }
")).
Eval vm_compute in ("<<<M4015>>>" ++ check (runes_of_ascii "
packet
	metadata

    {
	zchar[
255
    ] rootA@lengthOf(  //	t
  	stringy

    )``, 
Z9_ @calculatedFrom( ""\n""),

    i64_	,
@calculatedFrom(""abc"" ) 
body `crlf
line`

, 	 // packet A { u8 x, }

match metadata

as
leftPad {

""\n"" : stringy ,  ""it's""
	:

rootA
,  [ ""packet""
    , 
10	]:

    lengthOf 
,1

    :
    zchar	, }  ,@tag(	3 
) //x

char[] x_y_z 
`u8 x,`
,f64 
o

    @lengthOf( o ), @calculatedFrom(	// c
	""" ++ [28040; 24687]%N ++ runes_of_ascii """
)	zchar[
007 ]
options1 @lengthOf(msg_type  )
,
    } MetaData	T
{  int16

    u8x
    ,char[ 
1 ] 
repeatCount,  uint16
	i64_ `u8 x,`
,  Header 
x	``// " ++ [128512]%N ++ runes_of_ascii " emoji
,stringy 
msg_type
    `" ++ [28040; 24687; 31867; 22411]%N ++ runes_of_ascii "`
	, } packet
i8i8 {
} packet
    Header 
{
	repeat Z9_

    roots
, }

    packet calculatedFrom
    {  T
    @lengthOf( Foo
    )
`u8 x,`
	// " ++ [128512]%N ++ runes_of_ascii " emoji
	,	match
tag
as 
    //	t

// a // b
    	charz{
""\" ++ [233]%N ++ runes_of_ascii """ 
:
string_
	,	[ 1 ,
""" ++ [28040; 24687]%N ++ runes_of_ascii """

,  /// triple

""CRC32""  ]
	: falsey , [
007 
]

:
float ,
    3 
: 
MetaDataX , 
[  ""`tick`""] :
	u,
1
    // trailing space 
  // packet A { u8 x, }
: metadata ,
    } 	 // `tick` ""quote"" 'q'
	,
    } ")).
Eval vm_compute in ("<<<M1060>>>" ++ check (runes_of_ascii "packet i64_{
@tag( 4294967296
) As
{ repeat f32
BodyLength ,
// trailing space 
// a // b
i64_ @calculatedFrom(""{,}""
// @lengthOf(
// a // b
) ,	repeatCount
packetx `" ++ [28040; 24687; 31867; 22411]%N ++ runes_of_ascii "`
    ,}, @lengthOf( _x )
options1 ,
    //	t
    options1 , @rightPad (
'0') repeat // packet A { u8 x, }
string Foo
    ,
    char[] string_@calculatedFrom(""a	b"" )// c
`u8 x,` ,
char[
// packet A { u8 x, }
// @lengthOf(
65535]  x_y_z ,	repeat
    options1 packetx/// triple
, @lengthOf(
matchKey )
@calculatedFrom( ""\" ++ [233]%N ++ runes_of_ascii """) repeat
    Logon // trailing space 
asx , matchKey
@lengthOf(
// `tick` ""quote"" 'q'
//
lengthOf  )
`u8 x,`
    , // packet A { u8 x, }
}root packet repeatCount{ @rightPad ( '\x00' ) u8 Packet `// not a comment`
    , @calculatedFrom( ""CRC32""
) i8i8 , repeat u{// `tick` ""quote"" 'q'
char[255]u128 , i16
    Packet `doc`, zchar[
    3//
]  BodyLength , char[]
u
    `say ""hi""`
    ,
} , int32 float ,i8 Logon , @lengthOf( rootA)  zchar[42 ] int @lengthOf( lengthOf ) , //
repeat	char[ 42 ]
metadata ,
} packet falsey{ }
")).
Eval vm_compute in ("<<<M3642>>>" ++ check (runes_of_ascii "options {
    StringPrefixLenType = u64;
    ArrayPrefixLenType = u16;
    FixedStringPadChar = ' ';
}
packet Logon {
    i32 msgKind,
    repeat InOrderid65 {
        u8 pad0,
    },
    i8 tag7,
    @leftPad(' ') char[12] x,
}
packet Leg {
    char[] f1,
    repeat char[5] Px,
    InQty34 {
        repeat char[6] Qty,
        char[7] seqNo,
        string count,
    },
    Logon,
}
packet Party {
    @leftPad('0') char[10] OrderId,
    string Tail,
}
packet Fill {
    zchar[5] venue,
    zchar[3] clOrdID,
    InRef95 {
        InLastpx25 {
            u8 pad0,
        },
        float64 OrderId,
        i32 f1,
        float32 x,
        char[] seqNo,
    },
    repeat string seqNo,
}
root packet Heartbeat {
    repeat Leg,
    u32 seqNo,
    u16 tag7,
    u32 Flags @lengthOf(Body),
    match tag7 as Body {
        [195, 75] : Party,
        171 : Fill,
        78 : Logon,
        142 : Leg,
    },
    u32 Note @calculatedFrom(""CR\
C32""),
}
")).
Eval vm_compute in ("<<<M4264>>>" ++ check (runes_of_ascii "
packet 
int 
	// a // b
  // @lengthOf(
    {
i16 Logon @calculatedFrom(	""a\\""
	),  repeat

    calculatedFrom`// not a comment`
,@calculatedFrom(  
      // @lengthOf(
""CRC32"" ) Z9_  charz, 
@lengthOf(Z9_ )  /// triple
matchKey`u8 x,`  ,
}  MetaData 
asx { 
} packet Packet
	{@tag(

    65535
)	options1

    , int
@lengthOf(

metadata
)
`it's` , 
  //x

	u8x
{char[

    00

] Logon

    ,

repeat

    i32
    T
	`// not a comment`	,chars { float64
    msg_type
    @lengthOf( body),
f64
Z9_ 
,
// a // b

	// @lengthOf(
    u16
    string_ 
@lengthOf(
int )
`doc`
,	//x
	repeatCount
	@calculatedFrom(

""x y""
)

, }

,	}
    ,
	match
A  /// triple
	as 
u{ [""packet""
, ""x y""
]
: f32a
, [ 65535	/// triple
  ,
00
] :
	stringy 255
:

    pack	, [ 0
, ""`tick`"" ]:  x, 1
: matchKey

    , },}
	packet
roots{@calculatedFrom(
	""\n""
    ) char[
65535
    // a // b
  	]Packet ,}
")).
Eval vm_compute in ("<<<M653>>>" ++ check (runes_of_ascii "
packet
    f32a { // c
string len  @lengthOf( As ) // " ++ [128512]%N ++ runes_of_ascii " emoji
`line1
line2` , zchar[ 1//x
] zchar `{ , }` , tag
    //
    @lengthOf( rootA) , // c
string x_y_z `" ++ [28040; 24687; 31867; 22411]%N ++ runes_of_ascii "`, }packet crc {
BodyLength
@lengthOf(
msg_type
    ) , } MetaData packetx  {	} root packet lengthOf {repeat uint32	zchar , // " ++ [27880; 37322]%N ++ runes_of_ascii "
T {
msg_type // a // b
{ f32a  { charz
    stringy ``
    , uint16
u128
, i16
    BodyLength
    @lengthOf(
    x ) ,int8 //
metadata `tab	here`, }
// c
// trailing space 
,
repeat Packet
`doc` , // packet A { u8 x, }
int8 A @calculatedFrom(
""CRC32"" )
    ,
    }, Pad asx ,
char[
0 ]
    repeatCount ,
} ,
    u16
Z9_ `" ++ [233]%N ++ runes_of_ascii "` , @rightPad
(
    // @lengthOf(
    '\x00' )
    repeat Header
//	t
// " ++ [27880; 37322]%N ++ runes_of_ascii "
`line1
line2` ,@calculatedFrom(
    ""\" ++ [233]%N ++ runes_of_ascii """ )
char[]rootA @calculatedFrom( ""// no comment"" )`doc`
, // a // b
calculatedFrom `a\`,
} packet As	{  }")).
Eval vm_compute in ("<<<M4148>>>" ++ check (runes_of_ascii "// a // b
packet rootA {
    @lengthOf(Packet)
    Logon {
        char[7] T `
        `,
    },
    @lengthOf(rootA)
    repeat zchar[00] Header,
    // c
    // packet A { u8 x, }
    repeat i8i8 {
        match Foo as i8i8 {
            [
                4294967296, 1, 7, ""\" ++ [233]%N ++ runes_of_ascii """, ""\n"",
                42, 255, 007
            ] : options1,
            4294967296 : pack,
            """" : u8x,
            [65535, ""\n""] : pack,
            ""`tick`"" : Z9_,
        },
        float64 stringy,
    },
    @calculatedFrom(""`tick`"")
    x {
        A @lengthOf(crc),
        char[00] roots,
    },
    @lengthOf(int)
    // " ++ [27880; 37322]%N ++ runes_of_ascii "
    @lengthOf(u8x)
    // @lengthOf(
    @lengthOf(a1)
    uint16 trueish @calculatedFrom(""a\\""),
    Header @lengthOf(MetaDataX) `say ""hi""`,
    roots @lengthOf(a1),
}
// " ++ [128512]%N ++ runes_of_ascii " emoji")).
Eval vm_compute in ("<<<M4389>>>" ++ check (runes_of_ascii "

  packet	tag

{

float32
repeatCount

@calculatedFrom( ""// no comment"" )  , } packet
    i64_	{char[ 
00

    ]  calculatedFrom

    ,	// " ++ [128512]%N ++ runes_of_ascii " emoji
@calculatedFrom( ""packet""
)
    i16

    Packet,
falsey

    {  char[] 
    // c
    calculatedFrom  @lengthOf( 
stringy) 
  // `tick` ""quote"" 'q'
  `` ,
	} 	 //
,
    repeat 
i32
matchKey , repeat char[	7 ]  /// triple
    	tag
    `// not a comment`	,
leftPad {	// @lengthOf(
    	char[]i8i8 ,
}
, @lengthOf( x_y_z  )
	char[
3	]
matchKey ``
	,	float
{
    char[]	chars,	repeat zchar[1 ] 
x_y_z ,
}	,  i8  x_y_z
    //	t

  //
	,  string
	asx	//

,

}
root	packet int {chars@lengthOf( Foo  )`a\`
	, repeat char[ 0123456789

] BodyLength ,
    i8 
T ,	@rightPad

    (
    ) u64  lengthOf	,

    }
")).
Eval vm_compute in ("<<<M826>>>" ++ check (runes_of_ascii "packet As {// " ++ [27880; 37322]%N ++ runes_of_ascii "
@leftPad	( '0'
    /// triple
    ) @lengthOf( i64_ )
// @lengthOf(
/// triple
@leftPad (
    '\x00' )
    calculatedFrom  f32a,
match x	as x_y_z { """"
    // c
    : body ,
007
:
o
,
    [	""{,}"" ] :As, ""\n"" : stringy ,4294967296 : roots ,	}
,	calculatedFrom ,
match
Pad as asx
    { [ """ ++ [28040; 24687]%N ++ runes_of_ascii """ , ""1"" ,""a	b"" ,  3 ,""x y""
,00
    ,
10 , ""\" ++ [233]%N ++ runes_of_ascii """ ] :Pad 65535 :x 7
:x_y_z 3 : charz,""" ++ [233]%N ++ runes_of_ascii "t" ++ [233]%N ++ runes_of_ascii """
:lengthOf
} , @calculatedFrom(
    ""{,}"" )
@calculatedFrom( ""CRC32"" ) @calculatedFrom(""a	b"" )
/// triple
// trailing space 
crc As /// triple
,calculatedFrom{
char[]	x
    ``
    , } , @rightPad// `tick` ""quote"" 'q'
(
    '\x00' )
repeat char[]
    asx /// triple
`tab	here` ,f32a
{ repeat char u
,} // `tick` ""quote"" 'q'
,
}")).
Eval vm_compute in ("<<<M892>>>" ++ check (runes_of_ascii "
MetaData // " ++ [128512]%N ++ runes_of_ascii " emoji
tag {
char[] float,
lengthOf
    string_
,
    i32
// c
// a // b
Foo , i64
Logon
    `// not a comment` , char[
7]
i8i8
,
// `tick` ""quote"" 'q'
// c
u16 pack, } options
{ Packet=""x y"" u128
    =
7 u= u32 ; } // " ++ [128512]%N ++ runes_of_ascii " emoji
packet
    chars {
    @tag( 0123456789) @calculatedFrom( ""x y"" )
@rightPad (
'0' ) f32 Pad @lengthOf( crc
    // c
    ) ,@tag( // trailing space 
7
) i8
    o @calculatedFrom(
""1""
)
,
    @rightPad ( ' ' ) calculatedFrom {
stringy float, // c
repeat Packet roots
`doc` ,repeat matchKey asx , repeat rootA roots  , } ,
    @tag( 42 )@leftPad
( '\x00' ) /// triple
@calculatedFrom(""a	b"" )
string
    o @lengthOf( roots )	, // " ++ [128512]%N ++ runes_of_ascii " emoji
}
")).
Eval vm_compute in ("<<<M944>>>" ++ check (runes_of_ascii "packet
i8i8 {	@tag( 65535 ) i8i8 ,  repeat
u8 uint8x , zchar[7] u
    // " ++ [27880; 37322]%N ++ runes_of_ascii "
    ,
    repeat
    char[] Packet , @leftPad ( '\x00' )i64_
    { x `line1
line2` ,//x
} , // a // b
repeat Foo{	len{match // a // b
u  as
    _x { 42
    :  tag , [
""" ++ [233]%N ++ runes_of_ascii "t" ++ [233]%N ++ runes_of_ascii """	] : _x[ 7 , 4294967296] : Packet , } ,float64 o
`it's`,int64
    options1 ,//	t
} ,
} , @leftPad
(
    '\x00' )match x //
as zchar{	255:
    //
    o, 255 : Logon /// triple
,	0	: Header ,007
    : msg_type ,[
    // packet A { u8 x, }
    ""\n"" ,// packet A { u8 x, }
007
// " ++ [27880; 37322]%N ++ runes_of_ascii "
// a // b
, ""1"" ,  255// a // b
,4294967296 , 0 ,007
    ] :
    int , } , }// trailing space 
packet
As
{ }

")).
Eval vm_compute in ("<<<M4205>>>" ++ check (runes_of_ascii "packet As {
    char[42] chars @calculatedFrom(""a\""b"") `it's`,
    f32a falsey `// not a comment`,// " ++ [128512]%N ++ runes_of_ascii " emoji
    string trueish `" ++ [28040; 24687; 31867; 22411]%N ++ runes_of_ascii "`,
    @lengthOf(metadata)
    @tag(65535)
    @calculatedFrom(""`tick`"")
    repeat Logon {
        x_y_z @lengthOf(lengthOf),
        uint32 u,
        i64_ @calculatedFrom(""CRC32"") `a\`,
        asx @calculatedFrom("""") `u8 x,`,
    },
    u16 _x ``,
    repeat string_,
    options1 f32a,
    @calculatedFrom(""\n"")
    Packet @lengthOf(zchar),
}// `tick` ""quote"" 'q'

options {
    // a // b
}

packet a1 {
    @tag(0123456789)
    u8 uint8x `{ , }`,
    u32 x_y_z `say ""hi""`,
}")).
Eval vm_compute in ("<<<M863>>>" ++ check (runes_of_ascii "
packet
    zchar // " ++ [128512]%N ++ runes_of_ascii " emoji
{ match Foo /// triple
as pack {""abc"": falsey ,10 : _x , }
,@tag(	255 )string
// @lengthOf(
// a // b
len `line1
line2` ,
}  MetaData o {metadata
A
    , string
stringy , string	Foo	`say ""hi""`	, repeatCount // " ++ [27880; 37322]%N ++ runes_of_ascii "
matchKey ,	x //x
u8x , // " ++ [27880; 37322]%N ++ runes_of_ascii "
} packet
    _x { @leftPad// @lengthOf(
(	'\x00') @calculatedFrom(
    ""packet""
) repeat
// trailing space 
// c
Foo
Z9_ , @lengthOf( As ) uint64
_x @lengthOf( pack )
/// triple
// a // b
,@rightPad // " ++ [128512]%N ++ runes_of_ascii " emoji
(
    '0'
)match A as uint8x
{	[0
,  ""\" ++ [233]%N ++ runes_of_ascii """]:Packet ,007	: MetaDataX // " ++ [128512]%N ++ runes_of_ascii " emoji
, ""1""	: trueish, }
,}
")).
Eval vm_compute in ("<<<M3720>>>" ++ check (runes_of_ascii "packet x_y_z {
    x_y_z @calculatedFrom(""CRC32""),
    x {
        char[0123456789] msg_type @lengthOf(float),
        body calculatedFrom `line1
                line2`,
        match Header as stringy {
            [255] : x,
            10 : options1,
        },
    },
    repeat char[] options1 `u8 x,`,
    metadata @calculatedFrom(""\" ++ [233]%N ++ runes_of_ascii """) ``,
    string falsey,
    @rightPad(' ')
    @tag(007)
    string repeatCount,
    options1 @calculatedFrom(""packet""),
    @lengthOf(BodyLength)
    char[] matchKey @calculatedFrom(""a	b""),
}// packet A { u8 x, }")).
Eval vm_compute in ("<<<M1164>>>" ++ check (runes_of_ascii "/// triple
packet falsey { i32	BodyLength @calculatedFrom( ""// no comment""
    ) ,
i8i8 // " ++ [27880; 37322]%N ++ runes_of_ascii "
body // trailing space 
,@calculatedFrom(""packet"" ) repeat  char
    stringy,@rightPad( // `tick` ""quote"" 'q'
'0' )matchKey
@lengthOf( a1 ) , match
options1 as trueish { ""abc"":Logon
,
} ,
T
leftPad
    , As {  metadata f32a ,
//x
// " ++ [27880; 37322]%N ++ runes_of_ascii "
As @lengthOf( matchKey) , } , repeat Packet
falsey `say ""hi""`
    ,
char[
255
] charz
@lengthOf(
// " ++ [128512]%N ++ runes_of_ascii " emoji
// packet A { u8 x, }
metadata
    // " ++ [128512]%N ++ runes_of_ascii " emoji
    ) // " ++ [128512]%N ++ runes_of_ascii " emoji
`" ++ [28040; 24687; 31867; 22411]%N ++ runes_of_ascii "` , } options { }
")).
Eval vm_compute in ("<<<M391>>>" ++ check (runes_of_ascii "// " ++ [128512]%N ++ runes_of_ascii " emoji
packet o {
char[
    // `tick` ""quote"" 'q'
    4294967296 ]	tag ,@tag(	1
    // a // b
    )	zchar[ //
0123456789]
Logon ,stringy `it's`	, repeat string Logon
, repeat
f32 string_
    //x
    `u8 x,` ,
@lengthOf( roots
) A `" ++ [233]%N ++ runes_of_ascii "`
    ,string_ ,
@lengthOf( //	t
i64_ ) @calculatedFrom(
    ""1"" ) //	t
f32a @lengthOf(
f32a
)
    `doc`
,
    // `tick` ""quote"" 'q'
    @calculatedFrom(
""" ++ [28040; 24687]%N ++ runes_of_ascii """ )repeatCount `a\` ,}
    /// triple
    root
packet //
As { @tag( //
0) char[] o`it's`
,
}packet matchKey{ }")).
Eval vm_compute in ("<<<M880>>>" ++ check (runes_of_ascii "packet
crc
    {
@leftPad ( ' ' ) u64 packetx @lengthOf(trueish ) ,
float
`line1
line2` ,
// packet A { u8 x, }
// trailing space 
}packet
msg_type{zchar[ 3 ]i8i8
@lengthOf( u )	,char[] roots , match x_y_z as
uint8x
{ ""a	b"":body	, } /// triple
,
@tag(
42 )	@rightPad
// `tick` ""quote"" 'q'
//x
(
'0'	) Packet
// " ++ [128512]%N ++ runes_of_ascii " emoji
// packet A { u8 x, }
@calculatedFrom( ""1"" // c
) `
`,@lengthOf(  MetaDataX ) i32 // `tick` ""quote"" 'q'
trueish,
@rightPad ( ' '  )
    u128
@lengthOf( _x )  , }")).
Eval vm_compute in ("<<<M3819>>>" ++ check (runes_of_ascii "MetaData a1 {
    f64 int,
    i32 o `two words`,
    char[3] lengthOf,
    zchar[7] Header,
    u32 x_y_z,
    char[3] matchKey,
}

packet falsey {
    @lengthOf(i8i8)
    match MetaDataX as calculatedFrom {
        00 : float,
        // " ++ [27880; 37322]%N ++ runes_of_ascii "
        7 : MetaDataX,
        """ ++ [28040; 24687]%N ++ runes_of_ascii """ : options1,
        [""a\\""] : charz,
    },
    match T as Z9_ {
        [""it's""] : falsey,
        255 : Foo,
        ""a\\"" : Header,
    },
}

MetaData lengthOf {
    As rootA `doc`,
}")).
Eval vm_compute in ("<<<M64>>>" ++ check (runes_of_ascii "
MetaData x_y_z // c
{char As ,} packet packetx { asx @calculatedFrom( """ ++ [128512]%N ++ runes_of_ascii """
) `a\`, MetaDataX // packet A { u8 x, }
, @leftPad
(
    '0'
)
asx@lengthOf( f32a) `a\` , @lengthOf(	metadata )
match	Packet as lengthOf { [ // `tick` ""quote"" 'q'
""packet"", """ ++ [128512]%N ++ runes_of_ascii """] : // trailing space 
Foo , 0
    :
    crc [
10
, ""CRC32"" ]
:
trueish
//
// " ++ [27880; 37322]%N ++ runes_of_ascii "
,}	, } packet/// triple
lengthOf { @lengthOf( msg_type )
repeat zchar[7 ]  f32a `" ++ [233]%N ++ runes_of_ascii "`,
int64 tag ,  }
")).
Eval vm_compute in ("<<<M851>>>" ++ check (runes_of_ascii "options {
_x
    =	""`tick`"";
    body = 65535 packetx=int8
; metadata =0123456789
    ; }
packet matchKey {
@tag(
//	t
// c
4294967296 ) match leftPad
as T  { ""a\""b"" //
:metadata // " ++ [128512]%N ++ runes_of_ascii " emoji
, [ 42 , 007 , 0 ,
00  ,
// trailing space 
// @lengthOf(
7 ,	""a\\""
,
// c
//	t
""1"" ]
    :metadata
,
[	"""" , ""a	b"" ,
""CRC32""
, 255 ,
    ""a	b"" ]
    : // c
asx
3 :
_x , 65535 // @lengthOf(
: _x , ""\n"" :
Logon ,} ,
    } options { }")).
Eval vm_compute in ("<<<M3848>>>" ++ check (runes_of_ascii "root packet _x {
}

/// triple
root packet rootA {
    @lengthOf(msg_type)
    @calculatedFrom(""a	b"")
    Z9_ {
        repeat char[] msg_type `two words`,
    },
}

options {
    Logon = 7;
    u8x = '0'
    len = '\x00'
    Foo = 10;
}

MetaData leftPad {
    // @lengthOf(
    Packet i8i8 `a\`,
    msg_type int `line1
    line2`,
    uint8x i8i8 `it's`,
    BodyLength repeatCount,// packet A { u8 x, }
}")).
Eval vm_compute in ("<<<M4323>>>" ++ check (runes_of_ascii "

  root
    packet u128
{
	}
    MetaData
u128{
int32 
chars	,i8
pack  // " ++ [27880; 37322]%N ++ runes_of_ascii "
,

    i8i8

    options1
,/// triple
  char[]matchKey ,
string	msg_type

    `doc`//
      ,
    string
	charz
,
} 
        // `tick` ""quote"" 'q'
  packet

    // " ++ [128512]%N ++ runes_of_ascii " emoji
    // @lengthOf(
      BodyLength
    {
@lengthOf(As

    )
repeat
_x
	{
    i64_
    ,
} , repeat char[
    3
    ]	roots ,	} ")).
Eval vm_compute in ("<<<M1003>>>" ++ check (runes_of_ascii "options { Foo = ""packet""; }
/// triple
//	t
options { // `tick` ""quote"" 'q'
x
=
' ' ;
} // @lengthOf(
MetaData
// a // b
// c
calculatedFrom{ char[ 65535 ]asx , zchar stringy `
`	, roots packetx
    ,zchar[ 3 ] options1	, float	u8x ,char  asx
    `doc`,
} packet lengthOf
// c
// c
{
uint16 // a // b
calculatedFrom
    @calculatedFrom(""x y"" ) , } // packet A { u8 x, }")).
Eval vm_compute in ("<<<M1109>>>" ++ check (runes_of_ascii "options{ tag
    =10// @lengthOf(
u =00  stringy =	""`tick`"" ;} options { MetaDataX=
    1 } // packet A { u8 x, }
options{ lengthOf=
255 ; int =  ""// no comment"" ;	falsey// packet A { u8 x, }
= zchar[ 3
    ] ;
    // @lengthOf(
    } MetaData asx { }
MetaData a1{ int16 x_y_z , lengthOf matchKey ,	uint8 u128
, x packetx , i32 charz, repeatCount As , }")).
Eval vm_compute in ("<<<M387>>>" ++ check (runes_of_ascii "packet
    // @lengthOf(
    x
{ int8// packet A { u8 x, }
T
, }
options	{
    } packet Z9_
{
@lengthOf(
    //	t
    A
    ) As
@calculatedFrom(
""x y"" )	,
} MetaData
//
// " ++ [128512]%N ++ runes_of_ascii " emoji
Logon
    {
//x
//x
pack
    trueish
, /// triple
rootA charz ,
    leftPad leftPad ,char[]Logon ,
// a // b
// " ++ [27880; 37322]%N ++ runes_of_ascii "
f64	matchKey ,falsey falsey `two words` ,}")).
Eval vm_compute in ("<<<M4514>>>" ++ check (runes_of_ascii "// " ++ [128512]%N ++ runes_of_ascii " emoji
options {
}

packet a1 {
    // packet A { u8 x, }
    //x
    @lengthOf(Foo)
    pack {
        repeat matchKey leftPad,
        zchar[7] zchar `{ , }`,
        charz @lengthOf(x_y_z) `
        `,
    },
}

root packet roots {
}

options {
    calculatedFrom = false;
    o = int64;
    u = ""a\\""
    zchar = 42;
}")).
Eval vm_compute in ("<<<M1983>>>" ++ check (runes_of_ascii "MetaData
    u { }  options {
// c
// @lengthOf(
float = int8 ;rootA =false ; As =	int16 // `tick` ""quote"" 'q'
repeatCount
    // trailing space 
    =
    int16
; u8x =
    //	t
    '\x00' ; string options	{
    repeatCount
= 0
u128
    //
    = false ; i64_
// trailing space 
// `tick` ""quote"" 'q'
= '0' ; //	t
}
")).
Eval vm_compute in ("<<<M1931>>>" ++ check (runes_of_ascii "MetaData
    u { }  options {
// c
// @lengthOf(
float = int8 ;rootA =false ; As = =	int16 // `tick` ""quote"" 'q'
repeatCount
    // trailing space 
    =
    int16
; u8x =
    //	t
    '\x00' ; } options	{
    repeatCount
= 0
u128
    //
    = false ; i64_
// trailing space 
// `tick` ""quote"" 'q'
= '0' ; //	t
}
")).
Eval vm_compute in ("<<<M2060>>>" ++ check (runes_of_ascii "MetaData
    u { }  options {
// c
// @lengthOf(
float = int8 ;rootA =false ; As =	int16 // `tick` ""quote"" 'q'
repeatCount
    // trailing space 
    =
    int16
; u8x =
    //	t
    '\x00' ; } options	{
    repeatCount
= 0
u128
    //
    = false ; i64_
// trailing space 
// `tick` ""quote"" 'q\'
= '0' ; //	t
}
")).
Eval vm_compute in ("<<<M1967>>>" ++ check (runes_of_ascii "MetaData
    u { }  options {
// c
// @lengthOf(
float = int8 ;rootA =false ; As =	int16 // `tick` ""quote"" 'q'
repeatCount
    // trailing space 
    =
    int16
; u8x '\x00'
    //	t
    = ; } options	{
    repeatCount
= 0
u128
    //
    = false ; i64_
// trailing space 
// `tick` ""quote"" 'q'
= '0' ; //	t
}
")).
Eval vm_compute in ("<<<M1910>>>" ++ check (runes_of_ascii "MetaData
    u { }  options {
// c
// @lengthOf(
float = int8 ;rootA false ; As =	int16 // `tick` ""quote"" 'q'
repeatCount
    // trailing space 
    =
    int16
; u8x =
    //	t
    '\x00' ; } options	{
    repeatCount
= 0
u128
    //
    = false ; i64_
// trailing space 
// `tick` ""quote"" 'q'
= '0' ; //	t
}
")).
Eval vm_compute in ("<<<M1953>>>" ++ check (runes_of_ascii "MetaData
    u { }  options {
// c
// @lengthOf(
float = int8 ;rootA =false ; As =	int16 // `tick` ""quote"" 'q'
repeatCount
    // trailing space 
    =
    {
; u8x =
    //	t
    '\x00' ; } options	{
    repeatCount
= 0
u128
    //
    = false ; i64_
// trailing space 
// `tick` ""quote"" 'q'
= '0' ; //	t
}
")).
Eval vm_compute in ("<<<M707>>>" ++ check (runes_of_ascii "MetaData u { u128 tag `
`
, zchar[ 10 ] pack `say ""hi""`, string metadata`doc` , } packet
    chars
    {	match
    crc as trueish {
    // " ++ [27880; 37322]%N ++ runes_of_ascii "
    10: roots [ """ ++ [28040; 24687]%N ++ runes_of_ascii """ ,
    """" ,4294967296 , ""\n"" ,
007 ,
    ""a\""b"" , """"
, // `tick` ""quote"" 'q'
42  ]  : string_ ""{,}"" :	x_y_z,} ,
i8i8
int, asx
    ,}
//	t
")).
Eval vm_compute in ("<<<M3594>>>" ++ check (runes_of_ascii "packet
A 
{
u8
    a

,
} 
packet

    B { u16 b	,
} packet
	C
{
u32
c	, 
}
root	packet	M
{ u16
    Kc
,
u16  Kb
, u16
Ka , match
	Kc as
    X{
	9
:

A ,10
:

B  ,	}
, 
match

Kb as Y {2 
:
C ,

    1:	A
    ,} , match
	Ka  as
Z

    {
1  :
B,  } 
,

A,  B	,
C 
,

    }
")).
Eval vm_compute in ("<<<M3481>>>" ++ check (runes_of_ascii "// top
packet
    // c0
chars
    // c1
{
    // c2
}
    // c3
packet
    // c4
MetaDataX
    // c5
{
    // c6
@tag(
    // c7
42
    // c8
)
    // c9
i16
    // c10
string_
    // c11
,
    // c12
repeat
    // c13
x
    // c14
`say ""hi""`
    // c15
,
    // c16
}
    // c17
")).
Eval vm_compute in ("<<<M597>>>" ++ check (runes_of_ascii "
root packet
a1  {repeat
    string x
`// not a comment`	,
//x
// @lengthOf(
}options
//
//	t
{ stringy
= true } packet msg_type { @rightPad ( '\x00'
    // " ++ [27880; 37322]%N ++ runes_of_ascii "
    ) match crc
as packetx
{ 65535 :body , 65535 :
T,	}
    , //x
stringy
    ,u32 roots, uint32 body , }")).
Eval vm_compute in ("<<<M651>>>" ++ check (runes_of_ascii "packet trueish {repeat As,	repeat uint8 repeatCount
, @tag( 255) match a1 as x_y_z{  3
    : i8i8 ,
    ""abc""
    : Z9_, 007
/// triple
//
: leftPad 65535
    : x_y_z ""a\""b"" :matchKey, } , @rightPad(' '
) // `tick` ""quote"" 'q'
string packetx , // " ++ [128512]%N ++ runes_of_ascii " emoji
}
")).
Eval vm_compute in ("<<<M1548>>>" ++ check (runes_of_ascii "packet
//	t
// trailing space 
_x {
// packet A { u8 x, }
// c
char[
3
    ] u8x @lengthOf(
u8x ) , @calculatedFrom(""" ++ [128512]%N ++ runes_of_ascii """ """ ++ [128512]%N ++ runes_of_ascii """ // @lengthOf(
)
i16	Foo
@lengthOf(	string_
    )`doc`	, repeat	i64 metadata , @lengthOf( string_
) i8 // c
u  `line1
line2`	,
}
")).
Eval vm_compute in ("<<<M1655>>>" ++ check (runes_of_ascii "packet
//	t
// trailing space 
_x {
// packet A { u8 x, }
// c
char[
3
    ] u8x @lengthOf(
u8x ) < , @calculatedFrom(""" ++ [128512]%N ++ runes_of_ascii """ // @lengthOf(
)
i16	Foo
@lengthOf(	string_
    )`doc`	, repeat	i64 metadata , @lengthOf( string_
) i8 // c
u  `line1
line2`	,
}
")).
Eval vm_compute in ("<<<M1519>>>" ++ check (runes_of_ascii "packet
//	t
// trailing space 
_x {
// packet A { u8 x, }
// c
char[
3
    ] @lengthOf( u8x
u8x ) , @calculatedFrom(""" ++ [128512]%N ++ runes_of_ascii """ // @lengthOf(
)
i16	Foo
@lengthOf(	string_
    )`doc`	, repeat	i64 metadata , @lengthOf( string_
) i8 // c
u  `line1
line2`	,
}
")).
Eval vm_compute in ("<<<M75>>>" ++ check (runes_of_ascii "MetaData calculatedFrom { // @lengthOf(
tag a1
, uint8 _x`crlf
line`,
// " ++ [27880; 37322]%N ++ runes_of_ascii "
// packet A { u8 x, }
string
    Z9_ ,uint8x A`line1
line2` ,char falsey , packetx Foo
,  }
MetaData body {
string x_y_z``
    , falsey zchar `line1
line2` , } options{ }
")).
Eval vm_compute in ("<<<M1061>>>" ++ check (runes_of_ascii "packet uint8x{ char[	42
    ]i64_ @lengthOf( crc
// `tick` ""quote"" 'q'
//x
) `a\`, @calculatedFrom(  ""{,}"") @calculatedFrom( ""\" ++ [233]%N ++ runes_of_ascii """ ) repeat
    i16 rootA`// not a comment` , // @lengthOf(
As
@lengthOf(falsey
) , @lengthOf(pack
)
int64 packetx	, }
")).
Eval vm_compute in ("<<<M3934>>>" ++ check (runes_of_ascii "

  root

packet repeatCount {
T
	{ char[
	255  ]
	T
    // c
  // packet A { u8 x, }
	`a\`
    ,

zchar[
	00  // trailing space 
  	]Foo@lengthOf(
repeatCount )// " ++ [128512]%N ++ runes_of_ascii " emoji
		,  Foo
	x_y_z , packetx@calculatedFrom(
    ""packet"")	// " ++ [27880; 37322]%N ++ runes_of_ascii "

,},	}")).
Eval vm_compute in ("<<<M89>>>" ++ check (runes_of_ascii "//	t
packet
packetx { zchar , @lengthOf( x_y_z )o ,
}
    packet  Packet // " ++ [128512]%N ++ runes_of_ascii " emoji
{ match u128 as // a // b
Header{ [
    7
    ,""1""
]: u
    , ""x y"" :
charz 0123456789 : calculatedFrom
//	t
//x
} ,// " ++ [27880; 37322]%N ++ runes_of_ascii "
repeat  roots
tag
    ,}")).
Eval vm_compute in ("<<<M1636>>>" ++ check (runes_of_ascii "packet
//	t
// trailing space 
_x {
// packet A { u8 x, }
// c
char[
3
    ] u8x @lengthOf(
u8x ) , @calculatedFrom(""" ++ [128512]%N ++ runes_of_ascii """ // @lengthOf(
)
i16	Foo
@lengthOf(	string_
    )`doc`	, repeat	i64 metadata , @lengthOf( string_
) i8")).
Eval vm_compute in ("<<<M4314>>>" ++ check (runes_of_ascii "
packet A {

    @rightPad
    (  ' '
    )/// triple

	@calculatedFrom( """ ++ [233]%N ++ runes_of_ascii "t" ++ [233]%N ++ runes_of_ascii """  ) int16

    crc

`tab	here`	// " ++ [128512]%N ++ runes_of_ascii " emoji
    ,
    }
MetaData
x 
	// `tick` ""quote"" 'q'
// " ++ [27880; 37322]%N ++ runes_of_ascii "
	{
    } 
	    // trailing space 
")).
Eval vm_compute in ("<<<M1719>>>" ++ check (runes_of_ascii "options { trueish = ""`tick`"" ; string_= """ ++ [233]%N ++ runes_of_ascii "t" ++ [233]%N ++ runes_of_ascii """
    // c
    MetaDataX root
    packet body { stringy @calculatedFrom(
""a	b"" ) `line1
line2` , }
packet Logon {
    @leftPad(
    ' ' ) //	t
u16 string_ `u8 x,` ,
}
")).
Eval vm_compute in ("<<<M1709>>>" ++ check (runes_of_ascii "options { trueish = ""`tick`"" ; string_""abc"" """ ++ [233]%N ++ runes_of_ascii "t" ++ [233]%N ++ runes_of_ascii """
    // c
    } root
    packet body { stringy @calculatedFrom(
""a	b"" ) `line1
line2` , }
packet Logon {
    @leftPad(
    ' ' ) //	t
u16 string_ `u8 x,` ,
}
")).
Eval vm_compute in ("<<<M1843>>>" ++ check (runes_of_ascii "options { trueish = ""`tick`"" ; string_= """ ++ [233]%N ++ runes_of_ascii "t" ++ [233]%N ++ runes_of_ascii """
    // c
    } root
    packet body { stringy @calculatedFrom(
""a	b"" ) `line1
line2` , }
packet Logon {
    @leftPad@x(
    ' ' ) //	t
u16 string_ `u8 x,` ,
}
")).
Eval vm_compute in ("<<<M1718>>>" ++ check (runes_of_ascii "options { trueish = ""`tick`"" ; string_= """ ++ [233]%N ++ runes_of_ascii "t" ++ [233]%N ++ runes_of_ascii """
    // c
    root }
    packet body { stringy @calculatedFrom(
""a	b"" ) `line1
line2` , }
packet Logon {
    @leftPad(
    ' ' ) //	t
u16 string_ `u8 x,` ,
}
")).
Eval vm_compute in ("<<<M1676>>>" ++ check (runes_of_ascii "options  trueish = ""`tick`"" ; string_= """ ++ [233]%N ++ runes_of_ascii "t" ++ [233]%N ++ runes_of_ascii """
    // c
    } root
    packet body { stringy @calculatedFrom(
""a	b"" ) `line1
line2` , }
packet Logon {
    @leftPad(
    ' ' ) //	t
u16 string_ `u8 x,` ,
}
")).
Eval vm_compute in ("<<<M1694>>>" ++ check (runes_of_ascii "options { trueish = f32 ; string_= """ ++ [233]%N ++ runes_of_ascii "t" ++ [233]%N ++ runes_of_ascii """
    // c
    } root
    packet body { stringy @calculatedFrom(
""a	b"" ) `line1
line2` , }
packet Logon {
    @leftPad(
    ' ' ) //	t
u16 string_ `u8 x,` ,
}
")).
Eval vm_compute in ("<<<M110>>>" ++ check (runes_of_ascii "packet i64_
{	@tag( // a // b
0123456789) x_y_z@calculatedFrom( ""it's"" ) , @rightPad ( ' ' ) @tag( 007
    ) leftPad {
    zchar[00 ]Pad , }
,int32 _x@lengthOf( BodyLength
/// triple
//
) ,
}
")).
Eval vm_compute in ("<<<M3609>>>" ++ check (runes_of_ascii "root packet
	Frame

    {	u8
	K
	,Logon

    first  , match K	as
Body{
	1: Logon , 
2 
:
Logout	,
    }
    , }packet Logon{ string
user ,
}
    packet Logout
	{ u16
    reason
,	}
")).
Eval vm_compute in ("<<<M404>>>" ++ check (runes_of_ascii "MetaData
    Header { A float , } MetaData Pad { // trailing space 
string float `a\` ,
char[] tag
    ,
    // packet A { u8 x, }
    matchKey BodyLength ,char[ 65535 ] Header
, }")).
Eval vm_compute in ("<<<M4518>>>" ++ check (runes_of_ascii "packet A {
    match k as n {
        [
            ""a"", ""bb"", ""c c"", ""d"", ""e"",
            ""f"", ""g"", ""h"", ""i"", ""j"",
            ""k"", ""l""
        ] : B,
        2 : C,
    },
}")).
Eval vm_compute in ("<<<M4116>>>" ++ check (runes_of_ascii "MetaData calculatedFrom {
    Foo uint8x,
    o Packet `a\`,
    int8 Packet,
    As calculatedFrom,
}

options {
    T = u64;
    stringy = f64;
    BodyLength = true;
}")).
Eval vm_compute in ("<<<M4497>>>" ++ check (runes_of_ascii "
// " ++ [128512]%N ++ runes_of_ascii " emoji
	  packet// @lengthOf(
    	string_ {

@calculatedFrom(
""" ++ [233]%N ++ runes_of_ascii "t" ++ [233]%N ++ runes_of_ascii """	)  repeat i64 MetaDataX
,
u64	i8i8 `a\` ,As 
      //
// " ++ [27880; 37322]%N ++ runes_of_ascii "
,// packet A { u8 x, }
	}")).
Eval vm_compute in ("<<<M2105>>>" ++ check (runes_of_ascii "options{
_x
= true
} options options
{ o	= /// triple
false
    ; chars
= ""\n"" } root packet	Pad
/// triple
// packet A { u8 x, }
{	chars
    // a // b
    ,}")).
Eval vm_compute in ("<<<M2344>>>" ++ check (runes_of_ascii "// c
packet x {'1' @lengthOf( metadata ) repeat lengthOf
,a1{
trueish	,// c
repeat//	t
MetaDataX , } , zchar[
    42	] rootA // `tick` ""quote"" 'q'
,
    }
")).
Eval vm_compute in ("<<<M2085>>>" ++ check (runes_of_ascii "options{
_x _x
= true
} options
{ o	= /// triple
false
    ; chars
= ""\n"" } root packet	Pad
/// triple
// packet A { u8 x, }
{	chars
    // a // b
    ,}")).
Eval vm_compute in ("<<<M2203>>>" ++ check (runes_of_ascii "options{
_x
= true
} options
{ o	= /// triple
false
    ; $ chars
= ""\n"" } root packet	Pad
/// triple
// packet A { u8 x, }
{	chars
    // a // b
    ,}")).
Eval vm_compute in ("<<<M2200>>>" ++ check (runes_of_ascii "options{
_x
= true
} options
{ o	= /// triple
false
    ; chars
= ""\n"" } root packet	Pad
/// triple
// packet A { u?8 x, }
{	chars
    // a // b
    ,}")).
Eval vm_compute in ("<<<M2146>>>" ++ check (runes_of_ascii "options{
_x
= true
} options
{ o	= /// triple
false
    ; chars
= } ""\n"" root packet	Pad
/// triple
// packet A { u8 x, }
{	chars
    // a // b
    ,}")).
Eval vm_compute in ("<<<M2179>>>" ++ check (runes_of_ascii "options{
_x
= true
} options
{ o	= /// triple
false
    ; chars
= ""\n"" } root packet	Pad
/// triple
// packet A { u8 x, }
{	chars
    // a // b
    }")).
Eval vm_compute in ("<<<M2094>>>" ++ check (runes_of_ascii "options{
_x
= 
} options
{ o	= /// triple
false
    ; chars
= ""\n"" } root packet	Pad
/// triple
// packet A { u8 x, }
{	chars
    // a // b
    ,}")).
Eval vm_compute in ("<<<M4489>>>" ++ check (runes_of_ascii "packet roots {
    zchar @lengthOf(calculatedFrom) `" ++ [233]%N ++ runes_of_ascii "`,
    zchar[1] Foo `
        `,
}

options {
    i64_ = ""a\\""
    Logon = 1
    i64_ = i64
}")).
Eval vm_compute in ("<<<M1320>>>" ++ check (runes_of_ascii "options { } root
    packet Packet { Packet
i8i8
// `tick` ""quote"" 'q'
/// triple
`
`,}
    options { asx  ='\x00'; //
} MetaData Packet
{ }
")).
Eval vm_compute in ("<<<M4085>>>" ++ check (runes_of_ascii "packet A {
    match k as n {
        [
            ""a"", 22, ""c c"", 4, ""e"",
            66, ""g"", 8
        ] : B,
        2 : C,
    },
}")).
Eval vm_compute in ("<<<M335>>>" ++ check (runes_of_ascii "MetaData u { BodyLength repeatCount // packet A { u8 x, }
,
} options {
string_
= false ; i8i8=10 ;}
    root packet float { } //")).
Eval vm_compute in ("<<<M3784>>>" ++ check (runes_of_ascii "options {
    // " ++ [27880; 37322]%N ++ runes_of_ascii "
    zchar = zchar[7];
    asx = 10;
    zchar = ""a\\"";
    float = 10
    Logon = '0';
}

MetaData crc {
}")).
Eval vm_compute in ("<<<M1949>>>" ++ check (runes_of_ascii "MetaData
    u { }  options {
// c
// @lengthOf(
float = int8 ;rootA =false ; As =	int16 // `tick` ""quote"" 'q'
repeatCount")).
Eval vm_compute in ("<<<M3320>>>" ++ check (runes_of_ascii "root packet matchKey { zchar[ // c
3 ] pack @calculatedFrom( ""a	b"" ) `doc` , } options { } MetaData A { int8 msg_type , }")).
Eval vm_compute in ("<<<M3352>>>" ++ check (runes_of_ascii "root packet matchKey { zchar[ 3 ] pack @calculatedFrom( ""a	b"" ) `doc` , } options { } MetaData A { int8 // c
msg_type , }")).
Eval vm_compute in ("<<<M689>>>" ++ check (runes_of_ascii "options { packetx
=
255 ; }
packet float
{ repeat
    //
    f64 metadata `
`
//	t
//	t
,}
MetaData leftPad {
} //x")).
Eval vm_compute in ("<<<M1439>>>" ++ check (runes_of_ascii "
packet
    falsey { Header@calculatedFrom(""packet""  ) , 0123456789
    char[ ] packetx
    , } // `tick` ""quote"" 'q'")).
Eval vm_compute in ("<<<M4406>>>" ++ check (runes_of_ascii "  MetaData
	float 
{float64	charz 
`
`
,

    }
root	packet
	chars
    {
    @rightPad (  '0' 	 // c

) 
Foo
,}
")).
Eval vm_compute in ("<<<M1412>>>" ++ check (runes_of_ascii "
packet
    falsey { @calculatedFrom(""packet""  ) , char[
    0123456789 ] packetx
    , } // `tick` ""quote"" 'q'")).
Eval vm_compute in ("<<<M1755>>>" ++ check (runes_of_ascii "options { trueish = ""`tick`"" ; string_= """ ++ [233]%N ++ runes_of_ascii "t" ++ [233]%N ++ runes_of_ascii """
    // c
    } root
    packet body { stringy @calculatedFrom(")).
Eval vm_compute in ("<<<M505>>>" ++ check (runes_of_ascii "options // a // b
{
    crc = '0'  ;_x=""a\""b""
trueish
    = char[1  ] charz// c
= 00 ;As =// c
""a\""b"" }
")).
Eval vm_compute in ("<<<M1080>>>" ++ check (runes_of_ascii "root packet Pad {
float64
// a // b
//x
Pad@lengthOf(repeatCount)
,@lengthOf( _x ) BodyLength o
,
}
")).
Eval vm_compute in ("<<<M2355>>>" ++ check (runes_of_ascii "// c
packet x { @lengthOf( metadata ) repeat lengthOf
,a1{
trueish	,// c
repeat//	t
MetaDataX , } ,")).
Eval vm_compute in ("<<<M46>>>" ++ check (runes_of_ascii "packet rootA{ }
options
{ uint8x =//	t
u32 ; i64_
=	255 ;
len
    = ' '
    ;
    } // @lengthOf(")).
Eval vm_compute in ("<<<M2627>>>" ++ check (runes_of_ascii "packet A { @rightPad(' ') @lengthOf(b) @calculatedFrom(""c"") @tag(007) match k as n { 1 : B }, }")).
Eval vm_compute in ("<<<M3751>>>" ++ check (runes_of_ascii "packet chars {
}

packet MetaDataX {
    @tag(42)
    i16 string_,
    repeat x `say ""hi""`,
}")).
Eval vm_compute in ("<<<M4540>>>" ++ check (runes_of_ascii "  packet  u	{
    repeat uint64
	Pad

`a\`,

    }packet	string_ {	repeat	a1 Packet

,
} ")).
Eval vm_compute in ("<<<M3267>>>" ++ check (runes_of_ascii "// c
MetaData float { float64 charz `
` , } root packet chars { @rightPad ( '0' ) Foo , }")).
Eval vm_compute in ("<<<M3300>>>" ++ check (runes_of_ascii "MetaData float { float64 charz `
` , } root packet chars { @rightPad ( '0' )
// c
Foo , }")).
Eval vm_compute in ("<<<M3511>>>" ++ check (runes_of_ascii "packet chars { } packet MetaDataX { @tag( 42 ) i16 string_ , repeat // c
x `say ""hi""` , }")).
Eval vm_compute in ("<<<M275>>>" ++ check (runes_of_ascii "options {BodyLength=	""abc"" ;
int	=
""""
; chars
    = true	body
    =
// c
//
'\x00'
}
")).
Eval vm_compute in ("<<<M535>>>" ++ check (runes_of_ascii "packet chars
    //
    { i8 body @lengthOf( crc), repeat char[] zchar , body
`
` , }")).
Eval vm_compute in ("<<<M3219>>>" ++ check (runes_of_ascii "packet metadata { Logon // c
{ A `" ++ [28040; 24687; 31867; 22411]%N ++ runes_of_ascii "` , tag o , } , zchar len `// not a comment` , }")).
Eval vm_compute in ("<<<M561>>>" ++ check (runes_of_ascii "MetaData body {
string asx
,
asx// a // b
int , u128 a1
    ,
int32 len
    ,
    }
")).
Eval vm_compute in ("<<<M3442>>>" ++ check (runes_of_ascii "packet o { repeat Logon uint8x ,
// c
} options { asx = zchar[ 3 ] stringy = '\x00' }")).
Eval vm_compute in ("<<<M2945>>>" ++ check (runes_of_ascii "packet A {
  match k as n {
    [1, 22, ""c c"", 4, 5, ""f"", 7, 8] : B
    2 : C
  },
}")).
Eval vm_compute in ("<<<M496>>>" ++ check (runes_of_ascii "
options { repeatCount = ""a	b"" ;As = ' '
    ;
    len= true ;string_ = int16 ; }
")).
Eval vm_compute in ("<<<M3417>>>" ++ check (runes_of_ascii "MetaData body { i64 pack `it's` , } packet stringy { int16
// c
calculatedFrom , }")).
Eval vm_compute in ("<<<M1934>>>" ++ check (runes_of_ascii "MetaData
    u { }  options {
// c
// @lengthOf(
float = int8 ;rootA =false ; As")).
Eval vm_compute in ("<<<M1451>>>" ++ check (runes_of_ascii "
packet
    falsey { Header@calculatedFrom(""packet""  ) , char[
    0123456789")).
Eval vm_compute in ("<<<M2158>>>" ++ check (runes_of_ascii "options{
_x
= true
} options
{ o	= /// triple
false
    ; chars
= ""\n"" }")).
Eval vm_compute in ("<<<M3892>>>" ++ check (runes_of_ascii "
options
{ trueish
    =f64	; 
i8i8	=

int16
	;
	rootA=
	""`tick`"" ;

}
")).
Eval vm_compute in ("<<<M2351>>>" ++ check (runes_of_ascii "// c
packet x { @lengthOf( metadata ) repeat lengthOf
,a1{
trueish	,")).
Eval vm_compute in ("<<<M4485>>>" ++ check (runes_of_ascii "
options  {

u8x
    =	/// triple
	  zchar[
	00

    ]
    ; }
")).
Eval vm_compute in ("<<<M2922>>>" ++ check (runes_of_ascii "packet A { Inner { match k as n { [1,22,007,4,5,66] : B, }, }, }")).
Eval vm_compute in ("<<<M3468>>>" ++ check (runes_of_ascii "// top
MetaData
    // c0
o
    // c1
{
    // c2
}
    // c3
")).
Eval vm_compute in ("<<<M3364>>>" ++ check (runes_of_ascii "
// c
packet x { @rightPad ( ) repeat roots Logon `doc` , }")).
Eval vm_compute in ("<<<M3376>>>" ++ check (runes_of_ascii "packet x { @rightPad ( )
// c
repeat roots Logon `doc` , }")).
Eval vm_compute in ("<<<M2858>>>" ++ check (runes_of_ascii "packet A {
  match k as n {
    [1] : B
    2 : C
  },
}")).
Eval vm_compute in ("<<<M3162>>>" ++ check (runes_of_ascii "// a
MetaData M {} // b
// c
MetaData N {} // d
// e")).
Eval vm_compute in ("<<<M601>>>" ++ check (runes_of_ascii "packet Header
    { msg_type /// triple
,
    }")).
Eval vm_compute in ("<<<M2260>>>" ++ check (runes_of_ascii "options
{ } options { BodyLength= u16 Header=")).
Eval vm_compute in ("<<<M2600>>>" ++ check (runes_of_ascii "packet A { repeat B { C { u8 x, }, D d, }, }")).
Eval vm_compute in ("<<<M139>>>" ++ check (runes_of_ascii "MetaData
packetx {  zchar[7
]u128 , }
")).
Eval vm_compute in ("<<<M3198>>>" ++ check (runes_of_ascii "root packet u128 { chars
// c
`it's` , }")).
Eval vm_compute in ("<<<M2745>>>" ++ check (runes_of_ascii ":4RjM4nCa.YX!, >bNh(Sx""yjArkf-7J.QvXp ")).
Eval vm_compute in ("<<<M3152>>>" ++ check (runes_of_ascii "options { a = 1 // c b = 2; // d}")).
Eval vm_compute in ("<<<M1038>>>" ++ check (runes_of_ascii "root packet Logon
    //
    { }

")).
Eval vm_compute in ("<<<M2830>>>" ++ check (runes_of_ascii "ytSP1+_VA;iR~$29D uo*BDXeR,dd`:e4")).
Eval vm_compute in ("<<<M1218>>>" ++ check (runes_of_ascii "packet  options1
    { }
// " ++ [27880; 37322]%N ++ runes_of_ascii "
")).
Eval vm_compute in ("<<<M3097>>>" ++ check (runes_of_ascii "packet A {
 u8 x `d" ++ [8232]%N ++ runes_of_ascii "`, // c" ++ [8232]%N ++ runes_of_ascii "
}")).
Eval vm_compute in ("<<<M2586>>>" ++ check (runes_of_ascii "packet A { x @lengthOf(y), }")).
Eval vm_compute in ("<<<M4252>>>" ++ check (runes_of_ascii "
MetaData Z9_ 
{

    }

")).
Eval vm_compute in ("<<<M2757>>>" ++ check (runes_of_ascii "true int32 packet [ match")).
Eval vm_compute in ("<<<M2710>>>" ++ check (runes_of_ascii "-t" ++ [65533]%N ++ runes_of_ascii " =" ++ [65533; 65533; 65533; 1092; 65533; 65533; 65533; 3; 65533; 0]%N ++ runes_of_ascii "'H" ++ [65533; 65533]%N ++ runes_of_ascii "d" ++ [65533]%N ++ runes_of_ascii "" ++ [65533; 65533]%N)).
Eval vm_compute in ("<<<M214>>>" ++ check (runes_of_ascii "  root packet charz{}")).
Eval vm_compute in ("<<<M2714>>>" ++ check ([65533; 0; 65533; 65533]%N ++ runes_of_ascii "r" ++ [65533]%N ++ runes_of_ascii "`" ++ [65533]%N ++ runes_of_ascii "o2e" ++ [65533; 65533]%N ++ runes_of_ascii "r" ++ [2]%N ++ runes_of_ascii "#" ++ [65533; 65533]%N ++ runes_of_ascii "N" ++ [65533]%N)).
Eval vm_compute in ("<<<M2848>>>" ++ check ([65533; 16; 25; 65533; 1737]%N ++ runes_of_ascii "%)I" ++ [65533; 65533]%N ++ runes_of_ascii "$" ++ [65533; 19; 65533; 65533; 6; 65533; 27; 16]%N)).
Eval vm_compute in ("<<<M3080>>>" ++ check (runes_of_ascii "packet A {
}
// c" ++ [5760]%N)).
Eval vm_compute in ("<<<M887>>>" ++ check (runes_of_ascii "  
// @lengthOf(
")).
Eval vm_compute in ("<<<M296>>>" ++ check (runes_of_ascii "packet f32a {  }")).
Eval vm_compute in ("<<<M1869>>>" ++ check (runes_of_ascii "MetaData
    u")).
Eval vm_compute in ("<<<M2763>>>" ++ check ([65533; 65533]%N ++ runes_of_ascii "xu7H\" ++ [65533; 65533; 65533]%N ++ runes_of_ascii "}#")).
Eval vm_compute in ("<<<M2489>>>" ++ check (runes_of_ascii "@lengthOf")).
Eval vm_compute in ("<<<M2468>>>" ++ check (runes_of_ascii "matches")).
Eval vm_compute in ("<<<M2430>>>" ++ check (runes_of_ascii "chars")).
Eval vm_compute in ("<<<M3119>>>" ++ check (runes_of_ascii "// c" ++ [12]%N)).
Eval vm_compute in ("<<<M2719>>>" ++ check (runes_of_ascii "D-{a")).
Eval vm_compute in ("<<<M2679>>>" ++ check (runes_of_ascii """s""")).
Eval vm_compute in ("<<<M2444>>>" ++ check (runes_of_ascii "u")).
