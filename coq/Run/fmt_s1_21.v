From FP Require Import Lexer Parser ShowPT Digest Formatter.
From Coq Require Import String List NArith.
Import ListNotations.
Open Scope string_scope.
Set Printing Width 100000000.
Set Printing Depth 100000000.
Definition show_fres (r : fres) : string :=
  match r with
  | FOk s => "OK:" ++ sh_escaped s ""
  | FErr s => "ERR:" ++ sh_escaped s ""
  | FPanic p => "PANIC:" ++ p
  end.
Definition check (rs : list rune) : string := digest (show_fres (format_res rs)).
Definition full (rs : list rune) : string := show_fres (format_res rs).
Eval vm_compute in ("<<<M4374>>>" ++ check (runes_of_ascii "root packet stringy {
    @tag(10)
    string len ``,
    float64 i64_,
    @calculatedFrom(""abc"")
    @leftPad('\x00')
    repeat char[3] Header,
    msg_type metadata `two words`,
    leftPad body `crlf
    line`,
    string_,
    stringy {
        repeat metadata {
            repeat lengthOf,
        },// packet A { u8 x, }
    },
    @lengthOf(stringy)
    u128 @calculatedFrom(""" ++ [28040; 24687]%N ++ runes_of_ascii """),
    @calculatedFrom(""a	b"")
    match crc as a1 {
        42 : Header,
        3 : tag,
        [""CRC32"", ""packet""] : f32a,
        // packet A { u8 x, }
        [""" ++ [28040; 24687]%N ++ runes_of_ascii """, ""abc"", 65535, """ ++ [128512]%N ++ runes_of_ascii """, 10] : pack,
    },
    zchar[10] calculatedFrom @calculatedFrom(""\" ++ [233]%N ++ runes_of_ascii """) `
    `,
}

root packet falsey {
    @calculatedFrom(""" ++ [128512]%N ++ runes_of_ascii """)
    @lengthOf(falsey)
    int @calculatedFrom(""{,}""),
    repeat matchKey f32a `{ , }`,
    float64 crc `doc`,
    @calculatedFrom(""" ++ [128512]%N ++ runes_of_ascii """)
    matchKey @calculatedFrom("""") `u8 x,`,
    A,// c
    string Z9_ @lengthOf(x) `u8 x,`,
    zchar @lengthOf(rootA) `// not a comment`,
    options1 @lengthOf(packetx) `a\`,// " ++ [128512]%N ++ runes_of_ascii " emoji
    @lengthOf(leftPad)
    repeat u32 A,
}

packet Pad {
    @calculatedFrom(""a\\"")
    // trailing space 
    @tag(65535)
    @lengthOf(u128)
    f64 x `u8 x,`,
    @lengthOf(x_y_z)
    string stringy @lengthOf(string_),
    metadata {
        match body as rootA {
            0 : o,
            255 : uint8x,
            [10] : crc,
            007 : msg_type,
        },
    },
    msg_type @lengthOf(msg_type),
    @leftPad('0')
    lengthOf @lengthOf(As) `// not a comment`,/// triple
    repeat zchar[1] rootA `// not a comment`,
    @tag(10)
    @leftPad()
    @lengthOf(stringy)
    repeat body {
        // a // b
        i8i8 @calculatedFrom(""a	b""),
        // " ++ [128512]%N ++ runes_of_ascii " emoji
        _x,
        repeat u8 Packet,
    },
    i32 Logon,
}

packet calculatedFrom {
    float32 rootA `say ""hi""`,
}

root packet packetx {
    @tag(3)
    asx,
    len {
        tag {
            repeat zchar[0123456789] stringy ``,
        },
        Z9_ `
        `,
        Foo,
        repeat u8x `// not a comment`,
    },
    int64 body @calculatedFrom(""a\\"") `it's`,
}")).
Eval vm_compute in ("<<<M1397>>>" ++ check (runes_of_ascii "options { options1
= 007 ;
}  packet u { // @lengthOf(
@tag( 0 ) // trailing space 
tag  { int64 _x
    ,
u64 MetaDataX @calculatedFrom(""1"")
    , } , char charz
, rootA `
`
// `tick` ""quote"" 'q'
// @lengthOf(
,match
string_ as//x
charz{ 007
:  x , }  ,repeat
uint8x {
x_y_z {
// c
// c
repeat char[] pack
, char[] x_y_z ,}
,
} , match //	t
u128
as string_ { ""a\\"" : u128
,} ,
@lengthOf(
A ) u8 chars
`100% of %d`, }root  packet x {repeat // trailing space 
uint8x {// packet A { u8 x, }
match
    trueish as
    roots { ""abc""  : options1 ""a\\"": roots
, 00:
Pad
, ""a	b"": Pad , [
    ""packet"" ]
:// packet A { u8 x, }
_x
    ,
    10 : len , }
, }
, // c
zchar[
0123456789 ] zchar
@lengthOf(T
    )`a\`
, @rightPad () @lengthOf( roots ) msg_type , @tag( 3
)Packet @lengthOf(
rootA
    /// triple
    )
    ,	i8i8	`a\` ,@lengthOf(
    rootA
    ) @calculatedFrom( ""x y"" )zchar
{ repeat
msg_type BodyLength ,int32	packetx`" ++ [233]%N ++ runes_of_ascii "`, u16 Foo
    // `tick` ""quote"" 'q'
    `// not a comment` // " ++ [128512]%N ++ runes_of_ascii " emoji
,char uint8x@lengthOf( body
)
,
}
, } packet asx
    // trailing space 
    {
@lengthOf(
// " ++ [27880; 37322]%N ++ runes_of_ascii "
// packet A { u8 x, }
msg_type) char
    u128 , i16	len `tab	here` , // `tick` ""quote"" 'q'
@lengthOf(roots ) match asx as BodyLength	{""packet"" : trueish,""" ++ [128512]%N ++ runes_of_ascii """ :
x , 3
: charz 0123456789 :
Packet
,  007: pack , [
00 ,
    ""a\""b""] :
lengthOf , },
    @lengthOf( BodyLength ) char[
// 50% %s
//x
0 ]u8x
@lengthOf(msg_type  ) , @calculatedFrom( ""it's"" ) options1 @calculatedFrom( ""`tick`"" ) `u8 x,`
,char[ 3 ] repeatCount// `tick` ""quote"" 'q'
`" ++ [28040; 24687; 31867; 22411]%N ++ runes_of_ascii "`
, A@lengthOf( a1 // " ++ [128512]%N ++ runes_of_ascii " emoji
) ,
@calculatedFrom(
""a	b"" ) @lengthOf(
int)leftPad @lengthOf( Z9_ ), @lengthOf( f32a )
roots {
    //	t
    repeat As , } ,@lengthOf(
    pack ) uint8 charz
//x
// `tick` ""quote"" 'q'
, } packet repeatCount{ }
")).
Eval vm_compute in ("<<<M3638>>>" ++ check (runes_of_ascii "root 
    // " ++ [27880; 37322]%N ++ runes_of_ascii "

packet

string_
	{ repeat

    uint16
    Logon
	`
` ,
	@calculatedFrom(
""" ++ [233]%N ++ runes_of_ascii "t" ++ [233]%N ++ runes_of_ascii """ ) char[
255
]
    Logon ,
    u64 pack

@calculatedFrom(

    ""a\\"" )

, @rightPad	// 50% %s
  ( 	 // `tick` ""quote"" 'q'
  	'0' 
)  T  {zchar[3
    ]u8x@calculatedFrom(""CRC32"")

`crlf
line` 
, o{ _x
{float32
	calculatedFrom /// triple
  ,
},  repeat int64  u128, float32 string_
    @lengthOf(  msg_type
)

`" ++ [233]%N ++ runes_of_ascii "`
	,	} ,} 
,

i16
charz `line1
line2`
    ,
    repeat	int64

    a1,  @lengthOf(	// 50% %s
    lengthOf ) 

// " ++ [27880; 37322]%N ++ runes_of_ascii "
@tag( 
00
	)
Header
    body `" ++ [28040; 24687; 31867; 22411]%N ++ runes_of_ascii "` ,  @tag( // a // b
    65535 
) 
match pack 
as
_x { ""abc""
    :charz

,

    255  // c
	:
    T

,

    [

""1""
	, 007
]: rootA

,00:  i64_
	}

    ,  char[]  a1 `" ++ [233]%N ++ runes_of_ascii "`
	,matchKey {zchar[
3  ]
Pad 	 //
	`// not a comment` ,}
	, }	options{	packetx =
    ' 'A
	= 
0123456789
;
string_ =
	'\x00' ;
	float  =

    ""a\""b""  ; tag=  65535 
} 
root	packet matchKey
    {
    @calculatedFrom(	""\n""  /// triple
) zchar	crc
`100% of %d`,repeat
x
{ 
char[] 
options1	`two words`

    , repeat 
        // packet A { u8 x, }
metadata {	options1
    @calculatedFrom(""CRC32"" 
) , 
},
uint64
	matchKey 
`" ++ [28040; 24687; 31867; 22411]%N ++ runes_of_ascii "`

,  leftPad, }
	,

repeat

i64

_x `{ , }`
	,

    @tag(  1
    )char[

    255
    ]

len

    , 
}

    root 
packet
charz{  float64
body
@lengthOf( falsey	)
,

    zchar repeatCount ,}
    root
    packet asx  {  
  //x

// 50% %s
	  }
")).
Eval vm_compute in ("<<<M1408>>>" ++ check (runes_of_ascii "options {
    StringPrefixLenType = u16;
    ArrayPrefixLenType = u16;
}

packet SampleBinary {
    uint16 MsgType `" ++ [28040; 24687; 31867; 22411]%N ++ runes_of_ascii "`,
    u16 BodyLenght @lengthOf(Body) `" ++ [28040; 24687; 20307; 38271; 24230]%N ++ runes_of_ascii "`,
    match MsgType as Body {
        1 : Logon,
        2 : Logout,
        3 : Heartbeat,
        4 : RiskControlRequest,
        5 : RiskControlResponse,
    },
    @calculatedFrom(""CRC32"")
    u32 Ckecksum `" ++ [26657; 39564; 21644]%N ++ runes_of_ascii "`,
}

packet Logon {
    @leftPad('0')
    char[10] UserName `" ++ [29992; 25143; 21517]%N ++ runes_of_ascii "`,
    string Password `" ++ [23494; 30721]%N ++ runes_of_ascii "`,
    uint64 ClientId `" ++ [23458; 25143; 31471]%N ++ runes_of_ascii "ID`,
    u16 HeartbeatInterval `" ++ [24515; 36339; 38388; 38548]%N ++ runes_of_ascii "`,
}

packet Logout {
    @rightPad('0')
    char[10] UserName `" ++ [29992; 25143; 21517]%N ++ runes_of_ascii "`,
    uint64 ClientId `" ++ [23458; 25143; 31471]%N ++ runes_of_ascii "ID`,
}

packet Heartbeat {
}

packet RiskControlRequest {
    string UniqueOrderId `" ++ [21807; 19968; 35746; 21333; 21495]%N ++ runes_of_ascii "`,
    char[16] ClOrdID `" ++ [23458; 25143; 35746; 21333; 21495]%N ++ runes_of_ascii "`,
    char[3] MarketID `" ++ [24066; 22330]%N ++ runes_of_ascii "id`,
    char[12] SecurityID `" ++ [35777; 21048; 20195; 30721]%N ++ runes_of_ascii "`,
    char Side `" ++ [20080; 21334; 26041; 21521]%N ++ runes_of_ascii "`,
    char OrderType `" ++ [35746; 21333; 31867; 22411]%N ++ runes_of_ascii "`,
    u64 Price `" ++ [20215; 26684]%N ++ runes_of_ascii "`,
    u32 Qty `" ++ [25968; 37327]%N ++ runes_of_ascii "`,
    repeat string ExtraInfo `" ++ [38468; 21152; 20449; 24687]%N ++ runes_of_ascii "`,
    repeat SubOrder {
        char[16] ClOrdID `" ++ [23376; 35746; 21333; 21495]%N ++ runes_of_ascii "`,
        u64 Price `" ++ [23376; 35746; 21333; 20215; 26684]%N ++ runes_of_ascii "`,
        u32 Qty `" ++ [23376; 35746; 21333; 25968; 37327]%N ++ runes_of_ascii "`,
    },
}

packet RiskControlResponse {
    string UniqueOrderId `" ++ [21807; 19968; 35746; 21333; 21495]%N ++ runes_of_ascii "`,
    i32 Status `" ++ [29366; 24577]%N ++ runes_of_ascii "`,
    string Msg `" ++ [32467; 26524; 20449; 24687]%N ++ runes_of_ascii "`,
    repeat Detail,
}

packet Detail {
    string RuleName `" ++ [35268; 21017; 21517; 31216]%N ++ runes_of_ascii "`,
    u16 Code `" ++ [21407; 22240; 20195; 30721]%N ++ runes_of_ascii "`,
}")).
Eval vm_compute in ("<<<M3738>>>" ++ check (runes_of_ascii "root packet x {
    @calculatedFrom(""" ++ [233]%N ++ runes_of_ascii "t" ++ [233]%N ++ runes_of_ascii """)
    // `tick` ""quote"" 'q'
    // 50% %s
    Header tag `
        `,
    pack BodyLength `" ++ [233]%N ++ runes_of_ascii "`,/// triple
    @tag(7)
    Packet,
}

packet BodyLength {
    BodyLength,
}

packet float {
    match packetx as u {
        [
            10, """ ++ [128512]%N ++ runes_of_ascii """, 255, ""// no comment"", 42,
            00, ""{,}"", """ ++ [28040; 24687]%N ++ runes_of_ascii """
        ] : Packet,
    },
    @rightPad('0')
    repeat uint16 chars,
    @calculatedFrom(""" ++ [233]%N ++ runes_of_ascii "t" ++ [233]%N ++ runes_of_ascii """)
    string leftPad,
    match len as stringy {
        3 : pack,
    },
    repeat u8 Foo,
    roots @lengthOf(len) `it's`,
    // a // b
    // trailing space 
    @lengthOf(u128)
    char[255] string_,
    zchar[0123456789] stringy,
    @tag(10)
    match metadata as A {
        0123456789 : lengthOf,
        10 : o,
        // packet A { u8 x, }
        // 50% %s
        [
            ""a	b"", 00, 3, 007, ""a\""b"",
            10
        ] : chars,
        42 : u,
        """ ++ [28040; 24687]%N ++ runes_of_ascii """ : f32a,
        7 : u8x,
    },
}

root packet u {
    repeat o {
        repeat crc {
            int8 i8i8 @calculatedFrom(""x y"") `tab	here`,
            repeat falsey {
                uint32 crc @lengthOf(MetaDataX) `100% of %d`,
            },
        },
    },
}")).
Eval vm_compute in ("<<<M3442>>>" ++ check (runes_of_ascii "packet Frame // c1
{ // c2a
  // c2b
u8 // c3
HK
    // c4
, u8 // c6
BK
    // c7
, // c8
u8 // c9
TK // c10
, // c11
match
    // c12
HK
    // c13
as // c14a
  // c14b
Hdr
    // c15
{ 1 : // c18a
  // c18b
HdrA ,
    // c20
2 : // c22a
  // c22b
HdrB
    // c23
, // c24a
  // c24b
} // c25a
  // c25b
, match BK // c28a
  // c28b
as // c29
Body // c30
{ // c31
1 : BodyA // c34
, // c35a
  // c35b
2 : // c37a
  // c37b
BodyB // c38
, // c39a
  // c39b
}
    // c40
, match TK // c43
as // c44a
  // c44b
Trl
    // c45
{ 1 // c47
: TrlA // c49
, // c50
} // c51
, // c52a
  // c52b
} packet // c54a
  // c54b
HdrA { u8
    // c57
a // c58a
  // c58b
, // c59
} // c60
packet // c61
HdrB
    // c62
{
    // c63
u16 // c64
b // c65a
  // c65b
, // c66
} // c67
packet BodyA
    // c69
{ u32
    // c71
c // c72
, // c73
} packet // c75a
  // c75b
BodyB // c76
{ // c77
u64
    // c78
d
    // c79
, // c80
} packet TrlA { // c84
u8
    // c85
e , // c87a
  // c87b
} root // c89a
  // c89b
packet
    // c90
Msg // c91a
  // c91b
{ Frame // c93a
  // c93b
, // c94a
  // c94b
u8
    // c95
x // c96
, // c97
} ")).
Eval vm_compute in ("<<<M4435>>>" ++ check (runes_of_ascii "root packet Z9_ {
    char[] falsey `a\`,
    repeat char[] x_y_z `" ++ [233]%N ++ runes_of_ascii "`,
    rootA @calculatedFrom(""a\""b""),
    f32a,
    char[] packetx @lengthOf(msg_type),
}

packet MetaDataX {
    i16 pack @lengthOf(Z9_),
    @calculatedFrom(""\n"")
    @lengthOf(a1)
    f32a @calculatedFrom(""1""),
    // c
    /// triple
    @leftPad('0')
    Pad @calculatedFrom(""" ++ [233]%N ++ runes_of_ascii "t" ++ [233]%N ++ runes_of_ascii """) `100% of %d`,
    uint64 u `crlf
    line`,
    @calculatedFrom(""a	b"")
    @leftPad()
    @tag(00)
    repeat Packet Packet,
    float64 a1 `" ++ [28040; 24687; 31867; 22411]%N ++ runes_of_ascii "`,
}

packet string_ {
    T {
        char[] u `crlf
        line`,
    },
    @tag(42)
    repeat char[255] Foo,
    @lengthOf(_x)
    @calculatedFrom(""abc"")
    _x `" ++ [28040; 24687; 31867; 22411]%N ++ runes_of_ascii "`,
    char[00] Packet `line1
    line2`,
    @lengthOf(calculatedFrom)
    repeat Pad matchKey,
    @calculatedFrom(""" ++ [28040; 24687]%N ++ runes_of_ascii """)
    uint16 rootA,
    f64 msg_type,
}

packet int {
    @lengthOf(A)
    repeat Foo {
        uint32 crc @calculatedFrom(""\n""),
    },
}

options {
    Z9_ = '\x00';
    Pad = '\x00';
    options1 = '\x00';
    matchKey = 3
    asx = ""// no comment""
}")).
Eval vm_compute in ("<<<M1377>>>" ++ check (runes_of_ascii "MetaData  chars{ i64	zchar `a\`
    , } // " ++ [27880; 37322]%N ++ runes_of_ascii "
packet f32a
    { @tag( 00
    ) match
    // 50% %s
    BodyLength as u128
    { [0 ] : rootA , [	""{,}""
    , 0
    ]: matchKey ""it's""
: stringy ,
""""	: As, }, @calculatedFrom( ""a\\"" // @lengthOf(
)
//x
// packet A { u8 x, }
matchKey	@lengthOf( i8i8 )`a\`
,@calculatedFrom(	""it's"" ) string
    x_y_z, // `tick` ""quote"" 'q'
@lengthOf(repeatCount
) //x
char[ 00 ]Header  `
`,
    // a // b
    } root
    packet u
{ As @lengthOf( f32a ) `" ++ [233]%N ++ runes_of_ascii "` , @calculatedFrom( ""it's"" )
@tag(7
)  zchar[
0 //x
]
    As	@lengthOf( //
zchar
    ) `say ""hi""`,// `tick` ""quote"" 'q'
@rightPad ( '\x00' )
match/// triple
T as len { 4294967296: metadata ,0: x } ,  repeat
// `tick` ""quote"" 'q'
// " ++ [128512]%N ++ runes_of_ascii " emoji
trueish , // @lengthOf(
@calculatedFrom(""" ++ [233]%N ++ runes_of_ascii "t" ++ [233]%N ++ runes_of_ascii """
) @lengthOf( lengthOf
    )
    @rightPad( '\x00' )repeat char[  255  ] string_ `" ++ [233]%N ++ runes_of_ascii "`
, T	{
repeat
// 50% %s
// c
crc msg_type
,uint64
    u8x
    , len
BodyLength ,
    }
,	} MetaData BodyLength{options1 MetaDataX ,
    }
")).
Eval vm_compute in ("<<<M314>>>" ++ check (runes_of_ascii "options {
//x
//	t
}MetaData crc
    { //
uint32 packetx`line1
line2`	, }	options
    {// packet A { u8 x, }
trueish=
// c
// packet A { u8 x, }
true falsey	=false f32a= zchar[
255 ]
trueish=
255	Z9_
= ""\n""
;} packet repeatCount
{
asx { match _x as msg_type// @lengthOf(
{ 0123456789
// " ++ [128512]%N ++ runes_of_ascii " emoji
// 50% %s
:trueish ,
[42
    ]
    : matchKey // packet A { u8 x, }
, """ ++ [28040; 24687]%N ++ runes_of_ascii """ :
    roots, [ 1 ] :
As} , }
    , @calculatedFrom( ""// no comment"") char metadata
    ,
repeat	rootA
{ int64	stringy@calculatedFrom(
""1""
    ) , u32
    // `tick` ""quote"" 'q'
    T, } , float32
i64_ ,repeat
zchar[ 007
]
T
`say ""hi""` ,repeat
// 50% %s
// " ++ [128512]%N ++ runes_of_ascii " emoji
tag
{int8 crc `crlf
line` ,
repeat	o {repeat
    f32a, } ,repeat i16
    Z9_ `" ++ [233]%N ++ runes_of_ascii "`, zchar[3  ]
    body @lengthOf( Packet ) , }
, @lengthOf( o ) match uint8x as As{
    255: T , } ,f32a @lengthOf(leftPad
    ) , BodyLength
_x`it's`, //	t
repeat asx{ char[ 10
] i64_ @lengthOf( u
    )
,
} ,
} //x")).
Eval vm_compute in ("<<<M872>>>" ++ check (runes_of_ascii "packet a1{ @calculatedFrom( ""a\\"" ) // " ++ [128512]%N ++ runes_of_ascii " emoji
match
    u8x as
    Foo {[ 007 , 255
, ""it's""
] : T , } ,
    // c
    @leftPad ('\x00' // trailing space 
)
u ,
    @tag( 4294967296
)
char[
0
    ] Packet `a\` , int32 a1
, }packet // c
Packet { @leftPad
( ' ')float64 repeatCount @lengthOf( len ) ,  @lengthOf( asx )
    zchar[ 4294967296 ]Logon
, @calculatedFrom( ""\" ++ [233]%N ++ runes_of_ascii """ /// triple
)repeat tag
len
    , repeatCount @calculatedFrom( ""x y""	) // " ++ [128512]%N ++ runes_of_ascii " emoji
, } packet pack {
    @calculatedFrom(""\n"" )	u , }	packet f32a
    { @tag(10 )
char[255]  body@calculatedFrom( ""CRC32""  ) , Foo`100% of %d` , @leftPad (  '\x00'//x
) //	t
char[] stringy,
    @leftPad
// " ++ [128512]%N ++ runes_of_ascii " emoji
//x
( '\x00'
    ) zchar[
42 ]i8i8 , leftPad @lengthOf(  zchar
    ) ,
@rightPad ( '0' )
@rightPad
(	' ') @lengthOf(
Packet) charz ,
} options {
    Pad =
""\n""
    // `tick` ""quote"" 'q'
    int ='0' ;
options1
    =
0 ;	}
")).
Eval vm_compute in ("<<<M1241>>>" ++ check (runes_of_ascii "packet
uint8x {
u32// 50% %s
body	,	repeat string // packet A { u8 x, }
tag  ,	@calculatedFrom( ""CRC32"") string_  int// " ++ [27880; 37322]%N ++ runes_of_ascii "
,i8 u128 , @lengthOf( // packet A { u8 x, }
_x//x
) uint16 trueish
    `say ""hi""` ,@tag(
10 )@lengthOf( int	) @rightPad (
    '\x00'  ) x_y_z
body
, As @calculatedFrom(""// no comment"" ) ,
// c
//	t
repeat uint8 Z9_// c
, } packet
trueish {
    char
    u @calculatedFrom(
""{,}"" ) ,@tag(7
) // " ++ [27880; 37322]%N ++ runes_of_ascii "
i8
    a1  ,crc @lengthOf( // " ++ [128512]%N ++ runes_of_ascii " emoji
chars ) `say ""hi""` , zchar[ 42 ]
metadata ``
    , float64  repeatCount
`` , @lengthOf( /// triple
chars
    // " ++ [128512]%N ++ runes_of_ascii " emoji
    ) repeat  Logon
// 50% %s
// " ++ [128512]%N ++ runes_of_ascii " emoji
{ string len@lengthOf(
    crc)
    ,u128	@lengthOf( x) , } ,
Packet { i8 uint8x
    ,repeatCount
Packet `" ++ [233]%N ++ runes_of_ascii "`,i64 lengthOf ,  MetaDataX
{ zchar[ 10]
    // " ++ [128512]%N ++ runes_of_ascii " emoji
    a1
    @lengthOf( metadata),
} ,
    /// triple
    } ,
    }
")).
Eval vm_compute in ("<<<M178>>>" ++ check (runes_of_ascii "packet Pad {	repeat uint8x { char[]
Z9_, }
    , repeat zchar[	10
    ] i8i8,
    x, repeat
    string_
    { // @lengthOf(
repeat asx Foo ,int16	i8i8 ,  char[]matchKey, match
calculatedFrom
as roots { 3//
:x_y_z , }
, } , @lengthOf( x // packet A { u8 x, }
)
repeat // trailing space 
o`a\` , char[] /// triple
string_
    `{ , }` ,} options{ f32a
=false A= false } packet u128{
@calculatedFrom( """ ++ [128512]%N ++ runes_of_ascii """ ) string a1,@tag( 00 )
char[
10
]  A
`" ++ [233]%N ++ runes_of_ascii "`,char[65535 ] len , @tag(	00 ) @rightPad ( '\x00' )@calculatedFrom( ""1"" )
zchar[ 7
] // trailing space 
body ,
    @calculatedFrom( ""{,}"") i64_ { repeat
    // a // b
    uint8x tag	`u8 x,` ,
}, string_ A  , @calculatedFrom( ""x y"" )  @tag( 42 )
i16 pack // a // b
,	@rightPad (
)A{ Z9_
,  }
// packet A { u8 x, }
// @lengthOf(
,
tag
BodyLength ,
    }")).
Eval vm_compute in ("<<<M4253>>>" ++ check (runes_of_ascii "// `tick` ""quote"" 'q'
packet Packet {
    char Header `crlf
    line`,
}

options {
    falsey = ""a	b"";
}

packet Pad {
    repeat charz {
        int32 Pad `a\`,
        /// triple
        // 50% %s
        char[0123456789] u128 @calculatedFrom(""packet"") `// not a comment`,// @lengthOf(
        _x i64_,
        match o as tag {
            [00] : pack,
        },
    },
    @lengthOf(stringy)
    f32 body `tab	here`,
    repeat string_,
    @lengthOf(lengthOf)
    rootA @lengthOf(x),
    i8i8 Packet,
    @tag(3)
    zchar[0123456789] A `// not a comment`,
    repeat char[] BodyLength `{ , }`,
    A stringy,
}

root packet a1 {
}

MetaData msg_type {
    string_ A,
    uint16 f32a,
    /// triple
    // @lengthOf(
    asx MetaDataX,
    zchar[00] msg_type,
}")).
Eval vm_compute in ("<<<M3853>>>" ++ check (runes_of_ascii "  packet chars {// " ++ [27880; 37322]%N ++ runes_of_ascii "
    	@tag(1

) crc
	,	repeat  T

    { 
lengthOf 
@lengthOf( chars )  `{ , }`
, 
repeat 
zchar[
	0123456789 ]

    int	,

} ,repeat  // " ++ [27880; 37322]%N ++ runes_of_ascii "
zchar[ 
42]
	x

    `two words`, zchar[ 65535
]
asx
        // @lengthOf(
	,
calculatedFrom  ,
    _x  leftPad 

    // trailing space 
  ,//x
	Pad{ 
int16 
x

    `tab	here`  ,
	} , i64 charz

    @calculatedFrom(

""abc""

    )  ,
} options {

    a1= 42
Packet = true ;  // packet A { u8 x, }
	Foo =
	'0'

    As

=true

    ; 	 /// triple
    Foo = zchar[
    3	]
	;}packet 
a1
    { 
@calculatedFrom(

""abc""//x

)  metadata

    ,
	@rightPad
    ('0'
    ) Z9_
,  @lengthOf(  packetx
)
	o@lengthOf(
Header)  `it's`,char[]
	int
	@lengthOf( msg_type) , }

")).
Eval vm_compute in ("<<<M3720>>>" ++ check (runes_of_ascii "packet x_y_z {
    u16 a1,
}

MetaData MetaDataX {
    char[] uint8x,
    int64 zchar,
    charz pack `crlf
    line`,//x
    float32 _x `// not a comment`,
    lengthOf stringy,
}

packet pack {
    u8 lengthOf @lengthOf(u8x) `100% of %d`,
    repeat i64 Z9_,
    zchar[255] o @calculatedFrom(""a	b"") ``,
    match string_ as a1 {
        ""CRC32"" : A,
        [""1"", ""{,}""] : roots,
        [
            255, 4294967296, 42, 1, 255,
            ""// no comment"", 1, ""x y""
        ] : u8x,
        007 : As,
        [
            """ ++ [28040; 24687]%N ++ runes_of_ascii """, 0123456789, """ ++ [128512]%N ++ runes_of_ascii """, ""a\\"", 007,
            ""// no comment"", 10, 3
        ] : u,
        1 : zchar,
    },
    uint8 packetx `100% of %d`,
    @rightPad()
    char[1] Header,
}")).
Eval vm_compute in ("<<<M947>>>" ++ check (runes_of_ascii "packet
    //	t
    tag{ @tag( // trailing space 
1
    ) @calculatedFrom( ""abc"" ) char[]
Logon  ,char[] Logon@calculatedFrom(
""a\\""), uint8x {
// a // b
//
char[] float ,repeat char[] zchar
, match f32a as f32a
{
    ""abc"" : options1
,007 : _x 10
// c
// packet A { u8 x, }
:
BodyLength ,
} ,
},@lengthOf( f32a )
@lengthOf( Header
    )
    @lengthOf(msg_type
) repeat Logon i64_ , @calculatedFrom(
""" ++ [28040; 24687]%N ++ runes_of_ascii """) repeat int roots , /// triple
@lengthOf( zchar ) i16
    stringy
@calculatedFrom( ""it's"")
    `u8 x,`
,	@calculatedFrom(// @lengthOf(
""{,}"" ) match string_
as MetaDataX{
[
""// no comment"" //x
,
    007 ]	: i8i8, [ 1 // c
, ""packet""]: trueish , } ,
//
/// triple
}")).
Eval vm_compute in ("<<<M545>>>" ++ check (runes_of_ascii "
root packet Z9_ {f64 _x
    /// triple
    ,	@rightPad ( )
char
    string_,
    i8i8 @lengthOf( // c
u8x)
,
    repeat
    /// triple
    u32
f32a,
    match trueish as
calculatedFrom
// `tick` ""quote"" 'q'
//
{ ""1"" : float, }
, repeat // @lengthOf(
zchar[  3 ]packetx `100% of %d` , repeat falsey
    , match crc as Packet { [ ""CRC32""
    // 50% %s
    ]:
    // packet A { u8 x, }
    Z9_}
    , @tag(
//
// 50% %s
4294967296 // a // b
) o
@calculatedFrom(
""" ++ [233]%N ++ runes_of_ascii "t" ++ [233]%N ++ runes_of_ascii """ )
,
    repeat  o  ,
}
    packet stringy {}packet options1
    //x
    {
    string a1
@calculatedFrom(""// no comment"" ) `doc` , } packet
    matchKey// " ++ [128512]%N ++ runes_of_ascii " emoji
{ char[ 00
] uint8x,	}
")).
Eval vm_compute in ("<<<M3456>>>" ++ check (runes_of_ascii "options {
    StringPrefixLenType = u64;
    ArrayPrefixLenType = u16;
}
packet Heartbeat {
    uint32 Side2,
    u8 OrderId,
    string Tail,
    InPx95 {
        char[3] Note,
        char[2] count,
        repeat InOrderid76 {
            char[12] f1,
        },
        uint8 lastPx,
        char[] seqNo,
    },
}
packet Leg {
    zchar[5] tag7,
    Heartbeat,
}
root packet Reject {
    u8 Ref,
    uint8 Flags,
    repeat Leg,
    zchar[1] venue,
    zchar[9] clOrdID,
    u8 Tail,
    u32 price @lengthOf(Body),
    match Tail as Body {
        84 : Heartbeat,
        6 : Leg,
    },
    u32 Note @calculatedFrom(""CRC32""),
}
")).
Eval vm_compute in ("<<<M3780>>>" ++ check (runes_of_ascii "packet x {@lengthOf(

    x
    ) 
repeat char[]  chars
    `{ , }`
,	}
	root

    packet
MetaDataX

    {
    u128 @calculatedFrom(  ""{,}"" 
    // packet A { u8 x, }
// trailing space 
	)
    , repeat char[] Logon`tab	here`,

    x_y_z{

    uint32

MetaDataX
@calculatedFrom( 
""a\\"" ), }  ,	// `tick` ""quote"" 'q'
    	i64 Pad  
  //	t
  `a\` ,

    }

    packet rootA {

repeat MetaDataX tag  `" ++ [28040; 24687; 31867; 22411]%N ++ runes_of_ascii "` ,
repeat 
u8x  charz
,	@calculatedFrom(""CRC32"" 
) falsey
{  uint32
	Foo
    ,	repeat float64

uint8x,
	a1@lengthOf(
    string_ ) 	 // trailing space 
	, }
, 	 // `tick` ""quote"" 'q'
} ")).
Eval vm_compute in ("<<<M956>>>" ++ check (runes_of_ascii "packet tag
{@tag( 10  ) // " ++ [27880; 37322]%N ++ runes_of_ascii "
match
float
as
    // trailing space 
    int  { ""a\""b"" : //x
msg_type
// `tick` ""quote"" 'q'
// packet A { u8 x, }
,
""a\""b"" : body, [ ""a\""b""
    ,
65535 , ""a	b"" ] :  Foo // c
, 255:// `tick` ""quote"" 'q'
trueish , [
    0123456789, // a // b
0123456789
] :
leftPad, [ ""abc"", 7
    ,0123456789 ,
    ""a\\"" ,""a\\"" , ""1"" , ""packet""	, // 50% %s
""{,}""]  : repeatCount , }
,
repeat u8x { float32 len@lengthOf( options1
) `line1
line2` , },@tag( //x
007 ) @leftPad ('\x00'
)	char[00
]As// " ++ [27880; 37322]%N ++ runes_of_ascii "
,@calculatedFrom( ""\" ++ [233]%N ++ runes_of_ascii """	) // a // b
string i64_ ,	char[]f32a, }
")).
Eval vm_compute in ("<<<M4339>>>" ++ check (runes_of_ascii "  packet BodyLength // `tick` ""quote"" 'q'
	{
Foo BodyLength, char[]int

    @calculatedFrom(	""// no comment"") ,	match
pack	as

    i8i8 
    // c
    // c
{""a\""b"" 
: 

    // c
//x
    	rootA	, 
}, }
MetaData
	pack	{
pack
    packetx// `tick` ""quote"" 'q'
	, 
i8
f32a ,
    u64 MetaDataX
,
	} options

    {  tag 
=/// triple
      true

// a // b
;falsey
	= 
true // " ++ [128512]%N ++ runes_of_ascii " emoji

  trueish
    =

    ""1"" 
;
    T
    // 50% %s
	=

    7
Z9_	=
	'0'	// `tick` ""quote"" 'q'
    ;  }  options { 
leftPad
	= true;options1	=
float64  Header
=

' '  }// " ++ [27880; 37322]%N ++ runes_of_ascii "
 
")).
Eval vm_compute in ("<<<M504>>>" ++ check (runes_of_ascii "packet i8i8
{match
Pad as u8x {
""CRC32""
    // @lengthOf(
    : metadata ,
[ 7 , 65535// c
] : matchKey/// triple
,
} , metadata
@calculatedFrom(
    //	t
    ""// no comment""// a // b
)	, uint32
f32a `
` // 50% %s
,
@tag(255)	@tag( 1 ) @leftPad ( //
' '
    )int32 Foo
    `100% of %d` ,
    string falsey @lengthOf(i64_) , @calculatedFrom( ""\n""
)i8i8
`{ , }`	, lengthOf u8x , @lengthOf(
    // @lengthOf(
    uint8x)
MetaDataX // " ++ [128512]%N ++ runes_of_ascii " emoji
{ repeat A i64_ `" ++ [233]%N ++ runes_of_ascii "` ,} , a1`u8 x,` , Z9_@calculatedFrom(
// c
/// triple
""\" ++ [233]%N ++ runes_of_ascii """ ) // a // b
, }
")).
Eval vm_compute in ("<<<M1337>>>" ++ check (runes_of_ascii "packet
    x	{ @lengthOf( x
    // " ++ [128512]%N ++ runes_of_ascii " emoji
    ) // `tick` ""quote"" 'q'
match _x as
    o { """ ++ [28040; 24687]%N ++ runes_of_ascii """ :
    crc, ""a	b""
    :tag, 007 : // " ++ [128512]%N ++ runes_of_ascii " emoji
packetx , [ // " ++ [128512]%N ++ runes_of_ascii " emoji
""x y"" ] : options1
,}	,
    @calculatedFrom(  ""a	b""
    )match string_  as tag  {007
//
//x
:  uint8x ""// no comment""
:
i64_
    , 007: uint8x
    ,
}
, }
packet calculatedFrom { repeat
    pack {charz options1 `" ++ [233]%N ++ runes_of_ascii "` ,	} ,
    // `tick` ""quote"" 'q'
    msg_type
{ // @lengthOf(
char[] crc
    //x
    , options1`" ++ [233]%N ++ runes_of_ascii "`,metadata body `100% of %d` ,} ,}

")).
Eval vm_compute in ("<<<M1126>>>" ++ check (runes_of_ascii "packet
i8i8 // " ++ [128512]%N ++ runes_of_ascii " emoji
{@calculatedFrom( ""abc""
    ) match _x  as trueish {
[
007 ,4294967296 , 4294967296 ] : // trailing space 
uint8x ,""{,}"" :
stringy ,
4294967296
    // c
    : packetx ,
    //	t
    [ // trailing space 
10
    , 1
]// trailing space 
:
chars
, """"
:
    u8x
, }, @calculatedFrom(
""" ++ [28040; 24687]%N ++ runes_of_ascii """ )
u32 u @lengthOf( u128 ) ,
As @calculatedFrom(""a	b"" )
    ,@leftPad (' '
) @calculatedFrom(	""1""
    )@calculatedFrom( ""\" ++ [233]%N ++ runes_of_ascii """
    ) //
zchar[ 1 // packet A { u8 x, }
]
MetaDataX
,}")).
Eval vm_compute in ("<<<M3319>>>" ++ check (runes_of_ascii "root packet trueish // c2
{ // c3a
  // c3b
} // c4
MetaData // c5a
  // c5b
x_y_z // c6
{
    // c7
zchar[ 7 // c9
]
    // c10
body , // c12
BodyLength // c13a
  // c13b
_x // c14
, // c15
i8i8 As ,
    // c18
i8 Foo // c20
, } packet // c23a
  // c23b
f32a // c24
{ @lengthOf(
    // c26
x ) // c28
match // c29
Foo // c30
as // c31
trueish // c32a
  // c32b
{ // c33a
  // c33b
10 : // c35
f32a // c36a
  // c36b
, // c37a
  // c37b
}
    // c38
,
    // c39
} ")).
Eval vm_compute in ("<<<M517>>>" ++ check (runes_of_ascii "root packet
crc{
@tag(	255  ) @lengthOf( len ) @rightPad ( '0'
)repeatCount
    {
char[]
a1 ,u8x @lengthOf( i64_ ) `" ++ [233]%N ++ runes_of_ascii "` // @lengthOf(
, },
//	t
// 50% %s
@leftPad
(
    // trailing space 
    ' ' ) x metadata , calculatedFrom {
A Logon , roots { i64 T@calculatedFrom( ""CRC32""
    // packet A { u8 x, }
    )	, } , repeat packetx{match tag as body{ [	""1""
    ,  ""CRC32"" ] : x ,} , } // packet A { u8 x, }
, repeat lengthOf T `u8 x,` , }
    , }")).
Eval vm_compute in ("<<<M3504>>>" ++ check (runes_of_ascii "

  packet
    metadata { zchar[
1 ]
	stringy
, repeat float uint8x 
,	@tag( 255  )

// `tick` ""quote"" 'q'

	zchar 
	// `tick` ""quote"" 'q'
		@lengthOf(_x
)  ,
tag@lengthOf(/// triple
	i64_

)

, repeat
	repeatCount	{

    char o 
    // `tick` ""quote"" 'q'
    , char[ 
7 ] T,
    }  ,
}root
packet
    u8x { @tag(

0
	) repeat falsey
	string_  ,
@calculatedFrom( """"

)
    lengthOf

    ,
u16
    calculatedFrom
, } ")).
Eval vm_compute in ("<<<M4318>>>" ++ check (runes_of_ascii "packet Frame {
    u8 HK,
    u8 BK,
    u8 TK,
    match HK as Hdr {
        1 : HdrA,
        2 : HdrB,
    },
    match BK as Body {
        1 : BodyA,
        2 : BodyB,
    },
    match TK as Trl {
        1 : TrlA,
    },
}

packet HdrA {
    u8 a,
}

packet HdrB {
    u16 b,
}

packet BodyA {
    u32 c,
}

packet BodyB {
    u64 d,
}

packet TrlA {
    u8 e,
}

root packet Msg {
    Frame,
    u8 x,
}")).
Eval vm_compute in ("<<<M1244>>>" ++ check (runes_of_ascii "packet	zchar{
} options  { int = ""{,}""; } packet zchar
{@calculatedFrom(""1"" )
    match
    trueish
as falsey {""it's"" :x [ 00 ,
    255 , ""`tick`""
,
    // trailing space 
    007
    // 50% %s
    ,
    10 , 4294967296 , ""a\\""	,""CRC32""
    ] :	float
    , } // trailing space 
, match Logon as o
{
007 : lengthOf 255 : zchar
    ,
}
    , u64// trailing space 
packetx //
`tab	here` , } 	 ")).
Eval vm_compute in ("<<<M728>>>" ++ check (runes_of_ascii "MetaData  len{
}
packet BodyLength{ char[
42
    ]A@calculatedFrom(""// no comment"" ) `it's`// 50% %s
,match  Header as calculatedFrom
{ ""`tick`"" :
    o  , } ,
//x
//	t
repeat
packetx
// packet A { u8 x, }
// c
,}
packet u { }packet x_y_z { @lengthOf(repeatCount
) char[] charz @calculatedFrom(
    ""it's"" // 50% %s
)`` ,
    }
packet
calculatedFrom // `tick` ""quote"" 'q'
{}")).
Eval vm_compute in ("<<<M3555>>>" ++ check (runes_of_ascii "options {
}

options {
    As = true
    As = char[0123456789]
    calculatedFrom = ""\n"";
    i64_ = true;
    // c
    //
}

root packet repeatCount {
    @rightPad('\x00')
    match Z9_ as zchar {
        ""\n"" : Pad,
        // 50% %s
        ""CRC32"" : options1,
        ""x y"" : o,
        7 : A,
    },
}

packet asx {
    zchar u128 `crlf
        line`,
}")).
Eval vm_compute in ("<<<M807>>>" ++ check (runes_of_ascii "root
packet// packet A { u8 x, }
repeatCount
{
    repeat calculatedFrom {char[4294967296 ] // " ++ [27880; 37322]%N ++ runes_of_ascii "
msg_type `it's`
//
/// triple
, } , match // " ++ [27880; 37322]%N ++ runes_of_ascii "
repeatCount as u8x {  [ 0
, ""a	b"" , ""a\\"" , ""CRC32"" , ""`tick`"" , ""a\""b"" ] : tag
,
// `tick` ""quote"" 'q'
// trailing space 
7
    // " ++ [27880; 37322]%N ++ runes_of_ascii "
    :Z9_ 3 :leftPad}
// " ++ [128512]%N ++ runes_of_ascii " emoji
// packet A { u8 x, }
,}
")).
Eval vm_compute in ("<<<M4368>>>" ++ check (runes_of_ascii "packet f32a {
    @lengthOf(stringy)
    // trailing space 
    char[42] body,
    trueish o,
    char[] rootA @calculatedFrom(""// no comment"") ``,
    calculatedFrom `crlf
    line`,
}

MetaData o {
    i8i8 i8i8 `100% of %d`,
    msg_type Z9_,// " ++ [27880; 37322]%N ++ runes_of_ascii "
    uint32 matchKey,// a // b
}

options {
    crc = char[];
}// @lengthOf(")).
Eval vm_compute in ("<<<M399>>>" ++ check (runes_of_ascii "root packet  calculatedFrom { i64_
Packet `crlf
line` ,
zchar[
    42 ] Foo @lengthOf( /// triple
tag )
`tab	here`,
    }packet
As {
    // @lengthOf(
    zchar[  42 ] options1 , u128 @calculatedFrom( ""{,}"") , u8 matchKey  `" ++ [233]%N ++ runes_of_ascii "`
, } packet chars { @tag( // a // b
3 ) i16 uint8x , @tag( 10 /// triple
) f32a ,  }
")).
Eval vm_compute in ("<<<M1208>>>" ++ check (runes_of_ascii "MetaData chars // trailing space 
{ zchar[  255
]
uint8x ,  u8
body
, // " ++ [27880; 37322]%N ++ runes_of_ascii "
char[ 1] // packet A { u8 x, }
A
//	t
// a // b
, float32 As
    `` // @lengthOf(
, BodyLength roots //
`// not a comment` ,
    } options {Pad
=42 ;	pack
=	true pack = false ; // 50% %s
len = ' '// trailing space 
; }
")).
Eval vm_compute in ("<<<M1335>>>" ++ check (runes_of_ascii "packet
    // a // b
    calculatedFrom
{ @calculatedFrom(
    ""1"" )
repeat options1
{ crc @lengthOf(	i8i8 ) `it's` , i8 lengthOf
    `tab	here` ,
    zchar @lengthOf( pack) , }
, char[ 42 ] trueish @lengthOf( // " ++ [27880; 37322]%N ++ runes_of_ascii "
Packet ) ,zchar[10 ] a1  , }MetaData // c
lengthOf { string float , }
")).
Eval vm_compute in ("<<<M1133>>>" ++ check (runes_of_ascii "MetaData	_x// " ++ [27880; 37322]%N ++ runes_of_ascii "
{// @lengthOf(
} options
{i64_ = ' ' ;calculatedFrom	= 00 uint8x
=	i16;
leftPad = '0'
    }  packet
// " ++ [128512]%N ++ runes_of_ascii " emoji
// " ++ [128512]%N ++ runes_of_ascii " emoji
As {
@lengthOf(_x)@tag(
007 ) @calculatedFrom( """ ++ [233]%N ++ runes_of_ascii "t" ++ [233]%N ++ runes_of_ascii """
    ) zchar[
0]f32a // trailing space 
@calculatedFrom( ""1"")
    `a\` ,
} // " ++ [128512]%N ++ runes_of_ascii " emoji")).
Eval vm_compute in ("<<<M1642>>>" ++ check (runes_of_ascii "// 50% %s
packet	a1
    { zchar[
// a // b
// 50% %s
007]
T `it's`
    ,@rightPad
    // a // b
    (
'\x00')
    o repeatCount , }  packet Logon {  }packet	Logon //x
{ repeat // " ++ [128512]%N ++ runes_of_ascii " emoji
uint16 uint16 u128
    //
    `a\`,
falsey
@calculatedFrom(""packet"" ) ,
    } 	 ")).
Eval vm_compute in ("<<<M1679>>>" ++ check (runes_of_ascii "// 50% %s
packet	a1
    { zchar[
// a // b
// 50% %s
007]
T `it's`
    ,@rightPad
    // a // b
    (
'\x00')
    o repeatCount , }  packet Logon {  }packet	Logon //x
{ repeat // " ++ [128512]%N ++ runes_of_ascii " emoji
uint16 u128
    //
    `a\`,
falsey
@calculatedFrom(""packet"" true ,
    } 	 ")).
Eval vm_compute in ("<<<M1533>>>" ++ check (runes_of_ascii "// 50% %s
packet	a1
    { 007
// a // b
// 50% %s
zchar[ ]
T `it's`
    ,@rightPad
    // a // b
    (
'\x00')
    o repeatCount , }  packet Logon {  }packet	Logon //x
{ repeat // " ++ [128512]%N ++ runes_of_ascii " emoji
uint16 u128
    //
    `a\`,
falsey
@calculatedFrom(""packet"" ) ,
    } 	 ")).
Eval vm_compute in ("<<<M1613>>>" ++ check (runes_of_ascii "// 50% %s
packet	a1
    { zchar[
// a // b
// 50% %s
007]
T `it's`
    ,@rightPad
    // a // b
    (
'\x00')
    o repeatCount , }  packet Logon }  {packet	Logon //x
{ repeat // " ++ [128512]%N ++ runes_of_ascii " emoji
uint16 u128
    //
    `a\`,
falsey
@calculatedFrom(""packet"" ) ,
    } 	 ")).
Eval vm_compute in ("<<<M1656>>>" ++ check (runes_of_ascii "// 50% %s
packet	a1
    { zchar[
// a // b
// 50% %s
007]
T `it's`
    ,@rightPad
    // a // b
    (
'\x00')
    o repeatCount , }  packet Logon {  }packet	Logon //x
{ repeat // " ++ [128512]%N ++ runes_of_ascii " emoji
uint16 u128
    //
    `a\`
falsey
@calculatedFrom(""packet"" ) ,
    } 	 ")).
Eval vm_compute in ("<<<M1626>>>" ++ check (runes_of_ascii "// 50% %s
packet	a1
    { zchar[
// a // b
// 50% %s
007]
T `it's`
    ,@rightPad
    // a // b
    (
'\x00')
    o repeatCount , }  packet Logon {  }packet	 //x
{ repeat // " ++ [128512]%N ++ runes_of_ascii " emoji
uint16 u128
    //
    `a\`,
falsey
@calculatedFrom(""packet"" ) ,
    } 	 ")).
Eval vm_compute in ("<<<M1685>>>" ++ check (runes_of_ascii "// 50% %s
packet	a1
    { zchar[
// a // b
// 50% %s
007]
T `it's`
    ,@rightPad
    // a // b
    (
'\x00')
    o repeatCount , }  packet Logon {  }packet	Logon //x
{ repeat // " ++ [128512]%N ++ runes_of_ascii " emoji
uint16 u128
    //
    `a\`,
falsey
@calculatedFrom(""packet"" )")).
Eval vm_compute in ("<<<M1323>>>" ++ check (runes_of_ascii "  MetaData
body { asx zchar,/// triple
crc leftPad `" ++ [28040; 24687; 31867; 22411]%N ++ runes_of_ascii "`, i8 float ,
//	t
// @lengthOf(
f32a  repeatCount, i8i8 i8i8 `" ++ [233]%N ++ runes_of_ascii "` ,} packet packetx
{
@lengthOf(
i8i8) char[] rootA	`// not a comment`
, @tag( 255 ) zchar[1 ]
    As
@lengthOf( asx	) , }
")).
Eval vm_compute in ("<<<M3575>>>" ++ check (runes_of_ascii "  MetaData
Logon

    {len u

,  uint32
	BodyLength// c
  ,

charz
	lengthOf
`it's` ,
	uint32

a1 `crlf
line`

    ,
Logon // trailing space 
	  pack	// c
	  `// not a comment`  , msg_type A	// `tick` ""quote"" 'q'
	`
` , }
")).
Eval vm_compute in ("<<<M4297>>>" ++ check (runes_of_ascii "
// " ++ [27880; 37322]%N ++ runes_of_ascii "
packet
rootA
    {

    string
    // 50% %s
	Pad
    `{ , }` ,  }

root packet  // trailing space 

	repeatCount
    {	@lengthOf( Header  //x
  )int64 As
`{ , }`
, }options
{
charz 
=
    false
}	/// triple
")).
Eval vm_compute in ("<<<M1206>>>" ++ check (runes_of_ascii "packet  lengthOf{
@tag( 65535 )	match crc as
    i8i8 {[65535 , 42 , ""it's"", ""x y"",
    7,
    // trailing space 
    ""a	b""
] : float , 00
: MetaDataX , 00 : options1 // 50% %s
,
1	: a1,0 : packetx ,
    },
    }
")).
Eval vm_compute in ("<<<M10>>>" ++ check (runes_of_ascii "
packet As {
// " ++ [27880; 37322]%N ++ runes_of_ascii "
// " ++ [27880; 37322]%N ++ runes_of_ascii "
Foo , @lengthOf( f32a ) float32 a1 ,	string pack @lengthOf( i64_
)`crlf
line`, @rightPad () @leftPad
    ( '\x00'
    ) @calculatedFrom(
""// no comment"") repeat Header charz , }
")).
Eval vm_compute in ("<<<M1289>>>" ++ check (runes_of_ascii "options {
trueish =42 int =
// trailing space 
// " ++ [27880; 37322]%N ++ runes_of_ascii "
' '
Packet
    = 007 ;
asx = string
    ; }	root packet u8x{}MetaData
//x
// packet A { u8 x, }
int
{ string charz, // `tick` ""quote"" 'q'
}")).
Eval vm_compute in ("<<<M3904>>>" ++ check (runes_of_ascii "// c
options {
    // a // b
}

packet chars {
    Foo repeatCount,
}

root packet BodyLength {
    // c
    @leftPad()
    repeat x_y_z {
        string_ metadata `two words`,
    },
}")).
Eval vm_compute in ("<<<M268>>>" ++ check (runes_of_ascii "  packet
stringy
    {	@tag(  0 ) @calculatedFrom(
    // 50% %s
    ""1"") @calculatedFrom(
"""")string chars
    `a\` , @calculatedFrom(
    """ ++ [28040; 24687]%N ++ runes_of_ascii """
) asx metadata
    `" ++ [233]%N ++ runes_of_ascii "`
    , }")).
Eval vm_compute in ("<<<M1056>>>" ++ check (runes_of_ascii "packet// " ++ [128512]%N ++ runes_of_ascii " emoji
a1{}
MetaData u{
} options {
    } MetaData msg_type { Logon BodyLength // c
,  i8i8
    BodyLength
`100% of %d` , string
Packet,
} options{//	t
}

")).
Eval vm_compute in ("<<<M822>>>" ++ check (runes_of_ascii "
MetaData
x{
char[] falsey ,
string a1 ,Foo matchKey
    `u8 x,`
,  calculatedFrom
    metadata `100% of %d`, o	u `" ++ [233]%N ++ runes_of_ascii "`, }	packet
rootA	{ }
// packet A { u8 x, }
")).
Eval vm_compute in ("<<<M2051>>>" ++ check (runes_of_ascii "MetaData BodyLength BodyLength
{ int8 Foo
, string
    MetaDataX , float zchar ,pack options1
,asx string_, }
packet u8x {Foo@lengthOf(charz )
`" ++ [28040; 24687; 31867; 22411]%N ++ runes_of_ascii "`,  }
")).
Eval vm_compute in ("<<<M3968>>>" ++ check (runes_of_ascii "packet leftPad { @leftPad

    (	'0' )
    i64_ 
`100% of %d`, repeat// 50% %s
  i8 chars
    ,

    }	MetaData f32a{ 	 // packet A { u8 x, }

} ")).
Eval vm_compute in ("<<<M1116>>>" ++ check (runes_of_ascii "packet BodyLength {f64 rootA , // 50% %s
@calculatedFrom( ""\n""
)@tag( 0 )
    //	t
    repeat char[ 7]repeatCount	, } root packet
options1 {  }
")).
Eval vm_compute in ("<<<M2112>>>" ++ check (runes_of_ascii "MetaData BodyLength
{ int8 Foo
, string
    MetaDataX , float zchar ,pack ,
options1 asx string_, }
packet u8x {Foo@lengthOf(charz )
`" ++ [28040; 24687; 31867; 22411]%N ++ runes_of_ascii "`,  }
")).
Eval vm_compute in ("<<<M2092>>>" ++ check (runes_of_ascii "MetaData BodyLength
{ int8 Foo
, string
    MetaDataX , zchar float ,pack options1
,asx string_, }
packet u8x {Foo@lengthOf(charz )
`" ++ [28040; 24687; 31867; 22411]%N ++ runes_of_ascii "`,  }
")).
Eval vm_compute in ("<<<M2093>>>" ++ check (runes_of_ascii "MetaData BodyLength
{ int8 Foo
, string
    MetaDataX , root zchar ,pack options1
,asx string_, }
packet u8x {Foo@lengthOf(charz )
`" ++ [28040; 24687; 31867; 22411]%N ++ runes_of_ascii "`,  }
")).
Eval vm_compute in ("<<<M149>>>" ++ check (runes_of_ascii "options { options1
    =
    // packet A { u8 x, }
    float64
    leftPad =
true ; MetaDataX
=char[ 00 ] ;roots=false } packet string_{ }
")).
Eval vm_compute in ("<<<M2188>>>" ++ check (runes_of_ascii "MetaData BodyLength
{ int8 Foo
, string
    MetaDataX , float zchar ,pack options1
,asx string_, }
packet u8x {Foo@lengthOf(charz )
`" ++ [28040; 24687; 31867; 22411]%N ++ runes_of_ascii "`,")).
Eval vm_compute in ("<<<M4056>>>" ++ check (runes_of_ascii "root packet T {
    @leftPad('0')
    repeat leftPad {
        char[3] roots,
    },
}

packet _x {
    int32 int @calculatedFrom(""\n""),
}")).
Eval vm_compute in ("<<<M2319>>>" ++ check (runes_of_ascii "options
    {
x_y_z// " ++ [27880; 37322]%N ++ runes_of_ascii "
= 10 ; }
packet body {
    @calculatedFrom(
// trailing space 
// " ++ [27880; 37322]%N ++ runes_of_ascii "
""1""
)	match T as Foo
    {
255 :T , } }
,}")).
Eval vm_compute in ("<<<M967>>>" ++ check (runes_of_ascii "
options { // packet A { u8 x, }
}options
    {
trueish
=char[] ;
uint8x
    // packet A { u8 x, }
    =i64 ; As = false; // 50% %s
}")).
Eval vm_compute in ("<<<M2225>>>" ++ check (runes_of_ascii "options
    {
x_y_z// " ++ [27880; 37322]%N ++ runes_of_ascii "
10 = ; }
packet body {
    @calculatedFrom(
// trailing space 
// " ++ [27880; 37322]%N ++ runes_of_ascii "
""1""
)	match T as Foo
    {
255 :T , }
,}")).
Eval vm_compute in ("<<<M1946>>>" ++ check (runes_of_ascii "
packet leftPad {
@leftPad '0')
u32
i64_ `100% of %d` ,repeat// 50% %s
i8 chars
    ,
} MetaData
    f32a
{ // packet A { u8 x, }
}")).
Eval vm_compute in ("<<<M524>>>" ++ check (runes_of_ascii "// packet A { u8 x, }
packet roots{ repeat	body
// `tick` ""quote"" 'q'
// @lengthOf(
, } MetaData asx {
    char[7 ] zchar  `{ , }`,}
")).
Eval vm_compute in ("<<<M4312>>>" ++ check (runes_of_ascii "  MetaData

    packetx
{  char[]

    x 
	    // `tick` ""quote"" 'q'
	//
	, body
	Z9_  //	t
,
    } 
    // trailing space ")).
Eval vm_compute in ("<<<M687>>>" ++ check (runes_of_ascii "// " ++ [128512]%N ++ runes_of_ascii " emoji
MetaData packetx { matchKey len `say ""hi""` , } //	t
options// trailing space 
{	o = true //x
;
    }	options { }
//x
")).
Eval vm_compute in ("<<<M169>>>" ++ check (runes_of_ascii "packet
    // `tick` ""quote"" 'q'
    asx {
    zchar[
007] Pad
`100% of %d` //x
,
}
root packet u128 { char[ 65535] crc , }")).
Eval vm_compute in ("<<<M1099>>>" ++ check (runes_of_ascii "MetaData packetx { i64_
    f32a ``,} options// packet A { u8 x, }
{  u8x = """ ++ [233]%N ++ runes_of_ascii "t" ++ [233]%N ++ runes_of_ascii """ } options
    { Foo =true x_y_z = 10
}
")).
Eval vm_compute in ("<<<M1883>>>" ++ check (runes_of_ascii "packet o {
    roots `it's`
// trailing space 
//x
, char[ 42
    ]  A, // " ++ [27880; 37322]%N ++ runes_of_ascii "
f64 f64
repeatCount
    `crlf
line`
,}")).
Eval vm_compute in ("<<<M1898>>>" ++ check (runes_of_ascii "packet o {
    roots `it's`
// trailing space 
//x
, char[ 42
    ]  A, // " ++ [27880; 37322]%N ++ runes_of_ascii "
f64
repeatCount
    `crlf
line`
, ,}")).
Eval vm_compute in ("<<<M214>>>" ++ check (runes_of_ascii "packet rootA {
    // a // b
    } options {o
= false ; asx
=char[ 10 ] // `tick` ""quote"" 'q'
}
    options	{	}
")).
Eval vm_compute in ("<<<M1867>>>" ++ check (runes_of_ascii "packet o {
    roots `it's`
// trailing space 
//x
, char[ 42
      A, // " ++ [27880; 37322]%N ++ runes_of_ascii "
f64
repeatCount
    `crlf
line`
,}")).
Eval vm_compute in ("<<<M1832>>>" ++ check (runes_of_ascii "i64 o {
    roots `it's`
// trailing space 
//x
, char[ 42
    ]  A, // " ++ [27880; 37322]%N ++ runes_of_ascii "
f64
repeatCount
    `crlf
line`
,}")).
Eval vm_compute in ("<<<M4310>>>" ++ check (runes_of_ascii "
packet 
        //
  // " ++ [128512]%N ++ runes_of_ascii " emoji
  T

{

    char[] repeatCount @lengthOf( a1
)
	`u8 x,`	, /// triple
  } ")).
Eval vm_compute in ("<<<M1443>>>" ++ check (runes_of_ascii "packet
T
{ match repeatCount as	calculatedFrom calculatedFrom
{ [65535 ]	: As	,
} ,}
// trailing space 
")).
Eval vm_compute in ("<<<M536>>>" ++ check (runes_of_ascii "MetaData repeatCount
{ char[
    // packet A { u8 x, }
    4294967296 ] chars `// not a comment` , }
")).
Eval vm_compute in ("<<<M1480>>>" ++ check (runes_of_ascii "packet
T
{ match repeatCount as	calculatedFrom
{ [65535 ]	: As	@lengthOf(
} ,}
// trailing space 
")).
Eval vm_compute in ("<<<M232>>>" ++ check (runes_of_ascii "packet A { repeat crc uint8x // @lengthOf(
,
@calculatedFrom( ""it's""
) uint64 Logon `a\`,
    }")).
Eval vm_compute in ("<<<M190>>>" ++ check (runes_of_ascii "packet x {
    }packet repeatCount {
    charz charz , }
    // 50% %s
    packet trueish{ }
")).
Eval vm_compute in ("<<<M4158>>>" ++ check (runes_of_ascii "MetaData 
Foo {
zchar[ 0

]matchKey
,	} options
	{	lengthOf
	= i32 
u
	=
    00
	; }	// c
")).
Eval vm_compute in ("<<<M368>>>" ++ check (runes_of_ascii "//x
packet /// triple
falsey{Packet `tab	here` , // @lengthOf(
}options {
    } // " ++ [128512]%N ++ runes_of_ascii " emoji")).
Eval vm_compute in ("<<<M1444>>>" ++ check (runes_of_ascii "packet
T
{ match repeatCount as	{
calculatedFrom [65535 ]	: As	,
} ,}
// trailing space 
")).
Eval vm_compute in ("<<<M1460>>>" ++ check (runes_of_ascii "packet
T
{ match repeatCount as	calculatedFrom
{ [root ]	: As	,
} ,}
// trailing space 
")).
Eval vm_compute in ("<<<M4408>>>" ++ check (runes_of_ascii "
packet
A{ match k
	as n
{

[""a"",""bb""

,

""c c"", 
""d"" ]

    :	B 2

    :  C
} , }
")).
Eval vm_compute in ("<<<M1796>>>" ++ check (runes_of_ascii "options{  lengthOf =//x
i16;
    BodyLength = 0 ; pack
= false;
    A = char[ 3 3 ] }")).
Eval vm_compute in ("<<<M3358>>>" ++ check (runes_of_ascii "options {
    LittleEndian = true;
}
root packet P {
    repeat char cs,
    u8 x,
}
")).
Eval vm_compute in ("<<<M2961>>>" ++ check (runes_of_ascii "packet A {
  match k as n {
    [1, 22, 007, 4, 5, 66, 7, 8, 9] : B
    2 : C
  },
}")).
Eval vm_compute in ("<<<M1513>>>" ++ check (runes_of_ascii "packet
T
{ match repeatCount as	caf" ++ [233]%N ++ runes_of_ascii "_1
{ [65535 ]	: As	,
} ,}
// trailing space 
")).
Eval vm_compute in ("<<<M2918>>>" ++ check (runes_of_ascii "packet A {
  match k as n {
    [""a"", ""bb"", 007, ""d"", ""e""] : B,
    2 : C
  },
}")).
Eval vm_compute in ("<<<M3250>>>" ++ check (runes_of_ascii "MetaData Foo {
// c
zchar[ 0 ] matchKey , } options { lengthOf = i32 u = 00 ; }")).
Eval vm_compute in ("<<<M3404>>>" ++ check (runes_of_ascii "root packet
	P{
u8 
s_u8
    , repeat u8  r_u8
    ,
    u16	b_len
,

    }
")).
Eval vm_compute in ("<<<M2921>>>" ++ check (runes_of_ascii "packet A {
  match k as n {
    [1, 22, 007, 4, 5, 66] : B,
    2 : C
  },
}")).
Eval vm_compute in ("<<<M2899>>>" ++ check (runes_of_ascii "packet A {
  match k as n {
    [1, ""bb"", 007, ""d""] : B,
    2 : C
  },
}")).
Eval vm_compute in ("<<<M2885>>>" ++ check (runes_of_ascii "packet A {
  match k as n {
    [""a"", ""bb"", ""c c""] : B
    2 : C
  },
}")).
Eval vm_compute in ("<<<M3395>>>" ++ check (runes_of_ascii "root packet P {
    u16 a,
    u32 Sum @calculatedFrom(""CR\
C32""),
}
")).
Eval vm_compute in ("<<<M616>>>" ++ check (runes_of_ascii "// @lengthOf(
packet Packet {
repeat body i64_ `it's`
    ,
    }")).
Eval vm_compute in ("<<<M1150>>>" ++ check (runes_of_ascii "MetaData  calculatedFrom{ char[ 0123456789 ]T  `a\`// a // b
,}
")).
Eval vm_compute in ("<<<M3581>>>" ++ check (runes_of_ascii "packet u8x {
}

MetaData crc {
    char[4294967296] Foo,// c
}")).
Eval vm_compute in ("<<<M3306>>>" ++ check (runes_of_ascii "packet u8x { } MetaData crc { char[
// c
4294967296 ] Foo , }")).
Eval vm_compute in ("<<<M2421>>>" ++ check (runes_of_ascii "MetaData
    calculatedFrom
{ zchar[  10 ]
    As`tab	here`")).
Eval vm_compute in ("<<<M1774>>>" ++ check (runes_of_ascii "options{  lengthOf =//x
i16;
    BodyLength = 0 ; pack
=")).
Eval vm_compute in ("<<<M462>>>" ++ check (runes_of_ascii "packet
    BodyLength
{  @rightPad( ) _x	, // c
} 	 ")).
Eval vm_compute in ("<<<M736>>>" ++ check (runes_of_ascii "root packet A{
int64 Z9_``,} // `tick` ""quote"" 'q'")).
Eval vm_compute in ("<<<M393>>>" ++ check (runes_of_ascii "packet
    trueish // packet A { u8 x, }
{  }

")).
Eval vm_compute in ("<<<M4294>>>" ++ check (runes_of_ascii "packet i8i8 {
    repeat char int,
    // " ++ [27880; 37322]%N ++ runes_of_ascii "
}")).
Eval vm_compute in ("<<<M206>>>" ++ check (runes_of_ascii "  MetaData
    int { }
options{	u8x = 10 }
")).
Eval vm_compute in ("<<<M41>>>" ++ check (runes_of_ascii "root
packet uint8x {}root packet  Pad
{}")).
Eval vm_compute in ("<<<M3236>>>" ++ check (runes_of_ascii "root packet u128 { chars `doc` , }
// c
")).
Eval vm_compute in ("<<<M3839>>>" ++ check (runes_of_ascii "  options  { u8x
= false
} 
      // c")).
Eval vm_compute in ("<<<M2392>>>" ++ check (runes_of_ascii "MetaData
Foo {Header //
pack ,	` } 	 ")).
Eval vm_compute in ("<<<M2778>>>" ++ check (runes_of_ascii "%<,F{FMU9l u3bO/F\<a%PB'oJM=v'RNO%|A")).
Eval vm_compute in ("<<<M3208>>>" ++ check (runes_of_ascii "root // a
 packet // b
 A // c
 { }")).
Eval vm_compute in ("<<<M2608>>>" ++ check (runes_of_ascii "packet A { B { @tag(1) u8 x, }, }")).
Eval vm_compute in ("<<<M3396>>>" ++ check (runes_of_ascii "root packet P {
    string s,
}
")).
Eval vm_compute in ("<<<M2074>>>" ++ check (runes_of_ascii "MetaData BodyLength
{ int8 Foo")).
Eval vm_compute in ("<<<M2453>>>" ++ check (runes_of_ascii "f32 f64 float32 float64 float")).
Eval vm_compute in ("<<<M3344>>>" ++ check (runes_of_ascii "options { u8x // c
= false }")).
Eval vm_compute in ("<<<M430>>>" ++ check (runes_of_ascii "root packet rootA { } // c")).
Eval vm_compute in ("<<<M2812>>>" ++ check (runes_of_ascii "^""/z
" ++ [65533; 4; 65533; 8]%N ++ runes_of_ascii "w!67" ++ [65533; 65533; 65533; 65533; 65533; 65533; 23; 65533; 28; 65533]%N ++ runes_of_ascii "k3")).
Eval vm_compute in ("<<<M2584>>>" ++ check (runes_of_ascii "packet A { x `d` `e`, }")).
Eval vm_compute in ("<<<M408>>>" ++ check (runes_of_ascii "root
packet	a1
{ //
}")).
Eval vm_compute in ("<<<M2675>>>" ++ check (runes_of_ascii "options { a = [1]; }")).
Eval vm_compute in ("<<<M3594>>>" ++ check (runes_of_ascii "options {
    //x
}")).
Eval vm_compute in ("<<<M3132>>>" ++ check (runes_of_ascii "packet A {
}
// c" ++ [8233]%N)).
Eval vm_compute in ("<<<M2640>>>" ++ check (runes_of_ascii "packet A { } root")).
Eval vm_compute in ("<<<M885>>>" ++ check (runes_of_ascii "packet T
{ } 	 ")).
Eval vm_compute in ("<<<M663>>>" ++ check (runes_of_ascii "MetaData u {}
")).
Eval vm_compute in ("<<<M1333>>>" ++ check (runes_of_ascii "options {}

")).
Eval vm_compute in ("<<<M2752>>>" ++ check (runes_of_ascii "'0' : char")).
Eval vm_compute in ("<<<M2433>>>" ++ check (runes_of_ascii "char[ ]")).
Eval vm_compute in ("<<<M2522>>>" ++ check (runes_of_ascii """a\b""")).
Eval vm_compute in ("<<<M2794>>>" ++ check (runes_of_ascii "q&XL ")).
Eval vm_compute in ("<<<M2510>>>" ++ check (runes_of_ascii "//x")).
Eval vm_compute in ("<<<M2525>>>" ++ check (runes_of_ascii """`""")).
Eval vm_compute in ("<<<M2527>>>" ++ check (runes_of_ascii "``")).
Eval vm_compute in ("<<<M15>>>" ++ check (@nil rune)).
