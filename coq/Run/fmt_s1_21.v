From FP Require Import Lexer Parser ShowPT Digest Formatter.
From Coq Require Import String List NArith.
Import ListNotations.
Open Scope string_scope.
Set Printing Width 100000000.
Set Printing Depth 100000000.
Definition show_fres (r : fres) : string :=
  match r with
  | FOk s => "OK:" ++ sh_escaped s ""
  | FErr s => "ERR:" ++ sh_escaped s ""
  | FPanic p => "PANIC:" ++ p
  end.
Definition check (rs : list rune) : string := digest (show_fres (format_res rs)).
Definition full (rs : list rune) : string := show_fres (format_res rs).
Eval vm_compute in ("<<<M2051>>>" ++ check (runes_of_ascii "  options

    {lengthOf
    = 
""CRC32""
;stringy= uint16

    ;u8x
= float32
;
x_y_z  
  // c
  =zchar[007 ]
repeatCount	=""a\""b"";  
      // c

//	t
	}

MetaData trueish 
{
    As roots	`" ++ [28040; 24687; 31867; 22411]%N ++ runes_of_ascii "`
    ,char[
00	]

    Packet 	 // c
    	,

} root packet roots

    {
	int8 Logon
	,  body @lengthOf(	lengthOf  )

`
` ,
@rightPad ('0'	) Packet @calculatedFrom(""x y"" 
)`a\` ,@lengthOf(
	T	)
match	matchKey  as  _x 	 // trailing space 

  { """ ++ [128512]%N ++ runes_of_ascii """

    :	stringy, 
4294967296  :
	x_y_z

    , ""\n""
: leftPad[
	42
	,
	42
,

    ""it's""
	,""\n"" ,	""// no comment"" ]	:	asx
	,

}
,

char[
	10 // trailing space 
  ] BodyLength

    ,
	@leftPad
( 
'0'

    )
char[] 
      /// triple
  Z9_ `crlf
line`
	, string	falsey

    ,
	int16  // c
	  asx
@calculatedFrom( 
""x y""  ),
u128

Z9_
    `it's`  ,	@rightPad 
    // " ++ [128512]%N ++ runes_of_ascii " emoji
  // @lengthOf(
(
'0')	Packet{ 
	// " ++ [128512]%N ++ runes_of_ascii " emoji
	int64
float , repeat leftPad {

repeat
    Z9_
	{
	match T	as
lengthOf
{ ""`tick`""	:

msg_type	""1"" :
x_y_z ,0: chars ,}
, }
,repeat

trueish{zchar[
    255 ]  crc
    `doc`

    , char
	Logon @lengthOf(

    _x 
	    // " ++ [128512]%N ++ runes_of_ascii " emoji
  )
,
    //

a1

`doc`,  
  //x

	//	t
  },

    match

msg_type  as

    zchar { ""it's""  // c
    :
	    /// triple
  // packet A { u8 x, }
  body
,  """ ++ [28040; 24687]%N ++ runes_of_ascii """
:  // `tick` ""quote"" 'q'
    u
    , } ,  }
	,
} ,  }  packet 	 // `tick` ""quote"" 'q'
	As	// " ++ [27880; 37322]%N ++ runes_of_ascii "
	{ @leftPad(
// c
'\x00'
)

@tag(  255
	) @lengthOf( 	 // `tick` ""quote"" 'q'
    o)

zchar[
42] string_ @calculatedFrom(

    ""a\""b""  )	`" ++ [28040; 24687; 31867; 22411]%N ++ runes_of_ascii "`

    ,
	char[]

    repeatCount//	t
	@lengthOf( calculatedFrom
    ) , metadata 
@calculatedFrom(
    ""abc""
    )
`two words` 
, 
	    // `tick` ""quote"" 'q'
	// c
  @lengthOf(

    matchKey

)  match
	packetx
	as 
falsey {
007 :
A

    ,
""1"" :	packetx ,  //
    7

:  charz ,
[ 65535	]
:

stringy	65535
:	a1

[""a	b"" ,

    1
] :Logon  
      // a // b
		// " ++ [128512]%N ++ runes_of_ascii " emoji
  } 
,

    }

")).
Eval vm_compute in ("<<<M2000>>>" ++ check (runes_of_ascii "
root packet
x_y_z { match
	Z9_
as
    u  {
255 : pack
    ,	255	:
u128 
,
	007 :  float
""\n"":	options1 
,

    [""" ++ [28040; 24687]%N ++ runes_of_ascii """  ,

    1
    ]
    :
	Z9_

    """ ++ [28040; 24687]%N ++ runes_of_ascii """	:  chars  ,

}
, u8 
_x
	@calculatedFrom(  
  // a // b
  """ ++ [28040; 24687]%N ++ runes_of_ascii """  )	`say ""hi""`
,
@tag( 
3  ) 
match 
a1

    as

msg_type
{	[
    ""\n"" // a // b
    , 
255 	 //x
  ,0 ]

: crc 
,

    } 
,
    }
root

    packet
	o  {
    match tag

as 
_x { 007
    :
	x

    ,
10:charz
, ""{,}""

    :	body
	,""" ++ [233]%N ++ runes_of_ascii "t" ++ [233]%N ++ runes_of_ascii """ 
:

len """ ++ [128512]%N ++ runes_of_ascii """ :u	,
	},
u64  u@calculatedFrom(
	""x y"" 

    // c
	// " ++ [27880; 37322]%N ++ runes_of_ascii "
  )
`it's`
,@lengthOf( trueish
)
repeat 	 // packet A { u8 x, }
  uint8
u8x

    `" ++ [28040; 24687; 31867; 22411]%N ++ runes_of_ascii "`// a // b
  , @calculatedFrom(

    ""\n"")

    @rightPad ( )@leftPad (
'\x00')
	repeat  uint32 float ,
	@lengthOf( A

    ) @tag( //	t
		0123456789 
)@rightPad	(' '

) zchar[ 10] 
// " ++ [128512]%N ++ runes_of_ascii " emoji
o	// packet A { u8 x, }

  ,
    uint8x

    @calculatedFrom( ""a\\""  // " ++ [27880; 37322]%N ++ runes_of_ascii "
  	) `
`,
    body  , repeat //	t

	char[	10]	string_ `tab	here` ,

}

root	packet

roots
	{}

packet

    u {@calculatedFrom(
""" ++ [128512]%N ++ runes_of_ascii """ )
    f64 Logon  // `tick` ""quote"" 'q'
		@calculatedFrom(

""1"" 
) `a\`
    , int16	trueish

    `line1
line2`

    ,  //
    	zchar[ 0123456789
]
    // a // b
	BodyLength `two words`
    ,
    float32  i8i8
@lengthOf(
metadata

)
`// not a comment`
    ,i32 leftPad
	,} ")).
Eval vm_compute in ("<<<M1547>>>" ++ check (runes_of_ascii "// top
options // c0
{
    // c1
LittleEndian // c2
= // c3a
  // c3b
true
    // c4
; StringPrefixLenType // c6
= // c7
u16 // c8
; // c9a
  // c9b
ArrayPrefixLenType
    // c10
= // c11
u64
    // c12
; // c13
} // c14
packet Fill // c16a
  // c16b
{ // c17a
  // c17b
} packet // c19
Logon // c20a
  // c20b
{ repeat
    // c22
char[ // c23
3 // c24
] // c25
Tail // c26a
  // c26b
, // c27
zchar[ // c28
6 // c29
] // c30
venue , // c32
repeat
    // c33
string // c34
Side2 // c35a
  // c35b
,
    // c36
} root // c38a
  // c38b
packet
    // c39
Cancel
    // c40
{ char[] // c42a
  // c42b
Flags // c43a
  // c43b
, char[] OrderId
    // c46
, zchar[
    // c48
6
    // c49
] // c50
msgKind // c51a
  // c51b
,
    // c52
Fill
    // c53
, char[] // c55
Acct
    // c56
, // c57a
  // c57b
u8 // c58
f1 // c59a
  // c59b
,
    // c60
match f1
    // c62
as // c63a
  // c63b
Body // c64a
  // c64b
{ 188
    // c66
:
    // c67
Fill , 5 : Logon // c72
, // c73a
  // c73b
} , // c75
u32 // c76
clOrdID // c77a
  // c77b
@calculatedFrom( ""CRC32""
    // c79
)
    // c80
,
    // c81
} // c82
")).
Eval vm_compute in ("<<<M1568>>>" ++ check (runes_of_ascii "// top
options // c0
{
    // c1
FixedStringPadFromLeft = // c3
true
    // c4
;
    // c5
FixedStringPadChar // c6a
  // c6b
= ' ' // c8a
  // c8b
; // c9a
  // c9b
} packet // c11a
  // c11b
Reject // c12a
  // c12b
{ // c13
} packet Fill // c16a
  // c16b
{ repeat // c18a
  // c18b
i16 Tail ,
    // c21
} root // c23
packet // c24a
  // c24b
Trade // c25
{
    // c26
float64
    // c27
Ref // c28
,
    // c29
Fill // c30a
  // c30b
, // c31a
  // c31b
u8 // c32a
  // c32b
Note // c33a
  // c33b
, u16 // c35
count // c36a
  // c36b
@lengthOf( Body ) , // c40
match // c41a
  // c41b
Note // c42a
  // c42b
as Body // c44
{ // c45
[ // c46
98 // c47a
  // c47b
, // c48
101 // c49
] // c50a
  // c50b
:
    // c51
Fill
    // c52
, 34 // c54a
  // c54b
: // c55
Reject // c56
,
    // c57
} // c58
, // c59
u32 // c60a
  // c60b
x // c61
@calculatedFrom( // c62a
  // c62b
""CRC32"" // c63a
  // c63b
)
    // c64
, // c65
} // c66
")).
Eval vm_compute in ("<<<M220>>>" ++ check (runes_of_ascii "
MetaData BodyLength
{  int32 chars
    `u8 x,` , char[
0123456789 ] // c
matchKey `a\` ,
char[]
    //
    A , } packet//x
u128
    {}
packet rootA
{float64// c
roots ,  @lengthOf(
    float// `tick` ""quote"" 'q'
)//	t
repeat BodyLength { BodyLength{
    repeat
f64 Packet, char[ 7
/// triple
//	t
] As `doc` ,
}
    ,
} , calculatedFrom
{i16  o@lengthOf(
    Logon ) `doc`, Foo u128 ,	char// @lengthOf(
u @lengthOf(  _x
) ,  },@tag( 1  )@rightPad // `tick` ""quote"" 'q'
(' '
) char[]msg_type
// trailing space 
// trailing space 
, } packet
calculatedFrom
{
    char[] rootA@calculatedFrom( ""a	b"" ) ,
}	options
//	t
// packet A { u8 x, }
{
    o =
""// no comment"" matchKey
    = '\x00' ;
    u
    = """"
leftPad = ""CRC32""; A= ""CRC32"" ; } // trailing space ")).
Eval vm_compute in ("<<<M119>>>" ++ check (runes_of_ascii "packet
Pad {
@lengthOf(stringy)MetaDataX  @calculatedFrom(""" ++ [28040; 24687]%N ++ runes_of_ascii """ ) `{ , }` ,
//x
/// triple
char[ 0123456789 ]leftPad @lengthOf( float
), asx leftPad `u8 x,` ,
    @calculatedFrom(""\" ++ [233]%N ++ runes_of_ascii """ )
    repeat  rootA
    matchKey `" ++ [28040; 24687; 31867; 22411]%N ++ runes_of_ascii "`, @lengthOf( stringy
    ) /// triple
uint8x msg_type `u8 x,`, // c
char[ 3
]
stringy `tab	here`  ,
}
MetaData metadata{ string_ zchar , float32 u128	,
char[]
    //	t
    u128//x
,} options
    // trailing space 
    { zchar =""" ++ [28040; 24687]%N ++ runes_of_ascii """ ;
msg_type = 007 ;	repeatCount = '\x00' ;	} packet
_x { }  options
{
    asx
=
true;
lengthOf =
'0'  i8i8= '0'  crc =
""abc""
    /// triple
    ; Packet
// " ++ [128512]%N ++ runes_of_ascii " emoji
// trailing space 
= ' ' } // a // b")).
Eval vm_compute in ("<<<M279>>>" ++ check (runes_of_ascii "
MetaData matchKey { i16
lengthOf, int16
    asx `it's`
    ,
    chars metadata `
` , char[ 00 ] u128 ,// " ++ [128512]%N ++ runes_of_ascii " emoji
zchar[ 007 ] falsey
,  uint64 packetx
, }
    packet string_
    {
}root
packet stringy{u64 packetx	@lengthOf( falsey // @lengthOf(
) `crlf
line` , falsey options1
    , repeat char[] calculatedFrom , @rightPad ( '\x00' )
i64 // c
charz
    @lengthOf(
    x_y_z )
    `u8 x,`,
// @lengthOf(
//x
@lengthOf( rootA )char[] BodyLength `it's`
, msg_type@calculatedFrom( // trailing space 
""packet"") ,
    // " ++ [27880; 37322]%N ++ runes_of_ascii "
    lengthOf {zchar[
65535	]tag
`
`
    , }
    , } 	 ")).
Eval vm_compute in ("<<<M1559>>>" ++ check (runes_of_ascii "options {

    LittleEndian= false

;ArrayPrefixLenType=
	u8 ;  FixedStringPadChar
    =  '0' ;	}	packet
Order
	{
	InNote94{
	f32 f1 ,
	f64
Side2 ,

    repeat InTail47	{
char[]

seqNo ,

    char[]
Tail 
,	char[]	lastPx,},

    }, 
zchar[ 7 
] f1

    ,u8

Side2
	,}
root
packet
	Reject {repeat

    char[
    4
    ]Flags

,
	InPrice63
{

    InSeqno41

    {

    repeat

i8 OrderId  ,repeat
i32
    clOrdID
, char[ 
9  ]
tag7,char[]
lastPx,
}
    ,
	Order,uint8
Side2 , 
} ,
}
")).
Eval vm_compute in ("<<<M1549>>>" ++ check (runes_of_ascii "options {
    LittleEndian = true;
    StringPrefixLenType = u16;
    ArrayPrefixLenType = u64;
}
packet Fill {
}
packet Logon {
    repeat char[3] Tail,
    zchar[6] venue,
    repeat string Side2,
}
root packet Cancel {
    char[] Flags,
    char[] OrderId,
    zchar[6] msgKind,
    Fill,
    char[] Acct,
    u8 f1,
    match f1 as Body {
        188 : Fill,
        5 : Logon,
    },
    u32 clOrdID @calculatedFrom(""CR\
C32""),
}
")).
Eval vm_compute in ("<<<M1999>>>" ++ check (runes_of_ascii "packet i8i8 {
    matchKey,
    match trueish as roots {
        [00] : int,
        255 : u128,
        3 : matchKey,
        [65535] : trueish,
        //	t
    },
}

packet packetx {
}

packet u8x {
    @tag(3)
    match x_y_z as leftPad {
        [7] : u8x,
    },
    @tag(42)
    int64 lengthOf,
    @tag(255)
    zchar[7] o,
    A,
    @tag(0)
    repeat lengthOf u8x,
}")).
Eval vm_compute in ("<<<M44>>>" ++ check (runes_of_ascii "packet rootA { @rightPad( ' ') repeat
    Z9_ roots
``,	zchar
tag `two words` , @rightPad ( ' '
    )
len {
// trailing space 
//x
u128
`doc` ,u8x
    ,  char[ 0123456789 // a // b
]calculatedFrom  `" ++ [28040; 24687; 31867; 22411]%N ++ runes_of_ascii "`,msg_type
@lengthOf(
falsey)`u8 x,` , } ,
@calculatedFrom( """"	)	f64 charz
@lengthOf(msg_type) `it's`// trailing space 
,
    }
")).
Eval vm_compute in ("<<<M2036>>>" ++ check (runes_of_ascii "options {roots

    =//x

  int64

}

    // @lengthOf(
// @lengthOf(
    packet int
    {

    char	zchar 
,repeat len { f32a`" ++ [28040; 24687; 31867; 22411]%N ++ runes_of_ascii "`,
},	zchar[  007 
]
	As
`it's`,	zchar[

007

    // a // b
  ]
    uint8x @lengthOf(
	    //x
	Foo)

, 
  // packet A { u8 x, }
	// packet A { u8 x, }
  } ")).
Eval vm_compute in ("<<<M484>>>" ++ check (runes_of_ascii "root packet packet tag { }  packet MetaDataX{char[007	]
// c
/// triple
asx  @calculatedFrom( ""a\""b""
) `say ""hi""`// " ++ [27880; 37322]%N ++ runes_of_ascii "
,  @tag(4294967296 )
    char[1//x
] packetx @calculatedFrom(""a\""b""
    ) ,
// " ++ [128512]%N ++ runes_of_ascii " emoji
// a // b
@calculatedFrom(""" ++ [233]%N ++ runes_of_ascii "t" ++ [233]%N ++ runes_of_ascii """  ) repeat pack // " ++ [27880; 37322]%N ++ runes_of_ascii "
,
    } // c")).
Eval vm_compute in ("<<<M631>>>" ++ check (runes_of_ascii "root packet tag { }  packet MetaDataX{char[007	]
// c
/// triple
asx  @calculatedFrom( ""a\""b""
) `say ""hi""`// " ++ [27880; 37322]%N ++ runes_of_ascii "
,  @tag(4294967296 )
    char[1//x
] packetx @calculatedFrom(""a\""b""
    ) ,
// " ++ [128512]%N ++ runes_of_ascii " emoji
// a // b
@calculatedFrom(""" ++ [233]%N ++ runes_of_ascii "t" ++ [233]%N ++ runes_of_ascii """  char repeat pack // " ++ [27880; 37322]%N ++ runes_of_ascii "
,
    } // c")).
Eval vm_compute in ("<<<M581>>>" ++ check (runes_of_ascii "root packet tag { }  packet MetaDataX{char[007	]
// c
/// triple
asx  @calculatedFrom( ""a\""b""
) `say ""hi""`// " ++ [27880; 37322]%N ++ runes_of_ascii "
,  @tag(4294967296 )
    zchar[1//x
] packetx @calculatedFrom(""a\""b""
    ) ,
// " ++ [128512]%N ++ runes_of_ascii " emoji
// a // b
@calculatedFrom(""" ++ [233]%N ++ runes_of_ascii "t" ++ [233]%N ++ runes_of_ascii """  ) repeat pack // " ++ [27880; 37322]%N ++ runes_of_ascii "
,
    } // c")).
Eval vm_compute in ("<<<M575>>>" ++ check (runes_of_ascii "root packet tag { }  packet MetaDataX{char[007	]
// c
/// triple
asx  @calculatedFrom( ""a\""b""
) `say ""hi""`// " ++ [27880; 37322]%N ++ runes_of_ascii "
,  @tag(4294967296 char[
    )1//x
] packetx @calculatedFrom(""a\""b""
    ) ,
// " ++ [128512]%N ++ runes_of_ascii " emoji
// a // b
@calculatedFrom(""" ++ [233]%N ++ runes_of_ascii "t" ++ [233]%N ++ runes_of_ascii """  ) repeat pack // " ++ [27880; 37322]%N ++ runes_of_ascii "
,
    } // c")).
Eval vm_compute in ("<<<M596>>>" ++ check (runes_of_ascii "root packet tag { }  packet MetaDataX{char[007	]
// c
/// triple
asx  @calculatedFrom( ""a\""b""
) `say ""hi""`// " ++ [27880; 37322]%N ++ runes_of_ascii "
,  @tag(4294967296 )
    char[1//x
] match @calculatedFrom(""a\""b""
    ) ,
// " ++ [128512]%N ++ runes_of_ascii " emoji
// a // b
@calculatedFrom(""" ++ [233]%N ++ runes_of_ascii "t" ++ [233]%N ++ runes_of_ascii """  ) repeat pack // " ++ [27880; 37322]%N ++ runes_of_ascii "
,
    } // c")).
Eval vm_compute in ("<<<M593>>>" ++ check (runes_of_ascii "root packet tag { }  packet MetaDataX{char[007	]
// c
/// triple
asx  @calculatedFrom( ""a\""b""
) `say ""hi""`// " ++ [27880; 37322]%N ++ runes_of_ascii "
,  @tag(4294967296 )
    char[1//x
]  @calculatedFrom(""a\""b""
    ) ,
// " ++ [128512]%N ++ runes_of_ascii " emoji
// a // b
@calculatedFrom(""" ++ [233]%N ++ runes_of_ascii "t" ++ [233]%N ++ runes_of_ascii """  ) repeat pack // " ++ [27880; 37322]%N ++ runes_of_ascii "
,
    } // c")).
Eval vm_compute in ("<<<M637>>>" ++ check (runes_of_ascii "root packet tag { }  packet MetaDataX{char[007	]
// c
/// triple
asx  @calculatedFrom( ""a\""b""
) `say ""hi""`// " ++ [27880; 37322]%N ++ runes_of_ascii "
,  @tag(4294967296 )
    char[1//x
] packetx @calculatedFrom(""a\""b""
    ) ,
// " ++ [128512]%N ++ runes_of_ascii " emoji
// a // b
@calculatedFrom(""" ++ [233]%N ++ runes_of_ascii "t" ++ [233]%N ++ runes_of_ascii """  )")).
Eval vm_compute in ("<<<M1335>>>" ++ check (runes_of_ascii "// top
packet // c0
o // c1
{ // c2
repeat // c3
Logon // c4
uint8x // c5
, // c6
} // c7
options // c8
{ // c9
asx // c10
= // c11
zchar[ // c12
3 // c13
] // c14
stringy // c15
= // c16
'\x00' // c17
} // c18
")).
Eval vm_compute in ("<<<M1501>>>" ++ check (runes_of_ascii "// top
packet // c0
orderItem // c1a
  // c1b
{ u8 // c3
a // c4
, } // c6
root
    // c7
packet // c8a
  // c8b
newOrder // c9
{
    // c10
orderItem , // c12a
  // c12b
u8
    // c13
x , } ")).
Eval vm_compute in ("<<<M1868>>>" ++ check (runes_of_ascii "options
    { LittleEndian

= true;

} 
packet B
{

    u8
	a
,
    string

    s
, }
    root

packet

    P	{ 
u16

    L

    @lengthOf(
    B 
)
, B,
u8  t ,
	} ")).
Eval vm_compute in ("<<<M216>>>" ++ check (runes_of_ascii "MetaData msg_type { }root
    packet T{@rightPad (
    )
    repeat char[ 3 ]	x_y_z ,
    @lengthOf(
roots  ) string	i64_ @lengthOf(
u8x // a // b
) `// not a comment`	,}")).
Eval vm_compute in ("<<<M704>>>" ++ check (runes_of_ascii "root packet len // trailing space 
{
// " ++ [27880; 37322]%N ++ runes_of_ascii "
//	t
char[10
] metadata	@lengt%hOf( o ) `crlf
line`,
    @rightPad
( ' '
) string
    Header @calculatedFrom( ""a\\""
    ), }
")).
Eval vm_compute in ("<<<M720>>>" ++ check (runes_of_ascii "root packet len // trailing space 
{
// " ++ [27880; 37322]%N ++ runes_of_ascii "
//	t
char[10
] metadata	@lengthOf( o ) `crlf
line`,
    @rightPad
( ' '
) string
    Header @calculatedFrom( ""a\\""
    )} ,
")).
Eval vm_compute in ("<<<M1805>>>" ++ check (runes_of_ascii "packet asx {
}

// packet A { u8 x, }
options {
    options1 = float64
    leftPad = true;
    MetaDataX = char[00];
    roots = false
}// " ++ [128512]%N ++ runes_of_ascii " emoji

packet string_ {
}")).
Eval vm_compute in ("<<<M602>>>" ++ check (runes_of_ascii "root packet tag { }  packet MetaDataX{char[007	]
// c
/// triple
asx  @calculatedFrom( ""a\""b""
) `say ""hi""`// " ++ [27880; 37322]%N ++ runes_of_ascii "
,  @tag(4294967296 )
    char[1//x
] packetx")).
Eval vm_compute in ("<<<M2028>>>" ++ check (runes_of_ascii "
root packet
matchKey{  zchar[ 3

]

    pack@calculatedFrom(
    ""a	b""
)

`doc`// c
  ,  }options {
	} MetaData A  {

int8

msg_type
	,

    } ")).
Eval vm_compute in ("<<<M443>>>" ++ check (runes_of_ascii "packet
    // `tick` ""quote"" 'q'
    crc
// packet A { u8 x, }
//	t
{
u32 a1 ,
    // trailing space 
    roots
charz //
`two words`,	}")).
Eval vm_compute in ("<<<M1724>>>" ++ check (runes_of_ascii "root packet matchKey {
    zchar[3] pack @calculatedFrom(""a	b"") `doc`,
}

options {
}

MetaData A {
    int8 msg_type,
    // c
}")).
Eval vm_compute in ("<<<M1223>>>" ++ check (runes_of_ascii "root // c
packet matchKey { zchar[ 3 ] pack @calculatedFrom( ""a	b"" ) `doc` , } options { } MetaData A { int8 msg_type , }")).
Eval vm_compute in ("<<<M1255>>>" ++ check (runes_of_ascii "root packet matchKey { zchar[ 3 ] pack @calculatedFrom( ""a	b"" ) `doc` , } options { } // c
MetaData A { int8 msg_type , }")).
Eval vm_compute in ("<<<M901>>>" ++ check (runes_of_ascii "packet A {
  match k as n {
    [""a"", ""bb"", ""c c"", ""d"", ""e"", ""f"", ""g"", ""h"", ""i"", ""j"", ""k"", ""l""] : B,
    2 : C
  },
}")).
Eval vm_compute in ("<<<M909>>>" ++ check (runes_of_ascii "packet A {
  match k as n {
    [""a"", ""bb"", 007, ""d"", ""e"", 66, ""g"", ""h"", 9, ""j"", ""k"", 12] : B,
    2 : C
  },
}")).
Eval vm_compute in ("<<<M562>>>" ++ check (runes_of_ascii "root packet tag { }  packet MetaDataX{char[007	]
// c
/// triple
asx  @calculatedFrom( ""a\""b""
) `say ""hi""`")).
Eval vm_compute in ("<<<M1948>>>" ++ check (runes_of_ascii "
packet 
chars{ }
	packet

MetaDataX {@tag(42)i16

string_

, 
// c
  repeat	x	`say ""hi""`

,

    }
")).
Eval vm_compute in ("<<<M1742>>>" ++ check (runes_of_ascii "  packet  o{
	repeat
    Logon uint8x, } options 
    // c
	{  asx
= zchar[3]
stringy 
=

'\x00'  }")).
Eval vm_compute in ("<<<M1462>>>" ++ check (runes_of_ascii "packet B {
    u8 a,
    string s,
}
root packet P {
    u16 L @lengthOf(B),
    B,
    u8 t,
}
")).
Eval vm_compute in ("<<<M864>>>" ++ check (runes_of_ascii "packet A {
  match k as n {
    [1, ""bb"", 007, ""d"", 5, ""f"", 7, ""h"", 9] : B,
    2 : C
  },
}")).
Eval vm_compute in ("<<<M1182>>>" ++ check (runes_of_ascii "MetaData float // c
{ float64 charz `
` , } root packet chars { @rightPad ( '0' ) Foo , }")).
Eval vm_compute in ("<<<M1214>>>" ++ check (runes_of_ascii "MetaData float { float64 charz `
` , } root packet chars { @rightPad ( '0' ) Foo , // c
}")).
Eval vm_compute in ("<<<M1425>>>" ++ check (runes_of_ascii "packet chars { } packet MetaDataX { @tag( 42 ) i16 string_ , repeat x
// c
`say ""hi""` , }")).
Eval vm_compute in ("<<<M1122>>>" ++ check (runes_of_ascii "// c
packet metadata { Logon { A `" ++ [28040; 24687; 31867; 22411]%N ++ runes_of_ascii "` , tag o , } , zchar len `// not a comment` , }")).
Eval vm_compute in ("<<<M1155>>>" ++ check (runes_of_ascii "packet metadata { Logon { A `" ++ [28040; 24687; 31867; 22411]%N ++ runes_of_ascii "` , tag o , } , zchar len `// not a comment`
// c
, }")).
Eval vm_compute in ("<<<M1360>>>" ++ check (runes_of_ascii "packet o { repeat Logon uint8x , } options { asx // c
= zchar[ 3 ] stringy = '\x00' }")).
Eval vm_compute in ("<<<M2083>>>" ++ check (runes_of_ascii "packet A {
    match k as n {
        [1, 22, ""c c"", 4] : B,
        2 : C,
    },
}")).
Eval vm_compute in ("<<<M1321>>>" ++ check (runes_of_ascii "MetaData body { i64 pack `it's` , } packet // c
stringy { int16 calculatedFrom , }")).
Eval vm_compute in ("<<<M1468>>>" ++ check (runes_of_ascii "options {
    FixedStringPadFromLeft = true;
}
root packet P {
    char[4] z,
}
")).
Eval vm_compute in ("<<<M806>>>" ++ check (runes_of_ascii "packet A {
  match k as n {
    [""a"", ""bb"", 007, ""d""] : B
    2 : C
  },
}")).
Eval vm_compute in ("<<<M792>>>" ++ check (runes_of_ascii "packet A {
  match k as n {
    [""a"", ""bb"", 007] : B,
    2 : C
  },
}")).
Eval vm_compute in ("<<<M1093>>>" ++ check (runes_of_ascii "packet A {
    match k as n {
        1 : B,
        // c
    },
}")).
Eval vm_compute in ("<<<M934>>>" ++ check (runes_of_ascii "MetaData M {
    u8 x `a
    b
  c`,
    T t `a
    b
  c`,
}")).
Eval vm_compute in ("<<<M1281>>>" ++ check (runes_of_ascii "packet x {
// c
@rightPad ( ) repeat roots Logon `doc` , }")).
Eval vm_compute in ("<<<M165>>>" ++ check (runes_of_ascii "packet x
{ @lengthOf( x_y_z )
BodyLength tag // c
,}
")).
Eval vm_compute in ("<<<M1438>>>" ++ check (runes_of_ascii "root packet P {
    repeat char cs,
    u8 x,
}
")).
Eval vm_compute in ("<<<M946>>>" ++ check (runes_of_ascii "MetaData M {
    u8 x `x
`,
    T t `x
`,
}")).
Eval vm_compute in ("<<<M1109>>>" ++ check (runes_of_ascii "root packet u128 { chars
// c
`it's` , }")).
Eval vm_compute in ("<<<M1063>>>" ++ check (runes_of_ascii "options { a = 1 // c b = 2; // d}")).
Eval vm_compute in ("<<<M1910>>>" ++ check (runes_of_ascii "packet A {
    u8 x `d" ++ [8202]%N ++ runes_of_ascii "`,// c" ++ [8202]%N ++ runes_of_ascii "
}")).
Eval vm_compute in ("<<<M735>>>" ++ check (runes_of_ascii "f64 root f32 options true ' '")).
Eval vm_compute in ("<<<M1075>>>" ++ check (runes_of_ascii "options { a = 1 // a
 ; }")).
Eval vm_compute in ("<<<M1390>>>" ++ check (runes_of_ascii "MetaData o { }
// c
")).
Eval vm_compute in ("<<<M997>>>" ++ check (runes_of_ascii "// c" ++ [8192]%N ++ runes_of_ascii "
packet A {
}")).
Eval vm_compute in ("<<<M984>>>" ++ check (runes_of_ascii "packet A {
}// c" ++ [133]%N)).
Eval vm_compute in ("<<<M1877>>>" ++ check (runes_of_ascii "packet A {
}")).
Eval vm_compute in ("<<<M990>>>" ++ check (runes_of_ascii "// c" ++ [5760]%N)).
Eval vm_compute in ("<<<M736>>>" ++ check (runes_of_ascii "c")).
