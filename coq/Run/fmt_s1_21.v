From FP Require Import Lexer Parser ShowPT Digest Formatter.
From Coq Require Import String List NArith.
Import ListNotations.
Open Scope string_scope.
Set Printing Width 100000000.
Set Printing Depth 100000000.
Definition show_fres (r : fres) : string :=
  match r with
  | FOk s => "OK:" ++ sh_escaped s ""
  | FErr s => "ERR:" ++ sh_escaped s ""
  | FPanic p => "PANIC:" ++ p
  end.
Definition check (rs : list rune) : string := digest (show_fres (format_res rs)).
Definition full (rs : list rune) : string := show_fres (format_res rs).
Eval vm_compute in ("<<<M434>>>" ++ check (runes_of_ascii "  packet u { repeat Packet
    `
` , string	x @calculatedFrom( ""x y"" )
`say ""hi""` , @tag( 42) repeat
stringy
, match len	as
    /// triple
    u {
[7 ,""it's""// " ++ [27880; 37322]%N ++ runes_of_ascii "
, 10 ,""a\\"" , 0, ""1""
] :float ,
    ""a	b""
: Foo , }
// `tick` ""quote"" 'q'
// c
, float ,repeat calculatedFrom
{ uint64
    body
,
    char[] uint8x
, int32 len ,f32a
@calculatedFrom( """ ++ [28040; 24687]%N ++ runes_of_ascii """
)
, }	, @leftPad ( /// triple
'\x00'
    )
    string
    body , match// " ++ [128512]%N ++ runes_of_ascii " emoji
msg_type as
    As	{	[ """ ++ [128512]%N ++ runes_of_ascii """ ,
    // packet A { u8 x, }
    ""abc""
// @lengthOf(
/// triple
]
    : msg_type // @lengthOf(
, [0123456789
    // trailing space 
    ,  10 ]:
A, ""1"": Foo , 7:
    string_ ,	""`tick`"" :	string_ 007	: int, }
,
}
    packet BodyLength
    {// trailing space 
match crc as Pad// `tick` ""quote"" 'q'
{
    [0123456789 , ""\n"" , ""x y"" ,
""\n"" , 7
    , ""1"" ] : // @lengthOf(
u8x
, [ 00
, ""abc"", """ ++ [128512]%N ++ runes_of_ascii """, ""a\\"" ,65535 ]:// " ++ [128512]%N ++ runes_of_ascii " emoji
pack ,	},
    @tag( 0 ) leftPad { char[]
    options1 @lengthOf(	asx
// a // b
// " ++ [128512]%N ++ runes_of_ascii " emoji
) ,char[ 0
] /// triple
As `crlf
line` ,	i64  crc ,
}
,
float64 asx , @leftPad ( // `tick` ""quote"" 'q'
' ' ) T@calculatedFrom( ""abc""),  }packet As {
    // " ++ [27880; 37322]%N ++ runes_of_ascii "
    string i64_ @calculatedFrom( ""\n"")
    ,@lengthOf( i8i8 )  @lengthOf( asx ) @rightPad('0'/// triple
)repeat uint64	MetaDataX,tag zchar /// triple
, @calculatedFrom( ""// no comment"") char[]u @calculatedFrom(// packet A { u8 x, }
""a\\""
// " ++ [27880; 37322]%N ++ runes_of_ascii "
//x
) `u8 x,`	, // trailing space 
@calculatedFrom(""" ++ [233]%N ++ runes_of_ascii "t" ++ [233]%N ++ runes_of_ascii """ ) // @lengthOf(
char[//
10 ]
repeatCount `
` , } packet f32a {
    Header  o ,
    } packet chars { @rightPad( '0' ) match
u128  as u8x {3 : i8i8
// `tick` ""quote"" 'q'
//	t
,
    255: charz [ 4294967296 , ""x y"",""" ++ [233]%N ++ runes_of_ascii "t" ++ [233]%N ++ runes_of_ascii """ ,
    ""{,}"" ]	:
x	,
    65535 : len }
, @lengthOf( u8x // " ++ [128512]%N ++ runes_of_ascii " emoji
)i16 Foo@lengthOf(  u8x // packet A { u8 x, }
),
@lengthOf( _x)@leftPad ( ' ' )
char[
    // `tick` ""quote"" 'q'
    255  ]
tag
    @calculatedFrom( ""it's"" )
// trailing space 
//
, @calculatedFrom("""" ) float32 i64_ `line1
line2` , repeat string
    roots,string // trailing space 
float, @lengthOf( Header ) @tag( 007
    ) @calculatedFrom( ""abc"" ) match
zchar  as
u8x { ""a	b"" : charz , 0 :	len ,
} ,zchar[ 00]MetaDataX
    @calculatedFrom(
    // c
    ""a\""b""
) `two words` ,} // `tick` ""quote"" 'q'")).
Eval vm_compute in ("<<<M3628>>>" ++ check (runes_of_ascii "// top
options // c0
{ // c1
LittleEndian // c2a
  // c2b
=
    // c3
false // c4
; // c5
StringPrefixLenType // c6
= u8
    // c8
; ArrayPrefixLenType
    // c10
= u8 ; FixedStringPadFromLeft =
    // c15
true ;
    // c17
FixedStringPadChar = // c19a
  // c19b
' ' // c20
; // c21a
  // c21b
}
    // c22
packet
    // c23
Trade { // c25
zchar[ // c26a
  // c26b
2 ]
    // c28
Side2 // c29a
  // c29b
, // c30
i8 // c31
seqNo , // c33
} packet // c35
Party // c36
{
    // c37
uint32 // c38a
  // c38b
price ,
    // c40
}
    // c41
packet Ack { // c44a
  // c44b
@rightPad // c45a
  // c45b
( // c46
'\x00'
    // c47
) char[ // c49
6 // c50a
  // c50b
] // c51a
  // c51b
x
    // c52
, // c53
repeat char[ // c55
4 ] // c57
Flags // c58a
  // c58b
,
    // c59
zchar[
    // c60
9
    // c61
] // c62
f1 // c63
, // c64a
  // c64b
}
    // c65
packet Cancel // c67a
  // c67b
{
    // c68
Ack // c69a
  // c69b
, // c70a
  // c70b
} // c71a
  // c71b
packet // c72
Heartbeat // c73
{ string Px
    // c76
,
    // c77
string
    // c78
Acct
    // c79
,
    // c80
f64
    // c81
Side2 , // c83
InQty24 // c84
{ // c85a
  // c85b
i16 // c86a
  // c86b
seqNo // c87
, repeat
    // c89
i32
    // c90
Flags // c91
,
    // c92
} // c93a
  // c93b
, // c94
} root // c96a
  // c96b
packet // c97
Logon
    // c98
{ // c99a
  // c99b
Trade // c100a
  // c100b
, i64
    // c102
venue // c103a
  // c103b
, // c104
u32 x
    // c106
, // c107
u8
    // c108
seqNo // c109a
  // c109b
, // c110
match
    // c111
seqNo as Body // c114
{ [ 1 , 164 // c119a
  // c119b
] // c120a
  // c120b
:
    // c121
Ack ,
    // c123
31 // c124
: Cancel // c126
, // c127a
  // c127b
23 // c128
: // c129a
  // c129b
Heartbeat // c130
, 64 : // c133
Party // c134
, // c135a
  // c135b
}
    // c136
, } // c138a
  // c138b
")).
Eval vm_compute in ("<<<M5>>>" ++ check (runes_of_ascii "root
packet zchar {
repeatCount // a // b
@lengthOf(  asx )	, match
string_ as o// @lengthOf(
{ 7 :packetx
    ,
    7 : Pad},// packet A { u8 x, }
zchar[ 65535 ]
    T
@calculatedFrom( /// triple
""" ++ [128512]%N ++ runes_of_ascii """
)
    , tag @lengthOf( // " ++ [27880; 37322]%N ++ runes_of_ascii "
u ) `crlf
line`,
    @calculatedFrom(
    // " ++ [128512]%N ++ runes_of_ascii " emoji
    """" ) _x	@calculatedFrom(// @lengthOf(
""a	b"" )
`// not a comment` ,match Z9_ as float { 0123456789 : calculatedFrom, ""{,}"":u //	t
} , @leftPad( ) @tag( 255	) @lengthOf(i8i8
    ) match
tag as
    trueish { 4294967296:	uint8x
    ,[ //x
65535 ] : u8x ,	10 : i64_,
""""
    :metadata
    } , int64 T , } root packet len { @tag(	0) Logon ,
@tag(255) repeat u64 packetx `it's`
    , @tag(
    4294967296 )
zchar[007 ]repeatCount `a\` , char[ 4294967296
]
// " ++ [128512]%N ++ runes_of_ascii " emoji
// packet A { u8 x, }
asx @calculatedFrom(
""it's"" ), }	root packet asx {	uint16 options1@lengthOf(
    matchKey ) `it's`	, }	root //
packet
Logon{ @lengthOf( asx) @calculatedFrom(  ""packet""
)	Z9_ @calculatedFrom(// " ++ [128512]%N ++ runes_of_ascii " emoji
""" ++ [28040; 24687]%N ++ runes_of_ascii """)
    ,
@tag(	007
    /// triple
    )
zchar[0123456789 ] i64_ ,
msg_type`line1
line2` , repeat zchar[
007 ]Pad
`
`	, falsey {
    chars lengthOf ``
    ,	match Header as lengthOf
    {
""" ++ [233]%N ++ runes_of_ascii "t" ++ [233]%N ++ runes_of_ascii """	: falsey 42:
uint8x , [ 007
,""abc""
    ,
// c
// a // b
""abc"" ,""a\\""  ,
65535 // c
,""a\""b"" ,
42, ""{,}"" ]:charz } , int64 //x
Foo // c
, Z9_@lengthOf( int )`it's`
, }
,
    @rightPad
    ( ) // trailing space 
string As @calculatedFrom(""" ++ [28040; 24687]%N ++ runes_of_ascii """ ) ,
    // c
    match matchKey as repeatCount{
4294967296 :msg_type	, """ ++ [28040; 24687]%N ++ runes_of_ascii """ : zchar 3  : u8x , """":	asx
// trailing space 
// `tick` ""quote"" 'q'
, } ,}
")).
Eval vm_compute in ("<<<M4410>>>" ++ check (runes_of_ascii "packet Packet {
    @tag(10)
    match trueish as x_y_z {
        ""it's"" : i8i8,
        // " ++ [27880; 37322]%N ++ runes_of_ascii "
        // " ++ [27880; 37322]%N ++ runes_of_ascii "
        00 : asx,
    },
    zchar[007] u @calculatedFrom(""`tick`"") `line1
    line2`,
    /// triple
    chars @calculatedFrom(""""),
    match zchar as _x {
        00 : rootA,
        ""\" ++ [233]%N ++ runes_of_ascii """ : metadata,
    },
    body {
        u32 u128 @calculatedFrom(""{,}""),
        repeat char[4294967296] u `say ""hi""`,
    },
    @lengthOf(stringy)
    float {
        string leftPad,
        repeat uint16 Pad,
        char u,// " ++ [128512]%N ++ runes_of_ascii " emoji
        i8i8 u,
    },
    match o as x {
        [
            10, 1, 00, 0, 255,
            ""`tick`"", ""1""
        ] : uint8x,
        0 : T,
        //
        1 : trueish,
        1 : rootA,
    },
    zchar[255] T `line1
    line2`,
    @leftPad('0')
    @leftPad('\x00')
    @tag(007)
    match T as u8x {
        [007] : A,
        0 : x,
        [4294967296] : charz,
        """" : As,
        7 : int,
        65535 : x_y_z,
    },// trailing space 
}

options {
    /// triple
    x = '\x00';// packet A { u8 x, }
}

// " ++ [128512]%N ++ runes_of_ascii " emoji
root packet i64_ {
    @tag(4294967296)
    falsey options1,
    uint64 Pad `doc`,
    @tag(65535)
    char Logon @calculatedFrom(""""),
    char[0] MetaDataX `a\`,//
    metadata f32a `tab	here`,
    stringy Header,
    @leftPad()
    @calculatedFrom(""\" ++ [233]%N ++ runes_of_ascii """)
    @calculatedFrom(""" ++ [128512]%N ++ runes_of_ascii """)
    char[] body @calculatedFrom(""a	b"") `a\`,
}")).
Eval vm_compute in ("<<<M874>>>" ++ check (runes_of_ascii "// `tick` ""quote"" 'q'
packet Pad
    { pack// " ++ [27880; 37322]%N ++ runes_of_ascii "
{ char repeatCount
    @lengthOf( a1 )
    ,int16 Pad ,
    int16
    calculatedFrom ,
    } , @lengthOf( tag)
uint16 repeatCount
    ,	@tag( 10) char[ 007 ] trueish
// a // b
// @lengthOf(
, Header// packet A { u8 x, }
@calculatedFrom( ""\n"" // " ++ [128512]%N ++ runes_of_ascii " emoji
)
    `
`
,
    i8i8 a1
`" ++ [28040; 24687; 31867; 22411]%N ++ runes_of_ascii "` , u32 x @calculatedFrom( ""abc"") , @lengthOf( crc )
//x
// " ++ [27880; 37322]%N ++ runes_of_ascii "
repeat
    char[ 3
] charz`crlf
line` , }MetaData MetaDataX{x As , } //	t
root // " ++ [128512]%N ++ runes_of_ascii " emoji
packet
    chars{ }
packet	o { @lengthOf(
msg_type )
    /// triple
    repeat uint64 float , a1 , repeatCount { char[
// `tick` ""quote"" 'q'
//
00 ] u8x @lengthOf(Header ) `" ++ [28040; 24687; 31867; 22411]%N ++ runes_of_ascii "` ,len
    // trailing space 
    @lengthOf( //
options1 )
,x @lengthOf( //	t
pack
) `two words`
    , char[] leftPad  `" ++ [233]%N ++ runes_of_ascii "` ,}// " ++ [27880; 37322]%N ++ runes_of_ascii "
,
char[] stringy//	t
@lengthOf(	msg_type ) `u8 x,`// packet A { u8 x, }
, @calculatedFrom(""it's"" ) Header A
,char[
1// `tick` ""quote"" 'q'
] f32a  ,
}root
    packet packetx {// a // b
repeat
    zchar[
007 ] u8x ,	@leftPad// @lengthOf(
('0'
    )
f64 stringy @lengthOf(
lengthOf )
,	match T as o {
65535
    // @lengthOf(
    : tag ,
255: o
    """" : stringy ,
} ,@lengthOf( calculatedFrom ) @leftPad	(
'0' ) @lengthOf( u ) f64 Logon @lengthOf(
    _x) , } //	t")).
Eval vm_compute in ("<<<M291>>>" ++ check (runes_of_ascii "//	t
root
packet
packetx { @lengthOf( BodyLength )zchar[ // " ++ [27880; 37322]%N ++ runes_of_ascii "
00 ]	uint8x	@lengthOf(
    i8i8)`tab	here` , @lengthOf( x_y_z )@leftPad ( '0'
)
@lengthOf( Header )
f32 pack @calculatedFrom( ""a\\""),
@calculatedFrom(
""`tick`"")
//x
// " ++ [27880; 37322]%N ++ runes_of_ascii "
lengthOf// " ++ [128512]%N ++ runes_of_ascii " emoji
MetaDataX ,@lengthOf( Packet ) lengthOf @calculatedFrom(
""\n"" )
    `doc`
//	t
//	t
, @rightPad ( )	char[	0123456789	] float , @lengthOf(
    options1 )
//x
//	t
@tag(7
    ) @tag(
    007) crc int, chars @calculatedFrom(
""" ++ [233]%N ++ runes_of_ascii "t" ++ [233]%N ++ runes_of_ascii """ )//x
, @calculatedFrom(//x
""CRC32"" )
repeat char[] packetx `two words` , }
packet T { }
packet T {char[10
] u128 ,
    @lengthOf( calculatedFrom  )
    chars
    o
,
@calculatedFrom(""\n"" ) match// @lengthOf(
pack  as Logon  {
    [
""// no comment"" , 255 , 42 , ""CRC32"", ""// no comment"" ] : asx
""it's"" :msg_type	,
    // `tick` ""quote"" 'q'
    0123456789  : //	t
msg_type
    //	t
    ,
255  : //
len
,
}
    , match chars as int
    { [ 00
    , 42,42 ] : x
    4294967296	: i64_, [""a	b""  ,  007// c
, """ ++ [128512]%N ++ runes_of_ascii """ , ""// no comment""
// @lengthOf(
// trailing space 
] :f32a, 42 : packetx }
, /// triple
crc	{a1 `" ++ [233]%N ++ runes_of_ascii "` , } ,@tag(
3 )
    /// triple
    zchar[7 ]  o`
`
, }
    packet roots{u64 i64_ ``,
    }")).
Eval vm_compute in ("<<<M1391>>>" ++ check (runes_of_ascii "options {
	StringPrefixLenType = u16;
	ArrayPrefixLenType = u16;
}

packet SampleBinary {
	uint16 MsgType `" ++ [28040; 24687; 31867; 22411]%N ++ runes_of_ascii "`,
	u16 BodyLenght @lengthOf(Body) `" ++ [28040; 24687; 20307; 38271; 24230]%N ++ runes_of_ascii "`,
	match MsgType as Body {
		1 : Logon,
		2 : Logout,
		3 : Heartbeat,
		4 : RiskControlRequest,
		5 : RiskControlResponse,
	},
		@calculatedFrom(""CRC32"")
	u32 Ckecksum `" ++ [26657; 39564; 21644]%N ++ runes_of_ascii "`,
}

packet Logon {
	 @leftPad('0')
	char[10] UserName `" ++ [29992; 25143; 21517]%N ++ runes_of_ascii "`,
	string Password `" ++ [23494; 30721]%N ++ runes_of_ascii "`,
	uint64 ClientId `" ++ [23458; 25143; 31471]%N ++ runes_of_ascii "ID`,
	u16 HeartbeatInterval `" ++ [24515; 36339; 38388; 38548]%N ++ runes_of_ascii "`,
}

packet Logout {
	  @rightPad('0')
	char[10] UserName `" ++ [29992; 25143; 21517]%N ++ runes_of_ascii "`,
	uint64 ClientId `" ++ [23458; 25143; 31471]%N ++ runes_of_ascii "ID`,
}

packet Heartbeat {
}

packet RiskControlRequest {
	string UniqueOrderId `" ++ [21807; 19968; 35746; 21333; 21495]%N ++ runes_of_ascii "`,
	char[16] ClOrdID `" ++ [23458; 25143; 35746; 21333; 21495]%N ++ runes_of_ascii "`,
	char[3] MarketID `" ++ [24066; 22330]%N ++ runes_of_ascii "id`,
	char[12] SecurityID `" ++ [35777; 21048; 20195; 30721]%N ++ runes_of_ascii "`,
	char Side `" ++ [20080; 21334; 26041; 21521]%N ++ runes_of_ascii "`,
	char OrderType `" ++ [35746; 21333; 31867; 22411]%N ++ runes_of_ascii "`,
	u64 Price `" ++ [20215; 26684]%N ++ runes_of_ascii "`,
	u32 Qty `" ++ [25968; 37327]%N ++ runes_of_ascii "`,
	repeat string ExtraInfo `" ++ [38468; 21152; 20449; 24687]%N ++ runes_of_ascii "`,
	repeat SubOrder {
			char[16] ClOrdID `" ++ [23376; 35746; 21333; 21495]%N ++ runes_of_ascii "`,
			u64 Price `" ++ [23376; 35746; 21333; 20215; 26684]%N ++ runes_of_ascii "`,
			u32 Qty `" ++ [23376; 35746; 21333; 25968; 37327]%N ++ runes_of_ascii "`,
		},
}

packet RiskControlResponse {
	string UniqueOrderId `" ++ [21807; 19968; 35746; 21333; 21495]%N ++ runes_of_ascii "`,
	i32 Status `" ++ [29366; 24577]%N ++ runes_of_ascii "`,
	string Msg `" ++ [32467; 26524; 20449; 24687]%N ++ runes_of_ascii "`,
	repeat Detail,
}

packet Detail {
	string RuleName `" ++ [35268; 21017; 21517; 31216]%N ++ runes_of_ascii "`,
	u16 Code `" ++ [21407; 22240; 20195; 30721]%N ++ runes_of_ascii "`,
}")).
Eval vm_compute in ("<<<M909>>>" ++ check (runes_of_ascii "options { f32a
=
007
    ;body =""" ++ [128512]%N ++ runes_of_ascii """	i64_ // " ++ [27880; 37322]%N ++ runes_of_ascii "
=zchar[ 0123456789
]
}
options {
    i8i8
= // c
""abc"" ; body = true T
=
float32} root packet MetaDataX
    //	t
    {	@rightPad
    ( '\x00' )char[] // " ++ [128512]%N ++ runes_of_ascii " emoji
matchKey ,
    @calculatedFrom(""CRC32""
) // c
match
int as
options1 { """ ++ [233]%N ++ runes_of_ascii "t" ++ [233]%N ++ runes_of_ascii """ : calculatedFrom , } ,@tag(  7) char[
    65535 ] packetx `" ++ [233]%N ++ runes_of_ascii "` , @calculatedFrom(
    """ ++ [28040; 24687]%N ++ runes_of_ascii """) string
    A  ,  repeat T{
repeat tag
`// not a comment`
, } ,
    // `tick` ""quote"" 'q'
    @rightPad	( '0' ) @calculatedFrom( ""{,}"") Header
    {
int8 A
    `u8 x,`
    , chars  { zchar
{ metadata//	t
metadata ,} ,zchar[ 00
] Foo // " ++ [27880; 37322]%N ++ runes_of_ascii "
, repeat lengthOf
{ x	`line1
line2` ,
    repeat
    // trailing space 
    zchar[ 1
    //x
    ]
trueish ,},
match uint8x as As { 1 :u128
, ""a\""b""	:i64_ 0 : string_,} ,
} , }//
,//	t
repeat char float `say ""hi""`  ,
// a // b
//
repeat
    char[]x `say ""hi""`
    , repeat char[]
    //	t
    A `{ , }` , Header @lengthOf( lengthOf ) , } root packet
float { string_/// triple
repeatCount ,
repeat //x
rootA x  ,  }
// " ++ [128512]%N ++ runes_of_ascii " emoji
")).
Eval vm_compute in ("<<<M563>>>" ++ check (runes_of_ascii "packet
// `tick` ""quote"" 'q'
// `tick` ""quote"" 'q'
trueish {
    repeat packetx /// triple
zchar , // " ++ [128512]%N ++ runes_of_ascii " emoji
zchar[ 1
]
    /// triple
    stringy ,
    @lengthOf( u8x ) repeat
    f32 Logon,
repeat u8x {
zchar[	007
    ]crc
@calculatedFrom( ""a\\"" ) ,}
,@tag( 255
) @calculatedFrom(
""it's"" //	t
)	@tag( 65535 )repeat x
{
    repeat u8x metadata ,
zchar[
    //
    00 ]  stringy@lengthOf( float
    )
`two words` , }
, @lengthOf( A ) @calculatedFrom( ""packet"" )@rightPad ( '0'  )	Header ,msg_type charz , // packet A { u8 x, }
} packet x
{ @calculatedFrom( """ ++ [128512]%N ++ runes_of_ascii """ )
zchar[ 0123456789 ]A
    // c
    @calculatedFrom( ""a	b""
    )
, @calculatedFrom( // " ++ [128512]%N ++ runes_of_ascii " emoji
""""
) repeat BodyLength `
` ,
    }packet Foo{  char[
    7 ] crc // " ++ [27880; 37322]%N ++ runes_of_ascii "
@lengthOf(
charz )
    // @lengthOf(
    ,
@lengthOf( float
) charz ,repeat i8 Foo, uint64 leftPad /// triple
`{ , }`
    ,// `tick` ""quote"" 'q'
falsey
A,
repeat u128 x_y_z `// not a comment`
    // " ++ [128512]%N ++ runes_of_ascii " emoji
    ,/// triple
Logon @calculatedFrom( ""a	b"" )	, }
")).
Eval vm_compute in ("<<<M62>>>" ++ check (runes_of_ascii "MetaData Packet { // `tick` ""quote"" 'q'
Header
// " ++ [27880; 37322]%N ++ runes_of_ascii "
// c
uint8x
`{ , }`, x_y_z u8x `it's`
// packet A { u8 x, }
// packet A { u8 x, }
,
} // trailing space 
root packet packetx { repeat char[]  packetx , string zchar@lengthOf( a1
)	`tab	here`
    // @lengthOf(
    ,
match
    string_ as float { ""a\""b""  : Logon , 00
    :
    Foo 42 : stringy	[ 255
    , 0, ""a\\""] :f32a // @lengthOf(
[7 ,	""`tick`""
] : float , 0 : // c
len //	t
,} , @lengthOf( Header	)
    //
    len`doc`
, repeat
Pad { // " ++ [27880; 37322]%N ++ runes_of_ascii "
repeat	Pad `it's`,// @lengthOf(
char[ 65535
    ]i64_
    @calculatedFrom( //
""1"" )
    `a\` , crc
    // `tick` ""quote"" 'q'
    `two words` , match len
// a // b
/// triple
as
BodyLength { ""abc""
    // " ++ [27880; 37322]%N ++ runes_of_ascii "
    :a1, [ ""packet""
    /// triple
    ,
    7
    ]
    : crc
,
    // c
    3 :
    asx , }	,	} ,
int8 rootA @lengthOf(crc ),@lengthOf( chars)
    // trailing space 
    @tag( 7 ) @tag(7 ) repeat char[ 10 ] packetx	, }

")).
Eval vm_compute in ("<<<M512>>>" ++ check (runes_of_ascii "packet repeatCount{
@lengthOf( uint8x)
// @lengthOf(
// c
repeat  falsey options1 `" ++ [28040; 24687; 31867; 22411]%N ++ runes_of_ascii "`
    // a // b
    , @calculatedFrom(
""a\""b"" )string A//
,
    @lengthOf(	metadata )  a1@calculatedFrom(
""a\\""
)`say ""hi""` ,  }
packet leftPad {
string msg_type `{ , }`,i8i8 @lengthOf( u8x // @lengthOf(
) `// not a comment`
, char matchKey	`" ++ [28040; 24687; 31867; 22411]%N ++ runes_of_ascii "` ,uint16
    stringy `" ++ [233]%N ++ runes_of_ascii "` ,
    zchar[ 0 ] uint8x  ,stringy
@calculatedFrom(""x y""
// `tick` ""quote"" 'q'
// `tick` ""quote"" 'q'
)
    `{ , }`  ,
match
u	as
MetaDataX {10:
body,}
    // " ++ [27880; 37322]%N ++ runes_of_ascii "
    ,
// `tick` ""quote"" 'q'
// packet A { u8 x, }
@lengthOf( T  ) @lengthOf( uint8x ) match uint8x
//	t
// `tick` ""quote"" 'q'
as //x
stringy{ ""\n"" :
    Logon// c
,
42 :
Header , [	""{,}"" ,
    7 ]
:As ""CRC32"":	Header
    // c
    , // c
0 : leftPad ,  } ,
}// `tick` ""quote"" 'q'
options
{  packetx =false  ; lengthOf
    =
    """ ++ [128512]%N ++ runes_of_ascii """ tag
    = char[] ; }
")).
Eval vm_compute in ("<<<M656>>>" ++ check (runes_of_ascii "MetaData
    //
    body
    {u16 roots `say ""hi""` , char[ 65535]
o
,
    uint32 Z9_
, char trueish `crlf
line`
, }
packet crc // packet A { u8 x, }
{
    u128 ,
repeat char[]trueish ,	string	asx  @lengthOf( zchar) // c
`crlf
line` , int
{ int
    u//
,
}
,  @tag(10 )
    // @lengthOf(
    zchar[
//x
//x
65535 ] /// triple
zchar@calculatedFrom( """ ++ [28040; 24687]%N ++ runes_of_ascii """ ) `a\`
    ,@rightPad ('\x00' ) string crc@lengthOf(
    // trailing space 
    o )
    ,match
rootA as len
    {[ 10  , 3// " ++ [27880; 37322]%N ++ runes_of_ascii "
, ""\n"" , """ ++ [233]%N ++ runes_of_ascii "t" ++ [233]%N ++ runes_of_ascii """
,
    ""packet""  ] :
    // a // b
    leftPad , 65535:
pack } , zchar[ 65535 ]
    //x
    asx `u8 x,`
    // a // b
    , i16
// @lengthOf(
// " ++ [27880; 37322]%N ++ runes_of_ascii "
roots`u8 x,` ,
// " ++ [128512]%N ++ runes_of_ascii " emoji
//
@leftPad ( )	f64 Packet
    ,
    } packet tag
    { @rightPad //
( '0' )repeat char[00 ] crc	,
    } packet stringy	{ char[] roots`" ++ [233]%N ++ runes_of_ascii "` //	t
,
    }")).
Eval vm_compute in ("<<<M4419>>>" ++ check (runes_of_ascii "MetaData  // " ++ [128512]%N ++ runes_of_ascii " emoji
tag{char[] float,
    lengthOf string_
    ,
	i32 
	    // c
	// a // b
  	Foo	,	i64
    Logon

    `// not a comment`

, char[
	7
	]
	i8i8 , 

// `tick` ""quote"" 'q'
// c
  u16
	pack
,

}  options  {

Packet

    =	""x y""	u128
=

    7
    u
    = u32
;

} 	 // " ++ [128512]%N ++ runes_of_ascii " emoji
	packet
chars
    { @tag(

    0123456789 )@calculatedFrom(""x y""

)

    @rightPad

('0'
)f32 Pad

    @lengthOf( crc
// c
    ) ,
	@tag(// trailing space 
	7 )
i8 o @calculatedFrom(""1""	) ,
    @rightPad  (

    ' '
	)calculatedFrom { stringy float ,  // c

	repeat	Packet  roots`doc` 
, repeat
	matchKey  asx,repeat
rootA

    roots, } ,  @tag(  42 ) @leftPad
(
'\x00' )	/// triple
	@calculatedFrom(  ""a	b""
    )string
o  @lengthOf(
	roots), 	 // " ++ [128512]%N ++ runes_of_ascii " emoji
}

")).
Eval vm_compute in ("<<<M4235>>>" ++ check (runes_of_ascii "packet As {
    @leftPad('0')
    @lengthOf(i64_)
    @leftPad('\x00')
    calculatedFrom f32a,
    match x as x_y_z {
        """" : body,
        007 : o,
        [""{,}""] : As,
        ""\n"" : stringy,
        4294967296 : roots,
    },
    calculatedFrom,
    match Pad as asx {
        [
            3, 00, 10, """ ++ [28040; 24687]%N ++ runes_of_ascii """, ""1"",
            ""a	b"", ""x y"", ""\" ++ [233]%N ++ runes_of_ascii """
        ] : Pad,
        65535 : x,
        7 : x_y_z,
        3 : charz,
        """ ++ [233]%N ++ runes_of_ascii "t" ++ [233]%N ++ runes_of_ascii """ : lengthOf,
    },
    @calculatedFrom(""{,}"")
    @calculatedFrom(""CRC32"")
    @calculatedFrom(""a	b"")
    /// triple
    // trailing space 
    crc As,
    calculatedFrom {
        char[] x ``,
    },
    @rightPad('\x00')
    repeat char[] asx `tab	here`,
    f32a {
        repeat char u,
    },
}")).
Eval vm_compute in ("<<<M49>>>" ++ check (runes_of_ascii "packet
i8i8 {
    char[]
    string_
// " ++ [27880; 37322]%N ++ runes_of_ascii "
//
`tab	here` //
, @lengthOf(
    T )
    @lengthOf(
uint8x)@rightPad ( '\x00' ) zchar[ 4294967296 // packet A { u8 x, }
]	f32a @calculatedFrom(
// " ++ [27880; 37322]%N ++ runes_of_ascii "
//x
""CRC32"")
    `it's`	, } // @lengthOf(
root // packet A { u8 x, }
packet	A
    { @rightPad
//	t
// packet A { u8 x, }
( )
    @calculatedFrom(""" ++ [233]%N ++ runes_of_ascii "t" ++ [233]%N ++ runes_of_ascii """ )	string T`crlf
line`
    ,
    u64 falsey `two words`
//x
// trailing space 
,zchar[ 65535	] lengthOf
`doc` , match // `tick` ""quote"" 'q'
crc
as int { [ ""packet"",
    ""it's""
    ]
: body ,007
:
    // a // b
    leftPad
,	""{,}"" :
    Z9_, [ 0123456789
    , 00
    , ""a\\"" // " ++ [128512]%N ++ runes_of_ascii " emoji
, """ ++ [128512]%N ++ runes_of_ascii """  , ""\" ++ [233]%N ++ runes_of_ascii """
    , ""`tick`"", ""it's"",
    """ ++ [233]%N ++ runes_of_ascii "t" ++ [233]%N ++ runes_of_ascii """]
: x_y_z,} // c
,}
")).
Eval vm_compute in ("<<<M1385>>>" ++ check (runes_of_ascii "options{ msg_type =
'0' ;
}
// trailing space 
// " ++ [27880; 37322]%N ++ runes_of_ascii "
packet
matchKey	{ @calculatedFrom( ""x y"" )
    zchar[
10 ]metadata , Z9_
@calculatedFrom(""packet"" ), zchar[ 4294967296]
packetx `doc` ,tag
@lengthOf(packetx
) , // c
@rightPad() u
T , char[3// " ++ [128512]%N ++ runes_of_ascii " emoji
]int , @calculatedFrom( ""CRC32""
) repeat
    // @lengthOf(
    metadata {u128
@calculatedFrom(
"""")
, repeat i32
    Z9_
    ,  repeat uint64 trueish `a\` ,
    a1{
    //x
    uint8 _x // packet A { u8 x, }
@lengthOf( _x  ) // trailing space 
, } ,}  , match
options1
as leftPad  { //
""" ++ [28040; 24687]%N ++ runes_of_ascii """
    :
    u8x ,1:
body ,}/// triple
, @calculatedFrom( ""1""
) match T as Foo {  255 : T, } , } options{ } options { }")).
Eval vm_compute in ("<<<M4262>>>" ++ check (runes_of_ascii "packet BodyLength {
    char[255] _x,
    match body as repeatCount {
        ""{,}"" : len,
    },
    char[0] Logon @calculatedFrom(""{,}""),
    @rightPad()
    i64_ @calculatedFrom(""it's"") `crlf
        line`,
}

packet Header {
    match As as chars {
        7 : packetx,
        [""it's""] : u128,
        [4294967296, ""{,}""] : f32a,
    },
}

packet asx {
    @calculatedFrom(""1"")
    a1,
    //
    //x
    match x_y_z as crc {
        // `tick` ""quote"" 'q'
        // `tick` ""quote"" 'q'
        ""CRC32"" : As,
        7 : o,
    },
    match msg_type as Packet {
        """ ++ [233]%N ++ runes_of_ascii "t" ++ [233]%N ++ runes_of_ascii """ : metadata,
    },
    repeat u8 i64_,// a // b
}")).
Eval vm_compute in ("<<<M528>>>" ++ check (runes_of_ascii "
packet x_y_z // " ++ [27880; 37322]%N ++ runes_of_ascii "
{ x_y_z @calculatedFrom(""CRC32"" )
, x{ char[	0123456789 ]
    msg_type @lengthOf( float
    ), body
    calculatedFrom `line1
line2`
, match
Header
as stringy
    { [ 255 ] :x , 10: options1 // trailing space 
, } ,
    } , repeat char[] options1 `u8 x,`// " ++ [128512]%N ++ runes_of_ascii " emoji
, metadata @calculatedFrom(""\" ++ [233]%N ++ runes_of_ascii """
    //
    )
`` , string
falsey ,
    @rightPad
    // packet A { u8 x, }
    ( ' '
) @tag( 007 ) string repeatCount ,
    options1 @calculatedFrom(
// c
//
""packet"")// @lengthOf(
,
@lengthOf(
    BodyLength ) char[] matchKey//x
@calculatedFrom( ""a	b"" ),} // packet A { u8 x, }")).
Eval vm_compute in ("<<<M595>>>" ++ check (runes_of_ascii "
options
{asx =
    // " ++ [27880; 37322]%N ++ runes_of_ascii "
    string ;}options
// " ++ [27880; 37322]%N ++ runes_of_ascii "
// trailing space 
{ repeatCount = zchar[0
    ] ; leftPad
// packet A { u8 x, }
// @lengthOf(
=
    string
    ; uint8x
= '0'
    ; }
//x
//	t
root packet uint8x { trueish x_y_z , As
// a // b
//	t
, zchar[//
00 ] uint8x @lengthOf( a1 ) //
`say ""hi""`
    ,
    @leftPad
    (  )
zchar[ 4294967296 ]
    // @lengthOf(
    metadata
    `say ""hi""` ,float32 u128
`line1
line2`, char[ 10]
    // " ++ [27880; 37322]%N ++ runes_of_ascii "
    lengthOf@calculatedFrom( ""CRC32""
) `doc` ,a1@lengthOf( chars )
,
    char[ 10 ] calculatedFrom
, repeat
uint32 As
    ,	}")).
Eval vm_compute in ("<<<M1148>>>" ++ check (runes_of_ascii "// packet A { u8 x, }
packet
    Foo { }
    packet i64_ {asx @lengthOf( a1 )`two words` , repeat
i64_ {char[]u `crlf
line`,char[
    10
    // @lengthOf(
    ] metadata,
    //
    a1  {
    repeat zchar[
    1
    ] len , char[ 00 // packet A { u8 x, }
]Z9_@calculatedFrom( ""a\\"" ) // " ++ [27880; 37322]%N ++ runes_of_ascii "
,	zchar[ 7 ] Header
    @lengthOf(	x ) , repeat//
pack,// @lengthOf(
}  , // trailing space 
}
    //x
    ,  match tag as u8x { ""{,}""
    : zchar ,  1
: metadata , """ ++ [233]%N ++ runes_of_ascii "t" ++ [233]%N ++ runes_of_ascii """
    :
a1 """ ++ [233]%N ++ runes_of_ascii "t" ++ [233]%N ++ runes_of_ascii """ : chars //
,[ ""a\\""]  :crc	} ,
    tag@calculatedFrom( """ ++ [128512]%N ++ runes_of_ascii """) , }
//
")).
Eval vm_compute in ("<<<M4504>>>" ++ check (runes_of_ascii "// top
packet P1 {
    u8 a,// c5a
}

packet P2 {
    // c9
    P1,// c11a
}

// c12
packet P3 {
    // c15
    P2,
    // c17
    P1,// c19
}// c20a

// c20b
packet P4 {
    // c23
    repeat P3,
    // c26
    P2,
}

// c29
root packet P5 {
    // c33a
    // c33b
    P4,// c35a
    // c35b
    P3,// c37
    P1,// c39
    u8 K,
    match K as Body {
        // c47a
        // c47b
        4 : P4,
        // c51a
        // c51b
        3 : P3,
        // c55a
        // c55b
        2 : P2,
        1 : P1,
    },
}")).
Eval vm_compute in ("<<<M4015>>>" ++ check (runes_of_ascii "packet A {
    Logon o,
    u8x {
        // @lengthOf(
        asx chars,
    },
    x o,
    @leftPad()
    // trailing space 
    As @lengthOf(u),
}

MetaData f32a {
    crc Logon,
}

root packet u128 {
    stringy Logon `a\`,
    @calculatedFrom(""1"")
    @leftPad('\x00')
    @tag(255)
    int64 stringy @lengthOf(lengthOf) `line1
        line2`,
    rootA `
        `,
    @calculatedFrom(""a	b"")
    // packet A { u8 x, }
    o @calculatedFrom(""`tick`"") `a\`,
    repeatCount @lengthOf(T),
}")).
Eval vm_compute in ("<<<M593>>>" ++ check (runes_of_ascii "root packet matchKey // trailing space 
{ // a // b
u8 roots `two words` , // " ++ [27880; 37322]%N ++ runes_of_ascii "
} //	t
root packet float {	@rightPad ( '0') i8i8
    , packetx @calculatedFrom( ""a\\""
) ,float32
    trueish
    `
`  ,
    @calculatedFrom(
""x y"" // c
)
    @lengthOf( //
o
// c
/// triple
) @lengthOf( uint8x ) i16 Logon
    , @leftPad (
    ' ' ) @lengthOf(
zchar	)
@lengthOf(
    x_y_z )
o
matchKey
    `" ++ [233]%N ++ runes_of_ascii "` ,
    match u8x	as Z9_  { ""a\""b"":// " ++ [27880; 37322]%N ++ runes_of_ascii "
_x , } , crc
BodyLength `it's` ,}
//
")).
Eval vm_compute in ("<<<M3555>>>" ++ check (runes_of_ascii "// top
options // c0
{ // c1a
  // c1b
LittleEndian =
    // c3
true // c4a
  // c4b
;
    // c5
} // c6a
  // c6b
packet
    // c7
B // c8
{
    // c9
u8 // c10
a // c11
, // c12
string
    // c13
s // c14a
  // c14b
, // c15
}
    // c16
root
    // c17
packet // c18
P // c19
{ // c20
u16 // c21a
  // c21b
L // c22a
  // c22b
@lengthOf( // c23
B // c24a
  // c24b
)
    // c25
, B
    // c27
,
    // c28
u8
    // c29
t , // c31a
  // c31b
} // c32
")).
Eval vm_compute in ("<<<M148>>>" ++ check (runes_of_ascii "packet Foo  { Logon A`a\`, a1 A
, @lengthOf(
//	t
// trailing space 
tag ) // trailing space 
x_y_z
@lengthOf( leftPad
    ) `it's`, @tag( 255 ) match crc// @lengthOf(
as  roots {
""" ++ [233]%N ++ runes_of_ascii "t" ++ [233]%N ++ runes_of_ascii """	:Foo ,[ 10 , 007 //
, // a // b
""" ++ [233]%N ++ runes_of_ascii "t" ++ [233]%N ++ runes_of_ascii """ ,
// c
// @lengthOf(
""a	b""]
    :x_y_z}
    , // @lengthOf(
}  root packet As { }	MetaData calculatedFrom // trailing space 
{ Z9_ _x ``	,
} MetaData tag { // " ++ [27880; 37322]%N ++ runes_of_ascii "
string body , string options1 ,i8i8 pack, }
")).
Eval vm_compute in ("<<<M1368>>>" ++ check (runes_of_ascii "
root  packet crc  { @leftPad (
    '0'
) @lengthOf( float)roots
    Logon `u8 x,` , char[ 3
] repeatCount `a\`
// `tick` ""quote"" 'q'
// @lengthOf(
,match
uint8x as//x
msg_type{ 10
:  body , 0123456789  :o
} ,
repeat x
// c
// c
{ uint8 roots
@calculatedFrom( ""abc"" ) `" ++ [28040; 24687; 31867; 22411]%N ++ runes_of_ascii "`,
}
, } packet //	t
calculatedFrom
{uint8 MetaDataX `// not a comment` , }
packet crc {
Z9_
{ repeat crc `doc`
,Z9_ ``,  }, }
// a // b
")).
Eval vm_compute in ("<<<M3821>>>" ++ check (runes_of_ascii "
options

    { i8i8 = 65535 ;
asx /// triple
	  =
    float64  charz 
=""`tick`""

As	//
  = 7
	;  i8i8 =""\n"" } 
    // `tick` ""quote"" 'q'
  // " ++ [27880; 37322]%N ++ runes_of_ascii "
    packet
u {
} options

    { 
    // packet A { u8 x, }
/// triple
		f32a
=10	chars 	 // trailing space 

  =

    ""\" ++ [233]%N ++ runes_of_ascii """

x
=
	uint8	;metadata
    =42
    ; lengthOf =true ;
	}options {
    // " ++ [27880; 37322]%N ++ runes_of_ascii "
      // " ++ [128512]%N ++ runes_of_ascii " emoji
BodyLength=
	true ;  }
")).
Eval vm_compute in ("<<<M4319>>>" ++ check (runes_of_ascii "MetaData MetaDataX {
    i64_ leftPad,
    zchar[7] u8x `" ++ [28040; 24687; 31867; 22411]%N ++ runes_of_ascii "`,
    zchar[00] crc `crlf
    line`,
    char[255] zchar,
    u32 x `tab	here`,
    i64_ falsey `it's`,
}

MetaData A {
    char[7] calculatedFrom `two words`,
    asx asx `tab	here`,
    float64 trueish,
    zchar[42] f32a `tab	here`,
    char[] u128,
}

packet uint8x {
    @tag(1)
    repeat char[] Packet,
}// c")).
Eval vm_compute in ("<<<M4002>>>" ++ check (runes_of_ascii "
packet	packetx {
match
	i64_ as  roots
        // trailing space 
    	// c
  {
	7 :	x
42 :asx
    // @lengthOf(
    ,
	65535
: 
i64_  [
    00// `tick` ""quote"" 'q'
  ,1 ]
    : 
Z9_ [	// c

	""\n""
	, 3 , 007]:
    float,}
,	}
MetaData
	metadata{	char[]

    Header `" ++ [28040; 24687; 31867; 22411]%N ++ runes_of_ascii "` , Foo  stringy
, uint64
	body

    ,
f32
a1  ,

} packet
    chars
	{ 
}
")).
Eval vm_compute in ("<<<M4444>>>" ++ check (runes_of_ascii "  MetaData

u
	{ 
}
options {
// c
  // @lengthOf(@x
    float
=
int8; 
rootA=false
;As

    = int16// `tick` ""quote"" 'q'

	repeatCount
    // trailing space 

  =
int16
    ;	u8x=  
      //	t
    '\x00';} options{repeatCount	=
	0

    u128 
	//
	=	false
;
i64_  
  // trailing space 
    // `tick` ""quote"" 'q'
=
    '0'

; //	t
  }
")).
Eval vm_compute in ("<<<M330>>>" ++ check (runes_of_ascii "root packet calculatedFrom { @lengthOf( asx )	T{
repeat
/// triple
//x
packetx A  ,
match // " ++ [27880; 37322]%N ++ runes_of_ascii "
string_ as msg_type { [""abc""] :
As 0123456789 :  repeatCount
    , ""a\""b"" :
roots, } , },uint8x BodyLength `{ , }`
, string  BodyLength,@leftPad(
    '\x00'
) repeat calculatedFrom { uint32 //	t
trueish ,/// triple
}, // c
} // a // b")).
Eval vm_compute in ("<<<M3725>>>" ++ check (runes_of_ascii "
options	{ 	 /// triple
      }

    MetaData
Logon	// packet A { u8 x, }
  { char[ 65535

    ] i8i8 ,}

options

{u128
	= 
f64 options1 =
	int8

    ;Packet 
// " ++ [27880; 37322]%N ++ runes_of_ascii "
    	=true;	falsey = char[
255	] uint8x

=
    uint32

;
	}
    MetaData 
	//x
  // trailing space 
    	i64_{ } packet	BodyLength
{ }	// a // b
")).
Eval vm_compute in ("<<<M2023>>>" ++ check (runes_of_ascii "MetaData
    u { }  options {
// c
// @lengthOf(
float = int8 ;rootA =false ; As =	int16 // `tick` ""quote"" 'q'
repeatCount
    // trailing space 
    =
    int16
; u8x =
    //	t
    '\x00' ; } options	{
    repeatCount
= 0
u128
    //
    = MetaDataX ; i64_
// trailing space 
// `tick` ""quote"" 'q'
= '0' ; //	t
}
")).
Eval vm_compute in ("<<<M2016>>>" ++ check (runes_of_ascii "MetaData
    u { }  options {
// c
// @lengthOf(
float = int8 ;rootA =false ; As =	int16 // `tick` ""quote"" 'q'
repeatCount
    // trailing space 
    =
    int16
; u8x =
    //	t
    '\x00' ; } options	{
    repeatCount
= 0
u128
    //
    = = false ; i64_
// trailing space 
// `tick` ""quote"" 'q'
= '0' ; //	t
}
")).
Eval vm_compute in ("<<<M1863>>>" ++ check (runes_of_ascii "MetaData
    ( { }  options {
// c
// @lengthOf(
float = int8 ;rootA =false ; As =	int16 // `tick` ""quote"" 'q'
repeatCount
    // trailing space 
    =
    int16
; u8x =
    //	t
    '\x00' ; } options	{
    repeatCount
= 0
u128
    //
    = false ; i64_
// trailing space 
// `tick` ""quote"" 'q'
= '0' ; //	t
}
")).
Eval vm_compute in ("<<<M2012>>>" ++ check (runes_of_ascii "MetaData
    u { }  options {
// c
// @lengthOf(
float = int8 ;rootA =false ; As =	int16 // `tick` ""quote"" 'q'
repeatCount
    // trailing space 
    =
    int16
; u8x =
    //	t
    '\x00' ; } options	{
    repeatCount
= 0
=
    //
    u128 false ; i64_
// trailing space 
// `tick` ""quote"" 'q'
= '0' ; //	t
}
")).
Eval vm_compute in ("<<<M2033>>>" ++ check (runes_of_ascii "MetaData
    u { }  options {
// c
// @lengthOf(
float = int8 ;rootA =false ; As =	int16 // `tick` ""quote"" 'q'
repeatCount
    // trailing space 
    =
    int16
; u8x =
    //	t
    '\x00' ; } options	{
    repeatCount
= 0
u128
    //
    = false ; `
`
// trailing space 
// `tick` ""quote"" 'q'
= '0' ; //	t
}
")).
Eval vm_compute in ("<<<M4506>>>" ++ check (runes_of_ascii "  options
    {
chars 
=

    /// triple
    char;  o 
	    /// triple
=

true

u128

= 
""x y"" 
;	}
    packet	chars{@calculatedFrom(

    ""\n""	) repeat	f64 packetx ,@tag( 4294967296  )  float32
	Header ,

zchar[

007	]
float
    `// not a comment`

, }
options {
stringy
	=	zchar[
	7 ]
	;

    }
")).
Eval vm_compute in ("<<<M934>>>" ++ check (runes_of_ascii "packet metadata // `tick` ""quote"" 'q'
{ Z9_ @lengthOf(
// `tick` ""quote"" 'q'
// @lengthOf(
i64_)
, }
    packet pack
// " ++ [27880; 37322]%N ++ runes_of_ascii "
// " ++ [128512]%N ++ runes_of_ascii " emoji
{
options1
@lengthOf(asx
    ),
@leftPad( ' ' )
@calculatedFrom(	""abc"" )
// `tick` ""quote"" 'q'
// trailing space 
falsey , // trailing space 
char[ 3 ] rootA  , }
")).
Eval vm_compute in ("<<<M3592>>>" ++ check (runes_of_ascii "packet A {
    u8 a,
}
packet B {
    u16 b,
}
packet C {
    u32 c,
}
root packet M {
    u16 Kc, u16 Kb, u16 Ka,
    match Kc as X {
        9 : A,
        10 : B,
    },
    match Kb as Y {
        2 : C,
        1 : A,
    },
    match Ka as Z {
        1 : B,
    },
    A, B, C,
}
")).
Eval vm_compute in ("<<<M427>>>" ++ check (runes_of_ascii "packet
    packetx { @tag( 7 ) @calculatedFrom( ""`tick`"" ) @calculatedFrom( ""a\\""
)char[] int , @rightPad ( ' ' )	string// `tick` ""quote"" 'q'
tag `tab	here`
,@lengthOf(
    asx
)
u8 // c
repeatCount , @calculatedFrom(""// no comment"" )
//x
// trailing space 
zchar[
1] a1 ,}")).
Eval vm_compute in ("<<<M1638>>>" ++ check (runes_of_ascii "packet
//	t
// trailing space 
_x {
// packet A { u8 x, }
// c
char[
3
    ] u8x @lengthOf(
u8x ) , @calculatedFrom(""" ++ [128512]%N ++ runes_of_ascii """ // @lengthOf(
)
i16	Foo
@lengthOf(	string_
    )`doc`	, repeat	i64 metadata , @lengthOf( string_
) i8 // c
u  `line1
line2` `line1
line2`	,
}
")).
Eval vm_compute in ("<<<M1084>>>" ++ check (runes_of_ascii "packet
tag { int8 packetx , }packet Foo/// triple
{//x
repeatCount@calculatedFrom( ""x y"" /// triple
)
,char[00
] As @lengthOf( a1 )
`crlf
line`
,
    @tag( 10) len {  char[	10// " ++ [128512]%N ++ runes_of_ascii " emoji
] matchKey `" ++ [233]%N ++ runes_of_ascii "` , f32a@lengthOf( u128
    )
    `it's` ,
    } ,
}
")).
Eval vm_compute in ("<<<M1553>>>" ++ check (runes_of_ascii "packet
//	t
// trailing space 
_x {
// packet A { u8 x, }
// c
char[
3
    ] u8x @lengthOf(
u8x ) , @calculatedFrom(""" ++ [128512]%N ++ runes_of_ascii """ // @lengthOf(
) )
i16	Foo
@lengthOf(	string_
    )`doc`	, repeat	i64 metadata , @lengthOf( string_
) i8 // c
u  `line1
line2`	,
}
")).
Eval vm_compute in ("<<<M457>>>" ++ check (runes_of_ascii "packet options1 // a // b
{ @leftPad ('0' )// " ++ [128512]%N ++ runes_of_ascii " emoji
match uint8x as
    // `tick` ""quote"" 'q'
    T{
42 : stringy ,[""1"" ] :i64_,//
3
:
    string_
    , ""a\\"" : metadata  , ""CRC32"" :
int
    //x
    ""packet""
:
    rootA, } , } root packet i8i8
{ }")).
Eval vm_compute in ("<<<M1614>>>" ++ check (runes_of_ascii "packet
//	t
// trailing space 
_x {
// packet A { u8 x, }
// c
char[
3
    ] u8x @lengthOf(
u8x ) , @calculatedFrom(""" ++ [128512]%N ++ runes_of_ascii """ // @lengthOf(
)
i16	Foo
@lengthOf(	string_
    )`doc`	, repeat	i64 metadata , string_ @lengthOf(
) i8 // c
u  `line1
line2`	,
}
")).
Eval vm_compute in ("<<<M1620>>>" ++ check (runes_of_ascii "packet
//	t
// trailing space 
_x {
// packet A { u8 x, }
// c
char[
3
    ] u8x @lengthOf(
u8x ) , @calculatedFrom(""" ++ [128512]%N ++ runes_of_ascii """ // @lengthOf(
)
i16	Foo
@lengthOf(	string_
    )`doc`	, repeat	i64 metadata , @lengthOf( @tag(
) i8 // c
u  `line1
line2`	,
}
")).
Eval vm_compute in ("<<<M1617>>>" ++ check (runes_of_ascii "packet
//	t
// trailing space 
_x {
// packet A { u8 x, }
// c
char[
3
    ] u8x @lengthOf(
u8x ) , @calculatedFrom(""" ++ [128512]%N ++ runes_of_ascii """ // @lengthOf(
)
i16	Foo
@lengthOf(	string_
    )`doc`	, repeat	i64 metadata , @lengthOf( 
) i8 // c
u  `line1
line2`	,
}
")).
Eval vm_compute in ("<<<M1652>>>" ++ check (runes_of_ascii "packet
//	t
// trailing space 
_x {
// packet A { u8 x, }
// c
char[
3
    ] u8x @lengthOf(
u8x ) , @calculatedFrom(""" ++ [128512]%N ++ runes_of_ascii """ // @lengthOf(
)
i16	Foo
@lengthOf(	string_
    )`doc`	, repeat	i64 metadata , @lengthOf( string_
) i8 // c
u  `line1")).
Eval vm_compute in ("<<<M2014>>>" ++ check (runes_of_ascii "MetaData
    u { }  options {
// c
// @lengthOf(
float = int8 ;rootA =false ; As =	int16 // `tick` ""quote"" 'q'
repeatCount
    // trailing space 
    =
    int16
; u8x =
    //	t
    '\x00' ; } options	{
    repeatCount
= 0")).
Eval vm_compute in ("<<<M4556>>>" ++ check (runes_of_ascii "

  options
{
	i64_
=
true}
root 
packet	// c
repeatCount{
	u32	Foo//	t
    	,int8

    rootA
	, 
zchar[0
	] MetaDataX,@calculatedFrom(
	""a\""b""  )	char o  , 	 // " ++ [128512]%N ++ runes_of_ascii " emoji

}

packet i64_
{ } 	 //
  	packet
    Foo{}
")).
Eval vm_compute in ("<<<M1742>>>" ++ check (runes_of_ascii "options { trueish = ""`tick`"" ; string_= """ ++ [233]%N ++ runes_of_ascii "t" ++ [233]%N ++ runes_of_ascii """
    // c
    } root
    packet body { stringy stringy @calculatedFrom(
""a	b"" ) `line1
line2` , }
packet Logon {
    @leftPad(
    ' ' ) //	t
u16 string_ `u8 x,` ,
}
")).
Eval vm_compute in ("<<<M1769>>>" ++ check (runes_of_ascii "options { trueish = ""`tick`"" ; string_= """ ++ [233]%N ++ runes_of_ascii "t" ++ [233]%N ++ runes_of_ascii """
    // c
    } root
    packet body { stringy @calculatedFrom(
""a	b"" ) `line1
line2` char[ }
packet Logon {
    @leftPad(
    ' ' ) //	t
u16 string_ `u8 x,` ,
}
")).
Eval vm_compute in ("<<<M1843>>>" ++ check (runes_of_ascii "options { trueish = ""`tick`"" ; string_= """ ++ [233]%N ++ runes_of_ascii "t" ++ [233]%N ++ runes_of_ascii """
    // c
    } root
    packet body { stringy @calculatedFrom(
""a	b"" ) `line1
line2` , }
packet Logon {
    @leftPad@x(
    ' ' ) //	t
u16 string_ `u8 x,` ,
}
")).
Eval vm_compute in ("<<<M1718>>>" ++ check (runes_of_ascii "options { trueish = ""`tick`"" ; string_= """ ++ [233]%N ++ runes_of_ascii "t" ++ [233]%N ++ runes_of_ascii """
    // c
    root }
    packet body { stringy @calculatedFrom(
""a	b"" ) `line1
line2` , }
packet Logon {
    @leftPad(
    ' ' ) //	t
u16 string_ `u8 x,` ,
}
")).
Eval vm_compute in ("<<<M1686>>>" ++ check (runes_of_ascii "options { trueish  ""`tick`"" ; string_= """ ++ [233]%N ++ runes_of_ascii "t" ++ [233]%N ++ runes_of_ascii """
    // c
    } root
    packet body { stringy @calculatedFrom(
""a	b"" ) `line1
line2` , }
packet Logon {
    @leftPad(
    ' ' ) //	t
u16 string_ `u8 x,` ,
}
")).
Eval vm_compute in ("<<<M1694>>>" ++ check (runes_of_ascii "options { trueish = f32 ; string_= """ ++ [233]%N ++ runes_of_ascii "t" ++ [233]%N ++ runes_of_ascii """
    // c
    } root
    packet body { stringy @calculatedFrom(
""a	b"" ) `line1
line2` , }
packet Logon {
    @leftPad(
    ' ' ) //	t
u16 string_ `u8 x,` ,
}
")).
Eval vm_compute in ("<<<M3534>>>" ++ check (runes_of_ascii "// top
packet // c0
Inner
    // c1
{ u8 a , // c5
} root packet // c8
P
    // c9
{ // c10
Inner
    // c11
ref_obj // c12
, // c13a
  // c13b
u8 // c14
x
    // c15
, // c16a
  // c16b
} // c17
")).
Eval vm_compute in ("<<<M4097>>>" ++ check (runes_of_ascii "  packet 	 // c
Pad  { @calculatedFrom(

    ""1"")

    pack	//
  	leftPad
    `doc`	,	char[ /// triple
	007

] i8i8 @calculatedFrom(""// no comment"") , } options//
		{
pack

='\x00'
; }")).
Eval vm_compute in ("<<<M404>>>" ++ check (runes_of_ascii "MetaData
    Header { A float , } MetaData Pad { // trailing space 
string float `a\` ,
char[] tag
    ,
    // packet A { u8 x, }
    matchKey BodyLength ,char[ 65535 ] Header
, }")).
Eval vm_compute in ("<<<M3980>>>" ++ check (runes_of_ascii "options {
    metadata = char[10]
    tag = 007;
    stringy = 0;
    x_y_z = true;
}

root packet o {
    @tag(3)
    @leftPad('0')
    @tag(00)
    i64_ @lengthOf(falsey),
}")).
Eval vm_compute in ("<<<M997>>>" ++ check (runes_of_ascii "options { int = zchar[ // packet A { u8 x, }
65535] ; zchar
//x
// trailing space 
=  ' ' ;
chars= // packet A { u8 x, }
""\" ++ [233]%N ++ runes_of_ascii """ ;
    Z9_  = '\x00' ;x_y_z = //	t
false }")).
Eval vm_compute in ("<<<M4408>>>" ++ check (runes_of_ascii "

  packet 
A
    { 
match k	as
	n

    {
[
    ""a"" ,

22 , ""c c"" , 
4,

    ""e""
	,	66	, ""g""	,
    8

,	""i"" ,
	10 ] :

    B 2

    :  C
    }

    ,

}
")).
Eval vm_compute in ("<<<M2152>>>" ++ check (runes_of_ascii "options{
_x
= true
} options
{ o	= /// triple
false
    ; chars
= ""\n"" ""`tick`"" root packet	Pad
/// triple
// packet A { u8 x, }
{	chars
    // a // b
    ,}")).
Eval vm_compute in ("<<<M2376>>>" ++ check (runes_of_ascii "// c
packet x { @lengthOf( metadata ) repeat lengthOf
,char[{
trueish	,// c
repeat//	t
MetaDataX , } , zchar[
    42	] rootA // `tick` ""quote"" 'q'
,
    }
")).
Eval vm_compute in ("<<<M2328>>>" ++ check (runes_of_ascii "// c
p?acket x { @lengthOf( metadata ) repeat lengthOf
,a1{
trueish	,// c
repeat//	t
MetaDataX , } , zchar[
    42	] rootA // `tick` ""quote"" 'q'
,
    }
")).
Eval vm_compute in ("<<<M2350>>>" ++ check (runes_of_ascii "// c
packet x { metadata @lengthOf( ) repeat lengthOf
,a1{
trueish	,// c
repeat//	t
MetaDataX , } , zchar[
    42	] rootA // `tick` ""quote"" 'q'
,
    }
")).
Eval vm_compute in ("<<<M2375>>>" ++ check (runes_of_ascii "// c
packet x { @lengthOf( metadata ) repeat lengthOf
,a1{
trueish	,// c
repeat//	t
MetaDataX ,  , zchar[
    42	] rootA // `tick` ""quote"" 'q'
,
    }
")).
Eval vm_compute in ("<<<M2176>>>" ++ check (runes_of_ascii "options{
_x
= true
} options
{ o	= /// triple
false
    ; chars
= ""\n"" } root packet	Pad
/// triple
// packet A { u8 x, }
{	,
    // a // b
    chars}")).
Eval vm_compute in ("<<<M2167>>>" ++ check (runes_of_ascii "options{
_x
= true
} options
{ o	= /// triple
false
    ; chars
= ""\n"" } root packet	=
/// triple
// packet A { u8 x, }
{	chars
    // a // b
    ,}")).
Eval vm_compute in ("<<<M15>>>" ++ check (runes_of_ascii "options { matchKey
    =
10 } MetaData options1{
    matchKey o `doc` , rootA tag
,uint32 _x /// triple
`line1
line2`, char[] chars `say ""hi""`,  }")).
Eval vm_compute in ("<<<M4374>>>" ++ check (runes_of_ascii "//
packet int {
    @leftPad('\x00')
    MetaDataX @lengthOf(u128),
    u a1 `doc`,
    @calculatedFrom(""a\""b"")
    i16 repeatCount `tab	here`,
}")).
Eval vm_compute in ("<<<M417>>>" ++ check (runes_of_ascii "  options {  }
root  packet i8i8 { } packet
asx {
    f64
pack,@calculatedFrom( ""a\\""	)zchar[	255	]rootA `it's`
    // c
    , // " ++ [27880; 37322]%N ++ runes_of_ascii "
} // " ++ [27880; 37322]%N)).
Eval vm_compute in ("<<<M3525>>>" ++ check (runes_of_ascii "root packet
    // c1
P
    // c2
{ // c3a
  // c3b
char // c4a
  // c4b
c , // c6
u8 // c7a
  // c7b
x , // c9a
  // c9b
}
    // c10
")).
Eval vm_compute in ("<<<M1285>>>" ++ check (runes_of_ascii "root	packet rootA
/// triple
//	t
{
    @lengthOf( A) zchar[
    65535 ]len	`a\` ,  } root packet
packetx
{ uint8 i8i8 , }
// c
")).
Eval vm_compute in ("<<<M4294>>>" ++ check (runes_of_ascii "packet 

    //	t
	//x
    As

{ matchKey
@lengthOf(	string_),

    matchKey
    `say ""hi""`  // packet A { u8 x, }
  , }

")).
Eval vm_compute in ("<<<M1435>>>" ++ check (runes_of_ascii "
packet
    falsey { Header@calculatedFrom(""packet""  ) zchar[ char[
    0123456789 ] packetx
    , } // `tick` ""quote"" 'q'")).
Eval vm_compute in ("<<<M3326>>>" ++ check (runes_of_ascii "root packet matchKey { zchar[ 3 ] pack // c
@calculatedFrom( ""a	b"" ) `doc` , } options { } MetaData A { int8 msg_type , }")).
Eval vm_compute in ("<<<M3542>>>" ++ check (runes_of_ascii "packet B {
    u8 a,
}
root packet P {
    u8 K,
    u8 L @lengthOf(Body),
    match K as Body {
        1 : B,
    },
}
")).
Eval vm_compute in ("<<<M1482>>>" ++ check (runes_of_ascii "
packet
    falsey { Header@calculatedFrom(""packet""  ) , char[
    0123456789 ] packetx
  #  , } // `tick` ""quote"" 'q'")).
Eval vm_compute in ("<<<M307>>>" ++ check (runes_of_ascii "
packet Logon // " ++ [27880; 37322]%N ++ runes_of_ascii "
{f32 _x
,} MetaData u8x {float32 leftPad, tag
    leftPad `say ""hi""`
    ,i16 tag `say ""hi""`,}
")).
Eval vm_compute in ("<<<M6>>>" ++ check (runes_of_ascii "root	packet
    charz { // " ++ [128512]%N ++ runes_of_ascii " emoji
repeat char[65535
]
options1,} options  { As=
    //
    ""\n""
    } // a // b")).
Eval vm_compute in ("<<<M808>>>" ++ check (runes_of_ascii "MetaData string_{ Header
    u128`tab	here` ,i64 Z9_
// " ++ [27880; 37322]%N ++ runes_of_ascii "
/// triple
, x matchKey
,string
u, f64
    Foo, }

")).
Eval vm_compute in ("<<<M3698>>>" ++ check (runes_of_ascii "
packet o

{ 
// c
repeat  Logon
    uint8x

    ,
	} options {
    asx
=  zchar[ 3	]
stringy  ='\x00'

}")).
Eval vm_compute in ("<<<M2993>>>" ++ check (runes_of_ascii "packet A {
  match k as n {
    [1, ""bb"", 007, ""d"", 5, ""f"", 7, ""h"", 9, ""j"", 11, ""l""] : B
    2 : C
  },
}")).
Eval vm_compute in ("<<<M3866>>>" ++ check (runes_of_ascii "packet chars {
}

packet MetaDataX {
    @tag(42)
    // c
    i16 string_,
    repeat x `say ""hi""`,
}")).
Eval vm_compute in ("<<<M26>>>" ++ check (runes_of_ascii "options // " ++ [27880; 37322]%N ++ runes_of_ascii "
{Packet = 4294967296
; i64_  = // c
""1"" ;	Z9_ = ""abc"" ; options1 =
""a\\""
; o=0  ; }")).
Eval vm_compute in ("<<<M2967>>>" ++ check (runes_of_ascii "packet A {
  match k as n {
    [1, ""bb"", 007, ""d"", 5, ""f"", 7, ""h"", 9, ""j""] : B
    2 : C
  },
}")).
Eval vm_compute in ("<<<M212>>>" ++ check (runes_of_ascii "root packet matchKey{f32a// " ++ [27880; 37322]%N ++ runes_of_ascii "
`u8 x,` ,	char[]u8x ,
@calculatedFrom( ""a\""b"" )
i32 i8i8 , }

")).
Eval vm_compute in ("<<<M2277>>>" ++ check (runes_of_ascii "options
{ } options { BodyLength= u16 Header= f64 ; u128 =
    true true
    ; } // a // b")).
Eval vm_compute in ("<<<M2288>>>" ++ check (runes_of_ascii "options
{ } options { BodyLength= u16 Header= f64 ; u128 =
    true
    ; true // a // b")).
Eval vm_compute in ("<<<M3294>>>" ++ check (runes_of_ascii "MetaData float { float64 charz `
` , } root packet chars { @rightPad
// c
( '0' ) Foo , }")).
Eval vm_compute in ("<<<M3505>>>" ++ check (runes_of_ascii "packet chars { } packet MetaDataX { @tag( 42 ) i16 // c
string_ , repeat x `say ""hi""` , }")).
Eval vm_compute in ("<<<M2308>>>" ++ check (runes_of_ascii "options
{ } options { BodyLength= u16 Header= f64 ; caf" ++ [233]%N ++ runes_of_ascii "_1 =
    true
    ; } // a // b")).
Eval vm_compute in ("<<<M3248>>>" ++ check (runes_of_ascii "packet metadata { Logon { A `" ++ [28040; 24687; 31867; 22411]%N ++ runes_of_ascii "` , tag o , } , zchar len `// not a comment` , }
// c
")).
Eval vm_compute in ("<<<M3211>>>" ++ check (runes_of_ascii "// c
packet metadata { Logon { A `" ++ [28040; 24687; 31867; 22411]%N ++ runes_of_ascii "` , tag o , } , zchar len `// not a comment` , }")).
Eval vm_compute in ("<<<M3244>>>" ++ check (runes_of_ascii "packet metadata { Logon { A `" ++ [28040; 24687; 31867; 22411]%N ++ runes_of_ascii "` , tag o , } , zchar len `// not a comment`
// c
, }")).
Eval vm_compute in ("<<<M3432>>>" ++ check (runes_of_ascii "packet o
// c
{ repeat Logon uint8x , } options { asx = zchar[ 3 ] stringy = '\x00' }")).
Eval vm_compute in ("<<<M3464>>>" ++ check (runes_of_ascii "packet o { repeat Logon uint8x , } options { asx = zchar[ 3 ] stringy = '\x00'
// c
}")).
Eval vm_compute in ("<<<M3050>>>" ++ check (runes_of_ascii "packet A {
    u32 crc @calculatedFrom(""x\
y""),
    @calculatedFrom(""x\
y"") u8 y,
}")).
Eval vm_compute in ("<<<M3409>>>" ++ check (runes_of_ascii "MetaData body { i64 pack `it's` , }
// c
packet stringy { int16 calculatedFrom , }")).
Eval vm_compute in ("<<<M1934>>>" ++ check (runes_of_ascii "MetaData
    u { }  options {
// c
// @lengthOf(
float = int8 ;rootA =false ; As")).
Eval vm_compute in ("<<<M2919>>>" ++ check (runes_of_ascii "packet A {
  match k as n {
    [1, 22, ""c c"", 4, 5, ""f""] : B
    2 : C
  },
}")).
Eval vm_compute in ("<<<M2289>>>" ++ check (runes_of_ascii "options
{ } options { BodyLength= u16 Header= f64 ; u128 =
    true
    ;")).
Eval vm_compute in ("<<<M355>>>" ++ check (runes_of_ascii "options { leftPad= int32 // packet A { u8 x, }
}
// packet A { u8 x, }
")).
Eval vm_compute in ("<<<M4166>>>" ++ check (runes_of_ascii "// " ++ [128512]%N ++ runes_of_ascii " emoji
options {
    repeatCount = u32;
    tag = ' ';
}// a // b")).
Eval vm_compute in ("<<<M3008>>>" ++ check (runes_of_ascii "packet A {
    B b `a
b`,
    B `a
b`,
    repeat B bs `a
b`,
}")).
Eval vm_compute in ("<<<M474>>>" ++ check (runes_of_ascii "MetaData
pack {// " ++ [27880; 37322]%N ++ runes_of_ascii "
string //	t
float,
char[]	options1
, }
")).
Eval vm_compute in ("<<<M770>>>" ++ check (runes_of_ascii "MetaData x
    /// triple
    {
int32 // " ++ [27880; 37322]%N ++ runes_of_ascii "
a1`say ""hi""`	, }
")).
Eval vm_compute in ("<<<M190>>>" ++ check (runes_of_ascii "MetaData zchar
    {  i32 Z9_ `say ""hi""` ,
    } // a // b")).
Eval vm_compute in ("<<<M3384>>>" ++ check (runes_of_ascii "packet x { @rightPad ( ) repeat roots Logon `doc`
// c
, }")).
Eval vm_compute in ("<<<M2823>>>" ++ check (runes_of_ascii "as @leftPad char true @leftPad f32 MetaData int16 Logon")).
Eval vm_compute in ("<<<M3529>>>" ++ check (runes_of_ascii "root packet P
	{

    repeat char cs, u8 x

,  }

")).
Eval vm_compute in ("<<<M601>>>" ++ check (runes_of_ascii "packet Header
    { msg_type /// triple
,
    }")).
Eval vm_compute in ("<<<M3467>>>" ++ check (runes_of_ascii "// top
MetaData // c0
o // c1
{ // c2
} // c3
")).
Eval vm_compute in ("<<<M2353>>>" ++ check (runes_of_ascii "// c
packet x { @lengthOf( metadata ) repeat")).
Eval vm_compute in ("<<<M3841>>>" ++ check (runes_of_ascii "packet Logon 
{
string	u 
`two words`
,}
")).
Eval vm_compute in ("<<<M3193>>>" ++ check (runes_of_ascii "root packet u128 // c
{ chars `it's` , }")).
Eval vm_compute in ("<<<M2607>>>" ++ check (runes_of_ascii "packet A { match k as n { 1 : B,, }, }")).
Eval vm_compute in ("<<<M2803>>>" ++ check (runes_of_ascii "]$_nDRt.|X+""9273[j3IdN7 pv0zmf0e*8[2")).
Eval vm_compute in ("<<<M4187>>>" ++ check (runes_of_ascii "packet As {
    stringy i8i8,
}// c")).
Eval vm_compute in ("<<<M2613>>>" ++ check (runes_of_ascii "packet A { match k n { 1 : B }, }")).
Eval vm_compute in ("<<<M3788>>>" ++ check (runes_of_ascii "packet	repeatCount  {

    }

")).
Eval vm_compute in ("<<<M3067>>>" ++ check (runes_of_ascii "packet A {
 u8 x `d" ++ [12288]%N ++ runes_of_ascii "`, // c" ++ [12288]%N ++ runes_of_ascii "
}")).
Eval vm_compute in ("<<<M463>>>" ++ check (runes_of_ascii "packet chars { i64 pack , }
")).
Eval vm_compute in ("<<<M3149>>>" ++ check (runes_of_ascii "packet A {
}// a// b// c
")).
Eval vm_compute in ("<<<M2703>>>" ++ check (runes_of_ascii "s>z""[<H>6@7M*]R*[1m;4X~)`")).
Eval vm_compute in ("<<<M4304>>>" ++ check (runes_of_ascii "
packet  f32a
    {
}

")).
Eval vm_compute in ("<<<M2576>>>" ++ check (runes_of_ascii "packet A { x `d` y, }")).
Eval vm_compute in ("<<<M4275>>>" ++ check (runes_of_ascii "MetaData leftPad {
}")).
Eval vm_compute in ("<<<M3474>>>" ++ check (runes_of_ascii "MetaData o // c
{ }")).
Eval vm_compute in ("<<<M3085>>>" ++ check (runes_of_ascii "packet A {
}
// c" ++ [8192]%N)).
Eval vm_compute in ("<<<M956>>>" ++ check (runes_of_ascii "packet
Z9_  {  }
")).
Eval vm_compute in ("<<<M296>>>" ++ check (runes_of_ascii "packet f32a {  }")).
Eval vm_compute in ("<<<M1869>>>" ++ check (runes_of_ascii "MetaData
    u")).
Eval vm_compute in ("<<<M3762>>>" ++ check (runes_of_ascii "packet A {
}")).
Eval vm_compute in ("<<<M2482>>>" ++ check (runes_of_ascii "@leftPad(")).
Eval vm_compute in ("<<<M2437>>>" ++ check (runes_of_ascii "zchar[]")).
Eval vm_compute in ("<<<M2795>>>" ++ check (runes_of_ascii "Hq=" ++ [65533]%N ++ runes_of_ascii "E" ++ [6]%N)).
Eval vm_compute in ("<<<M3079>>>" ++ check (runes_of_ascii "// c" ++ [5760]%N)).
Eval vm_compute in ("<<<M2527>>>" ++ check (runes_of_ascii "0x10")).
Eval vm_compute in ("<<<M2532>>>" ++ check (runes_of_ascii "a-b")).
Eval vm_compute in ("<<<M2537>>>" ++ check (runes_of_ascii "_1")).
