From FP Require Import Lexer Parser ShowPT Digest Formatter.
From Coq Require Import String List NArith.
Import ListNotations.
Open Scope string_scope.
Set Printing Width 100000000.
Set Printing Depth 100000000.
Definition show_fres (r : fres) : string :=
  match r with
  | FOk s => "OK:" ++ sh_escaped s ""
  | FErr s => "ERR:" ++ sh_escaped s ""
  | FPanic p => "PANIC:" ++ p
  end.
Definition check (rs : list rune) : string := digest (show_fres (format_res rs)).
Definition full (rs : list rune) : string := show_fres (format_res rs).
Eval vm_compute in ("<<<M4025>>>" ++ check (runes_of_ascii "
options

    { // c1a

// c1b
    	StringPrefixLenType =

    // c3
		u16	;  // c5

  ArrayPrefixLenType
    = 
	    // c7
    u8
	;

    FixedStringPadFromLeft// c10a
    // c10b
  =
        // c11

true	// c12
      ;	// c13a
// c13b
    FixedStringPadChar // c14
	  = 	 // c15
    	' '	;	// c17
  }	// c18a
  // c18b
  packet// c19

  Quote 
// c20
	{ 

// c21
      int64 
    // c22
	  OrderId  // c23a

// c23b
	,
char[] // c25
      Ref 	 // c26a

// c26b
    ,// c27
	@leftPad

( // c29a
	// c29b
    	'0' 
      // c30
) 	 // c31a
    	// c31b
  char[ 	 // c32a
  // c32b
5 	 // c33
]// c34a
// c34b
	price
,
} 
	// c37
    packet // c38
Heartbeat 	 // c39
  {
    zchar[  // c41
3 ]

    venue

    ,	// c45a

// c45b

  string// c46a
// c46b
  	Flags
	    // c47
  , // c48a
// c48b
}	packet	// c50
Trade 
      // c51
	{	// c52a

	// c52b
    repeat 
        // c53
InTag787 	 // c54
	{

i32 // c56
    	venue// c57

, 

    // c58
  	char[

    5
]// c61
  sym  // c62a
// c62b
	, 
	// c63
    repeat InPx98 // c65
	{char[ // c67a
    // c67b
		11
// c68
	]
	Qty
    // c70

	,// c71a

  // c71b
Heartbeat	// c72
		,

char[] // c74
		price  // c75
,// c76a
  // c76b
		u32	// c77a

// c77b

x 	 // c78
  , 
    // c79
		float64 	 // c80

count// c81a
      // c81b
  ,

repeat // c83
	Quote
// c84
  , 	 // c85a
	// c85b
  }	, 
      // c87
    zchar[  // c88a
    // c88b
	  7 
// c89
  	] 
	// c90
	Note

    // c91
  	, // c92a
    	// c92b
      repeat 
	// c93
	  char[  // c94a
  // c94b

1] // c96a

// c96b
	Tail // c97a
  // c97b
  	, 
	    // c98
	}	// c99a

	// c99b
	  ,	repeat  char[// c102

2 
    // c103
	]  // c104a
  // c104b

seqNo ,// c106a
      // c106b
  	InTail55 	 // c107a
	  // c107b
{ 	 // c108
      repeat 	 // c109a
		// c109b
    Quote 	 // c110
,  // c111
	string 
	    // c112

msgKind
,  // c114a
  // c114b
  InPx18 { 	 // c116a
	// c116b
char[]count
, 
// c119

  repeat// c120

Quote ,	// c122
uint16	// c123a

// c123b
    Qty
,

    // c125
	}

// c126
	,
	    // c127
char[ 	 // c128a
// c128b
	4

]  
      // c130
  seqNo 
    // c131
  ,
    // c132

repeat 	 // c133
	Heartbeat  
  // c134
  ,
repeat	string
sym // c138

, // c139a
// c139b
    } // c140
    , repeat 
      // c142

  Quote // c143
	,  // c144
	  Heartbeat // c145
,
	@leftPad
	(// c148
' ' 	 // c149

  )	char[  10 // c152a
  // c152b
  ] OrderId	// c154a
// c154b
  , // c155a
	// c155b
    	} 	 // c156
    	root  // c157a
// c157b
  packet // c158
    Fill 
    // c159

	{

    Heartbeat  
      // c161
	,
uint32	// c163a
		// c163b
    count
// c164

	,	// c165
	u8  // c166
    OrderId // c167
		, 
    // c168
	match
OrderId  // c170
    as
	// c171
	  Body
	// c172
	{
    // c173
  96 // c174
:	// c175
      Quote
    // c176
	  ,
	// c177

195 
    // c178
  :// c179
Trade // c180a

// c180b
  ,// c181a
  	// c181b
	187 
        // c182
  	: 
// c183
	  Heartbeat // c184
	,
    // c185
}
    // c186
  , u32 

// c188
venue 	 // c189
@calculatedFrom(
    // c190

  ""CRC32"")
        // c192
  ,
// c193
    }
")).
Eval vm_compute in ("<<<M3851>>>" ++ check (runes_of_ascii "
packet 
	    //
	// " ++ [128512]%N ++ runes_of_ascii " emoji
    body {
    @calculatedFrom( """ ++ [233]%N ++ runes_of_ascii "t" ++ [233]%N ++ runes_of_ascii """ 
)
body{o	@calculatedFrom( 
""" ++ [233]%N ++ runes_of_ascii "t" ++ [233]%N ++ runes_of_ascii """ 
) , } ,

char i8i8 @lengthOf(int
	)
`doc`  ,

    @rightPad (
)
	char[

    0

]
    tag@lengthOf( repeatCount) 
,

    @calculatedFrom( """" )x @calculatedFrom(

    """ ++ [28040; 24687]%N ++ runes_of_ascii """
)	,
    @calculatedFrom(

    """" )	// c
  Packet
    `u8 x,` , // trailing space 
    string x_y_z ,  string_
	charz `doc`	,  match

packetx as 
string_ {00 
:
asx	,
	[

""\n""
]  // " ++ [128512]%N ++ runes_of_ascii " emoji
      :

    float  ,
	[

""" ++ [28040; 24687]%N ++ runes_of_ascii """ 

// @lengthOf(
	/// triple
	  ,
	3 
]  :

Foo

, [
	0123456789 
, ""1""
] 
:
    o

""\" ++ [233]%N ++ runes_of_ascii """ : 
_x
,

    0123456789: matchKey} , @rightPad(' '

)stringy
{

match
calculatedFrom	as  o  {// c

  1
:
	x_y_z,  007

    :	pack  ,	3 : 
asx 
// trailing space 
,// " ++ [27880; 37322]%N ++ runes_of_ascii "
}  ,

}  , 
@calculatedFrom(  """" )@tag( 4294967296 )
    repeat	i64// packet A { u8 x, }

chars 
,  }
	packet 
roots	{
}  root
packet 
rootA
{

    @tag(255
)	pack
    `it's`

    ,  @lengthOf( f32a
	)	@tag( 
        // a // b
    	1
)	@tag(
	7 )
    // " ++ [128512]%N ++ runes_of_ascii " emoji
    Foo

    @calculatedFrom(
//x

//

""" ++ [128512]%N ++ runes_of_ascii """ )
	, repeat calculatedFrom {	string
    leftPad
	`doc`
,repeat crc{
pack

@calculatedFrom(  ""\" ++ [233]%N ++ runes_of_ascii """
    )
    , 
}  ,

    }
,

    string_  { match 
i64_ as u8x  {

0 :
    _x
, }  , 
}  , 
@lengthOf(
u128 ) 	 // trailing space 

match asx
	as
charz

    {
[ """" 
,

4294967296 ]	: A
    , // trailing space 
    1:  options1
    ,
	4294967296	:
pack  42
:
	charz,
[
	""`tick`""
,// a // b
	""x y"" 	 /// triple
,  // " ++ [27880; 37322]%N ++ runes_of_ascii "
	255
	] // packet A { u8 x, }

	: stringy
, }
	, 
@rightPad (
	' ') @lengthOf(  // c
    Packet

    )
	repeat

uint8x

trueish ,  }

MetaData	i8i8

    {	zchar[	10 ]  Z9_
, zchar[

0

    ]

    Header
`a\`  ,stringy roots // " ++ [27880; 37322]%N ++ runes_of_ascii "
  	,	}packet	options1  // c
  {char[ 10
    ]Pad
@calculatedFrom( ""\n""
	)

`// not a comment` 
,

    roots
	,
@calculatedFrom( 
""x y""
	) zchar
,

    @rightPad

(
'0'
)

repeat  string 

//x
//

  roots `say ""hi""` ,}
")).
Eval vm_compute in ("<<<M4318>>>" ++ check (runes_of_ascii "packet zchar {
    match calculatedFrom as repeatCount {
        [""{,}""] : zchar,
        00 : Pad,
        0 : pack,
    },// @lengthOf(
    f64 o `" ++ [28040; 24687; 31867; 22411]%N ++ runes_of_ascii "`,
    int32 f32a @lengthOf(body) `
        `,
    char[3] chars `crlf
        line`,
}

// @lengthOf(
// packet A { u8 x, }
MetaData metadata {
    string int,
    len lengthOf,
}

root packet A {
    @tag(0123456789)
    zchar[0123456789] BodyLength,
    @leftPad('0')
    @rightPad(' ')
    zchar[0123456789] tag `it's`,
    @tag(007)
    // trailing space 
    @tag(7)
    falsey @calculatedFrom(""\" ++ [233]%N ++ runes_of_ascii """),
    @calculatedFrom(""{,}"")
    repeat Packet,
    @lengthOf(u)
    @calculatedFrom(""a\""b"")
    @lengthOf(lengthOf)
    char[] uint8x,
    @leftPad('\x00')
    // trailing space 
    repeat T {
        i8i8 a1,
        char[65535] chars `u8 x,`,
        Pad,
    },
    @lengthOf(o)
    u8 x,
    @calculatedFrom(""a	b"")
    lengthOf `// not a comment`,
    A {
        repeat calculatedFrom matchKey,
        options1 @calculatedFrom(""a	b""),// trailing space 
        repeat u `line1
                line2`,
    },
}

packet i8i8 {
}

packet pack {
    zchar[0123456789] leftPad `
        `,
    @rightPad('\x00')
    repeat int `" ++ [28040; 24687; 31867; 22411]%N ++ runes_of_ascii "`,
    match Packet as BodyLength {
        [00, 7] : falsey,
    },
    @tag(00)
    repeat zchar[1] len `u8 x,`,
    @leftPad()
    rootA @lengthOf(len),
    @tag(42)
    // `tick` ""quote"" 'q'
    @lengthOf(i64_)
    repeat len {
        x {
            Logon {
                options1 Logon,
            },
            stringy {
                string body @lengthOf(tag),
            },
            falsey falsey,
        },
        MetaDataX roots `// not a comment`,
    },
}")).
Eval vm_compute in ("<<<M497>>>" ++ check (runes_of_ascii "
root
packet  a1 { uint64
    charz
,
BodyLength	_x`
`
    ,	u64 roots `tab	here`	,
match calculatedFrom as calculatedFrom { 10:  leftPad } ,
i64_ @calculatedFrom( ""// no comment"" )
,
match
// a // b
/// triple
len as BodyLength { [ ""CRC32"" //x
, ""\" ++ [233]%N ++ runes_of_ascii """]
:  MetaDataX , } ,uint64 trueish `u8 x,`// trailing space 
, repeat
i32 options1
,// @lengthOf(
}
packet pack//	t
{float32 asx
    `a\` , int64 charz
    //	t
    @lengthOf(  repeatCount ) `" ++ [28040; 24687; 31867; 22411]%N ++ runes_of_ascii "`, @lengthOf(	u8x )
BodyLength @calculatedFrom(  ""a\\"")  , @lengthOf(
    Packet )repeat
    u32 Pad	,/// triple
}	packet options1{
    @rightPad  ('0'
    )i8i8  @lengthOf( stringy) ,
int64
    As ,	f64 crc
    @lengthOf( u128 ) , rootA @calculatedFrom( ""1"" ) `a\`	,
    }packet _x { repeat T x_y_z
// trailing space 
// @lengthOf(
`line1
line2`
, }root	packet //x
Foo
{ @lengthOf(
Logon
) @calculatedFrom( ""{,}""
    ) @calculatedFrom( ""`tick`"" )match roots// packet A { u8 x, }
as charz	{ 7 :
string_
//
// `tick` ""quote"" 'q'
},u64// trailing space 
u@calculatedFrom( ""\" ++ [233]%N ++ runes_of_ascii """ )
// trailing space 
// a // b
,
@tag(
007 )
    // packet A { u8 x, }
    @lengthOf( zchar ) match body as trueish
{ [ 10
, ""packet"" ,3 ,
    0 ,
    00 , """"	]
:repeatCount
    // a // b
    , // " ++ [128512]%N ++ runes_of_ascii " emoji
[ // `tick` ""quote"" 'q'
4294967296 ]  : Logon [ ""CRC32"" , ""it's""
] :  x_y_z ,} ,  T x
,Pad , u8x T
`{ , }`  ,@lengthOf( As
    ) match o as repeatCount// a // b
{[
    255  ] :uint8x// a // b
, } , u128 Foo ,} 	 ")).
Eval vm_compute in ("<<<M823>>>" ++ check (runes_of_ascii "options
    {f32a
    =
'0' ; x_y_z
    =""\" ++ [233]%N ++ runes_of_ascii """ ;int	= ""1""	;  Z9_ = int16
; calculatedFrom =
true ;
}
MetaData
trueish{ x_y_z trueish `// not a comment`
, } packet zchar {@lengthOf(
As )
repeat
options1 { char[]
    //	t
    o @calculatedFrom( ""abc"" )
    , repeat pack /// triple
, }	, @calculatedFrom( ""a\""b"" ) Foo rootA
    ,match charz
as falsey { ""x y""
:x_y_z, 00 :	BodyLength ,  ""x y"" : x_y_z
, // @lengthOf(
}, Foo { repeat As{ repeat u A
    /// triple
    ,	repeat
Logon { uint8x @calculatedFrom(
""\n"" ) `{ , }` , i16 float ,},
f64 crc
`tab	here`
, repeat char[] As  ``
, } , calculatedFrom
{ match body as
    // a // b
    a1{
[""{,}"" , // trailing space 
""\n"" , """" // c
, ""1"" , """ ++ [128512]%N ++ runes_of_ascii """
    ] : BodyLength , ""a\\"" :	chars ,65535
: o// " ++ [27880; 37322]%N ++ runes_of_ascii "
[ ""\n"" ] : options1
    ""CRC32""	: BodyLength,},
repeat o {
    string
    rootA// c
, } ,
repeat  zchar[
65535 ] matchKey `" ++ [28040; 24687; 31867; 22411]%N ++ runes_of_ascii "`,
    }, char[]
    rootA `// not a comment` ,repeat
    T	Logon
`" ++ [28040; 24687; 31867; 22411]%N ++ runes_of_ascii "` , },
    @leftPad ( )@tag( 00
// " ++ [27880; 37322]%N ++ runes_of_ascii "
// " ++ [27880; 37322]%N ++ runes_of_ascii "
)@lengthOf(
Pad
    // packet A { u8 x, }
    )  match A as
a1{
    //
    65535 :stringy	[ ""a\""b"" // " ++ [128512]%N ++ runes_of_ascii " emoji
,
// a // b
// packet A { u8 x, }
""a\\"" ] :
/// triple
// trailing space 
As ,
// " ++ [27880; 37322]%N ++ runes_of_ascii "
//
""// no comment""
: repeatCount
    , """": body[""" ++ [28040; 24687]%N ++ runes_of_ascii """
    , """ ++ [233]%N ++ runes_of_ascii "t" ++ [233]%N ++ runes_of_ascii """]
    // @lengthOf(
    :
options1  , }, } // trailing space ")).
Eval vm_compute in ("<<<M281>>>" ++ check (runes_of_ascii "
packet leftPad { // packet A { u8 x, }
@leftPad ( ' '
)
repeat
    x
`" ++ [233]%N ++ runes_of_ascii "` ,
repeat
    pack ,
// a // b
// a // b
uint32  A , // @lengthOf(
@tag(10  )@leftPad
    ( )
    @calculatedFrom( ""a	b"" ) u32 stringy @lengthOf( lengthOf ) , Foo`line1
line2` , crc `u8 x,`  ,// @lengthOf(
} options {//
x = float64
    // trailing space 
    ; u8x = //x
""" ++ [128512]%N ++ runes_of_ascii """ ; pack =
// `tick` ""quote"" 'q'
// trailing space 
' ';
    // c
    falsey
= ""a\""b"" } packet As
{repeat repeatCount u8x `doc`
    // packet A { u8 x, }
    , @leftPad ( '0' ) @calculatedFrom(""\" ++ [233]%N ++ runes_of_ascii """
    )match asx
as crc//x
{ 4294967296
    //	t
    :
    u8x
    , ""\n"" :u128
    , 0:asx
    [
    255
    // trailing space 
    ,""x y""	] :
    Logon ,0123456789 : A , 255	:i64_ , }
,
    metadata @lengthOf( u8x
)  , repeat crc
{	uint32
Packet	, } /// triple
, @calculatedFrom(""" ++ [128512]%N ++ runes_of_ascii """ )T u128  `{ , }` ,repeat i32	msg_type , @lengthOf(// packet A { u8 x, }
T	)int	,float {
// @lengthOf(
// `tick` ""quote"" 'q'
match trueish	as leftPad
    /// triple
    {
[ 0  ,	""" ++ [28040; 24687]%N ++ runes_of_ascii """  ]:
f32a, }  , uint32 i8i8,Packet{	char[ 65535 ] o
    // trailing space 
    @calculatedFrom( ""it's""  ) , }, // a // b
} , uint8 i8i8 `say ""hi""`, } /// triple
packet
BodyLength{ }
")).
Eval vm_compute in ("<<<M969>>>" ++ check (runes_of_ascii "root packet
stringy {
int8 As @lengthOf( trueish ) ,}
packet
string_ {
stringy
`crlf
line`
,uint16
    metadata
    // `tick` ""quote"" 'q'
    ,  @tag( 4294967296
    // `tick` ""quote"" 'q'
    ) @tag( 255)
f32a u	`doc`  ,
    //x
    zchar[ 3 ] Packet ,@leftPad
(
    //	t
    '0')@lengthOf( uint8x  ) zchar[ 0 ]uint8x@lengthOf(
    // packet A { u8 x, }
    Pad
) `two words` ,
// " ++ [27880; 37322]%N ++ runes_of_ascii "
// " ++ [128512]%N ++ runes_of_ascii " emoji
@rightPad
( '\x00'  ) i8i8 roots ,@tag(
    007 ) u128	@calculatedFrom( """ ++ [233]%N ++ runes_of_ascii "t" ++ [233]%N ++ runes_of_ascii """ ) `two words`	, string string_ @lengthOf( falsey)
`a\`
,match tag as i8i8
{
""x y"":
asx , } ,
}
    packet	u8x { } options{
zchar =
    f64
    ;} packet
    T	{
@lengthOf( string_
)
    crc { metadata // a // b
charz , char[]uint8x
    `line1
line2`
    ,
    uint8 Packet, }
// a // b
/// triple
, metadata @calculatedFrom( ""\" ++ [233]%N ++ runes_of_ascii """ )
// " ++ [128512]%N ++ runes_of_ascii " emoji
// " ++ [27880; 37322]%N ++ runes_of_ascii "
`{ , }` ,
zchar @calculatedFrom( ""it's"" ) `a\`
, u64  packetx , match //	t
u128 as i8i8 { 4294967296 :x_y_z
// trailing space 
//x
} ,
int16 float
,	match chars as
    Pad
    { ""packet"" : Packet ,
}
    ,
    matchKey { metadata@lengthOf( Pad )`" ++ [233]%N ++ runes_of_ascii "` ,BodyLength``  , A , } ,
    // " ++ [27880; 37322]%N ++ runes_of_ascii "
    } 	 ")).
Eval vm_compute in ("<<<M953>>>" ++ check (runes_of_ascii "  packet leftPad { char[4294967296
]Pad , } packet Z9_ {repeat int,i64_ @lengthOf(float  ) , repeat leftPad{
    string
    _x , char[ 65535 ] x @calculatedFrom( ""it's"" ) `crlf
line`,
    },	@calculatedFrom( """ ++ [28040; 24687]%N ++ runes_of_ascii """ ) i32 tag/// triple
, string
    body
@lengthOf( body ) `` //
, @tag( 4294967296  )uint16 Logon @lengthOf(
// packet A { u8 x, }
// packet A { u8 x, }
leftPad ) // a // b
`` ,
    } root packet repeatCount { } root
packet options1
    {@lengthOf(
Z9_ ) @calculatedFrom( ""// no comment"")@calculatedFrom( ""1"" )  zchar // trailing space 
{
u8 repeatCount @calculatedFrom(""it's"" ) ,Packet @lengthOf( // @lengthOf(
_x)
    //
    , } , @calculatedFrom( ""// no comment"") repeat	A{ int32 crc @calculatedFrom( ""// no comment"" ) `{ , }`,
    //x
    repeat u64 //x
packetx `// not a comment`, } , i16
    packetx  @calculatedFrom(	""abc"" )	`" ++ [28040; 24687; 31867; 22411]%N ++ runes_of_ascii "` ,
    // packet A { u8 x, }
    u16 Foo  @calculatedFrom( ""CRC32"" ), //
} options { Header
//	t
// c
='\x00'
    ;// " ++ [27880; 37322]%N ++ runes_of_ascii "
MetaDataX // @lengthOf(
= 007; lengthOf = false; As = '\x00' } /// triple")).
Eval vm_compute in ("<<<M696>>>" ++ check (runes_of_ascii "// " ++ [128512]%N ++ runes_of_ascii " emoji
MetaData rootA{ metadata i64_
    // @lengthOf(
    , }
    packet msg_type {
    char[
    255 ] tag
, } options
{  As	= ' ' ; Z9_=
// a // b
// c
int16 ;  crc
=""\" ++ [233]%N ++ runes_of_ascii """;float = f64 ;} //x
options
{ BodyLength = 00 }
    packet
    As
    /// triple
    { @tag(
007
)Z9_
{
repeat char[ 0 ] stringy , A
    @lengthOf( f32a )  , } ,
Pad x_y_z ,
/// triple
// @lengthOf(
body
`` , @tag( 65535)	char[ 0123456789 ]
MetaDataX  @calculatedFrom(""`tick`"" ) ,pack
falsey , zchar[
0
    ]MetaDataX ,	i16
repeatCount ,
repeat tag
    stringy`doc` ,@lengthOf(
Z9_)
@leftPad (
)	@leftPad
(
    //x
    '\x00') repeat _x { repeat
a1
    {
match
u as chars {
    // packet A { u8 x, }
    [
    0123456789	,
    4294967296//
, ""it's"" ,//x
1 ,	""\" ++ [233]%N ++ runes_of_ascii """]: Z9_ 4294967296 // trailing space 
:
    rootA ""abc"" : stringy }, } ,
    /// triple
    repeat string chars
    // trailing space 
    `" ++ [233]%N ++ runes_of_ascii "` ,
int8
    // " ++ [128512]%N ++ runes_of_ascii " emoji
    u8x @lengthOf( x_y_z )
, // @lengthOf(
} ,
uint64 body
@lengthOf(roots),}
")).
Eval vm_compute in ("<<<M131>>>" ++ check (runes_of_ascii "packet u128 {@lengthOf( x_y_z )	@lengthOf( stringy )
@lengthOf( _x) zchar[
// c
// c
4294967296 ] asx @calculatedFrom(
    ""\" ++ [233]%N ++ runes_of_ascii """	)
    `
` ,char[0 ] matchKey
, rootA
    u128
    ,
    metadata metadata ,	zchar[	3 ]
    string_ `" ++ [233]%N ++ runes_of_ascii "`
,
// `tick` ""quote"" 'q'
// " ++ [27880; 37322]%N ++ runes_of_ascii "
@calculatedFrom(""a	b""
)
char roots `" ++ [28040; 24687; 31867; 22411]%N ++ runes_of_ascii "` , repeat zchar[10]
pack
    `
`, @calculatedFrom( ""{,}"" )
@lengthOf( //	t
Foo )  packetx {// " ++ [128512]%N ++ runes_of_ascii " emoji
match i8i8 as Header
{ 255	: Z9_  """ ++ [233]%N ++ runes_of_ascii "t" ++ [233]%N ++ runes_of_ascii """ :tag
, [ 7,	1, ""// no comment"", ""// no comment"" , 3
,
    """" , // `tick` ""quote"" 'q'
1 ] :lengthOf 3 :  asx , [ 42	,
0 , 1 ] :Z9_ , 10 :
    A}, } , }root packet T {/// triple
int32 roots `two words`, stringy, @rightPad ( '\x00')float64 len	@lengthOf( o )
    ,match body // `tick` ""quote"" 'q'
as	uint8x { 10
    :
tag , }
    ,
    repeat u8
    Pad
    `" ++ [28040; 24687; 31867; 22411]%N ++ runes_of_ascii "`
    , repeat char[]
    float // c
, @calculatedFrom(	""packet"" ) u16 x
    @lengthOf(
u8x)
// c
// a // b
, } //x")).
Eval vm_compute in ("<<<M942>>>" ++ check (runes_of_ascii "//
packet
// " ++ [128512]%N ++ runes_of_ascii " emoji
//	t
falsey{ x_y_z @calculatedFrom( ""CRC32"" ) `{ , }` , repeat int8
i64_ , char[]f32a
    ,@lengthOf(calculatedFrom ) repeat string f32a `{ , }` , match pack as u128 { [ 10
//	t
// trailing space 
, 7 ] : calculatedFrom ,
""" ++ [128512]%N ++ runes_of_ascii """ : options1
    // c
    , 1 : calculatedFrom , ""\" ++ [233]%N ++ runes_of_ascii """
    :body
    ,
}, @leftPad(' ' ) o packetx ``
,  @calculatedFrom( ""{,}""
    ) char[ 7  ] u , repeat u	_x , Z9_
    , @leftPad
(  ' ' ) string asx ,} packet
zchar { zchar[1 ] As `two words`
, zchar[
    7
] charz @calculatedFrom(""" ++ [128512]%N ++ runes_of_ascii """ ) , // c
@tag( 4294967296
)  char[]
uint8x @calculatedFrom(
    ""`tick`""
)//x
, repeat char
    metadata, zchar[ 65535 /// triple
] metadata , stringy i64_ ,
    @leftPad	('\x00' ) string_ @lengthOf( //
options1 ) ,@tag(// packet A { u8 x, }
65535)  float64 Foo @calculatedFrom(  ""abc""
    ) `{ , }` , }options {
// packet A { u8 x, }
//	t
}
")).
Eval vm_compute in ("<<<M4580>>>" ++ check (runes_of_ascii "
packet

charz {  // @lengthOf(

}  options {
	}packet
float
    { metadata	Logon
,}
	packet  body

    {@tag(  42  // packet A { u8 x, }
    	)
repeat tag

    i64_  , 	 /// triple
  @lengthOf(
string_)

    match  chars as
    Z9_	{ [  65535
    // " ++ [27880; 37322]%N ++ runes_of_ascii "
  //x
    ] : o	// `tick` ""quote"" 'q'
,  [ //	t

""{,}"" ,

    0123456789
    , ""packet""
    // packet A { u8 x, }
//
    ,

    ""abc""
	, 255,	""" ++ [233]%N ++ runes_of_ascii "t" ++ [233]%N ++ runes_of_ascii """  , 
    // packet A { u8 x, }
	//x
  ""x y""
    ,3]
:pack,	""abc""

:matchKey	,
[
	0123456789,
    1

]
    : chars 
	// c
  1

:

int ,
    """ ++ [233]%N ++ runes_of_ascii "t" ++ [233]%N ++ runes_of_ascii """
:	i64_ ,  }
,
    match 
Pad

    as
trueish
{

    ""a	b""
: pack, }
, 
@calculatedFrom(

""" ++ [28040; 24687]%N ++ runes_of_ascii """
    )  repeat
u128  x
,
    string

A

,  lengthOf

{
	BodyLength 
T  ,	int16  A	@lengthOf(
i8i8
) 	 //x
    , // " ++ [27880; 37322]%N ++ runes_of_ascii "
    }
	, options1 chars `line1
line2` ,}
")).
Eval vm_compute in ("<<<M571>>>" ++ check (runes_of_ascii "// packet A { u8 x, }
packet packetx { @tag( 7 ) f64 o @calculatedFrom(
""" ++ [233]%N ++ runes_of_ascii "t" ++ [233]%N ++ runes_of_ascii """ ) , repeat MetaDataX {i8 Logon
    ,}	, char[ 7] string_  , repeat	o	{	u16	Foo ,repeat i16
packetx
    ,	match matchKey as As { ""packet""
: roots , 42
:
falsey 0123456789
    // c
    : matchKey , ""\" ++ [233]%N ++ runes_of_ascii """ :
    zchar """ ++ [233]%N ++ runes_of_ascii "t" ++ [233]%N ++ runes_of_ascii """ : stringy, [ 65535]:rootA ,} ,repeat char[]  lengthOf ,} ,match
    x // c
as
//	t
//
falsey
    { ""1"" :
    Packet , 1 : u ,
    0 : charz  [ ""1"" ] : pack ,""a\""b"" : options1 ,} ,
@tag(
0)
// trailing space 
// " ++ [128512]%N ++ runes_of_ascii " emoji
repeat int16
matchKey , uint16 rootA`` , // c
match string_
as
A {[ 3  , """ ++ [28040; 24687]%N ++ runes_of_ascii """ ]:zchar
,
    } , } packet f32a { } MetaData falsey { char[] Header ,metadata
    Pad `two words` , zchar[ 10 ] calculatedFrom ,char[] lengthOf
,
float32 u
`line1
line2`  ,}")).
Eval vm_compute in ("<<<M1330>>>" ++ check (runes_of_ascii "  root	packet falsey
{  }
root packet x { asx ,
stringy { //x
f64 roots
, char[]// packet A { u8 x, }
chars@lengthOf( uint8x )
    // `tick` ""quote"" 'q'
    `
`
, }  , @lengthOf(len ) i8	MetaDataX@calculatedFrom( ""packet""
) , match MetaDataX
    as _x
{ 0
: uint8x
, }
,
// c
//x
@leftPad ( '\x00')uint16 // c
roots @calculatedFrom(""abc""
    // `tick` ""quote"" 'q'
    ) ,  @rightPad
    (
' ') int32
leftPad @calculatedFrom( ""packet"" /// triple
) `" ++ [233]%N ++ runes_of_ascii "`, }  options { falsey = 7
i64_
=int16// packet A { u8 x, }
len=
false
//x
// @lengthOf(
;	_x
='0';asx = """ ++ [28040; 24687]%N ++ runes_of_ascii """
    ; } options {
packetx =uint64
    ; len=
    true ;
} packet
tag // `tick` ""quote"" 'q'
{@leftPad ( )
    @calculatedFrom(
""abc"")
    int16 Pad @lengthOf( BodyLength  ) , //x
}
")).
Eval vm_compute in ("<<<M49>>>" ++ check (runes_of_ascii "packet
i8i8 {
    char[]
    string_
// " ++ [27880; 37322]%N ++ runes_of_ascii "
//
`tab	here` //
, @lengthOf(
    T )
    @lengthOf(
uint8x)@rightPad ( '\x00' ) zchar[ 4294967296 // packet A { u8 x, }
]	f32a @calculatedFrom(
// " ++ [27880; 37322]%N ++ runes_of_ascii "
//x
""CRC32"")
    `it's`	, } // @lengthOf(
root // packet A { u8 x, }
packet	A
    { @rightPad
//	t
// packet A { u8 x, }
( )
    @calculatedFrom(""" ++ [233]%N ++ runes_of_ascii "t" ++ [233]%N ++ runes_of_ascii """ )	string T`crlf
line`
    ,
    u64 falsey `two words`
//x
// trailing space 
,zchar[ 65535	] lengthOf
`doc` , match // `tick` ""quote"" 'q'
crc
as int { [ ""packet"",
    ""it's""
    ]
: body ,007
:
    // a // b
    leftPad
,	""{,}"" :
    Z9_, [ 0123456789
    , 00
    , ""a\\"" // " ++ [128512]%N ++ runes_of_ascii " emoji
, """ ++ [128512]%N ++ runes_of_ascii """  , ""\" ++ [233]%N ++ runes_of_ascii """
    , ""`tick`"", ""it's"",
    """ ++ [233]%N ++ runes_of_ascii "t" ++ [233]%N ++ runes_of_ascii """]
: x_y_z,} // c
,}
")).
Eval vm_compute in ("<<<M1385>>>" ++ check (runes_of_ascii "options{ msg_type =
'0' ;
}
// trailing space 
// " ++ [27880; 37322]%N ++ runes_of_ascii "
packet
matchKey	{ @calculatedFrom( ""x y"" )
    zchar[
10 ]metadata , Z9_
@calculatedFrom(""packet"" ), zchar[ 4294967296]
packetx `doc` ,tag
@lengthOf(packetx
) , // c
@rightPad() u
T , char[3// " ++ [128512]%N ++ runes_of_ascii " emoji
]int , @calculatedFrom( ""CRC32""
) repeat
    // @lengthOf(
    metadata {u128
@calculatedFrom(
"""")
, repeat i32
    Z9_
    ,  repeat uint64 trueish `a\` ,
    a1{
    //x
    uint8 _x // packet A { u8 x, }
@lengthOf( _x  ) // trailing space 
, } ,}  , match
options1
as leftPad  { //
""" ++ [28040; 24687]%N ++ runes_of_ascii """
    :
    u8x ,1:
body ,}/// triple
, @calculatedFrom( ""1""
) match T as Foo {  255 : T, } , } options{ } options { }")).
Eval vm_compute in ("<<<M3596>>>" ++ check (runes_of_ascii "// top
options
    // c0
{ // c1a
  // c1b
FixedStringPadChar // c2a
  // c2b
= // c3a
  // c3b
'0' // c4
; // c5
} // c6
packet // c7
Q
    // c8
{ // c9
zchar[
    // c10
4 // c11a
  // c11b
] // c12
z
    // c13
,
    // c14
@rightPad // c15
( // c16a
  // c16b
'\x00' // c17a
  // c17b
) // c18
char[ 3 // c20
] // c21a
  // c21b
n
    // c22
, char[ // c24
5 ]
    // c26
d // c27
,
    // c28
} root // c30
packet R // c32
{ // c33
Q
    // c34
, // c35
zchar[ // c36
8 // c37a
  // c37b
]
    // c38
top // c39a
  // c39b
, repeat // c41a
  // c41b
zchar[ // c42
2 // c43a
  // c43b
] // c44
zs // c45
, // c46
}
    // c47
")).
Eval vm_compute in ("<<<M209>>>" ++ check (runes_of_ascii "packet _x
    {repeat
u8x {
    repeat pack
    body,
    } ,
@calculatedFrom( ""x y"" ) A { match msg_type as f32a {4294967296
    : crc 1
// c
/// triple
: uint8x , // a // b
[ 255, 0
    ] : // " ++ [27880; 37322]%N ++ runes_of_ascii "
pack , [7 ,
// `tick` ""quote"" 'q'
// packet A { u8 x, }
00 ] :	roots , [ 255
    ]
:	rootA
    , } ,
    char packetx
@calculatedFrom( ""{,}""
    // trailing space 
    )
, } ,
    match
    BodyLength //
as u8x {""a	b"" : u,
    00 // @lengthOf(
: msg_type,// " ++ [27880; 37322]%N ++ runes_of_ascii "
}, match metadata as As{[ 0123456789, 3 ,// a // b
0
, ""it's""
, ""it's"" , ""1"" ] :
int
,
    ""packet"": leftPad}, char[] Pad `say ""hi""` , }

")).
Eval vm_compute in ("<<<M1018>>>" ++ check (runes_of_ascii "
root packet
Foo
    {match As as// packet A { u8 x, }
rootA
{ ""CRC32""  : packetx
, 4294967296 : Header , [0123456789
    ,
    255
// @lengthOf(
//x
, 0
    , ""\n""
,
    ""packet"" ] : BodyLength
,
[
7
// a // b
// c
, 255
    , 65535  ,00,
    3 , ""packet""	, // @lengthOf(
""abc""] :  f32a
,} ,
    f32
calculatedFrom @lengthOf(// trailing space 
metadata
) `crlf
line` ,
    } //	t
options
{ // c
x_y_z //x
=7 body	=zchar[1
] ; }
packet i8i8// trailing space 
{string_{ u32 //x
options1 // c
@calculatedFrom(
""1"" )  , }// `tick` ""quote"" 'q'
,} // `tick` ""quote"" 'q'")).
Eval vm_compute in ("<<<M4069>>>" ++ check (runes_of_ascii "
options

    {}root
    packet u8x {  options1 {Header @lengthOf(
	x_y_z
	)
,
u16 f32a

,

}  , 
zchar[  4294967296	] leftPad
,repeat
	char[

    007
	]//	t
  trueish

    ,
int

@calculatedFrom( """ ++ [28040; 24687]%N ++ runes_of_ascii """

    )

    // c

,
    match

i64_	as	chars{ """ ++ [128512]%N ++ runes_of_ascii """ : // a // b
	  Logon 
,
	42	:	matchKey 65535 :

u
,

    [ 4294967296
	, 65535

]

:As
    ,

    }
	,
	@rightPad // a // b
	( '\x00'

    ) @tag( 42
    )  
  // packet A { u8 x, }
  	i32	Pad// " ++ [128512]%N ++ runes_of_ascii " emoji
	`two words` , 	 // c
@tag( 
    // c
  	00  ) 
f32a `tab	here` ,}")).
Eval vm_compute in ("<<<M1075>>>" ++ check (runes_of_ascii "options
    // packet A { u8 x, }
    { u = ""a\""b""
    // `tick` ""quote"" 'q'
    ;}packet matchKey {char[
/// triple
// `tick` ""quote"" 'q'
42 ]
    len @lengthOf( f32a
    //	t
    )
`it's`// packet A { u8 x, }
, @lengthOf( x_y_z )@calculatedFrom(//
""CRC32"" // " ++ [128512]%N ++ runes_of_ascii " emoji
) uint16 f32a@lengthOf( zchar )
    `" ++ [233]%N ++ runes_of_ascii "` , @lengthOf( Z9_
    //x
    )
// c
// @lengthOf(
@leftPad ( '0' )  repeat
    falsey { options1 ,char charz `doc`, zchar[ 10 ] leftPad // c
, // " ++ [27880; 37322]%N ++ runes_of_ascii "
} , } packet	o { stringy @calculatedFrom(
    ""CRC32"")
    , }
")).
Eval vm_compute in ("<<<M3608>>>" ++ check (runes_of_ascii "// top
root // c0
packet Frame {
    // c3
u8 K ,
    // c6
Logon // c7a
  // c7b
first , // c9a
  // c9b
match
    // c10
K
    // c11
as // c12
Body // c13a
  // c13b
{ // c14a
  // c14b
1 : // c16a
  // c16b
Logon , // c18a
  // c18b
2 :
    // c20
Logout
    // c21
, // c22
} , }
    // c25
packet Logon // c27
{ // c28
string // c29
user // c30a
  // c30b
, // c31a
  // c31b
} // c32a
  // c32b
packet
    // c33
Logout { // c35
u16 // c36
reason
    // c37
, // c38a
  // c38b
}
    // c39
")).
Eval vm_compute in ("<<<M293>>>" ++ check (runes_of_ascii "root
    packet
//	t
// c
charz{
f32 stringy // @lengthOf(
, @rightPad ( '\x00'
    ) metadata
    { MetaDataX
A
    // `tick` ""quote"" 'q'
    , }
,
repeat zchar[ 0/// triple
] u8x , @calculatedFrom( // @lengthOf(
""it's"")
    match trueish as
u128 { ""{,}"" :
    stringy
} ,}
    packet Packet
{char[ 3]  int @calculatedFrom( ""x y""
) ,
}
MetaData Packet { u128 trueish `" ++ [28040; 24687; 31867; 22411]%N ++ runes_of_ascii "` , int8 pack,
    // packet A { u8 x, }
    zchar[ 00 //x
] repeatCount `a\` ,
    // c
    }
")).
Eval vm_compute in ("<<<M3555>>>" ++ check (runes_of_ascii "// top
options // c0
{ // c1a
  // c1b
LittleEndian =
    // c3
true // c4a
  // c4b
;
    // c5
} // c6a
  // c6b
packet
    // c7
B // c8
{
    // c9
u8 // c10
a // c11
, // c12
string
    // c13
s // c14a
  // c14b
, // c15
}
    // c16
root
    // c17
packet // c18
P // c19
{ // c20
u16 // c21a
  // c21b
L // c22a
  // c22b
@lengthOf( // c23
B // c24a
  // c24b
)
    // c25
, B
    // c27
,
    // c28
u8
    // c29
t , // c31a
  // c31b
} // c32
")).
Eval vm_compute in ("<<<M3635>>>" ++ check (runes_of_ascii "options {
    LittleEndian = true;
    StringPrefixLenType = u16;
    ArrayPrefixLenType = u64;
}
packet Fill {
}
packet Logon {
    repeat char[3] Tail,
    zchar[6] venue,
    repeat string Side2,
}
root packet Cancel {
    char[] Flags,
    char[] OrderId,
    zchar[6] msgKind,
    Fill,
    char[] Acct,
    u8 f1,
    match f1 as Body {
        188 : Fill,
        5 : Logon,
    },
    u32 clOrdID @calculatedFrom(""CR\
C32""),
}
")).
Eval vm_compute in ("<<<M1313>>>" ++ check (runes_of_ascii "packet options1{match string_
as// packet A { u8 x, }
i8i8 {
    10 :
a1 , ""a\""b"" :
    x_y_z ""abc"" :
charz
""" ++ [28040; 24687]%N ++ runes_of_ascii """
    : //
repeatCount, ""\" ++ [233]%N ++ runes_of_ascii """  : u8x, } ,@lengthOf( Foo// @lengthOf(
)repeat x_y_z {  repeat u32
BodyLength
,
    } ,match Foo
    as
msg_type
{ 42
:Pad [ 0
    , """ ++ [28040; 24687]%N ++ runes_of_ascii """] : MetaDataX ,	""1"" :
    // `tick` ""quote"" 'q'
    float
""x y"" // @lengthOf(
: msg_type
    //x
    , 4294967296:len} , float `" ++ [28040; 24687; 31867; 22411]%N ++ runes_of_ascii "`, }
")).
Eval vm_compute in ("<<<M3850>>>" ++ check (runes_of_ascii "
// `tick` ""quote"" 'q'
	  MetaData BodyLength
{ char[00 
        //x
// " ++ [27880; 37322]%N ++ runes_of_ascii "
    ] A
	`a\`
	, zchar[ 	 // trailing space 
	0123456789  ]T // packet A { u8 x, }

`tab	here` 
,
	As
	asx	`" ++ [28040; 24687; 31867; 22411]%N ++ runes_of_ascii "` 
,	char[] falsey
, o  // " ++ [128512]%N ++ runes_of_ascii " emoji

	Foo`tab	here`
    , 
}

    root

packet i64_{	repeat	uint64
o	,
    @calculatedFrom(

""abc"")
    uint8x , @tag(
	4294967296 )
	char[ 255
]
    repeatCount
    ``
	,

}
")).
Eval vm_compute in ("<<<M1364>>>" ++ check (runes_of_ascii "  MetaData
matchKey { //	t
}packet
    u8x{ len
{	_x,  } , } packet Logon{ u64 falsey @calculatedFrom( ""x y"" ) , @calculatedFrom(
    """ ++ [233]%N ++ runes_of_ascii "t" ++ [233]%N ++ runes_of_ascii """ ) @rightPad// trailing space 
(
' '
    // `tick` ""quote"" 'q'
    )
repeat float32 Foo ,
    uint8 i64_
    @lengthOf(u ) , zchar[ // " ++ [128512]%N ++ runes_of_ascii " emoji
3  ]Header @calculatedFrom(
    ""1"")
// `tick` ""quote"" 'q'
//x
, repeat chars u128 `u8 x,`
    , }")).
Eval vm_compute in ("<<<M230>>>" ++ check (runes_of_ascii "packet x { lengthOf rootA , @rightPad
( '0' )
i8 asx @lengthOf( calculatedFrom // a // b
),
@lengthOf( Pad ) repeat //x
int16 trueish // c
``// " ++ [27880; 37322]%N ++ runes_of_ascii "
, @calculatedFrom(
""" ++ [128512]%N ++ runes_of_ascii """) @tag(0
)
@lengthOf( // a // b
matchKey ) string MetaDataX`doc`
,
i16 // `tick` ""quote"" 'q'
options1 @lengthOf(
    // " ++ [27880; 37322]%N ++ runes_of_ascii "
    u8x
    // " ++ [128512]%N ++ runes_of_ascii " emoji
    ) `a\` ,
    u128
u128`line1
line2`,}")).
Eval vm_compute in ("<<<M825>>>" ++ check (runes_of_ascii "// `tick` ""quote"" 'q'
MetaData	BodyLength {
char[ 00
//x
// " ++ [27880; 37322]%N ++ runes_of_ascii "
]
A
`a\`	, zchar[// trailing space 
0123456789 ] T // packet A { u8 x, }
`tab	here` ,As asx `" ++ [28040; 24687; 31867; 22411]%N ++ runes_of_ascii "` ,
char[]falsey ,  o // " ++ [128512]%N ++ runes_of_ascii " emoji
Foo `tab	here` , } root packet
i64_ {
    repeat uint64 o,
@calculatedFrom(
""abc"" ) uint8x ,
@tag( 4294967296
    ) char[ 255]
    repeatCount `` ,	}")).
Eval vm_compute in ("<<<M1079>>>" ++ check (runes_of_ascii "packet
    Packet
// " ++ [128512]%N ++ runes_of_ascii " emoji
//	t
{ @leftPad
('\x00' )
    // `tick` ""quote"" 'q'
    match trueish as Pad { 65535 :Header ,
00 :// `tick` ""quote"" 'q'
roots
    [ """ ++ [233]%N ++ runes_of_ascii "t" ++ [233]%N ++ runes_of_ascii """ ,
""1"" , ""packet"" , 42 , 0, ""x y""
    ,
""" ++ [128512]%N ++ runes_of_ascii """ ,
""a	b"" ]
    :
BodyLength
, """ ++ [28040; 24687]%N ++ runes_of_ascii """ : Packet ,
[ """ ++ [128512]%N ++ runes_of_ascii """ ]: body } , } //x
options
    // a // b
    { /// triple
As = u16 }")).
Eval vm_compute in ("<<<M4201>>>" ++ check (runes_of_ascii "
packet

    packetx { @tag( 7 )	@calculatedFrom(

""`tick`""

    )@calculatedFrom(""a\\"")char[] int
,  @rightPad
(

    ' ')
string  // `tick` ""quote"" 'q'
	tag

`tab	here`

,@lengthOf(
asx
    ) 
u8	// c
	repeatCount
    , 
@calculatedFrom( ""// no comment"") 
    //x
	// trailing space 

zchar[  1
    ]

a1
	, } ")).
Eval vm_compute in ("<<<M1868>>>" ++ check (runes_of_ascii "MetaData
    u true }  options {
// c
// @lengthOf(
float = int8 ;rootA =false ; As =	int16 // `tick` ""quote"" 'q'
repeatCount
    // trailing space 
    =
    int16
; u8x =
    //	t
    '\x00' ; } options	{
    repeatCount
= 0
u128
    //
    = false ; i64_
// trailing space 
// `tick` ""quote"" 'q'
= '0' ; //	t
}
")).
Eval vm_compute in ("<<<M2046>>>" ++ check (runes_of_ascii "MetaData
    u { }  options {
// c
// @lengthOf(
float = int8 ;rootA =false ; As =	int16 // `tick` ""quote"" 'q'
repeatCount
    // trailing space 
    =
    int16
; u8x =
    //	t
    '\x00' ; } options	{
    repeatCount
= 0
u128
    //
    = false ; i64_
// trailing space 
// `tick` ""quote"" 'q'
= '0' ; ; //	t
}
")).
Eval vm_compute in ("<<<M1877>>>" ++ check (runes_of_ascii "MetaData
    u { }  { options
// c
// @lengthOf(
float = int8 ;rootA =false ; As =	int16 // `tick` ""quote"" 'q'
repeatCount
    // trailing space 
    =
    int16
; u8x =
    //	t
    '\x00' ; } options	{
    repeatCount
= 0
u128
    //
    = false ; i64_
// trailing space 
// `tick` ""quote"" 'q'
= '0' ; //	t
}
")).
Eval vm_compute in ("<<<M2027>>>" ++ check (runes_of_ascii "MetaData
    u { }  options {
// c
// @lengthOf(
float = int8 ;rootA =false ; As =	int16 // `tick` ""quote"" 'q'
repeatCount
    // trailing space 
    =
    int16
; u8x =
    //	t
    '\x00' ; } options	{
    repeatCount
= 0
u128
    //
    = false i64_ ;
// trailing space 
// `tick` ""quote"" 'q'
= '0' ; //	t
}
")).
Eval vm_compute in ("<<<M2035>>>" ++ check (runes_of_ascii "MetaData
    u { }  options {
// c
// @lengthOf(
float = int8 ;rootA =false ; As =	int16 // `tick` ""quote"" 'q'
repeatCount
    // trailing space 
    =
    int16
; u8x =
    //	t
    '\x00' ; } options	{
    repeatCount
= 0
u128
    //
    = false ; i64_
// trailing space 
// `tick` ""quote"" 'q'
 '0' ; //	t
}
")).
Eval vm_compute in ("<<<M4154>>>" ++ check (runes_of_ascii "MetaData calculatedFrom {
    // @lengthOf(
    tag a1,
    uint8 _x `crlf
        line`,
    // " ++ [27880; 37322]%N ++ runes_of_ascii "
    // packet A { u8 x, }
    string Z9_,
    uint8x A `line1
        line2`,
    char falsey,
    packetx Foo,
}

MetaData body {
    string x_y_z ``,
    falsey zchar `line1
        line2`,
}

options {
}")).
Eval vm_compute in ("<<<M934>>>" ++ check (runes_of_ascii "packet metadata // `tick` ""quote"" 'q'
{ Z9_ @lengthOf(
// `tick` ""quote"" 'q'
// @lengthOf(
i64_)
, }
    packet pack
// " ++ [27880; 37322]%N ++ runes_of_ascii "
// " ++ [128512]%N ++ runes_of_ascii " emoji
{
options1
@lengthOf(asx
    ),
@leftPad( ' ' )
@calculatedFrom(	""abc"" )
// `tick` ""quote"" 'q'
// trailing space 
falsey , // trailing space 
char[ 3 ] rootA  , }
")).
Eval vm_compute in ("<<<M836>>>" ++ check (runes_of_ascii "
packet
    uint8x { @leftPad( '\x00' ) float32 x_y_z @lengthOf( x ) `a\` ,	int32
Header,match
    asx as
    string_ {"""" :
    lengthOf, 1 : uint8x , } , repeat /// triple
a1 { repeat
zchar[0	] Packet , // trailing space 
char falsey@calculatedFrom( /// triple
""1""), }
,
    } // " ++ [128512]%N ++ runes_of_ascii " emoji")).
Eval vm_compute in ("<<<M427>>>" ++ check (runes_of_ascii "packet
    packetx { @tag( 7 ) @calculatedFrom( ""`tick`"" ) @calculatedFrom( ""a\\""
)char[] int , @rightPad ( ' ' )	string// `tick` ""quote"" 'q'
tag `tab	here`
,@lengthOf(
    asx
)
u8 // c
repeatCount , @calculatedFrom(""// no comment"" )
//x
// trailing space 
zchar[
1] a1 ,}")).
Eval vm_compute in ("<<<M1638>>>" ++ check (runes_of_ascii "packet
//	t
// trailing space 
_x {
// packet A { u8 x, }
// c
char[
3
    ] u8x @lengthOf(
u8x ) , @calculatedFrom(""" ++ [128512]%N ++ runes_of_ascii """ // @lengthOf(
)
i16	Foo
@lengthOf(	string_
    )`doc`	, repeat	i64 metadata , @lengthOf( string_
) i8 // c
u  `line1
line2` `line1
line2`	,
}
")).
Eval vm_compute in ("<<<M1635>>>" ++ check (runes_of_ascii "packet
//	t
// trailing space 
_x {
// packet A { u8 x, }
// c
char[
3
    ] u8x @lengthOf(
u8x ) , @calculatedFrom(""" ++ [128512]%N ++ runes_of_ascii """ // @lengthOf(
)
i16	Foo
@lengthOf(	string_
    )`doc`	, repeat	i64 metadata , @lengthOf( string_
) i8 // c
@leftPad  `line1
line2`	,
}
")).
Eval vm_compute in ("<<<M1498>>>" ++ check (runes_of_ascii "packet
//	t
// trailing space 
_x { {
// packet A { u8 x, }
// c
char[
3
    ] u8x @lengthOf(
u8x ) , @calculatedFrom(""" ++ [128512]%N ++ runes_of_ascii """ // @lengthOf(
)
i16	Foo
@lengthOf(	string_
    )`doc`	, repeat	i64 metadata , @lengthOf( string_
) i8 // c
u  `line1
line2`	,
}
")).
Eval vm_compute in ("<<<M1664>>>" ++ check (runes_of_ascii "packet
//	t
// trailing space 
_x {
// packet A { u8 x, }
// c
char[
3
    ] u8x @lengthOf(
u8x ) , @calculatedFrom(""" ++ [128512]%N ++ runes_of_ascii """ // @lengthOf(
)
i16	Foo
@lengthOf(	string_
 #   )`doc`	, repeat	i64 metadata , @lengthOf( string_
) i8 // c
u  `line1
line2`	,
}
")).
Eval vm_compute in ("<<<M1589>>>" ++ check (runes_of_ascii "packet
//	t
// trailing space 
_x {
// packet A { u8 x, }
// c
char[
3
    ] u8x @lengthOf(
u8x ) , @calculatedFrom(""" ++ [128512]%N ++ runes_of_ascii """ // @lengthOf(
)
i16	Foo
@lengthOf(	string_
    )`doc`	repeat ,	i64 metadata , @lengthOf( string_
) i8 // c
u  `line1
line2`	,
}
")).
Eval vm_compute in ("<<<M1642>>>" ++ check (runes_of_ascii "packet
//	t
// trailing space 
_x {
// packet A { u8 x, }
// c
char[
3
    ] u8x @lengthOf(
u8x ) , @calculatedFrom(""" ++ [128512]%N ++ runes_of_ascii """ // @lengthOf(
)
i16	Foo
@lengthOf(	string_
    )`doc`	, repeat	i64 metadata , @lengthOf( string_
) i8 // c
u  `line1
line2`	
}
")).
Eval vm_compute in ("<<<M1118>>>" ++ check (runes_of_ascii "MetaData
tag
    // `tick` ""quote"" 'q'
    { u16
    BodyLength , packetx
f32a
//
// packet A { u8 x, }
, } root packet	Packet {
    char[ 42 ]
    // c
    A //x
, } packet calculatedFrom { repeat rootA { char[ 0123456789
    ] u128,}
, }
")).
Eval vm_compute in ("<<<M1652>>>" ++ check (runes_of_ascii "packet
//	t
// trailing space 
_x {
// packet A { u8 x, }
// c
char[
3
    ] u8x @lengthOf(
u8x ) , @calculatedFrom(""" ++ [128512]%N ++ runes_of_ascii """ // @lengthOf(
)
i16	Foo
@lengthOf(	string_
    )`doc`	, repeat	i64 metadata , @lengthOf( string_
) i8 // c
u  `line1")).
Eval vm_compute in ("<<<M637>>>" ++ check (runes_of_ascii "
packet charz {
repeat
zchar[
    // @lengthOf(
    007/// triple
]/// triple
falsey
    `line1
line2` ,
}	root packet
    leftPad {
x
    metadata
, }	packet
rootA { char[65535
    // c
    ]chars , } options { body
= ' '
}")).
Eval vm_compute in ("<<<M1631>>>" ++ check (runes_of_ascii "packet
//	t
// trailing space 
_x {
// packet A { u8 x, }
// c
char[
3
    ] u8x @lengthOf(
u8x ) , @calculatedFrom(""" ++ [128512]%N ++ runes_of_ascii """ // @lengthOf(
)
i16	Foo
@lengthOf(	string_
    )`doc`	, repeat	i64 metadata , @lengthOf( string_
)")).
Eval vm_compute in ("<<<M4601>>>" ++ check (runes_of_ascii "
MetaData x
{ uint32
u8x
	`" ++ [28040; 24687; 31867; 22411]%N ++ runes_of_ascii "`
,
	}
// packet A { u8 x, }
	// " ++ [128512]%N ++ runes_of_ascii " emoji
  MetaData

o 
{ }

// packet A { u8 x, }
	packet pack 
{ // packet A { u8 x, }
  repeat 
zchar[
4294967296// a // b
		]
    roots
,}
")).
Eval vm_compute in ("<<<M925>>>" ++ check (runes_of_ascii "packet crc  {matchKey
`tab	here`
    ,
    repeat f32a{ // trailing space 
zchar  { string uint8x
,
repeat char[	4294967296 // trailing space 
]
msg_type ,} , roots{ zchar[ 7 ] u ,	},
    uint64 chars ,} ,  }")).
Eval vm_compute in ("<<<M1697>>>" ++ check (runes_of_ascii "options { trueish = ""`tick`"" ; ; string_= """ ++ [233]%N ++ runes_of_ascii "t" ++ [233]%N ++ runes_of_ascii """
    // c
    } root
    packet body { stringy @calculatedFrom(
""a	b"" ) `line1
line2` , }
packet Logon {
    @leftPad(
    ' ' ) //	t
u16 string_ `u8 x,` ,
}
")).
Eval vm_compute in ("<<<M1999>>>" ++ check (runes_of_ascii "MetaData
    u { }  options {
// c
// @lengthOf(
float = int8 ;rootA =false ; As =	int16 // `tick` ""quote"" 'q'
repeatCount
    // trailing space 
    =
    int16
; u8x =
    //	t
    '\x00' ; } options	{")).
Eval vm_compute in ("<<<M1788>>>" ++ check (runes_of_ascii "options { trueish = ""`tick`"" ; string_= """ ++ [233]%N ++ runes_of_ascii "t" ++ [233]%N ++ runes_of_ascii """
    // c
    } root
    packet body { stringy @calculatedFrom(
""a	b"" ) `line1
line2` , }
packet Logon @leftPad
    {(
    ' ' ) //	t
u16 string_ `u8 x,` ,
}
")).
Eval vm_compute in ("<<<M1994>>>" ++ check (runes_of_ascii "MetaData
    u { }  options {
// c
// @lengthOf(
float = int8 ;rootA =false ; As =	int16 // `tick` ""quote"" 'q'
repeatCount
    // trailing space 
    =
    int16
; u8x =
    //	t
    '\x00' ; } options")).
Eval vm_compute in ("<<<M471>>>" ++ check (runes_of_ascii "packet Header { int@lengthOf( lengthOf
    ) , }
    packet	Z9_ { @lengthOf( Z9_ ) repeat
i8 lengthOf, } options {
    rootA =  ' ' u8x= 65535 As = int8 matchKey = '\x00'
; msg_type  =
' ';
    }")).
Eval vm_compute in ("<<<M1363>>>" ++ check (runes_of_ascii "packet
    metadata{ repeat BodyLength
// packet A { u8 x, }
// c
,
    /// triple
    int8
chars , u128@calculatedFrom( ""a\""b""	) `tab	here` ,
// packet A { u8 x, }
//x
}
// packet A { u8 x, }
")).
Eval vm_compute in ("<<<M1122>>>" ++ check (runes_of_ascii "root packet a1 {u8x{ char[ // trailing space 
10] tag
`` , } // " ++ [128512]%N ++ runes_of_ascii " emoji
, } packet packetx { string crc	@calculatedFrom(""abc""	), @lengthOf( Packet ) repeat u32
rootA , // @lengthOf(
}
")).
Eval vm_compute in ("<<<M1010>>>" ++ check (runes_of_ascii "MetaData o
//
/// triple
{
    body	f32a `
` ,
i32 string_ `line1
line2`, int64
    //
    matchKey
    , string crc,zchar[ 4294967296	] msg_type
    `crlf
line`, u32 Packet ,}
")).
Eval vm_compute in ("<<<M189>>>" ++ check (runes_of_ascii "MetaData  msg_type	{ Packet
// @lengthOf(
// trailing space 
int , char[3 ] Foo`// not a comment`
    // `tick` ""quote"" 'q'
    ,
zchar[ 7
    ]
uint8x,
leftPad crc `
`, }")).
Eval vm_compute in ("<<<M3917>>>" ++ check (runes_of_ascii "
root
packet matchKey{ 
zchar[ 3

    ]
pack

    @calculatedFrom(
""a	b""  )
    `doc`,

}
options

{ }
MetaData A

{int8

    msg_type
, 
      // c
	  }

")).
Eval vm_compute in ("<<<M2365>>>" ++ check (runes_of_ascii "// c
packet x { @lengthOf( metadata ) repeat lengthOf
,a1{
trueish trueish	,// c
repeat//	t
MetaDataX , } , zchar[
    42	] rootA // `tick` ""quote"" 'q'
,
    }
")).
Eval vm_compute in ("<<<M2125>>>" ++ check (runes_of_ascii "options{
_x
= true
} options
{ o	= /// triple
false false
    ; chars
= ""\n"" } root packet	Pad
/// triple
// packet A { u8 x, }
{	chars
    // a // b
    ,}")).
Eval vm_compute in ("<<<M2322>>>" ++ check (runes_of_ascii "// c
packet x { @lengthOf( metadata "" ) repeat lengthOf
,a1{
trueish	,// c
repeat//	t
MetaDataX , } , zchar[
    42	] rootA // `tick` ""quote"" 'q'
,
    }
")).
Eval vm_compute in ("<<<M304>>>" ++ check (runes_of_ascii "  packet
    Packet { i8 MetaDataX , }
    root packet
    a1
{ rootA @lengthOf( uint8x )
    ,
    repeatCount
{
char[]u , u16
msg_type
`a\` ,
    }
, }
")).
Eval vm_compute in ("<<<M2402>>>" ++ check (runes_of_ascii "// c
packet x { @lengthOf( metadata ) lengthOf repeat
,a1{
trueish	,// c
repeat//	t
MetaDataX , } , zchar[
    42	] rootA // `tick` ""quote"" 'q'
,
    }
")).
Eval vm_compute in ("<<<M1954>>>" ++ check (runes_of_ascii "MetaData
    u { }  options {
// c
// @lengthOf(
float = int8 ;rootA =false ; As =	int16 // `tick` ""quote"" 'q'
repeatCount
    // trailing space 
    =")).
Eval vm_compute in ("<<<M4364>>>" ++ check (runes_of_ascii "options {
    packetx = zchar[4294967296];
}

options {
}

MetaData uint8x {
    char[3] o `
    `,
    crc string_,
    char[] int,// trailing space 
}")).
Eval vm_compute in ("<<<M2147>>>" ++ check (runes_of_ascii "options{
_x
= true
} options
{ o	= /// triple
false
    ; chars
= ( } root packet	Pad
/// triple
// packet A { u8 x, }
{	chars
    // a // b
    ,}")).
Eval vm_compute in ("<<<M1343>>>" ++ check (runes_of_ascii "
options
{
asx
    =""CRC32"" ; MetaDataX// c
= char[ 4294967296	]
    ;
// " ++ [27880; 37322]%N ++ runes_of_ascii "
// trailing space 
_x = '0'; trueish=
""a	b"" ;	} // packet A { u8 x, }")).
Eval vm_compute in ("<<<M1571>>>" ++ check (runes_of_ascii "packet
//	t
// trailing space 
_x {
// packet A { u8 x, }
// c
char[
3
    ] u8x @lengthOf(
u8x ) , @calculatedFrom(""" ++ [128512]%N ++ runes_of_ascii """ // @lengthOf(
)
i16	Foo")).
Eval vm_compute in ("<<<M1566>>>" ++ check (runes_of_ascii "packet
//	t
// trailing space 
_x {
// packet A { u8 x, }
// c
char[
3
    ] u8x @lengthOf(
u8x ) , @calculatedFrom(""" ++ [128512]%N ++ runes_of_ascii """ // @lengthOf(
)
i16")).
Eval vm_compute in ("<<<M3885>>>" ++ check (runes_of_ascii "
options 
{

    u 	 // a // b
= 42 x_y_z = ' ' 
;
    msg_type

    =  true  ;u	=  10
;
}
options
{ zchar	=
uint8  ;  }// c
")).
Eval vm_compute in ("<<<M3827>>>" ++ check (runes_of_ascii "packet A {
    match k as n {
        [
            1, 22, 007, 4, 5,
            66, 7, 8
        ] : B,
        2 : C,
    },
}")).
Eval vm_compute in ("<<<M643>>>" ++ check (runes_of_ascii "
packet metadata {
// trailing space 
// trailing space 
@calculatedFrom(// `tick` ""quote"" 'q'
""CRC32"" )
stringy As ,
    }
")).
Eval vm_compute in ("<<<M4244>>>" ++ check (runes_of_ascii "MetaData calculatedFrom {
    crc Logon ``,
    x u8x `line1
        line2`,
    i64 u128,
    char[0123456789] packetx,
}")).
Eval vm_compute in ("<<<M3335>>>" ++ check (runes_of_ascii "root packet matchKey { zchar[ 3 ] pack @calculatedFrom( ""a	b"" ) `doc`
// c
, } options { } MetaData A { int8 msg_type , }")).
Eval vm_compute in ("<<<M1408>>>" ++ check (runes_of_ascii "
packet
    falsey { { Header@calculatedFrom(""packet""  ) , char[
    0123456789 ] packetx
    , } // `tick` ""quote"" 'q'")).
Eval vm_compute in ("<<<M4315>>>" ++ check (runes_of_ascii "  options

    {	Pad=	zchar[10

    ];
a1  //
	=	""1""  stringy
=""{,}"" ; uint8x='0'  BodyLength = 1 ; //	t
    }
")).
Eval vm_compute in ("<<<M1432>>>" ++ check (runes_of_ascii "
packet
    falsey { Header@calculatedFrom(""packet""  )  char[
    0123456789 ] packetx
    , } // `tick` ""quote"" 'q'")).
Eval vm_compute in ("<<<M3821>>>" ++ check (runes_of_ascii "
packet

    o
    // c
	{
repeat

    Logon

uint8x

,
}
options{asx=
    zchar[ 3] stringy = '\x00'}

")).
Eval vm_compute in ("<<<M2187>>>" ++ check (runes_of_ascii "options{
_x
= true
} options
{ o	= /// triple
false
    ; chars
= ""\n"" } root packet	Pad
/// triple
// packe")).
Eval vm_compute in ("<<<M4437>>>" ++ check (runes_of_ascii "options {
    Pad = zchar[10];
    a1 = ""1""
    stringy = ""{,}"";
    uint8x = '0'
    BodyLength = 1;//	t
}")).
Eval vm_compute in ("<<<M107>>>" ++ check (runes_of_ascii "
packet a1{ match /// triple
T as pack
{007 : Header ,} , calculatedFrom	, } MetaData
options1
    { }")).
Eval vm_compute in ("<<<M1351>>>" ++ check (runes_of_ascii "options { options1 =
char[
00
]
    ; len=
""" ++ [128512]%N ++ runes_of_ascii """ ; a1
    =
    42
    Header =
' '}packet Foo { }

")).
Eval vm_compute in ("<<<M926>>>" ++ check (runes_of_ascii "packet u{ repeat tag chars
,
//	t
// a // b
u16 zchar
/// triple
//	t
,
uint8 falsey
    `doc` ,
}
")).
Eval vm_compute in ("<<<M4376>>>" ++ check (runes_of_ascii "options {
}

options {
    BodyLength = u16
    Header = f64;
    u128 = true;
}// a // b@leftpad")).
Eval vm_compute in ("<<<M3799>>>" ++ check (runes_of_ascii "
packet	A	{ 
@leftPad

    (

) 
char[ 4 ] x , 
@rightPad
    (	)  zchar[2
	]
    y
    , } ")).
Eval vm_compute in ("<<<M809>>>" ++ check (runes_of_ascii "
options  {u =	uint16
i8i8 =i8 ; string_ = false ;asx= true lengthOf
=
0123456789
    ;
}
")).
Eval vm_compute in ("<<<M3484>>>" ++ check (runes_of_ascii "
// c
packet chars { } packet MetaDataX { @tag( 42 ) i16 string_ , repeat x `say ""hi""` , }")).
Eval vm_compute in ("<<<M3283>>>" ++ check (runes_of_ascii "MetaData float { float64 charz `
` , } // c
root packet chars { @rightPad ( '0' ) Foo , }")).
Eval vm_compute in ("<<<M3494>>>" ++ check (runes_of_ascii "packet chars { } packet
// c
MetaDataX { @tag( 42 ) i16 string_ , repeat x `say ""hi""` , }")).
Eval vm_compute in ("<<<M2213>>>" ++ check (runes_of_ascii "options
{ { } options { BodyLength= u16 Header= f64 ; u128 =
    true
    ; } // a // b")).
Eval vm_compute in ("<<<M2301>>>" ++ check (runes_of_ascii "options
{ } options { BodyLength= u16 Header= f64 ; u128 =
   | true
    ; } // a // b")).
Eval vm_compute in ("<<<M2243>>>" ++ check (runes_of_ascii "options
{ } options { BodyLength= Header u16= f64 ; u128 =
    true
    ; } // a // b")).
Eval vm_compute in ("<<<M3234>>>" ++ check (runes_of_ascii "packet metadata { Logon { A `" ++ [28040; 24687; 31867; 22411]%N ++ runes_of_ascii "` , tag o ,
// c
} , zchar len `// not a comment` , }")).
Eval vm_compute in ("<<<M2944>>>" ++ check (runes_of_ascii "packet A {
  match k as n {
    [1, 22, ""c c"", 4, 5, ""f"", 7, 8] : B,
    2 : C
  },
}")).
Eval vm_compute in ("<<<M3457>>>" ++ check (runes_of_ascii "packet o { repeat Logon uint8x , } options { asx = zchar[ 3 ] // c
stringy = '\x00' }")).
Eval vm_compute in ("<<<M1386>>>" ++ check (runes_of_ascii "
packet msg_type { } MetaData
leftPad { int32
calculatedFrom`
`  ,
    } /// triple")).
Eval vm_compute in ("<<<M3400>>>" ++ check (runes_of_ascii "MetaData body { i64 // c
pack `it's` , } packet stringy { int16 calculatedFrom , }")).
Eval vm_compute in ("<<<M2234>>>" ++ check (runes_of_ascii "options
{ } options { match= u16 Header= f64 ; u128 =
    true
    ; } // a // b")).
Eval vm_compute in ("<<<M2908>>>" ++ check (runes_of_ascii "packet A {
  match k as n {
    [""a"", ""bb"", 007, ""d"", ""e""] : B
    2 : C
  },
}")).
Eval vm_compute in ("<<<M2901>>>" ++ check (runes_of_ascii "packet A {
  match k as n {
    [1, ""bb"", 007, ""d"", 5] : B,
    2 : C
  },
}")).
Eval vm_compute in ("<<<M2974>>>" ++ check (runes_of_ascii "packet A { Inner { match k as n { [1,22,007,4,5,66,7,8,9,10] : B, }, }, }")).
Eval vm_compute in ("<<<M3756>>>" ++ check (runes_of_ascii "  root packet
    i8i8
{ @lengthOf( Packet
)
u32

    u8x ,

    }
")).
Eval vm_compute in ("<<<M2879>>>" ++ check (runes_of_ascii "packet A {
  match k as n {
    [1, 22, ""c c""] : B,
    2 : C
  },
}")).
Eval vm_compute in ("<<<M1388>>>" ++ check (runes_of_ascii "// trailing space 
MetaData body { int32
    MetaDataX
, As x ,}")).
Eval vm_compute in ("<<<M3002>>>" ++ check (runes_of_ascii "packet A {
    B b `a
b`,
    B `a
b`,
    repeat B bs `a
b`,
}")).
Eval vm_compute in ("<<<M1725>>>" ++ check (runes_of_ascii "options { trueish = ""`tick`"" ; string_= """ ++ [233]%N ++ runes_of_ascii "t" ++ [233]%N ++ runes_of_ascii """
    // c
    }")).
Eval vm_compute in ("<<<M2765>>>" ++ check (runes_of_ascii "@tag( zchar[ @tag( false @leftPad options @tag( repeat f32")).
Eval vm_compute in ("<<<M2275>>>" ++ check (runes_of_ascii "options
{ } options { BodyLength= u16 Header= f64 ; u128")).
Eval vm_compute in ("<<<M1894>>>" ++ check (runes_of_ascii "MetaData
    u { }  options {
// c
// @lengthOf(
float")).
Eval vm_compute in ("<<<M537>>>" ++ check (runes_of_ascii "
MetaData u
{} packet Header
{ i64 Logon ``	, }
")).
Eval vm_compute in ("<<<M1156>>>" ++ check (runes_of_ascii "
options {
    u8x// @lengthOf(
=
    false }

")).
Eval vm_compute in ("<<<M1654>>>" ++ check (runes_of_ascii "packet
//	t
// trailing space 
_x {
// packet")).
Eval vm_compute in ("<<<M2855>>>" ++ check (runes_of_ascii ": ( i16 u16 char[ false int8 char i64 int64")).
Eval vm_compute in ("<<<M448>>>" ++ check (runes_of_ascii "  MetaData chars { len metadata ,
    }
")).
Eval vm_compute in ("<<<M1097>>>" ++ check (runes_of_ascii "// " ++ [27880; 37322]%N ++ runes_of_ascii "
packet
    Header {
}
// " ++ [128512]%N ++ runes_of_ascii " emoji
")).
Eval vm_compute in ("<<<M2801>>>" ++ check (runes_of_ascii "u64 { @lengthOf( root false i8 repeat")).
Eval vm_compute in ("<<<M1356>>>" ++ check (runes_of_ascii "packet
trueish	{ uint16 chars , }
")).
Eval vm_compute in ("<<<M3174>>>" ++ check (runes_of_ascii "packet A { @tag( // a
 1 ) u8 x, }")).
Eval vm_compute in ("<<<M2776>>>" ++ check (runes_of_ascii "kt*o ,Ndx:NTU=^7""XUGU%zgi5(X*Kwj")).
Eval vm_compute in ("<<<M1705>>>" ++ check (runes_of_ascii "options { trueish = ""`tick`"" ;")).
Eval vm_compute in ("<<<M1085>>>" ++ check (runes_of_ascii "options { pack  =  false
;
}
")).
Eval vm_compute in ("<<<M1884>>>" ++ check (runes_of_ascii "MetaData
    u { }  options")).
Eval vm_compute in ("<<<M2798>>>" ++ check (runes_of_ascii "3" ++ [65533]%N ++ runes_of_ascii "XL" ++ [65533; 65533]%N ++ runes_of_ascii "~gO+" ++ [65533]%N ++ runes_of_ascii "x\" ++ [127; 65533; 4]%N ++ runes_of_ascii "`" ++ [24]%N ++ runes_of_ascii "i" ++ [31; 65533; 65533; 65533]%N ++ runes_of_ascii "R" ++ [65533; 65533]%N)).
Eval vm_compute in ("<<<M4232>>>" ++ check (runes_of_ascii "
MetaData 
o { 
}  // c
")).
Eval vm_compute in ("<<<M4222>>>" ++ check (runes_of_ascii "packet A {
    x `d`,
}")).
Eval vm_compute in ("<<<M3937>>>" ++ check (runes_of_ascii "root packet Logon {
}")).
Eval vm_compute in ("<<<M941>>>" ++ check (runes_of_ascii "packet packetx {
}")).
Eval vm_compute in ("<<<M610>>>" ++ check (runes_of_ascii "root packet A { }
")).
Eval vm_compute in ("<<<M3116>>>" ++ check (runes_of_ascii "// c" ++ [11]%N ++ runes_of_ascii "
packet A {
}")).
Eval vm_compute in ("<<<M3068>>>" ++ check (runes_of_ascii "packet A {
}// c" ++ [160]%N)).
Eval vm_compute in ("<<<M3717>>>" ++ check (runes_of_ascii "MetaData Pad {
}")).
Eval vm_compute in ("<<<M2413>>>" ++ check (runes_of_ascii "// c
packet x")).
Eval vm_compute in ("<<<M2854>>>" ++ check (runes_of_ascii "( match , {")).
Eval vm_compute in ("<<<M2767>>>" ++ check ([65533]%N ++ runes_of_ascii "d" ++ [65533; 65533; 65533]%N ++ runes_of_ascii "R" ++ [27; 8]%N)).
Eval vm_compute in ("<<<M2463>>>" ++ check (runes_of_ascii "repeat")).
Eval vm_compute in ("<<<M2514>>>" ++ check (runes_of_ascii """ab""")).
Eval vm_compute in ("<<<M2479>>>" ++ check (runes_of_ascii "'  '")).
Eval vm_compute in ("<<<M2509>>>" ++ check (runes_of_ascii """a\")).
Eval vm_compute in ("<<<M2496>>>" ++ check (runes_of_ascii "@@")).
Eval vm_compute in ("<<<M2683>>>" ++ check (runes_of_ascii "")).
