From FP Require Import Lexer Parser ShowPT Digest Formatter.
From Coq Require Import String List NArith.
Import ListNotations.
Open Scope string_scope.
Set Printing Width 100000000.
Set Printing Depth 100000000.
Definition show_fres (r : fres) : string :=
  match r with
  | FOk s => "OK:" ++ sh_escaped s ""
  | FErr s => "ERR:" ++ sh_escaped s ""
  | FPanic p => "PANIC:" ++ p
  end.
Definition check (rs : list rune) : string := digest (show_fres (format_res rs)).
Definition full (rs : list rune) : string := show_fres (format_res rs).
Eval vm_compute in ("<<<M3611>>>" ++ check (runes_of_ascii "options { StringPrefixLenType // c2
= // c3
u16 // c4a
  // c4b
;
    // c5
ArrayPrefixLenType
    // c6
= // c7a
  // c7b
u8 // c8
;
    // c9
FixedStringPadFromLeft // c10a
  // c10b
=
    // c11
true ;
    // c13
FixedStringPadChar // c14a
  // c14b
= ' ' ; // c17a
  // c17b
} packet Quote { int64
    // c22
OrderId // c23
,
    // c24
char[] Ref // c26
, // c27
@leftPad // c28a
  // c28b
( '0' // c30
) // c31a
  // c31b
char[
    // c32
5 // c33a
  // c33b
] // c34a
  // c34b
price // c35a
  // c35b
, // c36
} // c37a
  // c37b
packet // c38a
  // c38b
Heartbeat // c39a
  // c39b
{
    // c40
zchar[ // c41
3 ] // c43a
  // c43b
venue
    // c44
, // c45
string Flags
    // c47
,
    // c48
}
    // c49
packet // c50
Trade
    // c51
{
    // c52
repeat // c53a
  // c53b
InTag787 // c54
{ // c55a
  // c55b
i32 // c56
venue , // c58
char[
    // c59
5 // c60a
  // c60b
]
    // c61
sym
    // c62
, repeat // c64a
  // c64b
InPx98 // c65
{ char[
    // c67
11 // c68
] // c69a
  // c69b
Qty // c70
,
    // c71
Heartbeat // c72
, // c73
char[] // c74
price , u32
    // c77
x , // c79a
  // c79b
float64 // c80a
  // c80b
count ,
    // c82
repeat
    // c83
Quote
    // c84
,
    // c85
}
    // c86
,
    // c87
zchar[ // c88a
  // c88b
7 // c89
]
    // c90
Note
    // c91
, // c92
repeat // c93a
  // c93b
char[ 1 // c95a
  // c95b
] Tail // c97
, }
    // c99
, // c100a
  // c100b
repeat // c101a
  // c101b
char[ // c102
2 ] seqNo , InTail55 { // c108
repeat Quote // c110
, string
    // c112
msgKind // c113a
  // c113b
, // c114
InPx18
    // c115
{
    // c116
char[] count // c118a
  // c118b
, repeat
    // c120
Quote , // c122a
  // c122b
uint16 // c123a
  // c123b
Qty // c124
, // c125
} , // c127a
  // c127b
char[ 4 ] // c130a
  // c130b
seqNo , // c132a
  // c132b
repeat // c133a
  // c133b
Heartbeat , // c135a
  // c135b
repeat string
    // c137
sym // c138a
  // c138b
, // c139a
  // c139b
} ,
    // c141
repeat // c142a
  // c142b
Quote // c143a
  // c143b
, // c144
Heartbeat // c145
, // c146a
  // c146b
@leftPad // c147a
  // c147b
(
    // c148
' ' // c149a
  // c149b
) // c150a
  // c150b
char[ // c151
10 // c152
] // c153a
  // c153b
OrderId // c154a
  // c154b
,
    // c155
}
    // c156
root // c157a
  // c157b
packet
    // c158
Fill // c159a
  // c159b
{ // c160a
  // c160b
Heartbeat // c161a
  // c161b
, uint32 count , // c165a
  // c165b
u8
    // c166
OrderId // c167
, match
    // c169
OrderId // c170
as // c171a
  // c171b
Body { 96
    // c174
:
    // c175
Quote // c176a
  // c176b
, 195 // c178a
  // c178b
: // c179a
  // c179b
Trade
    // c180
,
    // c181
187
    // c182
:
    // c183
Heartbeat // c184a
  // c184b
, // c185
} // c186
, // c187a
  // c187b
u32 // c188
venue @calculatedFrom( // c190a
  // c190b
""CRC32"" // c191a
  // c191b
) // c192
, // c193
} // c194
")).
Eval vm_compute in ("<<<M980>>>" ++ check (runes_of_ascii "packet
trueish {
Packet{u8x
    // " ++ [128512]%N ++ runes_of_ascii " emoji
    { match Packet as f32a//	t
{ [255  ,255, 1 ] :calculatedFrom ,
    // packet A { u8 x, }
    ""// no comment""  : a1// c
,  10
    :
Foo
    //
    , ""\" ++ [233]%N ++ runes_of_ascii """ :
//
// packet A { u8 x, }
repeatCount , ""abc"" :MetaDataX
    , 00:u128}
, repeat o //x
roots
`tab	here` , // @lengthOf(
int16 packetx`" ++ [28040; 24687; 31867; 22411]%N ++ runes_of_ascii "` ,
}, } ,crc @lengthOf(i8i8 )	``
,
repeat uint8 body ,@leftPad	( '\x00' ) string packetx@calculatedFrom(	""packet""
) , f64
int
    `line1
line2`
, } packet crc {	i32 u128 `line1
line2`  , @tag( 42 )lengthOf {
    leftPad@lengthOf(
    repeatCount
    ) , u16 _x ,match rootA as// `tick` ""quote"" 'q'
msg_type
    { [ """"
    ] : Z9_ 0
/// triple
// `tick` ""quote"" 'q'
: tag ""\" ++ [233]%N ++ runes_of_ascii """	: As,""1"" :Logon //	t
,00	: A 3:BodyLength ,	} , } ,	@tag( 1 )int8
Pad
, zchar[ 65535
    // `tick` ""quote"" 'q'
    ]
asx // trailing space 
,
}
options
{trueish
    // trailing space 
    =	false ; } packet Packet	{ @calculatedFrom( ""abc"" ) u {repeat Logon {
char[] msg_type @calculatedFrom(
    // packet A { u8 x, }
    ""a\""b""
    )	`// not a comment`, }, repeat char[ // a // b
00]
rootA , }
    ,
// " ++ [128512]%N ++ runes_of_ascii " emoji
//
@calculatedFrom(""abc"" )string
    float,
match Foo as Z9_{ [	0 , ""packet"" // packet A { u8 x, }
, ""a	b"" , 007 , 4294967296 , ""\n"" ]
    :trueish
,
[ 65535, """ ++ [28040; 24687]%N ++ runes_of_ascii """] : u8x 65535:roots
    // a // b
    [""CRC32""]: falsey ,  00
// `tick` ""quote"" 'q'
// `tick` ""quote"" 'q'
: roots
,} , @rightPad (	' ' // packet A { u8 x, }
)
    x_y_z @calculatedFrom(
""\" ++ [233]%N ++ runes_of_ascii """ )
, }packet matchKey {// c
@tag( 7	) leftPad
@calculatedFrom(""\" ++ [233]%N ++ runes_of_ascii """ )
`" ++ [233]%N ++ runes_of_ascii "`  ,  @tag(
    007 ) uint8
leftPad
, int {i16 x``
, match
    len
    as
    f32a {""it's"":calculatedFrom	,  [ 0
] : lengthOf
, 7 // @lengthOf(
: // packet A { u8 x, }
x_y_z
, ""a\""b"" : float
    // c
    ,1
    :Pad,  } , } , o {
    // @lengthOf(
    u8x
    metadata`tab	here` , asx
    {
    match // trailing space 
int
    // c
    as
    /// triple
    x_y_z
/// triple
// packet A { u8 x, }
{ ""a	b"" :  falsey}
    ,	}
, repeat int16 As  `crlf
line`// c
, }
    // " ++ [27880; 37322]%N ++ runes_of_ascii "
    , i32 i64_  `" ++ [233]%N ++ runes_of_ascii "`
//	t
/// triple
,T , }
// c
")).
Eval vm_compute in ("<<<M3891>>>" ++ check (runes_of_ascii "packet T {
    @lengthOf(Foo)
    @tag(10)
    @lengthOf(rootA)
    chars `it's`,
    repeat char roots,
    @tag(0)
    match charz as leftPad {
        0 : tag,
    },
    Z9_ u128,
    int32 int @calculatedFrom(""\n""),
    @lengthOf(int)
    Z9_ {
        repeat char[] calculatedFrom `crlf
                line`,
        zchar[0] o @calculatedFrom(""\" ++ [233]%N ++ runes_of_ascii """),
        u8x {
            _x,// @lengthOf(
            zchar[3] stringy @lengthOf(T),
            // trailing space 
            uint8 body,
            char[] falsey @calculatedFrom(""// no comment"") `" ++ [233]%N ++ runes_of_ascii "`,/// triple
        },
    },
    @tag(1)
    @calculatedFrom(""a\\"")
    @rightPad('0')
    i32 tag @calculatedFrom(""a\""b"") `crlf
        line`,
    match BodyLength as f32a {
        [
            3, 007, 65535, 1, 0,
            ""`tick`"", ""`tick`"", ""1""
        ] : Z9_,
        [""CRC32"", ""a\\""] : chars,
        ""a\""b"" : roots,
        1 : f32a,
    },
    trueish {
        //
        /// triple
        zchar {
            match Pad as tag {
                [0123456789, 00, 7, ""a	b"", ""CRC32""] : options1,
            },
            pack {
                zchar[10] chars,
            },
            u `crlf
                        line`,
            repeat int32 _x `two words`,
        },
    },// trailing space 
    falsey As,
}

options {
    falsey = ""abc"";
    Foo = false;
}

root packet A {
    @lengthOf(uint8x)
    match u8x as msg_type {
        [007, 00] : u128,
        [
            255, 10, ""{,}"", ""// no comment"", """",
            """ ++ [128512]%N ++ runes_of_ascii """
        ] : T,
        255 : string_,
        ""`tick`"" : As,
    },
}

MetaData chars {
    char[65535] roots,
    i64 u128,
    char[42] pack,
}//x")).
Eval vm_compute in ("<<<M3886>>>" ++ check (runes_of_ascii "
packet BodyLength// packet A { u8 x, }
  {  leftPad
	lengthOf ,float	rootA `it's`

,

    @leftPad ('0' )
repeat

BodyLength , 
@rightPad

()  i16// a // b
falsey@lengthOf( 	 // a // b
  i64_
) , // `tick` ""quote"" 'q'

repeat

char[
0123456789
]	uint8x,

repeat 
    // " ++ [27880; 37322]%N ++ runes_of_ascii "
		f64 i64_ 
, a1

    tag`" ++ [233]%N ++ runes_of_ascii "` , char[ 10

    ]	packetx 
`say ""hi""` , repeat
	tag
metadata
	`tab	here`, }
	/// triple
options
{ crc
=
"""";
}
    packet
	int

    {

    repeat
zchar[

255
] i64_ 
`two words` //x
  , string

tag
@lengthOf(  // a // b
Header)	,	char

chars ,
@lengthOf(
    crc
)
    match  asx as
    Foo

    { 7
: 
BodyLength

    ,
""packet""
:	Z9_	,
007:

matchKey	,
    }
	,
uint16
metadata	// a // b

  ,

    i64_

    {
repeat
	u8  msg_type
, stringy 
{
    char[

    0123456789

] // c
    o	@calculatedFrom( 
""\n"" )

`" ++ [233]%N ++ runes_of_ascii "`
,

}
    /// triple

	// packet A { u8 x, }
    ,
zchar[00
]
    stringy

`line1
line2` 
,
},
@leftPad//
      ( 
'0' )

    match uint8x  as u128  {
    [ 1 	 // a // b
    	,
""abc""  ]
:
_x""a	b""
:  Packet

// c
    3:_x//	t
  ,""`tick`"" :packetx
,""\n""
    :Header,}	,
x
    // c
@calculatedFrom( 
	/// triple

""\n""
)
	,  zchar[	65535
]

Packet 	 //x
,
}
	MetaData

Logon
    {  }	packet
packetx	{
@calculatedFrom(
	""a\\"" )
match

roots 
as
Foo{
[
""\n""

,
    4294967296]:asx ,
	00  :o

, 
""{,}""
    :

    Header

    ,
	255  :	packetx  ,
    [ 
255

    ,

4294967296 ]
    :MetaDataX,

}  , }

")).
Eval vm_compute in ("<<<M3799>>>" ++ check (runes_of_ascii "  packet matchKey {
    zchar[

3 ] 
	// `tick` ""quote"" 'q'

// packet A { u8 x, }
	A,
    msg_type
`a\`,
MetaDataX
    As
    , 
@lengthOf(

    Z9_ ) 
repeat  f32	_x
,
@lengthOf(
Pad)	uint32	//	t
Logon
	,  // a // b

  @tag(	4294967296	)

T`doc` ,

len ,
body{
	repeat
o
    {

    match	i8i8	as

    body  {

65535
: lengthOf	,

    [
    ""\n"" ]

    :
    i64_
	3 
:

    asx ,
[	""packet""

,
/// triple
007,	""{,}"" ,
""// no comment""
]

    :

repeatCount,

[
""// no comment""
	,
	7
    ,""\" ++ [233]%N ++ runes_of_ascii """  , 0123456789 //

	, 
""a\""b""

]: 
roots

}

    , match
    repeatCount as
As 
{ """"
    /// triple
		:	//	t

o ,
    } ,	} ,zchar[

0
	]  BodyLength `` ,lengthOf,

}

,

i16
Z9_	, }
packet
tag
{@tag( 
    // `tick` ""quote"" 'q'
	1
	)	repeat
    float i8i8 `" ++ [28040; 24687; 31867; 22411]%N ++ runes_of_ascii "`  // `tick` ""quote"" 'q'
	,

@rightPad	( )  @lengthOf(
_x	)	@rightPad( 	 // c
  '0'
	)

Packet,Foo 	 /// triple
    @lengthOf(
u128
    ) `doc`,
	@tag(

007
)  // packet A { u8 x, }
    	string

    repeatCount

    ,  o {match

leftPad
as
lengthOf{ [
	0123456789,
	""1""  ]

    : 
x_y_z
,
[
	""" ++ [128512]%N ++ runes_of_ascii """
]
:

    i8i8

, [// @lengthOf(
""a\""b"" 
,
	""a	b"" ] :

    Foo  ,[  ""\" ++ [233]%N ++ runes_of_ascii """
	]:Pad

,
[
""a	b""
    ,
	42 
//
//	t
      , """ ++ [233]%N ++ runes_of_ascii "t" ++ [233]%N ++ runes_of_ascii """ ,
	3
,
""" ++ [28040; 24687]%N ++ runes_of_ascii """

, 
00
	,

7 ]

    : packetx  ,
42
    //x
	:falsey	,}
	,}

    ,}
	packet 
body	{ }
")).
Eval vm_compute in ("<<<M1348>>>" ++ check (runes_of_ascii "options { tag = 0;} packet u8x
    { // trailing space 
u Z9_ , @tag(
    00 )@rightPad ( '\x00'
    )  @calculatedFrom(
""CRC32"" ) //	t
crc, metadata	@calculatedFrom(
""a	b""
    ) // c
, @tag( 4294967296  ) u64 rootA
    `tab	here`, // @lengthOf(
@calculatedFrom( ""\n""
    )char[]	pack
    @lengthOf( chars) `" ++ [28040; 24687; 31867; 22411]%N ++ runes_of_ascii "` ,zchar[ 255 ]Foo @lengthOf( f32a ) , @leftPad
(	) @lengthOf( string_ )
@rightPad(
' '
    )
    match
msg_type
as // " ++ [128512]%N ++ runes_of_ascii " emoji
falsey  {
    // a // b
    ""a	b"" :
x ,} , @calculatedFrom( ""{,}"" )
match
body as MetaDataX {42 // " ++ [27880; 37322]%N ++ runes_of_ascii "
: u8x 0123456789
: options1 , // c
[ 3 ]: As , [ 00 ] :// c
A ,
""CRC32""
: zchar , [	""it's"" ,
""" ++ [233]%N ++ runes_of_ascii "t" ++ [233]%N ++ runes_of_ascii """  ,	""1"", 3, ""a	b""
    , 1
    //x
    ,  0123456789, //	t
4294967296
] :
    packetx
    , // " ++ [27880; 37322]%N ++ runes_of_ascii "
}, repeat uint8 o`{ , }`
    ,
//	t
//
} packet leftPad {
u32
// packet A { u8 x, }
//x
packetx
`a\` ,@calculatedFrom( ""// no comment""	) @rightPad ( ) @lengthOf(
    asx
    )
// c
// trailing space 
char[ 42
    ] calculatedFrom @lengthOf( packetx ), @tag(
    00
)stringy  msg_type , u128 i64_ `it's` ,@rightPad
    ('\x00') u8x
, @calculatedFrom( """ ++ [28040; 24687]%N ++ runes_of_ascii """
) len msg_type , // packet A { u8 x, }
MetaDataX pack
    // c
    ,@calculatedFrom( """ ++ [28040; 24687]%N ++ runes_of_ascii """ ) string MetaDataX//	t
`
` , }
")).
Eval vm_compute in ("<<<M780>>>" ++ check (runes_of_ascii "root packet
Logon { zchar[
    00 ]roots@calculatedFrom(
    ""a\""b"" ) ,
}MetaData int
//	t
// @lengthOf(
{
float
roots , char u8x `// not a comment` , uint64 _x , // @lengthOf(
u128 chars
// @lengthOf(
//
`
`, i16  leftPad `" ++ [28040; 24687; 31867; 22411]%N ++ runes_of_ascii "` ,
u8
string_  ,
    // @lengthOf(
    }packet trueish
    { /// triple
asx
    //	t
    {
msg_type  {	repeat string A	`" ++ [233]%N ++ runes_of_ascii "`, }
,
    } , @tag( 65535
) Packet
_x `line1
line2`,
// packet A { u8 x, }
// a // b
repeat uint32 // @lengthOf(
x_y_z// a // b
`two words` // c
,@calculatedFrom( ""packet""
    )i64_
@lengthOf( Logon
) ,
    @rightPad (	'\x00' ) match
msg_type as
    Foo
{ [  ""{,}"" ,	""a	b"" , 10
, ""abc"" ]
    :
    u128 ,""// no comment"" :
lengthOf, ""a\""b"" : len// " ++ [27880; 37322]%N ++ runes_of_ascii "
,	""\n"" : x_y_z } ,
    repeat int32
asx `say ""hi""` ,
    @rightPad ( ) @tag(
00 ) @rightPad ( ' ' ) char[
    10 ]crc
@lengthOf(
    // packet A { u8 x, }
    metadata ) `
`
    ,
    @lengthOf(
msg_type	) char[] charz
@lengthOf( //x
Pad
) `crlf
line` , zchar[ 65535 ]
    a1	@calculatedFrom(
""a\\"" )  ,char[ 42
    ]
//x
// " ++ [128512]%N ++ runes_of_ascii " emoji
charz
, }
root packet BodyLength {@tag(	3
    )
@lengthOf(Header ) len @calculatedFrom(
""""
) `crlf
line` ,}")).
Eval vm_compute in ("<<<M4393>>>" ++ check (runes_of_ascii "root packet Logon {
    zchar[00] roots @calculatedFrom(""a\""b""),
}

MetaData int {
    float roots,
    char u8x `// not a comment`,
    uint64 _x,
    u128 chars `
        `,
    i16 leftPad `" ++ [28040; 24687; 31867; 22411]%N ++ runes_of_ascii "`,
    u8 string_,
}

packet trueish {
    /// triple
    asx {
        msg_type {
            repeat string A `" ++ [233]%N ++ runes_of_ascii "`,
        },
    },
    @tag(65535)
    Packet _x `line1
        line2`,
    // packet A { u8 x, }
    // a // b
    repeat uint32 x_y_z `two words`,
    @calculatedFrom(""packet"")
    i64_ @lengthOf(Logon),
    @rightPad('\x00')
    match msg_type as Foo {
        [10, ""{,}"", ""a	b"", ""abc""] : u128,
        ""// no comment"" : lengthOf,
        ""a\""b"" : len,
        ""\n"" : x_y_z,
    },
    repeat int32 asx `say ""hi""`,
    @rightPad()
    @tag(00)
    @rightPad(' ')
    char[10] crc @lengthOf(metadata) `
        `,
    @lengthOf(msg_type)
    char[] charz @lengthOf(Pad) `crlf
        line`,
    zchar[65535] a1 @calculatedFrom(""a\\""),
    char[42] charz,
}

root packet BodyLength {
    @tag(3)
    @lengthOf(Header)
    len @calculatedFrom("""") `crlf
        line`,
}")).
Eval vm_compute in ("<<<M3785>>>" ++ check (runes_of_ascii "options{StringPrefixLenType =

u64

    ;
ArrayPrefixLenType
= u16
    ;

FixedStringPadChar
    =

    ' '
    ;
    }packet Logon

    { i32  msgKind ,
    repeat
	InOrderid65
{u8 
pad0

    ,	} 
,
	i8

    tag7

,
    @leftPad  (

' ')

char[	12

    ]
    x

    ,} 
packet Leg
    { char[]
	f1
	,
repeat

char[

    5
] Px  , 
InQty34 {  repeat
    char[6
]

    Qty  ,
	char[ 7 ]
	seqNo

    , string
count	,	}

    ,
Logon

    ,  }
packet Party { @leftPad
	(
    '0'

    )
char[	10 ]

OrderId ,string

Tail  ,} 
packet Fill {zchar[	5  ]
	venue,

    zchar[

3 
] 
clOrdID	,

InRef95
	{ InLastpx25  { u8 pad0

    ,

    },	float64

OrderId , i32 f1, float32 x
,
	char[]seqNo

, },
	repeat  string
seqNo	, 
}root packet
Heartbeat { repeat  Leg , u32
seqNo
    ,	u16

tag7

,
u32 Flags
@lengthOf(
Body	), match
    tag7

    as
	Body
	{ [ 
195 ,

75
    ] :  Party,
171
	: Fill
	,
78 
:
	Logon ,
	142 :

    Leg
,}
,
u32 Note
    @calculatedFrom(	""CRC32""
    )

, }")).
Eval vm_compute in ("<<<M3736>>>" ++ check (runes_of_ascii "root packet pack {
    match MetaDataX as Packet {
        7 : trueish,
        /// triple
        """ ++ [233]%N ++ runes_of_ascii "t" ++ [233]%N ++ runes_of_ascii """ : MetaDataX,
        4294967296 : msg_type,
        65535 : metadata,
        3 : x_y_z,
        42 : _x,
    },
}

packet x_y_z {
    repeat crc metadata,
    match A as u8x {
        [
            0123456789, 4294967296, ""it's"", ""\" ++ [233]%N ++ runes_of_ascii """, ""1"",
            ""abc"", ""// no comment""
        ] : pack,
        007 : tag,
    },
}

packet repeatCount {
    @lengthOf(stringy)
    uint8 f32a,
}

options {
    BodyLength = '\x00';
    body = ' ';
}

packet charz {
    repeat Z9_ rootA `two words`,//
    @calculatedFrom(""a\\"")
    f32a @lengthOf(msg_type) `say ""hi""`,
    int8 As,
    string stringy @lengthOf(options1) `crlf
    line`,
    i8 i8i8,
    f32a options1,
    @leftPad('\x00')
    u @calculatedFrom(""" ++ [128512]%N ++ runes_of_ascii """),
    @calculatedFrom(""\" ++ [233]%N ++ runes_of_ascii """)
    @tag(00)
    @tag(0)
    int64 trueish @calculatedFrom(""`tick`""),
    @leftPad(' ')
    zchar @lengthOf(Z9_),
}// " ++ [27880; 37322]%N)).
Eval vm_compute in ("<<<M1237>>>" ++ check (runes_of_ascii "// a // b
options
    { i64_ //
=
    false ; BodyLength
    =
    10	;} packet msg_type { @lengthOf( msg_type) match rootA as
    tag { ""1""	:// `tick` ""quote"" 'q'
u8x ,[""x y""
    ,// " ++ [128512]%N ++ runes_of_ascii " emoji
""" ++ [233]%N ++ runes_of_ascii "t" ++ [233]%N ++ runes_of_ascii """, 0123456789
, 007 , 7, 255 ,	7 , 65535]:matchKey,4294967296 :chars""packet"" : charz
    ,
    ""// no comment"": // a // b
i64_ ,
10 : MetaDataX  ,} , @lengthOf( metadata )
MetaDataX@calculatedFrom(""" ++ [233]%N ++ runes_of_ascii "t" ++ [233]%N ++ runes_of_ascii """ ) `
` , f32a{
matchKey, } , zchar[10 ]  _x
`line1
line2` ,metadata crc ,	@lengthOf( body) char[
3  ]string_ ,repeat T , trueish// @lengthOf(
i8i8 ,f32
Header`
`,	@leftPad	(' ' ) char[00 ]o , } packet zchar { @lengthOf( Packet
) @lengthOf( falsey)// " ++ [128512]%N ++ runes_of_ascii " emoji
repeat rootA `doc`
    , @leftPad // " ++ [128512]%N ++ runes_of_ascii " emoji
( ' '
// @lengthOf(
// @lengthOf(
) char[] float @lengthOf(
roots )
,
    }root packet //x
lengthOf{
rootA// trailing space 
@calculatedFrom(
    ""it's"" ) ,
} root
    packet repeatCount// a // b
{ }
")).
Eval vm_compute in ("<<<M4346>>>" ++ check (runes_of_ascii "

  root packet 
roots //
      {  // trailing space 
  	}
	root packet MetaDataX{
	char[255 ]

rootA,
} 	 /// triple
	packet
	u8x{ @rightPad
(	// " ++ [27880; 37322]%N ++ runes_of_ascii "
  ) msg_type @lengthOf(

    Z9_ )
    ,  char[

    0

    ]x_y_z@lengthOf(
	len) // " ++ [27880; 37322]%N ++ runes_of_ascii "
  `it's`// " ++ [128512]%N ++ runes_of_ascii " emoji
, 
@rightPad

    (' ' 
) 
int16

    calculatedFrom , chars	@lengthOf( 	 //x
    msg_type
)  
  //	t

// @lengthOf(
	`it's`	,

    repeat
    pack 
{ repeat 
u64 // c
    	x
	,	}	,i8

metadata @calculatedFrom(
""" ++ [28040; 24687]%N ++ runes_of_ascii """ ), 
match	o

as	len
{ [ 
0123456789
, 
""a\""b"",65535 
  // `tick` ""quote"" 'q'
    ,

""" ++ [128512]%N ++ runes_of_ascii """	,0123456789 ,
    ""{,}""
    ]:
    body  3
: As

    ,
3 :
As 
, 42:  int
    ,
	1 	 // @lengthOf(
  :	o
,

[ 1
]

:o 	 // c
	  ,

    } , 
zchar[	007
]
	asx
	,  asx
@lengthOf(

    zchar
// packet A { u8 x, }
    // @lengthOf(

),
	f64	Logon `` 
        // " ++ [27880; 37322]%N ++ runes_of_ascii "
  ,
	} 	 //")).
Eval vm_compute in ("<<<M553>>>" ++ check (runes_of_ascii "packet
    A { calculatedFrom
    //
    @lengthOf(//
zchar ) `say ""hi""`	, @calculatedFrom(  ""{,}""
)
repeat
    u8x // `tick` ""quote"" 'q'
uint8x `u8 x,` ,
    match
//
// " ++ [128512]%N ++ runes_of_ascii " emoji
o as matchKey {
[ 3 ,""""]: T ,//
""{,}""// @lengthOf(
:
// a // b
// packet A { u8 x, }
calculatedFrom } ,
    repeat char[ 255	] u
,char[]Packet ,repeat int64
packetx// trailing space 
,  @leftPad( '\x00'
)@calculatedFrom( """" ) zchar { // trailing space 
f32
    //
    zchar `" ++ [28040; 24687; 31867; 22411]%N ++ runes_of_ascii "`,match
u128 as
    options1
{ [""abc"",10 ,
    65535 , 0 , ""\n"" ,""" ++ [128512]%N ++ runes_of_ascii """ ,
0123456789 ]
    : // a // b
chars
, 00 :
As
, ""a	b""
    : packetx, 10: a1, // packet A { u8 x, }
} , },
    float64 calculatedFrom @lengthOf( //
packetx
    ) ,char[ //x
00]
// " ++ [128512]%N ++ runes_of_ascii " emoji
//
string_ `
` , @calculatedFrom( ""it's""
    )@leftPad
()
    f32 BodyLength , }
// " ++ [27880; 37322]%N ++ runes_of_ascii "
")).
Eval vm_compute in ("<<<M4586>>>" ++ check (runes_of_ascii "packet f32a {
    @calculatedFrom(""1"")
    _x {
        string metadata @calculatedFrom(""`tick`"") `// not a comment`,
        match Foo as len {
            42 : Z9_,
            //x
        },
    },
}

packet options1 {
    @lengthOf(A)
    roots @lengthOf(msg_type) `line1
    line2`,
    int32 a1 `it's`,
    @calculatedFrom(""packet"")
    repeat string T,
    @lengthOf(i64_)
    @calculatedFrom(""packet"")
    @tag(007)
    int16 asx @calculatedFrom(""it's"") `doc`,
    repeat i32 charz,
    metadata `// not a comment`,
}

packet Logon {
}

options {
}

root packet tag {
    @lengthOf(Logon)
    charz {
        string stringy `// not a comment`,
        uint64 int,
        char i64_ `it's`,
    },
    //	t
    //
    u8 i64_,
    zchar[1] float,
}/// triple")).
Eval vm_compute in ("<<<M1025>>>" ++ check (runes_of_ascii "root packet
roots //
{ // trailing space 
} root packet MetaDataX
{
char[255 ]	rootA , }/// triple
packet u8x { @rightPad
( // " ++ [27880; 37322]%N ++ runes_of_ascii "
) msg_type@lengthOf( Z9_
) , char[
    0
] x_y_z @lengthOf( len )// " ++ [27880; 37322]%N ++ runes_of_ascii "
`it's`// " ++ [128512]%N ++ runes_of_ascii " emoji
, @rightPad
( ' ') int16 calculatedFrom ,chars @lengthOf(//x
msg_type
)
//	t
// @lengthOf(
`it's`
,
    repeat pack { repeat u64 // c
x
    ,
}	, i8
metadata @calculatedFrom(""" ++ [28040; 24687]%N ++ runes_of_ascii """ )
,
    match o as len { [ 0123456789 ,
""a\""b"" , 65535
    // `tick` ""quote"" 'q'
    ,
""" ++ [128512]%N ++ runes_of_ascii """ , 0123456789 ,
""{,}""] : body 3:
As , 3: As ,
42 : int , 1// @lengthOf(
:
    o
    ,  [ 1
    ]
: o// c
,
} ,
zchar[ 007] asx
,
    asx
@lengthOf( zchar
// packet A { u8 x, }
// @lengthOf(
) ,
f64 Logon
    ``
    // " ++ [27880; 37322]%N ++ runes_of_ascii "
    ,
} //")).
Eval vm_compute in ("<<<M3929>>>" ++ check (runes_of_ascii "root packet o {
    a1 a1,
    char[3] i8i8 `
    `,
    @calculatedFrom(""a\""b"")
    // packet A { u8 x, }
    repeat Pad,
}

// `tick` ""quote"" 'q'
// `tick` ""quote"" 'q'
packet tag {
    i8i8 @calculatedFrom(""x y"") `it's`,
    @lengthOf(x_y_z)
    @calculatedFrom(""a\""b"")
    u {
        match a1 as Logon {
            ""\n"" : Pad,
            3 : body,
            """" : Logon,
            ""\n"" : T,
            ""`tick`"" : tag,
            [
                7, 0123456789, 0, """ ++ [233]%N ++ runes_of_ascii "t" ++ [233]%N ++ runes_of_ascii """, ""a\""b"",
                ""abc"", """ ++ [28040; 24687]%N ++ runes_of_ascii """
            ] : Z9_,
        },
        char[00] string_ @lengthOf(asx),
        char[1] falsey,
    },
    match crc as lengthOf {
        4294967296 : a1,
    },
}")).
Eval vm_compute in ("<<<M944>>>" ++ check (runes_of_ascii "packet
i8i8 {	@tag( 65535 ) i8i8 ,  repeat
u8 uint8x , zchar[7] u
    // " ++ [27880; 37322]%N ++ runes_of_ascii "
    ,
    repeat
    char[] Packet , @leftPad ( '\x00' )i64_
    { x `line1
line2` ,//x
} , // a // b
repeat Foo{	len{match // a // b
u  as
    _x { 42
    :  tag , [
""" ++ [233]%N ++ runes_of_ascii "t" ++ [233]%N ++ runes_of_ascii """	] : _x[ 7 , 4294967296] : Packet , } ,float64 o
`it's`,int64
    options1 ,//	t
} ,
} , @leftPad
(
    '\x00' )match x //
as zchar{	255:
    //
    o, 255 : Logon /// triple
,	0	: Header ,007
    : msg_type ,[
    // packet A { u8 x, }
    ""\n"" ,// packet A { u8 x, }
007
// " ++ [27880; 37322]%N ++ runes_of_ascii "
// a // b
, ""1"" ,  255// a // b
,4294967296 , 0 ,007
    ] :
    int , } , }// trailing space 
packet
As
{ }

")).
Eval vm_compute in ("<<<M4061>>>" ++ check (runes_of_ascii "MetaData MetaDataX {
    string pack ``,
    u32 falsey,
    char[65535] chars,
    u64 int,
}

options {
    i8i8 = true;
    float = ' ';
}

packet Foo {
    @lengthOf(i64_)
    repeat calculatedFrom {
        match repeatCount as stringy {
            255 : msg_type,
            65535 : roots,
            ""a\""b"" : repeatCount,
            [""packet"", ""1""] : o,
            """ ++ [28040; 24687]%N ++ runes_of_ascii """ : zchar,
            ""CRC32"" : A,
        },
        int64 chars @calculatedFrom(""a\""b"") `say ""hi""`,
        packetx @lengthOf(x_y_z),
    },
    stringy @calculatedFrom(""" ++ [28040; 24687]%N ++ runes_of_ascii """) `u8 x,`,
    zchar[007] chars,
    zchar[1] f32a `" ++ [28040; 24687; 31867; 22411]%N ++ runes_of_ascii "`,
}")).
Eval vm_compute in ("<<<M1070>>>" ++ check (runes_of_ascii "options { packetx=  ""a\\""
    //	t
    x_y_z	=// " ++ [128512]%N ++ runes_of_ascii " emoji
false ;
    len
    //x
    = """ ++ [233]%N ++ runes_of_ascii "t" ++ [233]%N ++ runes_of_ascii """u =
    ""x y"" }MetaData Foo
    { uint8x
    /// triple
    Z9_ // c
`
`
,options1 msg_type ,string_ // @lengthOf(
trueish
`
` , metadata /// triple
rootA`two words`
    //
    , } root packet Foo { repeat
trueish {
match A as options1 { ""packet""
: int , }
    ,
zchar[ 007]	u8x @calculatedFrom( """ ++ [233]%N ++ runes_of_ascii "t" ++ [233]%N ++ runes_of_ascii """ ) , msg_type float `" ++ [28040; 24687; 31867; 22411]%N ++ runes_of_ascii "` , match string_ as  charz // a // b
{10
: zchar ,
    [ 0	, 007, 10 ,65535 ,1 , ""x y""
    ,""" ++ [233]%N ++ runes_of_ascii "t" ++ [233]%N ++ runes_of_ascii """ ]// `tick` ""quote"" 'q'
: u  ,
1: u128
//x
//
,3: int,	} , }
    ,
    } 	 ")).
Eval vm_compute in ("<<<M4453>>>" ++ check (runes_of_ascii "
MetaData
roots {} MetaData x_y_z	// trailing space 
    {	zchar[42
] i8i8
    ,
    options1

    _x`doc`
	, i8
    zchar
    ,	uint16 Pad `u8 x,`
    ,

    } packet MetaDataX
{
	zchar[

    4294967296
    ]

rootA	,
        //
      //x
    }  packet T{ //x
  @lengthOf(
len
) @tag(
    42
    )int64  float  `{ , }`	// c
    ,

    @lengthOf(
i64_
)

    As @lengthOf( falsey 
  // a // b
		)

    ,
int64
Pad @lengthOf(_x )

    `it's`
,@lengthOf(
len )
char[

    255 ]  Pad `" ++ [28040; 24687; 31867; 22411]%N ++ runes_of_ascii "`	,}
MetaData
Foo
    {  // " ++ [27880; 37322]%N ++ runes_of_ascii "
  char[

1  ]
	As

    , }")).
Eval vm_compute in ("<<<M313>>>" ++ check (runes_of_ascii "root
packet i8i8
{ BodyLength `" ++ [28040; 24687; 31867; 22411]%N ++ runes_of_ascii "`, Header , int16 len @lengthOf( msg_type ) `
` ,@leftPad/// triple
(' '/// triple
) @rightPad// " ++ [27880; 37322]%N ++ runes_of_ascii "
( // a // b
) // trailing space 
@calculatedFrom(
""x y"" ) repeatCount // @lengthOf(
@calculatedFrom( /// triple
""packet"")
    `crlf
line` , @lengthOf(falsey
)  roots @lengthOf( metadata
    )`line1
line2` ,
    i8 i64_
, @tag( 4294967296)@tag( 3 ) repeat	zchar[
1 ] lengthOf, @lengthOf(	Logon
// `tick` ""quote"" 'q'
// `tick` ""quote"" 'q'
)repeat
asx{stringy float`line1
line2` , Pad ,
}
    , }
")).
Eval vm_compute in ("<<<M1044>>>" ++ check (runes_of_ascii "
options	{ x // c
= ""{,}"" ; i8i8 = true
;matchKey	=
""1"" ;} MetaData rootA { string
    packetx
    //	t
    `it's` // c
,
// `tick` ""quote"" 'q'
// packet A { u8 x, }
char[4294967296	] roots
,
    zchar As ,
    Z9_	asx `" ++ [28040; 24687; 31867; 22411]%N ++ runes_of_ascii "`,char[]Pad , } packet As{@leftPad //
('0' ) match falsey as pack{4294967296:leftPad ,	10 : // packet A { u8 x, }
zchar,""it's"" :
u8x, """" : string_} ,
    i8 Header , u16
lengthOf@lengthOf( leftPad ) , }packet int { @tag(3 )  tag ``, }  MetaData
    // " ++ [27880; 37322]%N ++ runes_of_ascii "
    a1 {repeatCount	asx , }")).
Eval vm_compute in ("<<<M1163>>>" ++ check (runes_of_ascii "
root  packet chars
{ }
    packet rootA{ u128
,match Header as
    _x	{ 1// a // b
:
Foo ,
// c
/// triple
[
""" ++ [28040; 24687]%N ++ runes_of_ascii """ , 007 ]
: float ""x y""	: repeatCount , ""\" ++ [233]%N ++ runes_of_ascii """ :
body 1
: float , } , i8
    // packet A { u8 x, }
    u8x @calculatedFrom( """ ++ [28040; 24687]%N ++ runes_of_ascii """
) // " ++ [128512]%N ++ runes_of_ascii " emoji
, string
metadata ,	@lengthOf( metadata )	repeat
    /// triple
    zchar[
    255
    ] Foo ,
// `tick` ""quote"" 'q'
//x
@tag( 007 )	Foo @calculatedFrom(	""// no comment""
) `a\` , leftPad@calculatedFrom(
""it's""
    ) `u8 x,` , }
")).
Eval vm_compute in ("<<<M547>>>" ++ check (runes_of_ascii "options { As
    =u16
body =char[]
} MetaData options1
{ //
zchar[1 ] T
`{ , }`, stringy BodyLength
    ,uint16 matchKey
    , //	t
char[ 255
// `tick` ""quote"" 'q'
// " ++ [128512]%N ++ runes_of_ascii " emoji
] _x// trailing space 
, o o `a\`
, }
packet chars
{
f32a
{
repeat a1,
    repeat charz	x_y_z , asx,
    rootA len
`crlf
line` ,
}
,// " ++ [27880; 37322]%N ++ runes_of_ascii "
} root packet Header { string float
`
`
,//	t
} options
{ T
    = false options1 =
    ""packet"" matchKey
    =zchar[00 ] ; string_	= false ; }
")).
Eval vm_compute in ("<<<M739>>>" ++ check (runes_of_ascii "
packet
    Pad{// `tick` ""quote"" 'q'
@tag( 42)
body
u8x , char[ 3 ]
u128
`it's`
,
char[ 4294967296 ]uint8x`two words`  ,@lengthOf(	f32a ) body {repeat string roots ,Pad @calculatedFrom( ""\" ++ [233]%N ++ runes_of_ascii """ // trailing space 
)
,
// trailing space 
// " ++ [27880; 37322]%N ++ runes_of_ascii "
metadata  crc`tab	here`, lengthOf
    {zchar[  0 ] x_y_z
    // packet A { u8 x, }
    @lengthOf( crc )
    `u8 x,` ,char[] roots ,
    //x
    } ,
    } ,	}
    // c
    options {rootA =""packet""
    }")).
Eval vm_compute in ("<<<M1135>>>" ++ check (runes_of_ascii "options{
    //	t
    o=
float64 ; rootA =""a	b"" tag =
    // a // b
    true ;
BodyLength = //	t
""\" ++ [233]%N ++ runes_of_ascii """
    ;
} packet leftPad	{
    u8x
    //	t
    roots
`{ , }` // " ++ [27880; 37322]%N ++ runes_of_ascii "
, @calculatedFrom( ""// no comment"" ) i64_
a1,
// packet A { u8 x, }
/// triple
f64
    tag
, }MetaData charz { string msg_type ,  roots x_y_z	, Z9_ chars`tab	here`
    , packetx
    u128 `// not a comment` , // c
pack a1 ,} packet
falsey {
uint32 Foo ,
}
")).
Eval vm_compute in ("<<<M558>>>" ++ check (runes_of_ascii "packet crc {
// c
//x
@tag( 0 )
    float64
    falsey @calculatedFrom( ""packet""
)
, match x as matchKey
    { 42: options1 0:  crc  ,  007 : u128 ,	} ,
@calculatedFrom(""" ++ [233]%N ++ runes_of_ascii "t" ++ [233]%N ++ runes_of_ascii """ )repeat i8i8{ zchar[4294967296] x @lengthOf( As
) ,
repeat int32 a1
,i32 x`" ++ [28040; 24687; 31867; 22411]%N ++ runes_of_ascii "` , },
    int @lengthOf( metadata ) ,	repeat
trueish, uint16 int , x_y_z @lengthOf( roots
// `tick` ""quote"" 'q'
//
)`" ++ [28040; 24687; 31867; 22411]%N ++ runes_of_ascii "` , }
// packet A { u8 x, }
")).
Eval vm_compute in ("<<<M624>>>" ++ check (runes_of_ascii "packet  x_y_z
    // @lengthOf(
    { @tag( 1
/// triple
//
) A @calculatedFrom(""a\""b""	) , match Pad as lengthOf{ 007 :u128 , }	, match
chars as roots
    {1	: roots , [ 1
    ] :
    A
, // " ++ [27880; 37322]%N ++ runes_of_ascii "
""a	b"" : roots
[	""abc"" , 0
    ] :
    // trailing space 
    u128 ,
    }
    , repeat i64
i8i8 , @calculatedFrom( """ ++ [233]%N ++ runes_of_ascii "t" ++ [233]%N ++ runes_of_ascii """ )BodyLength,
@tag( 255 ) string u8x ,
    BodyLength options1 `
`
, }
")).
Eval vm_compute in ("<<<M3822>>>" ++ check (runes_of_ascii "options {
    u = ""a\""b"";
}

packet matchKey {
    char[42] len @lengthOf(f32a) `it's`,
    @lengthOf(x_y_z)
    @calculatedFrom(""CRC32"")
    uint16 f32a @lengthOf(zchar) `" ++ [233]%N ++ runes_of_ascii "`,
    @lengthOf(Z9_)
    @leftPad('0')
    repeat falsey {
        options1,
        char charz `doc`,
        zchar[10] leftPad,// " ++ [27880; 37322]%N ++ runes_of_ascii "
    },
}

packet o {
    stringy @calculatedFrom(""CRC32""),
}")).
Eval vm_compute in ("<<<M3543>>>" ++ check (runes_of_ascii "// top
packet
    // c0
B // c1a
  // c1b
{ u8 // c3
a // c4a
  // c4b
, }
    // c6
root // c7
packet
    // c8
P
    // c9
{ // c10
u8 // c11
K // c12
,
    // c13
u8
    // c14
L // c15a
  // c15b
@lengthOf( Body
    // c17
) ,
    // c19
match
    // c20
K as Body {
    // c24
1 // c25
: B ,
    // c28
} // c29a
  // c29b
, // c30
}
    // c31
")).
Eval vm_compute in ("<<<M791>>>" ++ check (runes_of_ascii "root
    packet
falsey{  repeat i64_ , //	t
@tag( 4294967296 ) @leftPad (' ' )
@lengthOf( _x )x leftPad `a\`,
/// triple
// " ++ [27880; 37322]%N ++ runes_of_ascii "
@calculatedFrom( """"	)  @lengthOf( i8i8 ) @tag( 10
    ) stringy { u8x { int8 i8i8 @lengthOf( string_ ) `doc`
, string asx, }
// " ++ [128512]%N ++ runes_of_ascii " emoji
/// triple
,} ,
    @tag( 007
)string metadata  , } // packet A { u8 x, }")).
Eval vm_compute in ("<<<M3791>>>" ++ check (runes_of_ascii "packet	calculatedFrom {
    @calculatedFrom( ""a	b"" 
)

    T// packet A { u8 x, }
  {zchar[ 0123456789
]
    falsey

    `say ""hi""`,
match

    o  as 
    // " ++ [27880; 37322]%N ++ runes_of_ascii "
    matchKey  { 
[""`tick`"" ,
//
  ""it's""] 
:
    int 
,
1 : float // a // b
    ,	},  string
Foo	@calculatedFrom(
""a\\"" )
    ,// `tick` ""quote"" 'q'

}
,
	}
")).
Eval vm_compute in ("<<<M2048>>>" ++ check (runes_of_ascii "MetaData
    u { }  options {
// c
// @lengthOf(
float = int8 ;rootA =false ; As =	int16 // `tick` ""quote"" 'q'
repeatCount
    // trailing space 
    =
    int16
; u8x =
    //	t
    '\x00' ; } options	{
    repeatCount
= 0
u128
    //
    = false ; i64_
// trailing space 
// `tick` ""quote"" 'q'
= '0' float64 //	t
}
")).
Eval vm_compute in ("<<<M1873>>>" ++ check (runes_of_ascii "MetaData
    u { asx  options {
// c
// @lengthOf(
float = int8 ;rootA =false ; As =	int16 // `tick` ""quote"" 'q'
repeatCount
    // trailing space 
    =
    int16
; u8x =
    //	t
    '\x00' ; } options	{
    repeatCount
= 0
u128
    //
    = false ; i64_
// trailing space 
// `tick` ""quote"" 'q'
= '0' ; //	t
}
")).
Eval vm_compute in ("<<<M1859>>>" ++ check (runes_of_ascii "@rightPad
    u { }  options {
// c
// @lengthOf(
float = int8 ;rootA =false ; As =	int16 // `tick` ""quote"" 'q'
repeatCount
    // trailing space 
    =
    int16
; u8x =
    //	t
    '\x00' ; } options	{
    repeatCount
= 0
u128
    //
    = false ; i64_
// trailing space 
// `tick` ""quote"" 'q'
= '0' ; //	t
}
")).
Eval vm_compute in ("<<<M1942>>>" ++ check (runes_of_ascii "MetaData
    u { }  options {
// c
// @lengthOf(
float = int8 ;rootA =false ; As =	int16 // `tick` ""quote"" 'q'
=
    // trailing space 
    repeatCount
    int16
; u8x =
    //	t
    '\x00' ; } options	{
    repeatCount
= 0
u128
    //
    = false ; i64_
// trailing space 
// `tick` ""quote"" 'q'
= '0' ; //	t
}
")).
Eval vm_compute in ("<<<M1888>>>" ++ check (runes_of_ascii "MetaData
    u { }  options {
// c
// @lengthOf(
root = int8 ;rootA =false ; As =	int16 // `tick` ""quote"" 'q'
repeatCount
    // trailing space 
    =
    int16
; u8x =
    //	t
    '\x00' ; } options	{
    repeatCount
= 0
u128
    //
    = false ; i64_
// trailing space 
// `tick` ""quote"" 'q'
= '0' ; //	t
}
")).
Eval vm_compute in ("<<<M1895>>>" ++ check (runes_of_ascii "MetaData
    u { }  options {
// c
// @lengthOf(
float =  ;rootA =false ; As =	int16 // `tick` ""quote"" 'q'
repeatCount
    // trailing space 
    =
    int16
; u8x =
    //	t
    '\x00' ; } options	{
    repeatCount
= 0
u128
    //
    = false ; i64_
// trailing space 
// `tick` ""quote"" 'q'
= '0' ; //	t
}
")).
Eval vm_compute in ("<<<M3905>>>" ++ check (runes_of_ascii "MetaData packetx {
    MetaDataX zchar,
    calculatedFrom i64_,
    char[] BodyLength,
    zchar[4294967296] MetaDataX ``,
    int BodyLength `
    `,
    i64 i64_,
}

options {
    u8x = u32;
}

MetaData rootA {
    zchar[4294967296] roots `doc`,
    char[0123456789] uint8x `" ++ [233]%N ++ runes_of_ascii "`,
    Z9_ len `u8 x,`,
}")).
Eval vm_compute in ("<<<M4519>>>" ++ check (runes_of_ascii "packet i8i8 {
    zchar[10] a1,
}

packet x_y_z {
}

options {
    matchKey = false;
    Foo = i32;
    MetaDataX = 007
    pack = """ ++ [28040; 24687]%N ++ runes_of_ascii """;
}

packet leftPad {
}

root packet stringy {
    /// triple
    rootA Pad,
    falsey @calculatedFrom(""it's"") `two words`,
    u8x float,
    int64 u8x,
}//x")).
Eval vm_compute in ("<<<M4311>>>" ++ check (runes_of_ascii "// trailing space 
packet pack {
    @lengthOf(Pad)
    char[] msg_type,
}

options {
    // " ++ [128512]%N ++ runes_of_ascii " emoji
    // " ++ [128512]%N ++ runes_of_ascii " emoji
    chars = int32;//
    chars = ""CRC32""
}

packet f32a {
    @calculatedFrom(""a\""b"")
    zchar @lengthOf(o),
    int32 o,
    repeat int64 zchar `" ++ [28040; 24687; 31867; 22411]%N ++ runes_of_ascii "`,
}/// triple")).
Eval vm_compute in ("<<<M1078>>>" ++ check (runes_of_ascii "root packet Logon { string MetaDataX @calculatedFrom( ""\" ++ [233]%N ++ runes_of_ascii """ )// a // b
`two words` , @leftPad
( '\x00' //x
) len a1 , // @lengthOf(
@tag( 0123456789 )
    repeat char[]
f32a , repeat uint16 pack
    ,}
MetaData
rootA { BodyLength Z9_ `{ , }` ,
    zchar[65535 ] u ,
}
")).
Eval vm_compute in ("<<<M1133>>>" ++ check (runes_of_ascii "options {// " ++ [27880; 37322]%N ++ runes_of_ascii "
u= i16;
a1
=	' ' ; a1
// `tick` ""quote"" 'q'
// @lengthOf(
=// " ++ [128512]%N ++ runes_of_ascii " emoji
'0' leftPad= true} // trailing space 
packet charz { @calculatedFrom( ""a	b"" ) @leftPad ( )  @lengthOf(// " ++ [128512]%N ++ runes_of_ascii " emoji
chars
    /// triple
    ) chars { i16 x, // " ++ [128512]%N ++ runes_of_ascii " emoji
} ,}

")).
Eval vm_compute in ("<<<M1563>>>" ++ check (runes_of_ascii "packet
//	t
// trailing space 
_x {
// packet A { u8 x, }
// c
char[
3
    ] u8x @lengthOf(
u8x ) , @calculatedFrom(""" ++ [128512]%N ++ runes_of_ascii """ // @lengthOf(
)
i16	Foo Foo
@lengthOf(	string_
    )`doc`	, repeat	i64 metadata , @lengthOf( string_
) i8 // c
u  `line1
line2`	,
}
")).
Eval vm_compute in ("<<<M1669>>>" ++ check (runes_of_ascii "packet
//	t
// trailing space 
_x {
// packet A { u8 x, }
// c
char[
3
    ] na" ++ [239]%N ++ runes_of_ascii "ve @lengthOf(
u8x ) , @calculatedFrom(""" ++ [128512]%N ++ runes_of_ascii """ // @lengthOf(
)
i16	Foo
@lengthOf(	string_
    )`doc`	, repeat	i64 metadata , @lengthOf( string_
) i8 // c
u  `line1
line2`	,
}
")).
Eval vm_compute in ("<<<M1539>>>" ++ check (runes_of_ascii "packet
//	t
// trailing space 
_x {
// packet A { u8 x, }
// c
char[
3
    ] u8x @lengthOf(
u8x ) @calculatedFrom( ,""" ++ [128512]%N ++ runes_of_ascii """ // @lengthOf(
)
i16	Foo
@lengthOf(	string_
    )`doc`	, repeat	i64 metadata , @lengthOf( string_
) i8 // c
u  `line1
line2`	,
}
")).
Eval vm_compute in ("<<<M1512>>>" ++ check (runes_of_ascii "packet
//	t
// trailing space 
_x {
// packet A { u8 x, }
// c
char[
3
     u8x @lengthOf(
u8x ) , @calculatedFrom(""" ++ [128512]%N ++ runes_of_ascii """ // @lengthOf(
)
i16	Foo
@lengthOf(	string_
    )`doc`	, repeat	i64 metadata , @lengthOf( string_
) i8 // c
u  `line1
line2`	,
}
")).
Eval vm_compute in ("<<<M777>>>" ++ check (runes_of_ascii "root packet i8i8
// `tick` ""quote"" 'q'
// packet A { u8 x, }
{ string calculatedFrom @calculatedFrom( ""a	b"" //x
)
    , @calculatedFrom(
""abc"") // " ++ [27880; 37322]%N ++ runes_of_ascii "
int32 float// " ++ [128512]%N ++ runes_of_ascii " emoji
,
//x
// a // b
@calculatedFrom( ""a\""b"")
repeat u64 BodyLength
,
    }
")).
Eval vm_compute in ("<<<M3738>>>" ++ check (runes_of_ascii "MetaData u {
}

options {
    // c
    // @lengthOf(
    float = int8;
    rootA = false;
    As = int16// `tick` ""quote"" 'q'
    repeatCount = int16;
    u8x = '\x00';
}

options {
    repeatCount = 0
    u128 = false;
    i64_ = '0';//	t
}")).
Eval vm_compute in ("<<<M89>>>" ++ check (runes_of_ascii "//	t
packet
packetx { zchar , @lengthOf( x_y_z )o ,
}
    packet  Packet // " ++ [128512]%N ++ runes_of_ascii " emoji
{ match u128 as // a // b
Header{ [
    7
    ,""1""
]: u
    , ""x y"" :
charz 0123456789 : calculatedFrom
//	t
//x
} ,// " ++ [27880; 37322]%N ++ runes_of_ascii "
repeat  roots
tag
    ,}")).
Eval vm_compute in ("<<<M428>>>" ++ check (runes_of_ascii "root	packet  As { zchar[0123456789] MetaDataX ,
    zchar[10 ] falsey
    , @calculatedFrom( """ ++ [128512]%N ++ runes_of_ascii """ )pack ,	A
{repeat u8x tag ,  int64 T @lengthOf( Packet
) ,	x Logon
    //x
    , options1 @calculatedFrom( ""a	b"") , } , } 	 ")).
Eval vm_compute in ("<<<M3952>>>" ++ check (runes_of_ascii "

  packet

tag
    {	BodyLength 

    // @lengthOf(
  @lengthOf(
options1 ) ,
    } options
    {

    trueish = ""a\\""matchKey=

0123456789 // trailing space 
  ;
    BodyLength= '\x00'  charz

= 
""" ++ [233]%N ++ runes_of_ascii "t" ++ [233]%N ++ runes_of_ascii """

; }

")).
Eval vm_compute in ("<<<M1621>>>" ++ check (runes_of_ascii "packet
//	t
// trailing space 
_x {
// packet A { u8 x, }
// c
char[
3
    ] u8x @lengthOf(
u8x ) , @calculatedFrom(""" ++ [128512]%N ++ runes_of_ascii """ // @lengthOf(
)
i16	Foo
@lengthOf(	string_
    )`doc`	, repeat	i64 metadata , @lengthOf(")).
Eval vm_compute in ("<<<M1697>>>" ++ check (runes_of_ascii "options { trueish = ""`tick`"" ; ; string_= """ ++ [233]%N ++ runes_of_ascii "t" ++ [233]%N ++ runes_of_ascii """
    // c
    } root
    packet body { stringy @calculatedFrom(
""a	b"" ) `line1
line2` , }
packet Logon {
    @leftPad(
    ' ' ) //	t
u16 string_ `u8 x,` ,
}
")).
Eval vm_compute in ("<<<M1999>>>" ++ check (runes_of_ascii "MetaData
    u { }  options {
// c
// @lengthOf(
float = int8 ;rootA =false ; As =	int16 // `tick` ""quote"" 'q'
repeatCount
    // trailing space 
    =
    int16
; u8x =
    //	t
    '\x00' ; } options	{")).
Eval vm_compute in ("<<<M1788>>>" ++ check (runes_of_ascii "options { trueish = ""`tick`"" ; string_= """ ++ [233]%N ++ runes_of_ascii "t" ++ [233]%N ++ runes_of_ascii """
    // c
    } root
    packet body { stringy @calculatedFrom(
""a	b"" ) `line1
line2` , }
packet Logon @leftPad
    {(
    ' ' ) //	t
u16 string_ `u8 x,` ,
}
")).
Eval vm_compute in ("<<<M4472>>>" ++ check (runes_of_ascii "options { 
trueish =
    ""`tick`"";
    string_
=
""" ++ [233]%N ++ runes_of_ascii "t" ++ [233]%N ++ runes_of_ascii """ 
  // c
  }  root packet	body{stringy@calculatedFrom(
""a	b"")

    `line1
line2` ,	}packet Logon
{
@leftPad (
    ' ' )	//	t
  u16
	string_ ,

}")).
Eval vm_compute in ("<<<M4568>>>" ++ check (runes_of_ascii "  MetaData
u8x{ i64_ u128

`tab	here` ,
char[]asx , u  // packet A { u8 x, }
  	BodyLength
,
u64	uint8x	,

    _x
rootA//x
  ,}
	MetaData

    trueish
	{float64
asx 	 // c
	,/// triple

	}

")).
Eval vm_compute in ("<<<M714>>>" ++ check (runes_of_ascii "  root packet u128 { string
// trailing space 
//	t
Pad  `" ++ [28040; 24687; 31867; 22411]%N ++ runes_of_ascii "`
, @calculatedFrom( ""a\\"")	msg_type, @calculatedFrom( """ ++ [233]%N ++ runes_of_ascii "t" ++ [233]%N ++ runes_of_ascii """ )	match Pad as f32a {	3 :// trailing space 
repeatCount  ,	} , } // c")).
Eval vm_compute in ("<<<M1128>>>" ++ check (runes_of_ascii "packet Foo { @tag( 0 ) @lengthOf(
Packet
// packet A { u8 x, }
// packet A { u8 x, }
) zchar[65535 ]  chars `it's` ,  float
@lengthOf( repeatCount)
    `line1
line2` , }
    options { }
")).
Eval vm_compute in ("<<<M785>>>" ++ check (runes_of_ascii "MetaData lengthOf
    { asx x,
i8 MetaDataX,	string
/// triple
// trailing space 
_x ,
repeatCount
    Pad,zchar[
// trailing space 
//
00 ]crc// @lengthOf(
`two words`
, } //x")).
Eval vm_compute in ("<<<M189>>>" ++ check (runes_of_ascii "MetaData  msg_type	{ Packet
// @lengthOf(
// trailing space 
int , char[3 ] Foo`// not a comment`
    // `tick` ""quote"" 'q'
    ,
zchar[ 7
    ]
uint8x,
leftPad crc `
`, }")).
Eval vm_compute in ("<<<M146>>>" ++ check (runes_of_ascii "root packet	BodyLength
    {
    // " ++ [27880; 37322]%N ++ runes_of_ascii "
    @lengthOf( asx) repeat char[ 007
] matchKey ,char[]
MetaDataX @lengthOf(
Foo) `tab	here` ,
repeat uint64 //	t
f32a
, }")).
Eval vm_compute in ("<<<M2377>>>" ++ check (runes_of_ascii "// c
packet x { @lengthOf( metadata ) repeat lengthOf
,a1{
trueish	,// c
repeat repeat//	t
MetaDataX , } , zchar[
    42	] rootA // `tick` ""quote"" 'q'
,
    }
")).
Eval vm_compute in ("<<<M3959>>>" ++ check (runes_of_ascii "root packet repeatCount {
}

MetaData crc {
    float32 x,
    float64 falsey `
        `,
    u32 f32a `" ++ [233]%N ++ runes_of_ascii "`,
    uint16 MetaDataX,
}

options {
    len = 10
}")).
Eval vm_compute in ("<<<M2352>>>" ++ check (runes_of_ascii "// c
packet x { @lengthOf( metadata ) repeat lengthOf
,a1{
trueish	,// c
repeat//	t
MetaDataX , } , , zchar[
    42	] rootA // `tick` ""quote"" 'q'
,
    }
")).
Eval vm_compute in ("<<<M2115>>>" ++ check (runes_of_ascii "options{
_x
= true
} options
{ o o	= /// triple
false
    ; chars
= ""\n"" } root packet	Pad
/// triple
// packet A { u8 x, }
{	chars
    // a // b
    ,}")).
Eval vm_compute in ("<<<M4576>>>" ++ check (runes_of_ascii "MetaData msg_type {
}

root packet T {
    @rightPad()
    repeat char[3] x_y_z,
    @lengthOf(roots)
    string i64_ @lengthOf(u8x) `// not a comment`,
}")).
Eval vm_compute in ("<<<M2101>>>" ++ check (runes_of_ascii "options{
_x
= true
options }
{ o	= /// triple
false
    ; chars
= ""\n"" } root packet	Pad
/// triple
// packet A { u8 x, }
{	chars
    // a // b
    ,}")).
Eval vm_compute in ("<<<M2114>>>" ++ check (runes_of_ascii "options{
_x
= true
} options
{ 	= /// triple
false
    ; chars
= ""\n"" } root packet	Pad
/// triple
// packet A { u8 x, }
{	chars
    // a // b
    ,}")).
Eval vm_compute in ("<<<M2391>>>" ++ check (runes_of_ascii "// c
packet x { @lengthOf( metadata ) repeat lengthOf
,a1{
trueish	,// c
repeat//	t
" ++ [252]%N ++ runes_of_ascii "ber , } , zchar[
    42	] rootA // `tick` ""quote"" 'q'
,
    }
")).
Eval vm_compute in ("<<<M1069>>>" ++ check (runes_of_ascii "MetaData  uint8x{  char[
0
    ]As	,	}
MetaData	matchKey
    // c
    {
    //x
    Logon rootA//
`{ , }`
    ,  }packet Packet { string
As
,
}

")).
Eval vm_compute in ("<<<M4180>>>" ++ check (runes_of_ascii "packet A {
    Inner {
        u8 x `a
        
        b`,
        Deep {
            u8 y `a
            
            b`,
        },
    },
}")).
Eval vm_compute in ("<<<M559>>>" ++ check (runes_of_ascii "packet trueish { match
    falsey as
    leftPad { // " ++ [128512]%N ++ runes_of_ascii " emoji
""// no comment"":
// " ++ [128512]%N ++ runes_of_ascii " emoji
//
leftPad } , repeatCount
string_ `{ , }`
,}")).
Eval vm_compute in ("<<<M4035>>>" ++ check (runes_of_ascii "packet chars

    {}

    packet 

    // c
  	MetaDataX 
{
@tag(
42 ) i16 string_
    ,
repeat

    x `say ""hi""`,

    }

")).
Eval vm_compute in ("<<<M954>>>" ++ check (runes_of_ascii "packet Z9_ {
@tag(
    00	)
    @tag(7) @lengthOf(
    //x
    Logon)zchar[
0123456789
]
x_y_z@calculatedFrom( ""a\\""  ) , }
")).
Eval vm_compute in ("<<<M4455>>>" ++ check (runes_of_ascii "// top
MetaData float {
    float64 charz `
        `,
}

// c7
root packet chars {
    @rightPad('0')
    // c15
    Foo,
}")).
Eval vm_compute in ("<<<M1142>>>" ++ check (runes_of_ascii "root
    packet Foo	{@rightPad ( '\x00' ) Header
    // " ++ [27880; 37322]%N ++ runes_of_ascii "
    Pad
`tab	here`,@rightPad  (
'\x00'
) zchar[ 1	]x_y_z , }
")).
Eval vm_compute in ("<<<M3341>>>" ++ check (runes_of_ascii "root packet matchKey { zchar[ 3 ] pack @calculatedFrom( ""a	b"" ) `doc` , } options
// c
{ } MetaData A { int8 msg_type , }")).
Eval vm_compute in ("<<<M1463>>>" ++ check (runes_of_ascii "
packet
    falsey { Header@calculatedFrom(""packet""  ) , char[
    0123456789 ] packetx
    , } } // `tick` ""quote"" 'q'")).
Eval vm_compute in ("<<<M1419>>>" ++ check (runes_of_ascii "
packet
    falsey { Header""packet""@calculatedFrom(  ) , char[
    0123456789 ] packetx
    , } // `tick` ""quote"" 'q'")).
Eval vm_compute in ("<<<M3528>>>" ++ check (runes_of_ascii "// top
root // c0a
  // c0b
packet P // c2a
  // c2b
{ // c3
repeat // c4
char cs , u8 x // c9a
  // c9b
, // c10
} ")).
Eval vm_compute in ("<<<M4032>>>" ++ check (runes_of_ascii "root packet 
matchKey{

    f32a// " ++ [27880; 37322]%N ++ runes_of_ascii "
	`u8 x,` ,char[]
u8x,
	@calculatedFrom( ""a\""b""

    )
i32
i8i8  , }")).
Eval vm_compute in ("<<<M4277>>>" ++ check (runes_of_ascii "packet i8i8 {
    @calculatedFrom(""it's"")
    @leftPad('0')
    @lengthOf(msg_type)
    u8 Logon `tab	here`,
}")).
Eval vm_compute in ("<<<M833>>>" ++ check (runes_of_ascii "packet
chars
    { @tag(	0123456789) match crc as
tag { 10
    : uint8x ,
[ 42 ]:
int // " ++ [128512]%N ++ runes_of_ascii " emoji
,}
, }
")).
Eval vm_compute in ("<<<M4421>>>" ++ check (runes_of_ascii "MetaData float {
    float64 charz `
        `,
}

root packet chars {
    @rightPad('0')
    Foo,// c
}")).
Eval vm_compute in ("<<<M992>>>" ++ check (runes_of_ascii "packet BodyLength {
    uint16 tag // packet A { u8 x, }
, uint8 Header @lengthOf(
    chars )
, }
")).
Eval vm_compute in ("<<<M2232>>>" ++ check (runes_of_ascii "options
{ } options { BodyLength BodyLength= u16 Header= f64 ; u128 =
    true
    ; } // a // b")).
Eval vm_compute in ("<<<M4013>>>" ++ check (runes_of_ascii "
packet BodyLength
{ uint16
tag// packet A { u8 x, }
	, uint8
Header @lengthOf( chars	)
,
}
")).
Eval vm_compute in ("<<<M76>>>" ++ check (runes_of_ascii "MetaData
chars {
uint32 chars	`doc` , int64 float, // trailing space 
u8
pack `
` ,
    }
")).
Eval vm_compute in ("<<<M2257>>>" ++ check (runes_of_ascii "options
{ } options { BodyLength= u16 Header= f64 f64 ; u128 =
    true
    ; } // a // b")).
Eval vm_compute in ("<<<M3277>>>" ++ check (runes_of_ascii "MetaData float { float64 charz // c
`
` , } root packet chars { @rightPad ( '0' ) Foo , }")).
Eval vm_compute in ("<<<M3488>>>" ++ check (runes_of_ascii "packet chars
// c
{ } packet MetaDataX { @tag( 42 ) i16 string_ , repeat x `say ""hi""` , }")).
Eval vm_compute in ("<<<M4018>>>" ++ check (runes_of_ascii "// c
MetaData body {
    i64 pack `it's`,
}

packet stringy {
    int16 calculatedFrom,
}")).
Eval vm_compute in ("<<<M2264>>>" ++ check (runes_of_ascii "options
{ } options { BodyLength= u16 Header= f64 i8 u128 =
    true
    ; } // a // b")).
Eval vm_compute in ("<<<M2210>>>" ++ check (runes_of_ascii "{
options } options { BodyLength= u16 Header= f64 ; u128 =
    true
    ; } // a // b")).
Eval vm_compute in ("<<<M3227>>>" ++ check (runes_of_ascii "packet metadata { Logon { A `" ++ [28040; 24687; 31867; 22411]%N ++ runes_of_ascii "` , // c
tag o , } , zchar len `// not a comment` , }")).
Eval vm_compute in ("<<<M2216>>>" ++ check (runes_of_ascii "options
{  options { BodyLength= u16 Header= f64 ; u128 =
    true
    ; } // a // b")).
Eval vm_compute in ("<<<M3447>>>" ++ check (runes_of_ascii "packet o { repeat Logon uint8x , } options { // c
asx = zchar[ 3 ] stringy = '\x00' }")).
Eval vm_compute in ("<<<M3916>>>" ++ check (runes_of_ascii "packet A {
    match k as n {
        [1, 22, 4, ""c c""] : B,
        2 : C,
    },
}")).
Eval vm_compute in ("<<<M2936>>>" ++ check (runes_of_ascii "packet A {
  match k as n {
    [1, 22, 007, 4, 5, 66, 7, 8] : B,
    2 : C
  },
}")).
Eval vm_compute in ("<<<M507>>>" ++ check (runes_of_ascii "packet packetx
    {
// trailing space 
/// triple
@calculatedFrom( """" ) Z9_ , }
")).
Eval vm_compute in ("<<<M2221>>>" ++ check (runes_of_ascii "options
{ }  { BodyLength= u16 Header= f64 ; u128 =
    true
    ; } // a // b")).
Eval vm_compute in ("<<<M2901>>>" ++ check (runes_of_ascii "packet A {
  match k as n {
    [1, ""bb"", 007, ""d"", 5] : B,
    2 : C
  },
}")).
Eval vm_compute in ("<<<M4200>>>" ++ check (runes_of_ascii "// " ++ [27880; 37322]%N ++ runes_of_ascii "
options {
    u8x = zchar[0];
    len = ' ';
    leftPad = false;
}")).
Eval vm_compute in ("<<<M3946>>>" ++ check (runes_of_ascii "packet
pack
{int64 options1
	,

    // packet A { u8 x, }
    //
	}

")).
Eval vm_compute in ("<<<M4524>>>" ++ check (runes_of_ascii "packet A  { }

packet B

    {	} MetaData
    M
{ } 
options
	{}
")).
Eval vm_compute in ("<<<M2872>>>" ++ check (runes_of_ascii "packet A {
  match k as n {
    [1, 22, 007] : B
    2 : C
  },
}")).
Eval vm_compute in ("<<<M3573>>>" ++ check (runes_of_ascii "

  root
packet

P { repeat
string
ss

,	repeat u16 ns
,

}

")).
Eval vm_compute in ("<<<M3038>>>" ++ check (runes_of_ascii "packet A {
    B b `
x`,
    B `
x`,
    repeat B bs `
x`,
}")).
Eval vm_compute in ("<<<M3367>>>" ++ check (runes_of_ascii "packet x // c
{ @rightPad ( ) repeat roots Logon `doc` , }")).
Eval vm_compute in ("<<<M2883>>>" ++ check (runes_of_ascii "packet A { Inner { match k as n { [1,22,007] : B, }, }, }")).
Eval vm_compute in ("<<<M4370>>>" ++ check (runes_of_ascii "// trailing space 
packet Foo {
    zchar[255] body,
}")).
Eval vm_compute in ("<<<M819>>>" ++ check (runes_of_ascii "MetaData
    // c
    Foo{ char[
00
    ] Pad ,
}
")).
Eval vm_compute in ("<<<M2584>>>" ++ check (runes_of_ascii "packet A { char[] x @calculatedFrom(""c"") `d`, }")).
Eval vm_compute in ("<<<M1720>>>" ++ check (runes_of_ascii "options { trueish = ""`tick`"" ; string_= """ ++ [233]%N ++ runes_of_ascii "t" ++ [233]%N ++ runes_of_ascii """")).
Eval vm_compute in ("<<<M2726>>>" ++ check (runes_of_ascii "] uint16 options repeat uint8 = u32 int64 }")).
Eval vm_compute in ("<<<M3204>>>" ++ check (runes_of_ascii "root packet u128 { chars `it's` , }
// c
")).
Eval vm_compute in ("<<<M4487>>>" ++ check (runes_of_ascii "options {
    f32a = '0';
}

options {
}")).
Eval vm_compute in ("<<<M2672>>>" ++ check (runes_of_ascii "options { a = 1; } options { a = 1; }")).
Eval vm_compute in ("<<<M951>>>" ++ check (runes_of_ascii "MetaData A
    {
//
// @lengthOf(
}")).
Eval vm_compute in ("<<<M2707>>>" ++ check (runes_of_ascii ")1g5_\^|d<j.^kB#_~;!UCf%63fU|C}lDJ")).
Eval vm_compute in ("<<<M1027>>>" ++ check (runes_of_ascii "options
    {Header = '\x00';
}")).
Eval vm_compute in ("<<<M4297>>>" ++ check (runes_of_ascii "options {	i64_ 
= 
""`tick`"" 
}
")).
Eval vm_compute in ("<<<M3160>>>" ++ check (runes_of_ascii "MetaData M {
}// c
packet A {}")).
Eval vm_compute in ("<<<M1338>>>" ++ check (runes_of_ascii "root
    packet chars { }
")).
Eval vm_compute in ("<<<M2718>>>" ++ check (runes_of_ascii "P@" ++ [65533; 65533; 65533; 65533]%N ++ runes_of_ascii "hB" ++ [65533]%N ++ runes_of_ascii "B" ++ [65533; 65533; 65533; 65533; 65533]%N ++ runes_of_ascii "F}" ++ [0; 65533; 65533; 65533]%N ++ runes_of_ascii "a
" ++ [65533]%N ++ runes_of_ascii "O" ++ [65533]%N)).
Eval vm_compute in ("<<<M831>>>" ++ check (runes_of_ascii "packet u8x {int8 As ,}
")).
Eval vm_compute in ("<<<M59>>>" ++ check (runes_of_ascii "// packet A { u8 x, }
")).
Eval vm_compute in ("<<<M1227>>>" ++ check (runes_of_ascii "root packet i64_{	}
")).
Eval vm_compute in ("<<<M2596>>>" ++ check (runes_of_ascii "packet A { B { }, }")).
Eval vm_compute in ("<<<M1411>>>" ++ check (runes_of_ascii "
packet
    falsey")).
Eval vm_compute in ("<<<M3121>>>" ++ check (runes_of_ascii "// c" ++ [12]%N ++ runes_of_ascii "
packet A {
}")).
Eval vm_compute in ("<<<M3073>>>" ++ check (runes_of_ascii "packet A {
}// c" ++ [133]%N)).
Eval vm_compute in ("<<<M4075>>>" ++ check (runes_of_ascii "packet A {
}// c")).
Eval vm_compute in ("<<<M2690>>>" ++ check (runes_of_ascii "[" ++ [29783; 1899]%N ++ runes_of_ascii "]" ++ [65533; 65533]%N ++ runes_of_ascii "[" ++ [65533]%N ++ runes_of_ascii "'" ++ [65533; 65533; 65533; 65533]%N)).
Eval vm_compute in ("<<<M3668>>>" ++ check (runes_of_ascii "options {
}")).
Eval vm_compute in ("<<<M2505>>>" ++ check (runes_of_ascii "// ab
c")).
Eval vm_compute in ("<<<M1496>>>" ++ check (runes_of_ascii "packet")).
Eval vm_compute in ("<<<M2451>>>" ++ check (runes_of_ascii "false")).
Eval vm_compute in ("<<<M524>>>" ++ check (runes_of_ascii " //x")).
Eval vm_compute in ("<<<M621>>>" ++ check (runes_of_ascii " 	 ")).
Eval vm_compute in ("<<<M2829>>>" ++ check (runes_of_ascii "t" ++ [1414]%N ++ runes_of_ascii "I")).
Eval vm_compute in ("<<<M2519>>>" ++ check (runes_of_ascii "`")).
