From FP Require Import Lexer Parser ShowPT Digest Formatter.
From Coq Require Import String List NArith.
Import ListNotations.
Open Scope string_scope.
Set Printing Width 100000000.
Set Printing Depth 100000000.
Definition show_fres (r : fres) : string :=
  match r with
  | FOk s => "OK:" ++ sh_escaped s ""
  | FErr s => "ERR:" ++ sh_escaped s ""
  | FPanic p => "PANIC:" ++ p
  end.
Definition check (rs : list rune) : string := digest (show_fres (format_res rs)).
Definition full (rs : list rune) : string := show_fres (format_res rs).
Eval vm_compute in ("<<<M2072>>>" ++ check (runes_of_ascii "packet len {
    @calculatedFrom(""`tick`"")
    repeat zchar[00] chars `a\`,
    u8x MetaDataX `line1
    line2`,
    @calculatedFrom(""a\""b"")
    match matchKey as asx {
        [""CRC32"", ""a\""b""] : msg_type,
    },
    i8 string_ @calculatedFrom(""{,}""),
    @lengthOf(lengthOf)
    zchar[42] _x `line1
    line2`,
    @lengthOf(asx)
    repeat int8 Header,
    repeat crc {
        int8 i64_ @calculatedFrom(""{,}""),
    },
    repeat _x i8i8 `line1
    line2`,
    float64 stringy,
    MetaDataX {
        charz {
            int16 matchKey,
            repeat i64_,
            char[00] Z9_ `
            `,
            match As as Packet {
                3 : crc,
                [1, 00] : Header,
                255 : _x,
                42 : body,
                [0] : chars,
                [4294967296, 65535] : chars,
            },
        },
    },
}

MetaData falsey {
    char[255] u128,
    u8 Header `tab	here`,
    string float,
}

root packet int {
    Logon i64_,
    @calculatedFrom(""1"")
    zchar {
        u {
            zchar[255] Pad,
        },
        stringy {
            Pad metadata `u8 x,`,
        },
        repeat string i8i8,
        char[] As @calculatedFrom(""\n""),
    },
    @lengthOf(packetx)
    @lengthOf(i64_)
    body `line1
    line2`,
    @lengthOf(roots)
    match MetaDataX as uint8x {
        // `tick` ""quote"" 'q'
        [007, 255, 00] : body,
        [
            65535, ""1"", 1, ""\n"", 1,
            ""CRC32"", 0
        ] : trueish,
    },
    uint64 Foo,
    zchar {
        metadata @lengthOf(Pad) `crlf
        line`,
        match u as charz {
            65535 : int,
            [""1""] : a1,
            [4294967296, 00, """ ++ [233]%N ++ runes_of_ascii "t" ++ [233]%N ++ runes_of_ascii """, """ ++ [28040; 24687]%N ++ runes_of_ascii """, 00] : matchKey,
            [""a\\""] : Logon,
        },
        repeat rootA {
            int16 Foo @lengthOf(rootA),
            options1 `u8 x,`,
        },
    },
    match chars as u {
        [
            ""it's"", 007, """ ++ [233]%N ++ runes_of_ascii "t" ++ [233]%N ++ runes_of_ascii """, ""abc"", ""\n"",
            """"
        ] : repeatCount,
        65535 : Z9_,
        [007, ""abc"", ""// no comment"", """ ++ [28040; 24687]%N ++ runes_of_ascii """] : falsey,
        00 : string_,
    },
    char repeatCount,
}

packet Foo {
    char[] a1 @calculatedFrom("""") `line1
    line2`,
    uint16 MetaDataX `say ""hi""`,
    char[] A,
    // trailing space 
    // " ++ [128512]%N ++ runes_of_ascii " emoji
    f64 int @lengthOf(Pad),
    u32 BodyLength,
    float64 trueish @lengthOf(lengthOf) `crlf
    line`,
    @tag(255)
    match Z9_ as tag {
        [""a\""b"", 4294967296, ""{,}"", ""{,}""] : Pad,
        1 : lengthOf,
        0123456789 : msg_type,
        ""// no comment"" : BodyLength,
        [""1""] : string_,
        [
            3, 0, 1, 1, ""\" ++ [233]%N ++ runes_of_ascii """,
            """", 00
        ] : asx,
    },
    body `say ""hi""`,
}

options {
    x = '0';
    u8x = u64;
    // c
    //	t
    string_ = ""a\""b""
}")).
Eval vm_compute in ("<<<M352>>>" ++ check (runes_of_ascii "MetaData	matchKey
{ float64	string_, string pack`doc`	,Foo float `` ,x chars
    `crlf
line`
    ,
} packet Header { float64 lengthOf //x
@lengthOf(
    calculatedFrom ) `crlf
line` , zchar[1 ]
int @lengthOf( int),u8  string_,
//x
// c
@tag(3 // packet A { u8 x, }
) @tag( 10 // c
)
i64_
    // " ++ [128512]%N ++ runes_of_ascii " emoji
    {repeat	i16 body
    //x
    `crlf
line` , f64 repeatCount @lengthOf( x_y_z )
    , x{ char[ 0 ]// a // b
int , }
, match u128
    as
    MetaDataX { [ 007 ,
    //x
    ""// no comment"" ] : string_,
// a // b
// trailing space 
0 : int,  [  42 , ""`tick`"" , 0123456789
, ""\" ++ [233]%N ++ runes_of_ascii """  , ""1"", ""packet"" , 255
, ""{,}"" ]:	crc ,
0123456789  :	rootA [ ""\n"" ] :
    // packet A { u8 x, }
    charz , [ ""packet"", 10 ]
:T , }
, }//
, // packet A { u8 x, }
repeat
zchar[ 007  ]matchKey `crlf
line` ,
    @rightPad // `tick` ""quote"" 'q'
(
    '0' )
    // `tick` ""quote"" 'q'
    repeat char[ 00	]
pack`{ , }` , // " ++ [27880; 37322]%N ++ runes_of_ascii "
i8i8
, f32a
    { u128
    packetx , MetaDataX msg_type ,
char[ 65535] falsey `" ++ [28040; 24687; 31867; 22411]%N ++ runes_of_ascii "`
, }
    , } packet uint8x { uint32 msg_type`u8 x,` , char[ 65535 ] // c
o // trailing space 
`u8 x,` , @rightPad
( '\x00' )
int @lengthOf( int )`crlf
line` ,}packet Logon{ char[] string_ ,
    string repeatCount// trailing space 
@lengthOf( _x
)
    // packet A { u8 x, }
    ,  @calculatedFrom( ""\" ++ [233]%N ++ runes_of_ascii """ )@lengthOf( trueish) @tag(
//
// `tick` ""quote"" 'q'
007 ) i8
    a1
@lengthOf(
BodyLength
) `it's` ,	@rightPad ( ' ') @calculatedFrom(
    ""{,}"" // c
) @lengthOf(
    // `tick` ""quote"" 'q'
    zchar
// c
//	t
) repeat
    _x {
    len
, repeat	uint16
    /// triple
    trueish `say ""hi""` , u16 roots `two words` ,},} // `tick` ""quote"" 'q'")).
Eval vm_compute in ("<<<M281>>>" ++ check (runes_of_ascii "
packet leftPad { // packet A { u8 x, }
@leftPad ( ' '
)
repeat
    x
`" ++ [233]%N ++ runes_of_ascii "` ,
repeat
    pack ,
// a // b
// a // b
uint32  A , // @lengthOf(
@tag(10  )@leftPad
    ( )
    @calculatedFrom( ""a	b"" ) u32 stringy @lengthOf( lengthOf ) , Foo`line1
line2` , crc `u8 x,`  ,// @lengthOf(
} options {//
x = float64
    // trailing space 
    ; u8x = //x
""" ++ [128512]%N ++ runes_of_ascii """ ; pack =
// `tick` ""quote"" 'q'
// trailing space 
' ';
    // c
    falsey
= ""a\""b"" } packet As
{repeat repeatCount u8x `doc`
    // packet A { u8 x, }
    , @leftPad ( '0' ) @calculatedFrom(""\" ++ [233]%N ++ runes_of_ascii """
    )match asx
as crc//x
{ 4294967296
    //	t
    :
    u8x
    , ""\n"" :u128
    , 0:asx
    [
    255
    // trailing space 
    ,""x y""	] :
    Logon ,0123456789 : A , 255	:i64_ , }
,
    metadata @lengthOf( u8x
)  , repeat crc
{	uint32
Packet	, } /// triple
, @calculatedFrom(""" ++ [128512]%N ++ runes_of_ascii """ )T u128  `{ , }` ,repeat i32	msg_type , @lengthOf(// packet A { u8 x, }
T	)int	,float {
// @lengthOf(
// `tick` ""quote"" 'q'
match trueish	as leftPad
    /// triple
    {
[ 0  ,	""" ++ [28040; 24687]%N ++ runes_of_ascii """  ]:
f32a, }  , uint32 i8i8,Packet{	char[ 65535 ] o
    // trailing space 
    @calculatedFrom( ""it's""  ) , }, // a // b
} , uint8 i8i8 `say ""hi""`, } /// triple
packet
BodyLength{ }
")).
Eval vm_compute in ("<<<M2078>>>" ++ check (runes_of_ascii "options {
    LittleEndian = true;
    StringPrefixLenType = u16;
    ArrayPrefixLenType = u8;
    FixedStringPadChar = '0';
}

packet Logout {
    repeat i16 f1,
    string Ref,
    @rightPad('\x00')
    char[9] Tail,
    repeat char[6] Flags,
    repeat char[3] Acct,
}

packet Party {
    char[2] f1,
    u8 Side2,
    @leftPad(' ')
    char[1] venue,
}

packet Order {
    repeat i64 Ref,
    InPx62 {
        i32 OrderId,
    },
    InNote53 {
        InClordid80 {
            char[] Acct,
            u32 Px,
            repeat Party,
        },
        InPrice12 {
            u8 pad0,
        },
        repeat Logout,
        InFlags23 {
            repeat string seqNo,
            string sym,
            int8 Flags,
            zchar[5] lastPx,
            zchar[6] Px,
        },
        char[10] Acct,
        InPx18 {
            zchar[2] count,
            Party,
        },
    },
    char[5] Side2,
    char[1] Acct,
}

root packet Ack {
    u32 Tail,
    repeat char[4] msgKind,
    repeat Logout,
}")).
Eval vm_compute in ("<<<M163>>>" ++ check (runes_of_ascii "packet
    // `tick` ""quote"" 'q'
    u8x {} packet calculatedFrom
    {
    i8i8
len
,
    match lengthOf as leftPad
{ 007
    : crc
, ""abc"": o 10 : falsey
    } , repeat  i8
metadata  , @calculatedFrom(""" ++ [28040; 24687]%N ++ runes_of_ascii """ ) repeat int16
leftPad
    // trailing space 
    ``
    ,BodyLength
    @calculatedFrom(  ""a\\""
    ) ,
char[] f32a,
    tag// packet A { u8 x, }
rootA
, @rightPad (
    // " ++ [27880; 37322]%N ++ runes_of_ascii "
    ' ' ) @tag( 007 ) match o as
    // " ++ [27880; 37322]%N ++ runes_of_ascii "
    _x { [ 1
    // " ++ [27880; 37322]%N ++ runes_of_ascii "
    ,
""a	b""
, ""1"" ,
00 ,7
// " ++ [128512]%N ++ runes_of_ascii " emoji
//x
,""" ++ [233]%N ++ runes_of_ascii "t" ++ [233]%N ++ runes_of_ascii """
    ,
    // c
    7 ,00
    ]
    : Foo ,
    // " ++ [27880; 37322]%N ++ runes_of_ascii "
    ""\" ++ [233]%N ++ runes_of_ascii """// @lengthOf(
:  matchKey
    ,},//x
@rightPad (	'\x00' )string msg_type	, }
packet  trueish {u8x
``
, @lengthOf( Header
    )
    repeat int64 int	`` ,
} MetaData matchKey	{ string msg_type	, zchar[
    //	t
    4294967296
]
repeatCount `it's`
, u8
crc
, zchar
o ,int64 asx
, }root
packet chars{
    }
")).
Eval vm_compute in ("<<<M1552>>>" ++ check (runes_of_ascii "options
    { LittleEndian	= false
	;
    StringPrefixLenType	=u8;

ArrayPrefixLenType
	=

u8
	;FixedStringPadFromLeft =true
    ; FixedStringPadChar =

' '
;}packet
Trade { zchar[ 2
] Side2
,
i8  seqNo ,

    }  packet Party

{uint32
price,
    } packet  Ack
	{ @rightPad
    ( '\x00'
)char[6 
] x

,
	repeat
    char[  4 
]
Flags , zchar[
9
] 
f1 , } packet
    Cancel
    { Ack

, }
    packet Heartbeat

    {
    string
    Px ,
string Acct
, 
f64
    Side2
, 
InQty24{  i16

    seqNo , repeat 
i32
	Flags  , 
}
    ,
}
    root

packet
	Logon 
{

    Trade
,  i64 venue
, u32
x,

    u8  seqNo
	, match seqNo as
    Body	{
[1,164
]
: 
Ack  ,	31 :
	Cancel	, 23 : Heartbeat	,
64: 
Party,
	} , }")).
Eval vm_compute in ("<<<M1541>>>" ++ check (runes_of_ascii "// top
options // c0a
  // c0b
{ // c1
StringPrefixLenType // c2
= u16 // c4
; FixedStringPadChar // c6
= // c7
' '
    // c8
; // c9a
  // c9b
} packet
    // c11
Party
    // c12
{ } packet // c15a
  // c15b
Quote // c16a
  // c16b
{ // c17
repeat
    // c18
Party , // c20
repeat // c21a
  // c21b
char[ // c22a
  // c22b
2
    // c23
] // c24
f1 , // c26
} packet // c28
Logon // c29a
  // c29b
{
    // c30
}
    // c31
root
    // c32
packet // c33
Cancel // c34
{ // c35a
  // c35b
uint16
    // c36
x , // c38a
  // c38b
zchar[
    // c39
6 // c40a
  // c40b
] // c41a
  // c41b
f1 // c42a
  // c42b
, // c43
} // c44
")).
Eval vm_compute in ("<<<M313>>>" ++ check (runes_of_ascii "root
packet i8i8
{ BodyLength `" ++ [28040; 24687; 31867; 22411]%N ++ runes_of_ascii "`, Header , int16 len @lengthOf( msg_type ) `
` ,@leftPad/// triple
(' '/// triple
) @rightPad// " ++ [27880; 37322]%N ++ runes_of_ascii "
( // a // b
) // trailing space 
@calculatedFrom(
""x y"" ) repeatCount // @lengthOf(
@calculatedFrom( /// triple
""packet"")
    `crlf
line` , @lengthOf(falsey
)  roots @lengthOf( metadata
    )`line1
line2` ,
    i8 i64_
, @tag( 4294967296)@tag( 3 ) repeat	zchar[
1 ] lengthOf, @lengthOf(	Logon
// `tick` ""quote"" 'q'
// `tick` ""quote"" 'q'
)repeat
asx{stringy float`line1
line2` , Pad ,
}
    , }
")).
Eval vm_compute in ("<<<M366>>>" ++ check (runes_of_ascii "  packet tag  {
@calculatedFrom(""" ++ [28040; 24687]%N ++ runes_of_ascii """)A
    `" ++ [233]%N ++ runes_of_ascii "`
    ,
    // a // b
    match u as
// c
// trailing space 
len	{ [42 , """ ++ [233]%N ++ runes_of_ascii "t" ++ [233]%N ++ runes_of_ascii """ ] : As
42 :
    string_
,
""CRC32"" :
body , ""x y"":
    x //
,  [
// `tick` ""quote"" 'q'
// @lengthOf(
007 , 4294967296 ,""{,}"" ,
""""
    , """ ++ [28040; 24687]%N ++ runes_of_ascii """ , ""it's"" , """ ++ [128512]%N ++ runes_of_ascii """
    ] : u
    // " ++ [128512]%N ++ runes_of_ascii " emoji
    ,""" ++ [28040; 24687]%N ++ runes_of_ascii """  : _x,  }
,@lengthOf(rootA) u128 `doc`
,// " ++ [27880; 37322]%N ++ runes_of_ascii "
} options { falsey
=
string
string_=int8 ; } options
{// c
charz
// c
// trailing space 
= ""CRC32"" }
")).
Eval vm_compute in ("<<<M373>>>" ++ check (runes_of_ascii "options { x =3
    matchKey= ""a\""b"" // @lengthOf(
leftPad	= ""packet"" ; T = zchar[ 65535 ]; } MetaData
    MetaDataX {} MetaData // " ++ [128512]%N ++ runes_of_ascii " emoji
repeatCount {u8x Pad	, }
    packet
T{ @tag( 42  ) repeat MetaDataX `{ , }`
    // a // b
    , // @lengthOf(
float32 x@lengthOf( u8x  )
`
`
    ,int16 matchKey @calculatedFrom( ""\n""	) `two words` , }packet packetx
{_x
@calculatedFrom( ""a\""b""
)`a\`	,
} // a // b")).
Eval vm_compute in ("<<<M175>>>" ++ check (runes_of_ascii "packet f32a
{
    repeat calculatedFrom u128//	t
,
    T @calculatedFrom( ""a\\"" ) `crlf
line` ,
string /// triple
charz, @leftPad (
    //x
    ) repeat
pack // a // b
T
    ,	}MetaData
charz { } packet	i8i8{A
x ,match A
as
leftPad { ""abc""	: msg_type , ""a	b""
    //	t
    :
    T }	,f64 i8i8
    ,
char charz`" ++ [233]%N ++ runes_of_ascii "`
    // `tick` ""quote"" 'q'
    ,} // " ++ [128512]%N ++ runes_of_ascii " emoji")).
Eval vm_compute in ("<<<M90>>>" ++ check (runes_of_ascii "packet charz {repeat char[ 3 ]
BodyLength,As stringy, match
    tag as uint8x { //
[ ""it's"" , 007
    , 4294967296
    // c
    ] : uint8x ,
}, // a // b
@tag( 0
)/// triple
repeat char[	7	] u	,}
    // packet A { u8 x, }
    MetaData options1
    { Z9_  _x ,	} packet BodyLength
{} MetaData chars { float Foo,
}")).
Eval vm_compute in ("<<<M619>>>" ++ check (runes_of_ascii "root packet tag { }  packet MetaDataX{char[007	]
// c
/// triple
asx  @calculatedFrom( ""a\""b""
) `say ""hi""`// " ++ [27880; 37322]%N ++ runes_of_ascii "
,  @tag(4294967296 )
    char[1//x
] packetx @calculatedFrom(""a\""b""
    ) ,
// " ++ [128512]%N ++ runes_of_ascii " emoji
// a // b
@calculatedFrom( @calculatedFrom(""" ++ [233]%N ++ runes_of_ascii "t" ++ [233]%N ++ runes_of_ascii """  ) repeat pack // " ++ [27880; 37322]%N ++ runes_of_ascii "
,
    } // c")).
Eval vm_compute in ("<<<M480>>>" ++ check (runes_of_ascii "root root packet tag { }  packet MetaDataX{char[007	]
// c
/// triple
asx  @calculatedFrom( ""a\""b""
) `say ""hi""`// " ++ [27880; 37322]%N ++ runes_of_ascii "
,  @tag(4294967296 )
    char[1//x
] packetx @calculatedFrom(""a\""b""
    ) ,
// " ++ [128512]%N ++ runes_of_ascii " emoji
// a // b
@calculatedFrom(""" ++ [233]%N ++ runes_of_ascii "t" ++ [233]%N ++ runes_of_ascii """  ) repeat pack // " ++ [27880; 37322]%N ++ runes_of_ascii "
,
    } // c")).
Eval vm_compute in ("<<<M644>>>" ++ check (runes_of_ascii "root packet tag { }  packet MetaDataX{char[007	]
// c
/// triple
asx  @calculatedFrom( ""a\""b""
) `say ""hi""`// " ++ [27880; 37322]%N ++ runes_of_ascii "
,  @tag(4294967296 )
    char[1//x
] packetx @calculatedFrom(""a\""b""
    ) ,
// " ++ [128512]%N ++ runes_of_ascii " emoji
// a // b
@calculatedFrom(""" ++ [233]%N ++ runes_of_ascii "t" ++ [233]%N ++ runes_of_ascii """  ) repeat pack // " ++ [27880; 37322]%N ++ runes_of_ascii "
, ,
    } // c")).
Eval vm_compute in ("<<<M490>>>" ++ check (runes_of_ascii "root packet { tag }  packet MetaDataX{char[007	]
// c
/// triple
asx  @calculatedFrom( ""a\""b""
) `say ""hi""`// " ++ [27880; 37322]%N ++ runes_of_ascii "
,  @tag(4294967296 )
    char[1//x
] packetx @calculatedFrom(""a\""b""
    ) ,
// " ++ [128512]%N ++ runes_of_ascii " emoji
// a // b
@calculatedFrom(""" ++ [233]%N ++ runes_of_ascii "t" ++ [233]%N ++ runes_of_ascii """  ) repeat pack // " ++ [27880; 37322]%N ++ runes_of_ascii "
,
    } // c")).
Eval vm_compute in ("<<<M486>>>" ++ check (runes_of_ascii "root int16 tag { }  packet MetaDataX{char[007	]
// c
/// triple
asx  @calculatedFrom( ""a\""b""
) `say ""hi""`// " ++ [27880; 37322]%N ++ runes_of_ascii "
,  @tag(4294967296 )
    char[1//x
] packetx @calculatedFrom(""a\""b""
    ) ,
// " ++ [128512]%N ++ runes_of_ascii " emoji
// a // b
@calculatedFrom(""" ++ [233]%N ++ runes_of_ascii "t" ++ [233]%N ++ runes_of_ascii """  ) repeat pack // " ++ [27880; 37322]%N ++ runes_of_ascii "
,
    } // c")).
Eval vm_compute in ("<<<M606>>>" ++ check (runes_of_ascii "root packet tag { }  packet MetaDataX{char[007	]
// c
/// triple
asx  @calculatedFrom( ""a\""b""
) `say ""hi""`// " ++ [27880; 37322]%N ++ runes_of_ascii "
,  @tag(4294967296 )
    char[1//x
] packetx @calculatedFrom(as
    ) ,
// " ++ [128512]%N ++ runes_of_ascii " emoji
// a // b
@calculatedFrom(""" ++ [233]%N ++ runes_of_ascii "t" ++ [233]%N ++ runes_of_ascii """  ) repeat pack // " ++ [27880; 37322]%N ++ runes_of_ascii "
,
    } // c")).
Eval vm_compute in ("<<<M75>>>" ++ check (runes_of_ascii "MetaData calculatedFrom { // @lengthOf(
tag a1
, uint8 _x`crlf
line`,
// " ++ [27880; 37322]%N ++ runes_of_ascii "
// packet A { u8 x, }
string
    Z9_ ,uint8x A`line1
line2` ,char falsey , packetx Foo
,  }
MetaData body {
string x_y_z``
    , falsey zchar `line1
line2` , } options{ }
")).
Eval vm_compute in ("<<<M260>>>" ++ check (runes_of_ascii "
packet
crc{ } options
{ len= '0' } packet uint8x {T  charz `u8 x,` ,
}
    MetaData  packetx //	t
{
// `tick` ""quote"" 'q'
// trailing space 
} options
    { Header
    =""CRC32""
;
    charz =
    string MetaDataX
=
true ;}
")).
Eval vm_compute in ("<<<M1119>>>" ++ check (runes_of_ascii "// top
packet // c0
metadata // c1
{ // c2
Logon // c3
{ // c4
A // c5
`" ++ [28040; 24687; 31867; 22411]%N ++ runes_of_ascii "` // c6
, // c7
tag // c8
o // c9
, // c10
} // c11
, // c12
zchar // c13
len // c14
`// not a comment` // c15
, // c16
} // c17
")).
Eval vm_compute in ("<<<M1527>>>" ++ check (runes_of_ascii "packet u128 {
    u8 a,
}
root packet Msg {
    u8 k,
    u24 {
        u8 Hi,
        u16 Lo,
    },
    repeat i24 {
        u32 q,
    },
    u128,
    u16 float32x,
    string s,
}
")).
Eval vm_compute in ("<<<M390>>>" ++ check (runes_of_ascii "packet
    // `tick` ""quote"" 'q'
    crc crc
// packet A { u8 x, }
//	t
{
u32 a1 ,
    // trailing space 
    roots
charz //
`two words`,	}
    MetaData int {
} /// triple")).
Eval vm_compute in ("<<<M679>>>" ++ check (runes_of_ascii "root packet len // trailing space 
{
// " ++ [27880; 37322]%N ++ runes_of_ascii "
//	t
repeat 10
] metadata	@lengthOf( o ) `crlf
line`,
    @rightPad
( ' '
) string
    Header @calculatedFrom( ""a\\""
    ), }
")).
Eval vm_compute in ("<<<M436>>>" ++ check (runes_of_ascii "packet
    // `tick` ""quote"" 'q'
    crc
// packet A { u8 x, }
//	t
{
u32 a1 ,
    // trailing space 
    roots
charz //
`two words`,	MetaData
    } int {
} /// triple")).
Eval vm_compute in ("<<<M156>>>" ++ check (runes_of_ascii "packet asx {
    }
    // packet A { u8 x, }
    options
    { options1
= float64 leftPad
=true ; MetaDataX =char[00] ; roots=false }// " ++ [128512]%N ++ runes_of_ascii " emoji
packet string_{
    }

")).
Eval vm_compute in ("<<<M1762>>>" ++ check (runes_of_ascii "

  packet 

// `tick` ""quote"" 'q'
crc  
      // packet A { u8 x, }

	//	t
  {

u32
a1
    ,
	    // trailing space 

	roots
    charz 	 //

  `two words`
,}
")).
Eval vm_compute in ("<<<M1622>>>" ++ check (runes_of_ascii "packet A {
    u8 a,
}

packet B {
    u16 b,
}

root packet P {
    u8 K,
    match K as M {
        [1, 2] : A,
        3 : B,
        7 : A,
    },
}")).
Eval vm_compute in ("<<<M306>>>" ++ check (runes_of_ascii "packet
    u128
{ @lengthOf( options1
)repeat int`" ++ [28040; 24687; 31867; 22411]%N ++ runes_of_ascii "` ,
@calculatedFrom(
    """" )
repeat
f32 Z9_	,
zchar[
007
] msg_type
`doc`
    ,
}
")).
Eval vm_compute in ("<<<M1811>>>" ++ check (runes_of_ascii "packet A {
    match k as n {
        [
            ""a"", 22, ""c c"", 4, ""e"",
            66, ""g""
        ] : B,
        2 : C,
    },
}")).
Eval vm_compute in ("<<<M2010>>>" ++ check (runes_of_ascii "
MetaData body{ i64

pack  
      // c
  `it's` ,

    }

packet
    stringy
    {

    int16  calculatedFrom,

    } ")).
Eval vm_compute in ("<<<M1238>>>" ++ check (runes_of_ascii "root packet matchKey { zchar[ 3 ] pack
// c
@calculatedFrom( ""a	b"" ) `doc` , } options { } MetaData A { int8 msg_type , }")).
Eval vm_compute in ("<<<M1931>>>" ++ check (runes_of_ascii "packet A {
    Inner {
        u8 x `a
        b`,
        Deep {
            u8 y `a
            b`,
        },
    },
}")).
Eval vm_compute in ("<<<M1744>>>" ++ check (runes_of_ascii "packet A {
    u16 len @lengthOf(body) `
    x`,
    u32 crc @calculatedFrom(""CRC32"") `
    x`,
    string body,
}")).
Eval vm_compute in ("<<<M968>>>" ++ check (runes_of_ascii "packet A {
    match k as n {
        ""\
"" : B,
        [""\
"", 1] : C,
        [1,2,3,4,5,""\
""] : D,
    },
}")).
Eval vm_compute in ("<<<M1474>>>" ++ check (runes_of_ascii "options {
    LittleEndian = true;
}
root packet P {
    u16 a,
    u32 Sum @calculatedFrom(""CR\
C32""),
}
")).
Eval vm_compute in ("<<<M1638>>>" ++ check (runes_of_ascii "packet chars {
}

packet MetaDataX {
    // c
    @tag(42)
    i16 string_,
    repeat x `say ""hi""`,
}")).
Eval vm_compute in ("<<<M2024>>>" ++ check (runes_of_ascii "packet A {
    Inner {
        match k as n {
            [1, 22, 007, 4] : B,
        },
    },
}")).
Eval vm_compute in ("<<<M881>>>" ++ check (runes_of_ascii "packet A {
  match k as n {
    [1, 22, ""c c"", 4, 5, ""f"", 7, 8, ""i"", 10] : B,
    2 : C
  },
}")).
Eval vm_compute in ("<<<M1395>>>" ++ check (runes_of_ascii "
// c
packet chars { } packet MetaDataX { @tag( 42 ) i16 string_ , repeat x `say ""hi""` , }")).
Eval vm_compute in ("<<<M1197>>>" ++ check (runes_of_ascii "MetaData float { float64 charz `
` , } root
// c
packet chars { @rightPad ( '0' ) Foo , }")).
Eval vm_compute in ("<<<M1408>>>" ++ check (runes_of_ascii "packet chars { } packet MetaDataX { // c
@tag( 42 ) i16 string_ , repeat x `say ""hi""` , }")).
Eval vm_compute in ("<<<M275>>>" ++ check (runes_of_ascii "options {BodyLength=	""abc"" ;
int	=
""""
; chars
    = true	body
    =
// c
//
'\x00'
}
")).
Eval vm_compute in ("<<<M1138>>>" ++ check (runes_of_ascii "packet metadata { Logon { A `" ++ [28040; 24687; 31867; 22411]%N ++ runes_of_ascii "` , // c
tag o , } , zchar len `// not a comment` , }")).
Eval vm_compute in ("<<<M1343>>>" ++ check (runes_of_ascii "packet o
// c
{ repeat Logon uint8x , } options { asx = zchar[ 3 ] stringy = '\x00' }")).
Eval vm_compute in ("<<<M1375>>>" ++ check (runes_of_ascii "packet o { repeat Logon uint8x , } options { asx = zchar[ 3 ] stringy = '\x00'
// c
}")).
Eval vm_compute in ("<<<M1303>>>" ++ check (runes_of_ascii "// c
MetaData body { i64 pack `it's` , } packet stringy { int16 calculatedFrom , }")).
Eval vm_compute in ("<<<M1653>>>" ++ check (runes_of_ascii "
packet
    // c

x 
{

    @rightPad

( )
repeat roots Logon

    `doc`,  }")).
Eval vm_compute in ("<<<M835>>>" ++ check (runes_of_ascii "packet A {
  match k as n {
    [1, 22, 007, 4, 5, 66, 7] : B
    2 : C
  },
}")).
Eval vm_compute in ("<<<M784>>>" ++ check (runes_of_ascii "packet A {
  match k as n {
    [""a"", ""bb"", ""c c""] : B,
    2 : C
  },
}")).
Eval vm_compute in ("<<<M790>>>" ++ check (runes_of_ascii "packet A {
  match k as n {
    [1, 22, ""c c""] : B,
    2 : C
  },
}")).
Eval vm_compute in ("<<<M779>>>" ++ check (runes_of_ascii "packet A {
  match k as n {
    [""a"", 22] : B,
    2 : C
  },
}")).
Eval vm_compute in ("<<<M1298>>>" ++ check (runes_of_ascii "packet x { @rightPad ( ) repeat roots Logon `doc` , } // c
")).
Eval vm_compute in ("<<<M1296>>>" ++ check (runes_of_ascii "packet x { @rightPad ( ) repeat roots Logon `doc` , // c
}")).
Eval vm_compute in ("<<<M958>>>" ++ check (runes_of_ascii "MetaData M {
    u8 x `tab
	x`,
    T t `tab
	x`,
}")).
Eval vm_compute in ("<<<M85>>>" ++ check (runes_of_ascii "
MetaData f32a { char[ 42
    ] zchar
, //x
}")).
Eval vm_compute in ("<<<M1099>>>" ++ check (runes_of_ascii "
// c
root packet u128 { chars `it's` , }")).
Eval vm_compute in ("<<<M522>>>" ++ check (runes_of_ascii "root packet tag { }  packet MetaDataX{")).
Eval vm_compute in ("<<<M1854>>>" ++ check (runes_of_ascii "
MetaData

    o
{  // c
    }")).
Eval vm_compute in ("<<<M993>>>" ++ check (runes_of_ascii "packet A {
 u8 x `d" ++ [5760]%N ++ runes_of_ascii "`, // c" ++ [5760]%N ++ runes_of_ascii "
}")).
Eval vm_compute in ("<<<M942>>>" ++ check (runes_of_ascii "packet A {
    u8 x `x
`,
}")).
Eval vm_compute in ("<<<M1853>>>" ++ check (runes_of_ascii "packet u8x {
    //	t
}")).
Eval vm_compute in ("<<<M1388>>>" ++ check (runes_of_ascii "MetaData o {
// c
}")).
Eval vm_compute in ("<<<M1034>>>" ++ check (runes_of_ascii "packet A {
}// c 	")).
Eval vm_compute in ("<<<M2127>>>" ++ check (runes_of_ascii "options
{
    }
")).
Eval vm_compute in ("<<<M1683>>>" ++ check (runes_of_ascii "
// c" ++ [6158]%N)).
Eval vm_compute in ("<<<M2100>>>" ++ check (runes_of_ascii "// c")).
