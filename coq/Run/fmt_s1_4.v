From FP Require Import Lexer Parser ShowPT Digest Formatter.
From Coq Require Import String List NArith.
Import ListNotations.
Open Scope string_scope.
Set Printing Width 100000000.
Set Printing Depth 100000000.
Definition show_fres (r : fres) : string :=
  match r with
  | FOk s => "OK:" ++ sh_escaped s ""
  | FErr s => "ERR:" ++ sh_escaped s ""
  | FPanic p => "PANIC:" ++ p
  end.
Definition check (rs : list rune) : string := digest (show_fres (format_res rs)).
Definition full (rs : list rune) : string := show_fres (format_res rs).
Eval vm_compute in ("<<<M3692>>>" ++ check (runes_of_ascii "

  // top
    options// c0a
// c0b
{
        // c1
      ArrayPrefixLenType
    =  // c3
	u64 
// c4
; FixedStringPadFromLeft// c6

  = // c7a
	  // c7b
	false 	 // c8a
	  // c8b
    ;// c9a
// c9b
    	} 	 // c10
      packet	// c11
Trade // c12a
	// c12b
		{ 
}  // c14a
  	// c14b
  packet Reject 
	    // c16
	  { // c17a
  // c17b
  	InPx94 {

// c19
repeat 
// c20

Trade

    // c21
      ,
	    // c22
	string
	count ,  // c25a
	// c25b
  InFlags14  // c26a
    // c26b
    {

u8

pad0 

    // c29
    ,// c30
  }

,  
      // c32
	repeat  InSide239
    {  // c35a
// c35b

	char[ 
8
// c37

	]	// c38a
	// c38b
		lastPx // c39
	  ,	// c40a
		// c40b
repeat // c41

i64  // c42a
	  // c42b
    	clOrdID 	 // c43
  , 	 // c44
i64// c45
Acct, // c47
    } // c48a

// c48b

  ,

// c49
    	} // c50
  ,
	    // c51
	  repeat 
    // c52
string

    clOrdID  // c54a
// c54b
		,	// c55

	zchar[ 	 // c56a
    // c56b
  5]  sym// c59
,
    }// c61a
// c61b
	packet  Quote 
    // c63
	{
repeat Reject	// c66a
  // c66b
, 

// c67
	}  // c68a

// c68b

	packet

    // c69

	Logon  // c70a

	// c70b
{
repeat	// c72a
    // c72b

Reject// c73
    ,

    char[] // c75a
    	// c75b
  Acct 
	    // c76
	, // c77a
	// c77b
@leftPad
(	// c79a
// c79b

'0' 
  // c80
	)  
  // c81
	char[ 

// c82
	4 
  // c83
  	] 
tag7// c85a
  // c85b
,
    // c86
		}	// c87a
// c87b
    root  // c88
  	packet Fill// c90a
    // c90b
	{
	// c91

@rightPad	( // c93a
	// c93b
	'0' // c94
    ) 	 // c95
    char[	// c96

1 ]// c98a
      // c98b

  count 	 // c99
  , 
u8 	 // c101
    f1 	 // c102a
      // c102b
    , 
        // c103
  u32 Qty  // c105a

	// c105b
      @lengthOf( // c106a
      // c106b
	  Body// c107
	) 
    // c108
  , 	 // c109
	  match// c110

f1	// c111
	as
	    // c112
  Body 
    // c113
		{
    // c114
  	[ 	 // c115a
      // c115b

195 	 // c116a
  // c116b
,// c117a
  // c117b
	3 
    // c118
  ] // c119
  : 	 // c120
	Reject 

// c121
,

    110
    :  Quote 	 // c125a
		// c125b
	, 
// c126

141	// c127a
// c127b
	  :	Logon 
// c129
	,  // c130
21 // c131a
  // c131b
	:
// c132
  Trade ,
    // c134
  } 	 // c135a

// c135b
		, 
	// c136
    u32  // c137a
    // c137b
Flags// c138
  	@calculatedFrom( ""CRC32""  // c140
    )// c141
	, 	 // c142a
// c142b
	}")).
Eval vm_compute in ("<<<M3706>>>" ++ check (runes_of_ascii "packet MetaDataX {
    @lengthOf(chars)
    zchar[10] int,
    i8i8 @calculatedFrom(""\" ++ [233]%N ++ runes_of_ascii """),
    @rightPad('\x00')
    repeat char[4294967296] falsey `doc`,
}

packet msg_type {
    // `tick` ""quote"" 'q'
    //x
}

root packet trueish {
    zchar `" ++ [233]%N ++ runes_of_ascii "`,
    @lengthOf(msg_type)
    match Logon as zchar {
        [""" ++ [233]%N ++ runes_of_ascii "t" ++ [233]%N ++ runes_of_ascii """] : options1,
    },
    u32 Logon,
    uint16 chars `line1
        line2`,
    A @calculatedFrom(""a\\""),// @lengthOf(
    @leftPad()
    @tag(00)
    repeat char[] trueish,
}

root packet metadata {
    lengthOf ``,
    @calculatedFrom(""\" ++ [233]%N ++ runes_of_ascii """)
    As o,
    repeat crc,
    @leftPad('\x00')
    MetaDataX {
        match chars as _x {
            00 : Pad,
            [""it's""] : Logon,
            255 : x,
            [""" ++ [28040; 24687]%N ++ runes_of_ascii """, 0, 007, """ ++ [128512]%N ++ runes_of_ascii """] : metadata,
            [""" ++ [28040; 24687]%N ++ runes_of_ascii """, ""`tick`"", """ ++ [233]%N ++ runes_of_ascii "t" ++ [233]%N ++ runes_of_ascii """, 10, 10] : T,
        },
        BodyLength @calculatedFrom(""// no comment""),
        tag {
            charz packetx `{ , }`,
            match x as repeatCount {
                ""\" ++ [233]%N ++ runes_of_ascii """ : matchKey,
                ""it's"" : string_,
                ""it's"" : Logon,
                [""// no comment"", """ ++ [128512]%N ++ runes_of_ascii """, 7] : pack,
                [1, """"] : MetaDataX,
                3 : Z9_,
                // " ++ [128512]%N ++ runes_of_ascii " emoji
            },
            int8 trueish @calculatedFrom(""\" ++ [233]%N ++ runes_of_ascii """) `" ++ [28040; 24687; 31867; 22411]%N ++ runes_of_ascii "`,
        },
    },
    char[] pack,
    int64 len,
    _x @lengthOf(trueish) `// not a comment`,
    zchar @calculatedFrom(""{,}""),
}

root packet charz {
    int8 body `// not a comment`,
    @lengthOf(metadata)
    @calculatedFrom(""it's"")
    @calculatedFrom(""1"")
    int32 Foo @lengthOf(string_),
    // 50% %s
    //x
    @tag(0)
    char[] x_y_z,// a // b
    char trueish @lengthOf(chars),
    x_y_z @lengthOf(options1) `// not a comment`,
    @lengthOf(charz)
    // `tick` ""quote"" 'q'
    f32 a1 @lengthOf(MetaDataX) `// not a comment`,
    string_,
    @lengthOf(body)
    @tag(65535)
    @calculatedFrom(""// no comment"")
    T x_y_z,
    string Z9_ `" ++ [233]%N ++ runes_of_ascii "`,
}")).
Eval vm_compute in ("<<<M3457>>>" ++ check (runes_of_ascii "// top
options // c0a
  // c0b
{ // c1
StringPrefixLenType = // c3a
  // c3b
u64
    // c4
; // c5a
  // c5b
ArrayPrefixLenType // c6a
  // c6b
= // c7a
  // c7b
u16 // c8a
  // c8b
;
    // c9
} // c10a
  // c10b
packet // c11
Heartbeat
    // c12
{
    // c13
uint32
    // c14
Side2 // c15
, // c16
u8 OrderId // c18
, string
    // c20
Tail , // c22
InPx95 { char[ // c25a
  // c25b
3
    // c26
]
    // c27
Note
    // c28
,
    // c29
char[ 2 ]
    // c32
count
    // c33
, repeat InOrderid76 // c36
{
    // c37
char[ // c38
12 // c39
] f1 , } , uint8 // c45a
  // c45b
lastPx , // c47a
  // c47b
char[] // c48a
  // c48b
seqNo // c49a
  // c49b
, } // c51a
  // c51b
, // c52
}
    // c53
packet Leg // c55a
  // c55b
{ zchar[
    // c57
5 // c58
] // c59
tag7
    // c60
, // c61a
  // c61b
Heartbeat // c62a
  // c62b
,
    // c63
}
    // c64
root packet // c66a
  // c66b
Reject // c67
{
    // c68
u8 Ref
    // c70
,
    // c71
uint8
    // c72
Flags // c73a
  // c73b
, // c74
repeat // c75a
  // c75b
Leg // c76a
  // c76b
, // c77a
  // c77b
zchar[ // c78a
  // c78b
1 // c79
]
    // c80
venue // c81a
  // c81b
,
    // c82
zchar[
    // c83
9 ] // c85a
  // c85b
clOrdID // c86a
  // c86b
,
    // c87
u8 Tail // c89
, // c90
u32 // c91
price @lengthOf( // c93a
  // c93b
Body
    // c94
) // c95
, // c96a
  // c96b
match Tail
    // c98
as Body // c100a
  // c100b
{ // c101a
  // c101b
84 // c102
: Heartbeat , // c105a
  // c105b
6
    // c106
:
    // c107
Leg // c108a
  // c108b
,
    // c109
} , u32 // c112a
  // c112b
Note @calculatedFrom( // c114
""CRC32"" // c115
) // c116a
  // c116b
, // c117
} // c118
")).
Eval vm_compute in ("<<<M477>>>" ++ check (runes_of_ascii "packet tag {
    @tag(
65535
) calculatedFrom @calculatedFrom( ""abc"" )`crlf
line`,
@calculatedFrom(""\n"" )_x @calculatedFrom( ""CRC32"" )
,
u16  body @calculatedFrom(
""\" ++ [233]%N ++ runes_of_ascii """
    // c
    ) ,
zchar[ 0
// `tick` ""quote"" 'q'
// c
] Header
@calculatedFrom(  """ ++ [128512]%N ++ runes_of_ascii """// 50% %s
) `// not a comment`
    // a // b
    , repeat lengthOf ,	repeat char[] uint8x `line1
line2`
    //
    , @tag(4294967296)match lengthOf as crc{[
0
] :Logon """ ++ [128512]%N ++ runes_of_ascii """ :
//	t
//x
Foo , // " ++ [27880; 37322]%N ++ runes_of_ascii "
""packet"" :
    calculatedFrom, }, int64 leftPad , }packet x { match
roots
as u8x{
65535: trueish, ""a	b""
: zchar
    ,
255	: Logon ,1 : string_ ,
    } , repeat i8i8  { string Logon
,
    metadata , repeat T	, }
    , repeat //
Header`" ++ [233]%N ++ runes_of_ascii "` , metadata trueish `{ , }`
// packet A { u8 x, }
// a // b
,
    leftPad _x `it's` , @tag( 7
    )// packet A { u8 x, }
char[] Packet @lengthOf( //x
leftPad )
`" ++ [233]%N ++ runes_of_ascii "`  , match Logon
as options1 { [ ""abc"" // 50% %s
] : pack
""" ++ [233]%N ++ runes_of_ascii "t" ++ [233]%N ++ runes_of_ascii """
// `tick` ""quote"" 'q'
// c
:metadata
    ,
    ""a\\"" :
    _x , } , } packet
string_
{Pad  @calculatedFrom( """"
    ) `tab	here`, @lengthOf( u  ) len  @calculatedFrom(
//x
//x
""// no comment"" )
`{ , }`  ,
@leftPad/// triple
( '0' )
    tag
@lengthOf( calculatedFrom )
,
    repeat uint64 metadata `u8 x,`
    // " ++ [128512]%N ++ runes_of_ascii " emoji
    , } root packet
T // trailing space 
{ @rightPad
// " ++ [27880; 37322]%N ++ runes_of_ascii "
//
(  ' ' )
    repeat float chars , repeat
char[] //
options1, }
")).
Eval vm_compute in ("<<<M4378>>>" ++ check (runes_of_ascii "  root

packet 
u8x	{ 
match

packetx  // " ++ [27880; 37322]%N ++ runes_of_ascii "
      as
	Z9_
	{[  ""it's"" 
// " ++ [27880; 37322]%N ++ runes_of_ascii "
	,
""{,}""
	]

    : _x// 50% %s
    } ,

@calculatedFrom(	""\" ++ [233]%N ++ runes_of_ascii """ )
    /// triple
      // " ++ [27880; 37322]%N ++ runes_of_ascii "

  char[ 10 ]

    leftPad

    `doc`

    ,uint16
metadata
	`{ , }` , a1

@calculatedFrom( """ ++ [233]%N ++ runes_of_ascii "t" ++ [233]%N ++ runes_of_ascii """ )
, 
@leftPad (' ' )
	repeat  // trailing space 

pack  { char[]  chars
        //x

	`" ++ [233]%N ++ runes_of_ascii "`

    , },
	}

packet	msg_type
	{  repeat char[ 10  ] 
	    // trailing space 

  //
    Z9_
    `a\`,

    @lengthOf( As

    )match
    i64_ as
	msg_type{
    4294967296
:

Header 
    /// triple
, 
65535 :
options1  , 

//
	//x
  	""1"" : 
f32a
    , 
0123456789
    :	x_y_z ,

65535  :Foo ,
} , 	 /// triple
	repeat tag	`" ++ [28040; 24687; 31867; 22411]%N ++ runes_of_ascii "`
, 
        // @lengthOf(
float32

body

    @lengthOf(
BodyLength  )  `it's`  ,f64	uint8x ,	@lengthOf(asx
)
@rightPad(  '0'  )@calculatedFrom(	""// no comment""  ) i8  options1@lengthOf(

charz) , 	 // trailing space 
	zchar[	10]  a1 // c
@calculatedFrom( ""a\""b"" ) , 
repeat i8i8 
{
	msg_type 
{char[
255 	 //x
]	T

,
repeat i8  len`" ++ [233]%N ++ runes_of_ascii "` ,

i64
	matchKey  @lengthOf(
    // @lengthOf(
	// " ++ [27880; 37322]%N ++ runes_of_ascii "

tag// 50% %s
  )

    ,
	repeat
char[  10  ]	// " ++ [128512]%N ++ runes_of_ascii " emoji
len
	`tab	here` ,}, }	// `tick` ""quote"" 'q'

	, }//
	  root  packet Header 
{
    }

")).
Eval vm_compute in ("<<<M1166>>>" ++ check (runes_of_ascii "  MetaData asx	{	char[
1]
    a1  ,
zchar[
0	]  msg_type //x
`it's`
    ,
    } packet a1
// packet A { u8 x, }
/// triple
{ @lengthOf(
options1) charz
{repeat matchKey  { i32 Logon `doc`  , string
options1
,falsey ,
    match
u128 as u{42: calculatedFrom // " ++ [27880; 37322]%N ++ runes_of_ascii "
, [ """"
, 0
    // `tick` ""quote"" 'q'
    , ""x y""
, //x
""1"" ,  4294967296 ]
/// triple
// trailing space 
: f32a
    , 0123456789
: metadata , }
,
    }
    // 50% %s
    , float32 /// triple
matchKey
@lengthOf(tag	)`it's`
,  }
    , @lengthOf( T ) @lengthOf(
    // c
    pack ) @lengthOf( options1
    ) match u8x
    // trailing space 
    as Packet
    {4294967296:BodyLength,} ,i8 metadata @lengthOf( msg_type	) `" ++ [233]%N ++ runes_of_ascii "`	, char[] lengthOf ,
string float ,
    x @calculatedFrom( ""\n""//x
) `
`  ,	rootA // a // b
{
    // a // b
    repeat i64_
    x_y_z	`{ , }`
    ,repeat uint8 packetx , },  @tag( 10 )@lengthOf( u128) match leftPad as MetaDataX
    // a // b
    { [
""a	b"", 0123456789 , ""x y""] :lengthOf ,
    """" :
u // @lengthOf(
3: lengthOf
    ,255 :// a // b
u8x ""packet"" :  metadata
/// triple
// " ++ [128512]%N ++ runes_of_ascii " emoji
,	""a\\""
:stringy } , @tag(1 ) @tag(
    3	) @leftPad ( ' '// c
)char[]
x, }")).
Eval vm_compute in ("<<<M4285>>>" ++ check (runes_of_ascii "
packet 
roots
	{ 	 // packet A { u8 x, }
  	@leftPad 
(	) calculatedFrom
`line1
line2`	//x
  	,

@calculatedFrom( ""// no comment""//	t
	)match 
i8i8
    as
x
    // trailing space 
    {

    00 : chars ,  ""// no comment"" 
:
A 	 /// triple
	,

    [

    00	,
""it's""  ]	: roots ,
    0
:

A
	""`tick`""	// c
  :	charz ,	""\" ++ [233]%N ++ runes_of_ascii """	:

    repeatCount
	,
},
    @lengthOf(
    a1

)
	u16  i8i8 , @calculatedFrom(
    ""a	b""
	)repeat

    options1
{
	uint32 BodyLength	@calculatedFrom(

    ""a\\""
) 
`
`
// @lengthOf(
  ,
    match

options1 as // " ++ [27880; 37322]%N ++ runes_of_ascii "
charz{
/// triple
    007 : 
x_y_z 
,  // " ++ [128512]%N ++ runes_of_ascii " emoji
7 
:

    T ,  // packet A { u8 x, }
    [

    ""CRC32""

    , 
""{,}"" ] :	u8x
[00 ,
""CRC32""
	, ""// no comment"",
4294967296

, ""`tick`"",	42

,
0123456789]:  falsey,

    42

    : 
pack 
,
    ""`tick`"" :
    As,}

    ,
    } ,@lengthOf( 
rootA	)
repeatCount
    {
    f32
i64_`tab	here`
    ,}
	, 
@leftPad

    ( 	 // " ++ [27880; 37322]%N ++ runes_of_ascii "
  '0'
)  @tag( 
255 )
repeat
packetx, falsey`" ++ [233]%N ++ runes_of_ascii "` 	 // `tick` ""quote"" 'q'

  ,//	t
  options1 leftPad ,
	repeat string_  roots

    `" ++ [233]%N ++ runes_of_ascii "`	, } ")).
Eval vm_compute in ("<<<M116>>>" ++ check (runes_of_ascii "options
{ u // packet A { u8 x, }
=// 50% %s
int32 packetx	= ""`tick`"" ;
    matchKey= // trailing space 
'0'As = 3
// packet A { u8 x, }
//x
; Packet=true; } root packet
tag { // @lengthOf(
u64 stringy , repeat options1
{ zchar[ 4294967296
] f32a `` , match tag as
    //
    options1 {
    10 : A
// c
// c
,  007
    : Pad , 0123456789
    : calculatedFrom 7 :	stringy ,
[ // 50% %s
""a\""b"" ,// " ++ [27880; 37322]%N ++ runes_of_ascii "
0123456789 ] : options1 , 3
:
u8x,
    // packet A { u8 x, }
    } ,} ,
    }packet len {	@calculatedFrom(
// packet A { u8 x, }
// `tick` ""quote"" 'q'
""" ++ [233]%N ++ runes_of_ascii "t" ++ [233]%N ++ runes_of_ascii """ )i8
// `tick` ""quote"" 'q'
//	t
repeatCount @lengthOf(
// `tick` ""quote"" 'q'
// " ++ [128512]%N ++ runes_of_ascii " emoji
roots ) ,
int32 i64_//
@calculatedFrom( ""`tick`"" )  ,
    @rightPad ( ' ' ) repeat
char[] u8x// " ++ [128512]%N ++ runes_of_ascii " emoji
,	@rightPad('\x00'	) leftPad{ match lengthOf // c
as charz { ""1"" :tag  ""// no comment""	:
x, [
    """ ++ [233]%N ++ runes_of_ascii "t" ++ [233]%N ++ runes_of_ascii """ ,""CRC32"" ] :	pack 3: charz ,
}, } , } options
    {
}
    MetaData
matchKey {uint64 repeatCount,  roots
x_y_z
`say ""hi""`
, roots As , A crc , uint64 f32a // @lengthOf(
, }
")).
Eval vm_compute in ("<<<M3473>>>" ++ check (runes_of_ascii "options { LittleEndian // c2a
  // c2b
=
    // c3
false
    // c4
; // c5
StringPrefixLenType = // c7a
  // c7b
u16 ; // c9a
  // c9b
ArrayPrefixLenType // c10a
  // c10b
=
    // c11
u32 // c12
; // c13a
  // c13b
FixedStringPadChar = // c15a
  // c15b
'0' // c16a
  // c16b
; // c17a
  // c17b
} // c18
packet Leg
    // c20
{ // c21a
  // c21b
char[] OrderId // c23
,
    // c24
repeat // c25
InFlags49 { float32 // c28
Tail // c29a
  // c29b
,
    // c30
}
    // c31
, } root // c34a
  // c34b
packet
    // c35
Heartbeat // c36a
  // c36b
{ // c37
char[]
    // c38
Px
    // c39
, // c40
f32 // c41a
  // c41b
Side2 , repeat // c44
Leg // c45
, char[] // c47a
  // c47b
Flags , u32 // c50a
  // c50b
Acct // c51
, // c52a
  // c52b
u32
    // c53
seqNo // c54
@lengthOf( Body // c56
) , match // c59
Acct as Body // c62a
  // c62b
{ [ // c64a
  // c64b
165 // c65
,
    // c66
21 ]
    // c68
: // c69
Leg , // c71a
  // c71b
} // c72
, // c73
} // c74a
  // c74b
")).
Eval vm_compute in ("<<<M922>>>" ++ check (runes_of_ascii "root packet  uint8x { match
roots
    as a1 {
    ""a\\"" : int } , stringy pack
    , string_ @lengthOf(
msg_type ) `100% of %d`, repeat f32 x_y_z // `tick` ""quote"" 'q'
`it's`
, zchar[
7
    ] lengthOf
    @lengthOf(int ) , }  options {} packet Logon {
char[] _x `" ++ [28040; 24687; 31867; 22411]%N ++ runes_of_ascii "` ,
char[7 ] matchKey ,
@rightPad (
    '0' ) char[
3 ]
len , Foo
    //	t
    @calculatedFrom( ""a	b""),// packet A { u8 x, }
} // `tick` ""quote"" 'q'
options { } root packet a1 { uint64 stringy  ,@tag(
10
    )
    match a1 as // 50% %s
BodyLength{[ 10,	4294967296
,1 ]	:zchar , }, @rightPad(
)string string_ @lengthOf(
    // 50% %s
    x_y_z ) /// triple
`two words` , char[] T , @leftPad
( '0' ) string_{
/// triple
//x
match matchKey as crc { [
    // " ++ [128512]%N ++ runes_of_ascii " emoji
    ""\" ++ [233]%N ++ runes_of_ascii """,
3 , // packet A { u8 x, }
""x y""  ] :
calculatedFrom , }
    ,
u128 Packet `{ , }` // " ++ [128512]%N ++ runes_of_ascii " emoji
,float o , Packet@calculatedFrom(
""{,}""
//	t
// a // b
) ,
/// triple
//	t
}
, }")).
Eval vm_compute in ("<<<M565>>>" ++ check (runes_of_ascii "packet
trueish { repeat matchKey // " ++ [27880; 37322]%N ++ runes_of_ascii "
As `doc` , @calculatedFrom(""a\""b""	) Packet  Logon, // @lengthOf(
i16 Z9_ // packet A { u8 x, }
,  x_y_z { char charz
@calculatedFrom(
// @lengthOf(
//	t
""""
)// a // b
, repeat rootA repeatCount
    ,
repeat u128
    f32a
    `100% of %d` //	t
, }	, match
leftPad
as // c
string_ //
{
    // " ++ [128512]%N ++ runes_of_ascii " emoji
    [
    ""packet"" , ""x y""
//x
// packet A { u8 x, }
,255 , ""abc""
, 0123456789
,	255 ,
7
] :	a1 ,
}  , uint64 options1
    @lengthOf( u8x ) `it's` , @leftPad( '0'// 50% %s
)repeat
    Header `say ""hi""` ,
trueish zchar , @leftPad(
    // c
    '\x00'
    )// " ++ [128512]%N ++ runes_of_ascii " emoji
A // c
@lengthOf(	crc	)
//
// " ++ [27880; 37322]%N ++ runes_of_ascii "
, }
    root
    packet
    i64_
    { i64_
    // trailing space 
    `// not a comment`
,
string
    i8i8 @calculatedFrom(
""\" ++ [233]%N ++ runes_of_ascii """ // a // b
)`doc` ,
    }
    packet Logon//	t
{ @lengthOf( leftPad )
u64 u128`" ++ [28040; 24687; 31867; 22411]%N ++ runes_of_ascii "` , }

")).
Eval vm_compute in ("<<<M4200>>>" ++ check (runes_of_ascii "packet T {
    repeat string options1,
    @lengthOf(Packet)
    @calculatedFrom(""" ++ [128512]%N ++ runes_of_ascii """)
    @lengthOf(repeatCount)
    u64 asx,
    @leftPad('\x00')
    x {
        // c
        string a1 `tab	here`,
        repeat pack Header,
        match packetx as rootA {
            3 : chars,
        },
    },
    falsey @lengthOf(matchKey) `line1
    line2`,
    @calculatedFrom(""`tick`"")
    @calculatedFrom(""1"")
    char[00] u128 @lengthOf(a1),
    @lengthOf(lengthOf)
    @rightPad('0')
    @lengthOf(u128)
    rootA,
}

// " ++ [128512]%N ++ runes_of_ascii " emoji
//	t
options {
}

packet u128 {
    @tag(3)
    @tag(255)
    @lengthOf(_x)
    char crc `u8 x,`,
    repeat matchKey repeatCount,
    repeat T `crlf
    line`,
    char[] trueish `
    `,
}

options {
    Packet = true
    u128 = '0';
    As = ""// no comment"";
    o = false
}

options {
}
/// triple")).
Eval vm_compute in ("<<<M782>>>" ++ check (runes_of_ascii "  packet stringy
    //	t
    { @calculatedFrom( ""abc"" ) @calculatedFrom(
    ""abc""
    )	repeat char[
1] charz
, @lengthOf( float
    )
@tag( 00 ) @calculatedFrom(
""{,}"" ) // `tick` ""quote"" 'q'
match int as// 50% %s
body
{ [ """"
    ,
4294967296 , 0
]
: float
// 50% %s
// packet A { u8 x, }
, } , }	packet crc { @rightPad ( ' ' ) @calculatedFrom(""" ++ [128512]%N ++ runes_of_ascii """
    ) @tag(
// `tick` ""quote"" 'q'
//	t
00
    )
int16 falsey  `u8 x,` // `tick` ""quote"" 'q'
, // c
@leftPad ( '\x00'	)
string_
    ,	@lengthOf(
repeatCount )f64
f32a
    // " ++ [128512]%N ++ runes_of_ascii " emoji
    @lengthOf( u8x)
    // @lengthOf(
    , char[] falsey
, @tag(
42
)
@tag( 10 )zchar[
//	t
// " ++ [128512]%N ++ runes_of_ascii " emoji
255
    //x
    ] body
`
`
,
@tag(65535 ) // " ++ [27880; 37322]%N ++ runes_of_ascii "
crc @calculatedFrom( ""CRC32"" ),	} options // " ++ [128512]%N ++ runes_of_ascii " emoji
{  repeatCount = // trailing space 
'0'	}")).
Eval vm_compute in ("<<<M1213>>>" ++ check (runes_of_ascii "//	t
MetaData o /// triple
{BodyLength // " ++ [128512]%N ++ runes_of_ascii " emoji
Z9_ , char
Foo ,zchar[ 1
]
u `" ++ [28040; 24687; 31867; 22411]%N ++ runes_of_ascii "` ,
    char[]  Logon `100% of %d`
,
    // " ++ [27880; 37322]%N ++ runes_of_ascii "
    }
    /// triple
    MetaData u { uint32  pack , matchKey
    calculatedFrom // `tick` ""quote"" 'q'
`crlf
line`,
string
    roots , char[42
] calculatedFrom,}
packet trueish
    { @lengthOf( u128 ) chars {
    stringy
    {repeat Foo{ asx @lengthOf(
// " ++ [27880; 37322]%N ++ runes_of_ascii "
//x
uint8x)// " ++ [128512]%N ++ runes_of_ascii " emoji
`
` ,
    uint64 Header@lengthOf( calculatedFrom)
    ,uint16 Foo`
`
    ,calculatedFrom , } , Pad msg_type
`{ , }` , repeat zchar[ 4294967296] tag , match stringy as
    A {
0123456789 :body
[
    //	t
    ""1"" , """ ++ [28040; 24687]%N ++ runes_of_ascii """ ,
3
    ] :stringy ,[	""" ++ [233]%N ++ runes_of_ascii "t" ++ [233]%N ++ runes_of_ascii """ ,""\n""// 50% %s
]
    // packet A { u8 x, }
    : Header	,
} ,
},
    char
    asx
,
} , }")).
Eval vm_compute in ("<<<M551>>>" ++ check (runes_of_ascii "packet
    x_y_z {u16 a1 , } MetaData MetaDataX {  char[]
    uint8x ,int64 zchar ,	charz pack`crlf
line` , //x
float32 // trailing space 
_x
`// not a comment`
, lengthOf stringy , } packet pack{ u8 lengthOf @lengthOf( u8x // 50% %s
) `100% of %d`
,
repeat i64 Z9_ , zchar[ // `tick` ""quote"" 'q'
255] o@calculatedFrom(
""a	b"" )``, match string_ as a1 { ""CRC32"": A, [ ""1""  , ""{,}""  ] :
roots [255 , 4294967296 , 42// @lengthOf(
,
1 ,
    255	, ""// no comment"" , 1 ,
    /// triple
    ""x y"" //
]
    // @lengthOf(
    :u8x, 007  :
As ,[""" ++ [28040; 24687]%N ++ runes_of_ascii """ ,	0123456789 ,
// c
// 50% %s
""" ++ [128512]%N ++ runes_of_ascii """ ,""a\\"" , 007 , ""// no comment"" , 10,3
    ]
    : u ,1 : zchar ,
} ,
    uint8
packetx `100% of %d` , @rightPad (// " ++ [128512]%N ++ runes_of_ascii " emoji
) char[
    1]
Header ,
}
")).
Eval vm_compute in ("<<<M3690>>>" ++ check (runes_of_ascii "packet leftPad {
}

options {
    u8x = false;
    A = 42;
    rootA = ""1"";
}

root packet crc {
    @leftPad('\x00')
    @calculatedFrom(""`tick`"")
    @calculatedFrom(""a	b"")
    len {
        repeat Foo {
            Foo {
                char[255] string_ @calculatedFrom(""CRC32"") `crlf
                                line`,
                char[] chars @lengthOf(_x),
            },
            repeat asx `
                        `,
        },
        char[] trueish @lengthOf(i8i8),
        repeat msg_type `line1
                line2`,
        zchar[10] asx,
    },
}

packet body {
}

packet Packet {
    @lengthOf(zchar)
    string u8x `two words`,
    // packet A { u8 x, }
}// " ++ [27880; 37322]%N)).
Eval vm_compute in ("<<<M227>>>" ++ check (runes_of_ascii "options // packet A { u8 x, }
{ MetaDataX
=
00
    // trailing space 
    ; stringy = ""packet"" Header= char[ 42 ]} packet As  {
} packet trueish{ BodyLength ,
    @tag(
42 )u8 msg_type @calculatedFrom(
""a\""b"" ) ,
repeat  u16 u128
, @calculatedFrom(
    ""abc"")
// `tick` ""quote"" 'q'
// packet A { u8 x, }
match charz as x_y_z {3	:
    //	t
    Z9_, 7: repeatCount [ //x
1 , ""a\\""// c
] :
    i64_
    , ""it's"":
    Logon },
f32 // 50% %s
int `it's`, @calculatedFrom( ""{,}""
    )
falsey @calculatedFrom( ""a\""b"" )
, @lengthOf(A	)
    Header
// 50% %s
/// triple
@calculatedFrom( ""packet"" )
    `tab	here`  ,char[3 // trailing space 
] zchar@lengthOf( rootA ) , }

")).
Eval vm_compute in ("<<<M3285>>>" ++ check (runes_of_ascii "// top
packet
    // c0
x_y_z // c1
{ match
    // c3
leftPad // c4
as // c5a
  // c5b
string_ // c6a
  // c6b
{ 0 // c8
: A , ""a	b"" // c12a
  // c12b
:
    // c13
x_y_z
    // c14
,
    // c15
} , @calculatedFrom( ""\n""
    // c19
) // c20a
  // c20b
metadata
    // c21
{ repeat // c23a
  // c23b
lengthOf f32a // c25a
  // c25b
`line1
line2` , // c27
MetaDataX // c28
{ u8x
    // c30
matchKey // c31a
  // c31b
, } , // c34a
  // c34b
uint8 // c35a
  // c35b
a1 // c36
@lengthOf( body // c38
) , string charz `a\` ,
    // c44
} , // c46
} // c47
packet // c48
charz // c49
{ // c50a
  // c50b
} MetaData // c52a
  // c52b
A // c53
{ }
    // c55
")).
Eval vm_compute in ("<<<M3924>>>" ++ check (runes_of_ascii "packet stringy {
    @calculatedFrom(""abc"")
    @calculatedFrom(""abc"")
    repeat char[1] charz,
    @lengthOf(float)
    @tag(00)
    @calculatedFrom(""{,}"")
    // `tick` ""quote"" 'q'
    match int as body {
        ["""", 4294967296, 0] : float,
    },
}

packet crc {
    @rightPad(' ')
    @calculatedFrom(""" ++ [128512]%N ++ runes_of_ascii """)
    @tag(00)
    int16 falsey `u8 x,`,// c
    @leftPad('\x00')
    string_,
    @lengthOf(repeatCount)
    f64 f32a @lengthOf(u8x),
    char[] falsey,
    @tag(42)
    @tag(10)
    zchar[255] body `
        `,
    @tag(65535)
    // " ++ [27880; 37322]%N ++ runes_of_ascii "
    crc @calculatedFrom(""CRC32""),
}

options {
    repeatCount = '0'
}")).
Eval vm_compute in ("<<<M877>>>" ++ check (runes_of_ascii "packet
falsey
{ match//x
len	as T { [ //	t
00 , ""a	b""
, // 50% %s
7 ,
""\" ++ [233]%N ++ runes_of_ascii """ ,
""abc"" ,
""" ++ [233]%N ++ runes_of_ascii "t" ++ [233]%N ++ runes_of_ascii """  , ""CRC32""
    ,
    """ ++ [28040; 24687]%N ++ runes_of_ascii """ ]	: As
, 10
: lengthOf , ""{,}"" : crc // packet A { u8 x, }
, """ ++ [128512]%N ++ runes_of_ascii """ :
    body , }
    ,// " ++ [27880; 37322]%N ++ runes_of_ascii "
@leftPad () @rightPad
// " ++ [128512]%N ++ runes_of_ascii " emoji
// " ++ [128512]%N ++ runes_of_ascii " emoji
(
// " ++ [128512]%N ++ runes_of_ascii " emoji
// @lengthOf(
) @rightPad ( '\x00'
    )
match BodyLength as /// triple
body{ 7 : Pad , 4294967296
:  _x
    , [ // a // b
""packet""
    ,""x y"" ]:
    //x
    Z9_
[ ""packet""  , ""a\""b""]
: float	, } ,options1 BodyLength, @tag( 4294967296 ) char[ 007
    ]asx@calculatedFrom(
""`tick`"") `it's`
// trailing space 
// " ++ [128512]%N ++ runes_of_ascii " emoji
, } 	 ")).
Eval vm_compute in ("<<<M460>>>" ++ check (runes_of_ascii "packet  Logon { zchar[ // trailing space 
7//	t
] repeatCount ,crc @calculatedFrom( /// triple
""CRC32"" ) `100% of %d` , @rightPad ( //	t
'0'
) @lengthOf( i64_)
    @rightPad ( '\x00'/// triple
) // 50% %s
repeat char[
7 ]len
`it's`
,repeat	Z9_ ,
} packet// a // b
packetx	{ @lengthOf(
    // " ++ [27880; 37322]%N ++ runes_of_ascii "
    metadata
    )string_ { char[]  As `" ++ [233]%N ++ runes_of_ascii "`
, char[ 10
]u8x  `say ""hi""`
// trailing space 
// `tick` ""quote"" 'q'
, }
,zchar[
10
// " ++ [27880; 37322]%N ++ runes_of_ascii "
// c
]
body
    @lengthOf(
T )  `{ , }` , T { _x u // 50% %s
, } ,packetx f32a ,
} packet chars {  @leftPad ( )
string
tag @lengthOf(charz),
}
")).
Eval vm_compute in ("<<<M3601>>>" ++ check (runes_of_ascii "MetaData crc {
}// c

packet Header {
    calculatedFrom matchKey `" ++ [233]%N ++ runes_of_ascii "`,
    @leftPad('\x00')
    i64 Logon,
    @tag(0)
    char[4294967296] i8i8,
    @tag(255)
    char zchar @calculatedFrom(""// no comment""),
    @lengthOf(asx)
    float,
    @calculatedFrom(""" ++ [28040; 24687]%N ++ runes_of_ascii """)
    repeat int32 As,
    zchar `" ++ [28040; 24687; 31867; 22411]%N ++ runes_of_ascii "`,// @lengthOf(
    u32 _x @calculatedFrom(""a\\"") `u8 x,`,
    @calculatedFrom(""\n"")
    char[] BodyLength `" ++ [233]%N ++ runes_of_ascii "`,
}

root packet chars {
    zchar[00] Z9_,
}

options {
    i8i8 = 10
    A = ' ';
    float = '0'
    msg_type = ""x y"";
    leftPad = ' ';
}")).
Eval vm_compute in ("<<<M59>>>" ++ check (runes_of_ascii "packet
chars {
match
    A as stringy
    { ""CRC32""
    // `tick` ""quote"" 'q'
    : len
    ,
    [	""x y""] : BodyLength	, // packet A { u8 x, }
}	,}
    options
{ // @lengthOf(
string_= '\x00'
; /// triple
} packet
/// triple
// " ++ [27880; 37322]%N ++ runes_of_ascii "
crc { @rightPad ( '\x00'
) match
    Header  as rootA{
[ 255	, 42
    ,""1""
, ""{,}"" ,
// 50% %s
// 50% %s
10	, ""CRC32"" , 7 ]: leftPad ,}, uint32 crc,// packet A { u8 x, }
u8x@lengthOf(MetaDataX
/// triple
/// triple
) , i32 o
    // `tick` ""quote"" 'q'
    `crlf
line` , } // packet A { u8 x, }")).
Eval vm_compute in ("<<<M3821>>>" ++ check (runes_of_ascii "options  {
LittleEndian =

false; ArrayPrefixLenType 
=u8

    ;
	}  packet Reject{ int8
    x	, 
}
packet
Trade	{ zchar[
4
    ] 
msgKind  ,
}	root	packet

    Leg{

repeat  i64
Note 
,  u8

    venue

, @leftPad 
( 
'0' )char[ 6
	] Qty
	, @rightPad	(
	'\x00'
)	char[ 12
	]	count

    ,

    repeat 
Reject , repeat  char[
    3
	] 
Px
    , u16
    lastPx  ,

    u16
Acct @lengthOf(
Body
	) ,  match
    lastPx as

    Body
	{	104
    : Reject
	,
	61
:
Trade  ,
}

    ,
	}
")).
Eval vm_compute in ("<<<M4030>>>" ++ check (runes_of_ascii "packet chars {
    i8i8 @calculatedFrom(""a\""b"") `
    `,
    @lengthOf(Foo)
    @lengthOf(roots)
    @tag(255)
    zchar[7] rootA @calculatedFrom("""") `" ++ [28040; 24687; 31867; 22411]%N ++ runes_of_ascii "`,
}

// packet A { u8 x, }
//x
packet u128 {
    match calculatedFrom as i64_ {
        007 : charz,
        1 : u8x,
        00 : stringy,
        ""1"" : roots,
        42 : Packet,
    },
    // " ++ [27880; 37322]%N ++ runes_of_ascii "
    //	t
    a1,
    u ``,
    @calculatedFrom(""`tick`"")
    @leftPad('0')
    repeat char[1] x,
}

options {
    Z9_ = '0';
}")).
Eval vm_compute in ("<<<M1026>>>" ++ check (runes_of_ascii "root packet  len
{
}
MetaData	zchar { } root packet len{
match lengthOf
as x {	""it's"" : i64_, [
""a	b"" ,
0123456789 ,
""\" ++ [233]%N ++ runes_of_ascii """ , 00, """ ++ [28040; 24687]%N ++ runes_of_ascii """ ] : // `tick` ""quote"" 'q'
float [
// @lengthOf(
// packet A { u8 x, }
""CRC32"" , ""{,}"" // a // b
]: f32a ,
[ ""it's"" ,  """ ++ [128512]%N ++ runes_of_ascii """
    , ""a	b"" , ""it's"" , """ ++ [128512]%N ++ runes_of_ascii """	,3 ] :u128 , """ ++ [128512]%N ++ runes_of_ascii """ :
    chars
,[ // @lengthOf(
7 , """"
    ]
: charz
    ,
} , char[ 00] BodyLength
, @tag( 4294967296 )
    string_ , @lengthOf(
Foo ) BodyLength int,
    }
")).
Eval vm_compute in ("<<<M3330>>>" ++ check (runes_of_ascii "// top
packet
    // c0
leftPad
    // c1
{
    // c2
@calculatedFrom(
    // c3
""packet""
    // c4
)
    // c5
chars
    // c6
Header
    // c7
,
    // c8
Z9_
    // c9
{
    // c10
int16
    // c11
roots
    // c12
@lengthOf(
    // c13
f32a
    // c14
)
    // c15
`line1
line2`
    // c16
,
    // c17
rootA
    // c18
,
    // c19
}
    // c20
,
    // c21
repeat
    // c22
int8
    // c23
int
    // c24
,
    // c25
}
    // c26
")).
Eval vm_compute in ("<<<M3851>>>" ++ check (runes_of_ascii "packet
    T

    { @lengthOf(
len

    )

match
	crc  as
    string_{	10 : Pad 
,	// " ++ [128512]%N ++ runes_of_ascii " emoji
    7 
:

    _x , 7 //x
:
	stringy,// c
		}

    ,  o  @calculatedFrom(

""a\""b"" )`two words`, match
Foo
as options1	{
	[
    ""// no comment"" 
]
    : 
metadata	// trailing space 
	,
} ,	@rightPad
(
'\x00')repeat
	o 
i8i8 , rootA
	// `tick` ""quote"" 'q'
  , } 
options{ A=
    65535
	}	// trailing space 
 
")).
Eval vm_compute in ("<<<M255>>>" ++ check (runes_of_ascii "packet metadata {
    zchar[
1 ] stringy
    ,repeat float uint8x,
@tag(
255 )
    // `tick` ""quote"" 'q'
    zchar
    // `tick` ""quote"" 'q'
    @lengthOf( _x	), tag
@lengthOf( /// triple
i64_ ) , repeat repeatCount
{ char o
    // `tick` ""quote"" 'q'
    ,
    char[ 7 ]
    T , }
    ,
} root
packet	u8x
{ @tag( 0)repeat
    falsey string_ , @calculatedFrom( """"
    ) lengthOf, u16 calculatedFrom ,}
")).
Eval vm_compute in ("<<<M916>>>" ++ check (runes_of_ascii "packet metadata { uint8x { repeat //
u16 string_, }
//	t
//x
, } packet MetaDataX  { @rightPad	(' ' ) tag {  zchar[ 007
] tag
//x
// " ++ [27880; 37322]%N ++ runes_of_ascii "
@calculatedFrom(
""1"" ) ,
    string u , repeat A	T ,
// 50% %s
// packet A { u8 x, }
roots @lengthOf(
    Logon),
    }
, @calculatedFrom( """ ++ [28040; 24687]%N ++ runes_of_ascii """ )repeat
string_	`tab	here`,}packet x
{ float32 // 50% %s
BodyLength @lengthOf(Header )
`doc`//	t
,}
")).
Eval vm_compute in ("<<<M4070>>>" ++ check (runes_of_ascii "packet	// a // b
	  rootA
{}options{ 
}

    MetaData body
    {	//x
  	i8i8 	 //
	  A
, 
i16
	Header  ,
	calculatedFrom T

    , char[]	packetx  `say ""hi""`
    ,
Foo uint8x ,int64  Header`doc` 
,} 
MetaData

packetx
{ i64 
string_
    `say ""hi""` ,
    uint8
calculatedFrom
, a1 MetaDataX,
    MetaDataX tag
	, f64
u8x 
,
	f64
asx 
,  }// `tick` ""quote"" 'q'")).
Eval vm_compute in ("<<<M3894>>>" ++ check (runes_of_ascii "

  // top

MetaData // c0
  Foo  // c1a
	// c1b

	{
    // c2
  zchar[ 	 // c3a
  	// c3b
  0// c4
  ]// c5
matchKey
        // c6
,  // c7a
	// c7b
}
    // c8
	options 	 // c9
    {  // c10

  lengthOf  // c11a
	// c11b
      =  // c12a
      // c12b
      i32
    // c13
  u // c14

  =	// c15a
	// c15b
00
// c16
  ; // c17
  }	// c18
")).
Eval vm_compute in ("<<<M455>>>" ++ check (runes_of_ascii "options { uint8x = '\x00' ; a1 =zchar[ 4294967296
    ] ;Packet =	007;
}	MetaData	rootA {roots repeatCount `two words` , string f32a `u8 x,` ,	char[0 ]
rootA// a // b
`doc` , o stringy
`tab	here`, }	MetaData
    u128 {int16
    asx `a\` , // " ++ [27880; 37322]%N ++ runes_of_ascii "
string f32a ,
// " ++ [27880; 37322]%N ++ runes_of_ascii "
// 50% %s
i16 o`line1
line2` ,
    u64 Z9_ `u8 x,` ,
//x
// 50% %s
}
")).
Eval vm_compute in ("<<<M899>>>" ++ check (runes_of_ascii "
root packet
// c
// c
packetx { @tag(1) T uint8x
,}	packet crc
{ @calculatedFrom(
    ""abc""
) msg_type  charz `line1
line2` ,} packet	Pad { }root packet x{
@tag( 0 ) zchar[
10 ] metadata ,_x charz ,
x
`// not a comment`
    ,int16 roots,	string // " ++ [27880; 37322]%N ++ runes_of_ascii "
i64_`line1
line2` ,
repeat
lengthOf
`` ,
    zchar[
42 // c
] int , }")).
Eval vm_compute in ("<<<M4060>>>" ++ check (runes_of_ascii "  packet	metadata { 	 // trailing space 
roots	uint8x	,
	@leftPad(
	) zchar[	3 ]
    Header
, i64_ 
roots
, @lengthOf(A 
)
        // " ++ [128512]%N ++ runes_of_ascii " emoji
	  @lengthOf( 	 // trailing space 
    pack )@lengthOf(
	calculatedFrom
    // a // b
  	/// triple
  )  
  // trailing space 
      u8
	charz

`crlf
line`,
    }")).
Eval vm_compute in ("<<<M365>>>" ++ check (runes_of_ascii "packet tag {@calculatedFrom(""" ++ [28040; 24687]%N ++ runes_of_ascii """ ) A	`line1
line2`, @leftPad ( //x
' '
    ) string_ , //	t
@tag(	42 ) u8 body @calculatedFrom(
// " ++ [128512]%N ++ runes_of_ascii " emoji
// " ++ [27880; 37322]%N ++ runes_of_ascii "
""a	b"" ) ,
} packet body  { zchar[//x
4294967296  ]chars ,
// c
// trailing space 
@rightPad	( ' ') u @lengthOf( a1 ) ,
} MetaData
    trueish
{
}
")).
Eval vm_compute in ("<<<M4244>>>" ++ check (runes_of_ascii "
// 50% %s
packet
a1
{

zchar[ 
        // a // b
// 50% %s

	007

    ]
    T
    `it's` 
, @rightPad
// a // b
	('\x00'	)o
	,
    }
packet Logon
	{	} packet

Logon 	 //x
	{
    repeat  // " ++ [128512]%N ++ runes_of_ascii " emoji
uint16
u128
        //
	`a\` ,falsey @calculatedFrom(
    ""packet""
) ,}

")).
Eval vm_compute in ("<<<M485>>>" ++ check (runes_of_ascii "MetaData
//	t
// 50% %s
f32a
{char[ 3
]lengthOf ,
zchar[7 ] Header
,u32
x_y_z ,}packet Foo { } packet chars {
    metadata
    { msg_type
u128	`a\` ,
},	} MetaData
    MetaDataX { }
options { options1 = 0123456789 ; body= 007 ;
    Foo
    =char[] ;u8x=
    true ; }
")).
Eval vm_compute in ("<<<M1599>>>" ++ check (runes_of_ascii "// 50% %s
packet	a1
    { zchar[
// a // b
// 50% %s
007]
T `it's`
    ,@rightPad
    // a // b
    (
'\x00')
    o repeatCount , packet  packet Logon {  }packet	Logon //x
{ repeat // " ++ [128512]%N ++ runes_of_ascii " emoji
uint16 u128
    //
    `a\`,
falsey
@calculatedFrom(""packet"" ) ,
    } 	 ")).
Eval vm_compute in ("<<<M1592>>>" ++ check (runes_of_ascii "// 50% %s
packet	a1
    { zchar[
// a // b
// 50% %s
007]
T `it's`
    ,@rightPad
    // a // b
    (
'\x00')
    o repeatCount , , }  packet Logon {  }packet	Logon //x
{ repeat // " ++ [128512]%N ++ runes_of_ascii " emoji
uint16 u128
    //
    `a\`,
falsey
@calculatedFrom(""packet"" ) ,
    } 	 ")).
Eval vm_compute in ("<<<M1528>>>" ++ check (runes_of_ascii "// 50% %s
packet	a1
    zchar[ {
// a // b
// 50% %s
007]
T `it's`
    ,@rightPad
    // a // b
    (
'\x00')
    o repeatCount , }  packet Logon {  }packet	Logon //x
{ repeat // " ++ [128512]%N ++ runes_of_ascii " emoji
uint16 u128
    //
    `a\`,
falsey
@calculatedFrom(""packet"" ) ,
    } 	 ")).
Eval vm_compute in ("<<<M4177>>>" ++ check (runes_of_ascii "MetaData x {
    _x Z9_ `u8 x,`,
    Z9_ matchKey,
    u128 roots,
    lengthOf matchKey,
    char[3] packetx `100% of %d`,
    char[7] options1 `doc`,// 50% %s
}

options {
    leftPad = ' '
}

packet roots {
    float32 T @lengthOf(int) `" ++ [233]%N ++ runes_of_ascii "`,
}

packet rootA {
}")).
Eval vm_compute in ("<<<M3527>>>" ++ check (runes_of_ascii "
packet  len {
string  tag ,  @calculatedFrom(
""" ++ [233]%N ++ runes_of_ascii "t" ++ [233]%N ++ runes_of_ascii """

)  repeat

Z9_
{	// " ++ [27880; 37322]%N ++ runes_of_ascii "
zchar[ 65535  // c
]//	t
	len
    @lengthOf(

matchKey)
,
    //
	/// triple

} 
,	}  MetaData
float  {
f32a
    rootA	// trailing space 
    `" ++ [233]%N ++ runes_of_ascii "`  , // trailing space 
    }
")).
Eval vm_compute in ("<<<M4320>>>" ++ check (runes_of_ascii "
packet 
Sub{u8
a

    ,
	@calculatedFrom(
""CRC16""
    )
	i16
	SubSum
    ,
}
root  packet
Frame{

u16
MsgType
    , u16 
BodyLen

@lengthOf(

Body )
    ,
    Sub Body,

    string 
note, @calculatedFrom(

""CRC16"" )
    i16 Checksum
	,
u8
    tail,} ")).
Eval vm_compute in ("<<<M1666>>>" ++ check (runes_of_ascii "// 50% %s
packet	a1
    { zchar[
// a // b
// 50% %s
007]
T `it's`
    ,@rightPad
    // a // b
    (
'\x00')
    o repeatCount , }  packet Logon {  }packet	Logon //x
{ repeat // " ++ [128512]%N ++ runes_of_ascii " emoji
uint16 u128
    //
    `a\`,
falsey
""packet"" ) ,
    } 	 ")).
Eval vm_compute in ("<<<M957>>>" ++ check (runes_of_ascii "
packet Packet  {
    @tag(
3 )
u8x { string_ @lengthOf(
options1 )
, options1 @lengthOf(u128 ) , float64
Foo @calculatedFrom( ""abc"" ) `two words` ,
//	t
// 50% %s
char[]falsey @lengthOf(o), // `tick` ""quote"" 'q'
} ,}
packet zchar { }
")).
Eval vm_compute in ("<<<M131>>>" ++ check (runes_of_ascii "root packet //
metadata// " ++ [27880; 37322]%N ++ runes_of_ascii "
{// 50% %s
@calculatedFrom( ""1""
    ) repeat
    i16 body ,
// @lengthOf(
// c
@calculatedFrom( // 50% %s
""a	b""// 50% %s
)
    char roots `{ , }`	, repeat zchar[10 ]
    pack// a // b
`doc` ,
} //")).
Eval vm_compute in ("<<<M3896>>>" ++ check (runes_of_ascii "

  options {

}
    root	packet// packet A { u8 x, }
chars	{ 
@tag(

    1
)zchar[
	3  ] falsey 
`" ++ [233]%N ++ runes_of_ascii "`

,}  options
	{  o

=' ' tag 
= 
char[]	;
	float 
=' '

;  }  // a // b
MetaData  zchar

{
BodyLength

_x	, 
}

")).
Eval vm_compute in ("<<<M689>>>" ++ check (runes_of_ascii "MetaData // @lengthOf(
options1 {
    // a // b
    float32 a1
`a\`
    // " ++ [128512]%N ++ runes_of_ascii " emoji
    ,
leftPad
    // packet A { u8 x, }
    Packet `" ++ [28040; 24687; 31867; 22411]%N ++ runes_of_ascii "`,zchar[
4294967296 ] repeatCount, f32 x
,
    roots packetx`" ++ [233]%N ++ runes_of_ascii "` , }
")).
Eval vm_compute in ("<<<M3643>>>" ++ check (runes_of_ascii "packet stringy {
}// c

MetaData rootA {
    zchar[42] rootA `it's`,
    Logon i64_,
    char[] repeatCount `two words`,
    //
    int64 int,
    float64 tag `line1
        line2`,
    f32 Foo `" ++ [233]%N ++ runes_of_ascii "`,
}")).
Eval vm_compute in ("<<<M913>>>" ++ check (runes_of_ascii "  root
    packet//x
len
{stringy @calculatedFrom( ""\n""
) `line1
line2`
//
// c
, i32 As `" ++ [233]%N ++ runes_of_ascii "` , @calculatedFrom( ""\" ++ [233]%N ++ runes_of_ascii """ ) repeat uint64 tag , repeat
    i32 // `tick` ""quote"" 'q'
pack , } // c")).
Eval vm_compute in ("<<<M1388>>>" ++ check (runes_of_ascii "MetaData
    // `tick` ""quote"" 'q'
    string_ { // @lengthOf(
zchar[
    65535 ]
    rootA,
u8x// packet A { u8 x, }
int ,
i8
Logon
, uint8
tag//x
`// not a comment` ,
    }
")).
Eval vm_compute in ("<<<M3413>>>" ++ check (runes_of_ascii "packet
    A
{u8
    a 
, }

packet 
B

{u16
b,}
    root packet
P
    {
u8

    K,  match
	K

    as M 
{ [1 
,
	2 ] : A	,
    3:B 
, 7
:

    A
,

    }
	,}

")).
Eval vm_compute in ("<<<M930>>>" ++ check (runes_of_ascii "root packet
    string_ {// trailing space 
@tag(
    0 )
    char[]
    // trailing space 
    MetaDataX`it's`	, // @lengthOf(
trueish { pack f32a, } , // 50% %s
}")).
Eval vm_compute in ("<<<M1307>>>" ++ check (runes_of_ascii "// " ++ [128512]%N ++ runes_of_ascii " emoji
packet int// 50% %s
{ //x
options1 ,
    } root packet
uint8x {
@tag( 1 ) zchar`say ""hi""`
    ,  @tag(  255
) u64
matchKey ,
/// triple
//	t
} 	 ")).
Eval vm_compute in ("<<<M2111>>>" ++ check (runes_of_ascii "MetaData BodyLength
{ int8 Foo
, string
    MetaDataX , float zchar ,pack options1 options1
,asx string_, }
packet u8x {Foo@lengthOf(charz )
`" ++ [28040; 24687; 31867; 22411]%N ++ runes_of_ascii "`,  }
")).
Eval vm_compute in ("<<<M1048>>>" ++ check (runes_of_ascii "//
packet Packet { repeat char[] len,zchar As
    `line1
line2` , @lengthOf( charz
// " ++ [27880; 37322]%N ++ runes_of_ascii "
// `tick` ""quote"" 'q'
) repeat int8 metadata, /// triple
}")).
Eval vm_compute in ("<<<M2171>>>" ++ check (runes_of_ascii "MetaData BodyLength
{ int8 Foo
, string
    MetaDataX , float zchar ,pack options1
,asx string_, }
packet u8x {Foo@lengthOf(charz ) )
`" ++ [28040; 24687; 31867; 22411]%N ++ runes_of_ascii "`,  }
")).
Eval vm_compute in ("<<<M3949>>>" ++ check (runes_of_ascii "packet A {
    match k as n {
        [
            ""a"", ""bb"", 007, ""d"", ""e"",
            66, ""g"", ""h"", 9
        ] : B,
        2 : C,
    },
}")).
Eval vm_compute in ("<<<M2173>>>" ++ check (runes_of_ascii "MetaData BodyLength
{ int8 Foo
, string
    MetaDataX , float zchar ,pack options1
,asx string_, }
packet u8x {Foo@lengthOf(charz ;
`" ++ [28040; 24687; 31867; 22411]%N ++ runes_of_ascii "`,  }
")).
Eval vm_compute in ("<<<M884>>>" ++ check (runes_of_ascii "MetaData stringy { char[]	u, u16	o , roots
T ,
string Pad ,falsey
msg_type
,
    zchar[ 7 ] Logon, }MetaData int {	u64
u8x
    `" ++ [28040; 24687; 31867; 22411]%N ++ runes_of_ascii "` ,}
")).
Eval vm_compute in ("<<<M2236>>>" ++ check (runes_of_ascii "options
    {
x_y_z// " ++ [27880; 37322]%N ++ runes_of_ascii "
= 10 repeat }
packet body {
    @calculatedFrom(
// trailing space 
// " ++ [27880; 37322]%N ++ runes_of_ascii "
""1""
)	match T as Foo
    {
255 :T , }
,}")).
Eval vm_compute in ("<<<M172>>>" ++ check (runes_of_ascii "options{
    metadata = '0'}
options{u =
1 ;msg_type = string;	As = ""{,}"";
i8i8 = string; crc// `tick` ""quote"" 'q'
=
char[ 4294967296
] }")).
Eval vm_compute in ("<<<M2140>>>" ++ check (runes_of_ascii "MetaData BodyLength
{ int8 Foo
, string
    MetaDataX , float zchar ,pack options1
,asx string_, }
 u8x {Foo@lengthOf(charz )
`" ++ [28040; 24687; 31867; 22411]%N ++ runes_of_ascii "`,  }
")).
Eval vm_compute in ("<<<M2038>>>" ++ check (runes_of_ascii "
packet leftPad {
@leftPad( '0')
u32
i64_ `100% of %d` ,repeat// %50% %s
i8 chars
    ,
} MetaData
    f32a
{ // packet A { u8 x, }
}")).
Eval vm_compute in ("<<<M1973>>>" ++ check (runes_of_ascii "
packet leftPad {
@leftPad( '0')
u32
i64_ , `100% of %d`repeat// 50% %s
i8 chars
    ,
} MetaData
    f32a
{ // packet A { u8 x, }
}")).
Eval vm_compute in ("<<<M2290>>>" ++ check (runes_of_ascii "options
    {
x_y_z// " ++ [27880; 37322]%N ++ runes_of_ascii "
= 10 ; }
packet body {
    @calculatedFrom(
// trailing space 
// " ++ [27880; 37322]%N ++ runes_of_ascii "
""1""
)	match T as {
    Foo
255 :T , }
,}")).
Eval vm_compute in ("<<<M2246>>>" ++ check (runes_of_ascii "options
    {
x_y_z// " ++ [27880; 37322]%N ++ runes_of_ascii "
= 10 ; }
@tag( body {
    @calculatedFrom(
// trailing space 
// " ++ [27880; 37322]%N ++ runes_of_ascii "
""1""
)	match T as Foo
    {
255 :T , }
,}")).
Eval vm_compute in ("<<<M2263>>>" ++ check (runes_of_ascii "options
    {
x_y_z// " ++ [27880; 37322]%N ++ runes_of_ascii "
= 10 ; }
packet body {
    @calculatedFrom(
// trailing space 
// " ++ [27880; 37322]%N ++ runes_of_ascii "

)	match T as Foo
    {
255 :T , }
,}")).
Eval vm_compute in ("<<<M4075>>>" ++ check (runes_of_ascii "packet leftPad {
    @leftPad('0')
    u32 i64_ `1?00% of %d`,
    repeat i8 chars,
}

MetaData f32a {
    // packet A { u8 x, }
}")).
Eval vm_compute in ("<<<M2404>>>" ++ check (runes_of_ascii "MetaData
    calculatedFrom
{ zchar[  10 ]
    As`tab	here`,
    }// trailing space 
options  { " ++ [252]%N ++ runes_of_ascii "ber ='\x00' ; } packet A
{ }
")).
Eval vm_compute in ("<<<M2169>>>" ++ check (runes_of_ascii "MetaData BodyLength
{ int8 Foo
, string
    MetaDataX , float zchar ,pack options1
,asx string_, }
packet u8x {Foo@lengthOf(")).
Eval vm_compute in ("<<<M336>>>" ++ check (runes_of_ascii "options	{// 50% %s
lengthOf = f64 pack= ""\n"" ; packetx =""{,}"" ;  MetaDataX =
    false	; // 50% %s
} // trailing space ")).
Eval vm_compute in ("<<<M1920>>>" ++ check (runes_of_ascii "packet o {
    roots `it's`
// trailing space 
//x
, char[ 42
    @x ]  A, // " ++ [27880; 37322]%N ++ runes_of_ascii "
f64
repeatCount
    `crlf
line`
,}")).
Eval vm_compute in ("<<<M794>>>" ++ check (runes_of_ascii "MetaData metadata{ stringy Header  , } root packet T { } packet
matchKey { repeat string_ // 50% %s
x_y_z
    , }")).
Eval vm_compute in ("<<<M1884>>>" ++ check (runes_of_ascii "packet o {
    roots `it's`
// trailing space 
//x
, char[ 42
    ]  A, // " ++ [27880; 37322]%N ++ runes_of_ascii "
repeatCount
f64
    `crlf
line`
,}")).
Eval vm_compute in ("<<<M4469>>>" ++ check (runes_of_ascii "
MetaData

    Foo{ 
zchar[0
	]

    matchKey 
,

    }options 

// c
	{
	lengthOf = i32 
u = 00  ;
    }
")).
Eval vm_compute in ("<<<M2292>>>" ++ check (runes_of_ascii "options
    {
x_y_z// " ++ [27880; 37322]%N ++ runes_of_ascii "
= 10 ; }
packet body {
    @calculatedFrom(
// trailing space 
// " ++ [27880; 37322]%N ++ runes_of_ascii "
""1""
)	match T as")).
Eval vm_compute in ("<<<M3057>>>" ++ check (runes_of_ascii "packet A {
    Inner {
        u8 x `tab
	x`,
        Deep {
            u8 y `tab
	x`,
        },
    },
}")).
Eval vm_compute in ("<<<M3068>>>" ++ check (runes_of_ascii "packet A {
    u16 len @lengthOf(body) `%`,
    u32 crc @calculatedFrom(""CRC32"") `%`,
    string body,
}")).
Eval vm_compute in ("<<<M2963>>>" ++ check (runes_of_ascii "packet A {
  match k as n {
    [""a"", ""bb"", ""c c"", ""d"", ""e"", ""f"", ""g"", ""h"", ""i""] : B
    2 : C
  },
}")).
Eval vm_compute in ("<<<M4135>>>" ++ check (runes_of_ascii "

  MetaData
u
    {  char[ 255 ] 
string_ ,
} packet
    A { } root packet asx  { 	 //	t
    }

")).
Eval vm_compute in ("<<<M254>>>" ++ check (runes_of_ascii "
MetaData i8i8 { char[]	Header
    `// not a comment`  ,u8 roots `
` , int64 T,	} options { }
")).
Eval vm_compute in ("<<<M1364>>>" ++ check (runes_of_ascii "
packet Packet { @calculatedFrom( ""\" ++ [233]%N ++ runes_of_ascii """) @tag( 42
)@calculatedFrom(	""\n"" ) a1`{ , }` ,
    }
")).
Eval vm_compute in ("<<<M1483>>>" ++ check (runes_of_ascii "packet
T
{ match repeatCount as	calculatedFrom
{ [65535 ]	: As	,
} } ,}
// trailing space 
")).
Eval vm_compute in ("<<<M2190>>>" ++ check (runes_of_ascii "MetaData BodyLength
{ int8 Foo
, string
    MetaDataX , float zchar ,pack options1
,asx str")).
Eval vm_compute in ("<<<M1771>>>" ++ check (runes_of_ascii "options{  lengthOf =//x
i16;
    BodyLength = 0 ; pack
= false false;
    A = char[ 3 ] }")).
Eval vm_compute in ("<<<M3958>>>" ++ check (runes_of_ascii "packet A {
    match k as n {
        [1, ""bb"", 007, ""d"", 5] : B,
        2 : C,
    },
}")).
Eval vm_compute in ("<<<M3202>>>" ++ check (runes_of_ascii "packet A { match k as n // a
 { // b
 1 // c
 : // d
 B // e
 , // f
 } // g
 , // h
 }")).
Eval vm_compute in ("<<<M327>>>" ++ check (runes_of_ascii "
packet
//
// " ++ [128512]%N ++ runes_of_ascii " emoji
T {
char[] repeatCount @lengthOf( a1 ) `u8 x,`
, /// triple
}
")).
Eval vm_compute in ("<<<M1742>>>" ++ check (runes_of_ascii "options{  lengthOf =//x
i16;
    = BodyLength 0 ; pack
= false;
    A = char[ 3 ] }")).
Eval vm_compute in ("<<<M1775>>>" ++ check (runes_of_ascii "options{  lengthOf =//x
i16;
    BodyLength = 0 ; pack
= false
    A = char[ 3 ] }")).
Eval vm_compute in ("<<<M1891>>>" ++ check (runes_of_ascii "packet o {
    roots `it's`
// trailing space 
//x
, char[ 42
    ]  A, // " ++ [27880; 37322]%N ++ runes_of_ascii "
f64")).
Eval vm_compute in ("<<<M1432>>>" ++ check (runes_of_ascii "packet
T
{ match  as	calculatedFrom
{ [65535 ]	: As	,
} ,}
// trailing space 
")).
Eval vm_compute in ("<<<M3265>>>" ++ check (runes_of_ascii "MetaData Foo { zchar[ 0 ] matchKey , } options { // c
lengthOf = i32 u = 00 ; }")).
Eval vm_compute in ("<<<M1743>>>" ++ check (runes_of_ascii "options{  lengthOf =//x
i16;
    u32 = 0 ; pack
= false;
    A = char[ 3 ] }")).
Eval vm_compute in ("<<<M684>>>" ++ check (runes_of_ascii "root packet//
repeatCount // trailing space 
{_x@calculatedFrom( ""1"" ) ,
}")).
Eval vm_compute in ("<<<M3215>>>" ++ check (runes_of_ascii "packet A {
    match k as n {
        1 : B // c
        , // d
    },
}")).
Eval vm_compute in ("<<<M2972>>>" ++ check (runes_of_ascii "packet A { Inner { match k as n { [1,22,007,4,5,66,7,8,9] : B, }, }, }")).
Eval vm_compute in ("<<<M632>>>" ++ check (runes_of_ascii "options { rootA = string ;
} packet string_ {repeat a1 Packet , }
")).
Eval vm_compute in ("<<<M4308>>>" ++ check (runes_of_ascii "options {
    Pad = char[7];
    asx = ""CRC32"";
    a1 = string;
}")).
Eval vm_compute in ("<<<M2759>>>" ++ check (runes_of_ascii "as @rightPad @rightPad match { uint8 string int32 zchar[ `a\` ]")).
Eval vm_compute in ("<<<M3034>>>" ++ check (runes_of_ascii "MetaData M {
    u8 x `a
    b
  c`,
    T t `a
    b
  c`,
}")).
Eval vm_compute in ("<<<M987>>>" ++ check (runes_of_ascii "// " ++ [27880; 37322]%N ++ runes_of_ascii "
packet len
    {
repeat
metadata uint8x
`say ""hi""` ,}")).
Eval vm_compute in ("<<<M238>>>" ++ check (runes_of_ascii "root packet calculatedFrom
{}	packet
u
    { u64  len
, }
")).
Eval vm_compute in ("<<<M4013>>>" ++ check (runes_of_ascii "/// triple
      options

{
BodyLength =
    007 ;
}
")).
Eval vm_compute in ("<<<M2866>>>" ++ check (runes_of_ascii ") ; zchar[ MetaData } match = int32 repeat char[] = (")).
Eval vm_compute in ("<<<M402>>>" ++ check (runes_of_ascii "MetaData
    zchar { zchar[ //x
007 ] asx
,
    }")).
Eval vm_compute in ("<<<M2591>>>" ++ check (runes_of_ascii "packet A { char[] x @calculatedFrom(""c"") `d`, }")).
Eval vm_compute in ("<<<M3865>>>" ++ check (runes_of_ascii "packet A {
    u8 x,// a
    // b
    u8 y,
}")).
Eval vm_compute in ("<<<M3398>>>" ++ check (runes_of_ascii "root  packet P
	{
    string
s ,

    }

")).
Eval vm_compute in ("<<<M3726>>>" ++ check (runes_of_ascii "
options	// c
    	{ 
u8x
    = false }
")).
Eval vm_compute in ("<<<M2821>>>" ++ check (runes_of_ascii "8!#u9sZX(:@MQWu3Ps>z""[<H>6@7M*]R*[1m;4X")).
Eval vm_compute in ("<<<M2662>>>" ++ check (runes_of_ascii "MetaData M { match k as n { 1 : B }, }")).
Eval vm_compute in ("<<<M1003>>>" ++ check (runes_of_ascii "packet
    u8x
//	t
// 50% %s
{ } 	 ")).
Eval vm_compute in ("<<<M886>>>" ++ check (runes_of_ascii "  options
    {
// @lengthOf(
//
}
")).
Eval vm_compute in ("<<<M2625>>>" ++ check (runes_of_ascii "packet A { match k as n { 1 B }, }")).
Eval vm_compute in ("<<<M1960>>>" ++ check (runes_of_ascii "
packet leftPad {
@leftPad( '0'")).
Eval vm_compute in ("<<<M2758>>>" ++ check (runes_of_ascii "qUww<.tCKaU>#LIrC'v5KCXA`R-%g&=")).
Eval vm_compute in ("<<<M3134>>>" ++ check (runes_of_ascii "packet A {
 u8 x `d" ++ [8233]%N ++ runes_of_ascii "`, // c" ++ [8233]%N ++ runes_of_ascii "
}")).
Eval vm_compute in ("<<<M454>>>" ++ check (runes_of_ascii "packet Packet {/// triple
}
")).
Eval vm_compute in ("<<<M2333>>>" ++ check (runes_of_ascii "options
    {
x_y_z// " ++ [27880; 37322]%N ++ runes_of_ascii "
= ")).
Eval vm_compute in ("<<<M3066>>>" ++ check (runes_of_ascii "packet A {
    u8 x `%`,
}")).
Eval vm_compute in ("<<<M2706>>>" ++ check ([65533; 65533; 65533; 65533; 65533]%N ++ runes_of_ascii "h" ++ [65533; 65533]%N ++ runes_of_ascii "%" ++ [20; 15; 65533; 65533]%N ++ runes_of_ascii "x" ++ [65533; 65533; 23]%N ++ runes_of_ascii "``?" ++ [65533; 65533; 1; 65533]%N)).
Eval vm_compute in ("<<<M723>>>" ++ check (runes_of_ascii " // packet A { u8 x, }")).
Eval vm_compute in ("<<<M3610>>>" ++ check (runes_of_ascii "// `tick` ""quote"" 'q'")).
Eval vm_compute in ("<<<M2572>>>" ++ check (runes_of_ascii "packet A { repeat }")).
Eval vm_compute in ("<<<M2848>>>" ++ check (runes_of_ascii "Sq]fX""YE68*gwilIN=")).
Eval vm_compute in ("<<<M3172>>>" ++ check (runes_of_ascii "packet A {
}
// c" ++ [6158]%N)).
Eval vm_compute in ("<<<M3125>>>" ++ check (runes_of_ascii "packet A {
}// c" ++ [8232]%N)).
Eval vm_compute in ("<<<M83>>>" ++ check (runes_of_ascii "
packet tag  {}")).
Eval vm_compute in ("<<<M907>>>" ++ check (runes_of_ascii "
options
{ }
")).
Eval vm_compute in ("<<<M2663>>>" ++ check (runes_of_ascii "options { }")).
Eval vm_compute in ("<<<M2845>>>" ++ check (runes_of_ascii "options {")).
Eval vm_compute in ("<<<M3850>>>" ++ check (runes_of_ascii "  // c" ++ [6158]%N)).
Eval vm_compute in ("<<<M2439>>>" ++ check (runes_of_ascii "charz")).
Eval vm_compute in ("<<<M3141>>>" ++ check (runes_of_ascii "// c" ++ [8287]%N)).
Eval vm_compute in ("<<<M4457>>>" ++ check (runes_of_ascii "// c")).
Eval vm_compute in ("<<<M2681>>>" ++ check (runes_of_ascii "{ }")).
Eval vm_compute in ("<<<M2484>>>" ++ check (runes_of_ascii "'")).
