From FP Require Import Lexer Parser ShowPT Digest.
From Coq Require Import String List NArith.
Import ListNotations.
Open Scope string_scope.
Set Printing Width 100000000.
Set Printing Depth 100000000.
Definition nl : string := String (Ascii.ascii_of_nat 10) EmptyString.
Definition model_lex (rs : list rune) : string := show_toks (lex rs).
Definition model_parse (rs : list rune) : string :=
  show_pt (match lex rs with Some ts => parse ts | None => None end).
(* coqc is slow at printing long strings: digests first (Digest.v), full texts on demand *)
Definition check (rs : list rune) : string :=
  digest (model_lex rs) ++ " " ++ digest (model_parse rs).
Definition full (rs : list rune) : string := model_lex rs ++ nl ++ model_parse rs.
Definition terms (ts : list tok) (t : pt) : string :=
  digest (show_toks (Some ts)) ++ " " ++ digest (show_pt (Some t)) ++ " " ++ digest (show_pt (parse ts)).
Definition terms_full (ts : list tok) (t : pt) : string :=
  show_toks (Some ts) ++ nl ++ show_pt (Some t) ++ nl ++ show_pt (parse ts).
Eval vm_compute in ("<<<M30>>>" ++ check (runes_of_ascii "// `tick` ""quote"" 'q'
MetaData
    pack {
string MetaDataX , //
zchar[ 65535
] i8i8, pack rootA	`say ""hi""` ,
    string_ Header `crlf
line` ,
int64
string_ ,
/// triple
//	t
char[]
packetx
,	} options
    { trueish
= ' '
; i64_ =
i16 pack = u16
;
len =false }	MetaData i64_{ }")).
Eval vm_compute in ("<<<M62>>>" ++ check (runes_of_ascii "MetaData crc // trailing space 
{}options
{ metadata = 10 ; u = 65535
repeatCount
    = char[ 0123456789 // packet A { u8 x, }
]  }MetaData i8i8{ }
")).
Eval vm_compute in ("<<<T62>>>" ++ terms [mkTok 37 "MetaData" 1 0 false; mkTok 42 "crc" 1 9 false; mkTok 44 "// trailing space " 1 13 true; mkTok 2 "{" 2 0 false; mkTok 3 "}" 2 1 false; mkTok 1 "options" 2 2 false; mkTok 2 "{" 3 0 false; mkTok 42 "metadata" 3 2 false; mkTok 4 "=" 3 11 false; mkTok 30 "10" 3 13 false; mkTok 41 ";" 3 16 false; mkTok 42 "u" 3 18 false; mkTok 4 "=" 3 20 false; mkTok 30 "65535" 3 22 false; mkTok 42 "repeatCount" 4 0 false; mkTok 4 "=" 5 4 false; mkTok 12 "char[" 5 6 false; mkTok 30 "0123456789" 5 12 false; mkTok 44 "// packet A { u8 x, }" 5 23 true; mkTok 13 "]" 6 0 false; mkTok 3 "}" 6 3 false; mkTok 37 "MetaData" 6 4 false; mkTok 42 "i8i8" 6 13 false; mkTok 2 "{" 6 17 false; mkTok 3 "}" 6 19 false; mkTok 0 "<EOF>" 7 0 false] (mkPacket (mkPtok 37 "MetaData" 1 0 0) (Some (mkPtok 3 "}" 6 19 24)) [(DMeta (mkMetaDef (mkSpan (mkPtok 37 "MetaData" 1 0 0) (mkPtok 3 "}" 2 1 4)) (mkPtok 37 "MetaData" 1 0 0) (mkPtok 42 "crc" 1 9 1) (mkPtok 2 "{" 2 0 3) [] (mkPtok 3 "}" 2 1 4))); (DOption (mkOptionDef (mkSpan (mkPtok 1 "options" 2 2 5) (mkPtok 3 "}" 6 3 20)) (mkPtok 1 "options" 2 2 5) (mkPtok 2 "{" 3 0 6) [(mkOptionDecl (mkSpan (mkPtok 42 "metadata" 3 2 7) (mkPtok 41 ";" 3 16 10)) (mkPtok 42 "metadata" 3 2 7) (mkPtok 4 "=" 3 11 8) (VDigits (mkSpan (mkPtok 30 "10" 3 13 9) (mkPtok 30 "10" 3 13 9)) (mkPtok 30 "10" 3 13 9)) (Some (mkPtok 41 ";" 3 16 10))); (mkOptionDecl (mkSpan (mkPtok 42 "u" 3 18 11) (mkPtok 30 "65535" 3 22 13)) (mkPtok 42 "u" 3 18 11) (mkPtok 4 "=" 3 20 12) (VDigits (mkSpan (mkPtok 30 "65535" 3 22 13) (mkPtok 30 "65535" 3 22 13)) (mkPtok 30 "65535" 3 22 13)) None); (mkOptionDecl (mkSpan (mkPtok 42 "repeatCount" 4 0 14) (mkPtok 13 "]" 6 0 19)) (mkPtok 42 "repeatCount" 4 0 14) (mkPtok 4 "=" 5 4 15) (VType (mkSpan (mkPtok 12 "char[" 5 6 16) (mkPtok 13 "]" 6 0 19)) (TyFixed (mkSpan (mkPtok 12 "char[" 5 6 16) (mkPtok 13 "]" 6 0 19)) (mkFixedString (mkSpan (mkPtok 12 "char[" 5 6 16) (mkPtok 13 "]" 6 0 19)) (mkPtok 12 "char[" 5 6 16) (mkPtok 30 "0123456789" 5 12 17) (mkPtok 13 "]" 6 0 19)))) None)] (mkPtok 3 "}" 6 3 20))); (DMeta (mkMetaDef (mkSpan (mkPtok 37 "MetaData" 6 4 21) (mkPtok 3 "}" 6 19 24)) (mkPtok 37 "MetaData" 6 4 21) (mkPtok 42 "i8i8" 6 13 22) (mkPtok 2 "{" 6 17 23) [] (mkPtok 3 "}" 6 19 24)))])).
Eval vm_compute in ("<<<M94>>>" ++ check (runes_of_ascii "packet charz {repeat char[ 3 ]
BodyLength,As stringy, match
    tag as uint8x { //
[ ""it's"" , 007
    , 4294967296
    // c
    ] : uint8x ,
}, // a // b
@tag( 0
)/// triple
repeat char[	7	] u	,}
    // packet A { u8 x, }
    MetaData options1
    { Z9_  _x ,	} packet BodyLength
{} MetaData chars { float Foo,
}")).
Eval vm_compute in ("<<<M126>>>" ++ check (runes_of_ascii "root
    packet stringy{ // trailing space 
@calculatedFrom(
""" ++ [28040; 24687]%N ++ runes_of_ascii """ ) repeat
Foo {float64	i64_
    @lengthOf(Z9_ ),	}
    ,	repeat // `tick` ""quote"" 'q'
lengthOf {
falsey
    { uint16 len//x
,	} , Packet uint8x `a\`,} , @calculatedFrom(""" ++ [128512]%N ++ runes_of_ascii """)  string MetaDataX	`" ++ [233]%N ++ runes_of_ascii "`  ,} packet
chars { @leftPad ( '0'
    )i64 trueish
@lengthOf( Z9_  )
    ,
}
")).
Eval vm_compute in ("<<<M158>>>" ++ check (runes_of_ascii "packet  float{ }
")).
Eval vm_compute in ("<<<M190>>>" ++ check (runes_of_ascii "packet T
{}
")).
Eval vm_compute in ("<<<M222>>>" ++ check (runes_of_ascii "root packet repeatCount
// c
// " ++ [128512]%N ++ runes_of_ascii " emoji
{
msg_type// `tick` ""quote"" 'q'
{
float64 lengthOf
`" ++ [233]%N ++ runes_of_ascii "`,
}
    ,  }")).
Eval vm_compute in ("<<<M254>>>" ++ check (runes_of_ascii "
")).
Eval vm_compute in ("<<<M286>>>" ++ check (runes_of_ascii "packet len
{  @calculatedFrom( ""`tick`"" )	repeat zchar[ 00
    ]chars //	t
`a\`
    ,
u8x
// trailing space 
// a // b
MetaDataX `line1
line2`
    // c
    ,@calculatedFrom( ""a\""b"" ) match
    matchKey as asx {
    [ ""CRC32"" , ""a\""b""
]// " ++ [27880; 37322]%N ++ runes_of_ascii "
:
msg_type
    ,
    }
, i8 string_ @calculatedFrom( ""{,}"" )
    ,@lengthOf(
lengthOf
    //
    ) zchar[42 ]
    _x
// packet A { u8 x, }
/// triple
`line1
line2` ,
    @lengthOf( asx) repeat// `tick` ""quote"" 'q'
int8 Header , repeat crc {
int8 i64_//x
@calculatedFrom( ""{,}"" ) , } ,repeat _x i8i8 `line1
line2` , float64// trailing space 
stringy , MetaDataX { charz
    { int16 matchKey, repeat
    i64_,
    char[ 00] Z9_ `
` ,
    match As
    //x
    as Packet { 3 : crc , [
//	t
// @lengthOf(
1 ,
00
]: Header // " ++ [27880; 37322]%N ++ runes_of_ascii "
,	255 :_x , 42 : body
,	[0	] : chars
    [ 4294967296
, 65535 ] :chars , }
/// triple
// @lengthOf(
,  }
// trailing space 
// @lengthOf(
, } , } MetaData falsey {
char[
255
] u128 , u8 Header`tab	here`
,
string float ,} root packet int { Logon i64_  ,
    @calculatedFrom(
""1""
) zchar { u {
    zchar[
255 ] Pad , } , stringy {
    Pad metadata `u8 x,` ,
}	, repeat	string i8i8, char[]
    As@calculatedFrom(
""\n"" ) ,}
    // " ++ [27880; 37322]%N ++ runes_of_ascii "
    , @lengthOf( packetx // a // b
) @lengthOf(
    i64_ ) body `line1
line2`,@lengthOf(roots)match
// `tick` ""quote"" 'q'
// trailing space 
MetaDataX as uint8x { // `tick` ""quote"" 'q'
[	007
/// triple
// " ++ [27880; 37322]%N ++ runes_of_ascii "
, //x
255
    ,
00]
    :	body// c
, [ 65535 , ""1"",// `tick` ""quote"" 'q'
1  ,
""\n""//	t
, 1	,
    ""CRC32""
    ,
    //	t
    0
    ] :trueish
,
} , uint64 Foo
, zchar {metadata
@lengthOf(Pad)//	t
`crlf
line` ,
    match u as charz { 65535 :
    //x
    int
[ ""1""]
:
// c
//
a1 , [4294967296 , 00,""" ++ [233]%N ++ runes_of_ascii "t" ++ [233]%N ++ runes_of_ascii """ , """ ++ [28040; 24687]%N ++ runes_of_ascii """ ,
    00 ]: matchKey , [ ""a\\"" ] : Logon ,
    },
repeat rootA { int16
Foo @lengthOf( rootA // " ++ [27880; 37322]%N ++ runes_of_ascii "
),options1 `u8 x,` // trailing space 
, }	,  },  match chars as u
// " ++ [128512]%N ++ runes_of_ascii " emoji
// " ++ [128512]%N ++ runes_of_ascii " emoji
{ [//
""it's"" , 007	, """ ++ [233]%N ++ runes_of_ascii "t" ++ [233]%N ++ runes_of_ascii """, ""abc"" ,""\n"" ,
// " ++ [128512]%N ++ runes_of_ascii " emoji
// " ++ [27880; 37322]%N ++ runes_of_ascii "
"""" // c
] :	repeatCount,
65535
    // " ++ [128512]%N ++ runes_of_ascii " emoji
    :Z9_
, [ 007  , ""abc"",""// no comment""
, """ ++ [28040; 24687]%N ++ runes_of_ascii """ ] :  falsey ,
00
:
    string_}
,  char repeatCount , } packet Foo {char[]
a1 @calculatedFrom( """")`line1
line2`
, uint16 // a // b
MetaDataX
    // packet A { u8 x, }
    `say ""hi""`,char[] A ,
// trailing space 
// " ++ [128512]%N ++ runes_of_ascii " emoji
f64 int @lengthOf(Pad  ) , u32
    BodyLength
, float64
trueish @lengthOf(lengthOf )
// `tick` ""quote"" 'q'
// trailing space 
`crlf
line` , @tag(255 ) match Z9_ as tag { [ ""a\""b"",4294967296  ,  ""{,}"" ,""{,}""/// triple
] :	Pad	, 1 : lengthOf ,	0123456789 : msg_type  , ""// no comment"":
    BodyLength, [ ""1"" ] : string_ [3 , 0,1 , 1
, ""\" ++ [233]%N ++ runes_of_ascii """ // " ++ [27880; 37322]%N ++ runes_of_ascii "
,
    """"
    , 00
    // c
    ] // c
: asx} , body `say ""hi""`// `tick` ""quote"" 'q'
,	}options { x	='0'
; u8x // " ++ [128512]%N ++ runes_of_ascii " emoji
= u64;
// c
//	t
string_ = ""a\""b"" }
")).
Eval vm_compute in ("<<<T286>>>" ++ terms [mkTok 35 "packet" 1 0 false; mkTok 42 "len" 1 7 false; mkTok 2 "{" 2 0 false; mkTok 5 "@calculatedFrom(" 2 3 false; mkTok 31 """`tick`""" 2 20 false; mkTok 6 ")" 2 29 false; mkTok 36 "repeat" 2 31 false; mkTok 14 "zchar[" 2 38 false; mkTok 30 "00" 2 45 false; mkTok 13 "]" 3 4 false; mkTok 42 "chars" 3 5 false; mkTok 44 (string_of_bytes [47; 47; 9; 116]%N) 3 11 true; mkTok 43 "`a\`" 4 0 false; mkTok 40 "," 5 4 false; mkTok 42 "u8x" 6 0 false; mkTok 44 "// trailing space " 7 0 true; mkTok 44 "// a // b" 8 0 true; mkTok 42 "MetaDataX" 9 0 false; mkTok 43 (string_of_bytes [96; 108; 105; 110; 101; 49; 10; 108; 105; 110; 101; 50; 96]%N) 9 10 false; mkTok 44 "// c" 11 4 true; mkTok 40 "," 12 4 false; mkTok 5 "@calculatedFrom(" 12 5 false; mkTok 31 """a\""b""" 12 22 false; mkTok 6 ")" 12 29 false; mkTok 38 "match" 12 31 false; mkTok 42 "matchKey" 13 4 false; mkTok 17 "as" 13 13 false; mkTok 42 "asx" 13 16 false; mkTok 2 "{" 13 20 false; mkTok 18 "[" 14 4 false; mkTok 31 """CRC32""" 14 6 false; mkTok 40 "," 14 14 false; mkTok 31 """a\""b""" 14 16 false; mkTok 13 "]" 15 0 false; mkTok 44 (string_of_bytes [47; 47; 32; 230; 179; 168; 233; 135; 138]%N) 15 1 true; mkTok 39 ":" 16 0 false; mkTok 42 "msg_type" 17 0 false; mkTok 40 "," 18 4 false; mkTok 3 "}" 19 4 false; mkTok 40 "," 20 0 false; mkTok 24 "i8" 20 2 false; mkTok 42 "string_" 20 5 false; mkTok 5 "@calculatedFrom(" 20 13 false; mkTok 31 """{,}""" 20 30 false; mkTok 6 ")" 20 36 false; mkTok 40 "," 21 4 false; mkTok 7 "@lengthOf(" 21 5 false; mkTok 42 "lengthOf" 22 0 false; mkTok 44 "//" 23 4 true; mkTok 6 ")" 24 4 false; mkTok 14 "zchar[" 24 6 false; mkTok 30 "42" 24 12 false; mkTok 13 "]" 24 15 false; mkTok 42 "_x" 25 4 false; mkTok 44 "// packet A { u8 x, }" 26 0 true; mkTok 44 "/// triple" 27 0 true; mkTok 43 (string_of_bytes [96; 108; 105; 110; 101; 49; 10; 108; 105; 110; 101; 50; 96]%N) 28 0 false; mkTok 40 "," 29 7 false; mkTok 7 "@lengthOf(" 30 4 false; mkTok 42 "asx" 30 15 false; mkTok 6 ")" 30 18 false; mkTok 36 "repeat" 30 20 false; mkTok 44 "// `tick` ""quote"" 'q'" 30 26 true; mkTok 24 "int8" 31 0 false; mkTok 42 "Header" 31 5 false; mkTok 40 "," 31 12 false; mkTok 36 "repeat" 31 14 false; mkTok 42 "crc" 31 21 false; mkTok 2 "{" 31 25 false; mkTok 24 "int8" 32 0 false; mkTok 42 "i64_" 32 5 false; mkTok 44 "//x" 32 9 true; mkTok 5 "@calculatedFrom(" 33 0 false; mkTok 31 """{,}""" 33 17 false; mkTok 6 ")" 33 23 false; mkTok 40 "," 33 25 false; mkTok 3 "}" 33 27 false; mkTok 40 "," 33 29 false; mkTok 36 "repeat" 33 30 false; mkTok 42 "_x" 33 37 false; mkTok 42 "i8i8" 33 40 false; mkTok 43 (string_of_bytes [96; 108; 105; 110; 101; 49; 10; 108; 105; 110; 101; 50; 96]%N) 33 45 false; mkTok 40 "," 34 7 false; mkTok 29 "float64" 34 9 false; mkTok 44 "// trailing space " 34 16 true; mkTok 42 "stringy" 35 0 false; mkTok 40 "," 35 8 false; mkTok 42 "MetaDataX" 35 10 false; mkTok 2 "{" 35 20 false; mkTok 42 "charz" 35 22 false; mkTok 2 "{" 36 4 false; mkTok 25 "int16" 36 6 false; mkTok 42 "matchKey" 36 12 false; mkTok 40 "," 36 20 false; mkTok 36 "repeat" 36 22 false; mkTok 42 "i64_" 37 4 false; mkTok 40 "," 37 8 false; mkTok 12 "char[" 38 4 false; mkTok 30 "00" 38 10 false; mkTok 13 "]" 38 12 false; mkTok 42 "Z9_" 38 14 false; mkTok 43 (string_of_bytes [96; 10; 96]%N) 38 18 false; mkTok 40 "," 39 2 false; mkTok 38 "match" 40 4 false; mkTok 42 "As" 40 10 false; mkTok 44 "//x" 41 4 true; mkTok 17 "as" 42 4 false; mkTok 42 "Packet" 42 7 false; mkTok 2 "{" 42 14 false; mkTok 30 "3" 42 16 false; mkTok 39 ":" 42 18 false; mkTok 42 "crc" 42 20 false; mkTok 40 "," 42 24 false; mkTok 18 "[" 42 26 false; mkTok 44 (string_of_bytes [47; 47; 9; 116]%N) 43 0 true; mkTok 44 "// @lengthOf(" 44 0 true; mkTok 30 "1" 45 0 false; mkTok 40 "," 45 2 false; mkTok 30 "00" 46 0 false; mkTok 13 "]" 47 0 false; mkTok 39 ":" 47 1 false; mkTok 42 "Header" 47 3 false; mkTok 44 (string_of_bytes [47; 47; 32; 230; 179; 168; 233; 135; 138]%N) 47 10 true; mkTok 40 "," 48 0 false; mkTok 30 "255" 48 2 false; mkTok 39 ":" 48 6 false; mkTok 42 "_x" 48 7 false; mkTok 40 "," 48 10 false; mkTok 30 "42" 48 12 false; mkTok 39 ":" 48 15 false; mkTok 42 "body" 48 17 false; mkTok 40 "," 49 0 false; mkTok 18 "[" 49 2 false; mkTok 30 "0" 49 3 false; mkTok 13 "]" 49 5 false; mkTok 39 ":" 49 7 false; mkTok 42 "chars" 49 9 false; mkTok 18 "[" 50 4 false; mkTok 30 "4294967296" 50 6 false; mkTok 40 "," 51 0 false; mkTok 30 "65535" 51 2 false; mkTok 13 "]" 51 8 false; mkTok 39 ":" 51 10 false; mkTok 42 "chars" 51 11 false; mkTok 40 "," 51 17 false; mkTok 3 "}" 51 19 false; mkTok 44 "/// triple" 52 0 true; mkTok 44 "// @lengthOf(" 53 0 true; mkTok 40 "," 54 0 false; mkTok 3 "}" 54 3 false; mkTok 44 "// trailing space " 55 0 true; mkTok 44 "// @lengthOf(" 56 0 true; mkTok 40 "," 57 0 false; mkTok 3 "}" 57 2 false; mkTok 40 "," 57 4 false; mkTok 3 "}" 57 6 false; mkTok 37 "MetaData" 57 8 false; mkTok 42 "falsey" 57 17 false; mkTok 2 "{" 57 24 false; mkTok 12 "char[" 58 0 false; mkTok 30 "255" 59 0 false; mkTok 13 "]" 60 0 false; mkTok 42 "u128" 60 2 false; mkTok 40 "," 60 7 false; mkTok 20 "u8" 60 9 false; mkTok 42 "Header" 60 12 false; mkTok 43 (string_of_bytes [96; 116; 97; 98; 9; 104; 101; 114; 101; 96]%N) 60 18 false; mkTok 40 "," 61 0 false; mkTok 15 "string" 62 0 false; mkTok 42 "float" 62 7 false; mkTok 40 "," 62 13 false; mkTok 3 "}" 62 14 false; mkTok 34 "root" 62 16 false; mkTok 35 "packet" 62 21 false; mkTok 42 "int" 62 28 false; mkTok 2 "{" 62 32 false; mkTok 42 "Logon" 62 34 false; mkTok 42 "i64_" 62 40 false; mkTok 40 "," 62 46 false; mkTok 5 "@calculatedFrom(" 63 4 false; mkTok 31 """1""" 64 0 false; mkTok 6 ")" 65 0 false; mkTok 42 "zchar" 65 2 false; mkTok 2 "{" 65 8 false; mkTok 42 "u" 65 10 false; mkTok 2 "{" 65 12 false; mkTok 14 "zchar[" 66 4 false; mkTok 30 "255" 67 0 false; mkTok 13 "]" 67 4 false; mkTok 42 "Pad" 67 6 false; mkTok 40 "," 67 10 false; mkTok 3 "}" 67 12 false; mkTok 40 "," 67 14 false; mkTok 42 "stringy" 67 16 false; mkTok 2 "{" 67 24 false; mkTok 42 "Pad" 68 4 false; mkTok 42 "metadata" 68 8 false; mkTok 43 "`u8 x,`" 68 17 false; mkTok 40 "," 68 25 false; mkTok 3 "}" 69 0 false; mkTok 40 "," 69 2 false; mkTok 36 "repeat" 69 4 false; mkTok 15 "string" 69 11 false; mkTok 42 "i8i8" 69 18 false; mkTok 40 "," 69 22 false; mkTok 16 "char[]" 69 24 false; mkTok 42 "As" 70 4 false; mkTok 5 "@calculatedFrom(" 70 6 false; mkTok 31 """\n""" 71 0 false; mkTok 6 ")" 71 5 false; mkTok 40 "," 71 7 false; mkTok 3 "}" 71 8 false; mkTok 44 (string_of_bytes [47; 47; 32; 230; 179; 168; 233; 135; 138]%N) 72 4 true; mkTok 40 "," 73 4 false; mkTok 7 "@lengthOf(" 73 6 false; mkTok 42 "packetx" 73 17 false; mkTok 44 "// a // b" 73 25 true; mkTok 6 ")" 74 0 false; mkTok 7 "@lengthOf(" 74 2 false; mkTok 42 "i64_" 75 4 false; mkTok 6 ")" 75 9 false; mkTok 42 "body" 75 11 false; mkTok 43 (string_of_bytes [96; 108; 105; 110; 101; 49; 10; 108; 105; 110; 101; 50; 96]%N) 75 16 false; mkTok 40 "," 76 6 false; mkTok 7 "@lengthOf(" 76 7 false; mkTok 42 "roots" 76 17 false; mkTok 6 ")" 76 22 false; mkTok 38 "match" 76 23 false; mkTok 44 "// `tick` ""quote"" 'q'" 77 0 true; mkTok 44 "// trailing space " 78 0 true; mkTok 42 "MetaDataX" 79 0 false; mkTok 17 "as" 79 10 false; mkTok 42 "uint8x" 79 13 false; mkTok 2 "{" 79 20 false; mkTok 44 "// `tick` ""quote"" 'q'" 79 22 true; mkTok 18 "[" 80 0 false; mkTok 30 "007" 80 2 false; mkTok 44 "/// triple" 81 0 true; mkTok 44 (string_of_bytes [47; 47; 32; 230; 179; 168; 233; 135; 138]%N) 82 0 true; mkTok 40 "," 83 0 false; mkTok 44 "//x" 83 2 true; mkTok 30 "255" 84 0 false; mkTok 40 "," 85 4 false; mkTok 30 "00" 86 0 false; mkTok 13 "]" 86 2 false; mkTok 39 ":" 87 4 false; mkTok 42 "body" 87 6 false; mkTok 44 "// c" 87 10 true; mkTok 40 "," 88 0 false; mkTok 18 "[" 88 2 false; mkTok 30 "65535" 88 4 false; mkTok 40 "," 88 10 false; mkTok 31 """1""" 88 12 false; mkTok 40 "," 88 15 false; mkTok 44 "// `tick` ""quote"" 'q'" 88 16 true; mkTok 30 "1" 89 0 false; mkTok 40 "," 89 3 false; mkTok 31 """\n""" 90 0 false; mkTok 44 (string_of_bytes [47; 47; 9; 116]%N) 90 4 true; mkTok 40 "," 91 0 false; mkTok 30 "1" 91 2 false; mkTok 40 "," 91 4 false; mkTok 31 """CRC32""" 92 4 false; mkTok 40 "," 93 4 false; mkTok 44 (string_of_bytes [47; 47; 9; 116]%N) 94 4 true; mkTok 30 "0" 95 4 false; mkTok 13 "]" 96 4 false; mkTok 39 ":" 96 6 false; mkTok 42 "trueish" 96 7 false; mkTok 40 "," 97 0 false; mkTok 3 "}" 98 0 false; mkTok 40 "," 98 2 false; mkTok 23 "uint64" 98 4 false; mkTok 42 "Foo" 98 11 false; mkTok 40 "," 99 0 false; mkTok 42 "zchar" 99 2 false; mkTok 2 "{" 99 8 false; mkTok 42 "metadata" 99 9 false; mkTok 7 "@lengthOf(" 100 0 false; mkTok 42 "Pad" 100 10 false; mkTok 6 ")" 100 13 false; mkTok 44 (string_of_bytes [47; 47; 9; 116]%N) 100 14 true; mkTok 43 (string_of_bytes [96; 99; 114; 108; 102; 13; 10; 108; 105; 110; 101; 96]%N) 101 0 false; mkTok 40 "," 102 6 false; mkTok 38 "match" 103 4 false; mkTok 42 "u" 103 10 false; mkTok 17 "as" 103 12 false; mkTok 42 "charz" 103 15 false; mkTok 2 "{" 103 21 false; mkTok 30 "65535" 103 23 false; mkTok 39 ":" 103 29 false; mkTok 44 "//x" 104 4 true; mkTok 42 "int" 105 4 false; mkTok 18 "[" 106 0 false; mkTok 31 """1""" 106 2 false; mkTok 13 "]" 106 5 false; mkTok 39 ":" 107 0 false; mkTok 44 "// c" 108 0 true; mkTok 44 "//" 109 0 true; mkTok 42 "a1" 110 0 false; mkTok 40 "," 110 3 false; mkTok 18 "[" 110 5 false; mkTok 30 "4294967296" 110 6 false; mkTok 40 "," 110 17 false; mkTok 30 "00" 110 19 false; mkTok 40 "," 110 21 false; mkTok 31 (string_of_bytes [34; 195; 169; 116; 195; 169; 34]%N) 110 22 false; mkTok 40 "," 110 28 false; mkTok 31 (string_of_bytes [34; 230; 182; 136; 230; 129; 175; 34]%N) 110 30 false; mkTok 40 "," 110 35 false; mkTok 30 "00" 111 4 false; mkTok 13 "]" 111 7 false; mkTok 39 ":" 111 8 false; mkTok 42 "matchKey" 111 10 false; mkTok 40 "," 111 19 false; mkTok 18 "[" 111 21 false; mkTok 31 """a\\""" 111 23 false; mkTok 13 "]" 111 29 false; mkTok 39 ":" 111 31 false; mkTok 42 "Logon" 111 33 false; mkTok 40 "," 111 39 false; mkTok 3 "}" 112 4 false; mkTok 40 "," 112 5 false; mkTok 36 "repeat" 113 0 false; mkTok 42 "rootA" 113 7 false; mkTok 2 "{" 113 13 false; mkTok 25 "int16" 113 15 false; mkTok 42 "Foo" 114 0 false; mkTok 7 "@lengthOf(" 114 4 false; mkTok 42 "rootA" 114 15 false; mkTok 44 (string_of_bytes [47; 47; 32; 230; 179; 168; 233; 135; 138]%N) 114 21 true; mkTok 6 ")" 115 0 false; mkTok 40 "," 115 1 false; mkTok 42 "options1" 115 2 false; mkTok 43 "`u8 x,`" 115 11 false; mkTok 44 "// trailing space " 115 19 true; mkTok 40 "," 116 0 false; mkTok 3 "}" 116 2 false; mkTok 40 "," 116 4 false; mkTok 3 "}" 116 7 false; mkTok 40 "," 116 8 false; mkTok 38 "match" 116 11 false; mkTok 42 "chars" 116 17 false; mkTok 17 "as" 116 23 false; mkTok 42 "u" 116 26 false; mkTok 44 (string_of_bytes [47; 47; 32; 240; 159; 152; 128; 32; 101; 109; 111; 106; 105]%N) 117 0 true; mkTok 44 (string_of_bytes [47; 47; 32; 240; 159; 152; 128; 32; 101; 109; 111; 106; 105]%N) 118 0 true; mkTok 2 "{" 119 0 false; mkTok 18 "[" 119 2 false; mkTok 44 "//" 119 3 true; mkTok 31 """it's""" 120 0 false; mkTok 40 "," 120 7 false; mkTok 30 "007" 120 9 false; mkTok 40 "," 120 13 false; mkTok 31 (string_of_bytes [34; 195; 169; 116; 195; 169; 34]%N) 120 15 false; mkTok 40 "," 120 20 false; mkTok 31 """abc""" 120 22 false; mkTok 40 "," 120 28 false; mkTok 31 """\n""" 120 29 false; mkTok 40 "," 120 34 false; mkTok 44 (string_of_bytes [47; 47; 32; 240; 159; 152; 128; 32; 101; 109; 111; 106; 105]%N) 121 0 true; mkTok 44 (string_of_bytes [47; 47; 32; 230; 179; 168; 233; 135; 138]%N) 122 0 true; mkTok 31 """""" 123 0 false; mkTok 44 "// c" 123 3 true; mkTok 13 "]" 124 0 false; mkTok 39 ":" 124 2 false; mkTok 42 "repeatCount" 124 4 false; mkTok 40 "," 124 15 false; mkTok 30 "65535" 125 0 false; mkTok 44 (string_of_bytes [47; 47; 32; 240; 159; 152; 128; 32; 101; 109; 111; 106; 105]%N) 126 4 true; mkTok 39 ":" 127 4 false; mkTok 42 "Z9_" 127 5 false; mkTok 40 "," 128 0 false; mkTok 18 "[" 128 2 false; mkTok 30 "007" 128 4 false; mkTok 40 "," 128 9 false; mkTok 31 """abc""" 128 11 false; mkTok 40 "," 128 16 false; mkTok 31 """// no comment""" 128 17 false; mkTok 40 "," 129 0 false; mkTok 31 (string_of_bytes [34; 230; 182; 136; 230; 129; 175; 34]%N) 129 2 false; mkTok 13 "]" 129 7 false; mkTok 39 ":" 129 9 false; mkTok 42 "falsey" 129 12 false; mkTok 40 "," 129 19 false; mkTok 30 "00" 130 0 false; mkTok 39 ":" 131 0 false; mkTok 42 "string_" 132 4 false; mkTok 3 "}" 132 11 false; mkTok 40 "," 133 0 false; mkTok 19 "char" 133 3 false; mkTok 42 "repeatCount" 133 8 false; mkTok 40 "," 133 20 false; mkTok 3 "}" 133 22 false; mkTok 35 "packet" 133 24 false; mkTok 42 "Foo" 133 31 false; mkTok 2 "{" 133 35 false; mkTok 16 "char[]" 133 36 false; mkTok 42 "a1" 134 0 false; mkTok 5 "@calculatedFrom(" 134 3 false; mkTok 31 """""" 134 20 false; mkTok 6 ")" 134 22 false; mkTok 43 (string_of_bytes [96; 108; 105; 110; 101; 49; 10; 108; 105; 110; 101; 50; 96]%N) 134 23 false; mkTok 40 "," 136 0 false; mkTok 21 "uint16" 136 2 false; mkTok 44 "// a // b" 136 9 true; mkTok 42 "MetaDataX" 137 0 false; mkTok 44 "// packet A { u8 x, }" 138 4 true; mkTok 43 "`say ""hi""`" 139 4 false; mkTok 40 "," 139 14 false; mkTok 16 "char[]" 139 15 false; mkTok 42 "A" 139 22 false; mkTok 40 "," 139 24 false; mkTok 44 "// trailing space " 140 0 true; mkTok 44 (string_of_bytes [47; 47; 32; 240; 159; 152; 128; 32; 101; 109; 111; 106; 105]%N) 141 0 true; mkTok 29 "f64" 142 0 false; mkTok 42 "int" 142 4 false; mkTok 7 "@lengthOf(" 142 8 false; mkTok 42 "Pad" 142 18 false; mkTok 6 ")" 142 23 false; mkTok 40 "," 142 25 false; mkTok 22 "u32" 142 27 false; mkTok 42 "BodyLength" 143 4 false; mkTok 40 "," 144 0 false; mkTok 29 "float64" 144 2 false; mkTok 42 "trueish" 145 0 false; mkTok 7 "@lengthOf(" 145 8 false; mkTok 42 "lengthOf" 145 18 false; mkTok 6 ")" 145 27 false; mkTok 44 "// `tick` ""quote"" 'q'" 146 0 true; mkTok 44 "// trailing space " 147 0 true; mkTok 43 (string_of_bytes [96; 99; 114; 108; 102; 13; 10; 108; 105; 110; 101; 96]%N) 148 0 false; mkTok 40 "," 149 6 false; mkTok 9 "@tag(" 149 8 false; mkTok 30 "255" 149 13 false; mkTok 6 ")" 149 17 false; mkTok 38 "match" 149 19 false; mkTok 42 "Z9_" 149 25 false; mkTok 17 "as" 149 29 false; mkTok 42 "tag" 149 32 false; mkTok 2 "{" 149 36 false; mkTok 18 "[" 149 38 false; mkTok 31 """a\""b""" 149 40 false; mkTok 40 "," 149 46 false; mkTok 30 "4294967296" 149 47 false; mkTok 40 "," 149 59 false; mkTok 31 """{,}""" 149 62 false; mkTok 40 "," 149 68 false; mkTok 31 """{,}""" 149 69 false; mkTok 44 "/// triple" 149 74 true; mkTok 13 "]" 150 0 false; mkTok 39 ":" 150 2 false; mkTok 42 "Pad" 150 4 false; mkTok 40 "," 150 8 false; mkTok 30 "1" 150 10 false; mkTok 39 ":" 150 12 false; mkTok 42 "lengthOf" 150 14 false; mkTok 40 "," 150 23 false; mkTok 30 "0123456789" 150 25 false; mkTok 39 ":" 150 36 false; mkTok 42 "msg_type" 150 38 false; mkTok 40 "," 150 48 false; mkTok 31 """// no comment""" 150 50 false; mkTok 39 ":" 150 65 false; mkTok 42 "BodyLength" 151 4 false; mkTok 40 "," 151 14 false; mkTok 18 "[" 151 16 false; mkTok 31 """1""" 151 18 false; mkTok 13 "]" 151 22 false; mkTok 39 ":" 151 24 false; mkTok 42 "string_" 151 26 false; mkTok 18 "[" 151 34 false; mkTok 30 "3" 151 35 false; mkTok 40 "," 151 37 false; mkTok 30 "0" 151 39 false; mkTok 40 "," 151 40 false; mkTok 30 "1" 151 41 false; mkTok 40 "," 151 43 false; mkTok 30 "1" 151 45 false; mkTok 40 "," 152 0 false; mkTok 31 (string_of_bytes [34; 92; 195; 169; 34]%N) 152 2 false; mkTok 44 (string_of_bytes [47; 47; 32; 230; 179; 168; 233; 135; 138]%N) 152 7 true; mkTok 40 "," 153 0 false; mkTok 31 """""" 154 4 false; mkTok 40 "," 155 4 false; mkTok 30 "00" 155 6 false; mkTok 44 "// c" 156 4 true; mkTok 13 "]" 157 4 false; mkTok 44 "// c" 157 6 true; mkTok 39 ":" 158 0 false; mkTok 42 "asx" 158 2 false; mkTok 3 "}" 158 5 false; mkTok 40 "," 158 7 false; mkTok 42 "body" 158 9 false; mkTok 43 "`say ""hi""`" 158 14 false; mkTok 44 "// `tick` ""quote"" 'q'" 158 24 true; mkTok 40 "," 159 0 false; mkTok 3 "}" 159 2 false; mkTok 1 "options" 159 3 false; mkTok 2 "{" 159 11 false; mkTok 42 "x" 159 13 false; mkTok 4 "=" 159 15 false; mkTok 33 "'0'" 159 16 false; mkTok 41 ";" 160 0 false; mkTok 42 "u8x" 160 2 false; mkTok 44 (string_of_bytes [47; 47; 32; 240; 159; 152; 128; 32; 101; 109; 111; 106; 105]%N) 160 6 true; mkTok 4 "=" 161 0 false; mkTok 23 "u64" 161 2 false; mkTok 41 ";" 161 5 false; mkTok 44 "// c" 162 0 true; mkTok 44 (string_of_bytes [47; 47; 9; 116]%N) 163 0 true; mkTok 42 "string_" 164 0 false; mkTok 4 "=" 164 8 false; mkTok 31 """a\""b""" 164 10 false; mkTok 3 "}" 164 17 false; mkTok 0 "<EOF>" 165 0 false] (mkPacket (mkPtok 35 "packet" 1 0 0) (Some (mkPtok 3 "}" 164 17 514)) [(DPacket (mkPacketDef (mkSpan (mkPtok 35 "packet" 1 0 0) (mkPtok 3 "}" 57 6 155)) None (mkPtok 35 "packet" 1 0 0) (mkPtok 42 "len" 1 7 1) (mkPtok 2 "{" 2 0 2) [(mkFieldWithAttr (mkSpan (mkPtok 5 "@calculatedFrom(" 2 3 3) (mkPtok 40 "," 5 4 13)) [(FACalculatedFrom (mkSpan (mkPtok 5 "@calculatedFrom(" 2 3 3) (mkPtok 6 ")" 2 29 5)) (mkCalculatedFrom (mkSpan (mkPtok 5 "@calculatedFrom(" 2 3 3) (mkPtok 6 ")" 2 29 5)) (mkPtok 5 "@calculatedFrom(" 2 3 3) (mkPtok 31 """`tick`""" 2 20 4) (mkPtok 6 ")" 2 29 5)))] (MetaField (mkSpan (mkPtok 36 "repeat" 2 31 6) (mkPtok 40 "," 5 4 13)) (Some (mkPtok 36 "repeat" 2 31 6)) (mkMetaDecl (mkSpan (mkPtok 14 "zchar[" 2 38 7) (mkPtok 40 "," 5 4 13)) (TyFixed (mkSpan (mkPtok 14 "zchar[" 2 38 7) (mkPtok 13 "]" 3 4 9)) (mkFixedString (mkSpan (mkPtok 14 "zchar[" 2 38 7) (mkPtok 13 "]" 3 4 9)) (mkPtok 14 "zchar[" 2 38 7) (mkPtok 30 "00" 2 45 8) (mkPtok 13 "]" 3 4 9))) (mkPtok 42 "chars" 3 5 10) (Some (mkPtok 43 "`a\`" 4 0 12)) (mkPtok 40 "," 5 4 13)))); (mkFieldWithAttr (mkSpan (mkPtok 42 "u8x" 6 0 14) (mkPtok 40 "," 12 4 20)) [] (ObjectField (mkSpan (mkPtok 42 "u8x" 6 0 14) (mkPtok 40 "," 12 4 20)) None (mkPtok 42 "u8x" 6 0 14) (Some (mkPtok 42 "MetaDataX" 9 0 17)) (Some (mkPtok 43 (string_of_bytes [96; 108; 105; 110; 101; 49; 10; 108; 105; 110; 101; 50; 96]%N) 9 10 18)) (mkPtok 40 "," 12 4 20))); (mkFieldWithAttr (mkSpan (mkPtok 5 "@calculatedFrom(" 12 5 21) (mkPtok 40 "," 20 0 39)) [(FACalculatedFrom (mkSpan (mkPtok 5 "@calculatedFrom(" 12 5 21) (mkPtok 6 ")" 12 29 23)) (mkCalculatedFrom (mkSpan (mkPtok 5 "@calculatedFrom(" 12 5 21) (mkPtok 6 ")" 12 29 23)) (mkPtok 5 "@calculatedFrom(" 12 5 21) (mkPtok 31 """a\""b""" 12 22 22) (mkPtok 6 ")" 12 29 23)))] (MatchField (mkSpan (mkPtok 38 "match" 12 31 24) (mkPtok 40 "," 20 0 39)) (mkMatchFieldDecl (mkSpan (mkPtok 38 "match" 12 31 24) (mkPtok 3 "}" 19 4 38)) (mkPtok 38 "match" 12 31 24) (mkPtok 42 "matchKey" 13 4 25) (mkPtok 17 "as" 13 13 26) (mkPtok 42 "asx" 13 16 27) (mkPtok 2 "{" 13 20 28) [(mkMatchPair (mkSpan (mkPtok 18 "[" 14 4 29) (mkPtok 40 "," 18 4 37)) (MKList (mkKeyList (mkSpan (mkPtok 18 "[" 14 4 29) (mkPtok 13 "]" 15 0 33)) (mkPtok 18 "[" 14 4 29) (mkPtok 31 """CRC32""" 14 6 30) [((mkPtok 40 "," 14 14 31), (mkPtok 31 """a\""b""" 14 16 32))] (mkPtok 13 "]" 15 0 33))) (mkPtok 39 ":" 16 0 35) (mkPtok 42 "msg_type" 17 0 36) (Some (mkPtok 40 "," 18 4 37)))] (mkPtok 3 "}" 19 4 38)) (mkPtok 40 "," 20 0 39))); (mkFieldWithAttr (mkSpan (mkPtok 24 "i8" 20 2 40) (mkPtok 40 "," 21 4 45)) [] (CheckSumField (mkSpan (mkPtok 24 "i8" 20 2 40) (mkPtok 40 "," 21 4 45)) (mkChecksumFieldDecl (mkSpan (mkPtok 24 "i8" 20 2 40) (mkPtok 40 "," 21 4 45)) (Some (TyBasic (mkSpan (mkPtok 24 "i8" 20 2 40) (mkPtok 24 "i8" 20 2 40)) (mkBasicType (mkSpan (mkPtok 24 "i8" 20 2 40) (mkPtok 24 "i8" 20 2 40)) (mkPtok 24 "i8" 20 2 40)))) (mkPtok 42 "string_" 20 5 41) (mkCalculatedFrom (mkSpan (mkPtok 5 "@calculatedFrom(" 20 13 42) (mkPtok 6 ")" 20 36 44)) (mkPtok 5 "@calculatedFrom(" 20 13 42) (mkPtok 31 """{,}""" 20 30 43) (mkPtok 6 ")" 20 36 44)) None (mkPtok 40 "," 21 4 45)))); (mkFieldWithAttr (mkSpan (mkPtok 7 "@lengthOf(" 21 5 46) (mkPtok 40 "," 29 7 57)) [(FALengthOf (mkSpan (mkPtok 7 "@lengthOf(" 21 5 46) (mkPtok 6 ")" 24 4 49)) (mkLengthOf (mkSpan (mkPtok 7 "@lengthOf(" 21 5 46) (mkPtok 6 ")" 24 4 49)) (mkPtok 7 "@lengthOf(" 21 5 46) (mkPtok 42 "lengthOf" 22 0 47) (mkPtok 6 ")" 24 4 49)))] (MetaField (mkSpan (mkPtok 14 "zchar[" 24 6 50) (mkPtok 40 "," 29 7 57)) None (mkMetaDecl (mkSpan (mkPtok 14 "zchar[" 24 6 50) (mkPtok 40 "," 29 7 57)) (TyFixed (mkSpan (mkPtok 14 "zchar[" 24 6 50) (mkPtok 13 "]" 24 15 52)) (mkFixedString (mkSpan (mkPtok 14 "zchar[" 24 6 50) (mkPtok 13 "]" 24 15 52)) (mkPtok 14 "zchar[" 24 6 50) (mkPtok 30 "42" 24 12 51) (mkPtok 13 "]" 24 15 52))) (mkPtok 42 "_x" 25 4 53) (Some (mkPtok 43 (string_of_bytes [96; 108; 105; 110; 101; 49; 10; 108; 105; 110; 101; 50; 96]%N) 28 0 56)) (mkPtok 40 "," 29 7 57)))); (mkFieldWithAttr (mkSpan (mkPtok 7 "@lengthOf(" 30 4 58) (mkPtok 40 "," 31 12 65)) [(FALengthOf (mkSpan (mkPtok 7 "@lengthOf(" 30 4 58) (mkPtok 6 ")" 30 18 60)) (mkLengthOf (mkSpan (mkPtok 7 "@lengthOf(" 30 4 58) (mkPtok 6 ")" 30 18 60)) (mkPtok 7 "@lengthOf(" 30 4 58) (mkPtok 42 "asx" 30 15 59) (mkPtok 6 ")" 30 18 60)))] (MetaField (mkSpan (mkPtok 36 "repeat" 30 20 61) (mkPtok 40 "," 31 12 65)) (Some (mkPtok 36 "repeat" 30 20 61)) (mkMetaDecl (mkSpan (mkPtok 24 "int8" 31 0 63) (mkPtok 40 "," 31 12 65)) (TyBasic (mkSpan (mkPtok 24 "int8" 31 0 63) (mkPtok 24 "int8" 31 0 63)) (mkBasicType (mkSpan (mkPtok 24 "int8" 31 0 63) (mkPtok 24 "int8" 31 0 63)) (mkPtok 24 "int8" 31 0 63))) (mkPtok 42 "Header" 31 5 64) None (mkPtok 40 "," 31 12 65)))); (mkFieldWithAttr (mkSpan (mkPtok 36 "repeat" 31 14 66) (mkPtok 40 "," 33 29 77)) [] (InerObjectField (mkSpan (mkPtok 36 "repeat" 31 14 66) (mkPtok 40 "," 33 29 77)) (Some (mkPtok 36 "repeat" 31 14 66)) (InerObjectDecl (mkSpan (mkPtok 42 "crc" 31 21 67) (mkPtok 3 "}" 33 27 76)) (mkPtok 42 "crc" 31 21 67) (mkPtok 2 "{" 31 25 68) [(CheckSumField (mkSpan (mkPtok 24 "int8" 32 0 69) (mkPtok 40 "," 33 25 75)) (mkChecksumFieldDecl (mkSpan (mkPtok 24 "int8" 32 0 69) (mkPtok 40 "," 33 25 75)) (Some (TyBasic (mkSpan (mkPtok 24 "int8" 32 0 69) (mkPtok 24 "int8" 32 0 69)) (mkBasicType (mkSpan (mkPtok 24 "int8" 32 0 69) (mkPtok 24 "int8" 32 0 69)) (mkPtok 24 "int8" 32 0 69)))) (mkPtok 42 "i64_" 32 5 70) (mkCalculatedFrom (mkSpan (mkPtok 5 "@calculatedFrom(" 33 0 72) (mkPtok 6 ")" 33 23 74)) (mkPtok 5 "@calculatedFrom(" 33 0 72) (mkPtok 31 """{,}""" 33 17 73) (mkPtok 6 ")" 33 23 74)) None (mkPtok 40 "," 33 25 75)))] (mkPtok 3 "}" 33 27 76)) (mkPtok 40 "," 33 29 77))); (mkFieldWithAttr (mkSpan (mkPtok 36 "repeat" 33 30 78) (mkPtok 40 "," 34 7 82)) [] (ObjectField (mkSpan (mkPtok 36 "repeat" 33 30 78) (mkPtok 40 "," 34 7 82)) (Some (mkPtok 36 "repeat" 33 30 78)) (mkPtok 42 "_x" 33 37 79) (Some (mkPtok 42 "i8i8" 33 40 80)) (Some (mkPtok 43 (string_of_bytes [96; 108; 105; 110; 101; 49; 10; 108; 105; 110; 101; 50; 96]%N) 33 45 81)) (mkPtok 40 "," 34 7 82))); (mkFieldWithAttr (mkSpan (mkPtok 29 "float64" 34 9 83) (mkPtok 40 "," 35 8 86)) [] (MetaField (mkSpan (mkPtok 29 "float64" 34 9 83) (mkPtok 40 "," 35 8 86)) None (mkMetaDecl (mkSpan (mkPtok 29 "float64" 34 9 83) (mkPtok 40 "," 35 8 86)) (TyBasic (mkSpan (mkPtok 29 "float64" 34 9 83) (mkPtok 29 "float64" 34 9 83)) (mkBasicType (mkSpan (mkPtok 29 "float64" 34 9 83) (mkPtok 29 "float64" 34 9 83)) (mkPtok 29 "float64" 34 9 83))) (mkPtok 42 "stringy" 35 0 85) None (mkPtok 40 "," 35 8 86)))); (mkFieldWithAttr (mkSpan (mkPtok 42 "MetaDataX" 35 10 87) (mkPtok 40 "," 57 4 154)) [] (InerObjectField (mkSpan (mkPtok 42 "MetaDataX" 35 10 87) (mkPtok 40 "," 57 4 154)) None (InerObjectDecl (mkSpan (mkPtok 42 "MetaDataX" 35 10 87) (mkPtok 3 "}" 57 2 153)) (mkPtok 42 "MetaDataX" 35 10 87) (mkPtok 2 "{" 35 20 88) [(InerObjectField (mkSpan (mkPtok 42 "charz" 35 22 89) (mkPtok 40 "," 57 0 152)) None (InerObjectDecl (mkSpan (mkPtok 42 "charz" 35 22 89) (mkPtok 3 "}" 54 3 149)) (mkPtok 42 "charz" 35 22 89) (mkPtok 2 "{" 36 4 90) [(MetaField (mkSpan (mkPtok 25 "int16" 36 6 91) (mkPtok 40 "," 36 20 93)) None (mkMetaDecl (mkSpan (mkPtok 25 "int16" 36 6 91) (mkPtok 40 "," 36 20 93)) (TyBasic (mkSpan (mkPtok 25 "int16" 36 6 91) (mkPtok 25 "int16" 36 6 91)) (mkBasicType (mkSpan (mkPtok 25 "int16" 36 6 91) (mkPtok 25 "int16" 36 6 91)) (mkPtok 25 "int16" 36 6 91))) (mkPtok 42 "matchKey" 36 12 92) None (mkPtok 40 "," 36 20 93))); (ObjectField (mkSpan (mkPtok 36 "repeat" 36 22 94) (mkPtok 40 "," 37 8 96)) (Some (mkPtok 36 "repeat" 36 22 94)) (mkPtok 42 "i64_" 37 4 95) None None (mkPtok 40 "," 37 8 96)); (MetaField (mkSpan (mkPtok 12 "char[" 38 4 97) (mkPtok 40 "," 39 2 102)) None (mkMetaDecl (mkSpan (mkPtok 12 "char[" 38 4 97) (mkPtok 40 "," 39 2 102)) (TyFixed (mkSpan (mkPtok 12 "char[" 38 4 97) (mkPtok 13 "]" 38 12 99)) (mkFixedString (mkSpan (mkPtok 12 "char[" 38 4 97) (mkPtok 13 "]" 38 12 99)) (mkPtok 12 "char[" 38 4 97) (mkPtok 30 "00" 38 10 98) (mkPtok 13 "]" 38 12 99))) (mkPtok 42 "Z9_" 38 14 100) (Some (mkPtok 43 (string_of_bytes [96; 10; 96]%N) 38 18 101)) (mkPtok 40 "," 39 2 102))); (MatchField (mkSpan (mkPtok 38 "match" 40 4 103) (mkPtok 40 "," 54 0 148)) (mkMatchFieldDecl (mkSpan (mkPtok 38 "match" 40 4 103) (mkPtok 3 "}" 51 19 145)) (mkPtok 38 "match" 40 4 103) (mkPtok 42 "As" 40 10 104) (mkPtok 17 "as" 42 4 106) (mkPtok 42 "Packet" 42 7 107) (mkPtok 2 "{" 42 14 108) [(mkMatchPair (mkSpan (mkPtok 30 "3" 42 16 109) (mkPtok 40 "," 42 24 112)) (MKDigits (mkPtok 30 "3" 42 16 109)) (mkPtok 39 ":" 42 18 110) (mkPtok 42 "crc" 42 20 111) (Some (mkPtok 40 "," 42 24 112))); (mkMatchPair (mkSpan (mkPtok 18 "[" 42 26 113) (mkPtok 40 "," 48 0 123)) (MKList (mkKeyList (mkSpan (mkPtok 18 "[" 42 26 113) (mkPtok 13 "]" 47 0 119)) (mkPtok 18 "[" 42 26 113) (mkPtok 30 "1" 45 0 116) [((mkPtok 40 "," 45 2 117), (mkPtok 30 "00" 46 0 118))] (mkPtok 13 "]" 47 0 119))) (mkPtok 39 ":" 47 1 120) (mkPtok 42 "Header" 47 3 121) (Some (mkPtok 40 "," 48 0 123))); (mkMatchPair (mkSpan (mkPtok 30 "255" 48 2 124) (mkPtok 40 "," 48 10 127)) (MKDigits (mkPtok 30 "255" 48 2 124)) (mkPtok 39 ":" 48 6 125) (mkPtok 42 "_x" 48 7 126) (Some (mkPtok 40 "," 48 10 127))); (mkMatchPair (mkSpan (mkPtok 30 "42" 48 12 128) (mkPtok 40 "," 49 0 131)) (MKDigits (mkPtok 30 "42" 48 12 128)) (mkPtok 39 ":" 48 15 129) (mkPtok 42 "body" 48 17 130) (Some (mkPtok 40 "," 49 0 131))); (mkMatchPair (mkSpan (mkPtok 18 "[" 49 2 132) (mkPtok 42 "chars" 49 9 136)) (MKList (mkKeyList (mkSpan (mkPtok 18 "[" 49 2 132) (mkPtok 13 "]" 49 5 134)) (mkPtok 18 "[" 49 2 132) (mkPtok 30 "0" 49 3 133) [] (mkPtok 13 "]" 49 5 134))) (mkPtok 39 ":" 49 7 135) (mkPtok 42 "chars" 49 9 136) None); (mkMatchPair (mkSpan (mkPtok 18 "[" 50 4 137) (mkPtok 40 "," 51 17 144)) (MKList (mkKeyList (mkSpan (mkPtok 18 "[" 50 4 137) (mkPtok 13 "]" 51 8 141)) (mkPtok 18 "[" 50 4 137) (mkPtok 30 "4294967296" 50 6 138) [((mkPtok 40 "," 51 0 139), (mkPtok 30 "65535" 51 2 140))] (mkPtok 13 "]" 51 8 141))) (mkPtok 39 ":" 51 10 142) (mkPtok 42 "chars" 51 11 143) (Some (mkPtok 40 "," 51 17 144)))] (mkPtok 3 "}" 51 19 145)) (mkPtok 40 "," 54 0 148))] (mkPtok 3 "}" 54 3 149)) (mkPtok 40 "," 57 0 152))] (mkPtok 3 "}" 57 2 153)) (mkPtok 40 "," 57 4 154)))] (mkPtok 3 "}" 57 6 155))); (DMeta (mkMetaDef (mkSpan (mkPtok 37 "MetaData" 57 8 156) (mkPtok 3 "}" 62 14 171)) (mkPtok 37 "MetaData" 57 8 156) (mkPtok 42 "falsey" 57 17 157) (mkPtok 2 "{" 57 24 158) [(MIDecl (mkMetaDecl (mkSpan (mkPtok 12 "char[" 58 0 159) (mkPtok 40 "," 60 7 163)) (TyFixed (mkSpan (mkPtok 12 "char[" 58 0 159) (mkPtok 13 "]" 60 0 161)) (mkFixedString (mkSpan (mkPtok 12 "char[" 58 0 159) (mkPtok 13 "]" 60 0 161)) (mkPtok 12 "char[" 58 0 159) (mkPtok 30 "255" 59 0 160) (mkPtok 13 "]" 60 0 161))) (mkPtok 42 "u128" 60 2 162) None (mkPtok 40 "," 60 7 163))); (MIDecl (mkMetaDecl (mkSpan (mkPtok 20 "u8" 60 9 164) (mkPtok 40 "," 61 0 167)) (TyBasic (mkSpan (mkPtok 20 "u8" 60 9 164) (mkPtok 20 "u8" 60 9 164)) (mkBasicType (mkSpan (mkPtok 20 "u8" 60 9 164) (mkPtok 20 "u8" 60 9 164)) (mkPtok 20 "u8" 60 9 164))) (mkPtok 42 "Header" 60 12 165) (Some (mkPtok 43 (string_of_bytes [96; 116; 97; 98; 9; 104; 101; 114; 101; 96]%N) 60 18 166)) (mkPtok 40 "," 61 0 167))); (MIDecl (mkMetaDecl (mkSpan (mkPtok 15 "string" 62 0 168) (mkPtok 40 "," 62 13 170)) (TyDynamic (mkSpan (mkPtok 15 "string" 62 0 168) (mkPtok 15 "string" 62 0 168)) (mkDynamicString (mkSpan (mkPtok 15 "string" 62 0 168) (mkPtok 15 "string" 62 0 168)) (mkPtok 15 "string" 62 0 168))) (mkPtok 42 "float" 62 7 169) None (mkPtok 40 "," 62 13 170)))] (mkPtok 3 "}" 62 14 171))); (DPacket (mkPacketDef (mkSpan (mkPtok 34 "root" 62 16 172) (mkPtok 3 "}" 133 22 393)) (Some (mkPtok 34 "root" 62 16 172)) (mkPtok 35 "packet" 62 21 173) (mkPtok 42 "int" 62 28 174) (mkPtok 2 "{" 62 32 175) [(mkFieldWithAttr (mkSpan (mkPtok 42 "Logon" 62 34 176) (mkPtok 40 "," 62 46 178)) [] (ObjectField (mkSpan (mkPtok 42 "Logon" 62 34 176) (mkPtok 40 "," 62 46 178)) None (mkPtok 42 "Logon" 62 34 176) (Some (mkPtok 42 "i64_" 62 40 177)) None (mkPtok 40 "," 62 46 178))); (mkFieldWithAttr (mkSpan (mkPtok 5 "@calculatedFrom(" 63 4 179) (mkPtok 40 "," 73 4 213)) [(FACalculatedFrom (mkSpan (mkPtok 5 "@calculatedFrom(" 63 4 179) (mkPtok 6 ")" 65 0 181)) (mkCalculatedFrom (mkSpan (mkPtok 5 "@calculatedFrom(" 63 4 179) (mkPtok 6 ")" 65 0 181)) (mkPtok 5 "@calculatedFrom(" 63 4 179) (mkPtok 31 """1""" 64 0 180) (mkPtok 6 ")" 65 0 181)))] (InerObjectField (mkSpan (mkPtok 42 "zchar" 65 2 182) (mkPtok 40 "," 73 4 213)) None (InerObjectDecl (mkSpan (mkPtok 42 "zchar" 65 2 182) (mkPtok 3 "}" 71 8 211)) (mkPtok 42 "zchar" 65 2 182) (mkPtok 2 "{" 65 8 183) [(InerObjectField (mkSpan (mkPtok 42 "u" 65 10 184) (mkPtok 40 "," 67 14 192)) None (InerObjectDecl (mkSpan (mkPtok 42 "u" 65 10 184) (mkPtok 3 "}" 67 12 191)) (mkPtok 42 "u" 65 10 184) (mkPtok 2 "{" 65 12 185) [(MetaField (mkSpan (mkPtok 14 "zchar[" 66 4 186) (mkPtok 40 "," 67 10 190)) None (mkMetaDecl (mkSpan (mkPtok 14 "zchar[" 66 4 186) (mkPtok 40 "," 67 10 190)) (TyFixed (mkSpan (mkPtok 14 "zchar[" 66 4 186) (mkPtok 13 "]" 67 4 188)) (mkFixedString (mkSpan (mkPtok 14 "zchar[" 66 4 186) (mkPtok 13 "]" 67 4 188)) (mkPtok 14 "zchar[" 66 4 186) (mkPtok 30 "255" 67 0 187) (mkPtok 13 "]" 67 4 188))) (mkPtok 42 "Pad" 67 6 189) None (mkPtok 40 "," 67 10 190)))] (mkPtok 3 "}" 67 12 191)) (mkPtok 40 "," 67 14 192)); (InerObjectField (mkSpan (mkPtok 42 "stringy" 67 16 193) (mkPtok 40 "," 69 2 200)) None (InerObjectDecl (mkSpan (mkPtok 42 "stringy" 67 16 193) (mkPtok 3 "}" 69 0 199)) (mkPtok 42 "stringy" 67 16 193) (mkPtok 2 "{" 67 24 194) [(ObjectField (mkSpan (mkPtok 42 "Pad" 68 4 195) (mkPtok 40 "," 68 25 198)) None (mkPtok 42 "Pad" 68 4 195) (Some (mkPtok 42 "metadata" 68 8 196)) (Some (mkPtok 43 "`u8 x,`" 68 17 197)) (mkPtok 40 "," 68 25 198))] (mkPtok 3 "}" 69 0 199)) (mkPtok 40 "," 69 2 200)); (MetaField (mkSpan (mkPtok 36 "repeat" 69 4 201) (mkPtok 40 "," 69 22 204)) (Some (mkPtok 36 "repeat" 69 4 201)) (mkMetaDecl (mkSpan (mkPtok 15 "string" 69 11 202) (mkPtok 40 "," 69 22 204)) (TyDynamic (mkSpan (mkPtok 15 "string" 69 11 202) (mkPtok 15 "string" 69 11 202)) (mkDynamicString (mkSpan (mkPtok 15 "string" 69 11 202) (mkPtok 15 "string" 69 11 202)) (mkPtok 15 "string" 69 11 202))) (mkPtok 42 "i8i8" 69 18 203) None (mkPtok 40 "," 69 22 204))); (CheckSumField (mkSpan (mkPtok 16 "char[]" 69 24 205) (mkPtok 40 "," 71 7 210)) (mkChecksumFieldDecl (mkSpan (mkPtok 16 "char[]" 69 24 205) (mkPtok 40 "," 71 7 210)) (Some (TyDynamic (mkSpan (mkPtok 16 "char[]" 69 24 205) (mkPtok 16 "char[]" 69 24 205)) (mkDynamicString (mkSpan (mkPtok 16 "char[]" 69 24 205) (mkPtok 16 "char[]" 69 24 205)) (mkPtok 16 "char[]" 69 24 205)))) (mkPtok 42 "As" 70 4 206) (mkCalculatedFrom (mkSpan (mkPtok 5 "@calculatedFrom(" 70 6 207) (mkPtok 6 ")" 71 5 209)) (mkPtok 5 "@calculatedFrom(" 70 6 207) (mkPtok 31 """\n""" 71 0 208) (mkPtok 6 ")" 71 5 209)) None (mkPtok 40 "," 71 7 210)))] (mkPtok 3 "}" 71 8 211)) (mkPtok 40 "," 73 4 213))); (mkFieldWithAttr (mkSpan (mkPtok 7 "@lengthOf(" 73 6 214) (mkPtok 40 "," 76 6 223)) [(FALengthOf (mkSpan (mkPtok 7 "@lengthOf(" 73 6 214) (mkPtok 6 ")" 74 0 217)) (mkLengthOf (mkSpan (mkPtok 7 "@lengthOf(" 73 6 214) (mkPtok 6 ")" 74 0 217)) (mkPtok 7 "@lengthOf(" 73 6 214) (mkPtok 42 "packetx" 73 17 215) (mkPtok 6 ")" 74 0 217))); (FALengthOf (mkSpan (mkPtok 7 "@lengthOf(" 74 2 218) (mkPtok 6 ")" 75 9 220)) (mkLengthOf (mkSpan (mkPtok 7 "@lengthOf(" 74 2 218) (mkPtok 6 ")" 75 9 220)) (mkPtok 7 "@lengthOf(" 74 2 218) (mkPtok 42 "i64_" 75 4 219) (mkPtok 6 ")" 75 9 220)))] (ObjectField (mkSpan (mkPtok 42 "body" 75 11 221) (mkPtok 40 "," 76 6 223)) None (mkPtok 42 "body" 75 11 221) None (Some (mkPtok 43 (string_of_bytes [96; 108; 105; 110; 101; 49; 10; 108; 105; 110; 101; 50; 96]%N) 75 16 222)) (mkPtok 40 "," 76 6 223))); (mkFieldWithAttr (mkSpan (mkPtok 7 "@lengthOf(" 76 7 224) (mkPtok 40 "," 98 2 271)) [(FALengthOf (mkSpan (mkPtok 7 "@lengthOf(" 76 7 224) (mkPtok 6 ")" 76 22 226)) (mkLengthOf (mkSpan (mkPtok 7 "@lengthOf(" 76 7 224) (mkPtok 6 ")" 76 22 226)) (mkPtok 7 "@lengthOf(" 76 7 224) (mkPtok 42 "roots" 76 17 225) (mkPtok 6 ")" 76 22 226)))] (MatchField (mkSpan (mkPtok 38 "match" 76 23 227) (mkPtok 40 "," 98 2 271)) (mkMatchFieldDecl (mkSpan (mkPtok 38 "match" 76 23 227) (mkPtok 3 "}" 98 0 270)) (mkPtok 38 "match" 76 23 227) (mkPtok 42 "MetaDataX" 79 0 230) (mkPtok 17 "as" 79 10 231) (mkPtok 42 "uint8x" 79 13 232) (mkPtok 2 "{" 79 20 233) [(mkMatchPair (mkSpan (mkPtok 18 "[" 80 0 235) (mkPtok 40 "," 88 0 248)) (MKList (mkKeyList (mkSpan (mkPtok 18 "[" 80 0 235) (mkPtok 13 "]" 86 2 244)) (mkPtok 18 "[" 80 0 235) (mkPtok 30 "007" 80 2 236) [((mkPtok 40 "," 83 0 239), (mkPtok 30 "255" 84 0 241)); ((mkPtok 40 "," 85 4 242), (mkPtok 30 "00" 86 0 243))] (mkPtok 13 "]" 86 2 244))) (mkPtok 39 ":" 87 4 245) (mkPtok 42 "body" 87 6 246) (Some (mkPtok 40 "," 88 0 248))); (mkMatchPair (mkSpan (mkPtok 18 "[" 88 2 249) (mkPtok 40 "," 97 0 269)) (MKList (mkKeyList (mkSpan (mkPtok 18 "[" 88 2 249) (mkPtok 13 "]" 96 4 266)) (mkPtok 18 "[" 88 2 249) (mkPtok 30 "65535" 88 4 250) [((mkPtok 40 "," 88 10 251), (mkPtok 31 """1""" 88 12 252)); ((mkPtok 40 "," 88 15 253), (mkPtok 30 "1" 89 0 255)); ((mkPtok 40 "," 89 3 256), (mkPtok 31 """\n""" 90 0 257)); ((mkPtok 40 "," 91 0 259), (mkPtok 30 "1" 91 2 260)); ((mkPtok 40 "," 91 4 261), (mkPtok 31 """CRC32""" 92 4 262)); ((mkPtok 40 "," 93 4 263), (mkPtok 30 "0" 95 4 265))] (mkPtok 13 "]" 96 4 266))) (mkPtok 39 ":" 96 6 267) (mkPtok 42 "trueish" 96 7 268) (Some (mkPtok 40 "," 97 0 269)))] (mkPtok 3 "}" 98 0 270)) (mkPtok 40 "," 98 2 271))); (mkFieldWithAttr (mkSpan (mkPtok 23 "uint64" 98 4 272) (mkPtok 40 "," 99 0 274)) [] (MetaField (mkSpan (mkPtok 23 "uint64" 98 4 272) (mkPtok 40 "," 99 0 274)) None (mkMetaDecl (mkSpan (mkPtok 23 "uint64" 98 4 272) (mkPtok 40 "," 99 0 274)) (TyBasic (mkSpan (mkPtok 23 "uint64" 98 4 272) (mkPtok 23 "uint64" 98 4 272)) (mkBasicType (mkSpan (mkPtok 23 "uint64" 98 4 272) (mkPtok 23 "uint64" 98 4 272)) (mkPtok 23 "uint64" 98 4 272))) (mkPtok 42 "Foo" 98 11 273) None (mkPtok 40 "," 99 0 274)))); (mkFieldWithAttr (mkSpan (mkPtok 42 "zchar" 99 2 275) (mkPtok 40 "," 116 8 340)) [] (InerObjectField (mkSpan (mkPtok 42 "zchar" 99 2 275) (mkPtok 40 "," 116 8 340)) None (InerObjectDecl (mkSpan (mkPtok 42 "zchar" 99 2 275) (mkPtok 3 "}" 116 7 339)) (mkPtok 42 "zchar" 99 2 275) (mkPtok 2 "{" 99 8 276) [(LengthField (mkSpan (mkPtok 42 "metadata" 99 9 277) (mkPtok 40 "," 102 6 283)) (mkLengthFieldDecl (mkSpan (mkPtok 42 "metadata" 99 9 277) (mkPtok 40 "," 102 6 283)) None (mkPtok 42 "metadata" 99 9 277) (mkLengthOf (mkSpan (mkPtok 7 "@lengthOf(" 100 0 278) (mkPtok 6 ")" 100 13 280)) (mkPtok 7 "@lengthOf(" 100 0 278) (mkPtok 42 "Pad" 100 10 279) (mkPtok 6 ")" 100 13 280)) (Some (mkPtok 43 (string_of_bytes [96; 99; 114; 108; 102; 13; 10; 108; 105; 110; 101; 96]%N) 101 0 282)) (mkPtok 40 "," 102 6 283))); (MatchField (mkSpan (mkPtok 38 "match" 103 4 284) (mkPtok 40 "," 112 5 322)) (mkMatchFieldDecl (mkSpan (mkPtok 38 "match" 103 4 284) (mkPtok 3 "}" 112 4 321)) (mkPtok 38 "match" 103 4 284) (mkPtok 42 "u" 103 10 285) (mkPtok 17 "as" 103 12 286) (mkPtok 42 "charz" 103 15 287) (mkPtok 2 "{" 103 21 288) [(mkMatchPair (mkSpan (mkPtok 30 "65535" 103 23 289) (mkPtok 42 "int" 105 4 292)) (MKDigits (mkPtok 30 "65535" 103 23 289)) (mkPtok 39 ":" 103 29 290) (mkPtok 42 "int" 105 4 292) None); (mkMatchPair (mkSpan (mkPtok 18 "[" 106 0 293) (mkPtok 40 "," 110 3 300)) (MKList (mkKeyList (mkSpan (mkPtok 18 "[" 106 0 293) (mkPtok 13 "]" 106 5 295)) (mkPtok 18 "[" 106 0 293) (mkPtok 31 """1""" 106 2 294) [] (mkPtok 13 "]" 106 5 295))) (mkPtok 39 ":" 107 0 296) (mkPtok 42 "a1" 110 0 299) (Some (mkPtok 40 "," 110 3 300))); (mkMatchPair (mkSpan (mkPtok 18 "[" 110 5 301) (mkPtok 40 "," 111 19 314)) (MKList (mkKeyList (mkSpan (mkPtok 18 "[" 110 5 301) (mkPtok 13 "]" 111 7 311)) (mkPtok 18 "[" 110 5 301) (mkPtok 30 "4294967296" 110 6 302) [((mkPtok 40 "," 110 17 303), (mkPtok 30 "00" 110 19 304)); ((mkPtok 40 "," 110 21 305), (mkPtok 31 (string_of_bytes [34; 195; 169; 116; 195; 169; 34]%N) 110 22 306)); ((mkPtok 40 "," 110 28 307), (mkPtok 31 (string_of_bytes [34; 230; 182; 136; 230; 129; 175; 34]%N) 110 30 308)); ((mkPtok 40 "," 110 35 309), (mkPtok 30 "00" 111 4 310))] (mkPtok 13 "]" 111 7 311))) (mkPtok 39 ":" 111 8 312) (mkPtok 42 "matchKey" 111 10 313) (Some (mkPtok 40 "," 111 19 314))); (mkMatchPair (mkSpan (mkPtok 18 "[" 111 21 315) (mkPtok 40 "," 111 39 320)) (MKList (mkKeyList (mkSpan (mkPtok 18 "[" 111 21 315) (mkPtok 13 "]" 111 29 317)) (mkPtok 18 "[" 111 21 315) (mkPtok 31 """a\\""" 111 23 316) [] (mkPtok 13 "]" 111 29 317))) (mkPtok 39 ":" 111 31 318) (mkPtok 42 "Logon" 111 33 319) (Some (mkPtok 40 "," 111 39 320)))] (mkPtok 3 "}" 112 4 321)) (mkPtok 40 "," 112 5 322)); (InerObjectField (mkSpan (mkPtok 36 "repeat" 113 0 323) (mkPtok 40 "," 116 4 338)) (Some (mkPtok 36 "repeat" 113 0 323)) (InerObjectDecl (mkSpan (mkPtok 42 "rootA" 113 7 324) (mkPtok 3 "}" 116 2 337)) (mkPtok 42 "rootA" 113 7 324) (mkPtok 2 "{" 113 13 325) [(LengthField (mkSpan (mkPtok 25 "int16" 113 15 326) (mkPtok 40 "," 115 1 332)) (mkLengthFieldDecl (mkSpan (mkPtok 25 "int16" 113 15 326) (mkPtok 40 "," 115 1 332)) (Some (TyBasic (mkSpan (mkPtok 25 "int16" 113 15 326) (mkPtok 25 "int16" 113 15 326)) (mkBasicType (mkSpan (mkPtok 25 "int16" 113 15 326) (mkPtok 25 "int16" 113 15 326)) (mkPtok 25 "int16" 113 15 326)))) (mkPtok 42 "Foo" 114 0 327) (mkLengthOf (mkSpan (mkPtok 7 "@lengthOf(" 114 4 328) (mkPtok 6 ")" 115 0 331)) (mkPtok 7 "@lengthOf(" 114 4 328) (mkPtok 42 "rootA" 114 15 329) (mkPtok 6 ")" 115 0 331)) None (mkPtok 40 "," 115 1 332))); (ObjectField (mkSpan (mkPtok 42 "options1" 115 2 333) (mkPtok 40 "," 116 0 336)) None (mkPtok 42 "options1" 115 2 333) None (Some (mkPtok 43 "`u8 x,`" 115 11 334)) (mkPtok 40 "," 116 0 336))] (mkPtok 3 "}" 116 2 337)) (mkPtok 40 "," 116 4 338))] (mkPtok 3 "}" 116 7 339)) (mkPtok 40 "," 116 8 340))); (mkFieldWithAttr (mkSpan (mkPtok 38 "match" 116 11 341) (mkPtok 40 "," 133 0 389)) [] (MatchField (mkSpan (mkPtok 38 "match" 116 11 341) (mkPtok 40 "," 133 0 389)) (mkMatchFieldDecl (mkSpan (mkPtok 38 "match" 116 11 341) (mkPtok 3 "}" 132 11 388)) (mkPtok 38 "match" 116 11 341) (mkPtok 42 "chars" 116 17 342) (mkPtok 17 "as" 116 23 343) (mkPtok 42 "u" 116 26 344) (mkPtok 2 "{" 119 0 347) [(mkMatchPair (mkSpan (mkPtok 18 "[" 119 2 348) (mkPtok 40 "," 124 15 367)) (MKList (mkKeyList (mkSpan (mkPtok 18 "[" 119 2 348) (mkPtok 13 "]" 124 0 364)) (mkPtok 18 "[" 119 2 348) (mkPtok 31 """it's""" 120 0 350) [((mkPtok 40 "," 120 7 351), (mkPtok 30 "007" 120 9 352)); ((mkPtok 40 "," 120 13 353), (mkPtok 31 (string_of_bytes [34; 195; 169; 116; 195; 169; 34]%N) 120 15 354)); ((mkPtok 40 "," 120 20 355), (mkPtok 31 """abc""" 120 22 356)); ((mkPtok 40 "," 120 28 357), (mkPtok 31 """\n""" 120 29 358)); ((mkPtok 40 "," 120 34 359), (mkPtok 31 """""" 123 0 362))] (mkPtok 13 "]" 124 0 364))) (mkPtok 39 ":" 124 2 365) (mkPtok 42 "repeatCount" 124 4 366) (Some (mkPtok 40 "," 124 15 367))); (mkMatchPair (mkSpan (mkPtok 30 "65535" 125 0 368) (mkPtok 40 "," 128 0 372)) (MKDigits (mkPtok 30 "65535" 125 0 368)) (mkPtok 39 ":" 127 4 370) (mkPtok 42 "Z9_" 127 5 371) (Some (mkPtok 40 "," 128 0 372))); (mkMatchPair (mkSpan (mkPtok 18 "[" 128 2 373) (mkPtok 40 "," 129 19 384)) (MKList (mkKeyList (mkSpan (mkPtok 18 "[" 128 2 373) (mkPtok 13 "]" 129 7 381)) (mkPtok 18 "[" 128 2 373) (mkPtok 30 "007" 128 4 374) [((mkPtok 40 "," 128 9 375), (mkPtok 31 """abc""" 128 11 376)); ((mkPtok 40 "," 128 16 377), (mkPtok 31 """// no comment""" 128 17 378)); ((mkPtok 40 "," 129 0 379), (mkPtok 31 (string_of_bytes [34; 230; 182; 136; 230; 129; 175; 34]%N) 129 2 380))] (mkPtok 13 "]" 129 7 381))) (mkPtok 39 ":" 129 9 382) (mkPtok 42 "falsey" 129 12 383) (Some (mkPtok 40 "," 129 19 384))); (mkMatchPair (mkSpan (mkPtok 30 "00" 130 0 385) (mkPtok 42 "string_" 132 4 387)) (MKDigits (mkPtok 30 "00" 130 0 385)) (mkPtok 39 ":" 131 0 386) (mkPtok 42 "string_" 132 4 387) None)] (mkPtok 3 "}" 132 11 388)) (mkPtok 40 "," 133 0 389))); (mkFieldWithAttr (mkSpan (mkPtok 19 "char" 133 3 390) (mkPtok 40 "," 133 20 392)) [] (MetaField (mkSpan (mkPtok 19 "char" 133 3 390) (mkPtok 40 "," 133 20 392)) None (mkMetaDecl (mkSpan (mkPtok 19 "char" 133 3 390) (mkPtok 40 "," 133 20 392)) (TyBasic (mkSpan (mkPtok 19 "char" 133 3 390) (mkPtok 19 "char" 133 3 390)) (mkBasicType (mkSpan (mkPtok 19 "char" 133 3 390) (mkPtok 19 "char" 133 3 390)) (mkPtok 19 "char" 133 3 390))) (mkPtok 42 "repeatCount" 133 8 391) None (mkPtok 40 "," 133 20 392))))] (mkPtok 3 "}" 133 22 393))); (DPacket (mkPacketDef (mkSpan (mkPtok 35 "packet" 133 24 394) (mkPtok 3 "}" 159 2 497)) None (mkPtok 35 "packet" 133 24 394) (mkPtok 42 "Foo" 133 31 395) (mkPtok 2 "{" 133 35 396) [(mkFieldWithAttr (mkSpan (mkPtok 16 "char[]" 133 36 397) (mkPtok 40 "," 136 0 403)) [] (CheckSumField (mkSpan (mkPtok 16 "char[]" 133 36 397) (mkPtok 40 "," 136 0 403)) (mkChecksumFieldDecl (mkSpan (mkPtok 16 "char[]" 133 36 397) (mkPtok 40 "," 136 0 403)) (Some (TyDynamic (mkSpan (mkPtok 16 "char[]" 133 36 397) (mkPtok 16 "char[]" 133 36 397)) (mkDynamicString (mkSpan (mkPtok 16 "char[]" 133 36 397) (mkPtok 16 "char[]" 133 36 397)) (mkPtok 16 "char[]" 133 36 397)))) (mkPtok 42 "a1" 134 0 398) (mkCalculatedFrom (mkSpan (mkPtok 5 "@calculatedFrom(" 134 3 399) (mkPtok 6 ")" 134 22 401)) (mkPtok 5 "@calculatedFrom(" 134 3 399) (mkPtok 31 """""" 134 20 400) (mkPtok 6 ")" 134 22 401)) (Some (mkPtok 43 (string_of_bytes [96; 108; 105; 110; 101; 49; 10; 108; 105; 110; 101; 50; 96]%N) 134 23 402)) (mkPtok 40 "," 136 0 403)))); (mkFieldWithAttr (mkSpan (mkPtok 21 "uint16" 136 2 404) (mkPtok 40 "," 139 14 409)) [] (MetaField (mkSpan (mkPtok 21 "uint16" 136 2 404) (mkPtok 40 "," 139 14 409)) None (mkMetaDecl (mkSpan (mkPtok 21 "uint16" 136 2 404) (mkPtok 40 "," 139 14 409)) (TyBasic (mkSpan (mkPtok 21 "uint16" 136 2 404) (mkPtok 21 "uint16" 136 2 404)) (mkBasicType (mkSpan (mkPtok 21 "uint16" 136 2 404) (mkPtok 21 "uint16" 136 2 404)) (mkPtok 21 "uint16" 136 2 404))) (mkPtok 42 "MetaDataX" 137 0 406) (Some (mkPtok 43 "`say ""hi""`" 139 4 408)) (mkPtok 40 "," 139 14 409)))); (mkFieldWithAttr (mkSpan (mkPtok 16 "char[]" 139 15 410) (mkPtok 40 "," 139 24 412)) [] (MetaField (mkSpan (mkPtok 16 "char[]" 139 15 410) (mkPtok 40 "," 139 24 412)) None (mkMetaDecl (mkSpan (mkPtok 16 "char[]" 139 15 410) (mkPtok 40 "," 139 24 412)) (TyDynamic (mkSpan (mkPtok 16 "char[]" 139 15 410) (mkPtok 16 "char[]" 139 15 410)) (mkDynamicString (mkSpan (mkPtok 16 "char[]" 139 15 410) (mkPtok 16 "char[]" 139 15 410)) (mkPtok 16 "char[]" 139 15 410))) (mkPtok 42 "A" 139 22 411) None (mkPtok 40 "," 139 24 412)))); (mkFieldWithAttr (mkSpan (mkPtok 29 "f64" 142 0 415) (mkPtok 40 "," 142 25 420)) [] (LengthField (mkSpan (mkPtok 29 "f64" 142 0 415) (mkPtok 40 "," 142 25 420)) (mkLengthFieldDecl (mkSpan (mkPtok 29 "f64" 142 0 415) (mkPtok 40 "," 142 25 420)) (Some (TyBasic (mkSpan (mkPtok 29 "f64" 142 0 415) (mkPtok 29 "f64" 142 0 415)) (mkBasicType (mkSpan (mkPtok 29 "f64" 142 0 415) (mkPtok 29 "f64" 142 0 415)) (mkPtok 29 "f64" 142 0 415)))) (mkPtok 42 "int" 142 4 416) (mkLengthOf (mkSpan (mkPtok 7 "@lengthOf(" 142 8 417) (mkPtok 6 ")" 142 23 419)) (mkPtok 7 "@lengthOf(" 142 8 417) (mkPtok 42 "Pad" 142 18 418) (mkPtok 6 ")" 142 23 419)) None (mkPtok 40 "," 142 25 420)))); (mkFieldWithAttr (mkSpan (mkPtok 22 "u32" 142 27 421) (mkPtok 40 "," 144 0 423)) [] (MetaField (mkSpan (mkPtok 22 "u32" 142 27 421) (mkPtok 40 "," 144 0 423)) None (mkMetaDecl (mkSpan (mkPtok 22 "u32" 142 27 421) (mkPtok 40 "," 144 0 423)) (TyBasic (mkSpan (mkPtok 22 "u32" 142 27 421) (mkPtok 22 "u32" 142 27 421)) (mkBasicType (mkSpan (mkPtok 22 "u32" 142 27 421) (mkPtok 22 "u32" 142 27 421)) (mkPtok 22 "u32" 142 27 421))) (mkPtok 42 "BodyLength" 143 4 422) None (mkPtok 40 "," 144 0 423)))); (mkFieldWithAttr (mkSpan (mkPtok 29 "float64" 144 2 424) (mkPtok 40 "," 149 6 432)) [] (LengthField (mkSpan (mkPtok 29 "float64" 144 2 424) (mkPtok 40 "," 149 6 432)) (mkLengthFieldDecl (mkSpan (mkPtok 29 "float64" 144 2 424) (mkPtok 40 "," 149 6 432)) (Some (TyBasic (mkSpan (mkPtok 29 "float64" 144 2 424) (mkPtok 29 "float64" 144 2 424)) (mkBasicType (mkSpan (mkPtok 29 "float64" 144 2 424) (mkPtok 29 "float64" 144 2 424)) (mkPtok 29 "float64" 144 2 424)))) (mkPtok 42 "trueish" 145 0 425) (mkLengthOf (mkSpan (mkPtok 7 "@lengthOf(" 145 8 426) (mkPtok 6 ")" 145 27 428)) (mkPtok 7 "@lengthOf(" 145 8 426) (mkPtok 42 "lengthOf" 145 18 427) (mkPtok 6 ")" 145 27 428)) (Some (mkPtok 43 (string_of_bytes [96; 99; 114; 108; 102; 13; 10; 108; 105; 110; 101; 96]%N) 148 0 431)) (mkPtok 40 "," 149 6 432)))); (mkFieldWithAttr (mkSpan (mkPtok 9 "@tag(" 149 8 433) (mkPtok 40 "," 158 7 492)) [(FATag (mkSpan (mkPtok 9 "@tag(" 149 8 433) (mkPtok 6 ")" 149 17 435)) (mkTagAttr (mkSpan (mkPtok 9 "@tag(" 149 8 433) (mkPtok 6 ")" 149 17 435)) (mkPtok 9 "@tag(" 149 8 433) (mkPtok 30 "255" 149 13 434) (mkPtok 6 ")" 149 17 435)))] (MatchField (mkSpan (mkPtok 38 "match" 149 19 436) (mkPtok 40 "," 158 7 492)) (mkMatchFieldDecl (mkSpan (mkPtok 38 "match" 149 19 436) (mkPtok 3 "}" 158 5 491)) (mkPtok 38 "match" 149 19 436) (mkPtok 42 "Z9_" 149 25 437) (mkPtok 17 "as" 149 29 438) (mkPtok 42 "tag" 149 32 439) (mkPtok 2 "{" 149 36 440) [(mkMatchPair (mkSpan (mkPtok 18 "[" 149 38 441) (mkPtok 40 "," 150 8 453)) (MKList (mkKeyList (mkSpan (mkPtok 18 "[" 149 38 441) (mkPtok 13 "]" 150 0 450)) (mkPtok 18 "[" 149 38 441) (mkPtok 31 """a\""b""" 149 40 442) [((mkPtok 40 "," 149 46 443), (mkPtok 30 "4294967296" 149 47 444)); ((mkPtok 40 "," 149 59 445), (mkPtok 31 """{,}""" 149 62 446)); ((mkPtok 40 "," 149 68 447), (mkPtok 31 """{,}""" 149 69 448))] (mkPtok 13 "]" 150 0 450))) (mkPtok 39 ":" 150 2 451) (mkPtok 42 "Pad" 150 4 452) (Some (mkPtok 40 "," 150 8 453))); (mkMatchPair (mkSpan (mkPtok 30 "1" 150 10 454) (mkPtok 40 "," 150 23 457)) (MKDigits (mkPtok 30 "1" 150 10 454)) (mkPtok 39 ":" 150 12 455) (mkPtok 42 "lengthOf" 150 14 456) (Some (mkPtok 40 "," 150 23 457))); (mkMatchPair (mkSpan (mkPtok 30 "0123456789" 150 25 458) (mkPtok 40 "," 150 48 461)) (MKDigits (mkPtok 30 "0123456789" 150 25 458)) (mkPtok 39 ":" 150 36 459) (mkPtok 42 "msg_type" 150 38 460) (Some (mkPtok 40 "," 150 48 461))); (mkMatchPair (mkSpan (mkPtok 31 """// no comment""" 150 50 462) (mkPtok 40 "," 151 14 465)) (MKString (mkPtok 31 """// no comment""" 150 50 462)) (mkPtok 39 ":" 150 65 463) (mkPtok 42 "BodyLength" 151 4 464) (Some (mkPtok 40 "," 151 14 465))); (mkMatchPair (mkSpan (mkPtok 18 "[" 151 16 466) (mkPtok 42 "string_" 151 26 470)) (MKList (mkKeyList (mkSpan (mkPtok 18 "[" 151 16 466) (mkPtok 13 "]" 151 22 468)) (mkPtok 18 "[" 151 16 466) (mkPtok 31 """1""" 151 18 467) [] (mkPtok 13 "]" 151 22 468))) (mkPtok 39 ":" 151 24 469) (mkPtok 42 "string_" 151 26 470) None); (mkMatchPair (mkSpan (mkPtok 18 "[" 151 34 471) (mkPtok 42 "asx" 158 2 490)) (MKList (mkKeyList (mkSpan (mkPtok 18 "[" 151 34 471) (mkPtok 13 "]" 157 4 487)) (mkPtok 18 "[" 151 34 471) (mkPtok 30 "3" 151 35 472) [((mkPtok 40 "," 151 37 473), (mkPtok 30 "0" 151 39 474)); ((mkPtok 40 "," 151 40 475), (mkPtok 30 "1" 151 41 476)); ((mkPtok 40 "," 151 43 477), (mkPtok 30 "1" 151 45 478)); ((mkPtok 40 "," 152 0 479), (mkPtok 31 (string_of_bytes [34; 92; 195; 169; 34]%N) 152 2 480)); ((mkPtok 40 "," 153 0 482), (mkPtok 31 """""" 154 4 483)); ((mkPtok 40 "," 155 4 484), (mkPtok 30 "00" 155 6 485))] (mkPtok 13 "]" 157 4 487))) (mkPtok 39 ":" 158 0 489) (mkPtok 42 "asx" 158 2 490) None)] (mkPtok 3 "}" 158 5 491)) (mkPtok 40 "," 158 7 492))); (mkFieldWithAttr (mkSpan (mkPtok 42 "body" 158 9 493) (mkPtok 40 "," 159 0 496)) [] (ObjectField (mkSpan (mkPtok 42 "body" 158 9 493) (mkPtok 40 "," 159 0 496)) None (mkPtok 42 "body" 158 9 493) None (Some (mkPtok 43 "`say ""hi""`" 158 14 494)) (mkPtok 40 "," 159 0 496)))] (mkPtok 3 "}" 159 2 497))); (DOption (mkOptionDef (mkSpan (mkPtok 1 "options" 159 3 498) (mkPtok 3 "}" 164 17 514)) (mkPtok 1 "options" 159 3 498) (mkPtok 2 "{" 159 11 499) [(mkOptionDecl (mkSpan (mkPtok 42 "x" 159 13 500) (mkPtok 41 ";" 160 0 503)) (mkPtok 42 "x" 159 13 500) (mkPtok 4 "=" 159 15 501) (VPaddingChar (mkSpan (mkPtok 33 "'0'" 159 16 502) (mkPtok 33 "'0'" 159 16 502)) (mkPtok 33 "'0'" 159 16 502)) (Some (mkPtok 41 ";" 160 0 503))); (mkOptionDecl (mkSpan (mkPtok 42 "u8x" 160 2 504) (mkPtok 41 ";" 161 5 508)) (mkPtok 42 "u8x" 160 2 504) (mkPtok 4 "=" 161 0 506) (VType (mkSpan (mkPtok 23 "u64" 161 2 507) (mkPtok 23 "u64" 161 2 507)) (TyBasic (mkSpan (mkPtok 23 "u64" 161 2 507) (mkPtok 23 "u64" 161 2 507)) (mkBasicType (mkSpan (mkPtok 23 "u64" 161 2 507) (mkPtok 23 "u64" 161 2 507)) (mkPtok 23 "u64" 161 2 507)))) (Some (mkPtok 41 ";" 161 5 508))); (mkOptionDecl (mkSpan (mkPtok 42 "string_" 164 0 511) (mkPtok 31 """a\""b""" 164 10 513)) (mkPtok 42 "string_" 164 0 511) (mkPtok 4 "=" 164 8 512) (VString (mkSpan (mkPtok 31 """a\""b""" 164 10 513) (mkPtok 31 """a\""b""" 164 10 513)) (mkPtok 31 """a\""b""" 164 10 513)) None)] (mkPtok 3 "}" 164 17 514)))])).
Eval vm_compute in ("<<<M318>>>" ++ check (runes_of_ascii "  packet
    Packet { i8 MetaDataX , }
    root packet
    a1
{ rootA @lengthOf( uint8x )
    ,
    repeatCount
{
char[]u , u16
msg_type
`a\` ,
    }
, }
")).
Eval vm_compute in ("<<<M350>>>" ++ check (runes_of_ascii "
packet a1
    /// triple
    { uint8 As ,// `tick` ""quote"" 'q'
char[ 1] chars
    @lengthOf(
    msg_type )  , repeat char[ 1 ] x_y_z `two words`
    //x
    , // c
@tag(00
)
int32
i8i8
    , u64 trueish ,
    // @lengthOf(
    @lengthOf(
    body )int16 float @lengthOf( tag )
    , // " ++ [128512]%N ++ runes_of_ascii " emoji
x // trailing space 
@calculatedFrom( ""`tick`""	) ,
} MetaData x_y_z
    {	char[
10
    ]chars,Z9_ pack`
`  ,  string As
, //x
len
    int ,A Z9_  , }	options { o = 0123456789 ; _x	= ' '
;
}")).
Eval vm_compute in ("<<<M382>>>" ++ check (runes_of_ascii "  packet
    // a // b
    MetaDataX {
match _x as roots {
""`tick`"" :o , [00, // `tick` ""quote"" 'q'
0123456789
, 1 ,
    0123456789,""a\\""  ,
    ""`tick`""  , 007
,
    // " ++ [27880; 37322]%N ++ runes_of_ascii "
    ""// no comment""]
: Logon , }	, f32 len @calculatedFrom(
""{,}"" // c
) `" ++ [233]%N ++ runes_of_ascii "` , // a // b
@calculatedFrom( """") @leftPad
( '\x00') i32 calculatedFrom@lengthOf(
    Packet)
    // @lengthOf(
    `line1
line2`
    , @calculatedFrom( ""\" ++ [233]%N ++ runes_of_ascii """	)
match asx as	As { ""it's"" :_x,""x y""  : calculatedFrom, ""packet"" :
    Pad
, } ,  char[] x, char[] matchKey,trueish lengthOf ,@lengthOf(roots	) repeat len // c
, @lengthOf( crc) repeat
//
// " ++ [27880; 37322]%N ++ runes_of_ascii "
char[]u128 `tab	here`, repeat u64 Header
    //
    , }
")).
Eval vm_compute in ("<<<M414>>>" ++ check (runes_of_ascii "options
{ u128// packet A { u8 x, }
=
    ""x y""
    } packet // a // b
rootA// @lengthOf(
{
    // " ++ [27880; 37322]%N ++ runes_of_ascii "
    }packet metadata {@tag(007
    // " ++ [128512]%N ++ runes_of_ascii " emoji
    )
repeat u8
A
`// not a comment`, }
")).
Eval vm_compute in ("<<<M446>>>" ++ check (runes_of_ascii "// @lengthOf(
MetaData Pad
    { }
MetaData
msg_type { // packet A { u8 x, }
packetx i64_ , char[ 1 ] Foo
`" ++ [233]%N ++ runes_of_ascii "`	, } MetaData o  { }
    // `tick` ""quote"" 'q'
    options //x
{ MetaDataX =u32 ;
// @lengthOf(
//x
trueish
    //	t
    ='0'	options1 = 65535 ; Pad ='0'
; x_y_z =
    //x
    ""a\""b""
    } packet chars
// trailing space 
//	t
{ @calculatedFrom(
    ""a\\"" ) //	t
match
//x
// trailing space 
charz as  Foo { [4294967296 ,
    ""CRC32"" ,
// @lengthOf(
// c
3
, ""a\""b""
,
    // a // b
    ""CRC32""] :
// trailing space 
// c
i8i8
,
} , @calculatedFrom(""" ++ [233]%N ++ runes_of_ascii "t" ++ [233]%N ++ runes_of_ascii """
) char[] chars @calculatedFrom(""// no comment"" ) , char[]
    x_y_z//
,
@lengthOf(
trueish
) @lengthOf( packetx) @lengthOf( packetx  ) Logon
    @calculatedFrom( ""it's""	)
, string
_x  , uint32 packetx ,
    repeat MetaDataX`tab	here`
    ,
}
")).
Eval vm_compute in ("<<<M478>>>" ++ check (runes_of_ascii "packet f32a
{ @calculatedFrom( // " ++ [27880; 37322]%N ++ runes_of_ascii "
""" ++ [128512]%N ++ runes_of_ascii """ )	char[65535
    ] Logon , }
    packet calculatedFrom { char[ 00
// c
// @lengthOf(
]
    x `u8 x,` , repeat u8x{
repeat float64
Packet ,} ,
    repeat
    Z9_ leftPad, @calculatedFrom(""{,}"" )  repeat	Header	Foo , @tag(
    4294967296)
    @calculatedFrom(
""it's"" )@lengthOf(Logon )char[ 10
    /// triple
    ] len ``, char[ 7
    ] lengthOf
// a // b
// " ++ [128512]%N ++ runes_of_ascii " emoji
@calculatedFrom( """ ++ [28040; 24687]%N ++ runes_of_ascii """ ) `
`,
    // @lengthOf(
    @lengthOf(i8i8
)  repeat //	t
string_ trueish `doc`
    ,
    // " ++ [27880; 37322]%N ++ runes_of_ascii "
    match BodyLength // a // b
as //	t
rootA // @lengthOf(
{
""packet"": uint8x , }, match u128  as float {""" ++ [233]%N ++ runes_of_ascii "t" ++ [233]%N ++ runes_of_ascii """
: stringy	""packet"" : lengthOf , """ ++ [233]%N ++ runes_of_ascii "t" ++ [233]%N ++ runes_of_ascii """
:
    // " ++ [27880; 37322]%N ++ runes_of_ascii "
    lengthOf,""" ++ [128512]%N ++ runes_of_ascii """ :
    lengthOf,""it's"" :As [""// no comment""	]  : int
// " ++ [27880; 37322]%N ++ runes_of_ascii "
/// triple
,},
    }	root packet // " ++ [27880; 37322]%N ++ runes_of_ascii "
_x	{Header `say ""hi""` ,
@leftPad ( '\x00' )@lengthOf( Packet
    ) @rightPad	( ' '  )string msg_type
    @calculatedFrom( """ ++ [233]%N ++ runes_of_ascii "t" ++ [233]%N ++ runes_of_ascii """// " ++ [128512]%N ++ runes_of_ascii " emoji
) `tab	here` ,
i64
zchar //	t
`crlf
line`
,i32
x_y_z, @tag( 7  ) @leftPad
(' ' )
@calculatedFrom(
//
//	t
""1""
    )falsey`two words` , } // " ++ [27880; 37322]%N ++ runes_of_ascii "
packet metadata { f64 u8x,
u16  o `crlf
line`
    ,  msg_type {
u8 a1 @lengthOf( u ) `it's`  ,// trailing space 
}
,@lengthOf( rootA /// triple
) f32a { repeat
    u16 uint8x, }
,//
}
    options {
} // " ++ [128512]%N ++ runes_of_ascii " emoji")).
Eval vm_compute in ("<<<M510>>>" ++ check (runes_of_ascii "
packet	packetx{
    @leftPad
    /// triple
    (
'0' )	@lengthOf(  T ) @calculatedFrom( ""\" ++ [233]%N ++ runes_of_ascii """ )
match i64_
    as tag// " ++ [128512]%N ++ runes_of_ascii " emoji
{
    ""abc""// packet A { u8 x, }
:Header , [7
] :
chars,	""a	b"" :	f32a , ""\" ++ [233]%N ++ runes_of_ascii """ :f32a ,	""CRC32"" : zchar , ""abc""  : Z9_, } , }
")).
Eval vm_compute in ("<<<T510>>>" ++ terms [mkTok 35 "packet" 2 0 false; mkTok 42 "packetx" 2 7 false; mkTok 2 "{" 2 14 false; mkTok 32 "@leftPad" 3 4 false; mkTok 44 "/// triple" 4 4 true; mkTok 8 "(" 5 4 false; mkTok 33 "'0'" 6 0 false; mkTok 6 ")" 6 4 false; mkTok 7 "@lengthOf(" 6 6 false; mkTok 42 "T" 6 18 false; mkTok 6 ")" 6 20 false; mkTok 5 "@calculatedFrom(" 6 22 false; mkTok 31 (string_of_bytes [34; 92; 195; 169; 34]%N) 6 39 false; mkTok 6 ")" 6 44 false; mkTok 38 "match" 7 0 false; mkTok 42 "i64_" 7 6 false; mkTok 17 "as" 8 4 false; mkTok 42 "tag" 8 7 false; mkTok 44 (string_of_bytes [47; 47; 32; 240; 159; 152; 128; 32; 101; 109; 111; 106; 105]%N) 8 10 true; mkTok 2 "{" 9 0 false; mkTok 31 """abc""" 10 4 false; mkTok 44 "// packet A { u8 x, }" 10 9 true; mkTok 39 ":" 11 0 false; mkTok 42 "Header" 11 1 false; mkTok 40 "," 11 8 false; mkTok 18 "[" 11 10 false; mkTok 30 "7" 11 11 false; mkTok 13 "]" 12 0 false; mkTok 39 ":" 12 2 false; mkTok 42 "chars" 13 0 false; mkTok 40 "," 13 5 false; mkTok 31 (string_of_bytes [34; 97; 9; 98; 34]%N) 13 7 false; mkTok 39 ":" 13 13 false; mkTok 42 "f32a" 13 15 false; mkTok 40 "," 13 20 false; mkTok 31 (string_of_bytes [34; 92; 195; 169; 34]%N) 13 22 false; mkTok 39 ":" 13 27 false; mkTok 42 "f32a" 13 28 false; mkTok 40 "," 13 33 false; mkTok 31 """CRC32""" 13 35 false; mkTok 39 ":" 13 43 false; mkTok 42 "zchar" 13 45 false; mkTok 40 "," 13 51 false; mkTok 31 """abc""" 13 53 false; mkTok 39 ":" 13 60 false; mkTok 42 "Z9_" 13 62 false; mkTok 40 "," 13 65 false; mkTok 3 "}" 13 67 false; mkTok 40 "," 13 69 false; mkTok 3 "}" 13 71 false; mkTok 0 "<EOF>" 14 0 false] (mkPacket (mkPtok 35 "packet" 2 0 0) (Some (mkPtok 3 "}" 13 71 49)) [(DPacket (mkPacketDef (mkSpan (mkPtok 35 "packet" 2 0 0) (mkPtok 3 "}" 13 71 49)) None (mkPtok 35 "packet" 2 0 0) (mkPtok 42 "packetx" 2 7 1) (mkPtok 2 "{" 2 14 2) [(mkFieldWithAttr (mkSpan (mkPtok 32 "@leftPad" 3 4 3) (mkPtok 40 "," 13 69 48)) [(FAPadding (mkSpan (mkPtok 32 "@leftPad" 3 4 3) (mkPtok 6 ")" 6 4 7)) (mkPaddingAttr (mkSpan (mkPtok 32 "@leftPad" 3 4 3) (mkPtok 6 ")" 6 4 7)) (mkPtok 32 "@leftPad" 3 4 3) (mkPtok 8 "(" 5 4 5) (Some (mkPtok 33 "'0'" 6 0 6)) (mkPtok 6 ")" 6 4 7))); (FALengthOf (mkSpan (mkPtok 7 "@lengthOf(" 6 6 8) (mkPtok 6 ")" 6 20 10)) (mkLengthOf (mkSpan (mkPtok 7 "@lengthOf(" 6 6 8) (mkPtok 6 ")" 6 20 10)) (mkPtok 7 "@lengthOf(" 6 6 8) (mkPtok 42 "T" 6 18 9) (mkPtok 6 ")" 6 20 10))); (FACalculatedFrom (mkSpan (mkPtok 5 "@calculatedFrom(" 6 22 11) (mkPtok 6 ")" 6 44 13)) (mkCalculatedFrom (mkSpan (mkPtok 5 "@calculatedFrom(" 6 22 11) (mkPtok 6 ")" 6 44 13)) (mkPtok 5 "@calculatedFrom(" 6 22 11) (mkPtok 31 (string_of_bytes [34; 92; 195; 169; 34]%N) 6 39 12) (mkPtok 6 ")" 6 44 13)))] (MatchField (mkSpan (mkPtok 38 "match" 7 0 14) (mkPtok 40 "," 13 69 48)) (mkMatchFieldDecl (mkSpan (mkPtok 38 "match" 7 0 14) (mkPtok 3 "}" 13 67 47)) (mkPtok 38 "match" 7 0 14) (mkPtok 42 "i64_" 7 6 15) (mkPtok 17 "as" 8 4 16) (mkPtok 42 "tag" 8 7 17) (mkPtok 2 "{" 9 0 19) [(mkMatchPair (mkSpan (mkPtok 31 """abc""" 10 4 20) (mkPtok 40 "," 11 8 24)) (MKString (mkPtok 31 """abc""" 10 4 20)) (mkPtok 39 ":" 11 0 22) (mkPtok 42 "Header" 11 1 23) (Some (mkPtok 40 "," 11 8 24))); (mkMatchPair (mkSpan (mkPtok 18 "[" 11 10 25) (mkPtok 40 "," 13 5 30)) (MKList (mkKeyList (mkSpan (mkPtok 18 "[" 11 10 25) (mkPtok 13 "]" 12 0 27)) (mkPtok 18 "[" 11 10 25) (mkPtok 30 "7" 11 11 26) [] (mkPtok 13 "]" 12 0 27))) (mkPtok 39 ":" 12 2 28) (mkPtok 42 "chars" 13 0 29) (Some (mkPtok 40 "," 13 5 30))); (mkMatchPair (mkSpan (mkPtok 31 (string_of_bytes [34; 97; 9; 98; 34]%N) 13 7 31) (mkPtok 40 "," 13 20 34)) (MKString (mkPtok 31 (string_of_bytes [34; 97; 9; 98; 34]%N) 13 7 31)) (mkPtok 39 ":" 13 13 32) (mkPtok 42 "f32a" 13 15 33) (Some (mkPtok 40 "," 13 20 34))); (mkMatchPair (mkSpan (mkPtok 31 (string_of_bytes [34; 92; 195; 169; 34]%N) 13 22 35) (mkPtok 40 "," 13 33 38)) (MKString (mkPtok 31 (string_of_bytes [34; 92; 195; 169; 34]%N) 13 22 35)) (mkPtok 39 ":" 13 27 36) (mkPtok 42 "f32a" 13 28 37) (Some (mkPtok 40 "," 13 33 38))); (mkMatchPair (mkSpan (mkPtok 31 """CRC32""" 13 35 39) (mkPtok 40 "," 13 51 42)) (MKString (mkPtok 31 """CRC32""" 13 35 39)) (mkPtok 39 ":" 13 43 40) (mkPtok 42 "zchar" 13 45 41) (Some (mkPtok 40 "," 13 51 42))); (mkMatchPair (mkSpan (mkPtok 31 """abc""" 13 53 43) (mkPtok 40 "," 13 65 46)) (MKString (mkPtok 31 """abc""" 13 53 43)) (mkPtok 39 ":" 13 60 44) (mkPtok 42 "Z9_" 13 62 45) (Some (mkPtok 40 "," 13 65 46)))] (mkPtok 3 "}" 13 67 47)) (mkPtok 40 "," 13 69 48)))] (mkPtok 3 "}" 13 71 49)))])).
Eval vm_compute in ("<<<M542>>>" ++ check (runes_of_ascii "root packet i64_ {tag
Pad, } root packet
    charz {
}")).
Eval vm_compute in ("<<<M574>>>" ++ check (runes_of_ascii "options
    // c
    {
    chars =
    '0' ; Pad // " ++ [27880; 37322]%N ++ runes_of_ascii "
= 42 ;
    } packet
    roots
{@calculatedFrom( """ ++ [28040; 24687]%N ++ runes_of_ascii """ ) @calculatedFrom(// a // b
""// no comment"" ) chars, }
    packet body { @lengthOf( x  ) match msg_type as x_y_z { 0123456789 :  uint8x
, // packet A { u8 x, }
""`tick`"" :
i64_ // packet A { u8 x, }
00 //
:
    a1
""{,}"" :Header,	[255]	: falsey ,
}
, @calculatedFrom( ""\n"" ) @rightPad
() @lengthOf( BodyLength) i16	A @lengthOf( uint8x ),char[] Foo @lengthOf(
T )
, @leftPad
    (  '0' ) _x {Logon// trailing space 
@lengthOf( //x
u
), } , @leftPad	( '\x00'
) char[ 4294967296 ]
    trueish @calculatedFrom(""x y"" )
`" ++ [233]%N ++ runes_of_ascii "` ,@rightPad	(
    ' ')
    // packet A { u8 x, }
    match msg_type as pack {[
""a\""b"" , ""`tick`""]	: asx
,""x y"" :  a1 // `tick` ""quote"" 'q'
,
    """ ++ [128512]%N ++ runes_of_ascii """	:
    MetaDataX 42 :Foo	007//x
: trueish
/// triple
// @lengthOf(
""it's"" : string_	}	, repeat Header`
`, @tag(
00) f32
options1 @lengthOf( calculatedFrom) ,zchar[255 ] Logon, } root
packet packetx { @lengthOf(	calculatedFrom ) metadata	x_y_z, }
packet leftPad { match roots  as
falsey {
""x y"" : u ,""x y"" : msg_type }
    ,repeat int64 leftPad
,
u @calculatedFrom( ""x y"" ) `tab	here`
, @calculatedFrom(
""packet"" ) match
// " ++ [27880; 37322]%N ++ runes_of_ascii "
// `tick` ""quote"" 'q'
matchKey as BodyLength{ 255 :
a1 007: T , // `tick` ""quote"" 'q'
""`tick`""
//	t
// a // b
:
rootA, [ ""a\\""	,
1
,255,7 // packet A { u8 x, }
, 1 , ""it's""
, 1, 42]
:x_y_z
,
    42 :
i64_//x
, }//
, float64 x_y_z
    `doc`
,
    uint8x //x
,string
    float
//x
// " ++ [27880; 37322]%N ++ runes_of_ascii "
@calculatedFrom( ""\n"") ,
@lengthOf(
    // `tick` ""quote"" 'q'
    o
)stringy //
@lengthOf(
rootA ) , } //x")).
Eval vm_compute in ("<<<M606>>>" ++ check (runes_of_ascii "
")).
Eval vm_compute in ("<<<M638>>>" ++ check (runes_of_ascii "packet falsey { @tag(
    1 ) repeat zchar[00
    ] tag,
    }
")).
Eval vm_compute in ("<<<M670>>>" ++ check (runes_of_ascii "packet i8i8 { } packet options1{
    @lengthOf( uint8x
    ) pack @lengthOf(MetaDataX
) // c
, uint8x `say ""hi""`, }")).
Eval vm_compute in ("<<<M702>>>" ++ check (runes_of_ascii "packet u8x{@calculatedFrom( """ ++ [128512]%N ++ runes_of_ascii """ )
rootA @lengthOf(stringy ), lengthOf ,@lengthOf(  u8x )
    i64_ @calculatedFrom( ""a\""b""//x
) ,
@lengthOf( matchKey )
@lengthOf( rootA	) float32 trueish
,  } // " ++ [27880; 37322]%N)).
Eval vm_compute in ("<<<M734>>>" ++ check (runes_of_ascii "options { msg_type
=65535
    ; a1 = """ ++ [128512]%N ++ runes_of_ascii """
; Foo
=  ""\" ++ [233]%N ++ runes_of_ascii """matchKey
=
'0'
; chars = """ ++ [28040; 24687]%N ++ runes_of_ascii """
    //	t
    } packet lengthOf {
// c
//x
} MetaData body
{
    A len // packet A { u8 x, }
`" ++ [28040; 24687; 31867; 22411]%N ++ runes_of_ascii "` ,}
packet
    o{
@rightPad //x
(
'\x00' ) int
// `tick` ""quote"" 'q'
// packet A { u8 x, }
roots , repeat
    u8x
`tab	here`	,
i32 x_y_z @lengthOf( Logon
) `line1
line2`,
    _x
Z9_ , @lengthOf(
zchar )  i32 msg_type `doc`
,	@rightPad ( ' '	) i8 options1
    //
    ,
@lengthOf(packetx) charz
@lengthOf(
// packet A { u8 x, }
// trailing space 
o
    ) , @rightPad ( ' ' ) match /// triple
packetx as leftPad{
    [ ""{,}""  ,
""" ++ [128512]%N ++ runes_of_ascii """
    ]:
    charz	,
    } ,	}
")).
Eval vm_compute in ("<<<T734>>>" ++ terms [mkTok 1 "options" 1 0 false; mkTok 2 "{" 1 8 false; mkTok 42 "msg_type" 1 10 false; mkTok 4 "=" 2 0 false; mkTok 30 "65535" 2 1 false; mkTok 41 ";" 3 4 false; mkTok 42 "a1" 3 6 false; mkTok 4 "=" 3 9 false; mkTok 31 (string_of_bytes [34; 240; 159; 152; 128; 34]%N) 3 11 false; mkTok 41 ";" 4 0 false; mkTok 42 "Foo" 4 2 false; mkTok 4 "=" 5 0 false; mkTok 31 (string_of_bytes [34; 92; 195; 169; 34]%N) 5 3 false; mkTok 42 "matchKey" 5 7 false; mkTok 4 "=" 6 0 false; mkTok 33 "'0'" 7 0 false; mkTok 41 ";" 8 0 false; mkTok 42 "chars" 8 2 false; mkTok 4 "=" 8 8 false; mkTok 31 (string_of_bytes [34; 230; 182; 136; 230; 129; 175; 34]%N) 8 10 false; mkTok 44 (string_of_bytes [47; 47; 9; 116]%N) 9 4 true; mkTok 3 "}" 10 4 false; mkTok 35 "packet" 10 6 false; mkTok 42 "lengthOf" 10 13 false; mkTok 2 "{" 10 22 false; mkTok 44 "// c" 11 0 true; mkTok 44 "//x" 12 0 true; mkTok 3 "}" 13 0 false; mkTok 37 "MetaData" 13 2 false; mkTok 42 "body" 13 11 false; mkTok 2 "{" 14 0 false; mkTok 42 "A" 15 4 false; mkTok 42 "len" 15 6 false; mkTok 44 "// packet A { u8 x, }" 15 10 true; mkTok 43 (string_of_bytes [96; 230; 182; 136; 230; 129; 175; 231; 177; 187; 229; 158; 139; 96]%N) 16 0 false; mkTok 40 "," 16 7 false; mkTok 3 "}" 16 8 false; mkTok 35 "packet" 17 0 false; mkTok 42 "o" 18 4 false; mkTok 2 "{" 18 5 false; mkTok 32 "@rightPad" 19 0 false; mkTok 44 "//x" 19 10 true; mkTok 8 "(" 20 0 false; mkTok 33 "'\x00'" 21 0 false; mkTok 6 ")" 21 7 false; mkTok 42 "int" 21 9 false; mkTok 44 "// `tick` ""quote"" 'q'" 22 0 true; mkTok 44 "// packet A { u8 x, }" 23 0 true; mkTok 42 "roots" 24 0 false; mkTok 40 "," 24 6 false; mkTok 36 "repeat" 24 8 false; mkTok 42 "u8x" 25 4 false; mkTok 43 (string_of_bytes [96; 116; 97; 98; 9; 104; 101; 114; 101; 96]%N) 26 0 false; mkTok 40 "," 26 11 false; mkTok 26 "i32" 27 0 false; mkTok 42 "x_y_z" 27 4 false; mkTok 7 "@lengthOf(" 27 10 false; mkTok 42 "Logon" 27 21 false; mkTok 6 ")" 28 0 false; mkTok 43 (string_of_bytes [96; 108; 105; 110; 101; 49; 10; 108; 105; 110; 101; 50; 96]%N) 28 2 false; mkTok 40 "," 29 6 false; mkTok 42 "_x" 30 4 false; mkTok 42 "Z9_" 31 0 false; mkTok 40 "," 31 4 false; mkTok 7 "@lengthOf(" 31 6 false; mkTok 42 "zchar" 32 0 false; mkTok 6 ")" 32 6 false; mkTok 26 "i32" 32 9 false; mkTok 42 "msg_type" 32 13 false; mkTok 43 "`doc`" 32 22 false; mkTok 40 "," 33 0 false; mkTok 32 "@rightPad" 33 2 false; mkTok 8 "(" 33 12 false; mkTok 33 "' '" 33 14 false; mkTok 6 ")" 33 18 false; mkTok 24 "i8" 33 20 false; mkTok 42 "options1" 33 23 false; mkTok 44 "//" 34 4 true; mkTok 40 "," 35 4 false; mkTok 7 "@lengthOf(" 36 0 false; mkTok 42 "packetx" 36 10 false; mkTok 6 ")" 36 17 false; mkTok 42 "charz" 36 19 false; mkTok 7 "@lengthOf(" 37 0 false; mkTok 44 "// packet A { u8 x, }" 38 0 true; mkTok 44 "// trailing space " 39 0 true; mkTok 42 "o" 40 0 false; mkTok 6 ")" 41 4 false; mkTok 40 "," 41 6 false; mkTok 32 "@rightPad" 41 8 false; mkTok 8 "(" 41 18 false; mkTok 33 "' '" 41 20 false; mkTok 6 ")" 41 24 false; mkTok 38 "match" 41 26 false; mkTok 44 "/// triple" 41 32 true; mkTok 42 "packetx" 42 0 false; mkTok 17 "as" 42 8 false; mkTok 42 "leftPad" 42 11 false; mkTok 2 "{" 42 18 false; mkTok 18 "[" 43 4 false; mkTok 31 """{,}""" 43 6 false; mkTok 40 "," 43 13 false; mkTok 31 (string_of_bytes [34; 240; 159; 152; 128; 34]%N) 44 0 false; mkTok 13 "]" 45 4 false; mkTok 39 ":" 45 5 false; mkTok 42 "charz" 46 4 false; mkTok 40 "," 46 10 false; mkTok 3 "}" 47 4 false; mkTok 40 "," 47 6 false; mkTok 3 "}" 47 8 false; mkTok 0 "<EOF>" 48 0 false] (mkPacket (mkPtok 1 "options" 1 0 0) (Some (mkPtok 3 "}" 47 8 109)) [(DOption (mkOptionDef (mkSpan (mkPtok 1 "options" 1 0 0) (mkPtok 3 "}" 10 4 21)) (mkPtok 1 "options" 1 0 0) (mkPtok 2 "{" 1 8 1) [(mkOptionDecl (mkSpan (mkPtok 42 "msg_type" 1 10 2) (mkPtok 41 ";" 3 4 5)) (mkPtok 42 "msg_type" 1 10 2) (mkPtok 4 "=" 2 0 3) (VDigits (mkSpan (mkPtok 30 "65535" 2 1 4) (mkPtok 30 "65535" 2 1 4)) (mkPtok 30 "65535" 2 1 4)) (Some (mkPtok 41 ";" 3 4 5))); (mkOptionDecl (mkSpan (mkPtok 42 "a1" 3 6 6) (mkPtok 41 ";" 4 0 9)) (mkPtok 42 "a1" 3 6 6) (mkPtok 4 "=" 3 9 7) (VString (mkSpan (mkPtok 31 (string_of_bytes [34; 240; 159; 152; 128; 34]%N) 3 11 8) (mkPtok 31 (string_of_bytes [34; 240; 159; 152; 128; 34]%N) 3 11 8)) (mkPtok 31 (string_of_bytes [34; 240; 159; 152; 128; 34]%N) 3 11 8)) (Some (mkPtok 41 ";" 4 0 9))); (mkOptionDecl (mkSpan (mkPtok 42 "Foo" 4 2 10) (mkPtok 31 (string_of_bytes [34; 92; 195; 169; 34]%N) 5 3 12)) (mkPtok 42 "Foo" 4 2 10) (mkPtok 4 "=" 5 0 11) (VString (mkSpan (mkPtok 31 (string_of_bytes [34; 92; 195; 169; 34]%N) 5 3 12) (mkPtok 31 (string_of_bytes [34; 92; 195; 169; 34]%N) 5 3 12)) (mkPtok 31 (string_of_bytes [34; 92; 195; 169; 34]%N) 5 3 12)) None); (mkOptionDecl (mkSpan (mkPtok 42 "matchKey" 5 7 13) (mkPtok 41 ";" 8 0 16)) (mkPtok 42 "matchKey" 5 7 13) (mkPtok 4 "=" 6 0 14) (VPaddingChar (mkSpan (mkPtok 33 "'0'" 7 0 15) (mkPtok 33 "'0'" 7 0 15)) (mkPtok 33 "'0'" 7 0 15)) (Some (mkPtok 41 ";" 8 0 16))); (mkOptionDecl (mkSpan (mkPtok 42 "chars" 8 2 17) (mkPtok 31 (string_of_bytes [34; 230; 182; 136; 230; 129; 175; 34]%N) 8 10 19)) (mkPtok 42 "chars" 8 2 17) (mkPtok 4 "=" 8 8 18) (VString (mkSpan (mkPtok 31 (string_of_bytes [34; 230; 182; 136; 230; 129; 175; 34]%N) 8 10 19) (mkPtok 31 (string_of_bytes [34; 230; 182; 136; 230; 129; 175; 34]%N) 8 10 19)) (mkPtok 31 (string_of_bytes [34; 230; 182; 136; 230; 129; 175; 34]%N) 8 10 19)) None)] (mkPtok 3 "}" 10 4 21))); (DPacket (mkPacketDef (mkSpan (mkPtok 35 "packet" 10 6 22) (mkPtok 3 "}" 13 0 27)) None (mkPtok 35 "packet" 10 6 22) (mkPtok 42 "lengthOf" 10 13 23) (mkPtok 2 "{" 10 22 24) [] (mkPtok 3 "}" 13 0 27))); (DMeta (mkMetaDef (mkSpan (mkPtok 37 "MetaData" 13 2 28) (mkPtok 3 "}" 16 8 36)) (mkPtok 37 "MetaData" 13 2 28) (mkPtok 42 "body" 13 11 29) (mkPtok 2 "{" 14 0 30) [(MIRef (mkRefMetaDecl (mkSpan (mkPtok 42 "A" 15 4 31) (mkPtok 40 "," 16 7 35)) (mkPtok 42 "A" 15 4 31) (mkPtok 42 "len" 15 6 32) (Some (mkPtok 43 (string_of_bytes [96; 230; 182; 136; 230; 129; 175; 231; 177; 187; 229; 158; 139; 96]%N) 16 0 34)) (mkPtok 40 "," 16 7 35)))] (mkPtok 3 "}" 16 8 36))); (DPacket (mkPacketDef (mkSpan (mkPtok 35 "packet" 17 0 37) (mkPtok 3 "}" 47 8 109)) None (mkPtok 35 "packet" 17 0 37) (mkPtok 42 "o" 18 4 38) (mkPtok 2 "{" 18 5 39) [(mkFieldWithAttr (mkSpan (mkPtok 32 "@rightPad" 19 0 40) (mkPtok 40 "," 24 6 49)) [(FAPadding (mkSpan (mkPtok 32 "@rightPad" 19 0 40) (mkPtok 6 ")" 21 7 44)) (mkPaddingAttr (mkSpan (mkPtok 32 "@rightPad" 19 0 40) (mkPtok 6 ")" 21 7 44)) (mkPtok 32 "@rightPad" 19 0 40) (mkPtok 8 "(" 20 0 42) (Some (mkPtok 33 "'\x00'" 21 0 43)) (mkPtok 6 ")" 21 7 44)))] (ObjectField (mkSpan (mkPtok 42 "int" 21 9 45) (mkPtok 40 "," 24 6 49)) None (mkPtok 42 "int" 21 9 45) (Some (mkPtok 42 "roots" 24 0 48)) None (mkPtok 40 "," 24 6 49))); (mkFieldWithAttr (mkSpan (mkPtok 36 "repeat" 24 8 50) (mkPtok 40 "," 26 11 53)) [] (ObjectField (mkSpan (mkPtok 36 "repeat" 24 8 50) (mkPtok 40 "," 26 11 53)) (Some (mkPtok 36 "repeat" 24 8 50)) (mkPtok 42 "u8x" 25 4 51) None (Some (mkPtok 43 (string_of_bytes [96; 116; 97; 98; 9; 104; 101; 114; 101; 96]%N) 26 0 52)) (mkPtok 40 "," 26 11 53))); (mkFieldWithAttr (mkSpan (mkPtok 26 "i32" 27 0 54) (mkPtok 40 "," 29 6 60)) [] (LengthField (mkSpan (mkPtok 26 "i32" 27 0 54) (mkPtok 40 "," 29 6 60)) (mkLengthFieldDecl (mkSpan (mkPtok 26 "i32" 27 0 54) (mkPtok 40 "," 29 6 60)) (Some (TyBasic (mkSpan (mkPtok 26 "i32" 27 0 54) (mkPtok 26 "i32" 27 0 54)) (mkBasicType (mkSpan (mkPtok 26 "i32" 27 0 54) (mkPtok 26 "i32" 27 0 54)) (mkPtok 26 "i32" 27 0 54)))) (mkPtok 42 "x_y_z" 27 4 55) (mkLengthOf (mkSpan (mkPtok 7 "@lengthOf(" 27 10 56) (mkPtok 6 ")" 28 0 58)) (mkPtok 7 "@lengthOf(" 27 10 56) (mkPtok 42 "Logon" 27 21 57) (mkPtok 6 ")" 28 0 58)) (Some (mkPtok 43 (string_of_bytes [96; 108; 105; 110; 101; 49; 10; 108; 105; 110; 101; 50; 96]%N) 28 2 59)) (mkPtok 40 "," 29 6 60)))); (mkFieldWithAttr (mkSpan (mkPtok 42 "_x" 30 4 61) (mkPtok 40 "," 31 4 63)) [] (ObjectField (mkSpan (mkPtok 42 "_x" 30 4 61) (mkPtok 40 "," 31 4 63)) None (mkPtok 42 "_x" 30 4 61) (Some (mkPtok 42 "Z9_" 31 0 62)) None (mkPtok 40 "," 31 4 63))); (mkFieldWithAttr (mkSpan (mkPtok 7 "@lengthOf(" 31 6 64) (mkPtok 40 "," 33 0 70)) [(FALengthOf (mkSpan (mkPtok 7 "@lengthOf(" 31 6 64) (mkPtok 6 ")" 32 6 66)) (mkLengthOf (mkSpan (mkPtok 7 "@lengthOf(" 31 6 64) (mkPtok 6 ")" 32 6 66)) (mkPtok 7 "@lengthOf(" 31 6 64) (mkPtok 42 "zchar" 32 0 65) (mkPtok 6 ")" 32 6 66)))] (MetaField (mkSpan (mkPtok 26 "i32" 32 9 67) (mkPtok 40 "," 33 0 70)) None (mkMetaDecl (mkSpan (mkPtok 26 "i32" 32 9 67) (mkPtok 40 "," 33 0 70)) (TyBasic (mkSpan (mkPtok 26 "i32" 32 9 67) (mkPtok 26 "i32" 32 9 67)) (mkBasicType (mkSpan (mkPtok 26 "i32" 32 9 67) (mkPtok 26 "i32" 32 9 67)) (mkPtok 26 "i32" 32 9 67))) (mkPtok 42 "msg_type" 32 13 68) (Some (mkPtok 43 "`doc`" 32 22 69)) (mkPtok 40 "," 33 0 70)))); (mkFieldWithAttr (mkSpan (mkPtok 32 "@rightPad" 33 2 71) (mkPtok 40 "," 35 4 78)) [(FAPadding (mkSpan (mkPtok 32 "@rightPad" 33 2 71) (mkPtok 6 ")" 33 18 74)) (mkPaddingAttr (mkSpan (mkPtok 32 "@rightPad" 33 2 71) (mkPtok 6 ")" 33 18 74)) (mkPtok 32 "@rightPad" 33 2 71) (mkPtok 8 "(" 33 12 72) (Some (mkPtok 33 "' '" 33 14 73)) (mkPtok 6 ")" 33 18 74)))] (MetaField (mkSpan (mkPtok 24 "i8" 33 20 75) (mkPtok 40 "," 35 4 78)) None (mkMetaDecl (mkSpan (mkPtok 24 "i8" 33 20 75) (mkPtok 40 "," 35 4 78)) (TyBasic (mkSpan (mkPtok 24 "i8" 33 20 75) (mkPtok 24 "i8" 33 20 75)) (mkBasicType (mkSpan (mkPtok 24 "i8" 33 20 75) (mkPtok 24 "i8" 33 20 75)) (mkPtok 24 "i8" 33 20 75))) (mkPtok 42 "options1" 33 23 76) None (mkPtok 40 "," 35 4 78)))); (mkFieldWithAttr (mkSpan (mkPtok 7 "@lengthOf(" 36 0 79) (mkPtok 40 "," 41 6 88)) [(FALengthOf (mkSpan (mkPtok 7 "@lengthOf(" 36 0 79) (mkPtok 6 ")" 36 17 81)) (mkLengthOf (mkSpan (mkPtok 7 "@lengthOf(" 36 0 79) (mkPtok 6 ")" 36 17 81)) (mkPtok 7 "@lengthOf(" 36 0 79) (mkPtok 42 "packetx" 36 10 80) (mkPtok 6 ")" 36 17 81)))] (LengthField (mkSpan (mkPtok 42 "charz" 36 19 82) (mkPtok 40 "," 41 6 88)) (mkLengthFieldDecl (mkSpan (mkPtok 42 "charz" 36 19 82) (mkPtok 40 "," 41 6 88)) None (mkPtok 42 "charz" 36 19 82) (mkLengthOf (mkSpan (mkPtok 7 "@lengthOf(" 37 0 83) (mkPtok 6 ")" 41 4 87)) (mkPtok 7 "@lengthOf(" 37 0 83) (mkPtok 42 "o" 40 0 86) (mkPtok 6 ")" 41 4 87)) None (mkPtok 40 "," 41 6 88)))); (mkFieldWithAttr (mkSpan (mkPtok 32 "@rightPad" 41 8 89) (mkPtok 40 "," 47 6 108)) [(FAPadding (mkSpan (mkPtok 32 "@rightPad" 41 8 89) (mkPtok 6 ")" 41 24 92)) (mkPaddingAttr (mkSpan (mkPtok 32 "@rightPad" 41 8 89) (mkPtok 6 ")" 41 24 92)) (mkPtok 32 "@rightPad" 41 8 89) (mkPtok 8 "(" 41 18 90) (Some (mkPtok 33 "' '" 41 20 91)) (mkPtok 6 ")" 41 24 92)))] (MatchField (mkSpan (mkPtok 38 "match" 41 26 93) (mkPtok 40 "," 47 6 108)) (mkMatchFieldDecl (mkSpan (mkPtok 38 "match" 41 26 93) (mkPtok 3 "}" 47 4 107)) (mkPtok 38 "match" 41 26 93) (mkPtok 42 "packetx" 42 0 95) (mkPtok 17 "as" 42 8 96) (mkPtok 42 "leftPad" 42 11 97) (mkPtok 2 "{" 42 18 98) [(mkMatchPair (mkSpan (mkPtok 18 "[" 43 4 99) (mkPtok 40 "," 46 10 106)) (MKList (mkKeyList (mkSpan (mkPtok 18 "[" 43 4 99) (mkPtok 13 "]" 45 4 103)) (mkPtok 18 "[" 43 4 99) (mkPtok 31 """{,}""" 43 6 100) [((mkPtok 40 "," 43 13 101), (mkPtok 31 (string_of_bytes [34; 240; 159; 152; 128; 34]%N) 44 0 102))] (mkPtok 13 "]" 45 4 103))) (mkPtok 39 ":" 45 5 104) (mkPtok 42 "charz" 46 4 105) (Some (mkPtok 40 "," 46 10 106)))] (mkPtok 3 "}" 47 4 107)) (mkPtok 40 "," 47 6 108)))] (mkPtok 3 "}" 47 8 109)))])).
Eval vm_compute in ("<<<M766>>>" ++ check (runes_of_ascii "packet// `tick` ""quote"" 'q'
A{ match packetx as As {	007 :body , [255
    ,
""\" ++ [233]%N ++ runes_of_ascii """,
65535 ,""a	b"" ]: float[255 , ""a\""b"" ]
:
i64_  } , @calculatedFrom( ""\" ++ [233]%N ++ runes_of_ascii """ ) @calculatedFrom(
""CRC32""
)//
Z9_@calculatedFrom( ""it's"" ) `
` ,} MetaData calculatedFrom
{
    i16 len // c
, zchar[
    42
    ]
    A
`{ , }`
,string tag `doc` ,float
    matchKey,
char[ 7
    ] len `
` ,
// `tick` ""quote"" 'q'
//
}root packet int {
@lengthOf(
int)  i8  u @lengthOf(len ),
} options { }
")).
Eval vm_compute in ("<<<M798>>>" ++ check (runes_of_ascii "MetaData	metadata{/// triple
packetx Packet ,
    // trailing space 
    chars body , char[]MetaDataX ,u32
    stringy ,float32
packetx `" ++ [28040; 24687; 31867; 22411]%N ++ runes_of_ascii "` , }options {
    lengthOf
    = uint16 ; pack
='0'
; charz //x
=
char[]
    ;	u // trailing space 
= f64 ;
    options1  = float32
    ; }root // packet A { u8 x, }
packet charz //x
{ repeat
uint32 float, stringy , // packet A { u8 x, }
uint8x  {chars
    { match Foo as u8x {""a\\"":
int // a // b
,
    }
    , string
Z9_  @calculatedFrom(
    // packet A { u8 x, }
    """ ++ [28040; 24687]%N ++ runes_of_ascii """ ) `// not a comment` ,
match trueish
as MetaDataX {
[ 0  ,  ""CRC32"" ,007
    // a // b
    ,007	, 0123456789 ] // packet A { u8 x, }
: Foo
    255 : falsey
    , 007 :
    _x 255 :
    Header
    007 :lengthOf""{,}""  : Header , } ,
}
, zchar[ 65535  ] leftPad `line1
line2` , char[ 007
] Z9_  @lengthOf(
u8x  ) ,
} , }
")).
Eval vm_compute in ("<<<M830>>>" ++ check (runes_of_ascii "options {repeatCount
= int64 u8x =
//	t
// packet A { u8 x, }
' '
;
}
// " ++ [27880; 37322]%N ++ runes_of_ascii "
")).
Eval vm_compute in ("<<<M862>>>" ++ check (runes_of_ascii "
options  {u =	uint16
i8i8 =i8 ; string_ = false ;asx= true lengthOf
=
0123456789
    ;
}
")).
Eval vm_compute in ("<<<M894>>>" ++ check (runes_of_ascii "
packet
    uint8x { @leftPad( '\x00' ) float32 x_y_z @lengthOf( x ) `a\` ,	int32
Header,match
    asx as
    string_ {"""" :
    lengthOf, 1 : uint8x , } , repeat /// triple
a1 { repeat
zchar[0	] Packet , // trailing space 
char falsey@calculatedFrom( /// triple
""1""), }
,
    } // " ++ [128512]%N ++ runes_of_ascii " emoji")).
Eval vm_compute in ("<<<M926>>>" ++ check (runes_of_ascii "options	{ T = // packet A { u8 x, }
true;_x = false	; A
= ""{,}"" ; leftPad=	zchar[ 0 ] ; trueish=
1 ;//
}")).
Eval vm_compute in ("<<<M958>>>" ++ check (runes_of_ascii "packet leftPad{	char[]
matchKey@lengthOf( MetaDataX ) , }
options
{
}
    packet
    f32a {
@lengthOf(
int
) @leftPad
('\x00' )
@calculatedFrom(
""\" ++ [233]%N ++ runes_of_ascii """
    // a // b
    )  repeat
    T BodyLength ,@leftPad
('\x00' )uint16 body @calculatedFrom(  ""{,}"" ) `" ++ [233]%N ++ runes_of_ascii "` , @leftPad	(  ' '
    // trailing space 
    )
    match Z9_ as Foo // a // b
{ 7
: MetaDataX
,
    4294967296 :// c
options1 , ""x y"" :
A} ,	repeat zchar[
    10 //x
] f32a
    `it's`//
, // trailing space 
} packet x_y_z{ uint32 _x
    , MetaDataX { trueish metadata  ,char[
    // " ++ [128512]%N ++ runes_of_ascii " emoji
    42 ]
// " ++ [27880; 37322]%N ++ runes_of_ascii "
//	t
falsey, } //x
, char[] packetx//
`it's`  , falsey , repeat metadata `it's` ,//x
@tag(
42)
x
@calculatedFrom(	""x y"" ) , @lengthOf( float // a // b
)
    // packet A { u8 x, }
    repeat Foo{ asx
// a // b
// " ++ [128512]%N ++ runes_of_ascii " emoji
{ repeat char[]crc	`a\`, repeat A ,
} , u  Packet `say ""hi""`, roots @calculatedFrom(/// triple
""{,}"" // trailing space 
) , zchar[ 65535
]
f32a @lengthOf( o) ,  }
    ,
// @lengthOf(
// @lengthOf(
}")).
Eval vm_compute in ("<<<T958>>>" ++ terms [mkTok 35 "packet" 1 0 false; mkTok 42 "leftPad" 1 7 false; mkTok 2 "{" 1 14 false; mkTok 16 "char[]" 1 16 false; mkTok 42 "matchKey" 2 0 false; mkTok 7 "@lengthOf(" 2 8 false; mkTok 42 "MetaDataX" 2 19 false; mkTok 6 ")" 2 29 false; mkTok 40 "," 2 31 false; mkTok 3 "}" 2 33 false; mkTok 1 "options" 3 0 false; mkTok 2 "{" 4 0 false; mkTok 3 "}" 5 0 false; mkTok 35 "packet" 6 4 false; mkTok 42 "f32a" 7 4 false; mkTok 2 "{" 7 9 false; mkTok 7 "@lengthOf(" 8 0 false; mkTok 42 "int" 9 0 false; mkTok 6 ")" 10 0 false; mkTok 32 "@leftPad" 10 2 false; mkTok 8 "(" 11 0 false; mkTok 33 "'\x00'" 11 1 false; mkTok 6 ")" 11 8 false; mkTok 5 "@calculatedFrom(" 12 0 false; mkTok 31 (string_of_bytes [34; 92; 195; 169; 34]%N) 13 0 false; mkTok 44 "// a // b" 14 4 true; mkTok 6 ")" 15 4 false; mkTok 36 "repeat" 15 7 false; mkTok 42 "T" 16 4 false; mkTok 42 "BodyLength" 16 6 false; mkTok 40 "," 16 17 false; mkTok 32 "@leftPad" 16 18 false; mkTok 8 "(" 17 0 false; mkTok 33 "'\x00'" 17 1 false; mkTok 6 ")" 17 8 false; mkTok 21 "uint16" 17 9 false; mkTok 42 "body" 17 16 false; mkTok 5 "@calculatedFrom(" 17 21 false; mkTok 31 """{,}""" 17 39 false; mkTok 6 ")" 17 45 false; mkTok 43 (string_of_bytes [96; 195; 169; 96]%N) 17 47 false; mkTok 40 "," 17 51 false; mkTok 32 "@leftPad" 17 53 false; mkTok 8 "(" 17 62 false; mkTok 33 "' '" 17 65 false; mkTok 44 "// trailing space " 18 4 true; mkTok 6 ")" 19 4 false; mkTok 38 "match" 20 4 false; mkTok 42 "Z9_" 20 10 false; mkTok 17 "as" 20 14 false; mkTok 42 "Foo" 20 17 false; mkTok 44 "// a // b" 20 21 true; mkTok 2 "{" 21 0 false; mkTok 30 "7" 21 2 false; mkTok 39 ":" 22 0 false; mkTok 42 "MetaDataX" 22 2 false; mkTok 40 "," 23 0 false; mkTok 30 "4294967296" 24 4 false; mkTok 39 ":" 24 15 false; mkTok 44 "// c" 24 16 true; mkTok 42 "options1" 25 0 false; mkTok 40 "," 25 9 false; mkTok 31 """x y""" 25 11 false; mkTok 39 ":" 25 17 false; mkTok 42 "A" 26 0 false; mkTok 3 "}" 26 1 false; mkTok 40 "," 26 3 false; mkTok 36 "repeat" 26 5 false; mkTok 14 "zchar[" 26 12 false; mkTok 30 "10" 27 4 false; mkTok 44 "//x" 27 7 true; mkTok 13 "]" 28 0 false; mkTok 42 "f32a" 28 2 false; mkTok 43 "`it's`" 29 4 false; mkTok 44 "//" 29 10 true; mkTok 40 "," 30 0 false; mkTok 44 "// trailing space " 30 2 true; mkTok 3 "}" 31 0 false; mkTok 35 "packet" 31 2 false; mkTok 42 "x_y_z" 31 9 false; mkTok 2 "{" 31 14 false; mkTok 22 "uint32" 31 16 false; mkTok 42 "_x" 31 23 false; mkTok 40 "," 32 4 false; mkTok 42 "MetaDataX" 32 6 false; mkTok 2 "{" 32 16 false; mkTok 42 "trueish" 32 18 false; mkTok 42 "metadata" 32 26 false; mkTok 40 "," 32 36 false; mkTok 12 "char[" 32 37 false; mkTok 44 (string_of_bytes [47; 47; 32; 240; 159; 152; 128; 32; 101; 109; 111; 106; 105]%N) 33 4 true; mkTok 30 "42" 34 4 false; mkTok 13 "]" 34 7 false; mkTok 44 (string_of_bytes [47; 47; 32; 230; 179; 168; 233; 135; 138]%N) 35 0 true; mkTok 44 (string_of_bytes [47; 47; 9; 116]%N) 36 0 true; mkTok 42 "falsey" 37 0 false; mkTok 40 "," 37 6 false; mkTok 3 "}" 37 8 false; mkTok 44 "//x" 37 10 true; mkTok 40 "," 38 0 false; mkTok 16 "char[]" 38 2 false; mkTok 42 "packetx" 38 9 false; mkTok 44 "//" 38 16 true; mkTok 43 "`it's`" 39 0 false; mkTok 40 "," 39 8 false; mkTok 42 "falsey" 39 10 false; mkTok 40 "," 39 17 false; mkTok 36 "repeat" 39 19 false; mkTok 42 "metadata" 39 26 false; mkTok 43 "`it's`" 39 35 false; mkTok 40 "," 39 42 false; mkTok 44 "//x" 39 43 true; mkTok 9 "@tag(" 40 0 false; mkTok 30 "42" 41 0 false; mkTok 6 ")" 41 2 false; mkTok 42 "x" 42 0 false; mkTok 5 "@calculatedFrom(" 43 0 false; mkTok 31 """x y""" 43 17 false; mkTok 6 ")" 43 23 false; mkTok 40 "," 43 25 false; mkTok 7 "@lengthOf(" 43 27 false; mkTok 42 "float" 43 38 false; mkTok 44 "// a // b" 43 44 true; mkTok 6 ")" 44 0 false; mkTok 44 "// packet A { u8 x, }" 45 4 true; mkTok 36 "repeat" 46 4 false; mkTok 42 "Foo" 46 11 false; mkTok 2 "{" 46 14 false; mkTok 42 "asx" 46 16 false; mkTok 44 "// a // b" 47 0 true; mkTok 44 (string_of_bytes [47; 47; 32; 240; 159; 152; 128; 32; 101; 109; 111; 106; 105]%N) 48 0 true; mkTok 2 "{" 49 0 false; mkTok 36 "repeat" 49 2 false; mkTok 16 "char[]" 49 9 false; mkTok 42 "crc" 49 15 false; mkTok 43 "`a\`" 49 19 false; mkTok 40 "," 49 23 false; mkTok 36 "repeat" 49 25 false; mkTok 42 "A" 49 32 false; mkTok 40 "," 49 34 false; mkTok 3 "}" 50 0 false; mkTok 40 "," 50 2 false; mkTok 42 "u" 50 4 false; mkTok 42 "Packet" 50 7 false; mkTok 43 "`say ""hi""`" 50 14 false; mkTok 40 "," 50 24 false; mkTok 42 "roots" 50 26 false; mkTok 5 "@calculatedFrom(" 50 32 false; mkTok 44 "/// triple" 50 48 true; mkTok 31 """{,}""" 51 0 false; mkTok 44 "// trailing space " 51 6 true; mkTok 6 ")" 52 0 false; mkTok 40 "," 52 2 false; mkTok 14 "zchar[" 52 4 false; mkTok 30 "65535" 52 11 false; mkTok 13 "]" 53 0 false; mkTok 42 "f32a" 54 0 false; mkTok 7 "@lengthOf(" 54 5 false; mkTok 42 "o" 54 16 false; mkTok 6 ")" 54 17 false; mkTok 40 "," 54 19 false; mkTok 3 "}" 54 22 false; mkTok 40 "," 55 4 false; mkTok 44 "// @lengthOf(" 56 0 true; mkTok 44 "// @lengthOf(" 57 0 true; mkTok 3 "}" 58 0 false; mkTok 0 "<EOF>" 58 1 false] (mkPacket (mkPtok 35 "packet" 1 0 0) (Some (mkPtok 3 "}" 58 0 165)) [(DPacket (mkPacketDef (mkSpan (mkPtok 35 "packet" 1 0 0) (mkPtok 3 "}" 2 33 9)) None (mkPtok 35 "packet" 1 0 0) (mkPtok 42 "leftPad" 1 7 1) (mkPtok 2 "{" 1 14 2) [(mkFieldWithAttr (mkSpan (mkPtok 16 "char[]" 1 16 3) (mkPtok 40 "," 2 31 8)) [] (LengthField (mkSpan (mkPtok 16 "char[]" 1 16 3) (mkPtok 40 "," 2 31 8)) (mkLengthFieldDecl (mkSpan (mkPtok 16 "char[]" 1 16 3) (mkPtok 40 "," 2 31 8)) (Some (TyDynamic (mkSpan (mkPtok 16 "char[]" 1 16 3) (mkPtok 16 "char[]" 1 16 3)) (mkDynamicString (mkSpan (mkPtok 16 "char[]" 1 16 3) (mkPtok 16 "char[]" 1 16 3)) (mkPtok 16 "char[]" 1 16 3)))) (mkPtok 42 "matchKey" 2 0 4) (mkLengthOf (mkSpan (mkPtok 7 "@lengthOf(" 2 8 5) (mkPtok 6 ")" 2 29 7)) (mkPtok 7 "@lengthOf(" 2 8 5) (mkPtok 42 "MetaDataX" 2 19 6) (mkPtok 6 ")" 2 29 7)) None (mkPtok 40 "," 2 31 8))))] (mkPtok 3 "}" 2 33 9))); (DOption (mkOptionDef (mkSpan (mkPtok 1 "options" 3 0 10) (mkPtok 3 "}" 5 0 12)) (mkPtok 1 "options" 3 0 10) (mkPtok 2 "{" 4 0 11) [] (mkPtok 3 "}" 5 0 12))); (DPacket (mkPacketDef (mkSpan (mkPtok 35 "packet" 6 4 13) (mkPtok 3 "}" 31 0 77)) None (mkPtok 35 "packet" 6 4 13) (mkPtok 42 "f32a" 7 4 14) (mkPtok 2 "{" 7 9 15) [(mkFieldWithAttr (mkSpan (mkPtok 7 "@lengthOf(" 8 0 16) (mkPtok 40 "," 16 17 30)) [(FALengthOf (mkSpan (mkPtok 7 "@lengthOf(" 8 0 16) (mkPtok 6 ")" 10 0 18)) (mkLengthOf (mkSpan (mkPtok 7 "@lengthOf(" 8 0 16) (mkPtok 6 ")" 10 0 18)) (mkPtok 7 "@lengthOf(" 8 0 16) (mkPtok 42 "int" 9 0 17) (mkPtok 6 ")" 10 0 18))); (FAPadding (mkSpan (mkPtok 32 "@leftPad" 10 2 19) (mkPtok 6 ")" 11 8 22)) (mkPaddingAttr (mkSpan (mkPtok 32 "@leftPad" 10 2 19) (mkPtok 6 ")" 11 8 22)) (mkPtok 32 "@leftPad" 10 2 19) (mkPtok 8 "(" 11 0 20) (Some (mkPtok 33 "'\x00'" 11 1 21)) (mkPtok 6 ")" 11 8 22))); (FACalculatedFrom (mkSpan (mkPtok 5 "@calculatedFrom(" 12 0 23) (mkPtok 6 ")" 15 4 26)) (mkCalculatedFrom (mkSpan (mkPtok 5 "@calculatedFrom(" 12 0 23) (mkPtok 6 ")" 15 4 26)) (mkPtok 5 "@calculatedFrom(" 12 0 23) (mkPtok 31 (string_of_bytes [34; 92; 195; 169; 34]%N) 13 0 24) (mkPtok 6 ")" 15 4 26)))] (ObjectField (mkSpan (mkPtok 36 "repeat" 15 7 27) (mkPtok 40 "," 16 17 30)) (Some (mkPtok 36 "repeat" 15 7 27)) (mkPtok 42 "T" 16 4 28) (Some (mkPtok 42 "BodyLength" 16 6 29)) None (mkPtok 40 "," 16 17 30))); (mkFieldWithAttr (mkSpan (mkPtok 32 "@leftPad" 16 18 31) (mkPtok 40 "," 17 51 41)) [(FAPadding (mkSpan (mkPtok 32 "@leftPad" 16 18 31) (mkPtok 6 ")" 17 8 34)) (mkPaddingAttr (mkSpan (mkPtok 32 "@leftPad" 16 18 31) (mkPtok 6 ")" 17 8 34)) (mkPtok 32 "@leftPad" 16 18 31) (mkPtok 8 "(" 17 0 32) (Some (mkPtok 33 "'\x00'" 17 1 33)) (mkPtok 6 ")" 17 8 34)))] (CheckSumField (mkSpan (mkPtok 21 "uint16" 17 9 35) (mkPtok 40 "," 17 51 41)) (mkChecksumFieldDecl (mkSpan (mkPtok 21 "uint16" 17 9 35) (mkPtok 40 "," 17 51 41)) (Some (TyBasic (mkSpan (mkPtok 21 "uint16" 17 9 35) (mkPtok 21 "uint16" 17 9 35)) (mkBasicType (mkSpan (mkPtok 21 "uint16" 17 9 35) (mkPtok 21 "uint16" 17 9 35)) (mkPtok 21 "uint16" 17 9 35)))) (mkPtok 42 "body" 17 16 36) (mkCalculatedFrom (mkSpan (mkPtok 5 "@calculatedFrom(" 17 21 37) (mkPtok 6 ")" 17 45 39)) (mkPtok 5 "@calculatedFrom(" 17 21 37) (mkPtok 31 """{,}""" 17 39 38) (mkPtok 6 ")" 17 45 39)) (Some (mkPtok 43 (string_of_bytes [96; 195; 169; 96]%N) 17 47 40)) (mkPtok 40 "," 17 51 41)))); (mkFieldWithAttr (mkSpan (mkPtok 32 "@leftPad" 17 53 42) (mkPtok 40 "," 26 3 66)) [(FAPadding (mkSpan (mkPtok 32 "@leftPad" 17 53 42) (mkPtok 6 ")" 19 4 46)) (mkPaddingAttr (mkSpan (mkPtok 32 "@leftPad" 17 53 42) (mkPtok 6 ")" 19 4 46)) (mkPtok 32 "@leftPad" 17 53 42) (mkPtok 8 "(" 17 62 43) (Some (mkPtok 33 "' '" 17 65 44)) (mkPtok 6 ")" 19 4 46)))] (MatchField (mkSpan (mkPtok 38 "match" 20 4 47) (mkPtok 40 "," 26 3 66)) (mkMatchFieldDecl (mkSpan (mkPtok 38 "match" 20 4 47) (mkPtok 3 "}" 26 1 65)) (mkPtok 38 "match" 20 4 47) (mkPtok 42 "Z9_" 20 10 48) (mkPtok 17 "as" 20 14 49) (mkPtok 42 "Foo" 20 17 50) (mkPtok 2 "{" 21 0 52) [(mkMatchPair (mkSpan (mkPtok 30 "7" 21 2 53) (mkPtok 40 "," 23 0 56)) (MKDigits (mkPtok 30 "7" 21 2 53)) (mkPtok 39 ":" 22 0 54) (mkPtok 42 "MetaDataX" 22 2 55) (Some (mkPtok 40 "," 23 0 56))); (mkMatchPair (mkSpan (mkPtok 30 "4294967296" 24 4 57) (mkPtok 40 "," 25 9 61)) (MKDigits (mkPtok 30 "4294967296" 24 4 57)) (mkPtok 39 ":" 24 15 58) (mkPtok 42 "options1" 25 0 60) (Some (mkPtok 40 "," 25 9 61))); (mkMatchPair (mkSpan (mkPtok 31 """x y""" 25 11 62) (mkPtok 42 "A" 26 0 64)) (MKString (mkPtok 31 """x y""" 25 11 62)) (mkPtok 39 ":" 25 17 63) (mkPtok 42 "A" 26 0 64) None)] (mkPtok 3 "}" 26 1 65)) (mkPtok 40 "," 26 3 66))); (mkFieldWithAttr (mkSpan (mkPtok 36 "repeat" 26 5 67) (mkPtok 40 "," 30 0 75)) [] (MetaField (mkSpan (mkPtok 36 "repeat" 26 5 67) (mkPtok 40 "," 30 0 75)) (Some (mkPtok 36 "repeat" 26 5 67)) (mkMetaDecl (mkSpan (mkPtok 14 "zchar[" 26 12 68) (mkPtok 40 "," 30 0 75)) (TyFixed (mkSpan (mkPtok 14 "zchar[" 26 12 68) (mkPtok 13 "]" 28 0 71)) (mkFixedString (mkSpan (mkPtok 14 "zchar[" 26 12 68) (mkPtok 13 "]" 28 0 71)) (mkPtok 14 "zchar[" 26 12 68) (mkPtok 30 "10" 27 4 69) (mkPtok 13 "]" 28 0 71))) (mkPtok 42 "f32a" 28 2 72) (Some (mkPtok 43 "`it's`" 29 4 73)) (mkPtok 40 "," 30 0 75))))] (mkPtok 3 "}" 31 0 77))); (DPacket (mkPacketDef (mkSpan (mkPtok 35 "packet" 31 2 78) (mkPtok 3 "}" 58 0 165)) None (mkPtok 35 "packet" 31 2 78) (mkPtok 42 "x_y_z" 31 9 79) (mkPtok 2 "{" 31 14 80) [(mkFieldWithAttr (mkSpan (mkPtok 22 "uint32" 31 16 81) (mkPtok 40 "," 32 4 83)) [] (MetaField (mkSpan (mkPtok 22 "uint32" 31 16 81) (mkPtok 40 "," 32 4 83)) None (mkMetaDecl (mkSpan (mkPtok 22 "uint32" 31 16 81) (mkPtok 40 "," 32 4 83)) (TyBasic (mkSpan (mkPtok 22 "uint32" 31 16 81) (mkPtok 22 "uint32" 31 16 81)) (mkBasicType (mkSpan (mkPtok 22 "uint32" 31 16 81) (mkPtok 22 "uint32" 31 16 81)) (mkPtok 22 "uint32" 31 16 81))) (mkPtok 42 "_x" 31 23 82) None (mkPtok 40 "," 32 4 83)))); (mkFieldWithAttr (mkSpan (mkPtok 42 "MetaDataX" 32 6 84) (mkPtok 40 "," 38 0 99)) [] (InerObjectField (mkSpan (mkPtok 42 "MetaDataX" 32 6 84) (mkPtok 40 "," 38 0 99)) None (InerObjectDecl (mkSpan (mkPtok 42 "MetaDataX" 32 6 84) (mkPtok 3 "}" 37 8 97)) (mkPtok 42 "MetaDataX" 32 6 84) (mkPtok 2 "{" 32 16 85) [(ObjectField (mkSpan (mkPtok 42 "trueish" 32 18 86) (mkPtok 40 "," 32 36 88)) None (mkPtok 42 "trueish" 32 18 86) (Some (mkPtok 42 "metadata" 32 26 87)) None (mkPtok 40 "," 32 36 88)); (MetaField (mkSpan (mkPtok 12 "char[" 32 37 89) (mkPtok 40 "," 37 6 96)) None (mkMetaDecl (mkSpan (mkPtok 12 "char[" 32 37 89) (mkPtok 40 "," 37 6 96)) (TyFixed (mkSpan (mkPtok 12 "char[" 32 37 89) (mkPtok 13 "]" 34 7 92)) (mkFixedString (mkSpan (mkPtok 12 "char[" 32 37 89) (mkPtok 13 "]" 34 7 92)) (mkPtok 12 "char[" 32 37 89) (mkPtok 30 "42" 34 4 91) (mkPtok 13 "]" 34 7 92))) (mkPtok 42 "falsey" 37 0 95) None (mkPtok 40 "," 37 6 96)))] (mkPtok 3 "}" 37 8 97)) (mkPtok 40 "," 38 0 99))); (mkFieldWithAttr (mkSpan (mkPtok 16 "char[]" 38 2 100) (mkPtok 40 "," 39 8 104)) [] (MetaField (mkSpan (mkPtok 16 "char[]" 38 2 100) (mkPtok 40 "," 39 8 104)) None (mkMetaDecl (mkSpan (mkPtok 16 "char[]" 38 2 100) (mkPtok 40 "," 39 8 104)) (TyDynamic (mkSpan (mkPtok 16 "char[]" 38 2 100) (mkPtok 16 "char[]" 38 2 100)) (mkDynamicString (mkSpan (mkPtok 16 "char[]" 38 2 100) (mkPtok 16 "char[]" 38 2 100)) (mkPtok 16 "char[]" 38 2 100))) (mkPtok 42 "packetx" 38 9 101) (Some (mkPtok 43 "`it's`" 39 0 103)) (mkPtok 40 "," 39 8 104)))); (mkFieldWithAttr (mkSpan (mkPtok 42 "falsey" 39 10 105) (mkPtok 40 "," 39 17 106)) [] (ObjectField (mkSpan (mkPtok 42 "falsey" 39 10 105) (mkPtok 40 "," 39 17 106)) None (mkPtok 42 "falsey" 39 10 105) None None (mkPtok 40 "," 39 17 106))); (mkFieldWithAttr (mkSpan (mkPtok 36 "repeat" 39 19 107) (mkPtok 40 "," 39 42 110)) [] (ObjectField (mkSpan (mkPtok 36 "repeat" 39 19 107) (mkPtok 40 "," 39 42 110)) (Some (mkPtok 36 "repeat" 39 19 107)) (mkPtok 42 "metadata" 39 26 108) None (Some (mkPtok 43 "`it's`" 39 35 109)) (mkPtok 40 "," 39 42 110))); (mkFieldWithAttr (mkSpan (mkPtok 9 "@tag(" 40 0 112) (mkPtok 40 "," 43 25 119)) [(FATag (mkSpan (mkPtok 9 "@tag(" 40 0 112) (mkPtok 6 ")" 41 2 114)) (mkTagAttr (mkSpan (mkPtok 9 "@tag(" 40 0 112) (mkPtok 6 ")" 41 2 114)) (mkPtok 9 "@tag(" 40 0 112) (mkPtok 30 "42" 41 0 113) (mkPtok 6 ")" 41 2 114)))] (CheckSumField (mkSpan (mkPtok 42 "x" 42 0 115) (mkPtok 40 "," 43 25 119)) (mkChecksumFieldDecl (mkSpan (mkPtok 42 "x" 42 0 115) (mkPtok 40 "," 43 25 119)) None (mkPtok 42 "x" 42 0 115) (mkCalculatedFrom (mkSpan (mkPtok 5 "@calculatedFrom(" 43 0 116) (mkPtok 6 ")" 43 23 118)) (mkPtok 5 "@calculatedFrom(" 43 0 116) (mkPtok 31 """x y""" 43 17 117) (mkPtok 6 ")" 43 23 118)) None (mkPtok 40 "," 43 25 119)))); (mkFieldWithAttr (mkSpan (mkPtok 7 "@lengthOf(" 43 27 120) (mkPtok 40 "," 55 4 162)) [(FALengthOf (mkSpan (mkPtok 7 "@lengthOf(" 43 27 120) (mkPtok 6 ")" 44 0 123)) (mkLengthOf (mkSpan (mkPtok 7 "@lengthOf(" 43 27 120) (mkPtok 6 ")" 44 0 123)) (mkPtok 7 "@lengthOf(" 43 27 120) (mkPtok 42 "float" 43 38 121) (mkPtok 6 ")" 44 0 123)))] (InerObjectField (mkSpan (mkPtok 36 "repeat" 46 4 125) (mkPtok 40 "," 55 4 162)) (Some (mkPtok 36 "repeat" 46 4 125)) (InerObjectDecl (mkSpan (mkPtok 42 "Foo" 46 11 126) (mkPtok 3 "}" 54 22 161)) (mkPtok 42 "Foo" 46 11 126) (mkPtok 2 "{" 46 14 127) [(InerObjectField (mkSpan (mkPtok 42 "asx" 46 16 128) (mkPtok 40 "," 50 2 141)) None (InerObjectDecl (mkSpan (mkPtok 42 "asx" 46 16 128) (mkPtok 3 "}" 50 0 140)) (mkPtok 42 "asx" 46 16 128) (mkPtok 2 "{" 49 0 131) [(MetaField (mkSpan (mkPtok 36 "repeat" 49 2 132) (mkPtok 40 "," 49 23 136)) (Some (mkPtok 36 "repeat" 49 2 132)) (mkMetaDecl (mkSpan (mkPtok 16 "char[]" 49 9 133) (mkPtok 40 "," 49 23 136)) (TyDynamic (mkSpan (mkPtok 16 "char[]" 49 9 133) (mkPtok 16 "char[]" 49 9 133)) (mkDynamicString (mkSpan (mkPtok 16 "char[]" 49 9 133) (mkPtok 16 "char[]" 49 9 133)) (mkPtok 16 "char[]" 49 9 133))) (mkPtok 42 "crc" 49 15 134) (Some (mkPtok 43 "`a\`" 49 19 135)) (mkPtok 40 "," 49 23 136))); (ObjectField (mkSpan (mkPtok 36 "repeat" 49 25 137) (mkPtok 40 "," 49 34 139)) (Some (mkPtok 36 "repeat" 49 25 137)) (mkPtok 42 "A" 49 32 138) None None (mkPtok 40 "," 49 34 139))] (mkPtok 3 "}" 50 0 140)) (mkPtok 40 "," 50 2 141)); (ObjectField (mkSpan (mkPtok 42 "u" 50 4 142) (mkPtok 40 "," 50 24 145)) None (mkPtok 42 "u" 50 4 142) (Some (mkPtok 42 "Packet" 50 7 143)) (Some (mkPtok 43 "`say ""hi""`" 50 14 144)) (mkPtok 40 "," 50 24 145)); (CheckSumField (mkSpan (mkPtok 42 "roots" 50 26 146) (mkPtok 40 "," 52 2 152)) (mkChecksumFieldDecl (mkSpan (mkPtok 42 "roots" 50 26 146) (mkPtok 40 "," 52 2 152)) None (mkPtok 42 "roots" 50 26 146) (mkCalculatedFrom (mkSpan (mkPtok 5 "@calculatedFrom(" 50 32 147) (mkPtok 6 ")" 52 0 151)) (mkPtok 5 "@calculatedFrom(" 50 32 147) (mkPtok 31 """{,}""" 51 0 149) (mkPtok 6 ")" 52 0 151)) None (mkPtok 40 "," 52 2 152))); (LengthField (mkSpan (mkPtok 14 "zchar[" 52 4 153) (mkPtok 40 "," 54 19 160)) (mkLengthFieldDecl (mkSpan (mkPtok 14 "zchar[" 52 4 153) (mkPtok 40 "," 54 19 160)) (Some (TyFixed (mkSpan (mkPtok 14 "zchar[" 52 4 153) (mkPtok 13 "]" 53 0 155)) (mkFixedString (mkSpan (mkPtok 14 "zchar[" 52 4 153) (mkPtok 13 "]" 53 0 155)) (mkPtok 14 "zchar[" 52 4 153) (mkPtok 30 "65535" 52 11 154) (mkPtok 13 "]" 53 0 155)))) (mkPtok 42 "f32a" 54 0 156) (mkLengthOf (mkSpan (mkPtok 7 "@lengthOf(" 54 5 157) (mkPtok 6 ")" 54 17 159)) (mkPtok 7 "@lengthOf(" 54 5 157) (mkPtok 42 "o" 54 16 158) (mkPtok 6 ")" 54 17 159)) None (mkPtok 40 "," 54 19 160)))] (mkPtok 3 "}" 54 22 161)) (mkPtok 40 "," 55 4 162)))] (mkPtok 3 "}" 58 0 165)))])).
Eval vm_compute in ("<<<M990>>>" ++ check (runes_of_ascii "packet options1 { @leftPad
    (
    '0' )
repeat char[1 ] // " ++ [27880; 37322]%N ++ runes_of_ascii "
roots  `
` , i32 A`
`, repeat
    char[ 3] stringy // `tick` ""quote"" 'q'
, repeat	f64
    Z9_
`tab	here`, }
    packet T	{
    @tag( 00	)repeat float
`say ""hi""`,} /// triple")).
Eval vm_compute in ("<<<M1022>>>" ++ check (runes_of_ascii "MetaData A
    {
//
// @lengthOf(
}")).
Eval vm_compute in ("<<<M1054>>>" ++ check (runes_of_ascii "MetaData
As
{
    u128 packetx
`" ++ [233]%N ++ runes_of_ascii "` //	t
, tag	o,zchar[ // c
255 ] rootA `two words`  , rootA msg_type	`it's`
, u64 packetx , } MetaData T{
char[
3
    ]
    _x , }
// trailing space 
")).
Eval vm_compute in ("<<<M1086>>>" ++ check (@nil rune)).
Eval vm_compute in ("<<<M1118>>>" ++ check (runes_of_ascii "// @lengthOf(
MetaData	msg_type
{} MetaData Logon { i64 uint8x ,
o u128  ,}packet
    body {
@calculatedFrom( ""a	b"" ) uint8x`` ,} root
packet  roots{ repeat len f32a `crlf
line` , @rightPad( '\x00'
) repeat i8i8
    { zchar @lengthOf(
    packetx ) `a\`,
repeat
msg_type , char[]
    o `" ++ [233]%N ++ runes_of_ascii "`	, char[
// " ++ [27880; 37322]%N ++ runes_of_ascii "
//
42
]
roots // @lengthOf(
,
//x
// `tick` ""quote"" 'q'
}  , } MetaData
    pack
//	t
// trailing space 
{
repeatCount
charz , }")).
Eval vm_compute in ("<<<M1150>>>" ++ check (runes_of_ascii "packet	stringy { // trailing space 
@lengthOf(rootA ) repeat char[] len`u8 x,`, float32 zchar,@tag(
    42
) @tag(
    255
) @tag( 10 )
    repeatCount, repeat leftPad ,} 	 ")).
Eval vm_compute in ("<<<M1182>>>" ++ check (runes_of_ascii "options { body= false ; }
// `tick` ""quote"" 'q'
")).
Eval vm_compute in ("<<<T1182>>>" ++ terms [mkTok 1 "options" 1 0 false; mkTok 2 "{" 1 8 false; mkTok 42 "body" 1 10 false; mkTok 4 "=" 1 14 false; mkTok 11 "false" 1 16 false; mkTok 41 ";" 1 22 false; mkTok 3 "}" 1 24 false; mkTok 44 "// `tick` ""quote"" 'q'" 2 0 true; mkTok 0 "<EOF>" 3 0 false] (mkPacket (mkPtok 1 "options" 1 0 0) (Some (mkPtok 3 "}" 1 24 6)) [(DOption (mkOptionDef (mkSpan (mkPtok 1 "options" 1 0 0) (mkPtok 3 "}" 1 24 6)) (mkPtok 1 "options" 1 0 0) (mkPtok 2 "{" 1 8 1) [(mkOptionDecl (mkSpan (mkPtok 42 "body" 1 10 2) (mkPtok 41 ";" 1 22 5)) (mkPtok 42 "body" 1 10 2) (mkPtok 4 "=" 1 14 3) (VFalse (mkSpan (mkPtok 11 "false" 1 16 4) (mkPtok 11 "false" 1 16 4)) (mkPtok 11 "false" 1 16 4)) (Some (mkPtok 41 ";" 1 22 5)))] (mkPtok 3 "}" 1 24 6)))])).
Eval vm_compute in ("<<<M1214>>>" ++ check (runes_of_ascii "
MetaData msg_type{ trueish i8i8,
float32 msg_type ,
options1 BodyLength `two words`, u128 body `u8 x,` , }// trailing space 
packet
    // c
    Logon {
    repeat
i32 metadata `
`
, @calculatedFrom(""x y"")
    // c
    i64_ , i64 int@lengthOf( pack  )
    ,
    char[] charz ,
    // @lengthOf(
    match
_x as
// a // b
/// triple
pack { 3
: body,[ ""// no comment"" ,""a\""b""
] : uint8x , 3: lengthOf	,
    } ,
matchKey , roots
{ _x @lengthOf(	Pad	)
,
repeat
    a1	_x , } ,
    string T, @lengthOf(
//
// a // b
Pad )
match f32a as u // c
{// a // b
[10
    // a // b
    ,
    //	t
    """ ++ [233]%N ++ runes_of_ascii "t" ++ [233]%N ++ runes_of_ascii """, // a // b
""`tick`"" , 255 ,
0123456789 , ""1"" ,//
""a	b""  ,
3
    ]
    :options1 } ,	} MetaData u128{char[ 10 ] tag ,
pack
stringy , char
pack, } root packet Header //
{match Foo as Logon{  [ """ ++ [233]%N ++ runes_of_ascii "t" ++ [233]%N ++ runes_of_ascii """ ,
""CRC32"" ]: falsey [ //x
""" ++ [233]%N ++ runes_of_ascii "t" ++ [233]%N ++ runes_of_ascii """,
/// triple
// a // b
""""
    ]
:
u128, [ 00
    , ""a\""b"" , 7 , ""it's"",""" ++ [28040; 24687]%N ++ runes_of_ascii """, 00 ,
// " ++ [128512]%N ++ runes_of_ascii " emoji
/// triple
255 , 00 ] :
asx , ""// no comment"" :charz ,
""1"" : Packet ,
[ ""// no comment"" , 1	] :  zchar,
} , @lengthOf(u8x// a // b
)@tag(
    007 // @lengthOf(
) @lengthOf( pack) u8 _x`doc` ,
zchar[ 0123456789
    // a // b
    ] Packet@lengthOf( o)
    ,	match chars	as
msg_type
    {
    ""\n""
    : lengthOf , 0123456789
// packet A { u8 x, }
// trailing space 
:
a1 , [ 4294967296  ] : stringy ,[ ""`tick`"" ,""`tick`""
    // `tick` ""quote"" 'q'
    , 0  ] // @lengthOf(
:
    /// triple
    falsey , [ // `tick` ""quote"" 'q'
007 ,
    // a // b
    65535
, 65535
    , 10
    , ""abc"" ,
3
    ] :
body ,
} ,zchar[  10 ]
    // " ++ [27880; 37322]%N ++ runes_of_ascii "
    Logon, }	packet Packet { } // " ++ [27880; 37322]%N)).
Eval vm_compute in ("<<<M1246>>>" ++ check (runes_of_ascii "packet MetaDataX
{repeat tag
    i64_
,@calculatedFrom(
    ""packet"")
    // trailing space 
    Packet	`tab	here`
    , }")).
Eval vm_compute in ("<<<M1278>>>" ++ check (runes_of_ascii "packet Packet{@tag(
4294967296
    )  charz	{ repeat
char[
    0123456789] BodyLength ,repeat trueish stringy , }, }options { body = char ; leftPad =uint16
    //	t
    ; stringy
    = true ; packetx
= true
// `tick` ""quote"" 'q'
//
float=char[ 255 ]}
// `tick` ""quote"" 'q'
/// triple
root packet	len {  @leftPad  ( '0') uint64
    a1
    ,} 	 ")).
Eval vm_compute in ("<<<M1310>>>" ++ check (runes_of_ascii "/// triple
packet matchKey {// `tick` ""quote"" 'q'
repeatCount
`line1
line2` , @calculatedFrom(
""1"")
u128 @calculatedFrom(
    ""\" ++ [233]%N ++ runes_of_ascii """ ) , // @lengthOf(
@calculatedFrom( ""abc""	)repeat int
uint8x , Packet  @lengthOf(trueish ) , @tag( 3 // `tick` ""quote"" 'q'
) rootA
    @lengthOf(asx ) `it's`
,repeat tag // " ++ [128512]%N ++ runes_of_ascii " emoji
body ,
    @lengthOf( //	t
_x )	@calculatedFrom( ""1""
) @leftPad ( '0'
    )
    i8 i64_	@calculatedFrom( ""a\""b"" ) ,}packet x_y_z {
@tag(  7) match// @lengthOf(
Z9_  as i64_	{ """"
: roots , ""`tick`""
    :
T,007: zchar , [ // packet A { u8 x, }
4294967296 ,	7,4294967296 ,
4294967296 ,""\" ++ [233]%N ++ runes_of_ascii """, // " ++ [27880; 37322]%N ++ runes_of_ascii "
10 ,255 ]	: pack
// packet A { u8 x, }
//
, 1 : asx
,""CRC32"" :
x_y_z } , // a // b
} options
    { // c
}
root //
packet packetx{i8i8 @lengthOf( u128 ) , }")).
Eval vm_compute in ("<<<M1342>>>" ++ check (runes_of_ascii "packet Z9_{
// trailing space 
// " ++ [128512]%N ++ runes_of_ascii " emoji
@calculatedFrom( ""1"" )// packet A { u8 x, }
matchKey @calculatedFrom(
""" ++ [128512]%N ++ runes_of_ascii """ ) `tab	here` ,}
// packet A { u8 x, }
")).
Eval vm_compute in ("<<<M1374>>>" ++ check (runes_of_ascii "root packet a1 { }")).
Eval vm_compute in ("<<<M1406>>>" ++ check (runes_of_ascii "packet packetx{ stringy{ repeat  matchKey
    { match
    falsey as matchKey
{ 0123456789 :
float ,
[
""abc"" ] :u128
// " ++ [27880; 37322]%N ++ runes_of_ascii "
// " ++ [128512]%N ++ runes_of_ascii " emoji
""x y"" :// " ++ [27880; 37322]%N ++ runes_of_ascii "
i8i8 } , match  falsey as Foo { 65535// " ++ [128512]%N ++ runes_of_ascii " emoji
:trueish,
} ,
    },  char[]  roots@calculatedFrom(
    """ ++ [28040; 24687]%N ++ runes_of_ascii """), zchar[ 0123456789
// " ++ [27880; 37322]%N ++ runes_of_ascii "
// `tick` ""quote"" 'q'
]i64_ ,	zchar[ 42 ] MetaDataX
@lengthOf( len  )
,  }
, pack @lengthOf(  crc)//x
, @tag( 65535 )
    @leftPad	(
) @lengthOf(
    asx ) u8x {repeat uint64 Pad, x_y_z _x `
`, }
, MetaDataX stringy,
    // trailing space 
    @lengthOf( BodyLength ) string calculatedFrom
@calculatedFrom(""\n"" )
    `line1
line2` , u32
u8x , @tag(
    007
//
// c
)
//
//
@lengthOf( // packet A { u8 x, }
asx
    ) repeat uint8x { match  float
as // @lengthOf(
As{ [ ""1"" ,"""" , 255
,
255 ,
007 , ""1""// " ++ [27880; 37322]%N ++ runes_of_ascii "
]
: rootA""1""
    : msg_type // c
,
65535: f32a , ""x y""
:
    //
    leftPad}
    , }
    // trailing space 
    , u8 asx `u8 x,`, len `it's`,}
//x
/// triple
options {
falsey =
true }
")).
Eval vm_compute in ("<<<T1406>>>" ++ terms [mkTok 35 "packet" 1 0 false; mkTok 42 "packetx" 1 7 false; mkTok 2 "{" 1 14 false; mkTok 42 "stringy" 1 16 false; mkTok 2 "{" 1 23 false; mkTok 36 "repeat" 1 25 false; mkTok 42 "matchKey" 1 33 false; mkTok 2 "{" 2 4 false; mkTok 38 "match" 2 6 false; mkTok 42 "falsey" 3 4 false; mkTok 17 "as" 3 11 false; mkTok 42 "matchKey" 3 14 false; mkTok 2 "{" 4 0 false; mkTok 30 "0123456789" 4 2 false; mkTok 39 ":" 4 13 false; mkTok 42 "float" 5 0 false; mkTok 40 "," 5 6 false; mkTok 18 "[" 6 0 false; mkTok 31 """abc""" 7 0 false; mkTok 13 "]" 7 6 false; mkTok 39 ":" 7 8 false; mkTok 42 "u128" 7 9 false; mkTok 44 (string_of_bytes [47; 47; 32; 230; 179; 168; 233; 135; 138]%N) 8 0 true; mkTok 44 (string_of_bytes [47; 47; 32; 240; 159; 152; 128; 32; 101; 109; 111; 106; 105]%N) 9 0 true; mkTok 31 """x y""" 10 0 false; mkTok 39 ":" 10 6 false; mkTok 44 (string_of_bytes [47; 47; 32; 230; 179; 168; 233; 135; 138]%N) 10 7 true; mkTok 42 "i8i8" 11 0 false; mkTok 3 "}" 11 5 false; mkTok 40 "," 11 7 false; mkTok 38 "match" 11 9 false; mkTok 42 "falsey" 11 16 false; mkTok 17 "as" 11 23 false; mkTok 42 "Foo" 11 26 false; mkTok 2 "{" 11 30 false; mkTok 30 "65535" 11 32 false; mkTok 44 (string_of_bytes [47; 47; 32; 240; 159; 152; 128; 32; 101; 109; 111; 106; 105]%N) 11 37 true; mkTok 39 ":" 12 0 false; mkTok 42 "trueish" 12 1 false; mkTok 40 "," 12 8 false; mkTok 3 "}" 13 0 false; mkTok 40 "," 13 2 false; mkTok 3 "}" 14 4 false; mkTok 40 "," 14 5 false; mkTok 16 "char[]" 14 8 false; mkTok 42 "roots" 14 16 false; mkTok 5 "@calculatedFrom(" 14 21 false; mkTok 31 (string_of_bytes [34; 230; 182; 136; 230; 129; 175; 34]%N) 15 4 false; mkTok 6 ")" 15 8 false; mkTok 40 "," 15 9 false; mkTok 14 "zchar[" 15 11 false; mkTok 30 "0123456789" 15 18 false; mkTok 44 (string_of_bytes [47; 47; 32; 230; 179; 168; 233; 135; 138]%N) 16 0 true; mkTok 44 "// `tick` ""quote"" 'q'" 17 0 true; mkTok 13 "]" 18 0 false; mkTok 42 "i64_" 18 1 false; mkTok 40 "," 18 6 false; mkTok 14 "zchar[" 18 8 false; mkTok 30 "42" 18 15 false; mkTok 13 "]" 18 18 false; mkTok 42 "MetaDataX" 18 20 false; mkTok 7 "@lengthOf(" 19 0 false; mkTok 42 "len" 19 11 false; mkTok 6 ")" 19 16 false; mkTok 40 "," 20 0 false; mkTok 3 "}" 20 3 false; mkTok 40 "," 21 0 false; mkTok 42 "pack" 21 2 false; mkTok 7 "@lengthOf(" 21 7 false; mkTok 42 "crc" 21 19 false; mkTok 6 ")" 21 22 false; mkTok 44 "//x" 21 23 true; mkTok 40 "," 22 0 false; mkTok 9 "@tag(" 22 2 false; mkTok 30 "65535" 22 8 false; mkTok 6 ")" 22 14 false; mkTok 32 "@leftPad" 23 4 false; mkTok 8 "(" 23 13 false; mkTok 6 ")" 24 0 false; mkTok 7 "@lengthOf(" 24 2 false; mkTok 42 "asx" 25 4 false; mkTok 6 ")" 25 8 false; mkTok 42 "u8x" 25 10 false; mkTok 2 "{" 25 14 false; mkTok 36 "repeat" 25 15 false; mkTok 23 "uint64" 25 22 false; mkTok 42 "Pad" 25 29 false; mkTok 40 "," 25 32 false; mkTok 42 "x_y_z" 25 34 false; mkTok 42 "_x" 25 40 false; mkTok 43 (string_of_bytes [96; 10; 96]%N) 25 43 false; mkTok 40 "," 26 1 false; mkTok 3 "}" 26 3 false; mkTok 40 "," 27 0 false; mkTok 42 "MetaDataX" 27 2 false; mkTok 42 "stringy" 27 12 false; mkTok 40 "," 27 19 false; mkTok 44 "// trailing space " 28 4 true; mkTok 7 "@lengthOf(" 29 4 false; mkTok 42 "BodyLength" 29 15 false; mkTok 6 ")" 29 26 false; mkTok 15 "string" 29 28 false; mkTok 42 "calculatedFrom" 29 35 false; mkTok 5 "@calculatedFrom(" 30 0 false; mkTok 31 """\n""" 30 16 false; mkTok 6 ")" 30 21 false; mkTok 43 (string_of_bytes [96; 108; 105; 110; 101; 49; 10; 108; 105; 110; 101; 50; 96]%N) 31 4 false; mkTok 40 "," 32 7 false; mkTok 22 "u32" 32 9 false; mkTok 42 "u8x" 33 0 false; mkTok 40 "," 33 4 false; mkTok 9 "@tag(" 33 6 false; mkTok 30 "007" 34 4 false; mkTok 44 "//" 35 0 true; mkTok 44 "// c" 36 0 true; mkTok 6 ")" 37 0 false; mkTok 44 "//" 38 0 true; mkTok 44 "//" 39 0 true; mkTok 7 "@lengthOf(" 40 0 false; mkTok 44 "// packet A { u8 x, }" 40 11 true; mkTok 42 "asx" 41 0 false; mkTok 6 ")" 42 4 false; mkTok 36 "repeat" 42 6 false; mkTok 42 "uint8x" 42 13 false; mkTok 2 "{" 42 20 false; mkTok 38 "match" 42 22 false; mkTok 42 "float" 42 29 false; mkTok 17 "as" 43 0 false; mkTok 44 "// @lengthOf(" 43 3 true; mkTok 42 "As" 44 0 false; mkTok 2 "{" 44 2 false; mkTok 18 "[" 44 4 false; mkTok 31 """1""" 44 6 false; mkTok 40 "," 44 10 false; mkTok 31 """""" 44 11 false; mkTok 40 "," 44 14 false; mkTok 30 "255" 44 16 false; mkTok 40 "," 45 0 false; mkTok 30 "255" 46 0 false; mkTok 40 "," 46 4 false; mkTok 30 "007" 47 0 false; mkTok 40 "," 47 4 false; mkTok 31 """1""" 47 6 false; mkTok 44 (string_of_bytes [47; 47; 32; 230; 179; 168; 233; 135; 138]%N) 47 9 true; mkTok 13 "]" 48 0 false; mkTok 39 ":" 49 0 false; mkTok 42 "rootA" 49 2 false; mkTok 31 """1""" 49 7 false; mkTok 39 ":" 50 4 false; mkTok 42 "msg_type" 50 6 false; mkTok 44 "// c" 50 15 true; mkTok 40 "," 51 0 false; mkTok 30 "65535" 52 0 false; mkTok 39 ":" 52 5 false; mkTok 42 "f32a" 52 7 false; mkTok 40 "," 52 12 false; mkTok 31 """x y""" 52 14 false; mkTok 39 ":" 53 0 false; mkTok 44 "//" 54 4 true; mkTok 42 "leftPad" 55 4 false; mkTok 3 "}" 55 11 false; mkTok 40 "," 56 4 false; mkTok 3 "}" 56 6 false; mkTok 44 "// trailing space " 57 4 true; mkTok 40 "," 58 4 false; mkTok 20 "u8" 58 6 false; mkTok 42 "asx" 58 9 false; mkTok 43 "`u8 x,`" 58 13 false; mkTok 40 "," 58 20 false; mkTok 42 "len" 58 22 false; mkTok 43 "`it's`" 58 26 false; mkTok 40 "," 58 32 false; mkTok 3 "}" 58 33 false; mkTok 44 "//x" 59 0 true; mkTok 44 "/// triple" 60 0 true; mkTok 1 "options" 61 0 false; mkTok 2 "{" 61 8 false; mkTok 42 "falsey" 62 0 false; mkTok 4 "=" 62 7 false; mkTok 10 "true" 63 0 false; mkTok 3 "}" 63 5 false; mkTok 0 "<EOF>" 64 0 false] (mkPacket (mkPtok 35 "packet" 1 0 0) (Some (mkPtok 3 "}" 63 5 180)) [(DPacket (mkPacketDef (mkSpan (mkPtok 35 "packet" 1 0 0) (mkPtok 3 "}" 58 33 172)) None (mkPtok 35 "packet" 1 0 0) (mkPtok 42 "packetx" 1 7 1) (mkPtok 2 "{" 1 14 2) [(mkFieldWithAttr (mkSpan (mkPtok 42 "stringy" 1 16 3) (mkPtok 40 "," 21 0 66)) [] (InerObjectField (mkSpan (mkPtok 42 "stringy" 1 16 3) (mkPtok 40 "," 21 0 66)) None (InerObjectDecl (mkSpan (mkPtok 42 "stringy" 1 16 3) (mkPtok 3 "}" 20 3 65)) (mkPtok 42 "stringy" 1 16 3) (mkPtok 2 "{" 1 23 4) [(InerObjectField (mkSpan (mkPtok 36 "repeat" 1 25 5) (mkPtok 40 "," 14 5 43)) (Some (mkPtok 36 "repeat" 1 25 5)) (InerObjectDecl (mkSpan (mkPtok 42 "matchKey" 1 33 6) (mkPtok 3 "}" 14 4 42)) (mkPtok 42 "matchKey" 1 33 6) (mkPtok 2 "{" 2 4 7) [(MatchField (mkSpan (mkPtok 38 "match" 2 6 8) (mkPtok 40 "," 11 7 29)) (mkMatchFieldDecl (mkSpan (mkPtok 38 "match" 2 6 8) (mkPtok 3 "}" 11 5 28)) (mkPtok 38 "match" 2 6 8) (mkPtok 42 "falsey" 3 4 9) (mkPtok 17 "as" 3 11 10) (mkPtok 42 "matchKey" 3 14 11) (mkPtok 2 "{" 4 0 12) [(mkMatchPair (mkSpan (mkPtok 30 "0123456789" 4 2 13) (mkPtok 40 "," 5 6 16)) (MKDigits (mkPtok 30 "0123456789" 4 2 13)) (mkPtok 39 ":" 4 13 14) (mkPtok 42 "float" 5 0 15) (Some (mkPtok 40 "," 5 6 16))); (mkMatchPair (mkSpan (mkPtok 18 "[" 6 0 17) (mkPtok 42 "u128" 7 9 21)) (MKList (mkKeyList (mkSpan (mkPtok 18 "[" 6 0 17) (mkPtok 13 "]" 7 6 19)) (mkPtok 18 "[" 6 0 17) (mkPtok 31 """abc""" 7 0 18) [] (mkPtok 13 "]" 7 6 19))) (mkPtok 39 ":" 7 8 20) (mkPtok 42 "u128" 7 9 21) None); (mkMatchPair (mkSpan (mkPtok 31 """x y""" 10 0 24) (mkPtok 42 "i8i8" 11 0 27)) (MKString (mkPtok 31 """x y""" 10 0 24)) (mkPtok 39 ":" 10 6 25) (mkPtok 42 "i8i8" 11 0 27) None)] (mkPtok 3 "}" 11 5 28)) (mkPtok 40 "," 11 7 29)); (MatchField (mkSpan (mkPtok 38 "match" 11 9 30) (mkPtok 40 "," 13 2 41)) (mkMatchFieldDecl (mkSpan (mkPtok 38 "match" 11 9 30) (mkPtok 3 "}" 13 0 40)) (mkPtok 38 "match" 11 9 30) (mkPtok 42 "falsey" 11 16 31) (mkPtok 17 "as" 11 23 32) (mkPtok 42 "Foo" 11 26 33) (mkPtok 2 "{" 11 30 34) [(mkMatchPair (mkSpan (mkPtok 30 "65535" 11 32 35) (mkPtok 40 "," 12 8 39)) (MKDigits (mkPtok 30 "65535" 11 32 35)) (mkPtok 39 ":" 12 0 37) (mkPtok 42 "trueish" 12 1 38) (Some (mkPtok 40 "," 12 8 39)))] (mkPtok 3 "}" 13 0 40)) (mkPtok 40 "," 13 2 41))] (mkPtok 3 "}" 14 4 42)) (mkPtok 40 "," 14 5 43)); (CheckSumField (mkSpan (mkPtok 16 "char[]" 14 8 44) (mkPtok 40 "," 15 9 49)) (mkChecksumFieldDecl (mkSpan (mkPtok 16 "char[]" 14 8 44) (mkPtok 40 "," 15 9 49)) (Some (TyDynamic (mkSpan (mkPtok 16 "char[]" 14 8 44) (mkPtok 16 "char[]" 14 8 44)) (mkDynamicString (mkSpan (mkPtok 16 "char[]" 14 8 44) (mkPtok 16 "char[]" 14 8 44)) (mkPtok 16 "char[]" 14 8 44)))) (mkPtok 42 "roots" 14 16 45) (mkCalculatedFrom (mkSpan (mkPtok 5 "@calculatedFrom(" 14 21 46) (mkPtok 6 ")" 15 8 48)) (mkPtok 5 "@calculatedFrom(" 14 21 46) (mkPtok 31 (string_of_bytes [34; 230; 182; 136; 230; 129; 175; 34]%N) 15 4 47) (mkPtok 6 ")" 15 8 48)) None (mkPtok 40 "," 15 9 49))); (MetaField (mkSpan (mkPtok 14 "zchar[" 15 11 50) (mkPtok 40 "," 18 6 56)) None (mkMetaDecl (mkSpan (mkPtok 14 "zchar[" 15 11 50) (mkPtok 40 "," 18 6 56)) (TyFixed (mkSpan (mkPtok 14 "zchar[" 15 11 50) (mkPtok 13 "]" 18 0 54)) (mkFixedString (mkSpan (mkPtok 14 "zchar[" 15 11 50) (mkPtok 13 "]" 18 0 54)) (mkPtok 14 "zchar[" 15 11 50) (mkPtok 30 "0123456789" 15 18 51) (mkPtok 13 "]" 18 0 54))) (mkPtok 42 "i64_" 18 1 55) None (mkPtok 40 "," 18 6 56))); (LengthField (mkSpan (mkPtok 14 "zchar[" 18 8 57) (mkPtok 40 "," 20 0 64)) (mkLengthFieldDecl (mkSpan (mkPtok 14 "zchar[" 18 8 57) (mkPtok 40 "," 20 0 64)) (Some (TyFixed (mkSpan (mkPtok 14 "zchar[" 18 8 57) (mkPtok 13 "]" 18 18 59)) (mkFixedString (mkSpan (mkPtok 14 "zchar[" 18 8 57) (mkPtok 13 "]" 18 18 59)) (mkPtok 14 "zchar[" 18 8 57) (mkPtok 30 "42" 18 15 58) (mkPtok 13 "]" 18 18 59)))) (mkPtok 42 "MetaDataX" 18 20 60) (mkLengthOf (mkSpan (mkPtok 7 "@lengthOf(" 19 0 61) (mkPtok 6 ")" 19 16 63)) (mkPtok 7 "@lengthOf(" 19 0 61) (mkPtok 42 "len" 19 11 62) (mkPtok 6 ")" 19 16 63)) None (mkPtok 40 "," 20 0 64)))] (mkPtok 3 "}" 20 3 65)) (mkPtok 40 "," 21 0 66))); (mkFieldWithAttr (mkSpan (mkPtok 42 "pack" 21 2 67) (mkPtok 40 "," 22 0 72)) [] (LengthField (mkSpan (mkPtok 42 "pack" 21 2 67) (mkPtok 40 "," 22 0 72)) (mkLengthFieldDecl (mkSpan (mkPtok 42 "pack" 21 2 67) (mkPtok 40 "," 22 0 72)) None (mkPtok 42 "pack" 21 2 67) (mkLengthOf (mkSpan (mkPtok 7 "@lengthOf(" 21 7 68) (mkPtok 6 ")" 21 22 70)) (mkPtok 7 "@lengthOf(" 21 7 68) (mkPtok 42 "crc" 21 19 69) (mkPtok 6 ")" 21 22 70)) None (mkPtok 40 "," 22 0 72)))); (mkFieldWithAttr (mkSpan (mkPtok 9 "@tag(" 22 2 73) (mkPtok 40 "," 27 0 93)) [(FATag (mkSpan (mkPtok 9 "@tag(" 22 2 73) (mkPtok 6 ")" 22 14 75)) (mkTagAttr (mkSpan (mkPtok 9 "@tag(" 22 2 73) (mkPtok 6 ")" 22 14 75)) (mkPtok 9 "@tag(" 22 2 73) (mkPtok 30 "65535" 22 8 74) (mkPtok 6 ")" 22 14 75))); (FAPadding (mkSpan (mkPtok 32 "@leftPad" 23 4 76) (mkPtok 6 ")" 24 0 78)) (mkPaddingAttr (mkSpan (mkPtok 32 "@leftPad" 23 4 76) (mkPtok 6 ")" 24 0 78)) (mkPtok 32 "@leftPad" 23 4 76) (mkPtok 8 "(" 23 13 77) None (mkPtok 6 ")" 24 0 78))); (FALengthOf (mkSpan (mkPtok 7 "@lengthOf(" 24 2 79) (mkPtok 6 ")" 25 8 81)) (mkLengthOf (mkSpan (mkPtok 7 "@lengthOf(" 24 2 79) (mkPtok 6 ")" 25 8 81)) (mkPtok 7 "@lengthOf(" 24 2 79) (mkPtok 42 "asx" 25 4 80) (mkPtok 6 ")" 25 8 81)))] (InerObjectField (mkSpan (mkPtok 42 "u8x" 25 10 82) (mkPtok 40 "," 27 0 93)) None (InerObjectDecl (mkSpan (mkPtok 42 "u8x" 25 10 82) (mkPtok 3 "}" 26 3 92)) (mkPtok 42 "u8x" 25 10 82) (mkPtok 2 "{" 25 14 83) [(MetaField (mkSpan (mkPtok 36 "repeat" 25 15 84) (mkPtok 40 "," 25 32 87)) (Some (mkPtok 36 "repeat" 25 15 84)) (mkMetaDecl (mkSpan (mkPtok 23 "uint64" 25 22 85) (mkPtok 40 "," 25 32 87)) (TyBasic (mkSpan (mkPtok 23 "uint64" 25 22 85) (mkPtok 23 "uint64" 25 22 85)) (mkBasicType (mkSpan (mkPtok 23 "uint64" 25 22 85) (mkPtok 23 "uint64" 25 22 85)) (mkPtok 23 "uint64" 25 22 85))) (mkPtok 42 "Pad" 25 29 86) None (mkPtok 40 "," 25 32 87))); (ObjectField (mkSpan (mkPtok 42 "x_y_z" 25 34 88) (mkPtok 40 "," 26 1 91)) None (mkPtok 42 "x_y_z" 25 34 88) (Some (mkPtok 42 "_x" 25 40 89)) (Some (mkPtok 43 (string_of_bytes [96; 10; 96]%N) 25 43 90)) (mkPtok 40 "," 26 1 91))] (mkPtok 3 "}" 26 3 92)) (mkPtok 40 "," 27 0 93))); (mkFieldWithAttr (mkSpan (mkPtok 42 "MetaDataX" 27 2 94) (mkPtok 40 "," 27 19 96)) [] (ObjectField (mkSpan (mkPtok 42 "MetaDataX" 27 2 94) (mkPtok 40 "," 27 19 96)) None (mkPtok 42 "MetaDataX" 27 2 94) (Some (mkPtok 42 "stringy" 27 12 95)) None (mkPtok 40 "," 27 19 96))); (mkFieldWithAttr (mkSpan (mkPtok 7 "@lengthOf(" 29 4 98) (mkPtok 40 "," 32 7 107)) [(FALengthOf (mkSpan (mkPtok 7 "@lengthOf(" 29 4 98) (mkPtok 6 ")" 29 26 100)) (mkLengthOf (mkSpan (mkPtok 7 "@lengthOf(" 29 4 98) (mkPtok 6 ")" 29 26 100)) (mkPtok 7 "@lengthOf(" 29 4 98) (mkPtok 42 "BodyLength" 29 15 99) (mkPtok 6 ")" 29 26 100)))] (CheckSumField (mkSpan (mkPtok 15 "string" 29 28 101) (mkPtok 40 "," 32 7 107)) (mkChecksumFieldDecl (mkSpan (mkPtok 15 "string" 29 28 101) (mkPtok 40 "," 32 7 107)) (Some (TyDynamic (mkSpan (mkPtok 15 "string" 29 28 101) (mkPtok 15 "string" 29 28 101)) (mkDynamicString (mkSpan (mkPtok 15 "string" 29 28 101) (mkPtok 15 "string" 29 28 101)) (mkPtok 15 "string" 29 28 101)))) (mkPtok 42 "calculatedFrom" 29 35 102) (mkCalculatedFrom (mkSpan (mkPtok 5 "@calculatedFrom(" 30 0 103) (mkPtok 6 ")" 30 21 105)) (mkPtok 5 "@calculatedFrom(" 30 0 103) (mkPtok 31 """\n""" 30 16 104) (mkPtok 6 ")" 30 21 105)) (Some (mkPtok 43 (string_of_bytes [96; 108; 105; 110; 101; 49; 10; 108; 105; 110; 101; 50; 96]%N) 31 4 106)) (mkPtok 40 "," 32 7 107)))); (mkFieldWithAttr (mkSpan (mkPtok 22 "u32" 32 9 108) (mkPtok 40 "," 33 4 110)) [] (MetaField (mkSpan (mkPtok 22 "u32" 32 9 108) (mkPtok 40 "," 33 4 110)) None (mkMetaDecl (mkSpan (mkPtok 22 "u32" 32 9 108) (mkPtok 40 "," 33 4 110)) (TyBasic (mkSpan (mkPtok 22 "u32" 32 9 108) (mkPtok 22 "u32" 32 9 108)) (mkBasicType (mkSpan (mkPtok 22 "u32" 32 9 108) (mkPtok 22 "u32" 32 9 108)) (mkPtok 22 "u32" 32 9 108))) (mkPtok 42 "u8x" 33 0 109) None (mkPtok 40 "," 33 4 110)))); (mkFieldWithAttr (mkSpan (mkPtok 9 "@tag(" 33 6 111) (mkPtok 40 "," 58 4 164)) [(FATag (mkSpan (mkPtok 9 "@tag(" 33 6 111) (mkPtok 6 ")" 37 0 115)) (mkTagAttr (mkSpan (mkPtok 9 "@tag(" 33 6 111) (mkPtok 6 ")" 37 0 115)) (mkPtok 9 "@tag(" 33 6 111) (mkPtok 30 "007" 34 4 112) (mkPtok 6 ")" 37 0 115))); (FALengthOf (mkSpan (mkPtok 7 "@lengthOf(" 40 0 118) (mkPtok 6 ")" 42 4 121)) (mkLengthOf (mkSpan (mkPtok 7 "@lengthOf(" 40 0 118) (mkPtok 6 ")" 42 4 121)) (mkPtok 7 "@lengthOf(" 40 0 118) (mkPtok 42 "asx" 41 0 120) (mkPtok 6 ")" 42 4 121)))] (InerObjectField (mkSpan (mkPtok 36 "repeat" 42 6 122) (mkPtok 40 "," 58 4 164)) (Some (mkPtok 36 "repeat" 42 6 122)) (InerObjectDecl (mkSpan (mkPtok 42 "uint8x" 42 13 123) (mkPtok 3 "}" 56 6 162)) (mkPtok 42 "uint8x" 42 13 123) (mkPtok 2 "{" 42 20 124) [(MatchField (mkSpan (mkPtok 38 "match" 42 22 125) (mkPtok 40 "," 56 4 161)) (mkMatchFieldDecl (mkSpan (mkPtok 38 "match" 42 22 125) (mkPtok 3 "}" 55 11 160)) (mkPtok 38 "match" 42 22 125) (mkPtok 42 "float" 42 29 126) (mkPtok 17 "as" 43 0 127) (mkPtok 42 "As" 44 0 129) (mkPtok 2 "{" 44 2 130) [(mkMatchPair (mkSpan (mkPtok 18 "[" 44 4 131) (mkPtok 42 "rootA" 49 2 146)) (MKList (mkKeyList (mkSpan (mkPtok 18 "[" 44 4 131) (mkPtok 13 "]" 48 0 144)) (mkPtok 18 "[" 44 4 131) (mkPtok 31 """1""" 44 6 132) [((mkPtok 40 "," 44 10 133), (mkPtok 31 """""" 44 11 134)); ((mkPtok 40 "," 44 14 135), (mkPtok 30 "255" 44 16 136)); ((mkPtok 40 "," 45 0 137), (mkPtok 30 "255" 46 0 138)); ((mkPtok 40 "," 46 4 139), (mkPtok 30 "007" 47 0 140)); ((mkPtok 40 "," 47 4 141), (mkPtok 31 """1""" 47 6 142))] (mkPtok 13 "]" 48 0 144))) (mkPtok 39 ":" 49 0 145) (mkPtok 42 "rootA" 49 2 146) None); (mkMatchPair (mkSpan (mkPtok 31 """1""" 49 7 147) (mkPtok 40 "," 51 0 151)) (MKString (mkPtok 31 """1""" 49 7 147)) (mkPtok 39 ":" 50 4 148) (mkPtok 42 "msg_type" 50 6 149) (Some (mkPtok 40 "," 51 0 151))); (mkMatchPair (mkSpan (mkPtok 30 "65535" 52 0 152) (mkPtok 40 "," 52 12 155)) (MKDigits (mkPtok 30 "65535" 52 0 152)) (mkPtok 39 ":" 52 5 153) (mkPtok 42 "f32a" 52 7 154) (Some (mkPtok 40 "," 52 12 155))); (mkMatchPair (mkSpan (mkPtok 31 """x y""" 52 14 156) (mkPtok 42 "leftPad" 55 4 159)) (MKString (mkPtok 31 """x y""" 52 14 156)) (mkPtok 39 ":" 53 0 157) (mkPtok 42 "leftPad" 55 4 159) None)] (mkPtok 3 "}" 55 11 160)) (mkPtok 40 "," 56 4 161))] (mkPtok 3 "}" 56 6 162)) (mkPtok 40 "," 58 4 164))); (mkFieldWithAttr (mkSpan (mkPtok 20 "u8" 58 6 165) (mkPtok 40 "," 58 20 168)) [] (MetaField (mkSpan (mkPtok 20 "u8" 58 6 165) (mkPtok 40 "," 58 20 168)) None (mkMetaDecl (mkSpan (mkPtok 20 "u8" 58 6 165) (mkPtok 40 "," 58 20 168)) (TyBasic (mkSpan (mkPtok 20 "u8" 58 6 165) (mkPtok 20 "u8" 58 6 165)) (mkBasicType (mkSpan (mkPtok 20 "u8" 58 6 165) (mkPtok 20 "u8" 58 6 165)) (mkPtok 20 "u8" 58 6 165))) (mkPtok 42 "asx" 58 9 166) (Some (mkPtok 43 "`u8 x,`" 58 13 167)) (mkPtok 40 "," 58 20 168)))); (mkFieldWithAttr (mkSpan (mkPtok 42 "len" 58 22 169) (mkPtok 40 "," 58 32 171)) [] (ObjectField (mkSpan (mkPtok 42 "len" 58 22 169) (mkPtok 40 "," 58 32 171)) None (mkPtok 42 "len" 58 22 169) None (Some (mkPtok 43 "`it's`" 58 26 170)) (mkPtok 40 "," 58 32 171)))] (mkPtok 3 "}" 58 33 172))); (DOption (mkOptionDef (mkSpan (mkPtok 1 "options" 61 0 175) (mkPtok 3 "}" 63 5 180)) (mkPtok 1 "options" 61 0 175) (mkPtok 2 "{" 61 8 176) [(mkOptionDecl (mkSpan (mkPtok 42 "falsey" 62 0 177) (mkPtok 10 "true" 63 0 179)) (mkPtok 42 "falsey" 62 0 177) (mkPtok 4 "=" 62 7 178) (VTrue (mkSpan (mkPtok 10 "true" 63 0 179) (mkPtok 10 "true" 63 0 179)) (mkPtok 10 "true" 63 0 179)) None)] (mkPtok 3 "}" 63 5 180)))])).
Eval vm_compute in ("<<<M1438>>>" ++ check (runes_of_ascii "packet
leftPad
{ @tag(
1
) i8 // a // b
crc , float64 packetx `" ++ [233]%N ++ runes_of_ascii "` , lengthOf
@lengthOf( charz
    // trailing space 
    ) , repeat
    Packet ,	@lengthOf( u )  @lengthOf(// " ++ [27880; 37322]%N ++ runes_of_ascii "
T )
    repeat u16 uint8x `" ++ [28040; 24687; 31867; 22411]%N ++ runes_of_ascii "`,
    zchar[  10
]// a // b
metadata ``
    , match // packet A { u8 x, }
trueish
    as options1{0123456789
: rootA
    ,255: MetaDataX[""a\\"" ,/// triple
""\n"",00
, 10 ] : trueish ,	""CRC32"" :
uint8x, 0 : Z9_ ,  ""1""// c
: i8i8
// `tick` ""quote"" 'q'
// packet A { u8 x, }
,} , @calculatedFrom( ""it's"" ) uint8 chars `
` , } options
    // @lengthOf(
    {
    f32a
= i16 ; // " ++ [128512]%N ++ runes_of_ascii " emoji
u
    = ""abc"" }MetaData chars{	i16 lengthOf , Packet msg_type
    `crlf
line` ,} // " ++ [27880; 37322]%N)).
Eval vm_compute in ("<<<M1470>>>" ++ check (runes_of_ascii "packet  Foo {
@calculatedFrom(
""`tick`"" ) @rightPad
    ( ' ' )
/// triple
//x
repeat float { repeatCount
    , /// triple
zchar[ 0123456789
    ]rootA
@calculatedFrom(	""{,}"")
, match
// c
// a // b
matchKey
as T { ""\n"" :o
//
// `tick` ""quote"" 'q'
00 : tag [3 // trailing space 
, 65535
    // trailing space 
    ] : body,	}	,
} ,
@rightPad
    // @lengthOf(
    (
    ' ' ) @leftPad
('0' ) string packetx @calculatedFrom(""x y"" )
    ,  @lengthOf( charz ) string i64_ `crlf
line`, @rightPad  ('0' ) repeat string calculatedFrom `tab	here`,}
")).
Eval vm_compute in ("<<<M1502>>>" ++ check (runes_of_ascii "// " ++ [27880; 37322]%N ++ runes_of_ascii "
packet Header{ @tag( 255  )  @lengthOf(	o
)char[ 3 ]
string_ , @lengthOf(
falsey )  repeat body { match uint8x as repeatCount { ""CRC32"":T , [ ""a\\"" , ""it's"" , """" , 0123456789 , 255 , 0123456789,	""`tick`"" ]
    :	i64_	[ ""it's""
    ]
: metadata , // @lengthOf(
""\n"" :
x , } ,	} // packet A { u8 x, }
,
_x  , @leftPad (
) repeat Header `
`,  uint32 charz
    , @calculatedFrom(
    """ ++ [28040; 24687]%N ++ runes_of_ascii """
    ) repeat i64_
{ pack `line1
line2` , calculatedFrom @calculatedFrom(
    ""packet"" ) , }  , charz@lengthOf(
    trueish )
, match o as metadata {[ 42 ] : falsey	,
    ""CRC32"": pack ,[
255 ,""\" ++ [233]%N ++ runes_of_ascii """, // c
""`tick`"" ] :  u8x , [ ""it's""  ] : i8i8 , } , } MetaData Pad {
    // c
    f64 a1
    ,} packet roots {
@lengthOf( string_ ) i8 u
`line1
line2` , f32
    matchKey`doc`
    , @lengthOf( //	t
A ) repeatCount Header
,
}options // @lengthOf(
{
    x_y_z //	t
= true
u8x = '0';	}	options { chars
=""packet"" ;
    }")).
Eval vm_compute in ("<<<M1534>>>" ++ check (@nil rune)).
Eval vm_compute in ("<<<M1566>>>" ++ check (runes_of_ascii "MetaData	roots {char[]i8i8
,string options1 ,options1 calculatedFrom `doc`
,
    _x	rootA `" ++ [233]%N ++ runes_of_ascii "`, } MetaData f32a {
int float
, options1 chars
`// not a comment`, uint64 A , Z9_
    Z9_ , body
    charz
,i64/// triple
u
,}")).
Eval vm_compute in ("<<<M1598>>>" ++ check (runes_of_ascii "
")).
Eval vm_compute in ("<<<M1630>>>" ++ check (runes_of_ascii "packet tag { match zchar as
metadata/// triple
{ [ 0123456789 , ""abc"" ] : body[ """"
, ""\n""
, 00
    // " ++ [27880; 37322]%N ++ runes_of_ascii "
    ,
    """", 00
, 42 , """ ++ [233]%N ++ runes_of_ascii "t" ++ [233]%N ++ runes_of_ascii """, 0123456789 ]
:Foo
, [
007 , 007 ,4294967296
,	7  ]
    // trailing space 
    : body , 007 :  asx , }
    ,@tag(
    007
)BodyLength repeatCount `
` // packet A { u8 x, }
, repeat
    char[// `tick` ""quote"" 'q'
7
] As , A
    // packet A { u8 x, }
    @calculatedFrom( ""x y"" ) , u8 trueish // c
@lengthOf(zchar
) ,
}MetaData msg_type {	}
    MetaData uint8x  {  repeatCount
leftPad//	t
,}
    // a // b
    packet falsey
// packet A { u8 x, }
// packet A { u8 x, }
{ u128
    x, } root packet T{
    i8
chars @lengthOf( Packet)
,
}
")).
Eval vm_compute in ("<<<T1630>>>" ++ terms [mkTok 35 "packet" 1 0 false; mkTok 42 "tag" 1 7 false; mkTok 2 "{" 1 11 false; mkTok 38 "match" 1 13 false; mkTok 42 "zchar" 1 19 false; mkTok 17 "as" 1 25 false; mkTok 42 "metadata" 2 0 false; mkTok 44 "/// triple" 2 8 true; mkTok 2 "{" 3 0 false; mkTok 18 "[" 3 2 false; mkTok 30 "0123456789" 3 4 false; mkTok 40 "," 3 15 false; mkTok 31 """abc""" 3 17 false; mkTok 13 "]" 3 23 false; mkTok 39 ":" 3 25 false; mkTok 42 "body" 3 27 false; mkTok 18 "[" 3 31 false; mkTok 31 """""" 3 33 false; mkTok 40 "," 4 0 false; mkTok 31 """\n""" 4 2 false; mkTok 40 "," 5 0 false; mkTok 30 "00" 5 2 false; mkTok 44 (string_of_bytes [47; 47; 32; 230; 179; 168; 233; 135; 138]%N) 6 4 true; mkTok 40 "," 7 4 false; mkTok 31 """""" 8 4 false; mkTok 40 "," 8 6 false; mkTok 30 "00" 8 8 false; mkTok 40 "," 9 0 false; mkTok 30 "42" 9 2 false; mkTok 40 "," 9 5 false; mkTok 31 (string_of_bytes [34; 195; 169; 116; 195; 169; 34]%N) 9 7 false; mkTok 40 "," 9 12 false; mkTok 30 "0123456789" 9 14 false; mkTok 13 "]" 9 25 false; mkTok 39 ":" 10 0 false; mkTok 42 "Foo" 10 1 false; mkTok 40 "," 11 0 false; mkTok 18 "[" 11 2 false; mkTok 30 "007" 12 0 false; mkTok 40 "," 12 4 false; mkTok 30 "007" 12 6 false; mkTok 40 "," 12 10 false; mkTok 30 "4294967296" 12 11 false; mkTok 40 "," 13 0 false; mkTok 30 "7" 13 2 false; mkTok 13 "]" 13 5 false; mkTok 44 "// trailing space " 14 4 true; mkTok 39 ":" 15 4 false; mkTok 42 "body" 15 6 false; mkTok 40 "," 15 11 false; mkTok 30 "007" 15 13 false; mkTok 39 ":" 15 17 false; mkTok 42 "asx" 15 20 false; mkTok 40 "," 15 24 false; mkTok 3 "}" 15 26 false; mkTok 40 "," 16 4 false; mkTok 9 "@tag(" 16 5 false; mkTok 30 "007" 17 4 false; mkTok 6 ")" 18 0 false; mkTok 42 "BodyLength" 18 1 false; mkTok 42 "repeatCount" 18 12 false; mkTok 43 (string_of_bytes [96; 10; 96]%N) 18 24 false; mkTok 44 "// packet A { u8 x, }" 19 2 true; mkTok 40 "," 20 0 false; mkTok 36 "repeat" 20 2 false; mkTok 12 "char[" 21 4 false; mkTok 44 "// `tick` ""quote"" 'q'" 21 9 true; mkTok 30 "7" 22 0 false; mkTok 13 "]" 23 0 false; mkTok 42 "As" 23 2 false; mkTok 40 "," 23 5 false; mkTok 42 "A" 23 7 false; mkTok 44 "// packet A { u8 x, }" 24 4 true; mkTok 5 "@calculatedFrom(" 25 4 false; mkTok 31 """x y""" 25 21 false; mkTok 6 ")" 25 27 false; mkTok 40 "," 25 29 false; mkTok 20 "u8" 25 31 false; mkTok 42 "trueish" 25 34 false; mkTok 44 "// c" 25 42 true; mkTok 7 "@lengthOf(" 26 0 false; mkTok 42 "zchar" 26 10 false; mkTok 6 ")" 27 0 false; mkTok 40 "," 27 2 false; mkTok 3 "}" 28 0 false; mkTok 37 "MetaData" 28 1 false; mkTok 42 "msg_type" 28 10 false; mkTok 2 "{" 28 19 false; mkTok 3 "}" 28 21 false; mkTok 37 "MetaData" 29 4 false; mkTok 42 "uint8x" 29 13 false; mkTok 2 "{" 29 21 false; mkTok 42 "repeatCount" 29 24 false; mkTok 42 "leftPad" 30 0 false; mkTok 44 (string_of_bytes [47; 47; 9; 116]%N) 30 7 true; mkTok 40 "," 31 0 false; mkTok 3 "}" 31 1 false; mkTok 44 "// a // b" 32 4 true; mkTok 35 "packet" 33 4 false; mkTok 42 "falsey" 33 11 false; mkTok 44 "// packet A { u8 x, }" 34 0 true; mkTok 44 "// packet A { u8 x, }" 35 0 true; mkTok 2 "{" 36 0 false; mkTok 42 "u128" 36 2 false; mkTok 42 "x" 37 4 false; mkTok 40 "," 37 5 false; mkTok 3 "}" 37 7 false; mkTok 34 "root" 37 9 false; mkTok 35 "packet" 37 14 false; mkTok 42 "T" 37 21 false; mkTok 2 "{" 37 22 false; mkTok 24 "i8" 38 4 false; mkTok 42 "chars" 39 0 false; mkTok 7 "@lengthOf(" 39 6 false; mkTok 42 "Packet" 39 17 false; mkTok 6 ")" 39 23 false; mkTok 40 "," 40 0 false; mkTok 3 "}" 41 0 false; mkTok 0 "<EOF>" 42 0 false] (mkPacket (mkPtok 35 "packet" 1 0 0) (Some (mkPtok 3 "}" 41 0 117)) [(DPacket (mkPacketDef (mkSpan (mkPtok 35 "packet" 1 0 0) (mkPtok 3 "}" 28 0 84)) None (mkPtok 35 "packet" 1 0 0) (mkPtok 42 "tag" 1 7 1) (mkPtok 2 "{" 1 11 2) [(mkFieldWithAttr (mkSpan (mkPtok 38 "match" 1 13 3) (mkPtok 40 "," 16 4 55)) [] (MatchField (mkSpan (mkPtok 38 "match" 1 13 3) (mkPtok 40 "," 16 4 55)) (mkMatchFieldDecl (mkSpan (mkPtok 38 "match" 1 13 3) (mkPtok 3 "}" 15 26 54)) (mkPtok 38 "match" 1 13 3) (mkPtok 42 "zchar" 1 19 4) (mkPtok 17 "as" 1 25 5) (mkPtok 42 "metadata" 2 0 6) (mkPtok 2 "{" 3 0 8) [(mkMatchPair (mkSpan (mkPtok 18 "[" 3 2 9) (mkPtok 42 "body" 3 27 15)) (MKList (mkKeyList (mkSpan (mkPtok 18 "[" 3 2 9) (mkPtok 13 "]" 3 23 13)) (mkPtok 18 "[" 3 2 9) (mkPtok 30 "0123456789" 3 4 10) [((mkPtok 40 "," 3 15 11), (mkPtok 31 """abc""" 3 17 12))] (mkPtok 13 "]" 3 23 13))) (mkPtok 39 ":" 3 25 14) (mkPtok 42 "body" 3 27 15) None); (mkMatchPair (mkSpan (mkPtok 18 "[" 3 31 16) (mkPtok 40 "," 11 0 36)) (MKList (mkKeyList (mkSpan (mkPtok 18 "[" 3 31 16) (mkPtok 13 "]" 9 25 33)) (mkPtok 18 "[" 3 31 16) (mkPtok 31 """""" 3 33 17) [((mkPtok 40 "," 4 0 18), (mkPtok 31 """\n""" 4 2 19)); ((mkPtok 40 "," 5 0 20), (mkPtok 30 "00" 5 2 21)); ((mkPtok 40 "," 7 4 23), (mkPtok 31 """""" 8 4 24)); ((mkPtok 40 "," 8 6 25), (mkPtok 30 "00" 8 8 26)); ((mkPtok 40 "," 9 0 27), (mkPtok 30 "42" 9 2 28)); ((mkPtok 40 "," 9 5 29), (mkPtok 31 (string_of_bytes [34; 195; 169; 116; 195; 169; 34]%N) 9 7 30)); ((mkPtok 40 "," 9 12 31), (mkPtok 30 "0123456789" 9 14 32))] (mkPtok 13 "]" 9 25 33))) (mkPtok 39 ":" 10 0 34) (mkPtok 42 "Foo" 10 1 35) (Some (mkPtok 40 "," 11 0 36))); (mkMatchPair (mkSpan (mkPtok 18 "[" 11 2 37) (mkPtok 40 "," 15 11 49)) (MKList (mkKeyList (mkSpan (mkPtok 18 "[" 11 2 37) (mkPtok 13 "]" 13 5 45)) (mkPtok 18 "[" 11 2 37) (mkPtok 30 "007" 12 0 38) [((mkPtok 40 "," 12 4 39), (mkPtok 30 "007" 12 6 40)); ((mkPtok 40 "," 12 10 41), (mkPtok 30 "4294967296" 12 11 42)); ((mkPtok 40 "," 13 0 43), (mkPtok 30 "7" 13 2 44))] (mkPtok 13 "]" 13 5 45))) (mkPtok 39 ":" 15 4 47) (mkPtok 42 "body" 15 6 48) (Some (mkPtok 40 "," 15 11 49))); (mkMatchPair (mkSpan (mkPtok 30 "007" 15 13 50) (mkPtok 40 "," 15 24 53)) (MKDigits (mkPtok 30 "007" 15 13 50)) (mkPtok 39 ":" 15 17 51) (mkPtok 42 "asx" 15 20 52) (Some (mkPtok 40 "," 15 24 53)))] (mkPtok 3 "}" 15 26 54)) (mkPtok 40 "," 16 4 55))); (mkFieldWithAttr (mkSpan (mkPtok 9 "@tag(" 16 5 56) (mkPtok 40 "," 20 0 63)) [(FATag (mkSpan (mkPtok 9 "@tag(" 16 5 56) (mkPtok 6 ")" 18 0 58)) (mkTagAttr (mkSpan (mkPtok 9 "@tag(" 16 5 56) (mkPtok 6 ")" 18 0 58)) (mkPtok 9 "@tag(" 16 5 56) (mkPtok 30 "007" 17 4 57) (mkPtok 6 ")" 18 0 58)))] (ObjectField (mkSpan (mkPtok 42 "BodyLength" 18 1 59) (mkPtok 40 "," 20 0 63)) None (mkPtok 42 "BodyLength" 18 1 59) (Some (mkPtok 42 "repeatCount" 18 12 60)) (Some (mkPtok 43 (string_of_bytes [96; 10; 96]%N) 18 24 61)) (mkPtok 40 "," 20 0 63))); (mkFieldWithAttr (mkSpan (mkPtok 36 "repeat" 20 2 64) (mkPtok 40 "," 23 5 70)) [] (MetaField (mkSpan (mkPtok 36 "repeat" 20 2 64) (mkPtok 40 "," 23 5 70)) (Some (mkPtok 36 "repeat" 20 2 64)) (mkMetaDecl (mkSpan (mkPtok 12 "char[" 21 4 65) (mkPtok 40 "," 23 5 70)) (TyFixed (mkSpan (mkPtok 12 "char[" 21 4 65) (mkPtok 13 "]" 23 0 68)) (mkFixedString (mkSpan (mkPtok 12 "char[" 21 4 65) (mkPtok 13 "]" 23 0 68)) (mkPtok 12 "char[" 21 4 65) (mkPtok 30 "7" 22 0 67) (mkPtok 13 "]" 23 0 68))) (mkPtok 42 "As" 23 2 69) None (mkPtok 40 "," 23 5 70)))); (mkFieldWithAttr (mkSpan (mkPtok 42 "A" 23 7 71) (mkPtok 40 "," 25 29 76)) [] (CheckSumField (mkSpan (mkPtok 42 "A" 23 7 71) (mkPtok 40 "," 25 29 76)) (mkChecksumFieldDecl (mkSpan (mkPtok 42 "A" 23 7 71) (mkPtok 40 "," 25 29 76)) None (mkPtok 42 "A" 23 7 71) (mkCalculatedFrom (mkSpan (mkPtok 5 "@calculatedFrom(" 25 4 73) (mkPtok 6 ")" 25 27 75)) (mkPtok 5 "@calculatedFrom(" 25 4 73) (mkPtok 31 """x y""" 25 21 74) (mkPtok 6 ")" 25 27 75)) None (mkPtok 40 "," 25 29 76)))); (mkFieldWithAttr (mkSpan (mkPtok 20 "u8" 25 31 77) (mkPtok 40 "," 27 2 83)) [] (LengthField (mkSpan (mkPtok 20 "u8" 25 31 77) (mkPtok 40 "," 27 2 83)) (mkLengthFieldDecl (mkSpan (mkPtok 20 "u8" 25 31 77) (mkPtok 40 "," 27 2 83)) (Some (TyBasic (mkSpan (mkPtok 20 "u8" 25 31 77) (mkPtok 20 "u8" 25 31 77)) (mkBasicType (mkSpan (mkPtok 20 "u8" 25 31 77) (mkPtok 20 "u8" 25 31 77)) (mkPtok 20 "u8" 25 31 77)))) (mkPtok 42 "trueish" 25 34 78) (mkLengthOf (mkSpan (mkPtok 7 "@lengthOf(" 26 0 80) (mkPtok 6 ")" 27 0 82)) (mkPtok 7 "@lengthOf(" 26 0 80) (mkPtok 42 "zchar" 26 10 81) (mkPtok 6 ")" 27 0 82)) None (mkPtok 40 "," 27 2 83))))] (mkPtok 3 "}" 28 0 84))); (DMeta (mkMetaDef (mkSpan (mkPtok 37 "MetaData" 28 1 85) (mkPtok 3 "}" 28 21 88)) (mkPtok 37 "MetaData" 28 1 85) (mkPtok 42 "msg_type" 28 10 86) (mkPtok 2 "{" 28 19 87) [] (mkPtok 3 "}" 28 21 88))); (DMeta (mkMetaDef (mkSpan (mkPtok 37 "MetaData" 29 4 89) (mkPtok 3 "}" 31 1 96)) (mkPtok 37 "MetaData" 29 4 89) (mkPtok 42 "uint8x" 29 13 90) (mkPtok 2 "{" 29 21 91) [(MIRef (mkRefMetaDecl (mkSpan (mkPtok 42 "repeatCount" 29 24 92) (mkPtok 40 "," 31 0 95)) (mkPtok 42 "repeatCount" 29 24 92) (mkPtok 42 "leftPad" 30 0 93) None (mkPtok 40 "," 31 0 95)))] (mkPtok 3 "}" 31 1 96))); (DPacket (mkPacketDef (mkSpan (mkPtok 35 "packet" 33 4 98) (mkPtok 3 "}" 37 7 106)) None (mkPtok 35 "packet" 33 4 98) (mkPtok 42 "falsey" 33 11 99) (mkPtok 2 "{" 36 0 102) [(mkFieldWithAttr (mkSpan (mkPtok 42 "u128" 36 2 103) (mkPtok 40 "," 37 5 105)) [] (ObjectField (mkSpan (mkPtok 42 "u128" 36 2 103) (mkPtok 40 "," 37 5 105)) None (mkPtok 42 "u128" 36 2 103) (Some (mkPtok 42 "x" 37 4 104)) None (mkPtok 40 "," 37 5 105)))] (mkPtok 3 "}" 37 7 106))); (DPacket (mkPacketDef (mkSpan (mkPtok 34 "root" 37 9 107) (mkPtok 3 "}" 41 0 117)) (Some (mkPtok 34 "root" 37 9 107)) (mkPtok 35 "packet" 37 14 108) (mkPtok 42 "T" 37 21 109) (mkPtok 2 "{" 37 22 110) [(mkFieldWithAttr (mkSpan (mkPtok 24 "i8" 38 4 111) (mkPtok 40 "," 40 0 116)) [] (LengthField (mkSpan (mkPtok 24 "i8" 38 4 111) (mkPtok 40 "," 40 0 116)) (mkLengthFieldDecl (mkSpan (mkPtok 24 "i8" 38 4 111) (mkPtok 40 "," 40 0 116)) (Some (TyBasic (mkSpan (mkPtok 24 "i8" 38 4 111) (mkPtok 24 "i8" 38 4 111)) (mkBasicType (mkSpan (mkPtok 24 "i8" 38 4 111) (mkPtok 24 "i8" 38 4 111)) (mkPtok 24 "i8" 38 4 111)))) (mkPtok 42 "chars" 39 0 112) (mkLengthOf (mkSpan (mkPtok 7 "@lengthOf(" 39 6 113) (mkPtok 6 ")" 39 23 115)) (mkPtok 7 "@lengthOf(" 39 6 113) (mkPtok 42 "Packet" 39 17 114) (mkPtok 6 ")" 39 23 115)) None (mkPtok 40 "," 40 0 116))))] (mkPtok 3 "}" 41 0 117)))])).
Eval vm_compute in ("<<<M1662>>>" ++ check (runes_of_ascii "options { As = ""1""
    Header
=  '\x00' ; u128 =
    '0' Z9_ = ""\" ++ [233]%N ++ runes_of_ascii """} packet
//	t
// " ++ [128512]%N ++ runes_of_ascii " emoji
matchKey { }
packet
    matchKey { @rightPad (
    '\x00' ) @tag( 0 )@tag(	4294967296) A@calculatedFrom( ""CRC32"" ) //
`{ , }` , repeat uint8 u8x , u8	A	`` , @tag( //	t
42 )trueish , }
")).
Eval vm_compute in ("<<<M1694>>>" ++ check (runes_of_ascii "packet metadata
    {@rightPad (
    // trailing space 
    '0' ) T u8x , match // packet A { u8 x, }
pack as uint8x
{ 4294967296 : repeatCount
    // `tick` ""quote"" 'q'
    ,
    //x
    00 : Packet 255 : Pad
,	""`tick`"" :As /// triple
,  [007, 10 ] :T
//
// " ++ [27880; 37322]%N ++ runes_of_ascii "
, ""1""  :stringy
,} , @lengthOf(
    rootA )
// a // b
/// triple
calculatedFrom  @lengthOf(metadata ) , @tag(
// c
//
65535)
//	t
//	t
repeat f64
msg_type, calculatedFrom `
`//
,
    u
,  repeat// " ++ [128512]%N ++ runes_of_ascii " emoji
i8 string_, repeat float32 trueish
    ,repeat trueish
{ int64 A , char[ 0123456789 ] crc
// a // b
// a // b
,
zchar[ 007 ]
// a // b
// " ++ [27880; 37322]%N ++ runes_of_ascii "
stringy
    `// not a comment` , } , }
")).
Eval vm_compute in ("<<<M1726>>>" ++ check (runes_of_ascii "options
{tag = 255
; len =
""a	b""
// trailing space 
//	t
;
len= // packet A { u8 x, }
""\n""; /// triple
BodyLength= ""packet""
chars = 0 }
packet tag { }
packet
roots
    // packet A { u8 x, }
    { @tag(
    7 ) repeat f32a
,
    } packet uint8x { lengthOf roots
// packet A { u8 x, }
// a // b
`
`
    ,int8 BodyLength , char[	255
    ] x @calculatedFrom(
""CRC32""	)`u8 x,` , repeat
u128 , repeat int64 Pad , @calculatedFrom( ""\n"")
@tag( 007 ) @rightPad
    ( ' '  )
    repeat
char[ 10 ]	u128 , @lengthOf(	trueish
)repeat A
{ char[] /// triple
roots ,}, }
")).
Eval vm_compute in ("<<<M1758>>>" ++ check (runes_of_ascii "packet MetaDataX // " ++ [27880; 37322]%N ++ runes_of_ascii "
{ uint32 lengthOf ``
    , u16 T , char o //
@lengthOf( charz )
    , @rightPad ( '0' ) falsey,} packet calculatedFrom { repeat char
    Foo
    // a // b
    ,	uint64 options1 `two words` , @calculatedFrom( ""\n"" ) int32
    x  `" ++ [233]%N ++ runes_of_ascii "` ,uint64
    options1 @lengthOf( tag ) ,}
")).
Eval vm_compute in ("<<<M1790>>>" ++ check (runes_of_ascii "options
{ }")).
Eval vm_compute in ("<<<M1822>>>" ++ check (@nil rune)).
Eval vm_compute in ("<<<M1854>>>" ++ check (runes_of_ascii "  MetaData rootA
{
zchar[	10]//	t
MetaDataX `tab	here`,msg_type x_y_z `doc`
    , u32 uint8x , //	t
i64_
i64_ ,
    matchKey
    metadata ,
calculatedFrom zchar ,
}
    // a // b
    options
{string_= 10 ; options1 = string;
    // @lengthOf(
    MetaDataX= char[]
; leftPad =
007
//x
// c
; }MetaData x_y_z	{ u leftPad , Foo
a1  , // a // b
len//
crc `u8 x,`
    , i8i8 x_y_z
`line1
line2` ,
f64	u `say ""hi""` // @lengthOf(
,
}")).
Eval vm_compute in ("<<<T1854>>>" ++ terms [mkTok 37 "MetaData" 1 2 false; mkTok 42 "rootA" 1 11 false; mkTok 2 "{" 2 0 false; mkTok 14 "zchar[" 3 0 false; mkTok 30 "10" 3 7 false; mkTok 13 "]" 3 9 false; mkTok 44 (string_of_bytes [47; 47; 9; 116]%N) 3 10 true; mkTok 42 "MetaDataX" 4 0 false; mkTok 43 (string_of_bytes [96; 116; 97; 98; 9; 104; 101; 114; 101; 96]%N) 4 10 false; mkTok 40 "," 4 20 false; mkTok 42 "msg_type" 4 21 false; mkTok 42 "x_y_z" 4 30 false; mkTok 43 "`doc`" 4 36 false; mkTok 40 "," 5 4 false; mkTok 22 "u32" 5 6 false; mkTok 42 "uint8x" 5 10 false; mkTok 40 "," 5 17 false; mkTok 44 (string_of_bytes [47; 47; 9; 116]%N) 5 19 true; mkTok 42 "i64_" 6 0 false; mkTok 42 "i64_" 7 0 false; mkTok 40 "," 7 5 false; mkTok 42 "matchKey" 8 4 false; mkTok 42 "metadata" 9 4 false; mkTok 40 "," 9 13 false; mkTok 42 "calculatedFrom" 10 0 false; mkTok 42 "zchar" 10 15 false; mkTok 40 "," 10 21 false; mkTok 3 "}" 11 0 false; mkTok 44 "// a // b" 12 4 true; mkTok 1 "options" 13 4 false; mkTok 2 "{" 14 0 false; mkTok 42 "string_" 14 1 false; mkTok 4 "=" 14 8 false; mkTok 30 "10" 14 10 false; mkTok 41 ";" 14 13 false; mkTok 42 "options1" 14 15 false; mkTok 4 "=" 14 24 false; mkTok 15 "string" 14 26 false; mkTok 41 ";" 14 32 false; mkTok 44 "// @lengthOf(" 15 4 true; mkTok 42 "MetaDataX" 16 4 false; mkTok 4 "=" 16 13 false; mkTok 16 "char[]" 16 15 false; mkTok 41 ";" 17 0 false; mkTok 42 "leftPad" 17 2 false; mkTok 4 "=" 17 10 false; mkTok 30 "007" 18 0 false; mkTok 44 "//x" 19 0 true; mkTok 44 "// c" 20 0 true; mkTok 41 ";" 21 0 false; mkTok 3 "}" 21 2 false; mkTok 37 "MetaData" 21 3 false; mkTok 42 "x_y_z" 21 12 false; mkTok 2 "{" 21 18 false; mkTok 42 "u" 21 20 false; mkTok 42 "leftPad" 21 22 false; mkTok 40 "," 21 30 false; mkTok 42 "Foo" 21 32 false; mkTok 42 "a1" 22 0 false; mkTok 40 "," 22 4 false; mkTok 44 "// a // b" 22 6 true; mkTok 42 "len" 23 0 false; mkTok 44 "//" 23 3 true; mkTok 42 "crc" 24 0 false; mkTok 43 "`u8 x,`" 24 4 false; mkTok 40 "," 25 4 false; mkTok 42 "i8i8" 25 6 false; mkTok 42 "x_y_z" 25 11 false; mkTok 43 (string_of_bytes [96; 108; 105; 110; 101; 49; 10; 108; 105; 110; 101; 50; 96]%N) 26 0 false; mkTok 40 "," 27 7 false; mkTok 29 "f64" 28 0 false; mkTok 42 "u" 28 4 false; mkTok 43 "`say ""hi""`" 28 6 false; mkTok 44 "// @lengthOf(" 28 17 true; mkTok 40 "," 29 0 false; mkTok 3 "}" 30 0 false; mkTok 0 "<EOF>" 30 1 false] (mkPacket (mkPtok 37 "MetaData" 1 2 0) (Some (mkPtok 3 "}" 30 0 75)) [(DMeta (mkMetaDef (mkSpan (mkPtok 37 "MetaData" 1 2 0) (mkPtok 3 "}" 11 0 27)) (mkPtok 37 "MetaData" 1 2 0) (mkPtok 42 "rootA" 1 11 1) (mkPtok 2 "{" 2 0 2) [(MIDecl (mkMetaDecl (mkSpan (mkPtok 14 "zchar[" 3 0 3) (mkPtok 40 "," 4 20 9)) (TyFixed (mkSpan (mkPtok 14 "zchar[" 3 0 3) (mkPtok 13 "]" 3 9 5)) (mkFixedString (mkSpan (mkPtok 14 "zchar[" 3 0 3) (mkPtok 13 "]" 3 9 5)) (mkPtok 14 "zchar[" 3 0 3) (mkPtok 30 "10" 3 7 4) (mkPtok 13 "]" 3 9 5))) (mkPtok 42 "MetaDataX" 4 0 7) (Some (mkPtok 43 (string_of_bytes [96; 116; 97; 98; 9; 104; 101; 114; 101; 96]%N) 4 10 8)) (mkPtok 40 "," 4 20 9))); (MIRef (mkRefMetaDecl (mkSpan (mkPtok 42 "msg_type" 4 21 10) (mkPtok 40 "," 5 4 13)) (mkPtok 42 "msg_type" 4 21 10) (mkPtok 42 "x_y_z" 4 30 11) (Some (mkPtok 43 "`doc`" 4 36 12)) (mkPtok 40 "," 5 4 13))); (MIDecl (mkMetaDecl (mkSpan (mkPtok 22 "u32" 5 6 14) (mkPtok 40 "," 5 17 16)) (TyBasic (mkSpan (mkPtok 22 "u32" 5 6 14) (mkPtok 22 "u32" 5 6 14)) (mkBasicType (mkSpan (mkPtok 22 "u32" 5 6 14) (mkPtok 22 "u32" 5 6 14)) (mkPtok 22 "u32" 5 6 14))) (mkPtok 42 "uint8x" 5 10 15) None (mkPtok 40 "," 5 17 16))); (MIRef (mkRefMetaDecl (mkSpan (mkPtok 42 "i64_" 6 0 18) (mkPtok 40 "," 7 5 20)) (mkPtok 42 "i64_" 6 0 18) (mkPtok 42 "i64_" 7 0 19) None (mkPtok 40 "," 7 5 20))); (MIRef (mkRefMetaDecl (mkSpan (mkPtok 42 "matchKey" 8 4 21) (mkPtok 40 "," 9 13 23)) (mkPtok 42 "matchKey" 8 4 21) (mkPtok 42 "metadata" 9 4 22) None (mkPtok 40 "," 9 13 23))); (MIRef (mkRefMetaDecl (mkSpan (mkPtok 42 "calculatedFrom" 10 0 24) (mkPtok 40 "," 10 21 26)) (mkPtok 42 "calculatedFrom" 10 0 24) (mkPtok 42 "zchar" 10 15 25) None (mkPtok 40 "," 10 21 26)))] (mkPtok 3 "}" 11 0 27))); (DOption (mkOptionDef (mkSpan (mkPtok 1 "options" 13 4 29) (mkPtok 3 "}" 21 2 50)) (mkPtok 1 "options" 13 4 29) (mkPtok 2 "{" 14 0 30) [(mkOptionDecl (mkSpan (mkPtok 42 "string_" 14 1 31) (mkPtok 41 ";" 14 13 34)) (mkPtok 42 "string_" 14 1 31) (mkPtok 4 "=" 14 8 32) (VDigits (mkSpan (mkPtok 30 "10" 14 10 33) (mkPtok 30 "10" 14 10 33)) (mkPtok 30 "10" 14 10 33)) (Some (mkPtok 41 ";" 14 13 34))); (mkOptionDecl (mkSpan (mkPtok 42 "options1" 14 15 35) (mkPtok 41 ";" 14 32 38)) (mkPtok 42 "options1" 14 15 35) (mkPtok 4 "=" 14 24 36) (VType (mkSpan (mkPtok 15 "string" 14 26 37) (mkPtok 15 "string" 14 26 37)) (TyDynamic (mkSpan (mkPtok 15 "string" 14 26 37) (mkPtok 15 "string" 14 26 37)) (mkDynamicString (mkSpan (mkPtok 15 "string" 14 26 37) (mkPtok 15 "string" 14 26 37)) (mkPtok 15 "string" 14 26 37)))) (Some (mkPtok 41 ";" 14 32 38))); (mkOptionDecl (mkSpan (mkPtok 42 "MetaDataX" 16 4 40) (mkPtok 41 ";" 17 0 43)) (mkPtok 42 "MetaDataX" 16 4 40) (mkPtok 4 "=" 16 13 41) (VType (mkSpan (mkPtok 16 "char[]" 16 15 42) (mkPtok 16 "char[]" 16 15 42)) (TyDynamic (mkSpan (mkPtok 16 "char[]" 16 15 42) (mkPtok 16 "char[]" 16 15 42)) (mkDynamicString (mkSpan (mkPtok 16 "char[]" 16 15 42) (mkPtok 16 "char[]" 16 15 42)) (mkPtok 16 "char[]" 16 15 42)))) (Some (mkPtok 41 ";" 17 0 43))); (mkOptionDecl (mkSpan (mkPtok 42 "leftPad" 17 2 44) (mkPtok 41 ";" 21 0 49)) (mkPtok 42 "leftPad" 17 2 44) (mkPtok 4 "=" 17 10 45) (VDigits (mkSpan (mkPtok 30 "007" 18 0 46) (mkPtok 30 "007" 18 0 46)) (mkPtok 30 "007" 18 0 46)) (Some (mkPtok 41 ";" 21 0 49)))] (mkPtok 3 "}" 21 2 50))); (DMeta (mkMetaDef (mkSpan (mkPtok 37 "MetaData" 21 3 51) (mkPtok 3 "}" 30 0 75)) (mkPtok 37 "MetaData" 21 3 51) (mkPtok 42 "x_y_z" 21 12 52) (mkPtok 2 "{" 21 18 53) [(MIRef (mkRefMetaDecl (mkSpan (mkPtok 42 "u" 21 20 54) (mkPtok 40 "," 21 30 56)) (mkPtok 42 "u" 21 20 54) (mkPtok 42 "leftPad" 21 22 55) None (mkPtok 40 "," 21 30 56))); (MIRef (mkRefMetaDecl (mkSpan (mkPtok 42 "Foo" 21 32 57) (mkPtok 40 "," 22 4 59)) (mkPtok 42 "Foo" 21 32 57) (mkPtok 42 "a1" 22 0 58) None (mkPtok 40 "," 22 4 59))); (MIRef (mkRefMetaDecl (mkSpan (mkPtok 42 "len" 23 0 61) (mkPtok 40 "," 25 4 65)) (mkPtok 42 "len" 23 0 61) (mkPtok 42 "crc" 24 0 63) (Some (mkPtok 43 "`u8 x,`" 24 4 64)) (mkPtok 40 "," 25 4 65))); (MIRef (mkRefMetaDecl (mkSpan (mkPtok 42 "i8i8" 25 6 66) (mkPtok 40 "," 27 7 69)) (mkPtok 42 "i8i8" 25 6 66) (mkPtok 42 "x_y_z" 25 11 67) (Some (mkPtok 43 (string_of_bytes [96; 108; 105; 110; 101; 49; 10; 108; 105; 110; 101; 50; 96]%N) 26 0 68)) (mkPtok 40 "," 27 7 69))); (MIDecl (mkMetaDecl (mkSpan (mkPtok 29 "f64" 28 0 70) (mkPtok 40 "," 29 0 74)) (TyBasic (mkSpan (mkPtok 29 "f64" 28 0 70) (mkPtok 29 "f64" 28 0 70)) (mkBasicType (mkSpan (mkPtok 29 "f64" 28 0 70) (mkPtok 29 "f64" 28 0 70)) (mkPtok 29 "f64" 28 0 70))) (mkPtok 42 "u" 28 4 71) (Some (mkPtok 43 "`say ""hi""`" 28 6 72)) (mkPtok 40 "," 29 0 74)))] (mkPtok 3 "}" 30 0 75)))])).
Eval vm_compute in ("<<<M1886>>>" ++ check (runes_of_ascii "MetaData roots{uint32
//
// packet A { u8 x, }
metadata `u8 x,`,uint8x
    i64_ `it's`, u o, }
MetaData
stringy{ len leftPad ,// " ++ [128512]%N ++ runes_of_ascii " emoji
repeatCount // " ++ [128512]%N ++ runes_of_ascii " emoji
o // trailing space 
, } packet u128{
@lengthOf( float  )	u16 uint8x`line1
line2` ,
@lengthOf(
/// triple
//x
lengthOf
    )
@tag( 0
)@lengthOf( matchKey  ) match
stringy  as
    float {
""\" ++ [233]%N ++ runes_of_ascii """: Z9_}
, @leftPad
( ) /// triple
charz
    , @calculatedFrom( // trailing space 
""// no comment"" )repeat char[ 1] As `// not a comment` ,} //")).
Eval vm_compute in ("<<<M1918>>>" ++ check (runes_of_ascii "packet tag { @calculatedFrom( // " ++ [128512]%N ++ runes_of_ascii " emoji
""""
)	match calculatedFrom as
    rootA {// packet A { u8 x, }
4294967296:
msg_type
} // " ++ [128512]%N ++ runes_of_ascii " emoji
, // trailing space 
} options {  string_=f64 }")).
Eval vm_compute in ("<<<M1950>>>" ++ check (runes_of_ascii "  packet x{ // packet A { u8 x, }
@tag(42	)  As roots
    // @lengthOf(
    ,	} MetaData//	t
f32a
{
T A `tab	here`,	pack string_/// triple
,
    }root	packet repeatCount
{ @calculatedFrom( ""// no comment"" ) x
    body //
`two words` ,repeat zchar[ 3// c
] //	t
As
    , //x
zchar[ 00] asx , repeat i64_
    { match
    metadata as packetx{
""{,}"": As
, ""packet"" :
rootA , } , match // c
zchar as matchKey
    { [
    65535 ]
:
calculatedFrom
    ""CRC32""
    :
    // " ++ [128512]%N ++ runes_of_ascii " emoji
    i64_ , 65535:
packetx ,255 : len ""CRC32""
    : leftPad
, } , i16
matchKey
    ,
u lengthOf
`line1
line2` , } , }")).
Eval vm_compute in ("<<<M1982>>>" ++ check (runes_of_ascii "MetaData falsey { char[7
//
// @lengthOf(
]
    trueish `" ++ [233]%N ++ runes_of_ascii "` ,
    int32 trueish ,  }root
    packet As {	@calculatedFrom(//
""x y"" )
zchar[ 0123456789 ]
    msg_type
// packet A { u8 x, }
//	t
,
repeat
body
    { // packet A { u8 x, }
T
@calculatedFrom(""a	b"")
,
    } , u16 Z9_
    `" ++ [233]%N ++ runes_of_ascii "`,
    // a // b
    charz @calculatedFrom( ""// no comment"" ) , zchar[
    7	] Header@lengthOf( i64_ // packet A { u8 x, }
) , match As
    // `tick` ""quote"" 'q'
    as
    a1 {	10 :tag // " ++ [27880; 37322]%N ++ runes_of_ascii "
} , int64 i8i8 , char[ //	t
0
] crc
    ,}root	packet falsey {}
")).
Eval vm_compute in ("<<<M2014>>>" ++ check (runes_of_ascii "options i64_ = string ; trueish =
    '\x00'
    leftPad = ""a\\"" /// triple
; crc
    = 255; uint8x
=
""abc""
    ;}")).
Eval vm_compute in ("<<<M2046>>>" ++ check (runes_of_ascii "options{ i64_ = string ; trueish '\x00'
    =
    leftPad = ""a\\"" /// triple
; crc
    = 255; uint8x
=
""abc""
    ;}")).
Eval vm_compute in ("<<<M2078>>>" ++ check (runes_of_ascii "options{ i64_ = string ; trueish =
    '\x00'
    leftPad = ""a\\"" /// triple
;")).
Eval vm_compute in ("<<<M2110>>>" ++ check (runes_of_ascii "options{ i64_ = string ; trueish =
    '\x00'
    leftPad = ""a\\"" /// triple
; crc
    = 255; uint8x
=
""abc""
    ; ;}")).
Eval vm_compute in ("<<<M2142>>>" ++ check (runes_of_ascii "  asx
packet
{
/// triple
// @lengthOf(
u32 stringy
`" ++ [28040; 24687; 31867; 22411]%N ++ runes_of_ascii "` ,} MetaData
    A {string  _x, zchar Header `a\`
// @lengthOf(
// packet A { u8 x, }
, char[] MetaDataX
,zchar[ 1 ]
    matchKey
    , char[] //
u,	char[0123456789 ]
    matchKey
    `{ , }`, }
")).
Eval vm_compute in ("<<<M2174>>>" ++ check (runes_of_ascii "  packet
asx
{
/// triple
// @lengthOf(
u32 stringy
`" ++ [28040; 24687; 31867; 22411]%N ++ runes_of_ascii "`")).
Eval vm_compute in ("<<<M2206>>>" ++ check (runes_of_ascii "  packet
asx
{
/// triple
// @lengthOf(
u32 stringy
`" ++ [28040; 24687; 31867; 22411]%N ++ runes_of_ascii "` ,} MetaData
    A {string  _x, , zchar Header `a\`
// @lengthOf(
// packet A { u8 x, }
, char[] MetaDataX
,zchar[ 1 ]
    matchKey
    , char[] //
u,	char[0123456789 ]
    matchKey
    `{ , }`, }
")).
Eval vm_compute in ("<<<M2238>>>" ++ check (runes_of_ascii "  packet
asx
{
/// triple
// @lengthOf(
u32 stringy
`" ++ [28040; 24687; 31867; 22411]%N ++ runes_of_ascii "` ,} MetaData
    A {string  _x, zchar Header `a\`
// @lengthOf(
// packet A { u8 x, }
, char[] @tag(
,zchar[ 1 ]
    matchKey
    , char[] //
u,	char[0123456789 ]
    matchKey
    `{ , }`, }
")).
Eval vm_compute in ("<<<M2270>>>" ++ check (runes_of_ascii "  packet
asx
{
/// triple
// @lengthOf(
u32 stringy
`" ++ [28040; 24687; 31867; 22411]%N ++ runes_of_ascii "` ,} MetaData
    A {string  _x, zchar Header `a\`
// @lengthOf(
// packet A { u8 x, }
, char[] MetaDataX
,zchar[ 1 ]
    matchKey
    ,  //
u,	char[0123456789 ]
    matchKey
    `{ , }`, }
")).
Eval vm_compute in ("<<<M2302>>>" ++ check (runes_of_ascii "  packet
asx
{
/// triple
// @lengthOf(
u32 stringy
`" ++ [28040; 24687; 31867; 22411]%N ++ runes_of_ascii "` ,} MetaData
    A {string  _x, zchar Header `a\`
// @lengthOf(
// packet A { u8 x, }
, char[] MetaDataX
,zchar[ 1 ]
    matchKey
    , char[] //
u,	char[0123456789 ]
    `{ , }`
    matchKey, }
")).
Eval vm_compute in ("<<<M2334>>>" ++ check (runes_of_ascii "  packet
asx
{
/// triple
// @lengthOf(
u32 stringy
`" ++ [28040; 24687; 31867; 22411]%N ++ runes_of_ascii "` ,} MetaData
    A {string  _x, zchar Header `a\`
// @lengthOf(
// packet A { u8 x, }
, char[] MetaDataX
,zchar[ 1 ]
    matchKey
    , char[] //
`u,	char[0123456789 ]
    matchKey
    `{ , }`, }
")).
Eval vm_compute in ("<<<M2366>>>" ++ check (runes_of_ascii "root
    packet
Packet
{ // trailing space 
matchKey  ,}")).
Eval vm_compute in ("<<<M2398>>>" ++ check (runes_of_ascii "root
    packet
Packet
{ // trailing space 
matchKey `tab	here` ,}@tag")).
Eval vm_compute in ("<<<M2430>>>" ++ check (runes_of_ascii "options{ falsey // a // b
=
    '0' @leftPad options { repeatCount =
true ; string_// a // b
=
// c
// " ++ [27880; 37322]%N ++ runes_of_ascii "
int64
// trailing space 
/// triple
; } // @lengthOf(")).
Eval vm_compute in ("<<<M2462>>>" ++ check (runes_of_ascii "options{ falsey // a // b
=
    '0' } options { repeatCount =
true ; // a // b
=
// c
// " ++ [27880; 37322]%N ++ runes_of_ascii "
int64
// trailing space 
/// triple
; } // @lengthOf(")).
Eval vm_compute in ("<<<M2494>>>" ++ check (runes_of_ascii "options{@tag falsey // a // b
=
    '0' } options { repeatCount =
true ; string_// a // b
=
// c
// " ++ [27880; 37322]%N ++ runes_of_ascii "
int64
// trailing space 
/// triple
; } // @lengthOf(")).
Eval vm_compute in ("<<<M2526>>>" ++ check (runes_of_ascii "options{}match packet
metadata {
@lengthOf(x ) float32
body ``, }
    MetaData
Z9_
    {
    string string_ , Logon x
,
uint32
    // packet A { u8 x, }
    Z9_,asx
_x
    `tab	here` , }
")).
Eval vm_compute in ("<<<M2558>>>" ++ check (runes_of_ascii "options{}root packet
metadata {
@lengthOf(x ) 
body ``, }
    MetaData
Z9_
    {
    string string_ , Logon x
,
uint32
    // packet A { u8 x, }
    Z9_,asx
_x
    `tab	here` , }
")).
Eval vm_compute in ("<<<M2590>>>" ++ check (runes_of_ascii "options{}root packet
metadata {
@lengthOf(x ) float32
body ``, }
    MetaData
{
    Z9_
    string string_ , Logon x
,
uint32
    // packet A { u8 x, }
    Z9_,asx
_x
    `tab	here` , }
")).
Eval vm_compute in ("<<<M2622>>>" ++ check (runes_of_ascii "options{}root packet
metadata {
@lengthOf(x ) float32
body ``, }
    MetaData
Z9_
    {
    string string_ , Logon")).
Eval vm_compute in ("<<<M2654>>>" ++ check (runes_of_ascii "options{}root packet
metadata {
@lengthOf(x ) float32
body ``, }
    MetaData
Z9_
    {
    string string_ , Logon x
,
uint32
    // packet A { u8 x, }
    Z9_,asx
_x
    `tab	here` `tab	here` , }
")).
Eval vm_compute in ("<<<M2686>>>" ++ check (runes_of_ascii "options{}root packet
metadata {
@lengthOf(x ) float32
body ``, }
    MetaData
Z9_
    {
    string string_ , Logon x
,
uint32
    // packet A { u8 x, }
    Z9_,na" ++ [239]%N ++ runes_of_ascii "ve
_x
    `tab	here` , }
")).
Eval vm_compute in ("<<<M2718>>>" ++ check (runes_of_ascii "options {
    falsey=
""a\\""")).
Eval vm_compute in ("<<<M2750>>>" ++ check (runes_of_ascii "MetaData 
{
    //	t
    }root
    packet tag  {
}
")).
Eval vm_compute in ("<<<M2782>>>" ++ check (runes_of_ascii "MetaData f32a
{
    //	t
    }root
    packet tag  }
{
")).
Eval vm_compute in ("<<<M2814>>>" ++ check (runes_of_ascii "
{
    {msg_type =
    float32  }root
packet Z9_{ char /// triple
crc @lengthOf(
options1 ) //
,} MetaData a1{}
")).
Eval vm_compute in ("<<<M2846>>>" ++ check (runes_of_ascii "
options
    {msg_type =
    float32  }root
 Z9_{ char /// triple
crc @lengthOf(
options1 ) //
,} MetaData a1{}
")).
Eval vm_compute in ("<<<M2878>>>" ++ check (runes_of_ascii "
options
    {msg_type =
    float32  }root
packet Z9_{ char /// triple
crc @lengthOf(
) options1 //
,} MetaData a1{}
")).
Eval vm_compute in ("<<<M2910>>>" ++ check (runes_of_ascii "
options
    {msg_type =
    float32  }root
packet Z9_{ char /// triple
crc @lengthOf(
options1 ) //
,} MetaData a1")).
Eval vm_compute in ("<<<M2942>>>" ++ check (runes_of_ascii "packet { // " ++ [128512]%N ++ runes_of_ascii " emoji
repeat string i8i8
`a\`, }
")).
Eval vm_compute in ("<<<M2974>>>" ++ check (runes_of_ascii "packet crc{ // " ++ [128512]%N ++ runes_of_ascii " emoji
repeat string i8i8
`a\`} ,
")).
Eval vm_compute in ("<<<M3006>>>" ++ check (runes_of_ascii "} BodyLength {} MetaData zchar{ zchar[// @lengthOf(
42 ]
    pack , string_
A , char[]crc , _x trueish ,
// " ++ [27880; 37322]%N ++ runes_of_ascii "
// " ++ [128512]%N ++ runes_of_ascii " emoji
zchar[
    3 ]	T // trailing space 
, } packet body
{
    }
")).
Eval vm_compute in ("<<<M3038>>>" ++ check (runes_of_ascii "packet BodyLength {} MetaData zchar{ // @lengthOf(
42 ]
    pack , string_
A , char[]crc , _x trueish ,
// " ++ [27880; 37322]%N ++ runes_of_ascii "
// " ++ [128512]%N ++ runes_of_ascii " emoji
zchar[
    3 ]	T // trailing space 
, } packet body
{
    }
")).
Eval vm_compute in ("<<<M3070>>>" ++ check (runes_of_ascii "packet BodyLength {} MetaData zchar{ zchar[// @lengthOf(
42 ]
    pack , string_
, A char[]crc , _x trueish ,
// " ++ [27880; 37322]%N ++ runes_of_ascii "
// " ++ [128512]%N ++ runes_of_ascii " emoji
zchar[
    3 ]	T // trailing space 
, } packet body
{
    }
")).
Eval vm_compute in ("<<<M3102>>>" ++ check (runes_of_ascii "packet BodyLength {} MetaData zchar{ zchar[// @lengthOf(
42 ]
    pack , string_
A , char[]crc , _x")).
Eval vm_compute in ("<<<M3134>>>" ++ check (runes_of_ascii "packet BodyLength {} MetaData zchar{ zchar[// @lengthOf(
42 ]
    pack , string_
A , char[]crc , _x trueish ,
// " ++ [27880; 37322]%N ++ runes_of_ascii "
// " ++ [128512]%N ++ runes_of_ascii " emoji
zchar[
    3 ]	T // trailing space 
, } } packet body
{
    }
")).
Eval vm_compute in ("<<<M3166>>>" ++ check (runes_of_ascii "packet BodyLength {} MetaData @lengthOf zchar{ zchar[// @lengthOf(
42 ]
    pack , string_
A , char[]crc , _x trueish ,
// " ++ [27880; 37322]%N ++ runes_of_ascii "
// " ++ [128512]%N ++ runes_of_ascii " emoji
zchar[
    3 ]	T // trailing space 
, } packet body
{
    }
")).
Eval vm_compute in ("<<<M3198>>>" ++ check (runes_of_ascii "packet
string_ {")).
Eval vm_compute in ("<<<M3230>>>" ++ check (runes_of_ascii "packet
string_ {@lengthOf( int ) match packetx as f32a { {
    1 :	calculatedFrom , }  ,
    } packet len
    //	t
    { @calculatedFrom( """ ++ [233]%N ++ runes_of_ascii "t" ++ [233]%N ++ runes_of_ascii """ ) body Header , char[] lengthOf  `two words` ,chars{repeat string_ matchKey ,
    } ,
    }
")).
Eval vm_compute in ("<<<M3262>>>" ++ check (runes_of_ascii "packet
string_ {@lengthOf( int ) match packetx as f32a {
    1 :	calculatedFrom , }  f64
    } packet len
    //	t
    { @calculatedFrom( """ ++ [233]%N ++ runes_of_ascii "t" ++ [233]%N ++ runes_of_ascii """ ) body Header , char[] lengthOf  `two words` ,chars{repeat string_ matchKey ,
    } ,
    }
")).
Eval vm_compute in ("<<<M3294>>>" ++ check (runes_of_ascii "packet
string_ {@lengthOf( int ) match packetx as f32a {
    1 :	calculatedFrom , }  ,
    } packet len
    //	t
    { @calculatedFrom( """ ++ [233]%N ++ runes_of_ascii "t" ++ [233]%N ++ runes_of_ascii """  body Header , char[] lengthOf  `two words` ,chars{repeat string_ matchKey ,
    } ,
    }
")).
Eval vm_compute in ("<<<M3326>>>" ++ check (runes_of_ascii "packet
string_ {@lengthOf( int ) match packetx as f32a {
    1 :	calculatedFrom , }  ,
    } packet len
    //	t
    { @calculatedFrom( """ ++ [233]%N ++ runes_of_ascii "t" ++ [233]%N ++ runes_of_ascii """ ) body Header , char[] lengthOf  , `two words`chars{repeat string_ matchKey ,
    } ,
    }
")).
Eval vm_compute in ("<<<M3358>>>" ++ check (runes_of_ascii "packet
string_ {@lengthOf( int ) match packetx as f32a {
    1 :	calculatedFrom , }  ,
    } packet len
    //	t
    { @calculatedFrom( """ ++ [233]%N ++ runes_of_ascii "t" ++ [233]%N ++ runes_of_ascii """ ) body Header , char[] lengthOf  `two words` ,chars{repeat string_")).
Eval vm_compute in ("<<<M3390>>>" ++ check (runes_of_ascii "packet
string_ {@lengthOf( int ) match packetx as f32a {
    1 :	calculatedFrom ," ++ [127]%N ++ runes_of_ascii " }  ,
    } packet len
    //	t
    { @calculatedFrom( """ ++ [233]%N ++ runes_of_ascii "t" ++ [233]%N ++ runes_of_ascii """ ) body Header , char[] lengthOf  `two words` ,chars{repeat string_ matchKey ,
    } ,
    }
")).
Eval vm_compute in ("<<<M3422>>>" ++ check (runes_of_ascii "/// triple
root
packet // packet A { u8 x, }
chars { @lengthOf(charz )
,  @tag(  0 ) // a // b
asx
    As
,
// trailing space 
// trailing space 
x_y_z {
repeat i16 charz , } ,	int16  crc ,}
")).
Eval vm_compute in ("<<<M3454>>>" ++ check (runes_of_ascii "/// triple
root
packet // packet A { u8 x, }
chars { @lengthOf(charz )
stringy,    0 ) // a // b
asx
    As
,
// trailing space 
// trailing space 
x_y_z {
repeat i16 charz , } ,	int16  crc ,}
")).
Eval vm_compute in ("<<<M3486>>>" ++ check (runes_of_ascii "/// triple
root
packet // packet A { u8 x, }
chars { @lengthOf(charz )
stringy,  @tag(  0 ) // a // b
asx
    As
x_y_z
// trailing space 
// trailing space 
, {
repeat i16 charz , } ,	int16  crc ,}
")).
Eval vm_compute in ("<<<M3518>>>" ++ check (runes_of_ascii "a")).
Eval vm_compute in ("<<<M3550>>>" ++ check (runes_of_ascii "@leftpad")).
Eval vm_compute in ("<<<M3582>>>" ++ check (runes_of_ascii """\\""")).
Eval vm_compute in ("<<<M3614>>>" ++ check (runes_of_ascii "	a")).
Eval vm_compute in ("<<<M3646>>>" ++ check (runes_of_ascii "packet A { char[ 3 y, }")).
Eval vm_compute in ("<<<M3678>>>" ++ check (runes_of_ascii "packet A { match k as n { [[1]] : B }, }")).
Eval vm_compute in ("<<<M3710>>>" ++ check (runes_of_ascii "root packet A { } root packet B { }")).
Eval vm_compute in ("<<<M3742>>>" ++ check (runes_of_ascii "{ }")).
Eval vm_compute in ("<<<M3774>>>" ++ check (runes_of_ascii ", u8 i32 uint8")).
Eval vm_compute in ("<<<M3806>>>" ++ check (runes_of_ascii "uint64 Logon as ) uint16 ;")).
Eval vm_compute in ("<<<M3838>>>" ++ check (runes_of_ascii "( } f32 packet packet u16 int32 ( packet : i32 true i16")).
Eval vm_compute in ("<<<M3870>>>" ++ check (runes_of_ascii "u64 @tag( '0'")).
Eval vm_compute in ("<<<M3902>>>" ++ check (runes_of_ascii "match")).
Eval vm_compute in ("<<<M3934>>>" ++ check (runes_of_ascii "zchar[ ( MetaData } : true u16 @lengthOf( uint16 string")).
Eval vm_compute in ("<<<M3966>>>" ++ check (runes_of_ascii "MetaData f32")).
Eval vm_compute in ("<<<M3998>>>" ++ check (runes_of_ascii "@calculatedFrom( @tag( int32 u8 as float64")).
